"""C09 (schedule clause): the level schedules built by the constructors of
relaxation::gauss_seidel<>::parallel_sweep<forward> and
relaxation::detail::ilu_solve<builtin>::sptr_solve<lower>.

"The level-scheduled parallel Gauss-Seidel and incomplete-LU triangular solves never place
two rows that read or write each other's unknown in the same level, so every interleaving
of the threads yields the serial sweep's result."

Bounded units (unwound): every square matrix with n <= NMAX rows and nnz <= ZMAX stored
entries, pattern fully symbolic (unsorted rows, duplicates, empty rows, structurally
non-symmetric).  Each constructor is verified twice:

(a) step by step, as anchored regions of the constructor text, with the postcondition of
    one step being literally (the same C predicate) the precondition of the next:
      *_levels_*   steps 1+2   S1: for every stored off-diagonal entry (i,c): level[c] != level[i]
                               and the row the serial sweep visits first is in the strictly lower
                               level;  S2: `order` is a permutation of 0..n-1 sorted by level and
                               `start` delimits the levels
      *_tasks      step 3      for an arbitrary thread count nt in [1,NT] and an arbitrary PAIR of
                               adjacent thread ids (tid, tid+1): S3 the task of tid in level lev
                               lies in [start[lev], start[lev+1]), task(0) begins at start[lev],
                               task(tid).end == task(tid+1).beg, task(nt-1) ends at start[lev+1]
                               => by induction over tid the nt tasks tile the level (disjoint, cover);
                               only slot [tid] of the shared tables is written (frame)
      *_pack_*     step 4      for an arbitrary thread id: S4 the packed copy ptr/col/val/ord[tid]
                               (and D[tid] for the upper solve) reproduces exactly the rows
                               order[t.beg..t.end) of every task in order, tasks renumbered to
                               consecutive local ranges; only slot [tid] is written (frame)
(b) end to end at a smaller bound with concrete thread count (*_schedule_*): the whole
    constructor body, contract stated on the OBSERVABLE result (the per-thread task lists and
    packed copies that sweep()/solve() execute between barriers):
      level(i) := index k of the task whose packed row range contains row i, over all threads;
      every row lies in exactly one (thread, task); every thread has the same number of tasks;
      S1 on level(); S4 on the packed copies.
"""
from cxc.extract import Cut, Rule, UF, Loop, IdxRule
from cxc.unit import Unit
from _common import member_rules
from _relax_common import (GS, ILUS, A_RELAX, VEC_PRELUDE, SCHED_MEMBERS, omp_region_rules,
                           row_iter_rules, local_vec_rules, member_vec_rules)


def wit(*names):
    out = []
    for n in names:
        out += ['w_%s_nrows' % n, 'w_%s_ncols' % n, 'w_%s_ptr' % n, 'w_%s_col' % n, 'w_%s_val' % n]
    return out


# ---------------------------------------------------------------------------- anchors
GS_CTOR = (r'template <class Matrix>\s*parallel_sweep\(const Matrix &A\)\s*: nthreads\(num_threads\(\)\), tasks\(nthreads\),'
           r'\s*ptr\(nthreads\), col\(nthreads\), val\(nthreads\), ord\(nthreads\)\s*')
SP_CTOR = (r'template <class Matrix>\s*sptr_solve\(const Matrix &A, const value_type \*_D = 0\)\s*: nthreads\(num_threads\(\)\), tasks\(nthreads\),'
           r'\s*ptr\(nthreads\), col\(nthreads\), val\(nthreads\), ord\(nthreads\)\s*')
STEP3 = r'std::vector<ptrdiff_t> thread_rows\('
GS_END = r'\n\s*\}\s*template <class Vector1, class Vector2>\s*void sweep\('
SP_END = r'\n\s*\}\s*template <class Vector>\s*void solve\(Vector &x\) const'
SP_STEP4 = r'if \(!lower\) D\.resize\('

# ---------------------------------------------------------------------------- spec (harness side)
SPEC_COMMON = r'''
/* strictly lower (lower != 0) / strictly upper triangular pattern: precondition of sptr_solve<lower>
 * (established by the ilu0/iluk/ilut constructors: see unit ilu0_structure)                          */
static _Bool crs_strict_tri(const crs *A, _Bool lower)
{
  for (size_t i = 0; i < NMAX; ++i) if (i < A->nrows)
    for (size_t j = 0; j < CAP_NNZ; ++j) if ((ptrdiff_t)j >= A->ptr[i] && (ptrdiff_t)j < A->ptr[i + 1]) {
      if (lower ? !((size_t)A->col[j] < i) : !((size_t)A->col[j] > i)) return 0;
    }
  return 1;
}
/* S1 over the stored entries of A on a level table lv[0..n).  before(c,i) = the serial sweep visits
 * row c before row i.  which = 0: entries whose column is swept BEFORE the row; 1: swept AFTER the row */
static _Bool spec_levels(const crs *A, const ptrdiff_t *lv, _Bool fwd, int which)
{
  for (size_t i = 0; i < NMAX; ++i) if (i < A->nrows)
    for (size_t j = 0; j < CAP_NNZ; ++j) if ((ptrdiff_t)j >= A->ptr[i] && (ptrdiff_t)j < A->ptr[i + 1]) {
      const size_t c = (size_t)A->col[j];
      if (c == i) continue;
      const _Bool before = fwd ? (c < i) : (c > i);
      if (which == 0 && before && !(lv[c] < lv[i])) return 0;
      if (which == 1 && !before && !(lv[c] > lv[i])) return 0;
    }
  return 1;
}
/* S2, structural part (= precondition of steps 3 and 4): start has nlev+1 entries, ascending from 0 to n;
 * order has n entries, all row ids in range */
static _Bool spec_order_struct(size_t n, ptrdiff_t nlev, const ptrdiff_t *order, size_t order_n, const ptrdiff_t *start, size_t start_n)
{
  if (!(nlev >= 0 && (size_t)nlev <= n && order_n == n && start_n == (size_t)nlev + 1)) return 0;
  if (start[0] != 0 || start[nlev] != (ptrdiff_t)n) return 0;
  for (size_t l = 0; l < NMAX; ++l) if ((ptrdiff_t)l < nlev) { if (!(start[l] <= start[l + 1])) return 0; }
  for (size_t k = 0; k < NMAX; ++k) if (k < n) { if (!(order[k] >= 0 && (size_t)order[k] < n)) return 0; }
  return 1;
}
/* S2: order is a permutation of 0..n-1 ... */
static _Bool spec_order_perm(size_t n, const ptrdiff_t *order)
{
  for (size_t i = 0; i < NMAX; ++i) if (i < n) {
    int cnt = 0;
    for (size_t k = 0; k < NMAX; ++k) if (k < n && (size_t)order[k] == i) cnt++;
    if (cnt != 1) return 0;
  }
  return 1;
}
/* ... sorted by level, start[l]..start[l+1] is level l */
static _Bool spec_order_by_level(size_t n, ptrdiff_t nlev, const ptrdiff_t *level, const ptrdiff_t *order, const ptrdiff_t *start)
{
  for (size_t i = 0; i < NMAX; ++i) if (i < n) { if (!(level[i] >= 0 && level[i] < nlev)) return 0; }
  for (size_t l = 0; l < NMAX; ++l) if ((ptrdiff_t)l < nlev)
    for (size_t k = 0; k < NMAX; ++k) if ((ptrdiff_t)k >= start[l] && (ptrdiff_t)k < start[l + 1]) {
      if (level[order[k]] != (ptrdiff_t)l) return 0;
    }
  return 1;
}
/* frame of the per-thread regions: every slot other than those of the executed thread ids is unchanged */
static _Bool sched_slot_eq(const sched *a, const sched *b, int t, _Bool with_tasks)
{
  if (with_tasks) {
    if (a->tasks[t].n != b->tasks[t].n) return 0;
    for (size_t k = 0; k < CAP_TASK; ++k) if (a->tasks[t].d[k].beg != b->tasks[t].d[k].beg || a->tasks[t].d[k].end != b->tasks[t].d[k].end) return 0;
  }
  if (a->ptr[t].n != b->ptr[t].n || a->col[t].n != b->col[t].n || a->val[t].n != b->val[t].n || a->ord[t].n != b->ord[t].n || a->D[t].n != b->D[t].n) return 0;
  for (size_t k = 0; k < CAP_VROW; ++k) if (a->ptr[t].d[k] != b->ptr[t].d[k] || a->ord[t].d[k] != b->ord[t].d[k] || a->D[t].d[k] != b->D[t].d[k]) return 0;
  for (size_t k = 0; k < CAP_VNNZ; ++k) if (a->col[t].d[k] != b->col[t].d[k] || a->val[t].d[k] != b->val[t].d[k]) return 0;
  return 1;
}
/* S4 for one thread: packed rows ord[t][r] == rows of A (and D) */
static _Bool spec_packed_rows(const sched *s, int t, const crs *A, const V *Dg, _Bool withD)
{
  if (s->ptr[t].n != s->ord[t].n + 1 || s->ptr[t].d[0] != 0) return 0;
  if (s->col[t].n != s->val[t].n) return 0;
  if ((size_t)s->ptr[t].d[s->ptr[t].n - 1] != s->col[t].n) return 0;
  if (withD && s->D[t].n != s->ord[t].n) return 0;
  for (size_t r = 0; r < CAP_VROW; ++r) if (r < s->ord[t].n) {
    const ptrdiff_t i = s->ord[t].d[r];
    const ptrdiff_t b = s->ptr[t].d[r], e = s->ptr[t].d[r + 1];
    if (!(i >= 0 && (size_t)i < A->nrows)) return 0;
    if (e - b != A->ptr[i + 1] - A->ptr[i]) return 0;
    if (!(b >= 0 && (size_t)e <= s->col[t].n)) return 0;
    if (withD && s->D[t].d[r] != Dg[i]) return 0;
    for (ptrdiff_t k = 0; k < CAP_VNNZ; ++k) if (k < e - b) {
      if (s->col[t].d[b + k] != A->col[A->ptr[i] + k]) return 0;
      if (s->val[t].d[b + k] != A->val[A->ptr[i] + k]) return 0;
    }
  }
  return 1;
}
'''

SPEC_E2E = r'''
/* observable schedule: g_lv[i] = task index (level) of row i, g_cnt[i] = number of (thread, task)
 * ranges that contain row i; returns 0 if the per-thread tables are not even structurally
 * consistent (same number of tasks per thread, consecutive ranges covering ord[tid]) */
static ptrdiff_t g_lv[NMAX + 1]; static int g_cnt[NMAX + 1];
static _Bool sched_tables(const sched *s, size_t n)
{
  if (!(s->nthreads == NT)) return 0;
  for (size_t i = 0; i < NMAX + 1; ++i) { g_lv[i] = -1; g_cnt[i] = 0; }
  for (int t = 0; t < NT; ++t) {
    if (s->tasks[t].n != s->tasks[0].n) return 0;            /* one task per level and thread: equal barrier counts */
    if (s->ptr[t].n != s->ord[t].n + 1) return 0;
    ptrdiff_t next = 0;
    for (size_t k = 0; k < CAP_TASK; ++k) if (k < s->tasks[t].n) {
      const ptrdiff_t b = s->tasks[t].d[k].beg, e = s->tasks[t].d[k].end;
      if (!(b == next && b <= e && (size_t)e <= s->ord[t].n)) return 0;
      next = e;
      for (ptrdiff_t r = 0; r < CAP_VROW; ++r) if (r >= b && r < e) {
        const ptrdiff_t i = s->ord[t].d[r];
        if (!(i >= 0 && (size_t)i < n)) return 0;
        g_cnt[i]++; g_lv[i] = (ptrdiff_t)k;
      }
    }
    if ((size_t)next != s->ord[t].n) return 0;               /* every packed row belongs to a task */
  }
  return 1;
}
static _Bool sched_partition(size_t n)
{
  for (size_t i = 0; i < NMAX; ++i) if (i < n) { if (g_cnt[i] != 1) return 0; }
  return 1;
}
static _Bool sched_packed(const sched *s, const crs *A, const V *Dg, _Bool withD)
{
  for (int t = 0; t < NT; ++t) if (!spec_packed_rows(s, t, A, Dg, withD)) return 0;
  return 1;
}
'''

A_IDX = [IdxRule(r'A\.col|A\.val', 'nonzeros(A)', None), IdxRule(r'A\.ptr', 'rows(A) + 1', None)]


def loc_idx(*names):
    return [IdxRule(r'(%s)' % n, r'\1_n', '+') for n in names]


def member_idx(with_D=False):
    rs = [IdxRule(r'self->(?:tasks|ptr|col|val|ord)', 'self->nthreads', '+')]
    if with_D:
        rs += [IdxRule(r'self->D', 'self->D_len', '+')]
    return rs


D_RULES = [Rule(r'self->D\.resize\((?P<k>[^;]+)\);', r'VRESIZE_D(self, \g<k>);', 1, why='R-vec-member')]
SP_AUTO = lambda k: [Rule(r'\bauto (\w+) = A\.ptr', r'ptrdiff_t \1 = A.ptr', k, why='R-auto (ptr_type)')]
PSUM = [Rule(r'std_partial_sum\(', 'std_partial_sum_P(', 1)]

# per-loop unwinding limits keyed on the loop-header syntax of the generated C (unwinding assertions stay on:
# a limit that is too small is reported, never silently accepted).  Row loops run <= n <= NMAX times,
# entry loops <= nnz <= ZMAX times, thread loops NT times; everything else keeps the global --unwind.
UNWINDSET = [(r'< NT;', 'NT+1'), (r'< CAP_LOC;', 'max(NMAX+2,NT)+1'),
             (r'omp_k < OMP_NCALLS', 'OMPK+1'),
             (r'for\s*\(ptrdiff_t (?:a|j) = A\.ptr', 'ZMAX+1'),
             (r'for\(ptrdiff_t (?:i|r|lev) = ', 'NMAX+1'),   # repository style: no blank after `for` (spec loops are written `for (`)
             (r'for \(size_t t_i = 0;', 'NMAX+1')]


def mk(name, **kw):
    kw.setdefault('props', ['C09', 'C10'])
    kw.setdefault('mode', 'unwound')
    kw.setdefault('model', 'int32')
    kw.setdefault('unwind', 'max(ZMAX,NMAX)+3')
    kw.setdefault('assumptions', A_RELAX)
    kw.setdefault('replay', 'relax')
    kw.setdefault('timeout', 300)
    exempt = kw.pop('cover_exempt', None)
    u = Unit(name=name, **kw)
    u.unwindset = UNWINDSET
    if exempt:
        u.cover_exempt = exempt
    return u


# ============================================================================ (a) steps 1+2: levels, order, start
LEVELS_EPILOGUE = r'''
  /* ghost epilogue: postconditions over the constructor's locals */
  ENSURES(!g_cap_exceeded, "bound artefact: vectors within verification capacity");
  ENSURES(spec_levels(A_p, level, SWEEP_FWD, 0), "S1: entry (i,c) whose column c is swept before row i: level[c] < level[i]");
  ENSURES(spec_levels(A_p, level, SWEEP_FWD, 1), "S1: entry (i,c) whose column c is swept after row i: level[c] > level[i] (rows that read or write each other's unknown are never in one level)");
  { const _Bool ok = spec_order_struct((size_t)n, nlev, order, order_n, start, start_n);
    ENSURES(ok, "S2: start has nlev+1 ascending entries from 0 to n, order has n row ids in range");
    ENSURES(!ok || spec_order_perm((size_t)n, order), "S2: order is a permutation of 0..n-1");
    ENSURES(!ok || spec_order_by_level((size_t)n, nlev, level, order, start), "S2: order is sorted by level, start[l]..start[l+1] holds exactly the rows of level l"); }
'''


def levels_unit(kind, flag):
    gs = kind == 'gs'
    if gs:
        tag = 'fwd' if flag else 'bwd'
        name = 'gs_levels_' + tag
        fn = 'relaxation::gauss_seidel<Backend>::parallel_sweep<%s>::parallel_sweep (steps 1-2: levels, order)' % ('true' if flag else 'false')
        cut = Cut(GS, GS_CTOR + r'\{', kind='region', begin_exclusive=True, end=STEP3,
                  rules=row_iter_rules(1, 1, 0) + local_vec_rules(['level', 'order', 'start']) + PSUM
                        + A_IDX + loc_idx('level', 'start', 'order'))
        pre = 'crs_wf(A, NMAX, NMAX, ZMAX) && A->nrows == A->ncols'
        tparam = 'forward'
        # template parameter is a constant: the branch for the other direction is unreachable by construction
        exempt = r'^canary body\.(?:%s)$' % ('4|7' if flag else '3|6')  # the branch of `if (forward)` not taken for this template constant (two such ifs)
        desc = ('levels of the parallel %s Gauss-Seidel sweep: no two rows of one level read or write each other\'s unknown '
                '(any pattern, incl. structurally non-symmetric); order/start are the counting sort by level' % ('forward' if flag else 'backward'))
    else:
        tag = 'lower' if flag else 'upper'
        name = 'sptr_levels_' + tag
        fn = 'relaxation::detail::ilu_solve<builtin>::sptr_solve<%s>::sptr_solve (steps 1-2: levels, order)' % ('true' if flag else 'false')
        cut = Cut(ILUS, SP_CTOR + r'\{', kind='region', begin_exclusive=True, end=STEP3,
                  rules=SP_AUTO(1) + local_vec_rules(['level', 'order', 'start']) + PSUM
                        + A_IDX + loc_idx('level', 'start', 'order'))
        pre = 'crs_wf(A, NMAX, NMAX, ZMAX) && A->nrows == A->ncols && crs_strict_tri(A, %d)' % (1 if flag else 0)
        tparam = 'lower'
        exempt = None
        desc = ('levels of the level-scheduled %s triangular solve: every entry (i,c) of the strictly %s factor has level[c] < level[i]; '
                'order/start are the counting sort by level' % (tag, tag))
    return mk(
        name, functions=[fn], desc=desc, cuts={'body': cut},
        template='#define MODEL_INT32 1\n' + VEC_PRELUDE + SPEC_COMMON + r'''
WITNESS_CRS(A)
/* contract (enforced by the harness and the ghost epilogue):
 *   requires  %(pre)s
 *   ensures   S1, S2 (module docstring)                                                    */
static void f_levels(const crs *A_p)
{
  const _Bool %(tparam)s = TPARAM;   /* template <bool %(tparam)s> */
#define A (*A_p)
/*@CUT:body@*/
#undef A
''' % dict(pre=pre, tparam=tparam) + LEVELS_EPILOGUE + r'''
}
void h_levels(void)
{
  crs *A = crs_input();
  REQUIRES(%(pre)s);
  MIRROR_CRS(A, A);
  crs_snap s; crs_snapshot(A, &s);
  f_levels(A);
  ENSURES(crs_unchanged(A, &s), "frame: the input matrix is not modified");
  CANARY("harness.end");
}
''' % dict(pre=pre),
        entry='h_levels', defines={'TPARAM': 1 if flag else 0, 'SWEEP_FWD': 1 if flag else 0, 'NT': 1, 'OMPK': 1},
        # Gauss-Seidel levels: the second pass over each row (not-yet-swept neighbours) makes nnz <= 6 too slow for the quick tier
        variants=[{'NMAX': 4, 'ZMAX': 4}] if gs else [{'NMAX': 4, 'ZMAX': 6}],
        thorough_variants=[{'NMAX': 4, 'ZMAX': 6}, {'NMAX': 5, 'ZMAX': 8}],
        bound_text=('all square matrices with n <= 4, nnz <= %d (thorough: nnz <= 6 and n <= 5, nnz <= 8), pattern symbolic; independent of the thread count' % (4 if gs else 6)),
        witness=wit('A'), cover_exempt=exempt,
        not_decided=['n beyond the bound'])


# ============================================================================ (a) step 3: tasks of one pair of adjacent threads
def tasks_unit(kind):
    gs = kind == 'gs'
    if gs:
        name = 'gs_tasks'
        fn = 'relaxation::gauss_seidel<Backend>::parallel_sweep<forward>::parallel_sweep (step 3: tasks; same text for both directions)'
        cut = Cut(GS, STEP3, kind='region', end=r'#pragma omp parallel\b.*?(?=^#pragma omp parallel\b)', end_inclusive=True,
                  flags=16 | 8,  # re.S | re.M
                  rules=omp_region_rules(1) + member_rules(SCHED_MEMBERS) + local_vec_rules(['thread_rows', 'thread_cols'])
                        + member_vec_rules(1, 1, 0, rangefor=False)
                        + loc_idx('start', 'order', 'thread_rows|thread_cols') + member_idx())
    else:
        name = 'sptr_tasks'
        fn = 'relaxation::detail::ilu_solve<builtin>::sptr_solve<lower>::sptr_solve (step 3: tasks; same text for lower and upper)'
        cut = Cut(ILUS, STEP3, kind='region', end=SP_STEP4,
                  rules=omp_region_rules(1) + member_rules(SCHED_MEMBERS) + local_vec_rules(['thread_rows', 'thread_cols'])
                        + member_vec_rules(1, 1, 0, rangefor=False)
                        + A_IDX + loc_idx('start', 'order', 'thread_rows|thread_cols') + member_idx())
    return mk(
        name, functions=[fn],
        desc='for every thread count nt <= NT and every pair of adjacent thread ids: the per-level task ranges tile the level '
             '(first starts at start[lev], consecutive, last ends at start[lev+1]); one task per level and thread; only slot [tid] written',
        cuts={'body': cut},
        template='#define MODEL_INT32 1\n' + VEC_PRELUDE + SPEC_COMMON + r'''
WITNESS_CRS(A)
int w_nt, w_tid; ptrdiff_t w_nlev; ptrdiff_t w_start[CAP_LOC], w_order[CAP_LOC];
/* contract:
 *   requires  A well-formed square, (order, start, nlev) as left by steps 1+2 (spec_order_struct),
 *             1 <= nthreads <= NT, thread ids g_tid .. g_tid+ncalls-1 < nthreads, all vectors empty
 *   ensures   S3 for the executed thread ids, frame                                           */
static void f_tasks(sched *self, const crs *A_p, ptrdiff_t n, ptrdiff_t nlev,
                    const ptrdiff_t *start, size_t start_n, const ptrdiff_t *order, size_t order_n,
                    int g_tid, int ncalls)
{
#define A (*A_p)
#define OMP_NCALLS ncalls
#define OMP_TID(k) (g_tid + (k))
/*@CUT:body@*/
#undef A
  /* ghost epilogue (locals): the reserve() arguments of step 4 are non-negative */
  for (int k = 0; k < 2; ++k) if (k < ncalls) {
      ENSURES(thread_rows[g_tid + k] >= 0 && thread_rows[g_tid + k] <= n && thread_cols[g_tid + k] >= 0,
            "step 3: thread_rows[tid] in [0,n], thread_cols[tid] >= 0 (reserve() arguments of step 4)");
  }
}
static _Bool spec_tasks(const sched *s, int nt, int g, int ncalls, ptrdiff_t nlev, const ptrdiff_t *start)
{
  for (int k = 0; k < 2; ++k) if (k < ncalls) { if (s->tasks[g + k].n != (size_t)nlev) return 0; }   /* one task per level */
  for (size_t l = 0; l < NMAX; ++l) if ((ptrdiff_t)l < nlev) {
    for (int k = 0; k < 2; ++k) if (k < ncalls) {
      const task t = s->tasks[g + k].d[l];
      if (!(start[l] <= t.beg && t.beg <= t.end && t.end <= start[l + 1])) return 0;       /* inside the level */
    }
    if (g == 0 && s->tasks[0].d[l].beg != start[l]) return 0;                             /* first thread starts the level */
    if (ncalls == 2 && s->tasks[g].d[l].end != s->tasks[g + 1].d[l].beg) return 0;        /* adjacent threads: consecutive ranges */
    if (g + ncalls == nt && s->tasks[nt - 1].d[l].end != start[l + 1]) return 0;           /* last thread ends the level */
  }
  return 1;
}
void h_tasks(void)
{
  crs *A = crs_input();
  REQUIRES(crs_wf(A, NMAX, NMAX, ZMAX) && A->nrows == A->ncols);
  MIRROR_CRS(A, A);
  const ptrdiff_t n = (ptrdiff_t)A->nrows;
  ptrdiff_t nlev; loc_vec start, order;
  for (size_t i = 0; i < CAP_LOC; ++i) { ptrdiff_t a, b; start[i] = a; order[i] = b; }
  REQUIRES(nlev >= 0 && nlev <= n);
  REQUIRES(spec_order_struct((size_t)n, nlev, order, (size_t)n, start, (size_t)nlev + 1)
           && spec_order_perm((size_t)n, order));                                            /* = postcondition S2 of *_levels_* */
  const int nt = NT, g = TID;          /* thread count and first thread id of the pair: concrete per variant */
  const int ncalls = nt >= 2 ? 2 : 1;
  w_nt = nt; w_tid = g; w_nlev = nlev;
  for (size_t i = 0; i < CAP_LOC; ++i) { w_start[i] = start[i]; w_order[i] = order[i]; }
  sched S, S0;
  sched_init(&S, nt);
  S0 = S;
  f_tasks(&S, A, n, nlev, start, (size_t)nlev + 1, order, (size_t)n, g, ncalls);
  ENSURES(!g_cap_exceeded, "bound artefact: vectors within verification capacity");
  ENSURES(spec_tasks(&S, nt, g, ncalls, nlev, start), "S3: one task per level; task(tid) lies inside the level, task(0) starts at start[lev], task(tid).end == task(tid+1).beg, task(nt-1) ends at start[lev+1]: the nt tasks tile the level (disjoint and covering)");
  _Bool frame = S.nthreads == S0.nthreads && S.D_len == S0.D_len;
  for (int t = 0; t < NT; ++t) frame = frame && sched_slot_eq(&S, &S0, t, !(t >= g && t < g + ncalls));
  ENSURES(frame, "frame: step 3 for thread tid writes only tasks[tid] (no other slot of the shared tables)");
  CANARY("harness.end");
}
''',
        entry='h_tasks',
        variants=[{'NMAX': 4, 'ZMAX': 6, 'NT': nt, 'TID': t, 'OMPK': min(nt, 2)} for nt in (1, 2, 3, 4) for t in range(max(nt - 1, 1))],
        thorough_variants=[{'NMAX': 5, 'ZMAX': 8, 'NT': nt, 'TID': t, 'OMPK': min(nt, 2)} for nt in (1, 2, 3, 4, 5, 6, 7, 8) for t in range(max(nt - 1, 1))],
        bound_text='n <= 4, nnz <= 6, thread counts 1..4 (thorough: n <= 5, nnz <= 8, 1..8), every adjacent pair of thread ids (one variant per (nt, pair))',
        witness=wit('A') + ['w_nt', 'w_tid', 'w_nlev', 'w_start', 'w_order'],
        not_decided=['thread counts above the bound'])


# ============================================================================ (a) step 4: packed copy of one thread
def pack_unit(kind, flag=None):
    gs = kind == 'gs'
    if gs:
        name = 'gs_pack'
        fn = 'relaxation::gauss_seidel<Backend>::parallel_sweep<forward>::parallel_sweep (step 4: packed copy; same text for both directions)'
        cut = Cut(GS, r'^#pragma omp parallel\n', kind='region', nth=1, end=GS_END, flags=16 | 8,
                  rules=omp_region_rules(1) + row_iter_rules(1, 1, 1) + member_rules(SCHED_MEMBERS)
                        + member_vec_rules(5, 4, 2, taskctor=False)
                        + A_IDX + loc_idx('order', 'thread_rows|thread_cols') + member_idx())
        withD = 0
        pre_tri = ''
        exempt = None
    else:
        tag = 'lower' if flag else 'upper'
        name = 'sptr_pack_' + tag
        fn = 'relaxation::detail::ilu_solve<builtin>::sptr_solve<%s>::sptr_solve (step 4: packed copy)' % ('true' if flag else 'false')
        cut = Cut(ILUS, SP_STEP4, kind='region', end=SP_END,
                  rules=omp_region_rules(1) + SP_AUTO(1) + member_rules(SCHED_MEMBERS) + D_RULES
                        + member_vec_rules(6, 5, 2, taskctor=False)
                        + A_IDX + [IdxRule(r'_D', 'rows(A)', 1)] + loc_idx('order', 'thread_rows|thread_cols') + member_idx(True))
        withD = 0 if flag else 1
        pre_tri = ''
        # template parameter `lower` is a constant: the D statements are "if (!lower) stmt;" without braces -> no canaries
        exempt = None
    return mk(
        name, functions=[fn],
        desc='for every thread id: ptr/col/val/ord[tid]%s reproduce exactly the rows order[t.beg..t.end) of every task, in order; '
             'tasks renumbered to consecutive local ranges; only slot [tid] written' % (' and D[tid]' if withD else ''),
        cuts={'body': cut},
        template='#define MODEL_INT32 1\n' + VEC_PRELUDE + SPEC_COMMON + r'''
WITNESS_CRS(A)
int w_tid; ptrdiff_t w_ntasks; ptrdiff_t w_tbeg[CAP_TASK], w_tend[CAP_TASK]; ptrdiff_t w_order[CAP_LOC]; V w_D[NMAX + 1];
/* contract:
 *   requires  A well-formed square; order has n row ids in range; tasks[tid] = ascending ranges inside [0,n)
 *             (S3: each inside its level, levels ascending); ptr/col/val/ord/D[tid] empty; reserve sizes >= 0
 *   ensures   S4 for thread tid, frame                                                          */
static void f_pack(sched *self, const crs *A_p, const V *_D, const ptrdiff_t *order, size_t order_n,
                   const ptrdiff_t *thread_rows, size_t thread_rows_n, const ptrdiff_t *thread_cols, size_t thread_cols_n,
                   int g_tid)
{
  const _Bool lower = TPARAM;   /* template <bool lower> (sptr_solve only) */
  (void)lower; (void)_D;
#define A (*A_p)
#define OMP_NCALLS 1
#define OMP_TID(k) (g_tid)
/*@CUT:body@*/
#undef A
}
/* tasks of one thread as left by step 3 (S3 + start ascending): 0 <= b0 <= e0 <= b1 <= e1 <= ... <= n */
static _Bool pre_tasks_ascending(const vec_task *T, size_t n)
{
  if (T->n > NMAX) return 0;
  ptrdiff_t last = 0;
  for (size_t k = 0; k < NMAX; ++k) if (k < T->n) {
    if (!(last <= T->d[k].beg && T->d[k].beg <= T->d[k].end && (size_t)T->d[k].end <= n)) return 0;
    last = T->d[k].end;
  }
  return 1;
}
static _Bool spec_pack_tasks(const sched *s, const sched *s0, int t, const ptrdiff_t *order)
{
  if (s->tasks[t].n != s0->tasks[t].n) return 0;
  ptrdiff_t next = 0;
  for (size_t k = 0; k < NMAX; ++k) if (k < s->tasks[t].n) {
    const task o = s0->tasks[t].d[k], w = s->tasks[t].d[k];
    if (!(w.beg == next && w.end - w.beg == o.end - o.beg)) return 0;     /* consecutive local ranges of the same size */
    for (ptrdiff_t q = 0; q < NMAX; ++q) if (q < o.end - o.beg) {
      if (s->ord[t].d[w.beg + q] != order[o.beg + q]) return 0;           /* the same rows in the same order */
    }
    next = w.end;
  }
  return (size_t)next == s->ord[t].n;
}
void h_pack(void)
{
  crs *A = crs_input();
  REQUIRES(crs_wf(A, NMAX, NMAX, ZMAX) && A->nrows == A->ncols);
  MIRROR_CRS(A, A);
  const size_t n = A->nrows;
  loc_vec order, thread_rows, thread_cols; V Dg[NMAX + 1];
  for (size_t i = 0; i < CAP_LOC; ++i) { ptrdiff_t a, b, c; order[i] = a; thread_rows[i] = b; thread_cols[i] = c; }
  for (size_t i = 0; i < NMAX + 1; ++i) { V d; Dg[i] = d; w_D[i] = d; }
  for (size_t k = 0; k < NMAX; ++k) if (k < n) REQUIRES(order[k] >= 0 && (size_t)order[k] < n);
  REQUIRES(spec_order_perm(n, order));                  /* = postcondition S2 of *_levels_* */
  const int g = TID;                                    /* thread id: concrete per variant */
  sched S, S0;
  sched_init(&S, NT);
#if WITH_D
  /* D.resize(nthreads) is part of the cut for sptr_solve */
#endif
  { vec_task T; S.tasks[g] = T; }                       /* arbitrary tasks of thread g ... */
  REQUIRES(pre_tasks_ascending(&S.tasks[g], n));        /* ... as left by step 3 */
  REQUIRES(thread_rows[g] >= 0 && thread_rows[g] <= (ptrdiff_t)n && thread_cols[g] >= 0);   /* = epilogue of *_tasks */
  w_tid = g; w_ntasks = (ptrdiff_t)S.tasks[g].n;
  for (size_t k = 0; k < CAP_TASK; ++k) { w_tbeg[k] = S.tasks[g].d[k].beg; w_tend[k] = S.tasks[g].d[k].end; }
  for (size_t i = 0; i < CAP_LOC; ++i) w_order[i] = order[i];
  S0 = S;
  crs_snap s; crs_snapshot(A, &s);
  f_pack(&S, A, Dg, order, n, thread_rows, NT, thread_cols, NT, g);
  ENSURES(!g_cap_exceeded, "bound artefact: vectors within verification capacity");
  ENSURES(spec_pack_tasks(&S, &S0, g, order), "S4: tasks renumbered to consecutive local ranges of the same sizes; ord[tid] lists the rows order[t.beg..t.end) of every task in order");
  ENSURES(spec_packed_rows(&S, g, A, Dg, WITH_D), "S4: ptr/col/val[tid] (and D[tid]) reproduce the rows ord[tid][r] of A exactly, entry by entry in order");
  _Bool frame = S.nthreads == S0.nthreads;
  for (int t = 0; t < NT; ++t) if (t != g) frame = frame && sched_slot_eq(&S, &S0, t, 1);
  ENSURES(frame, "frame: step 4 for thread tid writes only slot [tid] of the shared tables");
  ENSURES(crs_unchanged(A, &s), "frame: the input matrix is not modified");
  CANARY("harness.end");
}
''',
        entry='h_pack', defines={'TPARAM': 1 if flag else 0, 'WITH_D': withD, 'NT': 2},
        variants=[{'NMAX': 2, 'ZMAX': 3, 'TID': t, 'OMPK': 1} for t in (0, 1)],
        thorough_variants=[{'NMAX': 3, 'ZMAX': 3, 'TID': t, 'OMPK': 1} for t in (0, 1)],
        bound_text='n <= 2, nnz <= 3 (thorough: n <= 3, nnz <= 3; measured: 8 s / 120 s per variant, n <= 3, nnz <= 4 does not finish in 300 s), '
                   'arbitrary permutation `order`, arbitrary ascending tasks of one thread id (slots 0 and 1 of 2)',
        witness=wit('A') + ['w_tid', 'w_ntasks', 'w_tbeg', 'w_tend', 'w_order', 'w_D'],
        cover_exempt=exempt,
        not_decided=['n beyond the bound'])


# ============================================================================ (b) end to end, concrete thread count
def e2e_unit(kind, flag):
    gs = kind == 'gs'
    if gs:
        tag = 'fwd' if flag else 'bwd'
        name = 'gs_schedule_' + tag
        fn = 'relaxation::gauss_seidel<Backend>::parallel_sweep<%s>::parallel_sweep(const Matrix&)' % ('true' if flag else 'false')
        cut = Cut(GS, GS_CTOR + r'(?=\{)',
                  rules=omp_region_rules(2) + row_iter_rules(2, 2, 1) + member_rules(SCHED_MEMBERS)
                        + local_vec_rules(['level', 'order', 'start', 'thread_rows', 'thread_cols']) + member_vec_rules(6, 5, 2) + PSUM
                        + A_IDX + loc_idx('level', 'start', 'order', 'thread_rows|thread_cols') + member_idx())
        pre = 'crs_wf(A, NMAX, NMAX, ZMAX) && A->nrows == A->ncols'
        tparam = 'forward'
        withD = 0
        exempt = r'^canary body\.(?:%s)$' % ('4|7' if flag else '3|6')  # the branch of `if (forward)` not taken for this template constant (two such ifs)
        desc = 'whole constructor, observable schedule of the parallel %s Gauss-Seidel sweep' % ('forward' if flag else 'backward')
    else:
        tag = 'lower' if flag else 'upper'
        name = 'sptr_schedule_' + tag
        fn = 'relaxation::detail::ilu_solve<builtin>::sptr_solve<%s>::sptr_solve(const Matrix&, const value_type*)' % ('true' if flag else 'false')
        cut = Cut(ILUS, SP_CTOR + r'(?=\{)',
                  rules=omp_region_rules(2) + SP_AUTO(2) + member_rules(SCHED_MEMBERS) + D_RULES
                        + local_vec_rules(['level', 'order', 'start', 'thread_rows', 'thread_cols']) + member_vec_rules(7, 6, 2) + PSUM
                        + A_IDX + [IdxRule(r'_D', 'rows(A)', 1)]
                        + loc_idx('level', 'start', 'order', 'thread_rows|thread_cols') + member_idx(True))
        pre = 'crs_wf(A, NMAX, NMAX, ZMAX) && A->nrows == A->ncols && crs_strict_tri(A, %d)' % (1 if flag else 0)
        tparam = 'lower'
        withD = 0 if flag else 1
        exempt = None
        desc = 'whole constructor, observable schedule of the level-scheduled %s triangular solve' % tag
    return mk(
        name, functions=[fn],
        desc=desc + ': every row in exactly one (level, thread) range, equal task counts, no intra-level dependency, packed copy exact',
        cuts={'body': cut},
        template='#define MODEL_INT32 1\n' + VEC_PRELUDE + SPEC_COMMON + SPEC_E2E + r'''
WITNESS_CRS(A)
V w_D[NMAX + 1];
/* contract (enforced by the harness below):
 *   requires  %(pre)s
 *   assigns   *self only
 *   ensures   S1 S2 S3 S4 on the observable tables (module docstring, part (b))             */
static void f_sched(sched *self, const crs *A_p, const V *_D)
{
  const _Bool %(tparam)s = TPARAM;   /* template <bool %(tparam)s> */
  (void)_D;
  sched_init(self, NT);            /* member initialisers: nthreads(num_threads()), tasks(nthreads), ptr(nthreads), ... */
#define A (*A_p)
#define OMP_NCALLS (self->nthreads)
#define OMP_TID(k) (k)
/*@CUT:body@*/
#undef A
}
void h_sched(void)
{
  crs *A = crs_input();
  REQUIRES(%(pre)s);
  MIRROR_CRS(A, A);
  V Dg[NMAX + 1];
  for (size_t i = 0; i < NMAX + 1; ++i) { V d; Dg[i] = d; w_D[i] = d; }
  crs_snap s; crs_snapshot(A, &s);
  sched S;
  f_sched(&S, A, Dg);
  ENSURES(!g_cap_exceeded, "bound artefact: vectors within verification capacity");
  _Bool ok = sched_tables(&S, A->nrows);
  ENSURES(ok, "S3: every thread has one task per level (equal barrier counts); the tasks of a thread are consecutive ranges covering its packed rows; row ids in range");
  ENSURES(!ok || sched_partition(A->nrows), "S2/S3: every row lies in exactly one (level, thread) range: per level the thread ranges are disjoint and cover the level, order is a permutation");
  ENSURES(!ok || spec_levels(A, g_lv, SWEEP_FWD, 0), "S1: entry (i,c) whose column c is swept before row i: level(c) < level(i)");
  ENSURES(!ok || spec_levels(A, g_lv, SWEEP_FWD, 1), "S1: entry (i,c) whose column c is swept after row i: level(c) > level(i) (rows that read or write each other's unknown are never in one level)");
  ENSURES(!ok || sched_packed(&S, A, Dg, WITH_D), "S4: the per-thread packed copy ptr/col/val/ord (and D) reproduces the rows of its tasks exactly, in order");
  ENSURES(crs_unchanged(A, &s), "frame: the input matrix is not modified");
  CANARY("harness.end");
}
''' % dict(pre=pre, tparam=tparam),
        entry='h_sched', defines={'TPARAM': 1 if flag else 0, 'SWEEP_FWD': 1 if flag else 0, 'WITH_D': withD},
        variants=[{'NMAX': 2, 'ZMAX': 2, 'NT': 2, 'OMPK': 2}],
        thorough_variants=[{'NMAX': 3, 'ZMAX': 3, 'NT': 2, 'OMPK': 2}, {'NMAX': 2, 'ZMAX': 2, 'NT': 3, 'OMPK': 3}],
        bound_text='whole constructor: n <= 2, nnz <= 2, 2 threads (thorough: n <= 3, nnz <= 3 / 3 threads); the larger bounds are covered step by step by *_levels_*, *_tasks, *_pack_*',
        witness=wit('A') + ['w_D'], cover_exempt=exempt,
        not_decided=['what the OpenMP runtime does with the regions (A-omp)', 'n beyond the bound'])


# ============================================================================ C06: gauss_seidel::serial_sweep
SERIAL_SWEEP = Unit(
    name='gs_serial_sweep', props=['C06', 'C10'],
    functions=['relaxation::gauss_seidel<Backend>::serial_sweep(A, rhs, x, forward)'],
    desc='one serial Gauss-Seidel sweep: x_i = inverse(a_ii) * (f_i - sum_{c != i} a_ic x_c), entries folded in row order, '
         'already-swept unknowns new and the others old; forward (pre) and backward (post); only x is written',
    cuts={'body': Cut(
        GS, r'static void serial_sweep\(\s*const Matrix &A, const VectorRHS &rhs, VectorX &x, bool forward\)\s*(?=\{)',
        rules=[Rule(r'^\s*typedef typename [^;]*;\n', '', 2, why='value types are bound by the value model', early=True),
               Rule(r'^(\s*)(\w+) ([-+*/])= (?P<e>[^;]+);', r'\1\2 = \2 \3 (\g<e>);', '+', why='R-compound a op= e -> a = a op (e)')]
              + row_iter_rules(1, 1, 1)
              + [IdxRule(r'A\.col|A\.val', 'nonzeros(A)', None), IdxRule(r'A\.ptr', 'rows(A) + 1', None),
                 IdxRule(r'x|rhs', 'rows(A)', '+')],
        uf=[UF(r'\bX = (?P<e>[^;]+);', '+'), UF(r'x\[[^;=]*\]\s*=\s*(?P<e>[^;=][^;]*);', '+')])},
    template='#define MODEL_UF 1\n' + VEC_PRELUDE + r'''
typedef V rhs_type;
WITNESS_CRS(A)
int w_forward;
/* contract (enforced by the harness):
 *   requires  A square well-formed, every row has exactly one stored diagonal entry (property: non-zero diagonal)
 *   assigns   x[0..n-1]
 *   ensures   x_i == inverse(a_ii) * (f_i - sum_{c != i} a_ic * x_c) folded in row order, x_c new iff row c was swept before row i */
static void f_serial_sweep(const crs *A_p, const V *rhs, V *x, _Bool forward)
{
#define A (*A_p)
/*@CUT:body@*/
#undef A
}
static _Bool one_diag_per_row(const crs *A)
{
  for (size_t i = 0; i < NMAX; ++i) if (i < A->nrows) { if (count_in_row(A, i, i) != 1) return 0; }
  return 1;
}
void h_serial_sweep(void)
{
  crs *A = crs_input();
  REQUIRES(crs_wf(A, NMAX, NMAX, ZMAX) && A->nrows == A->ncols && one_diag_per_row(A));
  MIRROR_CRS(A, A);
  const size_t n = A->nrows;
  V f[NMAX + 1], x[NMAX + 1], xe[NMAX + 1], f0[NMAX + 1];
  for (size_t i = 0; i < NMAX + 1; ++i) { V a, b; f[i] = a; f0[i] = a; x[i] = b; xe[i] = b; }
  const _Bool fwd = FWD; w_forward = fwd;      /* direction: concrete per variant (both are run) */
  crs_snap s; crs_snapshot(A, &s);
  /* the defining formula, evaluated in sweep order on the ghost copy xe */
  for (size_t k = 0; k < NMAX; ++k) if (k < n) {
    const size_t i = fwd ? k : n - 1 - k;
    V aii = MATH_identity(V), X = f[i];
    for (size_t j = 0; j < CAP_NNZ; ++j) if ((ptrdiff_t)j >= A->ptr[i] && (ptrdiff_t)j < A->ptr[i + 1]) {
      if ((size_t)A->col[j] == i) aii = A->val[j];
      else X = UF_SUB(X, UF_MUL(A->val[j], xe[A->col[j]]));
    }
    xe[i] = UF_MUL(math_inverse(aii), X);
  }
  f_serial_sweep(A, f, x, fwd);
  _Bool same = 1, frame = 1;
  for (size_t i = 0; i < NMAX + 1; ++i) { if (i < n && x[i] != xe[i]) same = 0; if (i >= n && x[i] != xe[i]) frame = 0; if (f[i] != f0[i]) frame = 0; }
  ENSURES(same, "C06 Gauss-Seidel: x_i == inverse(a_ii) * (f_i - sum_{c != i} a_ic * x_c), row order, swept unknowns new, others old");
  ENSURES(frame && crs_unchanged(A, &s), "frame: only x[0..n-1] is written; rhs and A are unchanged");
  CANARY("harness.end");
}
''',
    entry='h_serial_sweep', mode='unwound', unwind='max(ZMAX,NMAX)+3', model='uf',
    variants=[{'NMAX': 3, 'ZMAX': 4, 'NT': 1, 'OMPK': 1, 'FWD': d} for d in (1, 0)],
    thorough_variants=[{'NMAX': 3, 'ZMAX': 5, 'NT': 1, 'OMPK': 1, 'FWD': d} for d in (1, 0)],
    bound_text='n <= 3, nnz <= 4 (thorough: n <= 3, nnz <= 5, measured 180 s), pattern symbolic (unsorted rows allowed), values uninterpreted, both directions',
    assumptions=A_RELAX + ['A-uf: value operations are functions of their operands (uninterpreted); the result holds for every value type'],
    replay='relax', timeout=300, witness=wit('A') + ['w_forward'],
    not_decided=['rows without or with several stored diagonal entries', 'n beyond the bound'])
SERIAL_SWEEP.unwindset = UNWINDSET

gs_levels_fwd = levels_unit('gs', True)
gs_levels_bwd = levels_unit('gs', False)
gs_tasks = tasks_unit('gs')
gs_pack = pack_unit('gs')
gs_fwd = e2e_unit('gs', True)
gs_bwd = e2e_unit('gs', False)
sp_levels_lower = levels_unit('sptr', True)
sp_levels_upper = levels_unit('sptr', False)
sp_tasks = tasks_unit('sptr')
sp_pack_lower = pack_unit('sptr', True)
sp_pack_upper = pack_unit('sptr', False)
sp_lower = e2e_unit('sptr', True)
sp_upper = e2e_unit('sptr', False)

UNITS = [gs_levels_fwd, gs_levels_bwd, gs_tasks, gs_pack, gs_fwd, gs_bwd,
         sp_levels_lower, sp_levels_upper, sp_tasks, sp_pack_lower, sp_pack_upper, sp_lower, sp_upper,
         SERIAL_SWEEP]
