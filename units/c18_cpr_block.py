"""C18: CPR on a block-valued backend -- cpr::update_transfer(K, bprm, std::false_type) (the path partial_update takes when
the system matrix has b x b static_matrix values).

Property clause (C18, CPR): the pressure weights of cell i are the FIRST ROW of the inverse of the cell's diagonal block.
cpr::invert(A, y) "inverts dense matrix A; returns the first COLUMN of the inverted matrix", hence the code must hand it the
ADJOINT (transpose) of the diagonal block.  Values are opaque tokens, math::adjoint is an uninterpreted function and invert
is a recording callee stub, so the contract sees whether the block is transposed before it is inverted (seeded change
C18e), which diagonal entry is used, where the weights land and that Fpp has the documented structure.
Bounded stand-in (unwound): np <= NMAX cells, nnz <= ZMAX, block size BS symbolic token content."""
from cxc.extract import Cut, Rule, IdxRule
from cxc.unit import Unit
from _common import CRS_MEMBERS_C, CALL_RULES, BOUNDED_PRELUDE, crs_member_cuts, member_rules
from c08_kernels import DEFAULT_CLEAN_PTR, wit

CPR = 'amgcl/preconditioner/cpr.hpp'

VIEW = r'''
#ifndef BS
#define BS 2
#endif
/* members of preconditioner::cpr<> that update_transfer touches (declaration order) */
typedef struct cpr_params { int block_size; size_t active_rows; } cpr_params;
typedef struct cpr { cpr_params prm; size_t n, np; crs *Fpp, *Scatter, *App; } cpr;
typedef crs build_matrix, build_matrix_p;
typedef V value_type, value_type_p, scalar_type;
/* ---- callee stub: cpr::invert(A, y) for a block value: A points to the B*B scalars of ONE block value (v.data()), here one
 * token; LU in place (the token is overwritten by leftovers), y[0..B) written with fresh result tokens.  Recorded: which
 * block token it was given, where it wrote, what it returned.                                                            */
#define CAP_CALLS (NMAX + 1)
int g_inv_n; V g_inv_A[CAP_CALLS]; V *g_inv_y[CAP_CALLS]; V g_inv_out[CAP_CALLS][BS];
V nondet_V(void);
static void invert(cpr *self, V *A, V *y)
{
  (void)self;
  for (int q = 0; q < BS; ++q) {
    const V t = nondet_V();
    if (g_inv_n < CAP_CALLS) g_inv_out[g_inv_n][q] = t;
    y[q] = t;
  }
  if (g_inv_n < CAP_CALLS) { g_inv_A[g_inv_n] = *A; g_inv_y[g_inv_n] = y; }
  *A = nondet_V();
  g_inv_n++;
}
#define BLOCK_DATA(v) (&(v))
/* static_matrix::operator()(r, c): scalar entry (r,c) of a block value -- uninterpreted */
V __CPROVER_uninterpreted_blk_elem(V, int, int);
#define BLK_ELEM(v, r, c) __CPROVER_uninterpreted_blk_elem((V)(v), (int)(r), (int)(c))
'''

SPEC = r'''
/* the FIRST stored entry (i,i) of row i (the code stops at the first), has = 0 if there is none */
static V K_diag(const crs *K, size_t i, _Bool *has)
{
  V s = 0; *has = 0;
  for (size_t q = CAP_NNZ; q-- > 0;)
    if ((ptrdiff_t)q >= K->ptr[i] && (ptrdiff_t)q < K->ptr[i + 1] && (size_t)K->col[q] == i) { s = K->val[q]; *has = 1; }
  return s;
}
static int calls_for_cell(const crs *fpp, size_t i, int *which)
{
  int c = 0;
  for (int q = 0; q < CAP_CALLS; ++q) if (q < g_inv_n && g_inv_y[q] == fpp->val + i * BS) { c++; *which = q; }
  return c;
}
static _Bool post_fpp_structure(const crs *fpp, size_t np)
{
  if (!(fpp->nrows == np && fpp->ncols == np * BS && fpp->nnz == np * BS && fpp->ptr[0] == 0)) return 0;
  for (size_t i = 0; i < NMAX; ++i) if (i < np) { if (fpp->ptr[i + 1] != (ptr_type)((i + 1) * BS)) return 0; }
  for (size_t q = 0; q < NMAX * BS; ++q) if (q < np * BS) { if (fpp->col[q] != (col_type)q) return 0; }
  return 1;
}
static _Bool post_one_call_per_cell(const crs *K, const crs *fpp, size_t np)
{
  int expected = 0;
  for (size_t i = 0; i < NMAX; ++i) if (i < np) {
    int w = 0; _Bool has;
    const int c = calls_for_cell(fpp, i, &w);
    (void)K_diag(K, i, &has);
    if (has) { expected++; if (c != 1) return 0; }
    else if (c != 0) return 0;
  }
  return g_inv_n == expected;
}
static _Bool post_adjoint_seen_by_invert(const crs *K, const crs *fpp, size_t np)
{
  for (size_t i = 0; i < NMAX; ++i) if (i < np) {
    int w = 0; _Bool has;
    const V d = K_diag(K, i, &has);
    if (!has) continue;
    if (calls_for_cell(fpp, i, &w) < 1) return 0;
    if (g_inv_A[w] != math_adjoint(d)) return 0;       /* the ADJOINT of the diagonal block of cell i, of no other entry */
  }
  return 1;
}
static _Bool post_fpp_values(const crs *K, const crs *fpp, size_t np)
{
  for (size_t i = 0; i < NMAX; ++i) if (i < np) {
    int w = 0; _Bool has;
    (void)K_diag(K, i, &has);
    if (!has) continue;
    if (calls_for_cell(fpp, i, &w) < 1) return 0;
    for (size_t k = 0; k < BS; ++k) if (fpp->val[i * BS + k] != g_inv_out[w][k]) return 0;
  }
  return 1;
}
'''

RULES = (
    [Rule(r'const int\s+B = math::static_rows<value_type>::value;', 'const int B = BS;', 1, early=True, why='static_rows<value_type>::value is the block size of the instantiation'),
     Rule(r'auto fpp = std_make_shared<build_matrix_p>\(\);', 'crs *fpp = crs_new();', 1, why='R-auto / make_shared'),
     Rule(r'\bFpp = backend_type_p::copy_matrix\(fpp, bprm\);', 'self->Fpp = fpp;', None, why='builtin backend: copy_matrix returns the matrix it is given (A-copy)'),
     Rule(r'\b(\w+)\.data\(\)', r'BLOCK_DATA(\1)', None, why='static_matrix::data(): pointer to the scalars of the block value = pointer to the token'),
     Rule(r'\binvert\(', 'invert(self, ', None, why='member call -> C call')]
    + CALL_RULES + [DEFAULT_CLEAN_PTR]
    + member_rules(['prm', 'n', 'np'])
    + [IdxRule(r'fpp->col|fpp->val', 'fpp->nnz', None),
       IdxRule(r'fpp->ptr', 'fpp->nrows + 1', None),
       IdxRule(r'K->ptr', 'K->nrows + 1', None),
       IdxRule(r'K->col|K->val', 'K->ptr[K->nrows]', None)])

T = ('#define MODEL_UF 1\n#define CXC_UF_T unsigned short\n#ifndef BS\n#define BS 2\n#endif\n#define CAP_NNZ ((ZMAX > NMAX * BS ? ZMAX : NMAX * BS) + 1)\n#define CAP_PTR (NMAX * BS + 2)   /* Scatter has np*B rows */\n'
     + BOUNDED_PRELUDE + CRS_MEMBERS_C + VIEW + SPEC + r'''
WITNESS_CRS(K)
int w_bs; size_t w_active_rows;
/* contract (enforced by the harness):
 *   requires  K square (n block rows), well-formed; N = active_rows ? active_rows : n, N <= n; np, Fpp hold anything
 *   assigns   self->np, self->Fpp; fresh matrices only
 *   ensures   np == N; Fpp is np x np*B, row i = columns i*B .. i*B+B-1;
 *             for every cell i with a stored diagonal block: invert is called exactly once, on math::adjoint of that block,
 *             writing to &Fpp->val[i*B]; Fpp->val[i*B+k] is what that call returned; no other call; K, prm, n unchanged */
void f_update_transfer(cpr *self, crs *K, int bprm)
{
/*@CUT:body@*/
}
void h_update_transfer_block(void)
{
  crs *K = crs_input();
  cpr me; cpr *self = &me;
  size_t ar, np0; crs old_fpp; crs *F0 = &old_fpp;   /* the transfer operator of the previous matrix */
  REQUIRES(crs_wf(K, NMAX, NMAX, ZMAX) && K->nrows == K->ncols);
  self->prm.block_size = BS; self->prm.active_rows = ar; self->n = K->nrows; self->np = np0; self->Fpp = F0;
  const size_t N = ar ? ar : K->nrows;
  REQUIRES(N <= K->nrows);
  MIRROR_CRS(K, K); w_bs = BS; w_active_rows = ar;
  crs_snap s; crs_snapshot(K, &s);
  f_update_transfer(self, K, 0);
  ENSURES(!g_cap_exceeded, "bound artefact: allocation within verification capacity");
  ENSURES(self->np == N, "update_transfer (block values): np == active rows");
  ENSURES(self->Fpp != 0 && self->Fpp != F0 && post_fpp_structure(self->Fpp, N), "update_transfer (block values): Fpp is rebuilt: np x np*B, row i holds the columns i*B .. i*B+B-1");
  if (self->Fpp != 0 && self->Fpp != F0) {
  ENSURES(post_one_call_per_cell(K, self->Fpp, N), "update_transfer (block values): invert is called exactly once per cell with a stored diagonal block, writing to &Fpp->val[i*B], and never otherwise");
  ENSURES(post_adjoint_seen_by_invert(K, self->Fpp, N), "update_transfer (block values): the block handed to invert is math::adjoint of the diagonal block of the cell (invert returns the first COLUMN of the inverse; the weights are the first ROW of the inverse of the diagonal block)");
  ENSURES(post_fpp_values(K, self->Fpp, N), "update_transfer (block values): Fpp->val[i*B .. i*B+B) holds what invert returned for that cell");
  }
  ENSURES(crs_unchanged(K, &s) && self->prm.block_size == BS && self->prm.active_rows == ar && self->n == K->nrows, "frame: K, prm and n are not modified");
  CANARY("harness.end");
}
''')

cpr_update_transfer_block = Unit(
    name='cpr_update_transfer_block', props=['C18', 'C10'],
    functions=['preconditioner::cpr::update_transfer(K, bprm, std::false_type) [block-valued system matrix]', 'crs::set_size', 'crs::set_nonzeros'],
    desc='CPR partial update on a block-valued backend: per cell the ADJOINT of the diagonal block is handed to invert exactly once and its '
         'result (first column of that inverse = first row of the inverse of the diagonal block) is stored in Fpp->val[i*B..i*B+B); Fpp has the documented structure',
    cuts=dict(crs_member_cuts(), body=Cut(
        CPR, r'void update_transfer\(std::shared_ptr<build_matrix> K, const backend_params bprm, std::false_type\)\s*(?=\{)', rules=RULES)),
    template=T, entry='h_update_transfer_block', mode='unwound', unwind='max(ZMAX,NMAX*BS)+3', model='uf',
    variants=[{'NMAX': 3, 'ZMAX': 4, 'BS': 2}], thorough_variants=[{'NMAX': 3, 'ZMAX': 5, 'BS': 2}, {'NMAX': 3, 'ZMAX': 4, 'BS': 3}],
    bound_text='n <= 3 block rows, nnz <= 4 (thorough 5), block size 2 (thorough also 3), active_rows symbolic, any pattern (unsorted rows, duplicates, missing diagonal); block values opaque 16-bit tokens',
    assumptions=['A-bound: nothing is claimed beyond the stated size bound',
                 'A-new: operator new[] never returns null; fresh arrays have nondeterministic content',
                 'A-own: shared_ptr lifetimes are not modelled (make_shared -> plain allocation)',
                 'A-omp: OpenMP pragmas dropped; the cells are independent (each writes its own slice of Fpp): frame by the postconditions',
                 'A-uf16: block values are 16-bit opaque tokens, math::adjoint is an uninterpreted function (EUF small-model property)',
                 'A-invert: cpr::invert(A, y) is a callee stub: it may overwrite the block (LU in place) and writes y[0..B); its arithmetic is not under contract',
                 'A-copy: backend::builtin::copy_matrix returns the matrix it is given'],
    replay='composite', timeout=600,
    witness=wit('K') + ['w_bs', 'w_active_rows'],
    not_decided=['the floating-point block inverse itself (cpr::invert)', 
                 'cells without a stored diagonal block: invert is not called and the weights stay uninitialised (singular block: outside the property)'],
)

# set_size is called without clean_ptr here: its zero-fill loop is legitimately unreachable
cpr_update_transfer_block.cover_exempt = r'^canary set_size\.1$'


# ---------------------------------------------------------------------------------------------------------------------
# cpr::init(K, bprm, std::false_type): the same per-cell inversion plus Scatter and the pressure matrix App
# ---------------------------------------------------------------------------------------------------------------------
SPEC_INIT = r"""
static _Bool post_scatter(const crs *sc, size_t np)
{
  if (!(sc->nrows == np * BS && sc->ncols == np && sc->nnz == np && sc->ptr[0] == 0)) return 0;
  for (size_t q = 0; q < NMAX * BS; ++q) if (q < np * BS) { if (sc->ptr[q + 1] != (ptr_type)(q / BS + 1)) return 0; }   /* one entry, in the FIRST row of the cell */
  for (size_t i = 0; i < NMAX; ++i) if (i < np) { if (sc->col[i] != (col_type)i || sc->val[i] != MATH_identity(V)) return 0; }
  return 1;
}
/* App(i, col j) = sum_k w_i[k] * K_ij(k, 0), accumulated from the literal 0 in the order k = 0 .. B-1 */
static _Bool post_app(const crs *K, const crs *fpp, const crs *App, size_t np)
{
  if (!(App->nrows == np && App->ncols == np && App->ptr[0] == 0)) return 0;
  for (size_t i = 0; i < NMAX; ++i) if (i < np) {
    if (App->ptr[i + 1] != K->ptr[i + 1]) return 0;
    for (size_t q = 0; q < CAP_NNZ; ++q) if ((ptrdiff_t)q >= K->ptr[i] && (ptrdiff_t)q < K->ptr[i + 1]) {
      V e = UF_CONST(0);
      for (int k = 0; k < BS; ++k) e = UF_ADD(e, UF_MUL(fpp->val[i * BS + k], BLK_ELEM(K->val[q], k, 0)));
      if (App->col[q] != K->col[q] || App->val[q] != e) return 0;
    }
  }
  return 1;
}
"""
RULES_INIT = (
    [Rule(r'const int\s+B = math::static_rows<value_type>::value;', 'const int B = BS;', 1, early=True, why='static_rows<value_type>::value is the block size of the instantiation'),
     Rule(r'auto (\w+) = std_make_shared<build_matrix_p>\(\);', r'crs *\1 = crs_new();', None, why='R-auto / make_shared'),
     Rule(r'\b(\w+)\.data\(\)', r'BLOCK_DATA(\1)', None, why='static_matrix::data()'),
     Rule(r'\binvert\(', 'invert(self, ', None, why='member call -> C call'),
     Rule(r'value_type_p (\w+) = 0;', r'V \1 = UF_CONST(0);', None, why='scalar literal 0 of the pressure value type'),
     Rule(r'(\w+->val\[\w+\])\((\w+),\s*(\w+)\)', r'BLK_ELEM(\1, \2, \3)', None, why='static_matrix::operator()(r, c)'),
     Rule(r'\b(\w+) \+= ([^;*]+) \* ([^;]+);', r'\1 = UF_ADD(\1, UF_MUL(\2, \3));', None, why='compound assignment / product of the value model spelled out')]
    + CALL_RULES
    + [Rule(r'(crs_set_size\([^,;()]+,[^,;()]+,[^,;()]+)\);', r'\1, 0 /* default argument clean_ptr = false */);', None, why='default argument')]
    + member_rules(['prm', 'n', 'np'])
    + [IdxRule(r'fpp->col|fpp->val', 'fpp->nnz', None), IdxRule(r'fpp->ptr', 'fpp->nrows + 1', None),
       IdxRule(r'scatter->col|scatter->val', 'scatter->nnz', None), IdxRule(r'scatter->ptr', 'scatter->nrows + 1', None),
       IdxRule(r'App->col|App->val', 'App->nnz', None), IdxRule(r'App->ptr', 'App->nrows + 1', None),
       IdxRule(r'K->ptr', 'K->nrows + 1', None), IdxRule(r'K->col|K->val', 'K->ptr[K->nrows]', None)])

T_INIT = T[:T.index('WITNESS_CRS(K)')] + SPEC_INIT + r"""
WITNESS_CRS(K)
int w_bs; size_t w_active_rows;
/* contract (enforced by the harness): the region of init() that assembles fpp, scatter and App (what follows hands them to
 * the pressure preconditioner and to backend::copy_matrix: ghost epilogue below)
 *   ensures   np == N; Fpp as in update_transfer (adjoint of the diagonal block inverted once per cell);
 *             Scatter is np*B x np with one identity entry (q, q/B) in the FIRST row q = i*B of every cell;
 *             App has the pattern of the first np block rows of K and App(i,j) = sum_k w_i[k] * K_ij(k,0)         */
void f_init_block(cpr *self, crs *K, int bprm)
{
/*@CUT:body@*/
  self->Fpp = fpp; self->Scatter = scatter; self->App = App;    /* ghost epilogue: the three matrices the rest of init() uses */
}
void h_init_block(void)
{
  crs *K = crs_input();
  cpr me; cpr *self = &me;
  size_t ar, np0;
  REQUIRES(crs_wf(K, NMAX, NMAX, ZMAX) && K->nrows == K->ncols && K->nnz == (size_t)K->ptr[K->nrows]);
  self->prm.block_size = BS; self->prm.active_rows = ar; self->n = K->nrows; self->np = np0; self->Fpp = 0; self->Scatter = 0; self->App = 0;
  const size_t N = ar ? ar : K->nrows;
  REQUIRES(N <= K->nrows);
  MIRROR_CRS(K, K); w_bs = BS; w_active_rows = ar;
  crs_snap s; crs_snapshot(K, &s);
  f_init_block(self, K, 0);
  ENSURES(!g_cap_exceeded, "bound artefact: allocation within verification capacity");
  ENSURES(self->np == N, "init (block values): np == active rows");
  ENSURES(self->Fpp != 0 && post_fpp_structure(self->Fpp, N), "init (block values): Fpp is np x np*B, row i holds the columns i*B .. i*B+B-1");
  if (self->Fpp != 0) {
  ENSURES(post_one_call_per_cell(K, self->Fpp, N), "init (block values): invert is called exactly once per cell with a stored diagonal block, writing to &Fpp->val[i*B], and never otherwise");
  ENSURES(post_adjoint_seen_by_invert(K, self->Fpp, N), "init (block values): the block handed to invert is math::adjoint of the diagonal block of the cell (the weights are the first ROW of the inverse of the diagonal block)");
  ENSURES(post_fpp_values(K, self->Fpp, N), "init (block values): Fpp->val[i*B .. i*B+B) holds what invert returned for that cell");
  ENSURES(self->App != 0 && post_app(K, self->Fpp, self->App, N), "init (block values): App has the pattern of the block rows of K and App(i,j) == sum_k w_i[k] * K_ij(k, 0)");
  }
  ENSURES(self->Scatter != 0 && post_scatter(self->Scatter, N), "init (block values): Scatter is np*B x np with one identity entry per cell, in the first row of the cell");
  ENSURES(crs_unchanged(K, &s) && self->prm.block_size == BS && self->prm.active_rows == ar && self->n == K->nrows, "frame: K, prm and n are not modified");
  CANARY("harness.end");
}
"""

cpr_init_block = Unit(
    name='cpr_init_block', props=['C18', 'C10'],
    functions=['preconditioner::cpr::init(K, bprm, std::false_type) [block-valued system matrix; region: assembly of Fpp, Scatter, App]', 'crs::set_size', 'crs::set_nonzeros'],
    desc='CPR setup on a block-valued backend: Fpp row i = first column of the inverse of the ADJOINT diagonal block (= first row of the inverse of the '
         'diagonal block); Scatter puts the pressure into the first unknown of each cell; App(i,j) = sum_k w_i[k] * K_ij(k,0) on the pattern of K',
    cuts=dict(crs_member_cuts(), body=Cut(
        CPR, r'void init\(std::shared_ptr<build_matrix> K, const backend_params bprm, std::false_type\)\s*\{', kind='region', begin_exclusive=True,
        end=r'AMGCL_TIC\("pprecond"\);', rules=RULES_INIT)),
    template=T_INIT, entry='h_init_block', mode='unwound', unwind='max(ZMAX,NMAX*BS)+3', model='uf',
    variants=[{'NMAX': 2, 'ZMAX': 3, 'BS': 2}], thorough_variants=[{'NMAX': 3, 'ZMAX': 4, 'BS': 2}, {'NMAX': 2, 'ZMAX': 3, 'BS': 3}],
    bound_text='n <= 2 block rows, nnz <= 3 (thorough: n <= 3, nnz <= 4), block size 2 (thorough also 3 with n <= 2), active_rows symbolic, any pattern; block values opaque 16-bit tokens',
    assumptions=cpr_update_transfer_block.assumptions + ['A-elem: static_matrix::operator()(r,c) and the scalar arithmetic of the pressure value type are uninterpreted functions (order-sensitive)',
                                                         'A-epilogue: the remainder of init() (construction of the two preconditioners from App and K, copy_matrix of fpp / scatter, work vectors) is not under contract; the region ends before it'],
    replay='composite', timeout=600,
    witness=wit('K') + ['w_bs', 'w_active_rows'],
    not_decided=['the floating-point block inverse itself (cpr::invert)', 'construction of the inner preconditioners', 'cells without a stored diagonal block'],
)
cpr_init_block.cover_exempt = r'^canary set_size\.1$'

UNITS = [cpr_update_transfer_block, cpr_init_block]
