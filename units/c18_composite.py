"""Composite preconditioners (C18, call level): schur_pressure_correction::apply / ::spmv realise
their block formulas as exact call sequences (typestate + bounded ghost trace,
prelude/orch_trace.h).  Loop-free bodies, proved for all inputs."""
from cxc.extract import Cut, Rule, UF, Loop, UFArgs
from cxc.unit import Unit

CALLEES = ['tr_residual', 'tr_spmv', 'tr_axpby', 'tr_axpbypcz', 'tr_vmul', 'tr_copy', 'tr_clear',
           'tr_solve_inplace', 'tr_apply', 'tr_sweep']
A_C18 = [
    'A-abs: the typestate/trace contracts of the backend primitives (prelude/orch_trace.h) are justified by the functional contracts of C07',
    'A-callee: the inner solvers U and P honour the tr_apply contract (read rhs, write x); "exact inner solves" is the hypothesis of the property, not something checked here',
    'A-setup: the sub-blocks Kuu, Kup, Kpu, Kpp and the gather/scatter matrices are the ones init() extracted (separate bounded unit when present)',
    'A-uf: scalars are opaque tokens; only is_zero(0) and !is_zero(1) are assumed',
    'A-drop: report(name, result) (convergence logging of the inner solves) is reduced to its second argument',
]
SCHUR = 'amgcl/preconditioner/schur_pressure_correction.hpp'

SCHUR_T = r'''
#define NEV 16
#include "orch_trace.h"
int g_thrown;
typedef struct schur_prm { int type; int adjust_p; _Bool approx_schur; } schur_prm;
typedef struct schur {
  schur_prm prm;
  mat *x2u, *x2p, *u2x, *p2x, *Kpu, *Kup, *Lm, *Pmat;      /* Pmat: P->system_matrix() = Kpp */
  vec *rhs_u, *rhs_p, *u, *p, *tmp, *Ld, *M;
  obj *U, *P;
} schur;
/* ids: matrices 11..18, vectors: rhs 1, x 2, rhs_u 3, rhs_p 4, u 5, p 6, tmp 7, Ld 8, M 9; solvers U 31, P 32 */
#define IDS (self->x2u->id == 11 && self->x2p->id == 12 && self->u2x->id == 13 && self->p2x->id == 14 && self->Kpu->id == 15 && self->Kup->id == 16 \
  && self->Lm->id == 17 && self->Pmat->id == 18 && self->rhs_u->id == 3 && self->rhs_p->id == 4 && self->u->id == 5 && self->p->id == 6 \
  && self->tmp->id == 7 && self->Ld->id == 8 && self->M->id == 9 && self->U->id == 31 && self->P->id == 32)
#define FRESH_MEMBERS (__CPROVER_is_fresh(self->x2u, sizeof(mat)) && __CPROVER_is_fresh(self->x2p, sizeof(mat)) && __CPROVER_is_fresh(self->u2x, sizeof(mat)) \
  && __CPROVER_is_fresh(self->p2x, sizeof(mat)) && __CPROVER_is_fresh(self->Kpu, sizeof(mat)) && __CPROVER_is_fresh(self->Kup, sizeof(mat)) \
  && __CPROVER_is_fresh(self->Lm, sizeof(mat)) && __CPROVER_is_fresh(self->Pmat, sizeof(mat)) \
  && __CPROVER_is_fresh(self->rhs_u, sizeof(vec)) && __CPROVER_is_fresh(self->rhs_p, sizeof(vec)) && __CPROVER_is_fresh(self->u, sizeof(vec)) \
  && __CPROVER_is_fresh(self->p, sizeof(vec)) && __CPROVER_is_fresh(self->tmp, sizeof(vec)) && __CPROVER_is_fresh(self->Ld, sizeof(vec)) \
  && __CPROVER_is_fresh(self->M, sizeof(vec)) && __CPROVER_is_fresh(self->U, sizeof(obj)) && __CPROVER_is_fresh(self->P, sizeof(obj)))
#define ONE MATH_identity(V)
#define ZERO MATH_zero(V)
#define MONE UF_NEG(MATH_identity(V))
#define SP(k, M_, X_, Y_, A_, B_) (EV(k, T_SPMV, M_, X_, Y_, 0) && EVS(k, A_, B_, 0))
#define LOCALS \
  const schur_prm prm = self->prm; \
  mat *const x2u = self->x2u, *const x2p = self->x2p, *const u2x = self->u2x, *const p2x = self->p2x, *const Kpu = self->Kpu, *const Kup = self->Kup, *const Lm = self->Lm; \
  vec *const rhs_u = self->rhs_u, *const rhs_p = self->rhs_p, *const u = self->u, *const p = self->p, *const tmp = self->tmp, *const Ld = self->Ld, *const M = self->M;
'''

APPLY_T = SCHUR_T + r'''
void f_schur_apply(const schur *self, const vec *rhs_in, vec *x_p)
__CPROVER_requires(__CPROVER_is_fresh(self, sizeof(*self)) && __CPROVER_is_fresh(rhs_in, sizeof(vec)) && __CPROVER_is_fresh(x_p, sizeof(vec)) && FRESH_MEMBERS)
__CPROVER_requires(UF_AXIOMS && IDS && g_nev == 0 && rhs_in->defined && rhs_in->id == 1 && x_p->id == 2)
/* documented domain of the parameter: type is 1 or 2 (any other value makes apply() combine stale u, p -- not validated by the
 * constructor; recorded in DESIGN.md as an observation outside the property's quantifier) */
__CPROVER_requires(self->prm.type == 1 || self->prm.type == 2)
/* C15: the work vectors rhs_u, rhs_p, u, p hold whatever earlier applications left; x is output only */
__CPROVER_assigns(*x_p, *self->rhs_u, *self->rhs_p, *self->u, *self->p, g_ev, g_nev)
__CPROVER_ensures(x_p->defined)
/* C18, type 1:  fu = x2u f; fp = x2p f; u = U^-1 fu; fp -= Kpu u; p = S^-1 fp; fu -= Kup p; u = U^-1 fu; x = u2x u + p2x p */
__CPROVER_ensures(self->prm.type == 1 ==> (g_nev == 12
   && SP(0, 11, 1, 3, ONE, ZERO) && SP(1, 12, 1, 4, ONE, ZERO)
   && EV(2, T_CLEAR, 0, 5, 0, 0) && EV(3, T_APPLY, 31, 3, 5, 0)
   && SP(4, 15, 5, 4, MONE, ONE)
   && EV(5, T_CLEAR, 0, 6, 0, 0) && EV(6, T_APPLY, 32, 4, 6, 0)
   && SP(7, 16, 6, 3, MONE, ONE)
   && EV(8, T_CLEAR, 0, 5, 0, 0) && EV(9, T_APPLY, 31, 3, 5, 0)
   && SP(10, 13, 5, 2, ONE, ZERO) && SP(11, 14, 6, 2, ONE, ONE)))
/* type 2 (block upper triangular):  p = S^-1 fp; fu -= Kup p; u = U^-1 fu; x = u2x u + p2x p */
__CPROVER_ensures(self->prm.type == 2 ==> (g_nev == 9
   && SP(0, 11, 1, 3, ONE, ZERO) && SP(1, 12, 1, 4, ONE, ZERO)
   && EV(2, T_CLEAR, 0, 6, 0, 0) && EV(3, T_APPLY, 32, 4, 6, 0)
   && SP(4, 16, 6, 3, MONE, ONE)
   && EV(5, T_CLEAR, 0, 5, 0, 0) && EV(6, T_APPLY, 31, 3, 5, 0)
   && SP(7, 13, 5, 2, ONE, ZERO) && SP(8, 14, 6, 2, ONE, ONE)))
{
  LOCALS
#define rhs (*rhs_in)
#define x (*x_p)
/*@CUT:body@*/
#undef rhs
#undef x
}
void h_f_schur_apply(void) { const schur *s; const vec *rhs; vec *x; f_schur_apply(s, rhs, x); }
'''

SCHUR_RULES = [
    Rule(r'const auto (one|zero) =', r'const V \1 =', None, why='R-auto'),
    Rule(r'report\("[^"]*",\s*', '(', None, why='R-tic: report(name, r) -> (r)'),
    Rule(r'\(\*U\)\(\*(\w+), \*(\w+)\)', r'tr_apply(self->U, \1, \2)', None, why='functor call -> C call'),
    Rule(r'\(\*P\)\(\*this, \*(\w+), \*(\w+)\)', r'tr_apply(self->P, \1, \2)', None, why='functor call (matrix-free Schur operator = *this) -> C call'),
    Rule(r'P->system_matrix\(\)', '(*self->Pmat)', None, why='member call'),
    UFArgs(r'spmv|vmul', '+'),
]

schur_apply = Unit(
    name='schur_apply', props=['C18', 'C15', 'C10'],
    functions=['preconditioner::schur_pressure_correction::apply(rhs, x)'],
    desc='Schur pressure correction apply(): exact block-elimination call sequence for type 1 and type 2',
    cuts={'body': Cut(SCHUR, r'void apply\(const Vec1 &rhs, Vec2 &&x\) const\s*(?=\{)', rules=SCHUR_RULES)},
    template=APPLY_T, enforce='f_schur_apply', replace=CALLEES, mode='loopfree', obj_bits=12, timeout=200,
    assumptions=A_C18,
    not_decided=['that the call sequence is the exact inverse of the saddle-point matrix given exact inner solves (block-matrix algebra over the reals; follows from the proved sequence by the textbook block-LU identity, not machine-checked)'],
)

SPMV_T = SCHUR_T + r'''
void f_schur_spmv(const schur *self, V alpha, const vec *x_p, V beta, vec *y_p)
__CPROVER_requires(__CPROVER_is_fresh(self, sizeof(*self)) && __CPROVER_is_fresh(x_p, sizeof(vec)) && __CPROVER_is_fresh(y_p, sizeof(vec)) && FRESH_MEMBERS)
__CPROVER_requires(UF_AXIOMS && IDS && g_nev == 0 && x_p->defined && x_p->id == 1 && y_p->id == 2 && (math_is_zero(beta) || y_p->defined))
__CPROVER_requires(self->Ld->defined && self->M->defined)
__CPROVER_assigns(*y_p, *self->tmp, *self->u, g_ev, g_nev)
__CPROVER_ensures(y_p->defined)
/* C18: y = beta y + alpha Kpp' x - alpha Kpu (U^-1 | M) Kup x, where Kpp' depends on adjust_p */
#define HEAD_N (self->prm.adjust_p == 1 ? 2 : 1)
__CPROVER_ensures(self->prm.adjust_p == 1 ==> (SP(0, 18, 1, 2, alpha, beta) && EV(1, T_VMUL, 0, 8, 1, 2) && EVS(1, alpha, ONE, 0)))
__CPROVER_ensures(self->prm.adjust_p == 2 ==> SP(0, 17, 1, 2, alpha, beta))
__CPROVER_ensures((self->prm.adjust_p != 1 && self->prm.adjust_p != 2) ==> SP(0, 18, 1, 2, alpha, beta))
__CPROVER_ensures(SP(HEAD_N, 16, 1, 7, ONE, ZERO))
__CPROVER_ensures(self->prm.approx_schur ? (g_nev == HEAD_N + 3 && EV(HEAD_N + 1, T_VMUL, 0, 9, 7, 5) && EVS(HEAD_N + 1, ONE, ZERO, 0)
                                             && SP(HEAD_N + 2, 15, 5, 2, UF_NEG(alpha), ONE))
                                          : (g_nev == HEAD_N + 4 && EV(HEAD_N + 1, T_CLEAR, 0, 5, 0, 0) && EV(HEAD_N + 2, T_APPLY, 31, 7, 5, 0)
                                             && SP(HEAD_N + 3, 15, 5, 2, UF_NEG(alpha), ONE)))
{
  LOCALS
#define x (*x_p)
#define y (*y_p)
/*@CUT:body@*/
#undef x
#undef y
}
void h_f_schur_spmv(void) { const schur *s; V a, b; const vec *x; vec *y; f_schur_spmv(s, a, x, b, y); }
'''
schur_spmv = Unit(
    name='schur_spmv', props=['C18', 'C10'],
    functions=['preconditioner::schur_pressure_correction::spmv(alpha, x, beta, y)'],
    desc='matrix-free Schur complement product: y = beta y + alpha (Kpp\' - Kpu Kuu^-1 Kup) x for every adjust_p / approx_schur setting',
    cuts={'body': Cut(SCHUR, r'void spmv\(Alpha alpha, const Vec1 &x, Beta beta, Vec2 &y\) const\s*(?=\{)', rules=SCHUR_RULES)},
    template=SPMV_T, enforce='f_schur_spmv', replace=CALLEES, mode='loopfree', obj_bits=12, timeout=200,
    assumptions=A_C18,
)


CPR_T = r"""
#include "orch_trace.h"
int g_thrown;
typedef struct cpr { mat *Fpp, *Scatter, *Smat; vec *rs, *rp, *xp; obj *S, *P; } cpr;   /* Smat: S->system_matrix() */
#define ONE MATH_identity(V)
#define ZERO MATH_zero(V)
#define SP(k, M_, X_, Y_, A_, B_) (EV(k, T_SPMV, M_, X_, Y_, 0) && EVS(k, A_, B_, 0))
void f_cpr_apply(const cpr *self, const vec *rhs_in, vec *x_p)
__CPROVER_requires(__CPROVER_is_fresh(self, sizeof(*self)) && __CPROVER_is_fresh(rhs_in, sizeof(vec)) && __CPROVER_is_fresh(x_p, sizeof(vec)))
__CPROVER_requires(__CPROVER_is_fresh(self->Fpp, sizeof(mat)) && __CPROVER_is_fresh(self->Scatter, sizeof(mat)) && __CPROVER_is_fresh(self->Smat, sizeof(mat)))
__CPROVER_requires(__CPROVER_is_fresh(self->rs, sizeof(vec)) && __CPROVER_is_fresh(self->rp, sizeof(vec)) && __CPROVER_is_fresh(self->xp, sizeof(vec)))
__CPROVER_requires(__CPROVER_is_fresh(self->S, sizeof(obj)) && __CPROVER_is_fresh(self->P, sizeof(obj)))
__CPROVER_requires(UF_AXIOMS && g_nev == 0 && rhs_in->defined && rhs_in->id == 1 && x_p->id == 2 && self->rs->id == 3 && self->rp->id == 4 && self->xp->id == 5)
__CPROVER_requires(self->Fpp->id == 11 && self->Scatter->id == 12 && self->Smat->id == 13 && self->S->id == 31 && self->P->id == 32)
/* C15: rs, rp, xp hold whatever earlier applications left; x is output only */
__CPROVER_assigns(*x_p, *self->rs, *self->rp, *self->xp, g_ev, g_nev)
/* C18: x = S f; rs = f - A x; rp = Fpp rs; xp = P rp; x = x + Scatter xp */
__CPROVER_ensures(x_p->defined && g_nev == 5 && EV(0, T_APPLY, 31, 1, 2, 0) && EV(1, T_RESIDUAL, 13, 1, 2, 3)
   && SP(2, 11, 3, 4, ONE, ZERO) && EV(3, T_APPLY, 32, 4, 5, 0) && SP(4, 12, 5, 2, ONE, ONE))
{
  mat *const Fpp = self->Fpp, *const Scatter = self->Scatter; vec *const rs = self->rs, *const rp = self->rp, *const xp = self->xp;
#define rhs (*rhs_in)
#define x (*x_p)
/*@CUT:body@*/
#undef rhs
#undef x
}
void h_f_cpr_apply(void) { const cpr *s; const vec *rhs; vec *x; f_cpr_apply(s, rhs, x); }
"""
cpr_apply = Unit(
    name='cpr_apply', props=['C18', 'C15', 'C10'],
    functions=['preconditioner::cpr::apply(rhs, x)'],
    desc='CPR apply(): x = S f + Scatter P (Fpp (f - A S f)) as an exact call sequence',
    cuts={'body': Cut('amgcl/preconditioner/cpr.hpp', r'void apply\(const Vec1 &rhs, Vec2 &&x\) const\s*(?=\{)',
                      rules=[Rule(r'const auto (one|zero) =', r'const V \1 =', None, why='R-auto'),
                             Rule(r'\bS->apply\((\w+), (\w+)\);', r'tr_apply(self->S, &(\1), &(\2));', None, why='member call -> C call'),
                             Rule(r'\bP->apply\(\*(\w+), \*(\w+)\);', r'tr_apply(self->P, \1, \2);', None, why='member call -> C call'),
                             Rule(r'S->system_matrix\(\)', '(*self->Smat)', None, why='member call'),
                             UFArgs(r'spmv', None)])},
    template=CPR_T, enforce='f_cpr_apply', replace=CALLEES, mode='loopfree', obj_bits=12, timeout=200,
    assumptions=A_C18,
    not_decided=['pressure-matrix assembly (first-row-of-inverse-diagonal-block weighting): floating-point block inverse', 'partial update of CPR', 'deflated solver projection'],
)

UNITS = [schur_apply, schur_spmv, cpr_apply]
