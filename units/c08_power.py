"""backend::spectral_radius<scale>(A, power_iters > 0): the POWER-METHOD branch (C08 / C10), bounded stand-in.

The region cut is the iteration loop of the power method (builtin.hpp, from `for(int iter = 0; iter < power_iters;) {`
up to the closing brace of the "Power method." else-block).  The random initialisation of b0 that precedes the loop is
not part of the cut: b0 is a symbolic input vector of n value tokens, b1 arbitrary workspace.

Value model: uninterpreted functions (data flow): + * / sqrt norm inner_product inverse and the literals 0, 1 are
opaque; the harness restates the documented algorithm ("radius = <b1,b0>" with b1 = [D^-1] A b0 of the LAST
iteration, b0 of the next iteration = b1 / ||b1||) as a fold over the same functions.  What the unit decides is
therefore WHICH values enter the estimate (e.g. that nothing accumulated in an earlier iteration is part of it),
not the numerical bound of the estimate by the largest singular value (that is what the native replay samples)."""
from cxc.extract import Cut, Rule, UF, IdxRule
from cxc.unit import Unit
from _common import BUILTIN, BOUNDED_PRELUDE
from c08_kernels import A_BOUNDED, wit, SPEC_RING_COMMON

UNITS = []

NO_SORT_ROW = '(void)col; (void)val; (void)n; /* not used by this unit */'

SPEC_POWER = r"""
/* definition (property C08, "the power-method estimate"; builtin.hpp: "b1 = scale ? (D^-1 * A) * b0 : A * b0;
 * radius = <b1,b0>; b0 = b1 / b1_norm"), written as the fold the value model can express: rows in order, entries in
 * storage order, uninterpreted + * / sqrt norm inner inverse.  a_ii is THE stored diagonal entry of row i
 * (precondition: exactly one per row when scale).                                                                */
static V spec_row_apply(const crs *A, size_t i, _Bool scale, const V *x)
{
  V s = MATH_zero(V), d = MATH_identity(V);
  for (size_t k = 0; k < CAP_NNZ; ++k)
    if ((ptrdiff_t)k >= A->ptr[i] && (ptrdiff_t)k < A->ptr[i + 1]) {
      s = UF_ADD(s, UF_MUL(A->val[k], x[A->col[k]]));
      if ((size_t)A->col[k] == i) d = A->val[k];
    }
  if (scale) s = UF_MUL(math_inverse(d), s);
  return s;
}
/* the estimate after K >= 1 iterations from the start vector x0: the Rayleigh-type sum of the LAST iteration only */
static V spec_power(const crs *A, _Bool scale, int K, const V *x0)
{
  V x[NMAX + 1], y[NMAX + 1];
  V r = UF_CONST(0);
  for (size_t i = 0; i < NMAX; ++i) x[i] = x0[i];
  for (int k = 0; k < KMAX; ++k) if (k < K) {
    V nrm = UF_CONST(0);
    r = UF_CONST(0);                                   /* the estimate of THIS iteration: starts from the literal 0 */
    for (size_t i = 0; i < NMAX; ++i) if (i < A->nrows) {
      y[i] = spec_row_apply(A, i, scale, x);
      nrm = UF_ADD(nrm, math_norm(math_inner_product(y[i], y[i])));
      r   = UF_ADD(r,   math_norm(math_inner_product(y[i], x[i])));
    }
    nrm = UF_ADD(UF_CONST(0), nrm);                    /* reduction over the (single) thread's partial sums */
    r   = UF_ADD(UF_CONST(0), r);
    if (k + 1 < K) {
      V c = UF_DIV(UF_CONST(1), sqrt(nrm));            /* b0 = b1 / ||b1|| */
      for (size_t i = 0; i < NMAX; ++i) if (i < A->nrows) x[i] = UF_MUL(c, y[i]);
    }
  }
  return r;
}
static _Bool one_diagonal_per_row(const crs *A)
{
  for (size_t i = 0; i < NMAX; ++i) if (i < A->nrows && count_in_row(A, i, i) != 1) return 0;
  return 1;
}
"""

# compound assignments spelled out (a op= e  ->  a = a op (e)); every compound assignment of the region is value arithmetic (the
# rule is keyed on the statement form, not on the names of the locals, so that a renamed local still translates)
COMPOUND_ACC = Rule(r'^([ \t]*)(\w+)(\s*)([-+*/])=\s*(?P<e>[^;]+);', r'\1\2\3= \2 \4 (\g<e>);', 5,
                    why='compound assignment spelled out')

power = Unit(
    name='builtin_spectral_radius_power', props=['C08', 'C10'],
    functions=['backend::spectral_radius<scale>(const Matrix&, int power_iters) -- branch power_iters > 0, the iteration loop (after the random start vector)'],
    desc='power-method estimate after K = power_iters iterations: the value left in radius is sum_i norm(inner_product(s_i, b0_i)) of the '
         'LAST iteration only, s = [D^-1] A b0, b0 of iteration k+1 = (1/sqrt(sum_i norm(inner_product(s_i,s_i)))) * s of iteration k, as a fold in '
         'evaluation order over uninterpreted value operations (nothing accumulated in an earlier iteration, nothing present in radius '
         'before the loop is part of it); A is not modified; all subscripts of A, b0, b1 in bounds; both instantiations of scale',
    cuts={'body': Cut(BUILTIN, r'for\(int iter = 0; iter < power_iters;\) \{', kind='region',
                      end=r'AMGCL_TOC\("spectral radius"\);',
                      rules=[COMPOUND_ACC,
                             IdxRule(r'A\.col|A\.val', 'A.ptr[A.nrows]', '+'),
                             IdxRule(r'A\.ptr', 'A.nrows + 1', '+'),
                             IdxRule(r'b0|b1', 'n', '+')],
                      # value arithmetic: the right-hand side of every assignment / initialisation `x = e;`, `x[k] = e;` of the region, except
                      # the index declarations (for-headers, ptrdiff_t / int locals) and the // comments (which contain `b1_norm = ||b1||`);
                      # keyed on the statement form, not on the names of the locals
                      uf=[UF(r'^(?!\s*(?:for\b|ptrdiff_t\b|int\b|//))(?:[^\n=/]|==|/(?!/))*?\b\w+(?:\[[^\]\n]*\])?\s*=(?!=)\s*(?P<e>[^;]+);', '+')])},
    template='#define MODEL_UF 1\n#define CXC_UF_T unsigned short\n' + BOUNDED_PRELUDE
             + SPEC_RING_COMMON.replace('/*@CUT:sort_row@*/', NO_SORT_ROW) + r"""
#ifndef KMAX
#define KMAX 2
#endif
#define sqrt(a) __CPROVER_uninterpreted_sqrt((V)(a))
""" + SPEC_POWER + r"""
WITNESS_CRS(A)
int w_scale, w_power_iters;
V w_b0[NMAX + 1];
typedef V scalar_type;
typedef V rhs_type;
unsigned short nondet_ushort(void);
/* contract (enforced by the harness below):
 *   requires crs_wf(A), square, 1 <= power_iters <= KMAX; b0, b1 vectors of n cells (b0: any tokens, b1: any content);
 *            when scale: every row has exactly one stored diagonal entry; radius: any value (the declaration
 *            `scalar_type radius;` of the repository text leaves it uninitialised)
 *   assigns  b0, b1, radius
 *   ensures  radius == spec_power(A, scale, power_iters, b0 on entry); A unchanged; subscripts in bounds        */
V f_spectral_radius_power(const crs *A_p, int power_iters, const _Bool scale, V *b0, V *b1)
{
#define A (*A_p)
  const ptrdiff_t n = rows(A);
  scalar_type radius = nondet_ushort();   /* arbitrary: nothing that is in radius before the loop may reach the result */
  { /* the else-block "Power method." of the repository text; its closing brace is the last line of the cut */
/*@CUT:body@*/
  return radius;
#undef A
}
void h_power(void)
{
  crs *A = crs_input_narrow();
  int power_iters; _Bool scale;
#ifdef SCALE
  scale = SCALE;
#endif
#ifdef KITER
  power_iters = KITER;
#endif
  REQUIRES(crs_wf(A, NMAX, NMAX, ZMAX) && A->nrows == A->ncols && 1 <= power_iters && power_iters <= KMAX);
  REQUIRES(!scale || one_diagonal_per_row(A));
  V *b0 = (V *)malloc(sizeof(V) * (NMAX + 1)), *b1 = (V *)malloc(sizeof(V) * (NMAX + 1));   /* b1: nondeterministic content */
  V x0[NMAX + 1];
  for (size_t i = 0; i < NMAX + 1; ++i) { b0[i] = val_input(); x0[i] = b0[i]; w_b0[i] = b0[i]; }
  MIRROR_CRS(A, A); w_scale = scale; w_power_iters = power_iters;
  crs_snap s0; crs_snapshot(A, &s0);
  V r = f_spectral_radius_power(A, power_iters, scale, b0, b1);
  ENSURES(r == spec_power(A, scale, power_iters, x0), "spectral_radius (power method): radius == sum_i norm(inner_product(s_i, b0_i)) of the LAST iteration only (s = [D^-1] A b0, b0 = normalised s of the iteration before), starting from 0");
  ENSURES(crs_unchanged(A, &s0), "frame: the matrix is not modified");
  CANARY("harness.end");
}
""",
    entry='h_power', mode='unwound', unwind='max(ZMAX,NMAX)+3', model='uf',
    variants=[{'NMAX': 2, 'ZMAX': 3, 'VMASK': 255, 'KMAX': 2, 'KITER': 2},
              {'NMAX': 2, 'ZMAX': 3, 'VMASK': 255, 'KMAX': 2, 'KITER': 1}],
    thorough_variants=[{'NMAX': 2, 'ZMAX': 3, 'VMASK': 255, 'KMAX': 2, 'KITER': 2},
                       {'NMAX': 2, 'ZMAX': 3, 'VMASK': 255, 'KMAX': 2, 'KITER': 1},
                       {'NMAX': 2, 'ZMAX': 3, 'VMASK': 255, 'KMAX': 3, 'KITER': 3}],
    bound_text='all square matrices up to 2x2 with nnz <= 3, any pattern (unsorted, duplicates, empty rows; with scale exactly one diagonal '
               'entry per row), power_iters in {1, 2} (thorough also 3), scale symbolic, start vector and matrix values opaque tokens',
    assumptions=A_BOUNDED[:1] + ['A-uf: value operations (+, *, /, sqrt, norm, inner_product, inverse, the literals 0 and 1) are uninterpreted functions of their operands; 16-bit tokens (EUF small-model property): a DATA-FLOW statement, no numerical claim',
                                 'A-omp: each parallel region is executed by one thread (the text is verified sequentially); the critical-section accumulation of the per-thread partial sums relies on + being associative and commutative, which the uninterpreted model does not express',
                                 'A-start: the random start vector (std::mt19937 per thread, normalised) is replaced by an arbitrary input vector b0 of n tokens; b1 = numa_vector(n, false) has arbitrary content',
                                 'A-inst: Matrix = crs<V, ptrdiff_t, ptrdiff_t>, scalar_type = rhs_type = value_type (scalar values)'],
    replay='power', timeout=300,
    witness=wit('A') + ['w_scale', 'w_power_iters', 'w_b0'],
    not_decided=['that the estimate never exceeds the largest singular value of the (scaled) matrix: a numerical statement (Cauchy-Schwarz on the formula decided here); sampled by the native replay on SPD matrices only',
                 'the random initialisation and normalisation of b0 before the loop',
                 'scale = true on a row without (or with several) stored diagonal entries',
                 'more than one OpenMP thread (order of the critical-section accumulation)'],
)
UNITS += [power]
