"""C06 kernels (and the n = 3 value clause of skyline LU, C16): bounded units (unwound), chebyshev_solve inductive.

  skyline_lu_factorize_values3   solver::skyline_lu::factorize(): the Crout recurrences with order-sensitive
                                 (uninterpreted) value operations on every skyline profile with n <= 3
  ilu_serial_solve               relaxation::detail::ilu_solve<builtin>::serial_solve
  sptr_solve_lower/_upper        ilu_solve<builtin>::sptr_solve<lower>::solve for one thread id
  gs_parallel_sweep              gauss_seidel::parallel_sweep<forward>::sweep for one thread id (same text for both directions)
  spai0_ctor                     relaxation::spai0 constructor
  ilu0_structure                 relaxation::ilu0 constructor (structure of L, U, D)
  chebyshev_solve                relaxation::chebyshev::solve (call level, ghost automaton per step, every degree: inductive)

Bounded units are never counted as proved.  Native replay: replay/relax2.cpp."""
from cxc.extract import Cut, Rule, UF, IdxRule
from cxc.unit import Unit
from c16_direct import (A_SKY, SKY_HEAD, SKY_FUNCS, FACTORIZE_CUT, SKY_UNWINDSET, NOT_DECIDED_C16)

# ============================================================================ 1. skyline LU, values for n = 3
# Crout factorisation A = L U (U unit upper triangular, L carries the pivots, D = inverse pivots) on a
# skyline profile, written on DENSE indices (no skyline index arithmetic) with the same uninterpreted value
# operations as the extracted code.  For block values A = L U reads  L(i,i) U(i,k) + sum_{j<i} L(i,j) U(j,k) = a(i,k),
# hence U(i,k) = L(i,i)^-1 * (a(i,k) - sum ...) : the inverted pivot multiplies FROM THE LEFT.
SPEC_CROUT = r'''
/* dense view of a skyline object: cell (i,k), i < k, of column k is U[ptr[k+1] - (k - i)], cell (k,i) of row k is
 * L[ptr[k+1] - (k - i)], present iff k - i <= ptr[k+1] - ptr[k] (definition of the profile, skyline_lu.hpp:98-176) */
typedef struct { V u[CAP_N][CAP_N], l[CAP_N][CAP_N], d[CAP_N]; int thrown; } crout;
static void spec_crout(const skyline *s0, crout *c)
{
  const int n = s0->n;
  c->thrown = 0;
  for (int k = 0; k < NMAX; ++k) if (k < n && !c->thrown) {
    const int hk = s0->ptr[k + 1] - s0->ptr[k], first = k - hk;
    for (int i = 0; i < NMAX; ++i) if (i >= first && i < k) {          /* column k of U, top down */
      const int fi = i - (s0->ptr[i + 1] - s0->ptr[i]);
      V sum = s0->U[s0->ptr[k + 1] - (k - i)];
      for (int j = 0; j < NMAX; ++j) if (j >= first && j >= fi && j < i) sum = UF_SUB(sum, UF_MUL(c->l[i][j], c->u[j][k]));
      c->u[i][k] = UF_MUL(c->d[i], sum);
    }
    for (int i = 0; i < NMAX; ++i) if (i >= first && i < k) {          /* row k of L, left to right */
      const int fi = i - (s0->ptr[i + 1] - s0->ptr[i]);
      V sum = s0->L[s0->ptr[k + 1] - (k - i)];
      for (int j = 0; j < NMAX; ++j) if (j >= first && j >= fi && j < i) sum = UF_SUB(sum, UF_MUL(c->l[k][j], c->u[j][i]));
      c->l[k][i] = sum;
    }
    V piv = s0->D[k];                                                  /* pivot k */
    for (int j = 0; j < NMAX; ++j) if (j >= first && j < k) piv = UF_SUB(piv, UF_MUL(c->l[k][j], c->u[j][k]));
    if (math_is_zero(piv)) c->thrown = 1; else c->d[k] = math_inverse(piv);
  }
}
/* every cell of the factorised object equals the recurrence */
static _Bool crout_cells_U(const skyline *s0, const skyline *s, const crout *c)
{
  for (int k = 0; k < NMAX; ++k) if (k < s0->n)
    for (int i = 0; i < NMAX; ++i) if (i < k && k - i <= s0->ptr[k + 1] - s0->ptr[k]) { if (s->U[s0->ptr[k + 1] - (k - i)] != c->u[i][k]) return 0; }
  return 1;
}
static _Bool crout_cells_L(const skyline *s0, const skyline *s, const crout *c)
{
  for (int k = 0; k < NMAX; ++k) if (k < s0->n)
    for (int i = 0; i < NMAX; ++i) if (i < k && k - i <= s0->ptr[k + 1] - s0->ptr[k]) { if (s->L[s0->ptr[k + 1] - (k - i)] != c->l[k][i]) return 0; }
  return 1;
}
static _Bool crout_cells_D(const skyline *s0, const skyline *s, const crout *c)
{
  for (int k = 0; k < NMAX; ++k) if (k < s0->n) { if (s->D[k] != c->d[k]) return 0; }
  return 1;
}
'''

sky_values3 = Unit(
    name='skyline_lu_factorize_values3', props=['C16', 'C10'],
    functions=['solver::skyline_lu<V,ordering>::factorize()'],
    desc='Crout recurrences on every skyline profile with n <= 3, order-sensitive (uninterpreted) value operations: '
         'U(i,k) = D[i] * (a(i,k) - sum_{j<i} L(i,j) U(j,k)), L(k,i) = a(k,i) - sum_{j<i} L(k,j) U(j,i), '
         'D[k] = inverse(a(k,k) - sum_j L(k,j) U(j,k)), sums folded in ascending j; exception iff a pivot of the recurrence is zero',
    cuts={'factorize': FACTORIZE_CUT},
    template=SKY_HEAD + SKY_FUNCS + SPEC_CROUT + r'''
/* contract (enforced by the harness):
 *   requires sky_wf(self)  (any permutation, any profile, any values)
 *   assigns  L, U, D
 *   ensures  thrown <=> a pivot of the Crout recurrence (dense definition above) is zero;
 *            not thrown => every profile cell of U, of L and every D[k] equals the recurrence term  */
void h_sky_values3(void)
{
  skyline s;
  REQUIRES(sky_wf(&s));
  MIRROR_SKY(&s);
  skyline s0 = s;
  crout c;
  spec_crout(&s0, &c);
  f_sky_factorize(&s);
  ENSURES(!g_cap_exceeded, "bound artefact: allocation within verification capacity");
  ENSURES((g_thrown != 0) == (c.thrown != 0), "factorize: exception iff a pivot a(k,k) - sum_j L(k,j) U(j,k) of the Crout recurrence is zero");
  ENSURES(g_thrown || crout_cells_U(&s0, &s, &c), "factorize: U(i,k) == D[i] * (a(i,k) - sum_{j<i} L(i,j) U(j,k)) (inverted pivot from the LEFT, sum in ascending j) for every profile cell");
  ENSURES(g_thrown || crout_cells_L(&s0, &s, &c), "factorize: L(k,i) == a(k,i) - sum_{j<i} L(k,j) U(j,i) (sum in ascending j) for every profile cell");
  ENSURES(g_thrown || crout_cells_D(&s0, &s, &c), "factorize: D[k] == inverse(a(k,k) - sum_j L(k,j) U(j,k)) for every k");
  CANARY("harness.end");
}
''',
    entry='h_sky_values3', mode='unwound', unwind='NMAX+3', model='uf',
    variants=[{'NMAX': 3, 'ZMAX': 1}], thorough_variants=[{'NMAX': 4, 'ZMAX': 1}],
    bound_text='all skyline objects with 1 <= n <= 3 (thorough: 4): every permutation, every profile (row/column i holds 0..i cells), values symbolic (UF)',
    assumptions=A_SKY + ['A-skyline-zero: entries outside the profile are structurally zero and contribute no term (definition of the skyline format)'],
    replay='relax2', timeout=600, witness=['w_n', 'w_perm', 'w_ptr'],
    not_decided=NOT_DECIDED_C16 + ['n beyond the bound'],
)
sky_values3.unwindset = SKY_UNWINDSET + [(r'for \(int [ijk] = 0; [ijk] < NMAX;', 'NMAX+1')]


# ============================================================================ 2. ilu_solve<builtin>::serial_solve
from _common import member_rules
from _direct_common import SUB_ASSIGN
from _relax_common import (GS, ILUS, SPAI0, ILU0, A_RELAX, VEC_PRELUDE, SCHED_MEMBERS, omp_region_rules)
from c09_schedules import SPEC_COMMON

A_UF = ['A-uf: value operations (+ - * inverse norm is_zero zero identity) are uninterpreted functions of their operands; what is proved holds for every value type (double, complex, static_matrix blocks)']


# 16-bit value tokens (see A-uf16): measured 5x faster than 64-bit tokens on the UF-heavy bounded units
UF16 = '#define MODEL_UF 1\n#define CXC_UF_T unsigned short\n'
A_UF16 = ['A-uf16: value tokens are 16 bit wide; tokens are only compared with == and fed to uninterpreted functions, and the unwound program has fewer than 65536 value terms, so by the EUF small-model property no counterexample is lost']


def wit(*names):
    out = []
    for n in names:
        out += ['w_%s_nrows' % n, 'w_%s_ncols' % n, 'w_%s_ptr' % n, 'w_%s_col' % n, 'w_%s_val' % n]
    return out


# `a op= e;` -> `a = a op (e);` for a plain, member, subscripted or dereferenced lvalue at the start of a statement (same meaning
# for an lvalue without side effects); applied before the subscripts are wrapped so that the lvalue is still plain text
COMPOUND = Rule(r'(?P<pre>(?:^|[;{})]|\belse\b)\s*)(?P<lv>\*?(?:\(\*\w+\))?[A-Za-z_]?[\w.]*(?:->[\w.]+)*(?:\[[^\]=;]*\])*) (?P<op>[-+*/])= (?P<e>[^;{}]+);',
                r'\g<pre>\g<lv> = \g<lv> \g<op> (\g<e>);', '+', why='R-compound a op= e -> a = a op (e)')


class UFByType(object):
    """value arithmetic -> UF form, keyed on DECLARED TYPES (never on the names a benign edit changes):
    * `T name = e;` for T in `types`                      (declaration with initialiser)
    * `name = e;` / `*name = e;` / `name[...] = e;`       for every name the cut declares with one of `types`
      (`T name`, `T *name`), plus the lvalue regexes in `lvalues` (signature parameters / members named by the template)"""

    def __init__(self, types, lvalues=(), count='+'):
        self.types = list(types)
        self.lvalues = list(lvalues)
        self.count = count
        self.pat = 'UFByType ' + '|'.join(types)

    def apply(self, text, log):
        import re
        from cxc.extract import uf_expr, ExtractError, _split_args
        ty = r'(?:%s)' % '|'.join(self.types)
        fired = []
        names = set()
        # declarations `T a = e1, *b, c = e2;`: collect the declared names, rewrite every initialiser separately
        def decl(m):
            out = []
            for part in _split_args(m.group('d')):
                mm = re.match(r'(?P<h>\s*(?:\*\s*(?:const\s+)?)?(?P<n>\w+)\s*)(?:=(?P<e>.+))?$', part, re.S)
                if not mm:
                    out.append(part)
                    continue
                names.add(mm.group('n'))
                if mm.group('e') is not None and '*' not in mm.group('h'):
                    new = uf_expr(mm.group('e'))
                    fired.append((mm.group('e').strip(), new))
                    out.append(mm.group('h') + '= ' + new)
                else:
                    out.append(part)
            return m.group('h') + ','.join(out) + ';'

        text = re.sub(r'(?P<h>\b%s\s+)(?P<d>[*\w][^;{}]*);' % ty, decl, text, flags=re.M)
        n = len(fired)
        lv = [r'\*?\b(?:%s)\b(?:\[[^;=]*\])?' % '|'.join(sorted(names))] if names else []
        lv += self.lvalues

        def sub(m):
            e = m.group('e')
            new = uf_expr(e)
            fired.append((e.strip(), new))
            a, b = m.span('e')
            return m.group(0)[:a - m.start()] + new + m.group(0)[b - m.start():]

        for l in lv:
            text, k = re.subn(r'(?:(?<=[;{})])|(?<=\belse)|^)\s*(?:%s)\s*=\s*(?P<e>[^;=][^;]*);' % l, sub, text, flags=re.M)
            n += k
        if self.count == '+' and n < 1:
            raise ExtractError('UFByType fired 0 times')
        log.append({'rule': 'R-arith by declared type ' + ty, 'fired': n, 'names': sorted(names),
                    'rewrites': [{'from': a, 'to': b} for a, b in fired]})
        return text


SERIAL_SOLVE_CUT = Cut(
    ILUS, r'template <class Vector>\s*void serial_solve\(Vector &x\)\s*(?=\{)',
    rules=[Rule(r'\bthis->', 'self->', None, why='R-member this->m'),
           Rule(r'\bconst matrix(\s+)&', r'const matrix\1', '+', why='R-ref: const reference to the crs header -> copy of the header (same arrays)'),
           Rule(r'\bconst matrix_diagonal(\s*)&(\w+)(\s*)= \*', r'const V *const \2 = ', '+', why='R-ref: reference to numa_vector<V> -> pointer to its cells'),
           COMPOUND,
           IdxRule(r'(L|U)\.ptr', r'rows(\1) + 1', '+'), IdxRule(r'(L|U)\.(?:col|val)', r'nonzeros(\1)', '+'),
           IdxRule(r'x', 'x_n', '+'), IdxRule(r'D', 'D_n', '+')],
    uf=[UF(r'x\[[^;=]*\]\s*=\s*(?P<e>[^;=][^;]*);', '+')])

SPEC_TRI = r"""
/* x := (D^-1 + U)^-1 (I + L)^-1 x0: y = (I + L)^-1 x0 by forward substitution, z = (D^-1 + U)^-1 y by backward substitution, for the ILU factors
 * (ilu0.hpp: L strictly lower with unit diagonal implied, U strictly upper, D the INVERTED pivots):
 *   y_i = x0_i - sum_{c < i} l_ic y_c                 rows ascending, entries of the row in stored order
 *   z_i = D_i * (y_i - sum_{c > i} u_ic z_c)          rows descending, entries of the row in stored order
 * written on separate vectors (no in-place aliasing): the definition of the two triangular solves           */
static void spec_tri_solve(const crs *L, const crs *U, const V *D, const V *x0, V *z)
{
  V y[NMAX + 1];
  const size_t n = L->nrows;
  for (size_t i = 0; i < NMAX; ++i) if (i < n) {
    V s = x0[i];
    for (size_t j = 0; j < CAP_NNZ; ++j) if ((ptrdiff_t)j >= L->ptr[i] && (ptrdiff_t)j < L->ptr[i + 1]) s = UF_SUB(s, UF_MUL(L->val[j], y[L->col[j]]));
    y[i] = s;
  }
  for (size_t k = 0; k < NMAX; ++k) if (k < n) {
    const size_t i = n - 1 - k;
    V s = y[i];
    for (size_t j = 0; j < CAP_NNZ; ++j) if ((ptrdiff_t)j >= U->ptr[i] && (ptrdiff_t)j < U->ptr[i + 1]) s = UF_SUB(s, UF_MUL(U->val[j], z[U->col[j]]));
    z[i] = UF_MUL(D[i], s);
  }
}
"""

ilu_serial_solve = Unit(
    name='ilu_serial_solve', props=['C06', 'C10'],
    functions=['relaxation::detail::ilu_solve<builtin>::serial_solve(Vector&)'],
    desc='serial triangular solves of the incomplete factorisations, x := (D^-1 + U)^-1 (I + L)^-1 x (D = inverted pivots): y_i = x_i - sum_{c<i} l_ic y_c (rows ascending), '
         'then x_i = D_i * (y_i - sum_{c>i} u_ic x_c) (rows descending), entries folded in stored order; only x is written; index safety',
    cuts={'body': SERIAL_SOLVE_CUT},
    template=UF16 + VEC_PRELUDE + SPEC_COMMON + SPEC_TRI + r"""
WITNESS_CRS(L)
WITNESS_CRS(U)
/* data members of ilu_solve< builtin > used by the serial path, in declaration order (shared_ptr -> pointer, A-own) */
typedef crs matrix;
typedef struct { const crs *L; const crs *U; const V *D; } ilu_solve_t;
/* contract (enforced by the harness):
 *   requires  L strictly lower, U strictly upper, both n x n well-formed (as the ilu0/iluk/ilut/ilup constructors leave them: unit
 *             ilu0_structure), D and x have n cells
 *   assigns   x[0..n)
 *   ensures   x == spec_tri_solve(L, U, D, old x); L, U, D unchanged                                              */
static void f_serial_solve(const ilu_solve_t *self, V *x, size_t x_n, size_t D_n)
{
  const crs *const L = self->L;      /* unqualified member name in the first statement of the body */
  {
/*@CUT:body@*/
  }
}
void h_serial_solve(void)
{
  crs *L = crs_input(), *U = crs_input();
  REQUIRES(crs_wf(L, NMAX, NMAX, ZMAX) && crs_wf(U, NMAX, NMAX, ZMAX) && L->nrows == L->ncols && U->nrows == U->ncols && L->nrows == U->nrows);
  REQUIRES(crs_strict_tri(L, 1) && crs_strict_tri(U, 0));
  MIRROR_CRS(L, L); MIRROR_CRS(U, U);
  const size_t n = L->nrows;
  V D[NMAX + 1], D0[NMAX + 1], x[NMAX + 1], x0[NMAX + 1], z[NMAX + 1];
  for (size_t i = 0; i < NMAX + 1; ++i) { V a, b; D[i] = a; D0[i] = a; x[i] = b; x0[i] = b; z[i] = b; }
  crs_snap sl, su; crs_snapshot(L, &sl); crs_snapshot(U, &su);
  spec_tri_solve(L, U, D, x0, z);
  ilu_solve_t S; S.L = L; S.U = U; S.D = D;
  f_serial_solve(&S, x, n, n);
  _Bool same = 1, frame = 1;
  for (size_t i = 0; i < NMAX + 1; ++i) { if (i < n && x[i] != z[i]) same = 0; if (i >= n && x[i] != x0[i]) frame = 0; if (D[i] != D0[i]) frame = 0; }
  ENSURES(same, "C06 ILU solve: x_i == D_i * (y_i - sum_{c>i} u_ic x_c) with y_i == x_i - sum_{c<i} l_ic y_c, rows and entries in order");
  ENSURES(frame && crs_unchanged(L, &sl) && crs_unchanged(U, &su), "frame: only x[0..n-1] is written; L, U and D are unchanged");
  CANARY("harness.end");
}
""",
    entry='h_serial_solve', mode='unwound', unwind='max(ZMAX,NMAX)+3', model='uf',
    variants=[{'NMAX': 3, 'ZMAX': 3}], thorough_variants=[{'NMAX': 4, 'ZMAX': 4}],
    bound_text='n <= 3, nnz(L) <= 3, nnz(U) <= 3 (thorough: n <= 4, nnz <= 4 each), patterns symbolic (unsorted rows and duplicates allowed), values uninterpreted',
    assumptions=A_RELAX + A_UF + A_UF16 + ['A-own: shared_ptr members are plain pointers; a const reference to a matrix is a copy of its header (same arrays)'],
    replay='relax2', timeout=300, witness=wit('L', 'U'),
    not_decided=['exactness of the factors ((LU)_ij = a_ij): see ilu0_structure', 'n beyond the bound'])
ilu_serial_solve.unwindset = [(r'for\(ptrdiff_t j = [LU]\.ptr', 'ZMAX+1'), (r'for\(size_t i = ', 'NMAX+1')]

# ============================================================================ 3. level-scheduled kernels, one thread id
# sptr_solve<lower>::solve(x) and gauss_seidel::parallel_sweep<forward>::sweep(rhs, x): the parallel region body for ONE thread id
# (A-omp), executed on packed tables that satisfy S4 of c09_schedules.py (spec_packed_rows: literally the postcondition of
# units *_pack_* / *_schedule_*).  Contract: the thread walks its packed rows in order; row r updates only x[ord[r]] with the
# row's fold over the ORIGINAL matrix row (A, D); no other cell of x and no table is written.
SWEEP_MEMBERS = ['nthreads', 'tasks', 'ptr', 'col', 'val', 'ord']        # gauss_seidel::parallel_sweep has no member D (D is a local there)
PACKED = r'(?:ord|ptr|col|val|D)'


def region_rules(members):
    return ([COMPOUND] + omp_region_rules(1) + member_rules(members) + [
        Rule(r'for\((?:const )?task &t : self->tasks\[tid\]\) \{',
             r'for (size_t t_i = 0; t_i < self->tasks[tid].n; ++t_i) { const task *const t_r = &self->tasks[tid].d[t_i];', 1, why='R-rangefor'),
        Rule(r'\bt\.(beg|end)\b', r't_r->\1', '+', why='R-rangefor'),
        Rule(r'(self->%s\[tid\])\[' % PACKED, r'\1.d[', '+', why='R-vec-member: v[tid][k] -> v[tid].d[k]'),
        IdxRule(r'self->(%s)\[tid\]\.d' % PACKED, r'self->\1[tid].n', '+'),
        IdxRule(r'x', 'x_n', '+')])


SOLVE_CUT = Cut(ILUS, r'template <class Vector>\s*void solve\(Vector &x\) const\s*(?=\{)',
                rules=region_rules(SCHED_MEMBERS),
                uf=[UFByType(['rhs_type', 'value_type'], [r'x\[[^;=]*\]'])])
SWEEP_CUT = Cut(GS, r'template <class Vector1, class Vector2>\s*void sweep\(const Vector1 &rhs, Vector2 &x\) const\s*(?=\{)',
                rules=region_rules(SWEEP_MEMBERS) + [IdxRule(r'rhs', 'rhs_n', '+')],
                uf=[UFByType(['rhs_type', 'value_type'], [r'x\[[^;=]*\]'])])

# value model per variant: RING=1 -> commutative ring (int32, small inputs): decides "equal to the serial fold up to re-association"
MODEL_SWITCH = '#if RING\n#define MODEL_INT32 1\n#else\n#define MODEL_UF 1\n#define CXC_UF_T unsigned short\n#endif\n'

SPEC_REGION = r"""
#if RING
/* commutative ring Z/4 on int cells in [0,3] (masked unsigned arithmetic: exact, no overflow).  Measured: the equivalence of the
 * two associations is a multiplier/adder miter -- Z/4 14 s, Z/16 and Z/256 (and int32 with |v| <= 3) do not finish in 300 s     */
#undef UF_ADD
#undef UF_SUB
#undef UF_MUL
#define RMASK 0x3u
#define UF_ADD(a, b) ((V)((((unsigned)(a) & RMASK) + ((unsigned)(b) & RMASK)) & RMASK))
#define UF_SUB(a, b) ((V)((((unsigned)(a) & RMASK) + (RMASK + 1u) - ((unsigned)(b) & RMASK)) & RMASK))
#define UF_MUL(a, b) ((V)((((unsigned)(a) & RMASK) * ((unsigned)(b) & RMASK)) & RMASK))
static _Bool ring_cells(const V *p, size_t n) { for (size_t i = 0; i < n; ++i) if (!(p[i] >= 0 && p[i] <= (int)RMASK)) return 0; return 1; }
#endif
WITNESS_CRS(A)
int w_tid; ptrdiff_t w_ntasks; ptrdiff_t w_tbeg[CAP_TASK], w_tend[CAP_TASK]; ptrdiff_t w_nord; ptrdiff_t w_ord[CAP_VROW];
/* tasks of one thread as left by step 4 (S4, spec_pack_tasks): consecutive local ranges 0 = b0 <= e0 = b1 <= ... = nrows_of_thread */
static _Bool pre_tasks_local(const vec_task *T, size_t nord)
{
  if (T->n > NMAX) return 0;
  ptrdiff_t next = 0;
  for (size_t k = 0; k < NMAX; ++k) if (k < T->n) {
    if (!(T->d[k].beg == next && T->d[k].beg <= T->d[k].end)) return 0;
    next = T->d[k].end;
  }
  return (size_t)next == nord;
}
/* S2/S3 (sched_partition of c09_schedules.py): every row lies in exactly one (thread, task) range -> the packed rows of one thread are distinct */
static _Bool pre_ord_distinct(const vec_row *o)
{
  for (size_t a = 0; a < NMAX; ++a) for (size_t b = 0; b < a; ++b) if (a < o->n) { if (o->d[a] == o->d[b]) return 0; }
  return 1;
}
/* the tables of thread g for an ARBITRARY list of distinct rows ord[g] and arbitrary consecutive tasks: ptr/col/val/D[g] are the
 * packed copy that S4 (spec_packed_rows) determines entry by entry from (A, Dg, ord[g]); that the tables built here satisfy the
 * C09 predicate literally is asserted by the harness (clause "S4 link")                                                      */
static void sched_any_slot(sched *S, int g, const crs *A, const V *Dg, _Bool withD)
{
  sched_init(S, NT);
  S->D_len = withD ? NT : 0;
  { vec_task T; vec_row o; S->tasks[g] = T; S->ord[g] = o; }
  REQUIRES(S->ord[g].n <= A->nrows && pre_ord_distinct(&S->ord[g]));
  for (size_t r = 0; r < NMAX; ++r) if (r < S->ord[g].n) REQUIRES(S->ord[g].d[r] >= 0 && (size_t)S->ord[g].d[r] < A->nrows);
  REQUIRES(pre_tasks_local(&S->tasks[g], S->ord[g].n));
#if NTASK >= 0
  REQUIRES(S->tasks[g].n == NTASK);          /* number of tasks (= levels) concrete per variant: the task x row loop nest is what costs SAT time */
#endif
  S->ptr[g].n = S->ord[g].n + 1; S->ptr[g].d[0] = 0;
  if (withD) S->D[g].n = S->ord[g].n;
  ptrdiff_t head = 0;
  for (size_t r = 0; r < NMAX; ++r) if (r < S->ord[g].n) {
    const ptrdiff_t i = S->ord[g].d[r];
    if (withD) S->D[g].d[r] = Dg[i];
    for (ptrdiff_t k = 0; k < CAP_VNNZ - 1; ++k) if (k < A->ptr[i + 1] - A->ptr[i]) {
      S->col[g].d[head] = A->col[A->ptr[i] + k]; S->val[g].d[head] = A->val[A->ptr[i] + k]; ++head;
    }
    S->ptr[g].d[r + 1] = head;
  }
  S->col[g].n = (size_t)head; S->val[g].n = (size_t)head;
  w_tid = g; w_ntasks = (ptrdiff_t)S->tasks[g].n; w_nord = (ptrdiff_t)S->ord[g].n;
  for (size_t k = 0; k < CAP_TASK; ++k) { w_tbeg[k] = S->tasks[g].d[k].beg; w_tend[k] = S->tasks[g].d[k].end; }
  for (size_t k = 0; k < CAP_VROW; ++k) w_ord[k] = S->ord[g].d[k];
}
static _Bool sched_unchanged(const sched *a, const sched *b)
{
  if (!(a->nthreads == b->nthreads && a->D_len == b->D_len)) return 0;
  for (int t = 0; t < NT; ++t) if (!sched_slot_eq(a, b, t, 1)) return 0;
  return 1;
}
"""

A_REGION = A_RELAX + A_UF + A_UF16 + [
    'A-ring: the RING variants instantiate the value type with the commutative ring Z/4 (all values per cell; larger rings do not finish): there the kernel must equal the SERIAL fold exactly, i.e. the two kernels differ by re-association only',
    'A-s4: the packed per-thread tables satisfy S4 (spec_packed_rows), hold pairwise distinct rows (S2/S3) and the tasks are consecutive local ranges: postcondition of units sptr_pack_*/gs_pack and *_schedule_* (C09)',
    'A-barrier: "#pragma omp barrier" after every task is dropped in the one-thread view; that rows of one level do not touch a common unknown is S1 of C09']


def sptr_solve_unit(lower):
    tag = 'lower' if lower else 'upper'
    u = Unit(
        name='sptr_solve_' + tag, props=['C06', 'C09', 'C10'],
        functions=['relaxation::detail::ilu_solve<builtin>::sptr_solve<%s>::solve(Vector&) const' % ('true' if lower else 'false')],
        desc='level-scheduled %s triangular solve, parallel region for one thread id: the packed rows are visited in order, row r writes only x[ord[r]] := '
             '%s with X = zero + sum_c a_ic x_c folded in stored order over the row of the ORIGINAL factor; no other cell of x, no table written; '
             'ring variant: the update equals the serial fold ((x_i - a x) - a x ...) up to re-association' % (tag, 'x_i - X' if lower else 'D_i * (x_i - X)'),
        cuts={'body': SOLVE_CUT},
        template=MODEL_SWITCH + VEC_PRELUDE + SPEC_COMMON + SPEC_REGION + r"""
typedef V rhs_type;
/* contract (enforced by the harness):
 *   requires  A n x n well-formed (any pattern), tables of thread tid satisfy S4 w.r.t. (A, D), tasks consecutive; x has n cells
 *   assigns   x[ord[tid][r]] for the packed rows r of the thread
 *   ensures   x == the row folds applied in packed order (below); tables, A, D unchanged                       */
static void f_solve(const sched *self, V *x, size_t x_n, int g_tid)
{
  const _Bool lower = TPARAM;   /* template <bool lower> */
#define OMP_NCALLS 1
#define OMP_TID(k) (g_tid)
/*@CUT:body@*/
}
void h_solve(void)
{
  crs *A = crs_input();
  REQUIRES(crs_wf(A, NMAX, NMAX, ZMAX) && A->nrows == A->ncols);
  MIRROR_CRS(A, A);
  const size_t n = A->nrows;
  V Dg[NMAX + 1], x[NMAX + 1], xe[NMAX + 1];
  for (size_t i = 0; i < NMAX + 1; ++i) { V a, b; Dg[i] = a; x[i] = b; xe[i] = b; }
#if RING
  REQUIRES(ring_cells(A->val, CAP_NNZ) && ring_cells(Dg, NMAX + 1) && ring_cells(x, NMAX + 1));
#endif
  sched S, S0;
  sched_any_slot(&S, TID, A, Dg, !TPARAM);
  S0 = S;
  crs_snap s; crs_snapshot(A, &s);
  /* the definition, row by row in the order of the thread's packed rows, on the ghost copy xe, from the ORIGINAL rows of A */
  for (size_t r = 0; r < NMAX; ++r) if (r < S.ord[TID].n) {
    const size_t i = (size_t)S.ord[TID].d[r];
#if RING
    V acc = xe[i];                                       /* serial association: ((x_i - a x) - a x) ... (ilu_solve::serial_solve) */
    for (size_t j = 0; j < CAP_NNZ; ++j) if ((ptrdiff_t)j >= A->ptr[i] && (ptrdiff_t)j < A->ptr[i + 1]) acc = UF_SUB(acc, UF_MUL(A->val[j], xe[A->col[j]]));
    xe[i] = TPARAM ? acc : UF_MUL(Dg[i], acc);
#else
    V X = MATH_zero(rhs_type);                           /* association of the level-scheduled kernel: x_i - (0 + a x + a x ...) */
    for (size_t j = 0; j < CAP_NNZ; ++j) if ((ptrdiff_t)j >= A->ptr[i] && (ptrdiff_t)j < A->ptr[i + 1]) X = UF_ADD(X, UF_MUL(A->val[j], xe[A->col[j]]));
    xe[i] = TPARAM ? UF_SUB(xe[i], X) : UF_MUL(Dg[i], UF_SUB(xe[i], X));
#endif
  }
  f_solve(&S, x, n, TID);
  _Bool same = 1;
  for (size_t i = 0; i < NMAX + 1; ++i) if (x[i] != xe[i]) same = 0;
  ENSURES(!g_cap_exceeded, "bound artefact: vectors within verification capacity");
  ENSURES(spec_packed_rows(&S0, TID, A, Dg, !TPARAM), "S4 link: the tables the kernel is run on satisfy the C09 postcondition spec_packed_rows");
  ENSURES(same, "C06/C09 level-scheduled solve (one thread): every packed row r updates exactly x[ord[r]] with the fold of its own row of the factor (lower: x_i - sum a_ic x_c; upper: D_i * (x_i - sum a_ic x_c)); every other cell of x is unchanged");
  ENSURES(sched_unchanged(&S, &S0) && crs_unchanged(A, &s), "frame: solve() const writes no schedule table and not the matrix");
  CANARY("harness.end");
}
""",
        entry='h_solve', mode='unwound', unwind='max(ZMAX,NMAX)+3', model='uf',
        defines={'TPARAM': 1 if lower else 0, 'NT': 2, 'OMPK': 1, 'NTASK': -1},
        variants=[{'NMAX': 3, 'ZMAX': 3, 'TID': 1, 'RING': 0, 'NTASK': 1}, {'NMAX': 3, 'ZMAX': 3, 'TID': 0, 'RING': 0, 'NTASK': 2},
                  {'NMAX': 2, 'ZMAX': 3, 'TID': 1, 'RING': 0, 'NTASK': -1}, {'NMAX': 2, 'ZMAX': 3, 'TID': 0, 'RING': 1, 'NTASK': -1}],
        thorough_variants=[{'NMAX': 3, 'ZMAX': 3, 'TID': t, 'RING': 0, 'NTASK': -1} for t in (0, 1)] + [{'NMAX': 3, 'ZMAX': 3, 'TID': 1, 'RING': 1, 'NTASK': 2}],
        bound_text='uninterpreted values: n <= 3, nnz <= 3 with 1 or 2 tasks (levels) and n <= 2 with any number of tasks; ring Z/4: n <= 2, nnz <= 3 '
                   '(thorough: n <= 3 with any number of tasks <= n, measured 110-160 s; ring n <= 3 with 2 tasks); thread slots 0 and 1 of 2; '
                   'pattern, list of packed rows and task ranges symbolic',
        assumptions=A_REGION, replay='relax2', timeout=300,
        witness=wit('A') + ['w_tid', 'w_ntasks', 'w_tbeg', 'w_tend', 'w_nord', 'w_ord'],
        not_decided=['that the interleaving of the threads of one level does not matter: S1-S3 of C09 + the standard argument', 'n beyond the bound'])
    u.unwindset = REGION_UNWINDSET
    return u


REGION_UNWINDSET = [(r'omp_k < OMP_NCALLS', 'OMPK+1'), (r'for \(size_t t_i = 0;', 'NMAX+1'),
                    (r'for\(ptrdiff_t r = ', 'NMAX+1'), (r'for\(ptrdiff_t j = beg', 'ZMAX+1'), (r'< NT;', 'NT+1')]

sptr_solve_lower = sptr_solve_unit(True)
sptr_solve_upper = sptr_solve_unit(False)

gs_parallel_sweep = Unit(
    name='gs_parallel_sweep', props=['C06', 'C09', 'C10'],
    functions=['relaxation::gauss_seidel<Backend>::parallel_sweep<forward>::sweep(const Vector1&, Vector2&) const'],
    desc='level-scheduled Gauss-Seidel sweep (same text for forward and backward), parallel region for one thread id: the packed rows are visited in order, '
         'row r writes only x[ord[r]] := inverse(a_ii) * (f_i - sum_{c != i} a_ic x_c), entries folded in stored order over the row of the ORIGINAL matrix '
         '(the expression of gauss_seidel::serial_sweep); no other cell of x, not rhs, no table written',
    cuts={'body': SWEEP_CUT},
    template=UF16 + VEC_PRELUDE + SPEC_COMMON + '#define RING 0\n' + SPEC_REGION + r"""
typedef V rhs_type;
/* contract (enforced by the harness):
 *   requires  A n x n well-formed with exactly one stored diagonal entry per row (property: non-zero diagonal), tables of thread tid satisfy S4
 *             w.r.t. A, tasks consecutive; x and rhs have n cells
 *   assigns   x[ord[tid][r]] for the packed rows r of the thread
 *   ensures   x == the row formula of the serial sweep applied in packed order; tables, A, rhs unchanged        */
static void f_sweep(const sched *self, const V *rhs, size_t rhs_n, V *x, size_t x_n, int g_tid)
{
#define OMP_NCALLS 1
#define OMP_TID(k) (g_tid)
/*@CUT:body@*/
}
static _Bool one_diag_per_row(const crs *A)
{
  for (size_t i = 0; i < NMAX; ++i) if (i < A->nrows) { if (count_in_row(A, i, i) != 1) return 0; }
  return 1;
}
void h_sweep(void)
{
  crs *A = crs_input();
  REQUIRES(crs_wf(A, NMAX, NMAX, ZMAX) && A->nrows == A->ncols);
#if ONE_DIAG
  REQUIRES(one_diag_per_row(A));          /* sub-domain of C06 (non-zero diagonal) kept as its own variant at the larger bound */
#endif
  /* otherwise ANY pattern (C09: all sparsity patterns): a row without a stored diagonal entry is swept with D = identity, exactly
   * as gauss_seidel::serial_sweep does; with several stored diagonal entries the last one is used (also as in serial_sweep) */
  MIRROR_CRS(A, A);
  const size_t n = A->nrows;
  V f[NMAX + 1], f0[NMAX + 1], x[NMAX + 1], xe[NMAX + 1];
  for (size_t i = 0; i < NMAX + 1; ++i) { V a, b; f[i] = a; f0[i] = a; x[i] = b; xe[i] = b; }
  sched S, S0;
  sched_any_slot(&S, TID, A, f, 0);
  S0 = S;
  crs_snap s; crs_snapshot(A, &s);
  for (size_t r = 0; r < NMAX; ++r) if (r < S.ord[TID].n) {
    const size_t i = (size_t)S.ord[TID].d[r];
    V aii = MATH_identity(V), X = f[i];
    for (size_t j = 0; j < CAP_NNZ; ++j) if ((ptrdiff_t)j >= A->ptr[i] && (ptrdiff_t)j < A->ptr[i + 1]) {
      if ((size_t)A->col[j] == i) aii = A->val[j];
      else X = UF_SUB(X, UF_MUL(A->val[j], xe[A->col[j]]));
    }
    xe[i] = UF_MUL(math_inverse(aii), X);
  }
  f_sweep(&S, f, n, x, n, TID);
  _Bool same = 1, frame = 1;
  for (size_t i = 0; i < NMAX + 1; ++i) { if (x[i] != xe[i]) same = 0; if (f[i] != f0[i]) frame = 0; }
  ENSURES(!g_cap_exceeded, "bound artefact: vectors within verification capacity");
  ENSURES(spec_packed_rows(&S0, TID, A, f, 0), "S4 link: the tables the kernel is run on satisfy the C09 postcondition spec_packed_rows");
  ENSURES(same, "C06/C09 level-scheduled Gauss-Seidel (one thread): every packed row r updates exactly x[ord[r]] with inverse(a_ii) * (f_i - sum_{c != i} a_ic x_c) of its own row, entries in stored order; every other cell of x is unchanged");
  ENSURES(frame && sched_unchanged(&S, &S0) && crs_unchanged(A, &s), "frame: sweep() const writes no schedule table, not rhs and not the matrix");
  CANARY("harness.end");
}
""",
    entry='h_sweep', mode='unwound', unwind='max(ZMAX,NMAX)+3', model='uf',
    defines={'NT': 2, 'OMPK': 1, 'NTASK': -1},
    variants=[{'NMAX': 3, 'ZMAX': 4, 'TID': 1, 'NTASK': 1, 'ONE_DIAG': 1}, {'NMAX': 3, 'ZMAX': 4, 'TID': 0, 'NTASK': 2, 'ONE_DIAG': 1}, {'NMAX': 2, 'ZMAX': 4, 'TID': 1, 'NTASK': -1, 'ONE_DIAG': 1},
              {'NMAX': 3, 'ZMAX': 3, 'TID': 1, 'NTASK': 1, 'ONE_DIAG': 0}, {'NMAX': 3, 'ZMAX': 3, 'TID': 0, 'NTASK': 2, 'ONE_DIAG': 0}],
    thorough_variants=[{'NMAX': 3, 'ZMAX': 4, 'TID': t, 'NTASK': -1, 'ONE_DIAG': 1} for t in (0, 1)] + [{'NMAX': 3, 'ZMAX': 4, 'TID': t, 'NTASK': 2, 'ONE_DIAG': 0} for t in (0, 1)],
    bound_text='n <= 3, nnz <= 4 with 1 or 2 tasks (levels) and n <= 2 with any number of tasks (thorough: n <= 3, any number of tasks <= n); thread slots 0 and 1 of 2; '
               'pattern with one diagonal entry per row at these bounds, ANY pattern (rows without or with several stored diagonal entries: D = identity resp. the last one, as in serial_sweep) for n <= 3, nnz <= 3 (thorough 4) with 1 or 2 tasks; list of packed rows and task ranges symbolic; values uninterpreted',
    assumptions=A_REGION, replay='relax2', timeout=300,
    witness=wit('A') + ['w_tid', 'w_ntasks', 'w_tbeg', 'w_tend', 'w_nord', 'w_ord'],
    not_decided=['that the interleaving of the threads of one level does not matter: S1-S3 of C09 + the standard argument',
                 'n beyond the bound'])
gs_parallel_sweep.unwindset = REGION_UNWINDSET

# ============================================================================ 4. relaxation::spai0 constructor
from _relax_common import row_iter_rules

# std::make_shared< numa_vector<value_type> >(n, false): a fresh vector of n UNINITIALISED cells (nondeterministic content: whatever is
# proved holds for every prior heap content, C10)
NUMA_NEW = Rule(r'\bauto (\w+) = std_make_shared<\s*numa_vector<value_type>\s*>\((?P<n>[^,;()]+), 0\);',
                r'V *const \1 = NEW_CAP(V, \g<n>, NMAX + 1); const size_t \1_n = (size_t)(\g<n>);', 1, why='R-new make_shared<numa_vector<V>>(n, false)')
NUMA_DEREF = Rule(r'\(\*(\w+)\)\[', r'\1[', '+', why='R-deref (*p)[i] on shared_ptr<numa_vector> -> p[i]')

SPAI0_CUT = Cut(
    SPAI0, r'template <class Matrix>\s*spai0\( const Matrix &A, const params &, const typename Backend::params &backend_prm\)\s*(?=\{)',
    rules=row_iter_rules(1, 1, 1) + [
        COMPOUND, NUMA_NEW, NUMA_DEREF,
        Rule(r'^(\s*)M = Backend::copy_vector\((\w+), backend_prm\);', r'\1self->M = \2; self->M_n = \2_n;', 1,
             why='member M; Backend::copy_vector(shared_ptr<numa_vector>, prm) of the builtin backend returns its argument (builtin.hpp:964-970)'),
        IdxRule(r'A\.col|A\.val', 'nonzeros(A)', '+'), IdxRule(r'A\.ptr', 'rows(A) + 1', '+'), IdxRule(r'm', 'm_n', '+')],
    uf=[UFByType(['value_type', 'scalar_type'], [r'm\[[^;=]*\]'])])

spai0_ctor = Unit(
    name='spai0_ctor', props=['C06', 'C10'],
    functions=['relaxation::spai0<Backend>::spai0(const Matrix&, const params&, const backend_params&)'],
    desc='SPAI-0 diagonal approximate inverse: M_i = inverse(sum_j norm(a_ij)^2) * a_ii  (= a_ii / sum_j |a_ij|^2, the row-wise minimiser of '
         '||I - M A||_F over diagonal M), the sum over ALL stored entries of row i folded in stored order from zero, the numerator the sum of the stored '
         'diagonal entries from zero; every M_i written (no dependence on the uninitialised allocation); A unchanged',
    cuts={'body': SPAI0_CUT},
    template=UF16 + VEC_PRELUDE + r"""
typedef V scalar_type;
WITNESS_CRS(A)
/* data member of relaxation::spai0: std::shared_ptr<matrix_diagonal> M  (pointer to the cells + length) */
typedef struct { V *M; size_t M_n; } spai0_t;
/* contract (enforced by the harness):
 *   requires  A well-formed n x n (any pattern: unsorted, duplicates, rows without diagonal)
 *   assigns   the fresh vector M
 *   ensures   M has n cells, M_i == inverse(den_i) * num_i with den_i = ((zero + norm(a_i1)*norm(a_i1)) + ...) over the stored entries of row i in
 *             order and num_i = zero + (stored diagonal entries of row i in order); A unchanged                                               */
static void f_spai0(spai0_t *self, const crs *A_p)
{
#define A (*A_p)
/*@CUT:body@*/
#undef A
}
void h_spai0(void)
{
  crs *A = crs_input();
  REQUIRES(crs_wf(A, NMAX, NMAX, ZMAX) && A->nrows == A->ncols);
  MIRROR_CRS(A, A);
  const size_t n = A->nrows;
  crs_snap s; crs_snapshot(A, &s);
  V e[NMAX + 1];
  for (size_t i = 0; i < NMAX; ++i) if (i < n) {
    V num = MATH_zero(value_type), den = MATH_zero(scalar_type);
    for (size_t j = 0; j < CAP_NNZ; ++j) if ((ptrdiff_t)j >= A->ptr[i] && (ptrdiff_t)j < A->ptr[i + 1]) {
      const V nv = math_norm(A->val[j]);
      den = UF_ADD(den, UF_MUL(nv, nv));
      if ((size_t)A->col[j] == i) num = UF_ADD(num, A->val[j]);
    }
    e[i] = UF_MUL(math_inverse(den), num);
  }
  spai0_t S; S.M = 0; S.M_n = 0;
  f_spai0(&S, A);
  ENSURES(!g_cap_exceeded && !g_thrown, "bound artefact / no exception: allocation within verification capacity, constructor does not throw");
  ENSURES(S.M != 0 && S.M_n == n, "spai0: M is a vector of n cells");
  _Bool same = 1;
  for (size_t i = 0; i < NMAX; ++i) if (i < n && S.M != 0) { if (S.M[i] != e[i]) same = 0; }
  ENSURES(same, "C06 SPAI-0: M_i == inverse(sum_j norm(a_ij)*norm(a_ij)) * a_ii, sums from zero over the stored entries of row i in order (every M_i written)");
  ENSURES(crs_unchanged(A, &s), "frame: the input matrix is not modified");
  CANARY("harness.end");
}
""",
    entry='h_spai0', mode='unwound', unwind='max(ZMAX,NMAX)+3', model='uf',
    variants=[{'NMAX': 3, 'ZMAX': 4}], thorough_variants=[{'NMAX': 3, 'ZMAX': 6}, {'NMAX': 4, 'ZMAX': 5}],
    bound_text='n <= 3, nnz <= 4 (thorough: n <= 3, nnz <= 6 and n <= 4, nnz <= 5), pattern symbolic (unsorted rows, duplicates, missing diagonal), values uninterpreted',
    assumptions=A_RELAX + A_UF + A_UF16 + [
        'A-own: shared_ptr members are plain pointers; make_shared<numa_vector<V>>(n, false) is a fresh allocation of n cells with arbitrary content',
        'A-inst: Backend = builtin (Backend::copy_vector of a shared_ptr<numa_vector> returns its argument); scalar_type values are value tokens too',
        'A-omp: "#pragma omp parallel for" over the rows is dropped; iteration i writes only m[i] (visible in the text: the only store is (*m)[i])'],
    replay='relax2', timeout=300, witness=wit('A'),
    not_decided=['that this M minimises ||I - M A||_F over diagonal matrices (calculus on the formula the unit pins, not a code property)', 'n beyond the bound'])
spai0_ctor.unwindset = [(r'for \(ptrdiff_t a = A\.ptr', 'ZMAX+1'), (r'for\(ptrdiff_t i = 0;', 'NMAX+1')]

# ============================================================================ 5. relaxation::ilu0 constructor: STRUCTURE of L, U, D
from _common import CRS_MEMBERS_C, crs_member_cuts

ILU0_CUT = Cut(
    ILU0, r'template <class Matrix>\s*ilu0\( const Matrix &A, const params &prm, const typename Backend::params &bprm\)\s*: prm\(prm\)\s*(?=\{)',
    rules=[
        COMPOUND, NUMA_NEW, NUMA_DEREF,
        Rule(r'^\s*typedef [^;\n]*\bbuild_matrix;\n', '', 1, why='R-tmpl: build_matrix = backend::crs<V, C, P> (typedef in the template)'),
        Rule(r'\bauto (\w+) = std_make_shared<build_matrix>\(\);', r'crs *const \1 = crs_new();', 2, why='R-new make_shared<crs>()'),
        Rule(r'\b(\w+)->set_size\(([^,()]+), ([^,()]+)\);', r'crs_set_size(\1, \2, \3, 0 /* default clean_ptr = false */);', 2, why='R-member-call'),
        Rule(r'\b(\w+)->set_nonzeros\(([^,()]+)\);', r'crs_set_nonzeros_n(\1, \2, 1 /* default need_values = true */);', 2, why='R-member-call'),
        Rule(r'\bstd_vector<value_type\*> (\w+)\((?P<n>[^,;()]+), NULL\);',
             r'STD_VECTOR_PTR(\1, \g<n>);', 1,
             why='R-vector std::vector<V*> work(n, NULL)'),
        Rule(r'\bauto (\w+) = (\w+)->val\[', r'value_type \1 = \2->val[', '+', why='R-auto (value_type)'),
        Rule(r'^(\s*)ilu = std_make_shared<ilu_solve>\((\w+), (\w+), (\w+), prm\.solve, bprm\);', r'\1ILU_MADE(self, \2, \3, \4);', 1,
             why='member ilu = make_shared<ilu_solve>(L, U, D, ...): ghost hook recording the three arguments (the solver is unit ilu_serial_solve / sptr_*)'),
        IdxRule(r'A\.col|A\.val', 'nonzeros(A)', '+'), IdxRule(r'A\.ptr', 'rows(A) + 1', '+'),
        IdxRule(r'(L|U)->(?:col|val)', r'\1->nnz', '+'), IdxRule(r'(L|U)->ptr', r'\1->nrows + 1', '+'),
        IdxRule(r'D', 'D_n', '+'), IdxRule(r'work', 'work_n', '+')],
    uf=[UFByType(['value_type'])])

SPEC_ILU0 = r"""
typedef crs build_matrix;
/* std::vector<value_type*> name(n, NULL): constant-capacity array of n null pointers + logical length */
#define STD_VECTOR_PTR(name, n) value_type *name[NMAX + 1]; const size_t name##_n = (size_t)(n); for (size_t i_ = 0; i_ < NMAX + 1; ++i_) name[i_] = NULL
WITNESS_CRS(A)
size_t w_r0;
/* ghost recording through the value-model macros (no code is retyped): which values were inverted / tested for zero, how often */
static int g_inv_calls; static V g_inv_arg[NMAX + 2];
static inline V rec_inverse(V a) { if (g_inv_calls < NMAX + 2) g_inv_arg[g_inv_calls] = a; g_inv_calls++; return __CPROVER_uninterpreted_inverse(a); }
static int g_zero_calls, g_zero_true, g_zero_last; static V g_zero_arg[CAP_NNZ + 1]; static _Bool g_zero_res[CAP_NNZ + 1];
static inline _Bool rec_is_zero(V a)
{
  const _Bool r = __CPROVER_uninterpreted_is_zero(a) ? 1 : 0;
  if (g_zero_calls < (int)CAP_NNZ + 1) { g_zero_arg[g_zero_calls] = a; g_zero_res[g_zero_calls] = r; }
  g_zero_calls++; if (r) g_zero_true++; g_zero_last = r; return r;
}
#undef math_inverse
#undef math_is_zero
#define math_inverse(a) rec_inverse((V)(a))
#define math_is_zero(a) rec_is_zero((V)(a))
#define RAW_IS_ZERO(a) (__CPROVER_uninterpreted_is_zero((V)(a)) ? 1 : 0)
/* member ilu of relaxation::ilu0: the triangular solver made from (L, U, D) */
typedef struct { const crs *L; const crs *U; const V *D; size_t D_n; int made; } ilu0_t;
#define ILU_MADE(self, l, u, d) do { (self)->L = (l); (self)->U = (u); (self)->D = (d); (self)->D_n = d##_n; (self)->made++; } while (0)

static _Bool one_diag_per_row(const crs *A)
{
  for (size_t i = 0; i < NMAX; ++i) if (i < A->nrows) { if (count_in_row(A, i, i) != 1) return 0; }
  return 1;
}
/* row r has no stored diagonal but a stored entry right of the diagonal */
static _Bool row_lacks_diag_right(const crs *A, size_t r)
{
  _Bool right = 0;
  for (size_t j = 0; j < CAP_NNZ; ++j) if ((ptrdiff_t)j >= A->ptr[r] && (ptrdiff_t)j < A->ptr[r + 1]) { if ((size_t)A->col[j] > r) right = 1; }
  return count_in_row(A, r, r) == 0 && right;
}
/* factor F (lower != 0: L, else U): n x n, ptr from 0 monotone to nnz, every column strictly on its side of the diagonal and strictly ascending */
static _Bool factor_wf(const crs *F, size_t n, size_t cap, _Bool lower)
{
  if (!(F->nrows == n && F->ncols == n && F->ptr[0] == 0)) return 0;
  for (size_t i = 0; i < NMAX; ++i) if (i < n) { if (!(F->ptr[i] <= F->ptr[i + 1])) return 0; }
  if (!(F->ptr[n] >= 0 && (size_t)F->ptr[n] == F->nnz && F->nnz <= cap)) return 0;
  for (size_t i = 0; i < NMAX; ++i) if (i < n)
    for (size_t j = 0; j < CAP_NNZ; ++j) if ((ptrdiff_t)j >= F->ptr[i] && (ptrdiff_t)j < F->ptr[i + 1]) {
      if (lower ? !(F->col[j] >= 0 && (size_t)F->col[j] < i) : !((size_t)F->col[j] > i && (size_t)F->col[j] < n)) return 0;
      if ((ptrdiff_t)j + 1 < F->ptr[i + 1] && !(F->col[j] < F->col[j + 1])) return 0;
    }
  return 1;
}
/* pattern(L) + diagonal + pattern(U) == pattern(A) minus the entries whose computed value is_zero, entry by entry:
 * row i of A (strictly ascending) is tested in the order  pivot, entries left of the diagonal, entries right of it  (one is_zero call each,
 * logged above); the entries whose test is false are exactly the stored entries of L / U row i, in order, holding the tested value */
static _Bool factors_are_kept_entries(const crs *L, const crs *U, const crs *A, size_t n)
{
  size_t call = 0; ptrdiff_t lpos = 0, upos = 0;
  for (size_t i = 0; i < NMAX; ++i) if (i < n) {
    if (call > CAP_NNZ || g_zero_res[call]) return 0;                     /* the pivot of row i tested non-zero */
    call++;
    for (int side = 0; side < 2; ++side)
      for (size_t j = 0; j < CAP_NNZ; ++j) if ((ptrdiff_t)j >= A->ptr[i] && (ptrdiff_t)j < A->ptr[i + 1] && (side == 0 ? (size_t)A->col[j] < i : (size_t)A->col[j] > i)) {
        if (call > CAP_NNZ) return 0;
        if (!g_zero_res[call]) {
          const crs *F = side == 0 ? L : U; ptrdiff_t *pos = side == 0 ? &lpos : &upos;
          if (!(*pos < F->ptr[i + 1] && F->col[*pos] == A->col[j] && F->val[*pos] == g_zero_arg[call])) return 0;
          (*pos)++;
        }
        call++;
      }
    if (lpos != L->ptr[i + 1] || upos != U->ptr[i + 1]) return 0;
  }
  return 1;
}
"""

ilu0_structure = Unit(
    name='ilu0_structure', props=['C06', 'C10'],
    functions=['relaxation::ilu0<Backend>::ilu0(const Matrix&, const params&, const backend_params&)', 'crs::set_size', 'crs::set_nonzeros'],
    desc='ILU(0) constructor, structure of the factors handed to the triangular solver: L strictly lower, U strictly upper, columns in range and strictly ascending, '
         'pattern(L) + diagonal + pattern(U) == pattern(A) minus the entries whose computed value is_zero (kept values are non-zero, every off-diagonal entry is tested exactly once, '
         'counts add up), D[i] = inverse of a value tested non-zero, inverted exactly once per row; zero pivot => exception; row without diagonal but with an entry right of it => exception; '
         'every subscript within its array; A unchanged',
    cuts=dict(crs_member_cuts(), body=ILU0_CUT),
    template=UF16 + VEC_PRELUDE + CRS_MEMBERS_C + SPEC_ILU0 + r"""
/* contract (enforced by the harness):
 *   requires  A n x n well-formed, rows strictly ascending (sorted, no duplicates: A-sorted)
 *             DIAG=1: every row has a stored diagonal entry;  DIAG=0: some row r0 has no stored diagonal but an entry right of the diagonal
 *   ensures   DIAG=1, not thrown: structure clauses above;  thrown => the last value tested is_zero (a pivot);
 *             DIAG=0: thrown                                                                                      */
static void f_ilu0(ilu0_t *self, const crs *A_p)
{
#define A (*A_p)
/*@CUT:body@*/
#undef A
}
void h_ilu0(void)
{
  crs *A = crs_input();
  REQUIRES(crs_wf(A, NMAX, NMAX, ZMAX) && A->nrows == A->ncols && crs_rows_sorted(A, 1));
  const size_t n = A->nrows;
#if DIAG
  REQUIRES(one_diag_per_row(A));
#else
  size_t r0; REQUIRES(r0 < n && row_lacks_diag_right(A, r0)); w_r0 = r0;
#endif
  MIRROR_CRS(A, A);
  crs_snap s; crs_snapshot(A, &s);
  ilu0_t S; S.L = 0; S.U = 0; S.D = 0; S.D_n = 0; S.made = 0;
  f_ilu0(&S, A);
  ENSURES(!g_cap_exceeded, "bound artefact: allocation within verification capacity");
  ENSURES(crs_unchanged(A, &s), "frame: the input matrix is not modified");
#if DIAG
  ENSURES(!g_thrown || g_zero_last, "ilu0: with a stored diagonal in every row an exception is raised only for a pivot that is_zero");
  if (!g_thrown) {
    const size_t nnzA = (size_t)A->ptr[n];
    ENSURES(S.made == 1 && S.L != 0 && S.U != 0 && S.D != 0 && S.D_n == n, "ilu0: the triangular solver is made exactly once from (L, U, D), D has n cells");
    if (S.made == 1 && S.L != 0 && S.U != 0 && S.D != 0) {
      const _Bool lwf = factor_wf(S.L, n, CAP_NNZ, 1), uwf = factor_wf(S.U, n, CAP_NNZ, 0);
      ENSURES(lwf, "ilu0: L is n x n, ptr monotone from 0 to nnz, every column strictly LEFT of the diagonal and strictly ascending");
      ENSURES(uwf, "ilu0: U is n x n, ptr monotone from 0 to nnz, every column strictly RIGHT of the diagonal, in range and strictly ascending");
      ENSURES((size_t)g_zero_calls == nnzA, "ilu0: every stored entry of A is tested for zero exactly once (n pivots + every off-diagonal entry)");
      ENSURES(!lwf || !uwf || (size_t)g_zero_calls != nnzA || factors_are_kept_entries(S.L, S.U, A, n),
              "ilu0: row by row, the stored entries of L / U are exactly the entries of A left / right of the diagonal whose computed value is not is_zero, in order, each holding the tested value");
      _Bool dinv = g_inv_calls == (int)n;
      for (size_t i = 0; i < NMAX; ++i) if (i < n && dinv) { if (S.D[i] != __CPROVER_uninterpreted_inverse(g_inv_arg[i]) || RAW_IS_ZERO(g_inv_arg[i])) dinv = 0; }
      ENSURES(dinv, "ilu0: exactly one inversion per row, D[i] == inverse(pivot_i) and the inverted pivot was tested non-zero (zero pivot => exception)");
    }
  }
#else
  ENSURES(g_thrown, "ilu0: a row without a stored diagonal entry (and an entry right of the diagonal) is reported by an exception");
#endif
  CANARY("harness.end");
}
""",
    entry='h_ilu0', mode='unwound', unwind='max(ZMAX,NMAX)+3', model='uf',
    variants=[{'NMAX': 3, 'ZMAX': 5, 'DIAG': 1}, {'NMAX': 3, 'ZMAX': 8, 'DIAG': 0, 'CXC_NOCOVER': 1}],
    thorough_variants=[{'NMAX': 3, 'ZMAX': 9, 'DIAG': 1}, {'NMAX': 3, 'ZMAX': 8, 'DIAG': 0, 'CXC_NOCOVER': 1}],
    bound_text='n <= 3, nnz <= 5 with a full diagonal (thorough: nnz <= 9 = every 3x3 pattern; measured 100 s / 120 s at nnz <= 6 / about 4 min), nnz <= 8 = every 3x3 pattern with a missing diagonal; rows strictly ascending, pattern symbolic, values uninterpreted (is_zero an uninterpreted predicate: '
               'every combination of dropped entries / zero pivots)',
    assumptions=A_RELAX + A_UF + A_UF16 + [
        'A-sorted: the rows of A are sorted by column without duplicates (ILU(0) walks each row up to the diagonal; amgcl sorts the rows of every level matrix)',
        'A-own: shared_ptr members are plain pointers; make_shared<numa_vector<V>>(n, false) is a fresh allocation of n cells with arbitrary content',
        'A-ghost: math::inverse / math::is_zero are wrapped by recording macros (argument log, call counters) around the same uninterpreted functions',
        'A-callee: crs::set_size / crs::set_nonzeros bodies are inlined from /repo'],
    replay='relax2', timeout=600, witness=wit('A') + ['w_r0'],
    not_decided=['(L U)_ij = a_ij on the pattern and exactness on tridiagonal/arrow matrices (needs field arithmetic: not decidable by CBMC on this code)',
                 'which value each factor entry holds (uninterpreted; only: kept entries are non-zero, dropped ones tested zero)',
                 'OBSERVATION (outside the quantifier "non-zero diagonal"): a row whose stored entries all lie LEFT of a missing diagonal raises no exception; D[i] is then never written '
                 '(uninitialised numa_vector cell) and never inverted', 'n beyond the bound'])
# a strictly ascending row has at most n entries: every row loop runs <= NMAX times (unwinding assertions check it)
ilu0_structure.unwindset = [(r'for\(ptrdiff_t [jk] = ', 'NMAX+1'), (r'for\(ptrdiff_t i = 0;', 'NMAX+1')]
ilu0_structure.cover_exempt = r'^canary set_size\.1$'   # crs::set_size(n, m, clean_ptr): the constructor passes the default clean_ptr = false, the zeroing branch is not taken

# ============================================================================ 6. relaxation::chebyshev::solve (call level, all degrees)
from cxc.extract import Loop, UFArgs
CHEB = 'amgcl/relaxation/chebyshev.hpp'

CHEB_T = r"""
#include "orch_trace.h"
int g_thrown;
#undef residual
#undef vmul
#undef axpby
typedef struct cheb_prm { unsigned degree; V higher, lower; int power_iters; _Bool scale; } cheb_prm;
/* data members of relaxation::chebyshev in declaration order: prm; M; p, r (mutable workspace); c, d */
typedef struct cheb { cheb_prm prm; const vec *M; vec *p, *r; V c, d; } cheb;
/* ghost automaton of ONE Chebyshev step (st: 0 expect residual, 1 expect the diagonal scaling, 2 expect p-update, 3 expect x-update),
 * it = number of completed steps, ok = sticky "every call so far was the expected one with the expected arguments",
 * aprev = alpha of the previous step; sc, c, d = copies of prm.scale, c, d (fixed by the precondition)               */
struct cheb_ghost { int st; unsigned it; _Bool ok; V aprev; _Bool sc; V c, d; } G;
#define ONE_ MATH_identity(scalar_type)
#define ZERO_ MATH_zero(scalar_type)
/* the three-term Chebyshev recurrence for the ellipse with centre d and semi-axis c (Saad, Iterative Methods, Alg. 12.1; Adams et al. 2003):
 *   alpha_0 = 1/d,  alpha_1 = 2d / (2d^2 - c^2),  alpha_k = 1 / (d - alpha_{k-1} c^2 / 4),   beta_0 = 0,  beta_k = alpha_k d - 1
 * as terms of the uninterpreted scalar operations, in the evaluation order of the source                                              */
#define ALPHA_1 UF_MUL(UF_MUL(UF_CONST(2), G.d), math_inverse(UF_SUB(UF_MUL(UF_MUL(UF_CONST(2), G.d), G.d), UF_MUL(G.c, G.c))))
#define ALPHA_K(prev) math_inverse(UF_SUB(G.d, UF_MUL(UF_MUL(UF_MUL(UF_CONST(0.25), (prev)), G.c), G.c)))
#define EXP_ALPHA(it, prev) ((it) == 0 ? math_inverse(G.d) : (it) == 1 ? ALPHA_1 : ALPHA_K(prev))
#define EXP_BETA(it, a) ((it) == 0 ? ZERO_ : UF_SUB(UF_MUL((a), G.d), ONE_))
#define OLD(e) __CPROVER_old(e)
#define G_KEEP_COEF (G.sc == OLD(G.sc) && G.c == OLD(G.c) && G.d == OLD(G.d))

/* r = f - A x : step k starts with the residual of the CURRENT x (ids: b = 1, x = 2, p = 4, r = 5, A = 10, M = 20) */
void cb_residual(const vec *f, const mat *A, const vec *x, vec *r)
__CPROVER_requires(f->defined && x->defined)
__CPROVER_assigns(*r, G)
__CPROVER_ensures(WRITTEN(r) && G_KEEP_COEF && G.it == OLD(G.it) && G.aprev == OLD(G.aprev) && G.st == (OLD(G.sc) ? 1 : 2)
               && G.ok == (OLD(G.ok) && OLD(G.st) == 0 && f->id == 1 && A->id == 10 && x->id == 2 && r->id == 5));
/* z = a M .* y + b z : the residual is scaled by the inverted diagonal, in place (only when prm.scale) */
void cb_vmul(V a, const vec *M, const vec *y, V b, vec *z)
__CPROVER_requires(M->defined && y->defined && (math_is_zero(b) || z->defined))
__CPROVER_assigns(*z, G)
__CPROVER_ensures(WRITTEN(z) && G_KEEP_COEF && G.it == OLD(G.it) && G.aprev == OLD(G.aprev) && G.st == 2
               && G.ok == (OLD(G.ok) && OLD(G.st) == 1 && a == ONE_ && M->id == 20 && OLD(y->id) == 5 && b == ZERO_ && z->id == 5));
/* y = a x + b y : st 2: p = alpha_k r + beta_k p;  st 3: x = 1 p + 1 x */
void cb_axpby(V a, const vec *x, V b, vec *y)
__CPROVER_requires(x->defined && (math_is_zero(b) || y->defined))
__CPROVER_assigns(*y, G)
__CPROVER_ensures(WRITTEN(y) && G_KEEP_COEF
               && (OLD(G.st) == 2
                     ? (G.st == 3 && G.it == OLD(G.it) && G.aprev == a
                        && G.ok == (OLD(G.ok) && x->id == 5 && y->id == 4 && a == EXP_ALPHA(OLD(G.it), OLD(G.aprev)) && b == EXP_BETA(OLD(G.it), a)))
                     : (G.st == 0 && G.it == OLD(G.it) + 1 && G.aprev == OLD(G.aprev)
                        && G.ok == (OLD(G.ok) && OLD(G.st) == 3 && a == ONE_ && x->id == 4 && b == ONE_ && y->id == 2))));
#define residual(f, A, x, r) cb_residual(&(f), &(A), &(x), &(r))
#define vmul(a, x, y, b, z) cb_vmul(a, &(x), &(y), b, &(z))
#define axpby(a, x, b, y) cb_axpby(a, &(x), b, &(y))

/* template <class Matrix, class VectorB, class VectorX> void chebyshev::solve(const Matrix &A, const VectorB &b, VectorX &x) const */
void f_cheb_solve(const cheb *self, const mat *A_p, const vec *b_p, vec *x_p)
__CPROVER_requires(__CPROVER_is_fresh(self, sizeof(*self)) && __CPROVER_is_fresh(A_p, sizeof(*A_p)) && __CPROVER_is_fresh(b_p, sizeof(*b_p)) && __CPROVER_is_fresh(x_p, sizeof(*x_p)))
__CPROVER_requires(__CPROVER_is_fresh(self->p, sizeof(vec)) && __CPROVER_is_fresh(self->r, sizeof(vec)) && __CPROVER_is_fresh(self->M, sizeof(vec)))
/* p and r enter with ANY state (whatever an earlier call left, C15); M is the inverted diagonal when prm.scale */
__CPROVER_requires(UF_AXIOMS && b_p->defined && x_p->defined && (self->prm.scale ==> self->M->defined))
__CPROVER_requires(b_p->id == 1 && x_p->id == 2 && self->p->id == 4 && self->r->id == 5 && A_p->id == 10 && self->M->id == 20)
__CPROVER_requires(G.st == 0 && G.it == 0 && G.ok && G.sc == self->prm.scale && G.c == self->c && G.d == self->d)
__CPROVER_assigns(*x_p, *self->p, *self->r, G)
/* C06: exactly `degree` steps  r = [M .*] (b - A x);  p = alpha_k r + beta_k p;  x = x + p  with the coefficients of the recurrence above,
 * nothing else (every call is an event of the automaton), p is not read in step 0 (beta_0 = 0); degree == 0 leaves x untouched          */
__CPROVER_ensures(G.ok && G.st == 0 && G.it == self->prm.degree)
__CPROVER_ensures(x_p->defined && x_p->version == __CPROVER_old(x_p->version) + self->prm.degree)
{
  const cheb_prm prm = self->prm;
#define A (*A_p)
#define b (*b_p)
#define x (*x_p)
/*@CUT:body@*/
#undef A
#undef b
#undef x
}
void h_f_cheb_solve(void) { const cheb *s; const mat *A; const vec *b; vec *x; f_cheb_solve(s, A, b, x); }
"""

CHEB_LOOP = r"""
__CPROVER_assigns(k, alpha, beta, *x_p, *self->p, *self->r, G)
__CPROVER_loop_invariant(k <= prm.degree && G.ok && G.st == 0 && G.it == k)
__CPROVER_loop_invariant(G.sc == self->prm.scale && G.c == self->c && G.d == self->d)
__CPROVER_loop_invariant(x_p->defined && x_p->id == 2 && self->p->id == 4 && self->r->id == 5)
__CPROVER_loop_invariant(x_p->version == __CPROVER_loop_entry(x_p->version) + k)
__CPROVER_loop_invariant(k > 0 ==> (self->p->defined && alpha == G.aprev))
__CPROVER_decreases(prm.degree - k)
"""

chebyshev_solve = Unit(
    name='chebyshev_solve', props=['C06', 'C15', 'C10'],
    functions=['relaxation::chebyshev<Backend>::solve(const Matrix&, const VectorB&, VectorX&) const'],
    desc='Chebyshev smoother, every degree: exactly `degree` steps r = [M .*](b - A x), p = alpha_k r + beta_k p, x = x + p with alpha_0 = 1/d, alpha_1 = 2d/(2d^2 - c^2), '
         'alpha_k = 1/(d - alpha_{k-1} c^2/4), beta_0 = 0, beta_k = alpha_k d - 1 (uninterpreted scalar terms in evaluation order); the residual is taken from the current x, '
         'scaled by the inverted diagonal iff prm.scale; workspace p, r enter arbitrary and p is not read in step 0; b and A are never written; degree 0 leaves x untouched',
    cuts={'body': Cut(CHEB, r'template <class Matrix, class VectorB, class VectorX>\s*void solve\(const Matrix &A, const VectorB &b, VectorX &x\) const\s*(?=\{)',
                      rules=member_rules(['M', 'p', 'r', 'c', 'd']) + [UFArgs('axpby|vmul', '+')],
                      uf=[UFByType(['scalar_type'])],
                      loops=[Loop(r'for \(unsigned k = 0;', CHEB_LOOP, prefix=True)])},
    template=CHEB_T, enforce='f_cheb_solve', replace=['cb_residual', 'cb_vmul', 'cb_axpby'], mode='inductive', obj_bits=12, timeout=300,
    assumptions=['A-abs: the typestate contracts of residual / vmul / axpby (defined operands, the output is written) are justified by the functional contracts of C07',
                 'A-uf: scalars are opaque tokens, scalar arithmetic and math::inverse are uninterpreted; only is_zero(zero) and !is_zero(identity) are assumed',
                 'A-setup: c, d (and M when prm.scale) are the ones the constructor computed (unit chebyshev_ctor)'],
    replay='relax2',
    not_decided=['that these coefficients realise the degree-d Chebyshev polynomial that is minimal on [lo, hi] (classical identity about the recurrence the unit pins)',
                 'the spectrum bounds themselves (Gershgorin / power method: chebyshev_ctor, spectral_radius units)'])

UNITS = [sky_values3, ilu_serial_solve, sptr_solve_lower, sptr_solve_upper, gs_parallel_sweep, spai0_ctor, ilu0_structure, chebyshev_solve]
for _u in UNITS:
    _u.replay_asan = True     # one replay binary for the whole family (built with ASan/UBSan: out-of-range reads of the real code become visible)
