"""MatrixMarket sparse (coordinate) reader, amgcl/io/mm.hpp -- family C19.

    mm_reader::operator()(std::vector<Idx> &ptr, std::vector<Idx> &col, std::vector<Val> &val,
                          ptrdiff_t row_beg, ptrdiff_t row_end)

The TEXT PARSING is abstracted, the reader's LOGIC is cut from /repo on every run.

Trusted stream model (assumption A-mmstream, C text MM_STREAM below): the file behind the already
constructed mm_reader is
    * the banner flags the constructor stored (_sparse, _symmetric, _complex, _integer),
    * the size line kept in `line`: it parses as "n m nnz" (hdr_ok) or it does not,
    * `nlines` data lines; data line k is three tokens  i j v  (1-based indices as in the file, v an opaque
      value token) of which only the first `ntok` (0..3) parse: ntok = 0 the row index is not a number,
      1 the column index is not, 2 the value is missing / not a number, 3 the line is complete.
std::getline(f, line) moves to the next data line (false at the end of the file), `is.clear(); is.str(line)`
restarts the token cursor on the current line, `is >> a >> b` / `s >> x` consume tokens and set the sticky
fail bit at the first token that does not parse, `precondition(stream-expression, ..)` tests !fail().
The rewrite rules replace exactly these stream expressions (keyed on their syntax); the row-range filter, the
symmetric expansion, counting, prefix sum, scatter, rotate and the per-row column sort are the repository text.
read_value<T> (real overload) is cut from the repository as well.

Contract (from the C19 statement), enforced by the harness on TWO runs of the cut body over the same entry
stream, the full read and the read of [row_beg, row_end):
  (1) the range read equals exactly the corresponding slice of the full read (ptr rebased, col, val entry by entry);
  (2) symmetric-storage files are expanded to the full matrix: row r of the result holds exactly the entries
      (i,j,v) with i = r and, for symmetric storage, (j,i,v) for every stored off-diagonal entry with j = r
      (same multiplicities, diagonal entries once); general storage: no mirroring;
  (3) well-formed CRS: ptr.size() = rows+1, ptr[0] = 0, monotone, ptr.back() = col.size() = val.size(), rows
      sorted by column, columns inside [0, m) when the file's indices are inside the matrix;
  (4) the reader throws exactly when: not a sparse file, wrong value kind, size line does not parse, row range
      outside [0, n], file truncated before its last data line, a data line does not parse; it never touches
      an element outside a vector whatever the indices in the file are.

Units mm_dense_*: the dense (array) reader mm_reader::operator()(std::vector<Val> &val, row_beg, row_end) over the same stream
abstraction (size line "n m"; one value token per data line; data line j*n + i holds entry (i, j)): the range read is the
row-major slice of the full read value by value, the reader throws exactly on a coordinate file / wrong kind / bad size line /
range beyond n / truncation / unparsable line of a requested row, all accesses in bounds.  mm_dense_strict: the same with negative
sizes in the size line allowed (they make the reader throw; dense half of defect F14, repaired).

Bounded (unwound) units: never counted as proved."""
import os
import re

from cxc.extract import Cut, Rule, IdxRule, ExtractError
from cxc.unit import Unit
from c19_io import SORT_ROW_CUT

MM = 'amgcl/io/mm.hpp'

A_MM = [
    'A-bound: nothing is claimed beyond the stated bound on n, m, nnz and the number of data lines',
    'A-mmstream: std::ifstream / std::getline / std::istringstream / operator>> are replaced by the abstract entry stream of '
    'units/c19_mm.py (size line parses or not; data line k = tokens i j v of which the first ntok parse; sticky fail bit; '
    'precondition(stream) = !fail()); text -> number conversion, white space, comments, locale and the decimal round trip are NOT modelled',
    'A-std: std::vector (resize/reserve/push_back/front/back/size/operator[]/begin/end) is the constant-capacity model of '
    'prelude/absfile.h (+ push_back/reserve in this file); std::fill / std::partial_sum / std::rotate are 3-line stubs; '
    'std::make_tuple(a, b) is a pair of size_t',
    'A-inst: Idx = int (thorough: also ptrdiff_t), Val = opaque 16-bit token (values are only copied and moved by the reader); '
    'the traits is_complex<Val> / is_integral<Val> are symbolic constants of the run',
    'A-cut: a path ends at a VIOLATED safety obligation (assert first, then assume the same condition)',
    'A-omp: OpenMP pragma on the row-sorting loop dropped; iterations touch disjoint row slices because ptr is monotone (part of the contract)',
    'A-sortrow: detail::sort_row is inlined without subscript wrappers; that it stays inside [0, n) of both slices is unit io_sort_row; '
    'the slice precondition is checked at every call',
]


class VectorLocals(object):
    """std::vector<T> locals and parameters, keyed on the DECLARED TYPE (a renamed local keeps working):
    `std::vector<Idx|Val> name;` -> constant-capacity vector object; `&name[e]` -> address only;
    `name[e]` -> element access with the obligation e < name.size()."""
    early = False
    pat = 'VectorLocals'

    def __init__(self, params, need_local=True):
        self.params = list(params)
        self.need_local = need_local      # the dense reader has no std::vector local, only the parameter

    def apply(self, text, log, generic=False):
        decl = re.compile(r'\bstd_vector<\s*(Idx|Val)\s*>\s+(\w+)\s*;')
        names = self.params + [m.group(2) for m in decl.finditer(text)]
        if self.need_local and len(names) == len(self.params):
            raise ExtractError('VectorLocals: no std::vector local found')
        text, nd = decl.subn(lambda m: 'vec_%s %s = vec_%s_new();' % (m.group(1)[0], m.group(2), m.group(1)[0]), text)
        alt = '|'.join(re.escape(n) for n in names)
        text, na = re.subn(r'&(%s)\[([^\]]+)\]' % alt, r'VEC_ADDR(\1, \2)', text)
        text, ns = re.subn(r'(?<![\w.>])(%s)\[' % alt, r'\1.p[', text)
        log.append({'rule': 'R-vec std::vector<T> locals %s: decl / &v[e] / v[e]' % names, 'fired': nd + na + ns})
        return IdxRule(r'(%s)\.p' % alt, r'\1.len', '+').apply(text, log)


STREAM_RULES = [
    Rule(r'\bamgcl::is_complex<Val>::value', 'VAL_IS_COMPLEX', 1, why='type trait of the instantiation -> symbolic constant', early=True),
    Rule(r'\bstd_is_integral<Val>::value', 'VAL_IS_INTEGRAL', 1, why='type trait of the instantiation -> symbolic constant'),
    Rule(r'\bstd_istringstream is;', 'mm_iss is;', 1, why='A-mmstream'),
    Rule(r'\bis\.clear\(\);\s*is\.str\(line\);', 'mm_iss_str(&is, self);', 2, why='A-mmstream: restart the token cursor on the current line'),
    Rule(r'\bis >> (\w+) >> (\w+) >> (\w+)', r'mm_extract_sizes(&is, self, &\1, &\2, &\3)', 1, why='A-mmstream: size line'),
    Rule(r'\bis >> (\w+) >> (\w+)', r'mm_extract_idx2(&is, self, &\1, &\2)', 1, why='A-mmstream: row and column token'),
    Rule(r'\bstd_getline\(f, line\)', 'mm_getline(self)', 1, why='A-mmstream: next data line'),
    Rule(r'\bread_value<Val>\(is\);', 'mm_read_value(&is, self); if (g_thrown) return CXC_THROW_RET;', 1,
         why='member template call; an exception of the callee propagates'),
]
VEC_RULES = [
    Rule(r'\b(\w+)\.reserve\(([^;]+)\);', r'VEC_RESERVE(\1, \2);', '+', why='std::vector::reserve'),
    Rule(r'\b(\w+)\.push_back\((.*)\);', r'VEC_PUSH(\1, \2);', '+', why='std::vector::push_back'),
    Rule(r'\b(\w+)\.resize\(([^;]+)\);', r'VEC_RESIZE(\1, \2);', '+', why='std::vector::resize'),
    Rule(r'\b(\w+)\.front\(\)', r'VEC_FRONT(\1)', None, why='std::vector::front'),
    Rule(r'\b(\w+)\.back\(\)', r'VEC_BACK(\1)', None, why='std::vector::back'),
    Rule(r'\b(\w+)\.size\(\)', r'VEC_LEN(\1)', None, why='std::vector::size'),
    Rule(r'\b(\w+)\.begin\(\)', r'VEC_BEGIN(\1)', None, why='std::vector::begin'),
    Rule(r'\b(\w+)\.end\(\)', r'VEC_END(\1)', None, why='std::vector::end'),
]

MM_SPARSE = Cut(MM, r'std::tuple<size_t, size_t> operator\(\)\(\s*std::vector<Idx> &ptr,\s*std::vector<Idx> &col,\s*'
                    r'std::vector<Val> &val,\s*ptrdiff_t row_beg = -1,\s*ptrdiff_t row_end = -1\s*\)\s*(?=\{)',
                rules=STREAM_RULES + VEC_RULES + [VectorLocals(['ptr', 'col', 'val'])])

# dense (array) reader: the same stream expressions; the size line holds two numbers, a data line ONE value token
DENSE_RULES = [r for r in STREAM_RULES if 'mm_extract_sizes(' not in r.repl and 'mm_extract_idx2(' not in r.repl] + [
    Rule(r'\bis >> (\w+) >> (\w+)', r'mm_extract_sizes2(&is, self, &\1, &\2)', 1, why='A-mmstream: size line of an array file (rows, columns)'),
    Rule(r'\b(\w+)\.resize\(([^;]+)\);', r'VEC_RESIZE(\1, \2);', 1, why='std::vector::resize'),
] + [r for r in VEC_RULES if r.count is None]
MM_DENSE = Cut(MM, r'std::tuple<size_t, size_t> operator\(\)\(\s*std::vector<Val> &val,\s*ptrdiff_t row_beg = -1,\s*'
                   r'ptrdiff_t row_end = -1\s*\)\s*(?=\{)',
               rules=DENSE_RULES + [VectorLocals(['val'], need_local=False)])

READ_VALUE = Cut(MM, r'typename std::enable_if<!amgcl::is_complex<T>::value, T>::type\s*read_value\(std::istream &s\)\s*(?=\{)',
                 rules=[
                     Rule(r'\bstd_is_same<T, char>::value', 'T_IS_CHAR', 1, why='type trait of the instantiation'),
                     Rule(r'\bs >> (\w+)', r'MM_EXTRACT_VAL(s, self, \1)', 2, why='A-mmstream: value token'),
                 ])

# ------------------------------------------------------------------------------ C template
MM_PRELUDE = r'''
#ifndef NMAX
#define NMAX 3
#endif
#ifndef ZMAX
#define ZMAX 3
#endif
/* vector capacity: up to 2*nnz entries after the symmetric expansion, NMAX+1 row pointers */
#define VCAP ((2 * ZMAX + 1) > (NMAX + 2) ? (2 * ZMAX + 1) : (NMAX + 2))
#include "amgcl_c.h"
#include "absfile.h"
#include <stdlib.h>
#undef IDX
#define IDX(e, len, what) vec_idx((ptrdiff_t)(e), (size_t)(len))
typedef Col Idx;                 /* template parameter Idx (amgcl_c.h: Col = CXC_COL_T) */
typedef VAL_T Val;               /* template parameter Val: opaque token */
int g_thrown;
int g_cap_exceeded;
unsigned char nondet_uchar(void);
VEC_DECL(Idx, vec_I);
VEC_DECL(Val, vec_V);
#define REQUIRES(c) __CPROVER_assume(c)
#ifdef CXC_CANARY
#define ENSURES(c, msg) ((void)0)
#define SAFE(c, msg) ((void)0)
#define MODEL(c, msg) ((void)0)
#else
#define ENSURES(c, msg) __CPROVER_assert(c, "ensures: " msg)
#define SAFE(c, msg) do { __CPROVER_assert(c, "safety. " msg); CXC_CUT(c); } while (0)
#define MODEL(c, msg) do { __CPROVER_assert(c, "stream model domain: " msg); CXC_CUT(c); } while (0)
#endif

/* ---- std::vector, additions to prelude/absfile.h: default construction, push_back, reserve, begin/end (A-std) */
static vec_I vec_I_new(void) { vec_I v; v.p = (Idx *)malloc(sizeof(Idx) * VCAP); v.len = 0; return v; }
static vec_V vec_V_new(void) { vec_V v; v.p = (Val *)malloc(sizeof(Val) * VCAP); v.len = 0; return v; }
/* resize: same semantics as prelude/absfile.h VEC_RESIZE, but the new elements are value-initialised by TYPED stores
 * (the byte-wise fill of absfile.h on 4-byte elements made the formula 5x larger: measured 35 s vs 7 s at n,nnz <= 2) */
#undef VEC_RESIZE
#define VEC_RESIZE(v, nn)                                                          \
  do {                                                                             \
    size_t n_ = (size_t)(nn);                                                      \
    if (n_ > VEC_MAX_SIZE(v)) { g_thrown = 2; return CXC_THROW_RET; }              \
    if (n_ > VCAP && nondet_bool()) { g_thrown = 3; return CXC_THROW_RET; }        \
    for (size_t k_ = 0; k_ < VCAP; ++k_) if (k_ >= (v).len && k_ < n_) (v).p[k_] = 0; \
    (v).len = n_;                                                                  \
  } while (0)
/* push_back: beyond the modelled capacity the element is not stored (bound artefact flag) */
#define VEC_PUSH(v, x) do { if ((v).len < VCAP) (v).p[(v).len] = (x); else g_cap_exceeded = 1; (v).len++; } while (0)
/* reserve(n): n is converted to size_type; n > max_size() -> std::length_error; otherwise no observable effect */
#define VEC_RESERVE(v, nn)                                                         \
  do {                                                                             \
    size_t n_ = (size_t)(nn);                                                      \
    if (n_ > VEC_MAX_SIZE(v)) { g_thrown = 2; return CXC_THROW_RET; }              \
    if (n_ > VCAP && nondet_bool()) { g_thrown = 3; return CXC_THROW_RET; }        \
  } while (0)
#define VEC_BEGIN(v) ((v).p)
#define VEC_END(v) ((v).p + ((v).len <= VCAP ? (v).len : (g_cap_exceeded = 1, (size_t)VCAP)))
/* std::fill / std::partial_sum / std::rotate on Idx ranges (A-std: 3-line stubs) */
static void std_fill(Idx *first, Idx *last, Idx x) { for (Idx *p = first; p != last; ++p) *p = x; }
static void std_partial_sum(Idx *first, Idx *last, Idx *out)
{
  if (first == last) return;
  Idx s = *first; *out = s;
  for (Idx *p = first + 1; p != last; ++p) { s = s + *p; ++out; *out = s; }
}
static void std_rotate(Idx *first, Idx *mid, Idx *last)
{
  size_t n = (size_t)(last - first), k = (size_t)(mid - first);
  if (n == 0 || k == 0 || k == n) return;
  for (size_t r = 0; r < k; ++r) { Idx t = first[0]; for (size_t i = 0; i + 1 < n; ++i) first[i] = first[i + 1]; first[n - 1] = t; }
}
typedef struct { size_t rows, cols; } mm_result;
static mm_result mm_mk_result(size_t a, size_t b) { mm_result r; r.rows = a; r.cols = b; return r; }
#define std_make_tuple(a, b) mm_mk_result((size_t)(a), (size_t)(b))
'''

MM_STREAM = r'''
/* ------------------------------------------------------------------- abstract entry stream (A-mmstream, TRUSTED)
 * No amgcl logic here: only what the stream expressions of mm.hpp observe.                                  */
typedef struct mm_reader {
  _Bool sparse, symmetric, complex_, integer_;   /* banner flags stored by the constructor                   */
  _Bool hdr_ok; ptrdiff_t hn, hm; size_t hnnz;   /* size line (kept in `line`): parses as "n m nnz" or not   */
  size_t nlines;                                 /* the data lines that follow: line k = tokens ei[k] ej[k] ev[k], */
  Idx ei[ZMAX], ej[ZMAX]; Val ev[ZMAX];          /* of which the first entok[k] parse (parallel arrays: no pointer */
  unsigned char entok[ZMAX];                     /* into the middle of the object is ever formed)                  */
  size_t next;                                   /* std::ifstream f: index of the next data line             */
  ptrdiff_t cur;                                 /* std::string line: -1 size line, k >= 0 data line k, -2 empty (failed getline) */
} mm_reader;
typedef struct { ptrdiff_t line; int tok; _Bool fail; Val last; } mm_iss;   /* std::istringstream */
/* std::getline(f, line) in boolean context */
static _Bool mm_getline(mm_reader *R)
{
  if (R->next < R->nlines) { R->cur = (ptrdiff_t)R->next; R->next++; return 1; }
  R->cur = -2;
  return 0;
}
/* is.clear(); is.str(line); */
static void mm_iss_str(mm_iss *is, const mm_reader *R) { is->line = R->cur; is->tok = 0; is->fail = 0; }
/* is >> n >> m >> nnz  (ptrdiff_t, ptrdiff_t, size_t) in boolean context */
static _Bool mm_extract_sizes(mm_iss *is, const mm_reader *R, ptrdiff_t *n, ptrdiff_t *m, size_t *nnz)
{
  MODEL(is->line == -1 && is->tok == 0, "three sizes are extracted from the start of the size line only");
  if (is->fail) return 0;
  if (!R->hdr_ok) { is->fail = 1; return 0; }
  *n = R->hn; *m = R->hm; *nnz = R->hnnz; is->tok = 3;
  return 1;
}
/* is >> i >> j  (Idx, Idx) in boolean context */
static _Bool mm_extract_idx2(mm_iss *is, const mm_reader *R, Idx *a, Idx *b)
{
  MODEL(is->line >= 0 && is->line < ZMAX && is->tok == 0, "two indices are extracted from the start of a data line only");
  if (is->fail) return 0;
  const ptrdiff_t k = is->line;
  if (R->entok[k] < 1) { *a = 0; is->fail = 1; return 0; }
  *a = R->ei[k]; is->tok = 1;
  if (R->entok[k] < 2) { *b = 0; is->fail = 1; return 0; }
  *b = R->ej[k]; is->tok = 2;
  return 1;
}
/* array (dense) files, units mm_dense_*: the size line parses as "n m" (hdr_ok) or it does not; data line k is ONE value token
 * ev[k] that parses iff entok[k] >= 1 (ei / ej are not part of the line); line number j*n + i holds entry (i, j) (column major) */
#ifdef MM_DENSE
#define MM_VAL_POS 0             /* position of the value token in a data line             */
#else
#define MM_VAL_POS 2
#endif
/* is >> n >> m  (ptrdiff_t, ptrdiff_t) in boolean context */
static _Bool mm_extract_sizes2(mm_iss *is, const mm_reader *R, ptrdiff_t *n, ptrdiff_t *m)
{
  MODEL(is->line == -1 && is->tok == 0, "two sizes are extracted from the start of the size line only");
  if (is->fail) return 0;
  if (!R->hdr_ok) { is->fail = 1; return 0; }
  *n = R->hn; *m = R->hm; is->tok = 2;
  return 1;
}
/* s >> x  (value) in boolean context; the token is left in s->last */
static _Bool mm_extract_val(mm_iss *s, const mm_reader *R)
{
  MODEL(s->line >= 0 && s->line < ZMAX && (s->tok == MM_VAL_POS || s->fail), "a value is extracted after the two indices of a data line (array file: at the start of a data line) only");
  if (s->fail) return 0;
  const ptrdiff_t k = s->line;
  if (R->entok[k] < MM_VAL_POS + 1) { s->last = 0; s->fail = 1; return 0; }
  s->last = R->ev[k]; s->tok = MM_VAL_POS + 1;
  return 1;
}
#define MM_EXTRACT_VAL(s, R, x) (mm_extract_val(s, R) ? ((x) = (s)->last, (_Bool)1) : (_Bool)0)
'''

MM_BODY_RV = r'''
/* the traits of the instantiation: symbolic constants of the run */
_Bool g_val_is_complex, g_val_is_integral;
#define VAL_IS_COMPLEX g_val_is_complex
#define VAL_IS_INTEGRAL g_val_is_integral
#define T_IS_CHAR 0

/* mm_reader::read_value<T>, real overload */
#undef CXC_THROW_RET
#define CXC_THROW_RET 0
static Val mm_read_value(mm_iss *s, mm_reader *self)
{
  typedef Val T;
/*@CUT:read_value@*/
}
'''

MM_BODY = MM_BODY_RV + r'''
/* detail::sort_row; the slice precondition is CHECKED at every call (its own accesses: unit io_sort_row) */
static vec_I *g_sr_col;
static vec_V *g_sr_val;
#undef CXC_THROW_RET
#define CXC_THROW_RET
static void sort_row(Idx *col, Val *val, int n)
{
  SAFE(n <= 0 || (col - g_sr_col->p >= 0 && (size_t)(col - g_sr_col->p) + (size_t)n <= g_sr_col->len),
       "sort_row: column slice [col, col+n) inside the column vector");
  SAFE(n <= 0 || (val - g_sr_val->p >= 0 && (size_t)(val - g_sr_val->p) + (size_t)n <= g_sr_val->len),
       "sort_row: value slice [val, val+n) inside the value vector");
/*@CUT:sort_row@*/
}

#undef CXC_THROW_RET
#define CXC_THROW_RET mm_mk_result(0, 0)
static mm_result f_mm_read_sparse(mm_reader *self, vec_I *ptr_p, vec_I *col_p, vec_V *val_p,
                                  ptrdiff_t row_beg, ptrdiff_t row_end)
{
#define ptr (*ptr_p)
#define col (*col_p)
#define val (*val_p)
#define _sparse (self->sparse)
#define _symmetric (self->symmetric)
#define _complex (self->complex_)
#define _integer (self->integer_)
/*@CUT:body@*/
#undef ptr
#undef col
#undef val
#undef _sparse
#undef _symmetric
#undef _complex
#undef _integer
}
'''

MM_SPEC = r'''
/* ------------------------------------------------------------------------ spec (harness side) */
#ifndef IDX_LO
#define IDX_LO (-1)              /* 1-based index tokens in the file: from below 1 ...  */
#define IDX_HI (NMAX + 2)        /* ... to beyond n / m                                 */
#endif
/* entry k lies inside the n x m matrix (symmetric storage: a square matrix) */
static _Bool entry_wf(const mm_reader *F, size_t k)
{
  const ptrdiff_t i = (ptrdiff_t)F->ei[k], j = (ptrdiff_t)F->ej[k];
  if (!(i >= 1 && i <= F->hn && j >= 1 && j <= F->hm)) return 0;
  if (F->symmetric && !(j <= F->hn && i <= F->hm)) return 0;
  return 1;
}
static _Bool entries_wf(const mm_reader *F)
{
  for (size_t k = 0; k < ZMAX; ++k) if (k < F->hnnz && k < F->nlines) { if (!entry_wf(F, k)) return 0; }
  return 1;
}
/* the matrix the file denotes: number of entries (r, c, v) / of entries in row r; orientation 0 = as stored,
 * 1 = the mirror image of an off-diagonal entry of a symmetric-storage file                                   */
static int spec_count(const mm_reader *F, ptrdiff_t r, ptrdiff_t c, Val v, _Bool any_cv)
{
  int cnt = 0;
  for (size_t k = 0; k < ZMAX; ++k) if (k < F->hnnz) {
    ptrdiff_t i = (ptrdiff_t)F->ei[k] - 1, j = (ptrdiff_t)F->ej[k] - 1;
    if (i == r && (any_cv || (j == c && F->ev[k] == v))) cnt++;
    if (F->symmetric && i != j && j == r && (any_cv || (i == c && F->ev[k] == v))) cnt++;
  }
  return cnt;
}
/* number of entries (c, v) in row q of the result */
static int res_count(const vec_I *ptr, const vec_I *col, const vec_V *val, size_t q, ptrdiff_t c, Val v)
{
  int cnt = 0;
  size_t b = (size_t)ptr->p[q], e = (size_t)ptr->p[q + 1];
  for (size_t a = 0; a < 2 * ZMAX; ++a) if (a >= b && a < e) { if ((ptrdiff_t)col->p[a] == c && val->p[a] == v) cnt++; }
  return cnt;
}
static _Bool shape_valid(const vec_I *ptr, const vec_I *col, const vec_V *val, size_t rows)
{
  if (ptr->len != rows + 1 || ptr->len > VCAP || col->len > 2 * ZMAX || val->len > 2 * ZMAX) return 0;
  if (ptr->p[0] != 0) return 0;
  for (size_t i = 0; i < NMAX; ++i) if (i < rows) { if (ptr->p[i] > ptr->p[i + 1]) return 0; }
  return ptr->p[rows] >= 0 && (size_t)ptr->p[rows] == col->len && col->len == val->len;
}
static void vec_inputs(vec_I *ptr, vec_I *col, vec_V *val)
{
  /* the caller's vectors: any size, any content */
  ptr->p = (Idx *)malloc(sizeof(Idx) * VCAP);
  col->p = (Idx *)malloc(sizeof(Idx) * VCAP);
  val->p = (Val *)malloc(sizeof(Val) * VCAP);
  REQUIRES(ptr->len <= VCAP && col->len <= VCAP && val->len <= VCAP);
}
/* witness: the entry stream and the caller's arguments (ints: CBMC prints char-typed values as character literals) */
int w_sparse, w_sym, w_complex, w_integer, w_valc, w_vali, w_hdr_ok, w_n, w_m;
unsigned w_nnz, w_nlines;
int w_ei[ZMAX], w_ej[ZMAX], w_entok[ZMAX];
unsigned w_ev[ZMAX];
unsigned w_row_beg_lo, w_row_end_lo; int w_row_beg_hi, w_row_end_hi;
#define MIRROR_RANGE(rb, re) do { w_row_beg_lo = (unsigned)((rb) & 0xffffffffL); w_row_beg_hi = (int)((rb) >> 32); \
  w_row_end_lo = (unsigned)((re) & 0xffffffffL); w_row_end_hi = (int)((re) >> 32); } while (0)
static void mirror_stream(const mm_reader *F)
{
  w_sparse = F->sparse; w_sym = F->symmetric; w_complex = F->complex_; w_integer = F->integer_;
  w_valc = g_val_is_complex; w_vali = g_val_is_integral; w_hdr_ok = F->hdr_ok;
  w_n = (int)F->hn; w_m = (int)F->hm; w_nnz = (unsigned)F->hnnz; w_nlines = (unsigned)F->nlines;
  for (size_t k = 0; k < ZMAX; ++k) { w_ei[k] = (int)F->ei[k]; w_ej[k] = (int)F->ej[k]; w_ev[k] = (unsigned)F->ev[k]; w_entok[k] = F->entok[k]; }
}
static _Bool stream_same(const mm_reader *A, const mm_reader *B)
{
  if (A->sparse != B->sparse || A->symmetric != B->symmetric || A->complex_ != B->complex_ || A->integer_ != B->integer_) return 0;
  if (A->hdr_ok != B->hdr_ok || A->hn != B->hn || A->hm != B->hm || A->hnnz != B->hnnz || A->nlines != B->nlines) return 0;
  for (size_t k = 0; k < ZMAX; ++k)
    if (A->ei[k] != B->ei[k] || A->ej[k] != B->ej[k] || A->ev[k] != B->ev[k] || A->entok[k] != B->entok[k]) return 0;
  return 1;
}
'''

H_MM = r'''
void h_mm_sparse(void)
{
  mm_reader F;                                  /* the file behind a constructed reader: symbolic */
  /* flags are 0 / 1 (a nondeterministic _Bool object may hold any byte in CBMC) */
  F.sparse = nondet_uchar() & 1; F.symmetric = nondet_uchar() & 1; F.complex_ = nondet_uchar() & 1; F.integer_ = nondet_uchar() & 1;
  F.hdr_ok = nondet_uchar() & 1; g_val_is_complex = nondet_uchar() & 1; g_val_is_integral = nondet_uchar() & 1;
#ifdef SYM
  F.symmetric = SYM;                            /* storage kind concrete per variant              */
#endif
  /* the bound */
  REQUIRES(F.hn >= N_LO && F.hn <= NMAX && F.hm >= 0 && F.hm <= NMAX && F.hnnz <= ZMAX && F.nlines <= ZMAX);
  for (size_t k = 0; k < ZMAX; ++k)
    REQUIRES(F.entok[k] <= 3 && F.ei[k] >= IDX_LO && F.ei[k] <= IDX_HI && F.ej[k] >= IDX_LO && F.ej[k] <= IDX_HI);
  /* what the constructor guarantees: a data type is exactly one of real / complex / integer; `line` is the size line */
  REQUIRES(!(F.complex_ && F.integer_));
  REQUIRES(!(g_val_is_complex && g_val_is_integral));
  F.next = 0; F.cur = -1;
  /* caller's part */
  ptrdiff_t row_beg, row_end;
  /* the requested range is not inverted (row_end < 0 stands for n): an inverted range is a caller error, not a damaged file */
  REQUIRES(row_beg < 0 || (row_end < 0 ? (F.hn < 0 || row_beg <= F.hn) : row_beg <= row_end));
  mirror_stream(&F); MIRROR_RANGE(row_beg, row_end);
  mm_reader F1 = F, F2 = F;                     /* two readers on the same file */

  /* ---- full read */
  vec_I ptr1, col1; vec_V val1;
  vec_inputs(&ptr1, &col1, &val1);
  g_sr_col = &col1; g_sr_val = &val1;
  g_thrown = 0;
  mm_result r1 = f_mm_read_sparse(&F1, &ptr1, &col1, &val1, -1, -1);
  const int t1 = g_thrown;
  /* ---- read of [row_beg, row_end) */
  vec_I ptr2, col2; vec_V val2;
  vec_inputs(&ptr2, &col2, &val2);
  g_sr_col = &col2; g_sr_val = &val2;
  g_thrown = 0;
  mm_result r2 = f_mm_read_sparse(&F2, &ptr2, &col2, &val2, row_beg, row_end);
  const int t2 = g_thrown;

  ENSURES(!g_cap_exceeded && t1 != 3 && t2 != 3, "bound artefact: no element beyond the modelled vector capacity is touched");
  ENSURES(stream_same(&F1, &F) && stream_same(&F2, &F), "frame: the file is not modified");

  /* ---- (4) when the reader throws */
  const ptrdiff_t N = F.hn;
  const ptrdiff_t rb = row_beg < 0 ? 0 : row_beg, re = row_end < 0 ? N : row_end;
  const _Bool kind_ok = F.sparse && F.complex_ == g_val_is_complex && F.integer_ == g_val_is_integral;
  const _Bool head_ok = kind_ok && F.hdr_ok;
  _Bool lines_ok = F.nlines >= F.hnnz;
  for (size_t k = 0; k < ZMAX; ++k) if (k < F.hnnz && k < F.nlines && F.entok[k] < 3) lines_ok = 0;
  ENSURES(F.sparse || (t1 && t2), "a file that is not a sparse (coordinate) matrix makes the reader throw");
  ENSURES(!F.sparse || kind_ok || (t1 && t2), "a wrong value kind (real / complex / integer) makes the reader throw");
  ENSURES(!kind_ok || F.hdr_ok || (t1 && t2), "a size line that does not parse makes the reader throw");
  ENSURES(!head_ok || re <= N || t2, "a row range beyond n makes the reader throw");
  ENSURES(!head_ok || F.nlines >= F.hnnz || (t1 && (re > N || t2)), "a file truncated before its last data line makes the reader throw");
  ENSURES(!head_ok || lines_ok || (t1 && (re > N || t2)), "a data line that does not parse (row index, column index or value) makes the reader throw");
  ENSURES(!head_ok || !lines_ok || N >= 0 || t1, "a negative row count in the size line makes the reader throw");
  ENSURES(!head_ok || !lines_ok || N < 0 || entries_wf(&F) || (t1 && (re > N || t2)),
          "a row or column index outside the matrix makes the reader throw (no structurally invalid matrix is returned)");
  if (head_ok && lines_ok && N >= 0 && entries_wf(&F)) {
    ENSURES(!t1, "a well-formed file is read without exception (full read)");
    if (re <= N) ENSURES(!t2, "a well-formed file and a row range inside [0, n] are read without exception");
  }

  /* ---- (3) + (2): the range read (the full read is the case [0, n) / (-1, -1)) */
  if (!t2 && head_ok && re <= N && N >= 0) {
    const size_t rows = (size_t)(re - rb);
    ENSURES(r2.rows == rows && r2.cols == (size_t)F.hm, "returns (number of rows read, number of columns of the file)");
    const _Bool shape = shape_valid(&ptr2, &col2, &val2, rows);
    ENSURES(shape, "well-formed CRS: ptr.size() = rows+1, ptr[0] = 0, ptr monotone, ptr.back() = col.size() = val.size()");
    if (shape && lines_ok) {
      _Bool sorted = 1, inrange = 1, rowlen = 1, members = 1;
      for (size_t q = 0; q < NMAX; ++q) if (q < rows) {
        size_t b = (size_t)ptr2.p[q], e = (size_t)ptr2.p[q + 1];
        for (size_t a = 0; a < 2 * ZMAX; ++a) if (a >= b && a < e) {
          if (a + 1 < e && col2.p[a] > col2.p[a + 1]) sorted = 0;
          if (!(col2.p[a] >= 0 && (ptrdiff_t)col2.p[a] < F.hm)) inrange = 0;
        }
        if ((ptrdiff_t)(e - b) != spec_count(&F, rb + (ptrdiff_t)q, 0, 0, 1)) rowlen = 0;
      }
      ENSURES(sorted, "well-formed CRS: every row is sorted by column");
      ENSURES(!entries_wf(&F) || inrange, "well-formed CRS: column indices inside [0, m) when the file's indices are inside the matrix");
      ENSURES(rowlen, "expansion: row r holds as many entries as the file denotes (stored entries of row r, plus mirrored off-diagonal entries for symmetric storage; diagonal entries once)");
      if (rowlen) {
        /* every entry the file denotes, in both orientations, appears with its multiplicity */
        for (size_t k = 0; k < ZMAX; ++k) if (k < F.hnnz) {
          ptrdiff_t i = (ptrdiff_t)F.ei[k] - 1, j = (ptrdiff_t)F.ej[k] - 1;
          if (i >= rb && i < re && res_count(&ptr2, &col2, &val2, (size_t)(i - rb), j, F.ev[k]) != spec_count(&F, i, j, F.ev[k], 0)) members = 0;
          if (F.symmetric && i != j && j >= rb && j < re &&
              res_count(&ptr2, &col2, &val2, (size_t)(j - rb), i, F.ev[k]) != spec_count(&F, j, i, F.ev[k], 0)) members = 0;
        }
        ENSURES(members, "expansion: every stored entry (i,j,v) appears in row i with column j and value v and, for symmetric storage and i != j, also in row j with column i and value v, with the multiplicity of the file");
      }
    }
    /* ---- (1) range read == slice of the full read */
    if (!t1 && shape) {
      const _Bool shape1 = shape_valid(&ptr1, &col1, &val1, (size_t)N);
      ENSURES(shape1 && r1.rows == (size_t)N && r1.cols == r2.cols, "full read: well-formed CRS with n rows and the same column count");
      if (shape1) {
        ENSURES(col2.len == (size_t)(ptr1.p[re] - ptr1.p[rb]), "range read == slice of the full read: number of entries");
        _Bool same = 1;
        for (size_t q = 0; q < NMAX + 1; ++q) if (q <= rows) { if (ptr2.p[q] != ptr1.p[(size_t)rb + q] - ptr1.p[rb]) same = 0; }
        ENSURES(same, "range read == slice of the full read: ptr (rebased to 0)");
        if (same) {
          const size_t base = (size_t)ptr1.p[rb];
          _Bool eq = 1;
          for (size_t a = 0; a < 2 * ZMAX; ++a) if (a < col2.len) {
            if (col2.p[a] != col1.p[base + a] || val2.p[a] != val1.p[base + a]) eq = 0;
          }
          ENSURES(eq, "range read == slice of the full read: columns and values, entry by entry");
        }
      }
    }
  }
  CANARY("harness.end");
}
'''


def _mk(name, desc, extra_defs, variants, thorough, bound, timeout=600):
    u = Unit(
        name=name, props=['C19', 'C10'],
        functions=['io::mm_reader::operator()<Idx,Val>(ptr, col, val, row_beg, row_end) [sparse coordinate reader]',
                   'io::mm_reader::read_value<T> (real overload)', 'detail::sort_row'],
        desc=desc,
        cuts={'read_value': READ_VALUE, 'sort_row': SORT_ROW_CUT, 'body': MM_SPARSE},
        template=extra_defs + MM_PRELUDE + MM_STREAM + MM_BODY + MM_SPEC + H_MM,
        entry='h_mm_sparse', mode='unwound', unwind='max(2*ZMAX+1, NMAX+2)+1', model='none', obj_bits=12,
        defines={'CXC_COL_T': 'int', 'CXC_PTR_T': 'int', 'VAL_T': 'unsigned short'},
        variants=variants, thorough_variants=thorough,
        bound_text=bound,
        assumptions=A_MM, replay='mmreader', timeout=timeout,
        witness=['w_sparse', 'w_sym', 'w_complex', 'w_integer', 'w_valc', 'w_vali', 'w_hdr_ok', 'w_n', 'w_m', 'w_nnz', 'w_nlines',
                 'w_ei', 'w_ej', 'w_ev', 'w_entok', 'w_row_beg_lo', 'w_row_beg_hi', 'w_row_end_lo', 'w_row_end_hi'],
        not_decided=['text parsing itself (number syntax, white space, comment lines, locale) and the decimal round trip of values (A-mmstream)',
                     'banner / size-line parsing of the constructor', 'complex overload of read_value (two tokens per value)',
                     'dense (array) reader and the writers', 'Hermitian / skew-symmetric storage (rejected by the constructor)',
                     'an inverted row range (row_beg > row_end): caller error, required not to occur'],
    )
    # per-loop limits (regex on the C line of the loop header); everything else: global --unwind
    u.unwindset = [
        (r'for\(size_t k = 0; k < nnz;', 'ZMAX+1'),
        (r'for\(int j = 1; j < n;', 'ZMAX+1'),            # sort_row: a row holds at most one entry per data line
        (r'while\(i >= 0 && col\[i\] > c\)', 'ZMAX+1'),
        (r'for\(ptrdiff_t i = 0; i < chunk;', 'NMAX+1'),
    ]
    u.replay_asan = True
    u.drop_checks = []
    # read_value<T>: the `std::is_same<T, char>` branch (8-bit integers read through an int) does not exist in this instantiation
    u.cover_exempt = r'read_value\.1\b'
    return u


mm_sparse = _mk(
    'mm_sparse_read',
    'MatrixMarket coordinate reader with abstracted text parsing: range read == slice of the full read; symmetric storage expanded '
    'to the full matrix; well-formed sorted CRS; throws exactly on wrong kind / bad size line / range beyond n / truncation / '
    'unparsable data line; every vector access in bounds for any index values in the file',
    '#define N_LO 0\n',
    # measured (minisat, shared host): symmetric n,nnz <= 2: 40 s; general n <= 3, nnz <= 2: 31 s; symmetric n <= 3, nnz <= 2: 133 s;
    # symmetric n <= 2, nnz <= 3: 267 s; general n, nnz <= 3: 123 s; symmetric n, nnz <= 3: > 600 s (the SAT time is in the index-safety
    # obligations of the scatter pass of the RANGE read: positions computed from prefix sums of symbolic counts; kissat, narrow input
    # generators, concrete n / nnz and a split into "range read vs spec" / "two reads compared" were measured and do not help)
    variants=[{'NMAX': 2, 'ZMAX': 2, 'SYM': 1}, {'NMAX': 3, 'ZMAX': 2, 'SYM': 0}],
    thorough=[{'NMAX': 3, 'ZMAX': 2, 'SYM': 1}, {'NMAX': 2, 'ZMAX': 3, 'SYM': 1}, {'NMAX': 3, 'ZMAX': 3, 'SYM': 0},
              {'NMAX': 2, 'ZMAX': 2, 'SYM': 1, 'CXC_COL_T': 'ptrdiff_t', 'CXC_PTR_T': 'ptrdiff_t'}],
    bound='every entry stream with 0 <= n, m <= 2 and nnz <= 2 for symmetric storage, n, m <= 3 and nnz <= 2 for general storage '
          '(thorough: symmetric n <= 3 / nnz <= 2 and n <= 2 / nnz <= 3, general n, nnz <= 3), as many data lines present, index tokens in '
          '[-1, n+2] (inside and outside the matrix, duplicates, any order), any value tokens, any per-line parse failure, every '
          'caller row range that is not inverted (64-bit symbolic)')

# Damaged size line: the same contract with a negative row count in the size line allowed (n >= -2).  This unit and the clause
# "a row or column index outside the matrix makes the reader throw" exposed defect F14 of the unchanged reader (DESIGN.md section 9:
# neither the indices of a data line nor the sign of the sizes were validated: structurally invalid matrix returned,
# vector::back() of an empty vector); repaired in /repo, both units pass on the repaired tree.
mm_strict = _mk(
    'mm_sparse_strict',
    'MatrixMarket coordinate reader, damaged size line: the contract of mm_sparse_read with a negative row count allowed: a negative size or an index outside the matrix makes the reader throw',
    '#define N_LO (-2)\n#define MM_STRICT 1\n',
    variants=[{'NMAX': 2, 'ZMAX': 2, 'SYM': 1}, {'NMAX': 2, 'ZMAX': 2, 'SYM': 0}],
    thorough=None,
    bound='entry streams with -2 <= n <= 2, m <= 2, nnz <= 2, index tokens in [-1, 4]')


# ------------------------------------------------------------------------------ dense (array) reader
MM_BODY_DENSE = MM_BODY_RV + r'''
#undef CXC_THROW_RET
#define CXC_THROW_RET mm_mk_result(0, 0)
static mm_result f_mm_read_dense(mm_reader *self, vec_V *val_p, ptrdiff_t row_beg, ptrdiff_t row_end)
{
#define val (*val_p)
#define _sparse (self->sparse)
#define _complex (self->complex_)
#define _integer (self->integer_)
/*@CUT:body@*/
#undef val
#undef _sparse
#undef _complex
#undef _integer
}
'''

H_MM_DENSE = r'''
/* number of the data line that holds entry (i, j) of an n-row array file: column major */
#define LINE_OF(i, j, n) ((size_t)(j) * (size_t)(n) + (size_t)(i))
void h_mm_dense(void)
{
  mm_reader F;                                  /* the file behind a constructed reader: symbolic */
  F.sparse = nondet_uchar() & 1; F.symmetric = nondet_uchar() & 1; F.complex_ = nondet_uchar() & 1; F.integer_ = nondet_uchar() & 1;
  F.hdr_ok = nondet_uchar() & 1; g_val_is_complex = nondet_uchar() & 1; g_val_is_integral = nondet_uchar() & 1;
  /* the bound */
  REQUIRES(F.hn >= N_LO && F.hn <= NMAX && F.hm >= N_LO && F.hm <= NMAX && F.nlines <= ZMAX);
  for (size_t k = 0; k < ZMAX; ++k) REQUIRES(F.entok[k] <= 1);
  /* what the constructor guarantees: a data type is exactly one of real / complex / integer; `line` is the size line */
  REQUIRES(!(F.complex_ && F.integer_));
  REQUIRES(!(g_val_is_complex && g_val_is_integral));
  F.next = 0; F.cur = -1;
  F.hnnz = 0;                                   /* the size line of an array file has no third number */
  /* caller's part: the requested range is not inverted (row_end < 0 stands for n; a negative n of a damaged size line counts as 0) */
  ptrdiff_t row_beg, row_end;
  REQUIRES(row_beg < 0 || (row_end < 0 ? row_beg <= (F.hn < 0 ? 0 : F.hn) : row_beg <= row_end));
  mirror_stream(&F); MIRROR_RANGE(row_beg, row_end);
  mm_reader F1 = F, F2 = F;                     /* two readers on the same file */

  /* ---- full read; the caller's vector: any size, any content */
  vec_V val1; val1.p = (Val *)malloc(sizeof(Val) * VCAP); REQUIRES(val1.len <= VCAP);
  g_thrown = 0;
  mm_result r1 = f_mm_read_dense(&F1, &val1, -1, -1);
  const int t1 = g_thrown;
  /* ---- read of [row_beg, row_end) */
  vec_V val2; val2.p = (Val *)malloc(sizeof(Val) * VCAP); REQUIRES(val2.len <= VCAP);
  g_thrown = 0;
  mm_result r2 = f_mm_read_dense(&F2, &val2, row_beg, row_end);
  const int t2 = g_thrown;

  ENSURES(!g_cap_exceeded && t1 != 3 && t2 != 3, "bound artefact: no element beyond the modelled vector capacity is touched");
  ENSURES(stream_same(&F1, &F) && stream_same(&F2, &F), "frame: the file is not modified");

  /* ---- (2) when the reader throws */
  const ptrdiff_t N = F.hn, M = F.hm;
  const ptrdiff_t rb = row_beg < 0 ? 0 : row_beg, re = row_end < 0 ? N : row_end;
  const _Bool kind_ok = !F.sparse && F.complex_ == g_val_is_complex && F.integer_ == g_val_is_integral;
  const _Bool head_ok = kind_ok && F.hdr_ok;
  const _Bool sizes_ok = N >= 0 && M >= 0;
  const size_t need = sizes_ok ? (size_t)N * (size_t)M : 0;      /* data lines of a complete file */
  /* every present data line of the matrix / of the requested rows parses */
  _Bool full_ok = 1, range_ok = 1;
  for (size_t j = 0; j < NMAX; ++j) for (size_t i = 0; i < NMAX; ++i) if (sizes_ok && (ptrdiff_t)i < N && (ptrdiff_t)j < M) {
    const size_t k = LINE_OF(i, j, N);
    if (k < F.nlines && k < ZMAX && F.entok[k] < 1) { full_ok = 0; if ((ptrdiff_t)i >= rb && (ptrdiff_t)i < re) range_ok = 0; }
  }
  ENSURES(!F.sparse || (t1 && t2), "a file that is not a dense (array) matrix makes the reader throw");
  ENSURES(F.sparse || kind_ok || (t1 && t2), "a wrong value kind (real / complex / integer) makes the reader throw");
  ENSURES(!kind_ok || F.hdr_ok || (t1 && t2), "a size line that does not parse makes the reader throw");
  ENSURES(!head_ok || re <= N || t2, "a row range beyond n makes the reader throw");
  ENSURES(!head_ok || sizes_ok || (t1 && t2), "a negative row or column count in the size line makes the reader throw (no structurally invalid result is returned)");
  ENSURES(!head_ok || !sizes_ok || F.nlines >= need || (t1 && t2), "a file truncated before its last data line makes the reader throw (full read and every row range)");
  ENSURES(!head_ok || !sizes_ok || full_ok || t1, "a data line that does not parse makes the full read throw");
  ENSURES(!head_ok || !sizes_ok || range_ok || t2, "a data line of a requested row that does not parse makes the range read throw");
  if (head_ok && sizes_ok && F.nlines >= need) {
    ENSURES(!full_ok || !t1, "a well-formed file is read without exception (full read)");
    ENSURES(!range_ok || re > N || !t2, "a row range inside [0, n] whose data lines all parse is read without exception (lines of other rows are skipped unparsed)");
  }

  /* ---- (1) results */
  if (head_ok && sizes_ok) {
    if (!t1) {
      ENSURES(r1.rows == (size_t)N && r1.cols == (size_t)M && val1.len == need, "full read: returns (n, m) and n*m values");
      _Bool tok = 1;
      if (val1.len == need)
        for (size_t i = 0; i < NMAX; ++i) for (size_t j = 0; j < NMAX; ++j) if ((ptrdiff_t)i < N && (ptrdiff_t)j < M) {
          if (val1.p[i * (size_t)M + j] != F.ev[LINE_OF(i, j, N)]) tok = 0;
        }
      ENSURES(tok, "full read: val[i*m + j] (row major) is the value token of data line j*n + i (the file is column major)");
    }
    if (!t2 && re <= N) {
      const size_t rows = (size_t)(re - rb);
      ENSURES(r2.rows == rows && r2.cols == (size_t)M, "range read: returns (row_end - row_beg, m)");
      ENSURES(val2.len == rows * (size_t)M, "range read: structurally valid result, val.size() = rows * m");
      if (val2.len == rows * (size_t)M) {
        _Bool tok = 1, same = 1;
        for (size_t i = 0; i < NMAX; ++i) for (size_t j = 0; j < NMAX; ++j) if ((ptrdiff_t)i >= rb && (ptrdiff_t)i < re && (ptrdiff_t)j < M) {
          const Val got = val2.p[(i - (size_t)rb) * (size_t)M + j];
          if (got != F.ev[LINE_OF(i, j, N)]) tok = 0;
          if (!t1 && val1.len == need && got != val1.p[i * (size_t)M + j]) same = 0;
        }
        ENSURES(same, "range read == slice of the full read: val2[(i - row_beg)*m + j] == val1[i*m + j] for every row of the range and every column");
        ENSURES(tok, "range read: val[(i - row_beg)*m + j] is the value token of data line j*n + i");
      }
    }
  }
  CANARY("harness.end");
}
'''


def _mk_dense(name, desc, extra_defs, variants, thorough, bound, timeout=600):
    u = Unit(
        name=name, props=['C19', 'C10'],
        functions=['io::mm_reader::operator()<Val>(val, row_beg, row_end) [dense array reader]',
                   'io::mm_reader::read_value<T> (real overload)'],
        desc=desc,
        cuts={'read_value': READ_VALUE, 'body': MM_DENSE},
        template='#define MM_DENSE 1\n' + extra_defs + MM_PRELUDE + MM_STREAM + MM_BODY_DENSE + MM_SPEC + H_MM_DENSE,
        entry='h_mm_dense', mode='unwound', unwind='max(2*ZMAX+1, NMAX+2)+1', model='none', obj_bits=12,
        defines={'CXC_COL_T': 'int', 'CXC_PTR_T': 'int', 'VAL_T': 'unsigned short'},
        variants=variants, thorough_variants=thorough,
        bound_text=bound,
        assumptions=[a for a in A_MM if not a.startswith(('A-omp', 'A-sortrow'))] +
                    ['A-mmstream (array files): the size line parses as "n m" or it does not; data line k is one value token that parses or not; '
                     'data line j*n + i holds entry (i, j)'],
        replay='mmreader', timeout=timeout,
        witness=['w_sparse', 'w_sym', 'w_complex', 'w_integer', 'w_valc', 'w_vali', 'w_hdr_ok', 'w_n', 'w_m', 'w_nnz', 'w_nlines',
                 'w_ei', 'w_ej', 'w_ev', 'w_entok', 'w_row_beg_lo', 'w_row_beg_hi', 'w_row_end_lo', 'w_row_end_hi'],
        not_decided=['text parsing itself (number syntax, white space, comment lines, locale) and the decimal round trip of values (A-mmstream)',
                     'banner / size-line parsing of the constructor', 'complex overload of read_value (two tokens per value)',
                     'symmetric array storage (the dense reader ignores the storage flag: the file is read as a full n x m array)',
                     'more than one value token on a data line', 'the writers',
                     'an inverted row range (row_beg > row_end): caller error, required not to occur'],
    )
    # the two loops of the reader (column j < m, row i < n): per-loop limit; with the global --unwind (sized for the vector capacity)
    # symex unrolled them 12 x 12 times per run: measured 88 s instead of 5 s at n, m <= 2.  Unwinding assertions stay on.
    u.unwindset = [(r'for\(ptrdiff_t \w+ = 0; \w+ < \w+;', 'NMAX+1')]
    u.replay_asan = True
    u.drop_checks = []
    # read_value<T>: the `std::is_same<T, char>` branch (8-bit integers read through an int) does not exist in this instantiation
    u.cover_exempt = r'read_value\.1\b'
    return u


mm_dense = _mk_dense(
    'mm_dense_read',
    'MatrixMarket dense (array) reader with abstracted text parsing: range read == slice of the full read (row-major result of a '
    'column-major file, value by value); throws exactly on a coordinate file / wrong kind / bad size line / range beyond n / '
    'truncation / unparsable data line of a requested row; every vector access in bounds; the file is not modified',
    '#define N_LO 0\n',
    # measured (minisat, shared host, cbmc alone): n, m <= 2: 5 s; n, m <= 3: 13 s; n, m <= 4: 72 s
    variants=[{'NMAX': 3, 'ZMAX': 10}],
    thorough=[{'NMAX': 4, 'ZMAX': 17}],
    bound='every array file with 0 <= n, m <= 3 (thorough: 4), 0 .. n*m+1 data lines present (truncated, complete, one trailing line), '
          'any value tokens, any per-line parse failure, any banner flags / value kind, every caller row range that is not inverted (64-bit symbolic)')

# Damaged size line: the same contract with NEGATIVE sizes in the size line allowed (std::vector::resize of a negative product =
# std::length_error in the vector model).  This unit exposed the dense half of defect F14 (sizes of the size line not validated:
# '-2 0' returned a 18446744073709551614 x 0 array without exception); repaired in /repo, the unit passes on the repaired tree.
mm_dense_strict = _mk_dense(
    'mm_dense_strict',
    'MatrixMarket dense (array) reader, damaged size line: the contract of mm_dense_read with negative sizes allowed: a negative row or column count makes the reader throw',
    '#define N_LO (-2)\n',
    variants=[{'NMAX': 2, 'ZMAX': 5}],
    thorough=None,
    bound='array files with -2 <= n, m <= 2, up to 5 data lines')
# the implicit conversion ptrdiff_t -> size_t of a NEGATIVE product at val.resize(..) is defined behaviour in C++ (a huge size:
# std::length_error, which is what the vector model does with it); the conversion check would flag the model's own cast.  The
# negative sizes that reach std::make_tuple are caught by the clause "a negative row or column count makes the reader throw".
mm_dense_strict.drop_checks = ['--conversion-check']
mm_dense_strict.assumptions = mm_dense_strict.assumptions + [
    'A-conv: --conversion-check off in this unit only (negative ptrdiff_t -> size_t at resize() is defined in C++ and modelled as std::length_error)']
mm_dense.not_decided = mm_dense.not_decided + [
    'a negative row or column count in the size line: unit mm_dense_strict']

UNITS = [mm_sparse, mm_strict, mm_dense, mm_dense_strict]
