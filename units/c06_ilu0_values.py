"""C06: VALUES of the ILU(0) factors (bounded unit, unwound; never counted as proved).

  ilu0_values     relaxation::ilu0 constructor run in the uninterpreted value model; the stored L / U values and the
                  inverted pivots D are compared with the textbook IKJ recurrence restated in the harness over the
                  same uninterpreted functions, in the evaluation order of the code.  Zero compaction: is_zero is an
                  uninterpreted predicate, an entry whose computed value is_zero is absent from U for every later row.

The cut and the rewrite rules are those of ilu0_structure (units/c06_kernels.py).  Native replay: replay/ilu0v.cpp."""
from cxc.unit import Unit
from _common import CRS_MEMBERS_C, crs_member_cuts
from _relax_common import A_RELAX, VEC_PRELUDE
from c06_kernels import ILU0_CUT, SPEC_ILU0, UF16, A_UF, A_UF16, wit

SPEC_ILU0_VALUES = r"""
#ifndef PAT
#define PAT 0
#endif
unsigned char nondet_uchar(void);
/* input generator: EVERY square matrix within the bound whose rows are strictly ascending and hold exactly one diagonal entry is
 * generated constructively (one presence bit per off-diagonal cell; values: whatever the allocation holds = arbitrary tokens).
 * PAT = 1: n = 5 and the presence bits are those of the 5 x 5 example of seeded/C06g/demo.cpp (structurally non-symmetric):
 *     row 0 {0,3}   row 1 {1,2,3}   row 2 {0,2,4}   row 3 {0,3}   row 4 {2,4}                                                     */
#define PAT5_ROW(i) ((i) == 0 ? 0x09 : (i) == 1 ? 0x0e : (i) == 2 ? 0x15 : (i) == 3 ? 0x09 : 0x14)
static crs *ilu0v_input(void)
{
  crs *a = crs_input();
#if PAT == 1
  const size_t n = 5;
#else
  const size_t n = nondet_uchar() & 7;
  REQUIRES(n <= NMAX);
#endif
  ptrdiff_t q = 0;
  a->ptr[0] = 0;
  for (size_t i = 0; i < NMAX; ++i) if (i < n) {
    for (size_t c = 0; c < NMAX; ++c) if (c < n) {
#if PAT == 1
      const _Bool present = (PAT5_ROW(i) >> c) & 1;
#else
      const _Bool present = c == i || (nondet_uchar() & 1);
#endif
      if (present && q < (ptrdiff_t)CAP_NNZ) { a->col[q] = (col_type)c; q++; }
    }
    a->ptr[i + 1] = q;
  }
  REQUIRES(q <= (ptrdiff_t)ZMAX);
  a->nrows = n; a->ncols = n; a->nnz = (size_t)q;
  return a;
}

/* ILU(0), textbook IKJ form, in the evaluation order of the code, over the same uninterpreted value functions:
 *   for each row i in order:  w = row i of A (stored entries only);
 *     for each stored column k < i of row i, ascending:  w_k = w_k * D_k  (D_k = inverse(u_kk), the inverted pivot of row k);
 *        for each STORED U entry (k, c), c > k, of row k in stored (= ascending) order:
 *           (i, c) in the pattern of row i:  w_c = w_c - w_k * u_kc;   otherwise the update is DISCARDED (lands nowhere);
 *     zero pivot (is_zero(w_i)) => exception;  D_i = inverse(w_i);
 *     L(i,k) = w_k (k < i), U(i,c) = w_c (c > i), each stored iff its value is not is_zero: an exactly-zero entry is absent from the
 *     factor and contributes nothing to later rows.                                                                               */
typedef struct { V w[NMAX][NMAX]; _Bool pat[NMAX][NMAX], keep[NMAX][NMAX]; V d[NMAX]; int thrown; } ilu0_ref;
static void spec_ilu0_values(const crs *A, ilu0_ref *R)
{
  const size_t n = A->nrows;
  R->thrown = 0;
  for (size_t i = 0; i < NMAX; ++i) for (size_t c = 0; c < NMAX; ++c) { R->pat[i][c] = 0; R->keep[i][c] = 0; }
  for (size_t i = 0; i < NMAX; ++i) if (i < n && !R->thrown) {
    for (size_t c = 0; c < NMAX; ++c)
      for (size_t j = 0; j < CAP_NNZ; ++j)
        if ((ptrdiff_t)j >= A->ptr[i] && (ptrdiff_t)j < A->ptr[i + 1] && (size_t)A->col[j] == c) { R->pat[i][c] = 1; R->w[i][c] = A->val[j]; }
    for (size_t k = 0; k < NMAX; ++k) if (k < i && R->pat[i][k]) {
      const V tl = UF_MUL(R->w[i][k], R->d[k]);
      R->w[i][k] = tl;
      for (size_t c = 0; c < NMAX; ++c) if (c > k && R->keep[k][c]) {
        if (R->pat[i][c]) R->w[i][c] = UF_SUB(R->w[i][c], UF_MUL(tl, R->w[k][c]));
        /* else: fill outside the pattern of row i, discarded */
      }
    }
    if (RAW_IS_ZERO(R->w[i][i])) R->thrown = 1;
    else {
      R->d[i] = __CPROVER_uninterpreted_inverse(R->w[i][i]);
      for (size_t c = 0; c < NMAX; ++c) if (c != i && R->pat[i][c]) R->keep[i][c] = !RAW_IS_ZERO(R->w[i][c]);
    }
  }
}
/* factor F (lower != 0: L, else U) row by row: its stored entries are exactly the kept entries of the recurrence on that side of the
 * diagonal, in ascending column order (vals == 0: columns only; vals != 0: each stored value equals the recurrence term)       */
static _Bool factor_rows_match(const crs *F, const ilu0_ref *R, size_t n, _Bool lower, _Bool vals)
{
  if (!(F->nrows == n && F->ncols == n && F->ptr[0] == 0)) return 0;
  ptrdiff_t pos = 0;
  for (size_t i = 0; i < NMAX; ++i) if (i < n) {
    if (F->ptr[i] != pos) return 0;
    for (size_t c = 0; c < NMAX; ++c) if (c < n && (lower ? c < i : c > i) && R->keep[i][c]) {
      if (!(pos < F->ptr[i + 1] && pos < (ptrdiff_t)CAP_NNZ)) return 0;
      if (!vals && (size_t)F->col[pos] != c) return 0;
      if (vals && F->val[pos] != R->w[i][c]) return 0;
      pos++;
    }
    if (F->ptr[i + 1] != pos) return 0;
  }
  return pos >= 0 && F->nnz == (size_t)pos;
}
"""

ilu0_values = Unit(
    name='ilu0_values', props=['C06', 'C10'],
    functions=['relaxation::ilu0<Backend>::ilu0(const Matrix&, const params&, const backend_params&)', 'crs::set_size', 'crs::set_nonzeros'],
    desc='ILU(0) constructor, VALUES of the factors handed to the triangular solver: every stored L(i,k), every stored U(i,c) and every D[i] equals the term of the '
         'textbook IKJ recurrence (w = row i of A; for stored k < i ascending: w_k *= D_k, then w_c -= w_k * u_kc for the stored U entries of row k whose column is '
         'in the pattern of row i, every other update discarded; D_i = inverse(w_i)) evaluated in the order of the code over uninterpreted value operations; '
         'entries whose value is_zero are dropped and contribute nothing to later rows; exception iff a pivot of the recurrence is_zero. '
         'With exact field arithmetic this recurrence is the definition of (L U)_ij = a_ij on the pattern of A',
    cuts=dict(crs_member_cuts(), body=ILU0_CUT),
    template=UF16 + VEC_PRELUDE + CRS_MEMBERS_C + SPEC_ILU0 + SPEC_ILU0_VALUES + r"""
/* contract (enforced by the harness):
 *   requires  A n x n, rows strictly ascending, exactly one stored diagonal entry per row (generated constructively), any values
 *   ensures   thrown <=> a pivot of the recurrence is_zero;
 *             not thrown: pattern(L) / pattern(U) = the entries of the recurrence left / right of the diagonal that are not is_zero, in order;
 *                         every stored L value, every stored U value and every D[i] equals its recurrence term
 *                         (an update for a column that row i does not store changes NO stored value of any row);
 *             A unchanged                                                                                                          */
static void f_ilu0(ilu0_t *self, const crs *A_p)
{
#define A (*A_p)
/*@CUT:body@*/
#undef A
}
void h_ilu0v(void)
{
  crs *A = ilu0v_input();
  const size_t n = A->nrows;
  __CPROVER_assert(crs_wf(A, NMAX, NMAX, ZMAX) && A->nrows == A->ncols && crs_rows_sorted(A, 1) && one_diag_per_row(A),
                   "link: the generated input is a well-formed square matrix with strictly ascending rows and one stored diagonal per row");
  MIRROR_CRS(A, A);
  crs_snap s; crs_snapshot(A, &s);
  ilu0_ref R;
  spec_ilu0_values(A, &R);
  ilu0_t S; S.L = 0; S.U = 0; S.D = 0; S.D_n = 0; S.made = 0;
  f_ilu0(&S, A);
  ENSURES(!g_cap_exceeded, "bound artefact: allocation within verification capacity");
  ENSURES(crs_unchanged(A, &s), "frame: the input matrix is not modified");
  ENSURES((g_thrown != 0) == (R.thrown != 0), "ilu0 values: an exception is raised iff a pivot w_i of the ILU(0) recurrence is_zero");
  if (!g_thrown && !R.thrown) {
    ENSURES(S.made == 1 && S.L != 0 && S.U != 0 && S.D != 0 && S.D_n == n, "ilu0 values: the triangular solver is made exactly once from (L, U, D), D has n cells");
    if (S.made == 1 && S.L != 0 && S.U != 0 && S.D != 0) {
      const _Bool lp = factor_rows_match(S.L, &R, n, 1, 0), up = factor_rows_match(S.U, &R, n, 0, 0);
      ENSURES(lp, "ilu0 values: row by row, L stores exactly the entries (i,k), k < i, of the pattern of A whose recurrence value w_k is not is_zero, ascending");
      ENSURES(up, "ilu0 values: row by row, U stores exactly the entries (i,c), c > i, of the pattern of A whose recurrence value w_c is not is_zero, ascending "
                  "(a dropped entry is absent for every later row)");
      ENSURES(!lp || factor_rows_match(S.L, &R, n, 1, 1),
              "C06 ILU(0): every stored L(i,k) == w_k = (a_ik - sum of the admitted updates) * D_k of the IKJ recurrence, operations in the order of the code");
      ENSURES(!up || factor_rows_match(S.U, &R, n, 0, 1),
              "C06 ILU(0): every stored U(i,c) == w_c = a_ic - sum over stored k < i of L(i,k) * U(k,c), only for (k,c) stored in U and (i,c) in the pattern of row i; "
              "an update for a column that row i does not store is discarded and changes no stored value of any row");
      _Bool dv = 1;
      for (size_t i = 0; i < NMAX; ++i) if (i < n) { if (S.D[i] != R.d[i]) dv = 0; }
      ENSURES(dv, "C06 ILU(0): every D[i] == inverse(w_i), w_i the pivot of the IKJ recurrence (a_ii minus the admitted updates)");
    }
  }
  CANARY("harness.end");
}
""",
    entry='h_ilu0v', mode='unwound', unwind='max(ZMAX,NMAX)+3', model='uf',
    variants=[{'NMAX': 3, 'ZMAX': 6, 'PAT': 0}, {'NMAX': 5, 'ZMAX': 12, 'PAT': 1}],
    thorough_variants=[{'NMAX': 3, 'ZMAX': 9, 'PAT': 0}, {'NMAX': 5, 'ZMAX': 12, 'PAT': 1}],
    bound_text='variant 0: n <= 3, nnz <= 6 (thorough: nnz <= 9 = every 3 x 3 pattern), rows strictly ascending with one stored diagonal each, pattern symbolic '
               '(structurally non-symmetric patterns included), values uninterpreted, is_zero an uninterpreted predicate (every combination of dropped entries / zero pivots); '
               'variant 1: n = 5 with the FIXED structurally non-symmetric 12-entry pattern of seeded/C06g/demo.cpp (rows {0,3} {1,2,3} {0,2,4} {0,3} {2,4}), values and is_zero '
               'outcomes symbolic (a stale column->slot pointer needs k < i < r < c and a further upper entry in row r: impossible below n = 5). '
               'Measured (shared host, VERIF_JOBS=3): quick 85 s CBMC (variant 0 about 60 s, variant 1 a few seconds, canary runs included), thorough 171 s',
    assumptions=A_RELAX + A_UF + A_UF16 + [
        'A-sorted: the rows of A are sorted by column without duplicates (ILU(0) walks each row up to the diagonal; amgcl sorts the rows of every level matrix)',
        'A-diag: every row stores exactly one diagonal entry (missing diagonal: unit ilu0_structure, DIAG=0)',
        'A-own: shared_ptr members are plain pointers; make_shared<numa_vector<V>>(n, false) is a fresh allocation of n cells with arbitrary content',
        'A-ghost: math::inverse / math::is_zero are wrapped by recording macros around the same uninterpreted functions (shared with ilu0_structure)',
        'A-callee: crs::set_size / crs::set_nonzeros bodies are inlined from /repo',
        'A-ikj: (L U)_ij = a_ij on the pattern is stated as the IKJ recurrence that defines ILU(0); that the recurrence yields the product identity is field algebra, '
        'checked numerically by the native replay (replay/ilu0v.cpp), not by CBMC'],
    replay='ilu0v', timeout=900, witness=wit('A'),
    not_decided=['the product identity (L U)_ij = a_ij itself (needs field arithmetic; the unit pins the recurrence term by term instead)',
                 'patterns with n = 4, 5 other than the fixed one of variant 1', 'n beyond the bound'])
# a strictly ascending row has at most n entries: every row loop runs <= NMAX times (unwinding assertions check it)
ilu0_values.unwindset = [(r'for\(ptrdiff_t [jk] = ', 'NMAX+1'), (r'for\(ptrdiff_t i = 0;', 'NMAX+1')]
ilu0_values.cover_exempt = r'^canary set_size\.1$'   # crs::set_size(n, m, clean_ptr): the constructor passes the default clean_ptr = false, the zeroing branch is not taken

UNITS = [ilu0_values]
