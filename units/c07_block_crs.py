"""block_crs backend (amgcl/backend/block_crs.hpp), detail::QR::solve data flow (amgcl/detail/qr.hpp), detail::inverse.

  bcrs_block_prod spmv_impl<..., bcrs<V,C,P>, ...>::block_prod: dense b x b block times a window of x, truncated to nx columns / ny rows
                  (partial last block column / row); order-sensitive uninterpreted value operations (holds for every value type);
                  every pointer dereference inside the logical extent of the block, x[0..nx), y[0..ny)
  bcrs_spmv       spmv_impl<Alpha, bcrs<V,C,P>, Vec1, Beta, Vec2>::apply with block_prod replaced by its contract (the one
                  bcrs_block_prod enforces): y = alpha A x + beta y for the dense expansion truncated to nrows x ncols, shape NOT
                  necessarily divisible by the block size; beta == 0: old y not read; index safety; callee preconditions
  bcrs_residual   residual_impl<bcrs,...>::apply == copy(rhs, r); spmv(-identity, A, x, identity, r)  (call level, loop free)
  bcrs_ctor[_b3]  bcrs<V,C,P>::bcrs(const Matrix&, size_t): block pattern + dense block values, zero fill of absent entries
  qr_solve        detail::QR<value_type>::solve(rows, cols, row_stride, col_stride, A, b, x, computed) incl. compute, gen_reflector,
                  apply_reflector: DATA FLOW only -- x is completely written and is a function of this call's inputs (two executions
                  that differ in the member workspace left by an earlier solve give identical x and A); index safety
  dense_inverse   detail::inverse(n, A, t, p): index safety + data flow (no read of unwritten workspace, every pivot outcome)

All bounded (unwound) except bcrs_residual; never counted as proved.

Measured while building (idle machine), kept here because they decided the shape of the units:
  * monolithic spmv (apply + block_prod bodies, everything symbolic): b = 2 234 s, b = 3 > 600 s.  Enumerating the row-pointer shapes
    path-wise inside ONE harness made it worse (17 M variables): the Ackermann constraints of the uninterpreted operations are
    quadratic in the number of applications over ALL paths.  Modular split (callee contract with an uninterpreted ROWSUM): 8 s + 25 s.
  * QR::solve with symbolic rows / cols / strides: > 300 s; shape concrete per variant: ~3 s each.
  * bcrs constructor, b = 3: the 64-bit division / remainder by 3 in the scatter index is SAT-hard (nnz <= 2: > 300 s minisat, 64 s kissat)."""
import re
from cxc.extract import Cut, Rule, UF, IdxRule, ExtractError
from cxc.unit import Unit
from _common import BOUNDED_PRELUDE
from c06_kernels import COMPOUND, UFByType

BCRS = 'amgcl/backend/block_crs.hpp'

A_BCRS = [
    'A-bound: nothing is claimed beyond the stated size bound',
    'A-std: std::min is a prelude macro; std::vector members are constant-capacity arrays with a logical length',
    'A-omp: OpenMP pragmas dropped; loops verified sequentially (each block row ib writes only y[ib*b .. ib*b+b))',
    'A-inst: bcrs<V, ptrdiff_t, ptrdiff_t>, Vec1/Vec2 contiguous vectors of V with size ncols / nrows, Alpha = Beta = value token (scalar coefficient)',
    'A-clear: backend::clear(y) sets every cell of y to math::zero (proved for builtin vectors by unit builtin_clear)',
]
A_UF16 = [
    'A-uf: value operations (+ * is_zero zero, literal conversion) are uninterpreted functions of their operands: what is proved pins which operands meet which operator in which order and holds for every value type (float, double, complex, b x b blocks)',
    'A-uf16: value tokens are 16 bit wide; tokens are only compared with == and fed to uninterpreted functions, and the unwound program has fewer than 65536 value terms, so by the EUF small-model property no counterexample is lost',
    'A-scalar: the coefficient beta is a scalar: "y[i] *= beta" is stated as y0[i]*beta; V(0) (the literal the block sum starts from) is the zero of the value type',
]

# ------------------------------------------------------------------------------------------------ C view of bcrs<V,C,P>
MODEL_SWITCH = '#define CXC_IDX_STOP 1\n#define MODEL_UF 1\n#define CXC_UF_T unsigned short\n'

BCRS_PRELUDE = r'''
/* ------------------------------------------------ backend::bcrs<V,C,P> (C view)
 * data members in declaration order (block_crs.hpp:58-64); std::vector members are
 * constant-capacity arrays with a logical length <name>_n                          */
#ifndef BS
#define BS 2          /* block size: concrete per variant (symbolic division/modulo by it is what CBMC cannot afford) */
#endif
#ifndef BRMAX
#define BRMAX 2       /* block rows, block columns */
#endif
#ifndef NBMAX
#define NBMAX 3       /* stored blocks */
#endif
#define CAP_BP (BRMAX + 2)
#define CAP_NB (NBMAX + 1)
#define CAP_BV (CAP_NB * BS * BS)
#define CAP_V (BRMAX * BS + 1)
typedef V Alpha;
typedef V Beta;
typedef struct bcrs {
  size_t block_size;
  size_t nrows, ncols;
  size_t brows, bcols;
  ptr_type *ptr; size_t ptr_n;
  col_type *col; size_t col_n;
  val_type *val; size_t val_n;
} bcrs;
unsigned char nondet_uchar(void);
/* logical-bounds obligation that also stops the path (assert, then continue only in bounds): an execution with an
 * out-of-range subscript is reported at its FIRST such subscript instead of once per later dereference            */
static inline ptrdiff_t cxc_idx_stop(ptrdiff_t e, size_t len)
{
#if defined(CXC_CBMC) && !defined(CXC_CANARY)
  __CPROVER_assert(e >= 0 && (size_t)e < len, "safety.idx. subscript within the logical length of the array");
  __CPROVER_assume(e >= 0 && (size_t)e < len);
#endif
  return e;
}
#ifdef CXC_IDX_STOP
#undef IDX
#define IDX(e, len, what) cxc_idx_stop((ptrdiff_t)(e), (size_t)(len))
#endif
/* symbolic input: constant-capacity arrays, sizes / pointers / columns built from narrow nondeterministic values
 * (every well-formed matrix within the bound is generated; the high bits are structurally zero) */
static void bcrs_input(bcrs *a)
{
  a->ptr = (ptr_type *)malloc(sizeof(ptr_type) * CAP_BP);
  a->col = (col_type *)malloc(sizeof(col_type) * CAP_NB);
  a->val = (val_type *)malloc(sizeof(val_type) * CAP_BV);
  a->block_size = BS;
  a->nrows = nondet_uchar() & 15; a->ncols = nondet_uchar() & 15;
  a->brows = nondet_uchar() & 7; a->bcols = nondet_uchar() & 7;
  a->ptr_n = nondet_uchar() & 7; a->col_n = nondet_uchar() & 7; a->val_n = nondet_uchar() & 63;
  for (size_t i = 0; i < CAP_BP; ++i) a->ptr[i] = nondet_uchar() & 7;
  for (size_t j = 0; j < CAP_NB; ++j) a->col[j] = nondet_uchar() & 7;
}
/* representation invariant of a bcrs matrix (what the constructor establishes, minus "no block twice in a row"):
 * brows = ceil(nrows/b), bcols = ceil(ncols/b) -- nrows, ncols NOT necessarily divisible by b --,
 * ptr monotone from 0, block columns in range, b*b values per stored block                     */
static _Bool bcrs_wf(const bcrs *A)
{
  if (!(A->block_size == BS && A->nrows <= BRMAX * BS && A->ncols <= BRMAX * BS)) return 0;
  /* brows == ceil(nrows / b), bcols == ceil(ncols / b), stated without division */
  if (!(A->nrows <= A->brows * BS && A->brows * BS < A->nrows + BS && A->ncols <= A->bcols * BS && A->bcols * BS < A->ncols + BS)) return 0;
  if (!(A->ptr_n == A->brows + 1 && A->ptr[0] == 0)) return 0;
  for (size_t i = 0; i < BRMAX; ++i) if (i < A->brows) { if (!(A->ptr[i] <= A->ptr[i + 1])) return 0; }
  if (!(A->ptr[A->brows] >= 0 && A->ptr[A->brows] <= NBMAX)) return 0;
  if (!(A->col_n == (size_t)A->ptr[A->brows] && A->val_n == A->col_n * BS * BS)) return 0;
  for (size_t j = 0; j < CAP_NB; ++j) if (j < A->col_n) { if (!(A->col[j] >= 0 && (size_t)A->col[j] < A->bcols)) return 0; }
  return 1;
}
typedef struct { bcrs h; ptr_type ptr[CAP_BP]; col_type col[CAP_NB]; val_type val[CAP_BV]; } bcrs_snap;
static void bcrs_snapshot(const bcrs *A, bcrs_snap *s)
{
  s->h = *A;
  for (size_t i = 0; i < CAP_BP; ++i) s->ptr[i] = A->ptr[i];
  for (size_t j = 0; j < CAP_NB; ++j) s->col[j] = A->col[j];
  for (size_t k = 0; k < CAP_BV; ++k) s->val[k] = A->val[k];
}
static _Bool bcrs_unchanged(const bcrs *A, const bcrs_snap *s)
{
  if (!(A->block_size == s->h.block_size && A->nrows == s->h.nrows && A->ncols == s->h.ncols && A->brows == s->h.brows && A->bcols == s->h.bcols
        && A->ptr == s->h.ptr && A->col == s->h.col && A->val == s->h.val && A->ptr_n == s->h.ptr_n && A->col_n == s->h.col_n && A->val_n == s->h.val_n)) return 0;
  for (size_t i = 0; i < CAP_BP; ++i) if (s->ptr[i] != A->ptr[i]) return 0;
  for (size_t j = 0; j < CAP_NB; ++j) if (s->col[j] != A->col[j]) return 0;
  for (size_t k = 0; k < CAP_BV; ++k) if (s->val[k] != A->val[k]) return 0;
  return 1;
}
/* witness mirror */
size_t w_bs, w_nrows, w_ncols; ptr_type w_ptr[CAP_BP]; col_type w_col[CAP_NB]; int w_val[CAP_BV]; int w_x[CAP_V], w_y[CAP_V];
int w_alpha, w_beta, w_beta_zero, w_beta_one;
#define MIRROR_BCRS(A) do { w_bs = (A)->block_size; w_nrows = (A)->nrows; w_ncols = (A)->ncols; \
  for (size_t i_ = 0; i_ < CAP_BP; ++i_) w_ptr[i_] = (A)->ptr[i_]; \
  for (size_t j_ = 0; j_ < CAP_NB; ++j_) w_col[j_] = (A)->col[j_]; \
  for (size_t k_ = 0; k_ < CAP_BV; ++k_) w_val[k_] = (int)(A)->val[k_]; } while (0)

/* logical-extent obligation for the raw pointers block_prod walks: every dereferenced cell lies inside the logical
 * extent of one of the registered arrays (x, y, A.val); allocation itself is capacity-sized                       */
const V *g_ext_base[3]; size_t g_ext_len[3];
static inline V *cxc_pchk(const V *p)
{
#if defined(CXC_CBMC) && !defined(CXC_CANARY)
  _Bool ok = 0;
  for (int k_ = 0; k_ < 3; ++k_)
    if (__CPROVER_same_object(p, g_ext_base[k_]) && p >= g_ext_base[k_] && p < g_ext_base[k_] + g_ext_len[k_]) ok = 1;
  __CPROVER_assert(ok, "safety.idx. block_prod dereferences only cells inside the logical extent of x, y or the block value array");
#endif
  return (V *)p;
}
#define PCHK(p) cxc_pchk(p)
/* backend::clear(y) for a builtin vector (contract of unit builtin_clear) */
static void vec_clear(V *v, size_t n)
{
  for (size_t i = 0; i < CAP_V; ++i) if (i < n) v[i] = MATH_zero(V);
}
#define clear(v) vec_clear(v, v##_n)
'''

SPMV_ANCHOR = r'static void apply\(Alpha alpha, const matrix &A, const Vec1 &x, Beta beta, Vec2 &y\)\s*(?=\{)'
BLOCK_PROD_ANCHOR = r'static void block_prod\(size_t dim, size_t nx, size_t ny,\s*Alpha alpha, const V \*A, const V \*x, V \*y\)\s*(?=\{)'
RESIDUAL_ANCHOR = r'static void apply\(const Vec1 &rhs, const matrix &A, const Vec2 &x, Vec3 &r\)\s*(?=\{)'

# value arithmetic keyed on declared types (V locals) and on stores through a subscripted / dereferenced vector cell
VAL_UF = UFByType(['V'], lvalues=[r'\*PCHK\(\w+\)', r'\b[xy]\[[^;=]*\]'])

SPMV_CUT = Cut(
    BCRS, SPMV_ANCHOR,
    rules=[
        Rule(r'\b(alpha|beta)\s*([!=]=)\s*(\d+)\b', r'\1 \2 UF_CONST(\3)', 1, why='comparison of a coefficient with a literal: the literal converted to the coefficient type'),
        COMPOUND,
        IdxRule(r'A\.ptr', 'A.ptr_n', '+'), IdxRule(r'A\.col', 'A.col_n', '+'), IdxRule(r'A\.val', 'A.val_n', '+'),
        IdxRule(r'x', 'x_n', '+'), IdxRule(r'y', 'y_n', '+'),
    ], uf=[VAL_UF])
BLOCK_PROD_CUT = Cut(
    BCRS, BLOCK_PROD_ANCHOR,
    rules=[
        COMPOUND,
        Rule(r'(?<![\w)\]])\*(\w+)\b', r'*PCHK(\1)', '+', why='every pointer dereference carries the logical-extent obligation'),
    ], uf=[VAL_UF])


# ------------------------------------------------------------------------------------------------ the callee contract
# ONE contract text for block_prod, enforced on the real body by unit bcrs_block_prod and used (stub) by unit bcrs_spmv:
#   requires  A points at a full stored block (dim*dim cells), x at a window of nx <= dim cells, y at a window of ny <= dim cells
#   assigns   y[0..ny)
#   ensures   y[i] == old(y[i]) + alpha * ROWSUM_i,   ROWSUM_i = V(0) + sum_{j < nx} A[i*dim + j] * x[j]  (j ascending)
BP_CONTRACT = r'''
#define BP_POST(y_old, alpha, rowsum) UF_ADD(y_old, UF_MUL(alpha, rowsum))
/* the definition of ROWSUM on concrete arrays: fold from V(0) over the first nx cells of block row i */
static V rowsum_def(const V *blk, size_t dim, size_t i, const V *xw, size_t nx)
{
  V s = UF_CONST(0);
  for (size_t j = 0; j < BS; ++j) if (j < nx) s = UF_ADD(s, UF_MUL(blk[i * dim + j], xw[j]));
  return s;
}
'''

H_BLOCK_PROD = r'''
/* static void spmv_impl<..., bcrs<V,C,P>, ...>::block_prod(size_t dim, size_t nx, size_t ny, Alpha alpha, const V *A, const V *x, V *y) */
static void block_prod(size_t dim, size_t nx, size_t ny, Alpha alpha, const V *A, const V *x, V *y)
{
/*@CUT:block_prod@*/
}
int w_dim, w_nx, w_ny; int w_blk[BS * BS + 1], w_xw[BS + 1], w_yw[BS + 1];
/* contract (enforced by the harness below): see BP_CONTRACT; dim = b (the only value apply passes), nx, ny <= b symbolic */
void h_bcrs_block_prod(void)
{
  size_t dim = BS, nx = nondet_uchar() & 7, ny = nondet_uchar() & 7;
  REQUIRES(nx <= dim && ny <= dim);
  V blk[BS * BS + 1], xw[BS + 1], yw[BS + 1], blk0[BS * BS + 1], xw0[BS + 1], yw0[BS + 1];
  V alpha;
  for (size_t k = 0; k < BS * BS + 1; ++k) { blk0[k] = blk[k]; w_blk[k] = (int)blk[k]; }
  for (size_t k = 0; k < BS + 1; ++k) { xw0[k] = xw[k]; yw0[k] = yw[k]; w_xw[k] = (int)xw[k]; w_yw[k] = (int)yw[k]; }
  w_dim = (int)dim; w_nx = (int)nx; w_ny = (int)ny; w_alpha = (int)alpha;
  g_ext_base[0] = xw; g_ext_len[0] = nx; g_ext_base[1] = yw; g_ext_len[1] = ny; g_ext_base[2] = blk; g_ext_len[2] = dim * dim;
  block_prod(dim, nx, ny, alpha, blk, xw, yw);
  _Bool rows = 1, frame_y = 1, frame_in = 1;
  for (size_t i = 0; i < BS + 1; ++i) {
    if (i < ny) { if (yw[i] != BP_POST(yw0[i], alpha, rowsum_def(blk0, dim, i, xw0, nx))) rows = 0; }
    else if (yw[i] != yw0[i]) frame_y = 0;
    if (xw[i] != xw0[i]) frame_in = 0;
  }
  for (size_t k = 0; k < BS * BS + 1; ++k) if (blk[k] != blk0[k]) frame_in = 0;
  ENSURES(rows, "block_prod: y[i] == old y[i] + alpha * (V(0) + sum_{j < nx} A[i*dim + j] * x[j]) for every i < ny (row i of the dense block starts at A + i*dim)");
  ENSURES(frame_y, "frame: cells of y beyond ny are not modified");
  ENSURES(frame_in, "frame: the block and x are not modified");
  CANARY("harness.end");
}
'''

bcrs_block_prod = Unit(
    name='bcrs_block_prod', props=['C07', 'C10'],
    functions=['backend::spmv_impl<Alpha, bcrs<V,C,P>, Vec1, Beta, Vec2>::block_prod (block_crs.hpp)'],
    desc='dense b x b block times a window of x, truncated to nx columns and ny rows (partial last block column / row): '
         'y[i] += alpha * sum_{j<nx} A[i*b + j] * x[j], row i of the block starting at A + i*b whatever nx is; only y[0..ny) written; '
         'every dereference inside the block (b*b cells), x[0..nx), y[0..ny)',
    cuts={'block_prod': BLOCK_PROD_CUT},
    template=MODEL_SWITCH + BOUNDED_PRELUDE + BCRS_PRELUDE + BP_CONTRACT + H_BLOCK_PROD,
    entry='h_bcrs_block_prod', mode='unwound', unwind='BS*BS+3', model='uf',
    variants=[{'BS': 2}, {'BS': 3}], thorough_variants=[{'BS': 1}, {'BS': 2}, {'BS': 3}, {'BS': 4}],
    bound_text='block size b = dim in {2, 3} (thorough: 1..4), every nx, ny in 0..b, block, x, y and alpha symbolic (uninterpreted value operations)',
    assumptions=A_BCRS + A_UF16 + ['A-alias: the block, the x window and the y window do not overlap'],
    replay='bcrsqr', timeout=200,
    witness=['w_dim', 'w_nx', 'w_ny'],
    not_decided=['forming (not dereferencing) the pointers xx + dim / A + dim*ny past the logical end of a partial window (the column loop always advances dim cells)',
                 'rounding: the floating-point value of the row sums (only operands, operators and their order are decided)'],
)
bcrs_block_prod.unwindset = [(r'for\(size_t i = 0; i < ny', 'BS+2'), (r'for\(size_t j = 0; j <', 'BS+2')]

# ------------------------------------------------------------------------------------------------ spmv (apply)
BCRS_FUNCS = r'''
/* callee contract instead of the body (A-callee): block_prod -- precondition instances are obligations of the caller,
 * the effect is the contract's postcondition with ROWSUM an uninterpreted function of (which block row: offset into A.val,
 * which x window: offset into x, nx): sound because neither A.val nor x is assigned during apply (frame clauses below)   */
V __CPROVER_uninterpreted_rowsum(size_t, size_t, size_t);
#define ROWSUM(a_off, x_off, nx) __CPROVER_uninterpreted_rowsum(a_off, x_off, nx)
int g_bp_calls;
static void block_prod(size_t dim, size_t nx, size_t ny, Alpha alpha, const V *A, const V *x, V *y)
{
  size_t x_off = (size_t)(x - g_ext_base[0]), y_off = (size_t)(y - g_ext_base[1]), a_off = (size_t)(A - g_ext_base[2]);
#if defined(CXC_CBMC) && !defined(CXC_CANARY)
  __CPROVER_assert(dim == BS && nx <= dim && ny <= dim, "safety.idx. block_prod precondition: dim == block size, nx <= dim, ny <= dim");
  __CPROVER_assert(__CPROVER_same_object(A, g_ext_base[2]) && A >= g_ext_base[2] && a_off + dim * dim <= g_ext_len[2],
                   "safety.idx. block_prod precondition: A points at a full stored block inside the logical extent of the block value array");
  __CPROVER_assert(__CPROVER_same_object(x, g_ext_base[0]) && x >= g_ext_base[0] && x_off + nx <= g_ext_len[0],
                   "safety.idx. block_prod precondition: x[0..nx) lies inside the logical extent of x");
  __CPROVER_assert(__CPROVER_same_object(y, g_ext_base[1]) && y >= g_ext_base[1] && y_off + ny <= g_ext_len[1],
                   "safety.idx. block_prod precondition: y[0..ny) lies inside the logical extent of y");
#endif
  g_bp_calls++;
  for (size_t i = 0; i < BS; ++i) if (i < ny) y[i] = BP_POST(y[i], alpha, ROWSUM(a_off + i * dim, x_off, nx));
}
/* static void spmv_impl<Alpha, bcrs<V,C,P>, Vec1, Beta, Vec2>::apply(Alpha alpha, const matrix &A, const Vec1 &x, Beta beta, Vec2 &y) */
void f_bcrs_spmv(Alpha alpha, const bcrs *A_p, const V *x, size_t x_n, Beta beta, V *y, size_t y_n)
{
#define A (*A_p)
/*@CUT:apply@*/
#undef A
}
'''

SPEC_SPMV = r'''
/* defining formula, row i = ib*b + r (i < nrows), order-sensitive:
 *   y_i = [ zero | y0_i | y0_i * beta ]  +  sum over the stored blocks jb of block row ib, in stored order, of
 *         alpha * ROWSUM(row r of block jb, x window at col[jb]*b, min(b, ncols - col[jb]*b) columns)
 * with ROWSUM = V(0) + sum_{c < nx} val[jb*b*b + r*b + c] * x[col[jb]*b + c] (BP_CONTRACT; unit bcrs_block_prod), i.e.
 *   y = alpha * A x + beta * y0  with A the dense expansion of the stored blocks truncated to nrows x ncols;
 * with is_zero(beta) the term does not mention y0 at all (old y, whatever it holds, is not read)          */
static V spmv_row(V alpha, const bcrs *A, V beta, V y0, size_t ib, size_t r)
{
  V e = math_is_zero(beta) ? MATH_zero(V) : (beta != UF_CONST(1) ? UF_MUL(y0, beta) : y0);
  for (size_t jb = 0; jb < CAP_NB; ++jb) if ((ptrdiff_t)jb >= A->ptr[ib] && (ptrdiff_t)jb < A->ptr[ib + 1]) {
    size_t xo = (size_t)A->col[jb] * BS;
    e = BP_POST(e, alpha, ROWSUM(jb * BS * BS + r * BS, xo, A->ncols - xo < BS ? A->ncols - xo : BS));
  }
  return e;
}
'''

H_SPMV = r'''
/* contract (enforced by the harness below):
 *   requires bcrs_wf(A) (block size b, shape not necessarily divisible by b), x has ncols cells, y has nrows cells (any content)
 *   assigns  y[0..nrows)
 *   ensures  y_i == alpha * (A x)_i + beta * y0_i row by row (spmv_row); beta == 0: old y not read;
 *            every subscript within the logical length of x, y, A.ptr, A.col, A.val; callee preconditions; A, x not modified */
void h_bcrs_spmv(void)
{
  bcrs A; bcrs_input(&A);
  REQUIRES(bcrs_wf(&A));
  V x[CAP_V], y[CAP_V], x0[CAP_V], y0[CAP_V];
  V alpha, beta;
  for (size_t i = 0; i < CAP_V; ++i) { x0[i] = x[i]; y0[i] = y[i]; }
  MIRROR_BCRS(&A); w_beta_zero = math_is_zero(beta) ? 1 : 0; w_beta_one = (beta == UF_CONST(1)) ? 1 : 0;
  bcrs_snap s; bcrs_snapshot(&A, &s);
  g_ext_base[0] = x; g_ext_len[0] = A.ncols; g_ext_base[1] = y; g_ext_len[1] = A.nrows; g_ext_base[2] = A.val; g_ext_len[2] = A.val_n;
  f_bcrs_spmv(alpha, &A, x, A.ncols, beta, y, A.nrows);
  _Bool rows = 1, frame_y = 1, frame_x = 1;
  for (size_t ib = 0; ib < BRMAX; ++ib) for (size_t r = 0; r < BS; ++r) {
    size_t i = ib * BS + r;
    if (i < A.nrows) { if (y[i] != spmv_row(alpha, &A, beta, y0[i], ib, r)) rows = 0; }
    else if (y[i] != y0[i]) frame_y = 0;
  }
  if (y[CAP_V - 1] != y0[CAP_V - 1]) frame_y = 0;
  for (size_t i = 0; i < CAP_V; ++i) if (x[i] != x0[i]) frame_x = 0;
  ENSURES(rows, "bcrs spmv: y_i == alpha * (A x)_i + beta * y0_i with A the dense expansion of the block matrix truncated to nrows x ncols (one block_prod per stored block, in stored order; beta == 0: old y not read)");
  ENSURES(g_bp_calls == (int)A.col_n, "bcrs spmv: block_prod is called exactly once per stored block");
  ENSURES(frame_y, "frame: cells of y beyond nrows are not modified");
  ENSURES(frame_x && bcrs_unchanged(&A, &s), "frame: the matrix and x are not modified");
  CANARY("harness.end");
}
'''

BCRS_UNWINDSET = [
    (r'for\(ptrdiff_t i = 0; i < \(\(ptrdiff_t\)', 'BRMAX*BS+2'),
    (r'for\(ptrdiff_t ib\b', 'BRMAX+2'),
    (r'for\(P jb\b', 'NBMAX+2'),
]

bcrs_spmv = Unit(
    name='bcrs_spmv', props=['C07', 'C10'],
    functions=['backend::spmv_impl<Alpha, bcrs<V,C,P>, Vec1, Beta, Vec2>::apply (block_crs.hpp)'],
    desc='y = alpha A x + beta y for the block-CRS matrix, A = dense expansion of the stored b x b blocks truncated to nrows x ncols '
         '(nrows, ncols not necessarily divisible by b; partial last block row / column; empty block rows; a block column stored twice): '
         'one block_prod per stored block with the block, x window, y window, nx = min(b, ncols - col*b), ny = min(b, nrows - ib*b) of that block; '
         'beta == 0: old y is not read; index safety of x, y, ptr, col and the block value array; A and x untouched',
    cuts={'apply': SPMV_CUT},
    template=MODEL_SWITCH + BOUNDED_PRELUDE + BCRS_PRELUDE + BP_CONTRACT + BCRS_FUNCS + SPEC_SPMV + H_SPMV,
    entry='h_bcrs_spmv', mode='unwound', unwind='(NBMAX+1)*BS*BS+2', model='uf',
    variants=[{'BS': 2, 'BRMAX': 2, 'NBMAX': 3}, {'BS': 3, 'BRMAX': 2, 'NBMAX': 3}],
    thorough_variants=[{'BS': 2, 'BRMAX': 2, 'NBMAX': 3}, {'BS': 3, 'BRMAX': 2, 'NBMAX': 3}, {'BS': 2, 'BRMAX': 3, 'NBMAX': 4}, {'BS': 4, 'BRMAX': 2, 'NBMAX': 3}],
    bound_text='block size b in {2, 3}, at most 2 x 2 blocks (nrows, ncols <= 2b, every value incl. 0 and non-multiples of b), at most 3 stored blocks '
               '(thorough: also b = 2 with 3 x 3 blocks and 4 stored blocks, b = 4), pattern, values and coefficients symbolic',
    assumptions=A_BCRS + A_UF16 + [
        'A-callee: block_prod is replaced by its contract (BP_CONTRACT: requires a full stored block / x window / y window inside the logical extents -- checked at every call --, '
        'y[i] += alpha * ROWSUM_i); the contract is enforced on the real body by unit bcrs_block_prod; ROWSUM is an uninterpreted function of (block row offset, x window offset, nx), '
        'sound because A.val and x are not assigned by apply (frame clause) and do not overlap y (A-alias)'],
    replay='bcrsqr', timeout=200,
    witness=['w_bs', 'w_nrows', 'w_ncols', 'w_ptr', 'w_col', 'w_beta_zero', 'w_beta_one'],
    not_decided=['rounding: the floating-point value of the row sums (only operands, operators and their order are decided)'],
)
bcrs_spmv.unwindset = BCRS_UNWINDSET
bcrs_spmv.replay_asan = True   # out-of-range subscripts of the real std::vector members are only visible to AddressSanitizer

# ------------------------------------------------------------------------------------------------ residual (call level)
from cxc.extract import UFArgs
H_RESIDUAL = r"""
#define MODEL_UF 1
#include "amgcl_c.h"
int g_thrown;
typedef struct bcrs bcrs;        /* opaque here: residual only hands the matrix on */
/* ghost event log: which backend primitive was called with which arguments, in which order */
const V *g_rhs, *g_x; V *g_r; const bcrs *g_A;
int g_state;      /* 0: r holds anything; 1: r == rhs; 2: r == -identity * A x + identity * rhs;  -1: protocol broken */
int g_copies, g_spmvs;
/* backend::copy(src, dst): dst = src (contract of unit builtin_copy) */
static void ev_copy(const V *src, V *dst)
{
  g_copies++;
  g_state = (g_state == 0 && src == g_rhs && dst == g_r) ? 1 : -1;
}
/* backend::spmv(alpha, A, x, beta, y): y = alpha A x + beta y (contract of units bcrs_spmv + bcrs_block_prod) */
static void ev_spmv(V alpha, const bcrs *A, const V *x, V beta, V *y)
{
  g_spmvs++;
  g_state = (g_state == 1 && A == g_A && x == g_x && y == g_r
             && alpha == UF_NEG(MATH_identity(S)) && beta == MATH_identity(S)) ? 2 : -1;
}
#define copy(a, b) ev_copy(a, b)
#define spmv(al, M, xx, be, yy) ev_spmv(al, &(M), xx, be, yy)
/* static void residual_impl< bcrs<V,C,P>, Vec1, Vec2, Vec3 >::apply(const Vec1 &rhs, const matrix &A, const Vec2 &x, Vec3 &r) */
void f_bcrs_residual(const V *rhs, const bcrs *A_p, const V *x, V *r)
{
#define A (*A_p)
/*@CUT:body@*/
#undef A
}
/* contract: r = rhs - A x, realised as copy(rhs, r) followed by spmv(-identity, A, x, identity, r) -- exactly these two
 * calls, in this order, with these arguments (every other call or argument breaks the protocol)                        */
void h_bcrs_residual(void)
{
  const V *rhs, *x; V *r; const bcrs *A;
  __CPROVER_assume(rhs != r && x != r);
  g_rhs = rhs; g_x = x; g_r = r; g_A = A; g_state = 0;
  f_bcrs_residual(rhs, A, x, r);
  __CPROVER_assert(g_state == 2, "ensures: bcrs residual: r == rhs - A x as copy(rhs, r); spmv(-identity, A, x, identity, r) (order and every argument)");
  __CPROVER_assert(g_copies == 1 && g_spmvs == 1, "ensures: bcrs residual: exactly one copy and one spmv");
}
"""
bcrs_residual = Unit(
    name='bcrs_residual', props=['C07', 'C10'],
    functions=['backend::residual_impl<bcrs<V,C,P>, Vec1, Vec2, Vec3>::apply (block_crs.hpp)'],
    desc='r = rhs - A x for the block-CRS matrix at call level: copy(rhs, r) then spmv(-identity, A, x, identity, r), nothing else; '
         'with the contracts of copy (builtin_copy) and of the bcrs spmv (bcrs_spmv, bcrs_block_prod) this is r_i = rhs_i - (A x)_i',
    cuts={'body': Cut(BCRS, RESIDUAL_ANCHOR, rules=[
        Rule(r'^\s*typedef math::scalar_of<V>::type S;\n', '', 1, why='scalar_of<V> = V for scalar value types: S is bound by the template'),
        Rule(r'\bconst auto\b', 'const V', 1, why='R-auto: math::identity<S>() is a value token'),
        UFArgs(r'spmv', '+'),
    ])},
    template=H_RESIDUAL.replace('#include "amgcl_c.h"', '#include "amgcl_c.h"\ntypedef V S;'),
    entry='h_bcrs_residual', enforce=None, mode='loopfree', model='uf', timeout=120,
    assumptions=['A-uf: value operations are uninterpreted functions of their operands',
                 'A-callee: backend::copy and backend::spmv are replaced by event stubs; their contracts are enforced by units builtin_copy, bcrs_spmv, bcrs_block_prod',
                 'A-ring: (-identity) * a + identity * b == b - a (ring law of the value type; not decided here)',
                 'A-alias: r does not alias rhs or x'],
    replay='bcrsqr',
    not_decided=['the ring law that turns -1 * (A x) + 1 * rhs into rhs - A x'],
)

# ================================================================================================ detail::QR::solve
QRH = 'amgcl/detail/qr.hpp'
A_QR = [
    'A-bound: nothing is claimed beyond the stated size bound',
    'A-uf: every value / scalar operation (+ - * inverse adjoint norm sqrt abs real is_zero < zero identity) is an uninterpreted function of its operands: a DATA-FLOW model -- '
    'two executions give the same result token iff the same operations meet the same operands in the same order; nothing is claimed about floating point',
    'A-uf16: value tokens are 16 bit wide (EUF small-model property: fewer than 65536 value terms in the unwound program)',
    'A-std: std::vector members are constant-capacity arrays with a logical length; resize(n) keeps the first min(old, n) cells and value-initialises the new ones; '
    'std::copy / std::fill / std::min are prelude loops with logical-extent obligations',
    'A-inst: QR<value_type> primary template (scalar value types); the two storage orders produced by the public wrappers (row major: strides (cols, 1); column major: (1, rows))',
]

QR_PRELUDE = r"""
/* ------------------------------------------------ detail::QR<value_type> (C view)
 * data members in declaration order (qr.hpp:331-335); std::vector members are constant-capacity arrays with a logical length */
#ifndef NMAX
#define NMAX 3
#endif
#define CAPQ (NMAX + 2)            /* capacity of the member vectors tau, f (prior sizes 0 .. NMAX+1) */
#define CAPA (NMAX * NMAX + 1)
typedef V scalar_type;
typedef struct qr {
  int m, n, row_stride, col_stride;
  V *r;
  V tau[CAPQ]; size_t tau_n;
  V f[CAPQ]; size_t f_n;
} qr;
unsigned char nondet_uchar(void);
int g_cap_exceeded;
#define REQUIRES(c) __CPROVER_assume(c)
#ifdef CXC_CANARY
#define ENSURES(c, msg) ((void)0)
#else
#define ENSURES(c, msg) __CPROVER_assert(c, "ensures: " msg)
#endif
/* scalar helpers of qr.hpp / <cmath> on value tokens */
V __CPROVER_uninterpreted_real(V);
#define sqrt(a) __CPROVER_uninterpreted_sqrt((V)(a))
#define std_abs(a) __CPROVER_uninterpreted_abs((V)(a))
#define UF_REAL(a) __CPROVER_uninterpreted_real((V)(a))
static V sqr(V x) { return UF_MUL(x, x); }      /* static scalar_type sqr(scalar_type x) { return x * x; } */

/* logical extents of the arrays a call may touch: base pointer + pointer to the CURRENT logical length */
#define NEXT 6
const V *g_xb[NEXT]; const size_t *g_xl[NEXT]; int g_nx;
static void ext_reset(void) { g_nx = 0; }
static void ext_add(const V *b, const size_t *len) { g_xb[g_nx] = b; g_xl[g_nx] = len; g_nx++; }
/* number of cells from p to the logical end of the registered array p points into (0: p points nowhere legal) */
static size_t cxc_ext(const V *p)
{
  size_t e = 0;
  for (int k_ = 0; k_ < NEXT; ++k_)
    if (k_ < g_nx && __CPROVER_same_object(p, g_xb[k_]) && p >= g_xb[k_] && p <= g_xb[k_] + *g_xl[k_]) e = (size_t)(g_xb[k_] + *g_xl[k_] - p);
  return e;
}
static inline ptrdiff_t cxc_idx_stop(ptrdiff_t e, size_t len)
{
#if defined(CXC_CBMC) && !defined(CXC_CANARY)
  __CPROVER_assert(e >= 0 && (size_t)e < len, "safety.idx. subscript within the logical extent of the array");
  __CPROVER_assume(e >= 0 && (size_t)e < len);
#endif
  return e;
}
#undef IDX
#define IDX(e, len, what) cxc_idx_stop((ptrdiff_t)(e), (size_t)(len))
/* std::vector<V>::resize(n) */
#define VEC_RESIZE(self, M, n) do { size_t n_ = (size_t)(n); if (n_ > CAPQ) g_cap_exceeded = 1; \
  for (size_t k_ = 0; k_ < CAPQ; ++k_) if (k_ >= (self)->M##_n && k_ < n_) (self)->M[k_] = UF_CONST(0); \
  (self)->M##_n = n_; } while (0)
/* std::copy(first, last, out), std::fill(first, last, v) on value cells */
static void std_copy(const V *first, const V *last, V *out)
{
  ptrdiff_t n = last - first;
#if defined(CXC_CBMC) && !defined(CXC_CANARY)
  __CPROVER_assert(n >= 0 && (size_t)n <= cxc_ext(first), "safety.idx. std::copy reads inside the logical extent of its source");
  __CPROVER_assert(n <= 0 || (size_t)n <= cxc_ext(out), "safety.idx. std::copy writes inside the logical extent of its destination");
  __CPROVER_assume(n >= 0 && (size_t)n <= cxc_ext(first) && (n <= 0 || (size_t)n <= cxc_ext(out)));
#endif
  for (ptrdiff_t i = 0; i < CAPA; ++i) if (i < n) out[i] = first[i];
}
static void std_fill(V *first, V *last, V v)
{
  ptrdiff_t n = last - first;
#if defined(CXC_CBMC) && !defined(CXC_CANARY)
  __CPROVER_assert(n <= 0 || (size_t)n <= cxc_ext(first), "safety.idx. std::fill writes inside the logical extent of its destination");
  __CPROVER_assume(n <= 0 || (size_t)n <= cxc_ext(first));
#endif
  for (ptrdiff_t i = 0; i < CAPA; ++i) if (i < n) first[i] = v;
}
"""

QR_FUNCS = r"""
/* static value_type QR::gen_reflector(int order, value_type &alpha, value_type *x, int stride) */
static V gen_reflector(int order, V *alpha_p, V *x, int stride)
{
#define alpha (*alpha_p)
/*@CUT:gen_reflector@*/
#undef alpha
}
/* static void QR::apply_reflector(int m, int n, const value_type *v, int v_stride, value_type tau, value_type *C, int row_stride, int col_stride) */
static void apply_reflector(int m, int n, const V *v, int v_stride, V tau, V *C, int row_stride, int col_stride)
{
/*@CUT:apply_reflector@*/
}
/* void QR::compute(int rows, int cols, int row_stride, int col_stride, value_type *A) */
static void qr_compute(qr *self, int rows, int cols, int row_stride, int col_stride, V *A)
{
/*@CUT:compute@*/
}
/* void QR::solve(int rows, int cols, int row_stride, int col_stride, value_type *A, const value_type *b, value_type *x, bool computed = false) */
void f_qr_solve(qr *self, int rows, int cols, int row_stride, int col_stride, V *A, const V *b, V *x, _Bool computed)
{
/*@CUT:solve@*/
}
"""

# calls whose arguments are index / pointer expressions (left verbatim by the value-arithmetic parser)
import cxc.extract as _X
_X.OPAQUE_CALLS.update(['gen_reflector', 'apply_reflector', 'qr_compute'])
QR_MEMBERS = [Rule(r'(?<![\w.>])%s\b(?!\s*\()' % f, 'self->%s' % f, None, why='R-member') for f in ('tau', 'f', 'r')]
QR_VEC = [
    Rule(r'(self->\w+)\.resize\(([^;]+)\);', lambda m: 'VEC_RESIZE(self, %s, %s);' % (m.group(1)[6:], m.group(2)), None, why='R-vector resize'),
    Rule(r'(self->\w+)\.size\(\)', r'\1_n', None, why='R-vector size()'),
    Rule(r'(self->\w+)\.begin\(\)', r'\1', None, why='R-vector begin()'),
    Rule(r'(self->\w+)\.end\(\)', r'(\1 + \1_n)', None, why='R-vector end()'),
]
# value arithmetic keyed on declared types and on stores through cells of value arrays (parameters / members named by the signatures)
QR_UF = UFByType(['value_type', 'scalar_type'],
                 lvalues=[r'\b(?:x|A|C|self->f|self->tau)\[[^;=]*\]', r'\balpha\b'])


class RealCmp(object):
    """`real(e) <op> 0` (sign test of a value) -> uninterpreted predicate of UF_REAL(e) and V(0), whatever the operator is"""
    early = False
    pat = 'RealCmp'

    def apply(self, text, log, generic=False):
        def sub(m):
            a, op = 'UF_REAL(%s)' % m.group(1), m.group(2)
            z = 'UF_CONST(0)'
            return {'<': 'UF_LESS(%s, %s)', '>': 'UF_LESS(%s, %s)', '<=': 'UF_LE(%s, %s)', '>=': 'UF_LE(%s, %s)'}[op] % ((a, z) if op in ('<', '<=') else (z, a))
        new, n = re.subn(r'\breal\(([^()]+)\)\s*(<=|>=|<|>)\s*0\b', sub, text)
        log.append({'rule': 'R-cmp real(e) <op> 0 -> UF_LESS/UF_LE', 'fired': n})
        return new


# comments are dropped first: the LAPACK-style comments contain text such as "A[i+1:m)[i]" that is not C
NO_COMMENTS = [Rule(r'/\*.*?\*/', '', None, flags=re.S | re.M, why='comment dropped', early=True),
               Rule(r'//[^\n]*', '', None, why='comment dropped', early=True)]
QR_CUTS = {
    'gen_reflector': Cut(QRH, r'static value_type gen_reflector\(int order, value_type &alpha, value_type \*x, int stride\)\s*(?=\{)',
                         rules=NO_COMMENTS + [COMPOUND, RealCmp(), IdxRule(r'(x)', r'cxc_ext(\1)', '+')], uf=[QR_UF]),
    'apply_reflector': Cut(QRH, r'static void apply_reflector\(\s*int m, int n, const value_type \*v, int v_stride, value_type tau,\s*value_type \*C, int row_stride, int col_stride\s*\)\s*(?=\{)',
                           rules=NO_COMMENTS + [COMPOUND, IdxRule(r'(C|v)', r'cxc_ext(\1)', '+')], uf=[QR_UF]),
    'compute': Cut(QRH, r'void compute\(int rows, int cols, int row_stride, int col_stride, value_type \*A\)\s*(?=\{)', nth=0,
                   rules=NO_COMMENTS + QR_MEMBERS + QR_VEC + [
                       Rule(r'gen_reflector\(([^,]+), ([^,]+),', r'gen_reflector(\1, &(\2),', '+', why='reference parameter value_type &alpha -> pointer'),
                       IdxRule(r'self->tau', 'self->tau_n', '+'), IdxRule(r'(A)', r'cxc_ext(\1)', '+')], uf=[QR_UF]),
    'solve': Cut(QRH, r'void solve\(\s*int rows, int cols, int row_stride, int col_stride, value_type \*A,\s*const value_type \*b, value_type \*x, bool computed = false\)\s*(?=\{)',
                 rules=NO_COMMENTS + QR_MEMBERS + QR_VEC + [
                     COMPOUND,
                     Rule(r'(?<![\w.>])compute\(', 'qr_compute(self, ', '+', why='R-member-call'),
                     IdxRule(r'self->tau', 'self->tau_n', '+'), IdxRule(r'self->f', 'self->f_n', '+'),
                     IdxRule(r'(self->r|A|x)', r'cxc_ext(\1)', '+')], uf=[QR_UF]),
}

H_QR = r"""
int w_rows, w_cols, w_colmajor, w_computed, w_f1_n, w_f2_n, w_tau1_n, w_tau2_n;
/* one execution of solve on object s (prior member state as given), on private copies of A and x */
static void run_solve(qr *s, int rows, int cols, int rs, int cs, V *A, const size_t *A_n, const V *b, const size_t *b_n, V *x, const size_t *x_n, _Bool computed)
{
  ext_reset();
  ext_add(A, A_n); ext_add(b, b_n); ext_add(x, x_n); ext_add(s->f, &s->f_n); ext_add(s->tau, &s->tau_n);
  f_qr_solve(s, rows, cols, rs, cs, A, b, x, computed);
}
/* contract (enforced by the harness below), DATA FLOW only:
 *   requires 1 <= rows, cols <= NMAX; A has rows*cols cells in one of the two storage orders; b has rows, x has cols cells;
 *            the member workspace f enters with ARBITRARY length and content (whatever an earlier solve left), so do tau and r
 *            unless computed (then tau / r are this call's inputs: what compute() left for the same A)
 *   assigns  x[0..cols), A (in-place factorisation), members
 *   ensures  every x[j], j < cols, and every cell of A is written as a function of (rows, cols, strides, A, b, computed[, tau])
 *            only: two executions that differ in the prior content / length of f (and of tau, r when !computed) and in the
 *            prior content of x agree on x and on A; every subscript inside the logical extent of its array              */
void h_qr_solve(void)
{
  /* the shape is concrete per variant (every shape within the bound is a variant): with symbolic rows / cols / strides the
   * subscript arithmetic of the reflector loops does not finish (measured: > 300 s); concrete: ~1 s per shape            */
  int rows = ROWS, cols = COLS;
  __CPROVER_assert(rows >= 1 && rows <= NMAX && cols >= 1 && cols <= NMAX, "bound artefact: variant shape within the capacity");
  _Bool colmajor = COLMAJOR, computed = COMPUTED;
  int rs = colmajor ? 1 : cols, cs = colmajor ? rows : 1;
  size_t A_n = (size_t)(rows * cols), b_n = (size_t)rows, x_n = (size_t)cols;
  V A1[CAPA], A2[CAPA], b[CAPQ], x1[CAPQ], x2[CAPQ];
  for (size_t k = 0; k < CAPA; ++k) A2[k] = A1[k];
  qr s1, s2;                                 /* two objects with unrelated prior workspace */
  s1.f_n = nondet_uchar() & 7; s2.f_n = nondet_uchar() & 7; s1.tau_n = nondet_uchar() & 7; s2.tau_n = nondet_uchar() & 7;
  REQUIRES(s1.f_n <= CAPQ - 1 && s2.f_n <= CAPQ - 1 && s1.tau_n <= CAPQ - 1 && s2.tau_n <= CAPQ - 1);
  if (computed) {
    /* "computed": compute() ran on this A before: r points at it and tau holds min(rows, cols) reflector scalars -- inputs */
    int k = rows < cols ? rows : cols;
    REQUIRES(s1.tau_n == (size_t)k && s2.tau_n == (size_t)k);
    for (size_t i = 0; i < CAPQ; ++i) s2.tau[i] = s1.tau[i];
    s1.r = A1; s2.r = A2;
  }
  w_rows = rows; w_cols = cols; w_colmajor = colmajor; w_computed = computed;
  w_f1_n = (int)s1.f_n; w_f2_n = (int)s2.f_n; w_tau1_n = (int)s1.tau_n; w_tau2_n = (int)s2.tau_n;
  run_solve(&s1, rows, cols, rs, cs, A1, &A_n, b, &b_n, x1, &x_n, computed);
  run_solve(&s2, rows, cols, rs, cs, A2, &A_n, b, &b_n, x2, &x_n, computed);
  ENSURES(!g_cap_exceeded, "bound artefact: member vectors within verification capacity");
  _Bool same_x = 1, same_A = 1;
  for (size_t j = 0; j < CAPQ; ++j) if (j < x_n && x1[j] != x2[j]) same_x = 0;
  for (size_t k = 0; k < CAPA; ++k) if (k < A_n && A1[k] != A2[k]) same_A = 0;
  ENSURES(same_x, "QR::solve: every x[j], j < cols, is written and is a function of this call's inputs only (no read of uninitialised / stale memory: independent of the workspace f / tau an earlier solve left in the object and of the old x)");
  ENSURES(same_A, "QR::solve: the in-place factorisation left in A is a function of this call's inputs only (no read of uninitialised / stale memory)");
  CANARY("harness.end");
}
"""

# wide shapes first: the first variant's trace is the one a replay starts from
QR_SHAPES = sorted([(r, c) for r in (1, 2, 3) for c in (1, 2, 3)], key=lambda rc: (rc[0] >= rc[1], -rc[1], rc[0]))
QR_ALL = ([{'ROWS': r, 'COLS': c, 'COLMAJOR': o} for o in (0, 1) for (r, c) in QR_SHAPES]
          + [{'ROWS': r, 'COLS': c, 'COMPUTED': 1, 'COLMAJOR': o} for o in (0, 1) for (r, c) in ((2, 3), (3, 2), (3, 3))])
# quick: every shape row major, the four largest shapes column major, computed = true for one wide and one tall shape (~3 s each)
QR_VARIANTS = ([{'ROWS': r, 'COLS': c, 'COLMAJOR': 0} for (r, c) in QR_SHAPES]
               + [{'ROWS': r, 'COLS': c, 'COLMAJOR': 1} for (r, c) in ((1, 3), (2, 3), (3, 2), (3, 3))]
               + [{'ROWS': r, 'COLS': c, 'COMPUTED': 1} for (r, c) in ((2, 3), (3, 2))])
qr_solve = Unit(
    name='qr_solve', props=['C16', 'C10'],
    functions=['detail::QR<value_type>::solve(int, int, int, int, value_type*, const value_type*, value_type*, bool)',
               'detail::QR<value_type>::compute(int, int, int, int, value_type*)',
               'detail::QR<value_type>::gen_reflector', 'detail::QR<value_type>::apply_reflector'],
    desc='data flow of QR::solve (tall / square: least squares; wide: minimum norm) incl. compute, gen_reflector, apply_reflector: every x[j] and every cell of A is a '
         'function of this call\'s inputs only -- two executions on objects whose member workspace (f, tau: arbitrary length and content, as an earlier solve of any '
         'shape leaves them) and old x differ give identical x and A; in the wide case this includes x[rows..cols); every subscript inside its array',
    cuts=QR_CUTS,
    template='#define MODEL_UF 1\n#define CXC_UF_T unsigned short\n#include "amgcl_c.h"\n#include <stdlib.h>\nint g_thrown;\n' + QR_PRELUDE + QR_FUNCS + H_QR,
    entry='h_qr_solve', mode='unwound', unwind='NMAX*NMAX+3', model='uf',
    defines={'NMAX': 3, 'COLMAJOR': 0, 'COMPUTED': 0},
    variants=QR_VARIANTS, thorough_variants=QR_ALL,
    bound_text='1 <= rows, cols <= 3: all 9 shapes (wide, square, tall) row major, 4 shapes column major, computed = true for 2x3 and 3x2 (thorough: all shapes in both orders), '
               'values symbolic (uninterpreted operations), prior length of f / tau 0..4 with arbitrary content',
    assumptions=A_QR, replay='bcrsqr', timeout=300,
    witness=['w_rows', 'w_cols', 'w_colmajor', 'w_computed', 'w_f1_n', 'w_f2_n', 'w_tau1_n', 'w_tau2_n'],
    not_decided=['A = Q R, orthonormality of Q, least-squares / minimum-norm optimality, rank-deficient behaviour: floating point, not attempted',
                 'QR::factorize / Q() / R(), the static_matrix specialisation (copy_to_scalar_buf)', 'general strides other than the two storage orders'],
)
qr_solve.unwindset = [(r'for\(int i = 0, n =', 'NMAX*NMAX+2'), (r'for\(int ', 'NMAX+2')]

# ================================================================================================ bcrs constructor
from _direct_common import row_iter_rules, vector_rules
from _common import member_rules
CTOR_ANCHOR = (r'template < class Matrix >\s*bcrs\(const Matrix &A, size_t block_size\)\s*'
               r': block_size\(block_size\), nrows\( rows\(A\) \), ncols\( cols\(A\) \),\s*'
               r'brows\(\(nrows \+ block_size - 1\) / block_size\),\s*bcols\(\(ncols \+ block_size - 1\) / block_size\),\s*ptr\(brows \+ 1, 0\)\s*(?=\{)')
CTOR_CUT = Cut(
    BCRS, CTOR_ANCHOR,
    rules=member_rules(fields=['nrows', 'ncols', 'brows', 'bcols', 'ptr', 'col', 'val']) + row_iter_rules('+', '+', '+') + vector_rules(0, 1) + [
        Rule(r'(self->\w+)\.back\(\)', r'\1[\1_n - 1]', '+', why='R-vector back()'),
        Rule(r'std_partial_sum\((\S+)\.begin\(\), \1\.end\(\), \1\.begin\(\)\)', r'std_partial_sum_P(\1, \1 + \1_n, \1)', 1, why='R-vector: partial_sum over the whole vector'),
        Rule(r'self->(\w+)\.resize\(([^;,]+), ([^;,()]+)\);', r'BVEC_RESIZE(self, \1, \2, \3);', None, why='R-vector resize(n, v)'),
        Rule(r'self->(\w+)\.resize\(([^;,]+)\);', r'BVEC_RESIZE(self, \1, \2, 0);', None, why='R-vector resize(n): new cells value-initialised'),
        Rule(r'std_fill\((\w+)\.begin\(\), \1\.end\(\), ', r'STD_FILL_ALL(\1, ', None, why='R-vector std::fill over the whole vector'),
        IdxRule(r'marker', 'marker_n', '+'),
        IdxRule(r'self->ptr', 'self->ptr_n', '+'), IdxRule(r'self->col', 'self->col_n', '+'), IdxRule(r'self->val', 'self->val_n', '+'),
        IdxRule(r'A\.ptr', 'A.nrows + 1', '+'), IdxRule(r'A\.col|A\.val', 'A.ptr[A.nrows]', '+'),
    ])

CTOR_PRELUDE = r"""
#define CAP_OF_marker (BRMAX + 1)
#define STD_VECTOR(T, name, n, init) \
  size_t name##_n = (size_t)(n); \
  T name[CAP_OF_##name]; \
  if (name##_n > CAP_OF_##name) g_cap_exceeded = 1; \
  for (size_t i_ = 0; i_ < CAP_OF_##name; ++i_) if (i_ < name##_n) name[i_] = (init)
#define STD_FILL_ALL(name, x) for (size_t i_ = 0; i_ < CAP_OF_##name; ++i_) if (i_ < name##_n) name[i_] = (x)
/* value-initialisation / fill value of a resize: the literal converted to the element type */
#define ELT_col(v) ((col_type)(v))
#define ELT_val(v) ((val_type)UF_CONST(v))
#define CAPLEN_col CAP_NB
#define CAPLEN_val CAP_BV
/* std::vector<T>::resize(n, v): cells from the old size up to n := v */
#define BVEC_RESIZE(self, M, n, v) do { size_t n_ = (size_t)(n); if (n_ > CAPLEN_##M) g_cap_exceeded = 1; \
  for (size_t k_ = 0; k_ < CAPLEN_##M; ++k_) if (k_ >= (self)->M##_n && k_ < n_) (self)->M[k_] = ELT_##M(v); \
  (self)->M##_n = n_; } while (0)
/* narrow symbolic CRS input (sizes / pointers / columns from 3-bit values, values opaque tokens) */
static crs *crs_input_narrow3(void)
{
  crs *a = crs_input();
  a->nrows = nondet_uchar() & 7; a->ncols = nondet_uchar() & 7; a->nnz = nondet_uchar() & 7;
  for (size_t i = 0; i < CAP_PTR; ++i) a->ptr[i] = nondet_uchar() & 7;
  for (size_t j = 0; j < CAP_NNZ; ++j) a->col[j] = nondet_uchar() & 7;
  return a;
}
static _Bool crs_nodup3(const crs *A)
{
  for (size_t i = 0; i < NMAX; ++i) for (size_t j = 0; j < NMAX; ++j)
    if (i < A->nrows && j < A->ncols && count_in_row(A, i, j) > 1) return 0;
  return 1;
}
/* template <class Matrix> bcrs<V,C,P>::bcrs(const Matrix &A, size_t block_size) */
void f_bcrs_ctor(bcrs *self, const crs *A_p, size_t block_size)
{
#define A (*A_p)
  /* member initialiser list (part of the anchored signature):
   *   block_size(block_size), nrows(rows(A)), ncols(cols(A)), brows((nrows + block_size - 1) / block_size),
   *   bcols((ncols + block_size - 1) / block_size), ptr(brows + 1, 0); col, val empty                        */
  self->block_size = block_size; self->nrows = rows(A); self->ncols = cols(A);
  self->brows = (self->nrows + block_size - 1) / block_size;
  self->bcols = (self->ncols + block_size - 1) / block_size;
  self->ptr = (ptr_type *)malloc(sizeof(ptr_type) * CAP_BP); self->ptr_n = self->brows + 1;
  if (self->ptr_n > CAP_BP) g_cap_exceeded = 1;
  for (size_t i = 0; i < CAP_BP; ++i) if (i < self->ptr_n) self->ptr[i] = 0;
  self->col = (col_type *)malloc(sizeof(col_type) * CAP_NB); self->col_n = 0;      /* storage beyond the logical length: any content */
  self->val = (val_type *)malloc(sizeof(val_type) * CAP_BV); self->val_n = 0;
/*@CUT:ctor@*/
#undef A
}
/* row of stored entry k of A */
static size_t row_of(const crs *A, size_t k)
{
  size_t i = 0;
  for (size_t q = 0; q < NMAX; ++q) if (q < A->nrows && (ptrdiff_t)k >= A->ptr[q + 1]) i = q + 1;
  return i;
}
/* the stored entry (i, j) of A (A has no duplicates), or V(0); *found says which */
static V entry_at(const crs *A, size_t i, size_t j, _Bool *found)
{
  V v = UF_CONST(0); *found = 0;
  if (i < A->nrows)
    for (size_t k = 0; k < CAP_NNZ; ++k)
      if ((ptrdiff_t)k >= A->ptr[i] && (ptrdiff_t)k < A->ptr[i + 1] && (size_t)A->col[k] == j) { v = A->val[k]; *found = 1; }
  return v;
}
static _Bool bcrs_no_dup_blocks(const bcrs *B)
{
  for (size_t ib = 0; ib < BRMAX; ++ib) if (ib < B->brows)
    for (size_t j = 0; j < CAP_NB; ++j) for (size_t k = 0; k < j; ++k)
      if ((ptrdiff_t)k >= B->ptr[ib] && (ptrdiff_t)j < B->ptr[ib + 1]) { if (B->col[j] == B->col[k]) return 0; }
  return 1;
}
/* block (ib, cb) is stored iff some entry of A lies in it */
static _Bool post_block_pattern(const crs *A, const bcrs *B)
{
  for (size_t ib = 0; ib < BRMAX; ++ib) for (size_t cb = 0; cb < BRMAX; ++cb) if (ib < B->brows && cb < B->bcols) {
    _Bool stored = 0, any = 0;
    for (size_t j = 0; j < CAP_NB; ++j) if ((ptrdiff_t)j >= B->ptr[ib] && (ptrdiff_t)j < B->ptr[ib + 1] && (size_t)B->col[j] == cb) stored = 1;
    for (size_t k = 0; k < CAP_NNZ; ++k) if (k < (size_t)A->ptr[A->nrows]) {
      size_t i = row_of(A, k), c = (size_t)A->col[k];
      if (i >= ib * BS && i < (ib + 1) * BS && c >= cb * BS && c < (cb + 1) * BS) any = 1;
    }
    if (stored != any) return 0;
  }
  return 1;
}
/* every cell (r, c) of every stored block holds A(ib*b + r, col*b + c) if that entry is stored, V(0) otherwise
 * (also the padding cells of a partial last block row / column)                                                */
static _Bool post_block_values(const crs *A, const bcrs *B)
{
  for (size_t ib = 0; ib < BRMAX; ++ib) if (ib < B->brows)
    for (size_t j = 0; j < CAP_NB; ++j) if ((ptrdiff_t)j >= B->ptr[ib] && (ptrdiff_t)j < B->ptr[ib + 1])
      for (size_t r = 0; r < BS; ++r) for (size_t c = 0; c < BS; ++c) {
        _Bool found;
        V e = entry_at(A, ib * BS + r, (size_t)B->col[j] * BS + c, &found);
        if (B->val[j * BS * BS + r * BS + c] != e) return 0;
      }
  return 1;
}
"""

H_CTOR = r"""
WITNESS_CRS(A)
/* contract (enforced by the harness below):
 *   requires crs_wf(A), no (i,j) stored twice, block_size = b >= 1
 *   ensures  header (block_size, nrows, ncols, brows = ceil(nrows/b), bcols = ceil(ncols/b)); ptr monotone from 0, block columns in range,
 *            b*b values per block; no block column twice in a block row; block (ib,cb) stored iff A has an entry in it;
 *            every cell of every stored block == the entry of A at that position, V(0) where A stores none; A not modified */
void h_bcrs_ctor(void)
{
  crs *A = crs_input_narrow3();
  REQUIRES(crs_wf(A, NMAX, NMAX, ZMAX) && crs_nodup3(A));
  MIRROR_CRS(A, A); w_bs = BS;
  crs_snap sn; crs_snapshot(A, &sn);
  bcrs B;
  f_bcrs_ctor(&B, A, BS);
  ENSURES(!g_cap_exceeded, "bound artefact: allocation within verification capacity");
  ENSURES(B.block_size == BS && B.nrows == A->nrows && B.ncols == A->ncols && B.nrows <= B.brows * BS && B.brows * BS < B.nrows + BS
          && B.ncols <= B.bcols * BS && B.bcols * BS < B.ncols + BS, "bcrs ctor: block_size, nrows, ncols copied; brows == ceil(nrows/b), bcols == ceil(ncols/b)");
  ENSURES(bcrs_wf(&B), "bcrs ctor: ptr has brows+1 cells, starts at 0 and is monotone; col has ptr[brows] cells with 0 <= col < bcols; val has b*b cells per stored block");
  ENSURES(!bcrs_wf(&B) || bcrs_no_dup_blocks(&B), "bcrs ctor: no block column is stored twice in a block row");
  ENSURES(!bcrs_wf(&B) || post_block_pattern(A, &B), "bcrs ctor: block (ib, cb) is stored iff A has a stored entry inside it");
  ENSURES(!bcrs_wf(&B) || post_block_values(A, &B), "bcrs ctor: every cell of every stored block holds the entry of A at that position, V(0) where A stores none (zero fill, incl. padding of partial blocks)");
  ENSURES(crs_unchanged(A, &sn), "frame: the input matrix is not modified");
  CANARY("harness.end");
}
"""

def mk_ctor(name, variants, thorough, bound_text, solver=None, timeout=300):
    u = Unit(
        name=name, props=['C07', 'C10'],
        functions=['backend::bcrs<V,C,P>::bcrs(const Matrix&, size_t block_size) (block_crs.hpp)'],
        desc='CRS -> block CRS conversion: header, block pattern (a block is stored iff A has an entry in it, no block twice per block row), '
             'dense block values with zero fill of absent entries and of the padding of partial blocks (shape not divisible by the block size); A untouched; index safety',
        cuts={'ctor': CTOR_CUT},
        template=('#define CXC_IDX_STOP 1\n#define MODEL_UF 1\n#define CXC_UF_T unsigned short\n#define BRMAX ((NMAX + BS - 1) / BS)\n#define NBMAX ZMAX\n'
                  + BOUNDED_PRELUDE + BCRS_PRELUDE + CTOR_PRELUDE + H_CTOR),
        entry='h_bcrs_ctor', mode='unwound', unwind='(ZMAX+1)*BS*BS+2', model='uf',
        variants=variants, thorough_variants=thorough, bound_text=bound_text, solver=solver,
        assumptions=A_BCRS + ['A-uf16: value tokens are 16 bit wide (values are only moved and compared)',
                              'A-iter: backend::row_begin(A,i) / row_iterator on backend::crs is the index loop A.ptr[i]..A.ptr[i+1] (units crs_row_begin / crs_row_iterator_*)',
                              'A-nodup: no (row, column) pair is stored twice in A (the constructor overwrites instead of summing duplicates)'],
        replay='bcrsqr', timeout=timeout,
        witness=['w_A_nrows', 'w_A_ncols', 'w_A_ptr', 'w_A_col', 'w_bs'],
        not_decided=['duplicate entries in A (last one wins in the block, whereas the CRS operator sums them)', 'the OpenMP execution (per-thread marker vectors)'],
    )
    # bodies: block rows x rows of a block x entries of a row (+1 for the exit test); unwinding assertions keep the limits honest
    u.unwindset = [(r'for\(ptr_type ib\b', '(NMAX+BS-1)//BS+1'), (r'for\(size_t k = 0; k < block_size', 'BS+1'), (r'for\(ptrdiff_t a = A\.ptr', 'ZMAX+1')]
    u.replay_asan = True
    return u


# measured (idle machine): b = 2, nnz <= 3: 20 s minisat / 31 s kissat; b = 3, nnz <= 1: 9 s / 23 s; b = 3, nnz <= 2: > 300 s / 64 s
# (the 64-bit divisions / remainders by 3 in the scatter index are what makes b = 3 hard) -> b = 3 with two entries is its own unit on kissat
bcrs_ctor = mk_ctor('bcrs_ctor', [{'BS': 2, 'NMAX': 4, 'ZMAX': 3}, {'BS': 3, 'NMAX': 4, 'ZMAX': 1}],
                    [{'BS': 2, 'NMAX': 4, 'ZMAX': 4}, {'BS': 1, 'NMAX': 3, 'ZMAX': 3}, {'BS': 4, 'NMAX': 5, 'ZMAX': 2}],
                    'block size b = 2: A up to 4 x 4 (any shape incl. 0 and non-multiples of b) with nnz <= 3; b = 3: up to 4 x 4 with nnz <= 1 '
                    '(thorough: b = 2 nnz <= 4, b = 1, b = 4); no duplicate entries, pattern symbolic, values opaque tokens (only moved)')
bcrs_ctor_b3 = mk_ctor('bcrs_ctor_b3', [{'BS': 3, 'NMAX': 4, 'ZMAX': 2}], [{'BS': 3, 'NMAX': 4, 'ZMAX': 3}, {'BS': 3, 'NMAX': 6, 'ZMAX': 2}],
                       'block size b = 3: A up to 4 x 4 (partial second block row / column) with nnz <= 2 (thorough: nnz <= 3; 6 x 6); no duplicate entries, pattern symbolic',
                       solver=['--external-sat-solver', 'kissat'], timeout=600)

# ================================================================================================ detail::inverse
INVH = 'amgcl/detail/inverse.hpp'


class CmpByType(object):
    """comparisons between two identifiers the cut declares with one of `types` -> uninterpreted predicates
    (a < b -> UF_LESS(a,b), a > b -> UF_LESS(b,a), <= / >= -> UF_LE); keyed on the declared type, not on names"""
    early = False

    def __init__(self, types, count='+'):
        self.types = list(types)
        self.count = count
        self.pat = 'CmpByType ' + '|'.join(types)

    def apply(self, text, log, generic=False):
        names = set(re.findall(r'\b(?:%s)\s+(\w+)\s*[=;,]' % '|'.join(self.types), text))
        if not names:
            raise ExtractError('CmpByType: no declaration of type %s' % self.types)
        atom = r'\b(?:%s)\b' % '|'.join(sorted(names))
        fired = []

        def sub(m):
            a, b, op = m.group('a'), m.group('b'), m.group('op')
            fired.append(m.group(0))
            return {'<': 'UF_LESS(%s, %s)' % (a, b), '>': 'UF_LESS(%s, %s)' % (b, a),
                    '<=': 'UF_LE(%s, %s)' % (a, b), '>=': 'UF_LE(%s, %s)' % (b, a)}[op]
        new, n = re.subn(r'(?P<a>%s)\s*(?P<op><=|>=|<|>)\s*(?P<b>%s)' % (atom, atom), sub, text)
        if self.count == '+' and n < 1:
            raise ExtractError('CmpByType fired 0 times')
        log.append({'rule': 'R-cmp comparisons of %s-typed names -> UF_LESS/UF_LE' % '/'.join(self.types), 'fired': n, 'sites': fired})
        return new


INV_CUT = Cut(
    INVH, r'template <typename value_type>\s*static void inverse\(int n, value_type \*A, value_type \*t, int \*p\)\s*(?=\{)',
    rules=NO_COMMENTS + [
        Rule(r'^\s*using mag_type = math::scalar_of<value_type>::type;\n', '', 1, why='scalar_of<V> = V for scalar value types: mag_type is bound by the template'),
        Rule(r'\bassert\(', 'CXC_NDEBUG_ASSERT(', None, why='assert(): NDEBUG semantics (no effect); the asserted condition is a requirement on the input (non-singular block)'),
        Rule(r'\b(value_type|mag_type) (\w+) = \(([^()?;]+)\) \? ([^:;?]+) : ([^;?]+);', r'\1 \2; if (\3) \2 = \4; else \2 = \5;', None,
             why='conditional initialiser spelled out as if / else (same meaning)'),
        COMPOUND,
        CmpByType(['mag_type']),
        IdxRule(r'A|t', '(size_t)(n * n)', '+'), IdxRule(r'p', '(size_t)n', '+'),
    ],
    uf=[UFByType(['value_type', 'mag_type'], lvalues=[r'\b(?:A|t)\[[^;=]*\]'])])

H_INV = r"""
typedef V mag_type;
#define CXC_NDEBUG_ASSERT(c) ((void)0)
/* A-order: magnitudes (math::norm of a scalar, a real number) are totally ordered: the comparisons of mag_type values are
 * comparisons of an uninterpreted integer rank of the token (without a total order "the largest candidate" has no meaning) */
unsigned short __CPROVER_uninterpreted_mag_rank(V);
/* ... and non-negative: math::zero<mag_type>() has the smallest rank */
#define MAG_RANK(v) ((V)(v) == MATH_zero(mag_type) ? 0 : 1 + (int)__CPROVER_uninterpreted_mag_rank((V)(v)))
#undef UF_LESS
#undef UF_LE
#define UF_LESS(a, b) (MAG_RANK(a) < MAG_RANK(b))
#define UF_LE(a, b) (MAG_RANK(a) <= MAG_RANK(b))
/* ghost observation at the one std::swap of inverse(): swap(p[col], p[pivot_i]) selects the pivot row of column col.
 * Partial pivoting (what makes A * inv(A) = I hold to rounding for every nonsingular block): the row selected has the LARGEST
 * magnitude in that column among the candidate rows p[col .. n).  Written over the parameters (A, n, p) and the two operands only. */
#define PIVOT_IS_MAX(a, b) do { \
    const int c_ = (int)(&(a) - p); const V pm_ = math_norm(A[(size_t)(b) * (size_t)n + (size_t)c_]); \
    for (int q_ = 0; q_ < NMAX; ++q_) if (q_ >= c_ && q_ < n) \
      __CPROVER_assert(!UF_LESS(pm_, math_norm(A[(size_t)p[q_] * (size_t)n + (size_t)c_])), \
        "ensures: detail::inverse partial pivoting: the pivot row selected for a column has the largest magnitude among the candidate rows p[col .. n)"); \
  } while (0)
#define std_swap(a, b) do { PIVOT_IS_MAX(a, b); int t_ = (a); (a) = (b); (b) = t_; } while (0)
/* std::iota(first, last, v) on ints */
static void std_iota(int *first, int *last, int v)
{
  ptrdiff_t n = last - first;
  for (ptrdiff_t i = 0; i < NMAX + 1; ++i) if (i < n) first[i] = v + (int)i;
}
/* static void detail::inverse(int n, value_type *A, value_type *t, int *p) */
void f_inverse(int n, V *A, V *t, int *p)
{
/*@CUT:inverse@*/
}
int w_n;
/* contract (enforced by the harness below), DATA FLOW + safety:
 *   requires 1 <= n <= NMAX; A, t have n*n cells, p has n cells; t and p enter with ARBITRARY content (workspace)
 *   assigns  A (result), t, p
 *   ensures  every cell of A is a function of (n, A) only: two executions that differ in the prior content of the workspace t and p
 *            agree on A in every cell (no read of a workspace cell before it is written in this call);
 *            every subscript of A, t within n*n and of p within n                                                           */
void h_inverse(void)
{
  int n = INV_N;
  __CPROVER_assert(n >= 1 && n <= NMAX, "bound artefact: variant size within the capacity");
  size_t nn = (size_t)(n * n);
  V A1[CAPA], A2[CAPA], t1[CAPA], t2[CAPA];
  int p1[NMAX + 1], p2[NMAX + 1];
  for (size_t k = 0; k < CAPA; ++k) A2[k] = A1[k];
  w_n = n;
  ext_reset(); ext_add(A1, &nn); ext_add(t1, &nn);
  f_inverse(n, A1, t1, p1);
  ext_reset(); ext_add(A2, &nn); ext_add(t2, &nn);
  f_inverse(n, A2, t2, p2);
  _Bool same = 1, frame = 1;
  for (size_t k = 0; k < CAPA; ++k) { if (k < nn) { if (A1[k] != A2[k]) same = 0; } }
  ENSURES(same, "detail::inverse: every cell of the result is a function of (n, A) only (no read of uninitialised memory: independent of the prior content of the workspace t and p)");
  CANARY("harness.end");
}
"""

dense_inverse = Unit(
    name='dense_inverse', props=['C16', 'C10'],
    functions=['detail::inverse(int n, value_type *A, value_type *t, int *p) (detail/inverse.hpp)'],
    desc='pivoted small-matrix inverse, data flow and safety: the result left in A does not depend on the prior content of the workspace t (n*n values) '
         'and p (n ints) -- every workspace cell is written in this call before it is read, for every outcome of the pivot search; every subscript of A, t '
         'within n*n and of p within n; partial pivoting: the pivot row selected for a column has the largest magnitude among the candidate rows',
    cuts={'inverse': INV_CUT},
    template='#define MODEL_UF 1\n#define CXC_UF_T unsigned short\n#include "amgcl_c.h"\n#include <stdlib.h>\nint g_thrown;\n' + QR_PRELUDE + H_INV,
    entry='h_inverse', mode='unwound', unwind='NMAX*NMAX+3', model='uf',
    defines={'NMAX': 3},
    variants=[{'INV_N': 3}, {'INV_N': 2}, {'INV_N': 1}],
    bound_text='n in {1, 2, 3}, values symbolic (uninterpreted operations), every outcome of the pivot comparisons (every row permutation), workspace content arbitrary',
    assumptions=[a for a in A_QR if not a.startswith('A-inst')] + [
        'A-assert: assert(!is_zero(d)) has NDEBUG semantics (no effect); a zero pivot is outside the contract of inverse()',
        'A-order: magnitudes are totally ordered (comparisons of mag_type values = comparisons of an uninterpreted integer rank)'],
    replay='bcrsqr', timeout=300, witness=['w_n'],
    not_decided=['A * inverse(A) == I (needs field arithmetic / floating point)'],
)
dense_inverse.unwindset = [(r'for\s*\(int (?!k_)', 'NMAX+2')]

UNITS = [bcrs_block_prod, bcrs_spmv, bcrs_residual, bcrs_ctor, bcrs_ctor_b3, qr_solve, dense_inverse]
