"""Iterative solvers, part 3 (amgcl/solver/{fgmres,lgmres,idrs,bicgstabl}.hpp, amgcl/make_solver.hpp, circular_buffer of amgcl/util.hpp):
operator()(A, P, rhs, x) bodies under the typestate + ghost contracts of prelude/orch_solvers.h (handle API: Krylov bases are arrays of vectors
of which "elements [0, upto) were written in this call" is tracked; scalar work arrays are tracked by subscript-within-allocation and
written-in-this-call-before-read).  Inductive: no bound on sizes / iterations / restart lengths.  Serves C01 (truthful residual, budget), C15
(workspace enters undefined, zero rhs, converged guess, rhs/A never written), C10 (index safety against the constructor's allocation sizes).

Units:  solver_fgmres, solver_lgmres (with the circular_buffer members cut from util.hpp), solver_idrs + solver_idrs_kloop, solver_bicgstabl +
solver_bicgstabl_bicg + solver_bicgstabl_poly (bodies too large for one CBMC run are split along ONE shared contract text per inner statement:
enforced on the repository text by one unit, used in its place by the other -- classes ReplaceLoopStmt / ReplaceRegion), make_solver_call_matrix,
solver_bicgstabl_refresh (the residual-refresh statement), make_solver_call, make_solver_apply, solver_{fgmres,lgmres,idrs,bicgstabl}_overload3.
CANDIDATE_UNITS (only with VERIF_CANDIDATES=1): solver_bicgstabl_delta -- reports a VIOLATION on the unchanged tree (see the comment there)."""
from cxc.extract import Cut, Rule, UF, Loop, UFArgs, Cmp
from cxc.unit import Unit
from c01_solvers import DROP_IO, SIG4
from c01_solvers2 import (ORCH_H, A_HANDLES, SIDE_RULES, PSPMV_RULE, UF_DECL, UF_TERN, UF_ASSIGN_LV, SIG4G, basis_rules,
                          SCALAR_RULES, GM_SCALAR_ATOM, GM_SC_KEEP, GMRES_MGS, GMRES_ROT, GMRES_BS1, GMRES_BS2, GM_NOT_DECIDED)

KISSAT = ['--external-sat-solver', 'kissat']
# scalar-valued operands of comparisons: the names of c01_solvers2 plus the FGMRES form  (norm_r = norm(<vector>)) < eps
GM3_ATOM = r'(?:\(\w+ = norm\((?:[^()]|\([^()]*\))*\)\)|' + GM_SCALAR_ATOM[3:]
# assignments to any lvalue whose right-hand side contains a binary arithmetic operator -- as UF_ASSIGN_LV of c01_solvers2, but never the
# initialiser of a for header (for(unsigned i = k + 1; ...) is index arithmetic)
UF_ASSIGN_LV3 = UF(r'^(?!\s*for\b)\s*[^;=\n{}]+?\s=\s(?P<e>[^;=?\n]*\s[-+*/]\s[^;=?\n]*);', None)
# rules every GMRES-family body needs after the basis / scalar-array rules
GM_TAIL_RULES = [
    Rule(r'\beps<scalar_type>\((\d+)\)', r'EPS(\1)', None, why='amgcl::detail::eps<T>(n) -> uninterpreted constant'),
    Cmp(GM3_ATOM, '+'),
    Rule(r'\bP\.apply\(', 'P_APPLY(P, ', None, why='member call -> C call'),
    Rule(r'\bstd_make_tuple\(', 'MAKE_RESULT(', '+', why='R-tuple'),
    UFArgs(r'MAKE_RESULT', '+', skip=[0]),
    UFArgs(r'axpby|axpbypcz|spmv|vmul', None),
]

GM_HEAD = r"""
#define ORCH_HANDLES 1
#include "orch_solvers.h"
int g_thrown;
#define EPS1 EPS(1)
#define EARLY(self) (UF_LESS(g_norm_in0, EPS1) && !(self)->prm.ns_search)
#define NRHS(self) (UF_LESS(g_norm_in0, EPS1) ? MATH_identity(V) : g_norm_in0)
#define EPSV(self) UF_MAX(UF_MUL((self)->prm.tol, NRHS(self)), (self)->prm.abstol)
#define RET __CPROVER_return_value
#define OLD(e) __CPROVER_old(e)
"""

# ---------------------------------------------------------------------------- FGMRES
FGMRES_T = GM_HEAD + r"""
typedef struct fgmres_params { unsigned M; unsigned maxiter; V tol; V abstol; _Bool ns_search; _Bool verbose; } fgmres_params;
/* constructor (fgmres.hpp:126-139): H is (M+1) x M; s, cs, sn have M+1 entries; v has M+1 vectors, z has M vectors; r is allocated but never used */
typedef struct fgmres { fgmres_params prm; size_t n; } fgmres;
enum { B_v = 0, B_z = 1 };

result f_fgmres(const fgmres *self, const mat *A_p, const precond *P_p, const vec *rhs_p, vec *x_p)
__CPROVER_requires(__CPROVER_is_fresh(self, sizeof(*self)) && __CPROVER_is_fresh(A_p, sizeof(mat)) && __CPROVER_is_fresh(P_p, sizeof(precond)))
__CPROVER_requires(__CPROVER_is_fresh(rhs_p, sizeof(vec)) && __CPROVER_is_fresh(x_p, sizeof(vec)))
__CPROVER_requires(UF_AXIOMS && self->prm.M >= 1 && self->prm.M <= (1u << 20))
__CPROVER_requires(rhs_p->defined && rhs_p->readonly && x_p->defined && !x_p->readonly && rhs_p->id == 1 && x_p->id == 2)
/* C15: both bases and the scalar arrays hold whatever an earlier call left there (GS_ZERO: nothing written yet) */
__CPROVER_requires(GS_ZERO)
/* allocation sizes of the constructor */
__CPROVER_requires(gs_blen[B_v] == (size_t)self->prm.M + 1 && gs_blen[B_z] == self->prm.M && gs_hdim[0] == (size_t)self->prm.M + 1 && gs_hdim[1] == self->prm.M)
__CPROVER_requires(gs_sclen[SC_s] == (size_t)self->prm.M + 1 && gs_sclen[SC_cs] == (size_t)self->prm.M + 1 && gs_sclen[SC_sn] == (size_t)self->prm.M + 1)
#ifdef VARIANT_CONVERGED_GUESS
/* C15: the initial guess already satisfies the tolerance (the test of the code is norm_r < eps) */
__CPROVER_requires(!EARLY(self) && UF_LESS(g_norm_in1, EPSV(self)))
#endif
__CPROVER_assigns(*x_p, gs)
/* C01: iteration budget */
__CPROVER_ensures(RET.iters <= self->prm.maxiter)
/* C15: zero right-hand side */
__CPROVER_ensures(EARLY(self) ==> (RET.iters == 0 && RET.resid == g_norm_in0 && gs.clear.calls == 1 && gs.clear.id == x_p->id && gs.res.calls == 0 && gs.lc.calls == 0))
/* C01: the number returned is ||v[0]|| / ||rhs|| (last norm evaluated, taken of v[0] in its final state) ... */
__CPROVER_ensures(!EARLY(self) ==> (RET.resid == UF_DIV(gs.norm.val, NRHS(self)) && gs.norm.id == BAS_ID(B_v) && gs.norm.ix == 0 && gs.norm.ver == gs.bas.writes[B_v]
                                    && gs.norm.id0 == rhs_p->id && gs.clear.calls == 0))
/* ... where v[0] was produced by residual(rhs, A, x, v[0]) from the x that is returned (neither written since), on EVERY exit path */
__CPROVER_ensures(!EARLY(self) ==> (gs.res.idf == rhs_p->id && gs.res.idA == A_p->id && gs.res.idx == x_p->id && gs.res.xver == x_p->version
                                    && gs.res.idr == BAS_ID(B_v) && gs.res.ir == 0 && gs.res.rver == gs.bas.writes[B_v]))
/* x is advanced once per restart cycle, directly by lin_comb: x = sum_{i<j} s[i] z[i] + 1 * x, z[i] = P v[i] */
__CPROVER_ensures(!EARLY(self) ==> (x_p->version == OLD(x_p->version) + gs.lc.calls && gs.lc.calls <= RET.iters))
__CPROVER_ensures((!EARLY(self) && gs.lc.calls > 0) ==> (gs.lc.b == B_z && gs.lc.cid == SC_s && gs.lc.n >= 1 && gs.lc.n <= self->prm.M && gs.lc.beta == MATH_identity(V) && gs.lc.idy == x_p->id
                                    && gs.pa.in == BAS_ID(B_v) && gs.pa.out == BAS_ID(B_z) && gs.pa.iin == gs.pa.iout && gs.pa.iout + 1 == gs.lc.n))
/* C01: stopping before the budget is exhausted means the reported residual passed the test */
__CPROVER_ensures((!EARLY(self) && RET.iters < self->prm.maxiter) ==> UF_LESS(gs.norm.val, EPSV(self)))
__CPROVER_ensures((!EARLY(self) && RET.iters == 0 && self->prm.maxiter > 0) ==> UF_LESS(g_norm_in1, EPSV(self)))
#ifdef VARIANT_CONVERGED_GUESS
__CPROVER_ensures(RET.iters == 0 && x_p->version == OLD(x_p->version))
#endif
__CPROVER_ensures(x_p->defined && x_p->id == OLD(x_p->id) && !x_p->readonly)
{
  const fgmres_params prm = self->prm;
  const V g_one = MATH_identity(V);   /* ghost constant: uninterpreted calls are not allowed inside loop invariants */
  const hv x = HV(x_p), rhs = HV((vec *)rhs_p);
  V *const s = &gs.sc.cell, *const cs = &gs.sc.cell, *const sn = &gs.sc.cell, *const Hd = &gs.sc.cell;
#define A (*A_p)
#define P (*P_p)
/*@CUT:body@*/
#undef A
#undef P
}
void h_f_fgmres(void) { const fgmres *self; const mat *A; const precond *P; const vec *rhs; vec *x; f_fgmres(self, A, P, rhs, x); }
"""

FG_LC = """(gs.lc.calls > 0 ==> (gs.lc.b == B_z && gs.lc.cid == SC_s && gs.lc.n >= 1 && gs.lc.n <= prm.M && gs.lc.beta == g_one && gs.lc.idy == 2
                         && gs.pa.in == BAS_ID(B_v) && gs.pa.out == BAS_ID(B_z) && gs.pa.iin == gs.pa.iout && gs.pa.iout + 1 == gs.lc.n))"""
FGMRES_OUTER = r"""
__CPROVER_assigns(iter, norm_r, *x_p, gs)
__CPROVER_loop_invariant(iter <= prm.maxiter && x_p->defined && x_p->id == 2 && !x_p->readonly)
__CPROVER_loop_invariant(gs.norm.calls == (iter == 0 ? 1 : 2))
__CPROVER_loop_invariant(gs.norm.id0 == 1 && gs.clear.calls == 0 && gs.sc.lo[SC_cs] == 0 && gs.sc.lo[SC_sn] == 0)
__CPROVER_loop_invariant(x_p->version == __CPROVER_loop_entry(x_p->version) + gs.lc.calls && gs.lc.calls <= iter)
__CPROVER_loop_invariant(FG_LC)
#ifdef VARIANT_CONVERGED_GUESS
__CPROVER_loop_invariant(iter == 0 && gs.lc.calls == 0)
#endif
""".replace('FG_LC', FG_LC)
FGMRES_INNER = r"""
__CPROVER_assigns(j, iter, gs.bas, gs.ax, gs.sc, gs.dummy, gs.norm, gs.pa, gs.spmv)
__CPROVER_loop_invariant(j < prm.M && iter < prm.maxiter && (j == 0 ? iter == __CPROVER_loop_entry(iter) : iter > __CPROVER_loop_entry(iter)))
__CPROVER_loop_invariant(gs.norm.calls == 2 && gs.norm.id0 == 1)
__CPROVER_loop_invariant(gs.bas.upto[B_v] >= (size_t)j + 1 && gs.bas.upto[B_z] >= j)
__CPROVER_loop_invariant(j > 0 ==> (gs.pa.in == BAS_ID(B_v) && gs.pa.out == BAS_ID(B_z) && gs.pa.iin == gs.pa.iout && gs.pa.iout + 1 == j))
__CPROVER_loop_invariant(GM_SC_KEEP && gs.sc.hi[SC_cs] >= j && gs.sc.hi[SC_sn] >= j)
__CPROVER_decreases(prm.M - j)
""".replace('GM_SC_KEEP', GM_SC_KEEP)
FGMRES_MGS = GMRES_MGS.replace('gs.bas.upto[B_v] >= (size_t)j + 2', 'gs.bas.upto[B_v] >= (size_t)j + 2 && gs.bas.upto[B_z] >= (size_t)j + 1')

FGM_A = ['A-M: prm.M >= 1 (with M == 0 the constructor allocates a single basis vector and no z vector, and operator() subscripts v[1], z[0])']

fgmres = Unit(
    name='solver_fgmres', props=['C01', 'C05', 'C15', 'C10'],
    functions=['solver::fgmres<Backend>::operator()(A, P, rhs, x)'],
    desc='FGMRES(M) solve body: budget; on every exit path the reported residual is the norm of residual(rhs, A, x, v[0]) of the RETURNED x; '
         'x advanced once per restart cycle by lin_comb over the preconditioned basis z (z[i] = P v[i]) with coefficient one on x; '
         'basis vectors v, z and H, s, cs, sn never read before written in this call; all subscripts within the constructor allocation; '
         'zero rhs exit; converged guess returned unchanged; rhs/A never written',
    cuts={'body': Cut('amgcl/solver/fgmres.hpp', SIG4G,
                      rules=DROP_IO + basis_rules('v|z') + SCALAR_RULES + GM_TAIL_RULES,
                      uf=[UF_DECL, UF_ASSIGN_LV],
                      loops=[Loop(r'while\(true\)', FGMRES_OUTER, nth=0, prefix=True),
                             Loop(r'while\(true\)', FGMRES_INNER, nth=1, prefix=True),
                             Loop(r'for\(unsigned k = 0; k <= j', FGMRES_MGS, prefix=True),
                             Loop(r'for\(unsigned k = 0; k < j', GMRES_ROT, prefix=True),
                             Loop(r'for \(unsigned i = j; i --> 0', GMRES_BS1, prefix=True),
                             Loop(r'for \(unsigned k = 0; k < i', GMRES_BS2, prefix=True)])},
    template=FGMRES_T, enforce='f_fgmres', replace=ORCH_H, mode='inductive', obj_bits=12, replay='solvers', timeout=600, solver=KISSAT,
    # cbmc --cover location does finish on this unit (measured once, ~400 s under load: every line of the body reachable) but takes 4x the
    # verification itself; cover='canary' took as long.  Switched off for the routine run; reachability is also shown by the mutants.
    cover=False,
    variants=[{}, {'VARIANT_CONVERGED_GUESS': 1, 'CXC_NOCOVER': 1}],
    assumptions=A_HANDLES + FGM_A,
    not_decided=GM_NOT_DECIDED,
)

# ---------------------------------------------------------------------------- LGMRES
# outer_v is a circular_buffer< shared_ptr<vector> > (amgcl/util.hpp): its member bodies are CUT from util.hpp (cb_* below);
# only the std::vector underneath is a model (A-std): number of entries, capacity, and "every entry points to one of the first
# `bound` vectors of outer_v_data".  ws (array of pointers) is the pseudo-basis B_ws: slot i "assigned in this call" (the vector
# it points to was defined when it was assigned: obligation at the assignment); slot 0 is kept exactly (it is dereferenced).
import cxc.extract as _X
_X.OPAQUE_CALLS.update(['OUTER_V', 'WS_DEREF'])

LGMRES_T = GM_HEAD + r"""
typedef struct lgmres_params { unsigned M; unsigned K; _Bool always_reset; side_type pside; size_t maxiter; V tol; V abstol; _Bool ns_search; _Bool verbose; } lgmres_params;
/* constructor (lgmres.hpp:157-173): M = prm.M + prm.K; H, H0 are (M+1) x M; s, cs, sn have M+1 entries; vs has M+1 vectors; ws has M slots
 * (pointers); outer_v_data has prm.K vectors; outer_v is a circular_buffer of capacity prm.K of pointers into outer_v_data */
typedef struct lgmres { lgmres_params prm; size_t n, M; vec *r; } lgmres;
enum { B_vs = 0, B_ws = 1, B_outer_v_data = 2 };
#define LEFT(self) ((self)->prm.pside == side_left)

/* a data member of this name does not exist in the unchanged code (n_outer is a local of operator() there and shadows this); should the counter become
 * a member, it holds whatever an earlier call left there */
unsigned n_outer;
/* ---- std::vector< shared_ptr<vector> > buf underneath circular_buffer (A-std model) ---- */
struct ov_state { size_t size, cap, start, bound; } ov;
struct ws0_state { int b; size_t i; } ws0;      /* the handle stored in ws[0] */
/* which vector of outer_v_data an entry points to: one of the first ov.bound */
size_t bs_ov_slot(void)
__CPROVER_requires(ov.bound >= 1)
__CPROVER_assigns()
__CPROVER_ensures(__CPROVER_return_value < ov.bound);
static inline void buf_note(hv v)
{
  __CPROVER_assert(v.b == B_outer_v_data && H_DEF(v), "C15 a vector stored in outer_v has been written (in this call; or is one of the defined outer vectors of the always_reset == false exception)");
  if (v.i + 1 > ov.bound) ov.bound = v.i + 1;
}
static inline void buf_push_back(hv v) { __CPROVER_assert(ov.size < ov.cap, "safety. buf.push_back within the reserved capacity"); buf_note(v); ov.size = ov.size + 1; }
static inline void buf_set(size_t pos, hv v) { __CPROVER_assert(pos < ov.size, "safety.idx. circular_buffer slot within size (write)"); buf_note(v); }
static inline hv buf_get(size_t pos) { __CPROVER_assert(pos < ov.size, "safety.idx. circular_buffer slot within size (read)"); return (hv){&gs.dummy, B_outer_v_data, bs_ov_slot()}; }
static inline void buf_clear(void) { ov.size = 0; ov.bound = 0; }
/* ---- circular_buffer<T> members: bodies cut from amgcl/util.hpp ---- */
static inline size_t cb_size(void) {
/*@CUT:cb_size@*/
}
static inline void cb_push_back(hv v) {
/*@CUT:cb_push@*/
}
static inline hv cb_at(size_t i) {
/*@CUT:cb_at@*/
}
static inline void cb_clear(void) {
/*@CUT:cb_clear@*/
}
#define OUTER_V(e) cb_at(e)
/* ---- ws[j] = z  /  *ws[i] ---- */
static inline void ws_set(size_t j, hv z)
{
  __CPROVER_assert(j < gs_blen[B_ws], "safety.idx. ws subscript within the M slots the constructor allocates");
  __CPROVER_assert(H_ISB(z) && H_DEF(z), "C15 the vector a ws slot is pointed to has been written");
  if (j == 0) { ws0.b = z.b; ws0.i = z.i; }
  if (j == gs.bas.upto[B_ws]) gs.bas.upto[B_ws] = j + 1;
}
static inline hv ws_deref(size_t i)
{
  __CPROVER_assert(i < gs_blen[B_ws], "safety.idx. ws subscript within the M slots the constructor allocates");
  __CPROVER_assert(i < gs.bas.upto[B_ws], "C15 a ws slot is assigned in this call before it is dereferenced");
  return i == 0 ? (hv){&gs.dummy, ws0.b, ws0.i} : (hv){&gs.dummy, B_ws, i};
}
#define WS_SET(j, z) ws_set(j, z)
#define WS_DEREF(i) ws_deref(i)
#define OV_WF (ov.cap == prm.K && ov.size <= ov.cap && (ov.start < ov.cap || ov.start == 0) && (ov.size < ov.cap ==> ov.start == 0) && (ov.size > 0 ==> ov.bound >= 1))
/* the update of x is the only axpby into a single vector: x = 1 * dx + 1 * x (left), x = 1 * tmp + 1 * x with tmp = *ws[0] = vs[0] (right) */
#define AXV (gs.ax.vcalls == gs.lc.calls && (gs.ax.vcalls > 0 ==> (gs.ax.vidy == 2 && gs.ax.va == one && gs.ax.vb == one \
             && (prm.pside == side_left ? gs.ax.vidx == 3 : (gs.ax.vidx == BAS_ID(B_vs) && gs.ax.vix == 0)))))

result f_lgmres(const lgmres *self, const mat *A_p, const precond *P_p, const vec *rhs_p, vec *x_p)
__CPROVER_requires(__CPROVER_is_fresh(self, sizeof(*self)) && __CPROVER_is_fresh(A_p, sizeof(mat)) && __CPROVER_is_fresh(P_p, sizeof(precond)))
__CPROVER_requires(__CPROVER_is_fresh(rhs_p, sizeof(vec)) && __CPROVER_is_fresh(x_p, sizeof(vec)) && __CPROVER_is_fresh(self->r, sizeof(vec)))
__CPROVER_requires(UF_AXIOMS && self->prm.M >= 1 && self->prm.M <= (1u << 20) && self->prm.K <= (1u << 20))
/* the iteration counter of the code is `unsigned iter` while prm.maxiter is size_t: beyond UINT_MAX the counter wraps (A-iter) */
__CPROVER_requires(self->prm.maxiter <= 0xFFFFFFFFul)
__CPROVER_requires(self->M == (size_t)self->prm.M + self->prm.K)
__CPROVER_requires(rhs_p->defined && rhs_p->readonly && x_p->defined && !x_p->readonly && rhs_p->id == 1 && x_p->id == 2)
/* C15: r, the basis vs, the pointer array ws and the scalar arrays hold whatever an earlier call left there */
__CPROVER_requires(WS_ENTRY(self->r, 3) && GS_ZERO_NOBAS && BAS_EMPTY(B_vs) && BAS_EMPTY(B_ws) && BAS_EMPTY(3) && gs.ax.vcalls == 0)
/* outer_v: any well-formed circular buffer state (size, start) an earlier call may have left */
__CPROVER_requires(ov.cap == self->prm.K && ov.size <= ov.cap && (ov.start < ov.cap || ov.start == 0) && (ov.size < ov.cap ==> ov.start == 0)
                   && (ov.size > 0 ==> ov.bound >= 1) && ov.bound <= self->prm.K)
/* C15: with always_reset the outer vectors hold whatever an earlier call left there (none is defined);
 * always_reset == false is the DOCUMENTED EXCEPTION: the vectors outer_v points to are required to be defined */
__CPROVER_requires(self->prm.always_reset ? BAS_EMPTY(B_outer_v_data)
                                          : (ov.bound <= gs.bas.upto[B_outer_v_data] && gs.bas.upto[B_outer_v_data] <= self->prm.K))
/* allocation sizes of the constructor */
__CPROVER_requires(gs_blen[B_vs] == self->M + 1 && gs_blen[B_ws] == self->M && gs_blen[B_outer_v_data] == self->prm.K && gs_hdim[0] == self->M + 1 && gs_hdim[1] == self->M)
__CPROVER_requires(gs_sclen[SC_s] == self->M + 1 && gs_sclen[SC_cs] == self->M + 1 && gs_sclen[SC_sn] == self->M + 1)
#ifdef VARIANT_CONVERGED_GUESS
/* C15: the initial guess already satisfies the tolerance (the test of the code is norm_r < eps) */
__CPROVER_requires(!EARLY(self) && UF_LESS(g_norm_in1, EPSV(self)))
#endif
__CPROVER_assigns(*x_p, *self->r, gs, ov, ws0, n_outer)
/* C01: iteration budget */
__CPROVER_ensures(RET.iters <= self->prm.maxiter)
/* C15: zero right-hand side */
__CPROVER_ensures(EARLY(self) ==> (RET.iters == 0 && RET.resid == g_norm_in0 && gs.clear.calls == 1 && gs.clear.id == x_p->id && gs.res.calls == 0 && gs.lc.calls == 0))
/* C15: always_reset: the outer vectors were dropped at entry (at most one is stored per restart cycle of THIS call) */
__CPROVER_ensures(self->prm.always_reset ==> ov.size <= gs.lc.calls)
/* C01: the number returned is ||r|| / ||rhs|| (last norm evaluated, taken of r in its final state) ... */
__CPROVER_ensures(!EARLY(self) ==> (RET.resid == UF_DIV(gs.norm.val, NRHS(self)) && gs.norm.id == self->r->id && gs.norm.ver == self->r->version
                                    && gs.norm.id0 == rhs_p->id && gs.clear.calls == 0))
/* ... where r was produced by residual(rhs, A, x, .) from the x that is returned (x not written since), on EVERY exit path */
__CPROVER_ensures(!EARLY(self) ==> (gs.res.idf == rhs_p->id && gs.res.idA == A_p->id && gs.res.idx == x_p->id && gs.res.xver == x_p->version))
/* right: directly into r; left: into vs[0], then r = P vs[0] with vs[0] not rewritten in between (preconditioned residual) */
__CPROVER_ensures((!EARLY(self) && !LEFT(self)) ==> (gs.res.idr == self->r->id && gs.res.rver == self->r->version))
__CPROVER_ensures((!EARLY(self) && LEFT(self)) ==> (gs.res.idr == BAS_ID(B_vs) && gs.res.ir == 0 && gs.pa.in == BAS_ID(B_vs) && gs.pa.iin == 0 && gs.pa.inver == gs.res.rver
                                    && gs.pa.out == self->r->id && gs.pa.outver == self->r->version))
/* x is advanced once per restart cycle: dx = sum_{i<j} s[i] *ws[i]; x += dx (left) / x += P dx (right, through *ws[0] = vs[0]) */
__CPROVER_ensures(!EARLY(self) ==> (x_p->version == OLD(x_p->version) + gs.lc.calls && gs.lc.calls <= RET.iters && gs.ax.vcalls == gs.lc.calls))
__CPROVER_ensures((!EARLY(self) && gs.lc.calls > 0) ==> (gs.lc.b == B_ws && gs.lc.cid == SC_s && gs.lc.n >= 1 && gs.lc.n <= self->M && gs.lc.beta == MATH_zero(V) && gs.lc.idy == self->r->id
                                    && gs.ax.vidy == x_p->id && gs.ax.va == MATH_identity(V) && gs.ax.vb == MATH_identity(V)
                                    && (LEFT(self) ? gs.ax.vidx == self->r->id
                                                   : (gs.ax.vidx == BAS_ID(B_vs) && gs.ax.vix == 0 && gs.pa.in == self->r->id && gs.pa.out == BAS_ID(B_vs) && gs.pa.iout == 0))))
/* C01: stopping before the budget is exhausted means the reported residual passed the test */
__CPROVER_ensures((!EARLY(self) && RET.iters < self->prm.maxiter) ==> UF_LESS(gs.norm.val, EPSV(self)))
__CPROVER_ensures((!EARLY(self) && RET.iters == 0 && self->prm.maxiter > 0) ==> UF_LESS(g_norm_in1, EPSV(self)))
#ifdef VARIANT_CONVERGED_GUESS
__CPROVER_ensures(RET.iters == 0 && x_p->version == OLD(x_p->version))
#endif
__CPROVER_ensures(x_p->defined && x_p->id == OLD(x_p->id) && !x_p->readonly)
{
  const lgmres_params prm = self->prm;
  const size_t M = self->M;
  hv r_h = HV(self->r); hv *const r = &r_h;
  const hv x = HV(x_p), rhs = HV((vec *)rhs_p);
  V *const s = &gs.sc.cell, *const cs = &gs.sc.cell, *const sn = &gs.sc.cell, *const Hd = &gs.sc.cell, *const H0d = &gs.sc.cell;
#define A (*A_p)
#define P (*P_p)
/*@CUT:body@*/
#undef A
#undef P
}
void h_f_lgmres(void) { const lgmres *self; const mat *A; const precond *P; const vec *rhs; vec *x; f_lgmres(self, A, P, rhs, x); }
"""

LG_SC_KEEP = GM_SC_KEEP.replace('(size_t)prm.M + 1', 'M + 1')
LG_CARRY = "ov.bound <= gs.bas.upto[B_outer_v_data] && (gs.bas.upto[B_outer_v_data] >= n_outer || gs.bas.upto[B_outer_v_data] >= prm.K) && AXV"
LGMRES_OUTER = r"""
__CPROVER_assigns(iter, n_outer, norm_r, *x_p, *self->r, gs, ov, ws0)
__CPROVER_loop_invariant(iter <= prm.maxiter && x_p->defined && x_p->id == 2 && !x_p->readonly && WS_KEEP(self->r, 3))
__CPROVER_loop_invariant(gs.norm.calls == (iter == 0 ? 1 : 2))
__CPROVER_loop_invariant(gs.norm.id0 == 1 && gs.clear.calls == 0 && gs.sc.lo[SC_cs] == 0 && gs.sc.lo[SC_sn] == 0)
__CPROVER_loop_invariant(x_p->version == __CPROVER_loop_entry(x_p->version) + gs.lc.calls && gs.lc.calls <= iter)
__CPROVER_loop_invariant(OV_WF && LG_CARRY && (prm.always_reset ==> ov.size <= gs.lc.calls))
__CPROVER_loop_invariant(gs.lc.calls > 0 ==> (gs.lc.b == B_ws && gs.lc.cid == SC_s && gs.lc.n >= 1 && gs.lc.n <= M && gs.lc.beta == zero && gs.lc.idy == 3
                         && (prm.pside == side_left || (gs.pa.in == 3 && gs.pa.out == BAS_ID(B_vs) && gs.pa.iout == 0))))
#ifdef VARIANT_CONVERGED_GUESS
__CPROVER_loop_invariant(iter == 0 && gs.lc.calls == 0)
#endif
""".replace('LG_CARRY', LG_CARRY)
LGMRES_INNER = r"""
__CPROVER_assigns(j, iter, *self->r, gs.bas, gs.ax, gs.sc, gs.dummy, gs.norm, gs.pa, gs.spmv, gs.pspmv, ws0)
__CPROVER_loop_invariant(j < M && iter < prm.maxiter && (j == 0 ? iter == __CPROVER_loop_entry(iter) : iter > __CPROVER_loop_entry(iter)) && WS_KEEP(self->r, 3))
__CPROVER_loop_invariant(gs.norm.calls == 2 && gs.norm.id0 == 1)
__CPROVER_loop_invariant(gs.bas.upto[B_vs] >= (size_t)j + 1 && gs.bas.upto[B_ws] >= j && LG_CARRY)
__CPROVER_loop_invariant(j > 0 ==> (ws0.b == B_vs && ws0.i == 0))
__CPROVER_loop_invariant(LG_SC_KEEP && gs.sc.hi[SC_cs] >= j && gs.sc.hi[SC_sn] >= j)
__CPROVER_decreases(M - j)
""".replace('LG_SC_KEEP', LG_SC_KEEP).replace('LG_CARRY', LG_CARRY)
def _lg(t):
    return t.replace('(size_t)prm.M + 1', 'M + 1').replace('B_v]', 'B_vs]')
LGMRES_MGS = _lg(GMRES_MGS).replace('gs.bas.upto[B_vs] >= (size_t)j + 2', 'gs.bas.upto[B_vs] >= (size_t)j + 2 && gs.bas.upto[B_ws] >= (size_t)j + 1 && ' + LG_CARRY)

CB_RULES = [
    Rule(r'\bbuf\.size\(\)', 'ov.size', None, why='std::vector::size() of the model'),
    Rule(r'\bbuf\.capacity\(\)', 'ov.cap', None, why='std::vector::capacity() of the model (== the reserved n: A-std)'),
    Rule(r'\bbuf\.push_back\(', 'buf_push_back(', None, why='std::vector::push_back of the model'),
    Rule(r'\bbuf\.clear\(\)', 'buf_clear()', None, why='std::vector::clear of the model'),
    Rule(r'\bbuf\[([^\]]+)\] = (\w+);', r'buf_set(\1, \2);', None, why='element write of the model'),
    Rule(r'\bbuf\[([^\]]+)\]', r'buf_get(\1)', None, why='element read of the model'),
    Rule(r'\bstart\b', 'ov.start', None, why='member -> ghost struct'),
]
UTIL = 'amgcl/util.hpp'
LG_RULES = [
    Rule(r'\bstd_shared_ptr<vector> (\w+);', r'hv \1;', 1, why='shared_ptr<vector> -> handle'),
    Rule(r'\bouter_v\.clear\(\)', 'cb_clear()', None, why='member call -> C call (body cut from util.hpp)'),
    Rule(r'\bouter_v\.size\(\)', 'cb_size()', '+', why='member call -> C call (body cut from util.hpp)'),
    Rule(r'\bouter_v\.push_back\(', 'cb_push_back(', None, why='member call -> C call (body cut from util.hpp)'),
    Rule(r'\bouter_v\[([^\]]+)\]', r'OUTER_V(\1)', '+', why='circular_buffer::operator[] -> C call (body cut from util.hpp)'),
    Rule(r'\*ws\[([^\]]+)\]', r'WS_DEREF(\1)', None, why='dereference of a ws slot -> handle stored there'),
    Rule(r'^(\s*)ws\[([^\]]+)\] = (\w+);', r'\1WS_SET(\2, \3);', None, why='assignment of a ws slot'),
] + basis_rules('vs|outer_v_data') + [
    Rule(r'(?<![\w*])(vs|outer_v_data)\[([^\]]+)\]', r'VREF(B_\1, \2)', None, why='shared_ptr element of an array of vectors -> handle'),
    Rule(r'\*z\b', 'z', '+', why='dereference of a shared_ptr<vector> -> the handle itself'),
]

lgmres = Unit(
    name='solver_lgmres', props=['C01', 'C05', 'C15', 'C10'],
    functions=['solver::lgmres<Backend>::operator()(A, P, rhs, x)', 'circular_buffer<T>::{size, push_back, operator[], clear}'],
    desc='LGMRES(M,K) solve body: budget; on every exit path the reported residual is the norm of residual(rhs, A, x) (left: P applied) of the RETURNED x; '
         'x advanced once per restart cycle (x += dx / x += P dx, dx = lin_comb over ws); always_reset: outer_v cleared at entry and every outer vector read was '
         'written in this call; always_reset == false (documented exception): precondition that the outer vectors are defined; vs, ws, H, s, cs, sn never read '
         'before written in this call; all subscripts (vs, ws, outer_v_data, circular buffer, H, H0, s, cs, sn) within the constructor allocation; zero rhs exit; '
         'converged guess returned unchanged; rhs/A never written',
    cuts={'body': Cut('amgcl/solver/lgmres.hpp', SIG4G,
                      rules=DROP_IO + SIDE_RULES + [PSPMV_RULE] + LG_RULES + SCALAR_RULES + GM_TAIL_RULES,
                      uf=[UF_DECL, UF_ASSIGN_LV],
                      loops=[Loop(r'while\(true\)', LGMRES_OUTER, nth=0, prefix=True),
                             Loop(r'while\(true\)', LGMRES_INNER, nth=1, prefix=True),
                             Loop(r'for\(unsigned k = 0; k <= j', LGMRES_MGS, prefix=True),
                             Loop(r'for\(unsigned k = 0; k < j', _lg(GMRES_ROT), prefix=True),
                             Loop(r'for \(unsigned i = j; i --> 0', _lg(GMRES_BS1), prefix=True),
                             Loop(r'for \(unsigned k = 0; k < i', _lg(GMRES_BS2), prefix=True)]),
          'cb_size': Cut(UTIL, r'circular_buffer\(size_t n\) : start\(0\) \{[^}]*\}\s*size_t size\(\) const\s*(?=\{)', rules=CB_RULES),
          'cb_push': Cut(UTIL, r'void push_back\(const T &v\)\s*(?=\{)', rules=CB_RULES),
          'cb_at': Cut(UTIL, r'(?<!const )T& operator\[\]\(size_t i\)\s*(?=\{)', rules=CB_RULES),
          'cb_clear': Cut(UTIL, r'void clear\(\)\s*(?=\{)', rules=CB_RULES)},
    template=LGMRES_T, enforce='f_lgmres', replace=ORCH_H + ['bs_ov_slot'], mode='inductive', obj_bits=12, replay='solvers', timeout=600,
    # cbmc --cover location: see solver_fgmres (same loop structure, larger body); not run to completion here.  Reachability is shown by the mutants
    # (obligations inside every loop level and inside the circular_buffer members fail when the code is changed there).
    cover=False,
    variants=[{}, {'VARIANT_CONVERGED_GUESS': 1, 'CXC_NOCOVER': 1}],
    assumptions=A_HANDLES + [
        'A-M: prm.M >= 1 (with prm.M == 0 and K == 0 the constructor allocates a single basis vector and operator() subscripts vs[1])',
        'A-std: std::vector::reserve(n) gives capacity() == n exactly (circular_buffer relies on it); buf is modelled by its size, capacity and '
        'the fact that every entry points to one of the first `bound` vectors of outer_v_data',
        'A-iter: prm.maxiter <= UINT_MAX: lgmres.hpp counts iterations in `unsigned iter` against `size_t maxiter`; with a larger budget the counter '
        'wraps to 0 before it reaches maxiter (the budget test never fires and the reported count is taken modulo 2^32) -- needs more than 2^32 iterations, recorded as an observation',
        'A-ws: ws slot i > 0 is an opaque defined vector (aliasing with vs / outer_v_data is kept for slot 0 only, the one that is dereferenced)',
    ],
    not_decided=GM_NOT_DECIDED + ['what LGMRES computes when always_reset == false and outer vectors of an earlier solve are reused (documented exception of C15)'],
)


# ---------------------------------------------------------------------------- IDR(s)
# The body of operator() as one unit needs > 14 GB in CBMC's propositional reduction (measured: 325k SSA steps, 6.1M variables, 11.3M clauses).
# It is therefore verified in two units that share ONE contract text (KLOOP_CONTRACT) for the statement  for(unsigned k = 0; k < prm.s; ++k) {...}
# (the "build G-space" loop):  solver_idrs_kloop ENFORCES that contract on the statement as cut from the repository; solver_idrs verifies the rest of
# the body with the statement replaced by a call that carries the same contract (assume-guarantee, exactly as callee contracts are used everywhere else).
import re as _re
from cxc.extract import match_close as _match_close, ExtractError as _ExtractError
_X.OPAQUE_CALLS.update(['m_rd', 'm_wr'])


class ReplaceLoopStmt(object):
    """early rule: the `for` statement that starts at the unique match of `anchor` (header parentheses and braced body matched, whatever
    they contain) is replaced by `repl`."""
    early = True
    count = 1

    def __init__(self, anchor, repl, why='', nth=None):
        self.pat = anchor
        self.repl = repl
        self.why = why
        self.nth = nth

    def apply(self, text, log, generic=False):
        ms = list(_re.finditer(self.pat, text))
        if self.nth is None and len(ms) != 1:
            raise _ExtractError('ReplaceLoopStmt: %r matches %d times, expected 1' % (self.pat, len(ms)))
        if self.nth is not None and self.nth >= len(ms):
            raise _ExtractError('ReplaceLoopStmt: %r matches only %d times' % (self.pat, len(ms)))
        kw = ms[self.nth or 0].start()
        p = text.index('(', kw)
        e = _match_close(text, p)
        j = e + 1
        while text[j].isspace():
            j += 1
        if text[j] != '{':
            raise _ExtractError('ReplaceLoopStmt: braced body expected after %r' % text[kw:e + 1])
        b = _match_close(text, j)
        log.append({'rule': 'R-stmt ' + self.pat, 'repl': self.repl, 'fired': 1, 'why': self.why,
                    'lines_replaced': text[kw:b + 1].count('\n') + 1})
        return text[:kw] + self.repl + text[b + 1:]


# measured: minisat does not finish either unit in 600 s (one invariant-step obligation of the bi-orthogonalisation loop alone > 300 s), kissat needs 66 s / 132 s
class ReplaceRegion(object):
    """early rule: the text from the first match of `start` up to (excluding) the first later match of `end` is replaced by `repl`."""
    early = True
    count = 1

    def __init__(self, start, end, repl, why=''):
        self.pat = start + ' ... ' + end
        self.start = start
        self.end = end
        self.repl = repl
        self.why = why

    def apply(self, text, log, generic=False):
        m = _re.search(self.start, text)
        if not m:
            raise _ExtractError('ReplaceRegion: start %r not found' % self.start)
        m2 = _re.compile(self.end).search(text, m.end())
        if not m2:
            raise _ExtractError('ReplaceRegion: end %r not found' % self.end)
        log.append({'rule': 'R-region ' + self.pat, 'repl': self.repl, 'fired': 1, 'why': self.why,
                    'lines_replaced': text[m.start():m2.start()].count('\n') + 1})
        return text[:m.start()] + self.repl + '\n' + ' ' * 16 + text[m2.start():]


SIG4I = r'std::tuple<size_t, scalar_type> operator\(\)\(\s*Matrix  const &A,\s*Precond const &Prec,\s*Vec1    const &rhs,\s*Vec2          &x\s*\) const\s*(?=\{)'
IDRS_COMMON = GM_HEAD + r"""
typedef struct idrs_params { unsigned s; V omega; _Bool smoothing; _Bool replacement; unsigned maxiter; V tol; V abstol; _Bool ns_search; _Bool verbose; } idrs_params;
/* constructor (idrs.hpp:173-183): M is s x s; f, c have s entries; G, U, P have s vectors each; r, v, t always; x_s, r_s only with prm.smoothing
 * (null otherwise: modelled as vectors that may be neither read nor written).  P (the shadow space) is filled by the constructor and immutable. */
typedef struct idrs { idrs_params prm; size_t n; vec *r, *v, *t, *x_s, *r_s; } idrs;
enum { B_G = 0, B_U = 1, B_P = 2 };
#define CONV(self) UF_LE(g_norm_in1, EPSV(self))
#define SM(self) ((self)->prm.smoothing)
/* M(i, j): subscripts against the s x s allocation; cells written in row-major order are counted (complete rows gs.sc.hrows + gs.sc.hcols cells
 * of the next row), a cell is read only in a complete row: M is (re)initialised in this call before it is used */
static inline size_t m_wr(size_t i, size_t j)
{
  __CPROVER_assert(i < gs_hdim[0] && j < gs_hdim[1], "safety.idx. M(i,j) within the s x s allocation (write)");
  if (i == gs.sc.hrows && j == gs.sc.hcols) { gs.sc.hcols = j + 1; if (gs.sc.hcols == gs_hdim[1]) { gs.sc.hrows = i + 1; gs.sc.hcols = 0; } }
  return 0;
}
static inline size_t m_rd(size_t i, size_t j)
{
  __CPROVER_assert(i < gs_hdim[0] && j < gs_hdim[1], "safety.idx. M(i,j) within the s x s allocation (read)");
  __CPROVER_assert(i < gs.sc.hrows, "C15 M(i,j) is written in this call before it is read");
  gs.sc.cell = nondet_V();
  return 0;
}
/* entry values of operator() (ghost constants for invariants) */
struct idrs_g0 { unsigned long xv0, rv0, xsv0, rsv0, wP; };
/* allocation sizes of the constructor */
#define ALLOC_IDRS (gs_blen[B_G] == self->prm.s && gs_blen[B_U] == self->prm.s && gs_blen[B_P] == self->prm.s && gs_hdim[0] == self->prm.s && gs_hdim[1] == self->prm.s \
                    && gs_sclen[SC_f] == self->prm.s && gs_sclen[SC_c] == self->prm.s && self->prm.s <= (1u << 20))
#define BAS_KEEP (gs.bas.upto[B_G] >= self->prm.s && gs.bas.upto[B_U] >= self->prm.s && gs.bas.upto[B_P] == self->prm.s && gs.bas.writes[B_P] == g0.wP)
#define SC_KEEP (gs.sc.lo[SC_f] == 0 && gs.sc.lo[SC_c] == 0 && gs.sc.hrows >= self->prm.s)
#define VEC_KEEP0 (x_p->id == 2 && !x_p->readonly && x_p->defined && WS_KEEP(self->r, 3) && WS_KEEP(self->v, 4) && WS_KEEP(self->t, 5) \
                  && self->x_s->id == 6 && self->r_s->id == 7 && self->x_s->readonly == !self->prm.smoothing && self->r_s->readonly == !self->prm.smoothing)
#define VEC_KEEP (VEC_KEEP0 && self->r->defined && (self->prm.smoothing ==> (self->x_s->defined && self->r_s->defined)))
/* state after n update steps: the carried residual r and x have advanced in lockstep (r: one write per step plus the residual() calls; x: one write per
 * step); with smoothing so have r_s and x_s (after their initial copy); the last norm evaluated (RN) is that of the (smoothed) residual in its current state */
/* the last axpby into a single vector after n > 0 steps: without smoothing the update of x, x = a * U[k] + 1 * x (G-space loop) or x = om * v + 1 * x (dimension
 * reduction step); with smoothing the update of the smoothed residual, r_s = -gamma * t + 1 * r_s */
#define XUPD(n, ONE) ((n) > 0 ==> (gs.ax.vb == (ONE) && (self->prm.smoothing ? (gs.ax.vidy == 7 && gs.ax.vidx == 5) \
                                                              : (gs.ax.vidy == 2 && (gs.ax.vidx == BAS_ID(B_U) || gs.ax.vidx == 4)))))
#define RES_KEEP (gs.res.calls >= 1 && (self->prm.replacement || (gs.res.calls == 1 && gs.res.xver == g0.xv0)) \
                  && gs.res.idf == 1 && gs.res.idx == 2 && gs.res.idr == 3 && gs.res.idA == A_p->id)
#define PAIR(n, RN, ONE) (RES_KEEP && gs.res.calls <= (n) + 1 && XUPD(n, ONE) \
                 && x_p->version == g0.xv0 + (n) && self->r->version == g0.rv0 + (n) + gs.res.calls \
                 && (self->prm.smoothing ==> (self->r_s->version == g0.rsv0 + 1 + (n) && self->x_s->version == g0.xsv0 + 1 + (n))) \
                 && gs.norm.id0 == 1 && gs.norm.calls == 2 && (RN) == gs.norm.val \
                 && ((self->prm.smoothing && (n) > 0) ? (gs.norm.id == 7 && gs.norm.ver == self->r_s->version) : (gs.norm.id == 3 && gs.norm.ver == self->r->version)) \
                 && ((n) == 0 ==> (RN) == g_norm_in1))

/* ---- contract of the statement  for(unsigned k = 0; k < prm.s; ++k) { ... }  of operator() (ENFORCED by unit solver_idrs_kloop) ----
 * in: the locals iter, res_norm, om, eps of operator();  out: the new values of iter and res_norm;  a breakdown throws (g_thrown) */
typedef struct kret { size_t iter; V res_norm; } kret;
#define KRET __CPROVER_return_value
#define KLOOP_CONTRACT \
__CPROVER_requires(UF_AXIOMS && ALLOC_IDRS && g_thrown == 0 && iter_in < self->prm.maxiter) \
__CPROVER_requires(VEC_KEEP && BAS_KEEP && SC_KEEP && gs.sc.hi[SC_f] >= self->prm.s && PAIR(iter_in, res_norm_in, MATH_identity(V))) \
__CPROVER_assigns(*x_p, g_thrown, *self->r, *self->v, *self->t, *self->x_s, *self->r_s, gs) \
__CPROVER_ensures(VEC_KEEP0 && BAS_KEEP && RES_KEEP) \
__CPROVER_ensures(g_thrown ==> self->prm.s > 0) \
__CPROVER_ensures(!g_thrown ==> (KRET.iter <= self->prm.maxiter && VEC_KEEP && SC_KEEP)) \
/* one x / r update per pass, each counted -- but the pass that meets the tolerance is not counted */ \
__CPROVER_ensures(!g_thrown ==> (PAIR(KRET.iter, KRET.res_norm, MATH_identity(V)) || (PAIR(KRET.iter + 1, KRET.res_norm, MATH_identity(V)) && UF_LE(KRET.res_norm, eps) && KRET.iter < self->prm.maxiter)))
"""

IDRS_T = IDRS_COMMON + r"""
kret f_kloop(const idrs *self, const mat *A_p, const precond *P_p, vec *x_p, V om, V eps, size_t iter_in, V res_norm_in, struct idrs_g0 g0)
KLOOP_CONTRACT;

/* omega(t, s): body cut from idrs.hpp (private member) */
static V f_omega(const idrs_params prm, hv t, hv s)
{
/*@CUT:omega@*/
}

result f_idrs(const idrs *self, const mat *A_p, const precond *P_p, const vec *rhs_p, vec *x_p)
__CPROVER_requires(__CPROVER_is_fresh(self, sizeof(*self)) && __CPROVER_is_fresh(A_p, sizeof(mat)) && __CPROVER_is_fresh(P_p, sizeof(precond)))
__CPROVER_requires(__CPROVER_is_fresh(rhs_p, sizeof(vec)) && __CPROVER_is_fresh(x_p, sizeof(vec)))
__CPROVER_requires(__CPROVER_is_fresh(self->r, sizeof(vec)) && __CPROVER_is_fresh(self->v, sizeof(vec)) && __CPROVER_is_fresh(self->t, sizeof(vec)))
__CPROVER_requires(__CPROVER_is_fresh(self->x_s, sizeof(vec)) && __CPROVER_is_fresh(self->r_s, sizeof(vec)))
__CPROVER_requires(UF_AXIOMS && g_thrown == 0)
__CPROVER_requires(rhs_p->defined && rhs_p->readonly && x_p->defined && !x_p->readonly && rhs_p->id == 1 && x_p->id == 2)
/* C15: r, v, t, x_s, r_s, the G and U spaces and M, f, c hold whatever an earlier call (diverged, NaN, thrown) left there */
__CPROVER_requires(WS_ENTRY(self->r, 3) && WS_ENTRY(self->v, 4) && WS_ENTRY(self->t, 5))
__CPROVER_requires(!self->x_s->defined && !self->r_s->defined && self->x_s->id == 6 && self->r_s->id == 7)
/* x_s, r_s exist only with smoothing: otherwise any read or write of them is an error */
__CPROVER_requires(self->x_s->readonly == !self->prm.smoothing && self->r_s->readonly == !self->prm.smoothing)
__CPROVER_requires(GS_ZERO_NOBAS && BAS_EMPTY(B_G) && BAS_EMPTY(B_U) && BAS_EMPTY(3))
/* the shadow space P is set up by the constructor (input of every call) */
__CPROVER_requires(gs.bas.upto[B_P] == self->prm.s)
__CPROVER_requires(ALLOC_IDRS)
#ifdef VARIANT_CONVERGED_GUESS
/* C15: the initial guess already satisfies the tolerance (the test of the code is res_norm <= eps) */
__CPROVER_requires(!EARLY(self) && CONV(self))
#endif
__CPROVER_assigns(*x_p, g_thrown, *self->r, *self->v, *self->t, *self->x_s, *self->r_s, gs)
/* C01: iteration budget (also when a breakdown is thrown) */
__CPROVER_ensures(RET.iters <= self->prm.maxiter)
/* C15: zero right-hand side */
__CPROVER_ensures(EARLY(self) ==> (!g_thrown && RET.iters == 0 && RET.resid == g_norm_in0 && gs.clear.calls == 1 && gs.clear.id == x_p->id && gs.res.calls == 0))
/* C01: the number returned is (last norm evaluated) / ||rhs|| */
__CPROVER_ensures((!EARLY(self) && !g_thrown) ==> (RET.resid == UF_DIV(gs.norm.val, NRHS(self)) && gs.norm.id0 == rhs_p->id))
/* C01: the carried residual starts as residual(rhs, A, x, r) of the initial guess; it is recomputed from (rhs, A, x) only with prm.replacement */
__CPROVER_ensures(!EARLY(self) ==> (gs.res.calls >= 1 && (self->prm.replacement || gs.res.calls == 1) && gs.res.idf == rhs_p->id && gs.res.idA == A_p->id
                                    && gs.res.idx == x_p->id && gs.res.idr == self->r->id))
__CPROVER_ensures((!EARLY(self) && !self->prm.replacement) ==> gs.res.xver == OLD(x_p->version))
/* C01: n update steps were made, n = the count returned -- or one more when the last step met the tolerance (the code does not count that step): every update
 * of x is paired with one update of the carried residual r (x, r: one write per step, plus residual() calls for r and the final copy(x_s, x) with smoothing;
 * x_s, r_s: the initial copy and one write per step); the norm reported was taken of r -- with smoothing, once a step has been made, of r_s -- in its final state */
#define DONE(n) (self->r->version == OLD(self->r->version) + (n) + gs.res.calls \
                 && x_p->version == OLD(x_p->version) + (n) + ((SM(self) && !CONV(self)) ? 1 : 0) \
                 && ((SM(self) && !CONV(self)) ==> (self->x_s->version == OLD(self->x_s->version) + 1 + (n) && self->r_s->version == OLD(self->r_s->version) + 1 + (n) \
                                                     && gs.copy.idx == self->x_s->id && gs.copy.idy == x_p->id && gs.copy.yver == x_p->version)) \
                 && ((SM(self) && (n) > 0) ? (gs.norm.id == self->r_s->id && gs.norm.ver == self->r_s->version) : (gs.norm.id == self->r->id && gs.norm.ver == self->r->version)) \
                 && XUPD(n, MATH_identity(V)))
__CPROVER_ensures((!EARLY(self) && !g_thrown) ==> (DONE(RET.iters) || (DONE(RET.iters + 1) && UF_LE(gs.norm.val, EPSV(self)) && RET.iters < self->prm.maxiter)))
/* C01: stopping before the budget is exhausted means the reported residual passed the test (res_norm <= eps, or the negation of res_norm > eps) */
__CPROVER_ensures((!EARLY(self) && !g_thrown && RET.iters < self->prm.maxiter) ==> (UF_LE(gs.norm.val, EPSV(self)) || !UF_LESS(EPSV(self), gs.norm.val)))
/* C15: converged initial guess: nothing but the residual and its norm is computed */
__CPROVER_ensures((!EARLY(self) && CONV(self)) ==> (!g_thrown && RET.iters == 0 && x_p->version == OLD(x_p->version) && RET.resid == UF_DIV(g_norm_in1, NRHS(self))
                                    && gs.bas.writes[B_G] == OLD(gs.bas.writes[B_G]) && gs.pa.calls == 0))
#ifdef VARIANT_CONVERGED_GUESS
__CPROVER_ensures(!g_thrown && RET.iters == 0 && x_p->version == OLD(x_p->version))
#endif
/* a thrown breakdown leaves x defined; rhs and A are in no assigns clause; the shadow space P is never written */
__CPROVER_ensures(x_p->defined && x_p->id == OLD(x_p->id) && !x_p->readonly && gs.bas.writes[B_P] == OLD(gs.bas.writes[B_P]))
/* a breakdown is reported only after the re-initialisation */
__CPROVER_ensures(g_thrown ==> (!EARLY(self) && !CONV(self) && gs.bas.upto[B_G] >= self->prm.s && gs.bas.upto[B_U] >= self->prm.s))
{
  const idrs_params prm = self->prm;
  hv r_h = HV(self->r), v_h = HV(self->v), t_h = HV(self->t), x_s_h = HV(self->x_s), r_s_h = HV(self->r_s);
  hv *const r = &r_h, *const v = &v_h, *const t = &t_h, *const x_s = &x_s_h, *const r_s = &r_s_h;
  const hv x = HV(x_p), rhs = HV((vec *)rhs_p);
  V *const f = &gs.sc.cell, *const c = &gs.sc.cell, *const Md = &gs.sc.cell;
  /* ghost constants (entry values) for the loop invariants */
  const struct idrs_g0 g0 = { x_p->version, self->r->version, self->x_s->version, self->r_s->version, gs.bas.writes[B_P] };
#define A (*A_p)
#define Prec (*P_p)
/*@CUT:body@*/
#undef A
#undef Prec
}
void h_f_idrs(void) { const idrs *self; const mat *A; const precond *P; const vec *rhs; vec *x; f_idrs(self, A, P, rhs, x); }
"""

ID_INIT_I = r"""
__CPROVER_assigns(i, gs.bas, gs.clear, gs.sc, gs.dummy)
__CPROVER_loop_invariant(i <= prm.s && gs.bas.upto[B_G] >= i && gs.bas.upto[B_U] >= i && gs.bas.upto[B_P] == prm.s && gs.bas.writes[B_P] == g0.wP)
__CPROVER_loop_invariant(gs.sc.hrows == i && gs.sc.hcols == 0 && SC_EMPTY(SC_f) && SC_EMPTY(SC_c))
__CPROVER_decreases(prm.s - i)
"""
ID_INIT_J = r"""
__CPROVER_assigns(j, gs.sc)
__CPROVER_loop_invariant(j <= prm.s && i < prm.s && SC_EMPTY(SC_f) && SC_EMPTY(SC_c))
__CPROVER_loop_invariant(j < prm.s ? (gs.sc.hrows == i && gs.sc.hcols == j) : (gs.sc.hrows == (size_t)i + 1 && gs.sc.hcols == 0))
__CPROVER_decreases(prm.s - j)
"""
ID_MAIN = r"""
__CPROVER_assigns(iter, res_norm, om, g_thrown, *x_p, *self->r, *self->v, *self->t, *self->x_s, *self->r_s, gs)
__CPROVER_loop_invariant(iter <= prm.maxiter && g_thrown == 0 && VEC_KEEP && BAS_KEEP && SC_KEEP && PAIR(iter, res_norm, one))
"""
ID_F = r"""
__CPROVER_assigns(i, gs.sc)
__CPROVER_loop_invariant(i <= prm.s && SC_KEEP && gs.sc.hi[SC_f] >= i)
__CPROVER_decreases(prm.s - i)
"""
ID_CI = r"""
__CPROVER_assigns(i, *self->v, gs.sc, gs.ax, gs.bas, gs.dummy)
__CPROVER_loop_invariant(k <= i && i <= prm.s && k < prm.s && WS_KEEP(self->v, 4) && self->v->defined && BAS_KEEP && SC_KEEP)
__CPROVER_loop_invariant(gs.sc.hi[SC_f] >= prm.s && gs.sc.hi[SC_c] >= i)
__CPROVER_decreases(prm.s - i)
"""
ID_CJ = r"""
__CPROVER_assigns(j, gs.sc)
__CPROVER_loop_invariant(k <= j && j <= i && i < prm.s && SC_KEEP && gs.sc.hi[SC_f] >= prm.s && gs.sc.hi[SC_c] >= (size_t)i + 1)
__CPROVER_decreases(i - j)
"""
ID_U = r"""
__CPROVER_assigns(i, gs.sc, gs.ax, gs.bas, gs.dummy)
__CPROVER_loop_invariant(k < i && i <= prm.s && k < prm.s && BAS_KEEP && SC_KEEP && gs.sc.hi[SC_f] >= prm.s && gs.sc.hi[SC_c] >= prm.s)
__CPROVER_decreases(prm.s - i)
"""
ID_BI = r"""
__CPROVER_assigns(i, gs.sc, gs.ax, gs.bas, gs.dummy)
__CPROVER_loop_invariant(i <= k && k < prm.s && BAS_KEEP && SC_KEEP && gs.sc.hi[SC_f] >= prm.s && gs.sc.hi[SC_c] >= prm.s)
__CPROVER_decreases(k - i)
"""
ID_MK = r"""
__CPROVER_assigns(i, gs.sc)
__CPROVER_loop_invariant(k <= i && i <= prm.s && k < prm.s && SC_KEEP && gs.sc.hi[SC_f] >= prm.s && gs.sc.hi[SC_c] >= prm.s)
__CPROVER_decreases(prm.s - i)
"""
ID_FU = r"""
__CPROVER_assigns(i, gs.sc)
__CPROVER_loop_invariant(k < i && i <= prm.s && k < prm.s && SC_KEEP && gs.sc.hi[SC_f] >= prm.s && gs.sc.hi[SC_c] >= prm.s)
__CPROVER_decreases(prm.s - i)
"""

ID_ATOM = r'(?:\b(?:norm_rhs|eps|res_norm|rho|prm\.omega|EPS\(\d+\))(?!\w))'
COMPOUND = Rule(r'^(\s*)([^\s;=][^;=\n]*?)\s*([-+*/])=\s*([^;\n]+);', r'\1\2 = \2 \3 (\4);', None, why='compound assignment expanded')
ID_SC_RULES = [
    COMPOUND,
    Rule(r'\bM\(([^()]*)\)\s*=(?!=)', r'Md[m_wr(\1)] =', None, why='M(i,j) = .. is a write (index + row-major progress ghost)'),
    Rule(r'\bM\(([^()]*)\)', r'Md[m_rd(\1)]', None, why='M(i,j) read (index + written-before-read)'),
    Rule(r'\b(f|c)\[(?!sc_)([^\]]+)\]\s*=(?!=)', r'\1[sc_wr(SC_\1, \2)] =', None, why='a[i] = .. is a write'),
    Rule(r'\b(f|c)\[(?!sc_)([^\]]+)\]', r'\1[sc_rd(SC_\1, \2)]', None, why='a[i] read'),
]
ID_TAIL = [
    Rule(r'\beps<scalar_type>\((\d+)\)', r'EPS(\1)', None, why='amgcl::detail::eps<T>(n) -> uninterpreted constant'),
    Cmp(ID_ATOM, '+'),
    Rule(r'\bPrec\.apply\(', 'P_APPLY(Prec, ', None, why='member call -> C call'),
    Rule(r'(?<![\w.])omega\(', 'f_omega(prm, ', None, why='private member omega(t, s) -> C function (body cut from the same file)'),
    Rule(r'\bstd_make_tuple\(', 'MAKE_RESULT(', None, why='R-tuple'),
    UFArgs(r'MAKE_RESULT', None, skip=[0]),
    UFArgs(r'axpby|axpbypcz|spmv|vmul', None),
]
KLOOP_CALL = ('{ const kret kr_ = f_kloop(self, A_p, P_p, x_p, om, eps, iter, res_norm, g0); iter = kr_.iter; res_norm = kr_.res_norm; '
              'if (g_thrown) return CXC_THROW_RET; }')
ID_NOT_DECIDED = ['that the recursively updated residual r (r_s with smoothing) equals f - A x (f - A x_s) up to rounding (algebraic identity over the reals)',
                  'convergence within the budget; rounding bounded by conditioning; termination within n + n/s iterations (C05)',
                  'the values held by M, f, c (subscripts and written-in-this-call-before-read are tracked; that M is the identity after the re-initialisation is unit idrs_reinit)',
                  'the constructor (random shadow space P and its orthonormalisation)']
ID_ASSUME = A_HANDLES + [
    'A-null: x_s and r_s are null without prm.smoothing; modelled as vectors that may be neither read nor written then',
    'A-P: the shadow space P holds the vectors the constructor put there (defined input of every call)',
    'A-split: the statement for(unsigned k = 0; k < prm.s; ++k) {...} of operator() is under ONE contract text (KLOOP_CONTRACT in units/c01_solvers3.py): '
    'enforced on the statement by unit solver_idrs_kloop, used in its place by unit solver_idrs; the pointer arguments are separate objects in both '
    '(is_fresh preconditions of operator())',
]

idrs = Unit(
    name='solver_idrs', props=['C01', 'C05', 'C15', 'C10'],
    functions=['solver::idrs<Backend>::operator()(A, Prec, rhs, x)', 'solver::idrs<Backend>::omega(t, s)'],
    desc='IDR(s) solve body (smoothing and replacement options included; the G-space loop over k through its contract, see solver_idrs_kloop): budget; reported '
         'residual = norm of the carried residual r (smoothed r_s) in its final state / ||rhs||; x and r (x_s and r_s) advance in lockstep, one update each per step; '
         'returned count = steps, or steps - 1 when the last step met the tolerance; final copy(x_s, x) with smoothing; zero omega throws; r, v, t, x_s, r_s, G, U, M, f '
         'never read before written in this call (G, U cleared, M reset at the start); shadow space P never written; all subscripts within the constructor allocation; '
         'zero rhs exit; converged guess returned unchanged before anything else is touched; rhs/A never written',
    cuts={'body': Cut('amgcl/solver/idrs.hpp', SIG4I,
                      rules=[ReplaceLoopStmt(r'for\(unsigned k = 0;', KLOOP_CALL, why='the G-space loop is used through its contract (enforced by solver_idrs_kloop)'),
                             DROP_IO[0]] + basis_rules('G|U|P') + ID_SC_RULES + ID_TAIL,
                      uf=[UF_DECL, UF_ASSIGN_LV3],
                      loops=[Loop(r'for\(unsigned i = 0;', ID_INIT_I, nth=0, prefix=True),
                             Loop(r'for\(unsigned j = 0;', ID_INIT_J, prefix=True, optional=True),
                             Loop(r'while\(iter', ID_MAIN, prefix=True),
                             Loop(r'for\(unsigned i = 0;', ID_F, nth=1, prefix=True)]),
          'omega': Cut('amgcl/solver/idrs.hpp', r'coef_type omega\(const Vector1 &t, const Vector2 &s\) const\s*(?=\{)',
                       rules=[COMPOUND, Cmp(ID_ATOM, '+')], uf=[UF_DECL, UF_ASSIGN_LV3])},
    template=IDRS_T, enforce='f_idrs', replace=ORCH_H + ['f_kloop'], mode='inductive', obj_bits=12, replay='solvers', timeout=600, solver=KISSAT,
    # cbmc --cover location finishes (measured once, ~320 s under load): every line of the body reachable.  Switched off for the routine run (2x the verification).
    cover=False,
    variants=[{}, {'VARIANT_CONVERGED_GUESS': 1, 'CXC_NOCOVER': 1}],
    assumptions=ID_ASSUME, not_decided=ID_NOT_DECIDED,
)

IDRS_K_T = IDRS_COMMON + r"""
#undef CXC_THROW_RET
#define CXC_THROW_RET ((kret){iter, res_norm})
kret f_kloop(const idrs *self, const mat *A_p, const precond *P_p, vec *x_p, V om, V eps, size_t iter_in, V res_norm_in, struct idrs_g0 g0)
__CPROVER_requires(__CPROVER_is_fresh(self, sizeof(*self)) && __CPROVER_is_fresh(A_p, sizeof(mat)) && __CPROVER_is_fresh(P_p, sizeof(precond)) && __CPROVER_is_fresh(x_p, sizeof(vec)))
__CPROVER_requires(__CPROVER_is_fresh(self->r, sizeof(vec)) && __CPROVER_is_fresh(self->v, sizeof(vec)) && __CPROVER_is_fresh(self->t, sizeof(vec)))
__CPROVER_requires(__CPROVER_is_fresh(self->x_s, sizeof(vec)) && __CPROVER_is_fresh(self->r_s, sizeof(vec)))
KLOOP_CONTRACT
{
  const idrs_params prm = self->prm;
  hv r_h = HV(self->r), v_h = HV(self->v), t_h = HV(self->t), x_s_h = HV(self->x_s), r_s_h = HV(self->r_s);
  hv *const r = &r_h, *const v = &v_h, *const t = &t_h, *const x_s = &x_s_h, *const r_s = &r_s_h;
  const hv x = HV(x_p);
  V *const f = &gs.sc.cell, *const c = &gs.sc.cell, *const Md = &gs.sc.cell;
  size_t iter = iter_in; V res_norm = res_norm_in;   /* the locals of operator() the statement reads and writes */
  const V norm_rhs = nondet_V();                     /* only used by the dropped verbose output */
#define A (*A_p)
#define Prec (*P_p)
/*@CUT:consts@*/
/*@CUT:khead@*/
__CPROVER_assigns(k, iter, res_norm, g_thrown, *x_p, *self->r, *self->v, *self->t, *self->x_s, *self->r_s, gs)
__CPROVER_loop_invariant(k <= prm.s && iter < prm.maxiter && g_thrown == 0 && VEC_KEEP && BAS_KEEP && SC_KEEP && PAIR(iter, res_norm, one))
__CPROVER_loop_invariant(gs.sc.hi[SC_f] >= prm.s && gs.sc.hi[SC_c] >= k)
__CPROVER_decreases(prm.s - k)
  {
/*@CUT:kbody@*/
  }
#undef A
#undef Prec
  return (kret){iter, res_norm};
}
void h_f_kloop(void) { const idrs *self; const mat *A; const precond *P; vec *x; V om, eps, rn; size_t it; struct idrs_g0 g0; f_kloop(self, A, P, x, om, eps, it, rn, g0); }
"""
idrs_k = Unit(
    name='solver_idrs_kloop', props=['C01', 'C15', 'C10'],
    functions=['solver::idrs<Backend>::operator()(A, Prec, rhs, x) -- the statement for(unsigned k = 0; k < prm.s; ++k) {...} (building the G-space)'],
    desc='IDR(s), the G-space loop of operator(): per pass one update of r paired with one update of x (with smoothing one of r_s and x_s), the norm of the (smoothed) '
         'residual re-evaluated after it; the pass that meets the tolerance is not counted, otherwise the count advances by one and never passes maxiter; zero M(k,k) throws '
         'after the preconditioner was applied; v, t, c written before read in every pass; G, U, M, f as (re)initialised by operator(); P only read; all subscripts of '
         'G, U, P, M, f, c within the constructor allocation',
    cuts={'consts': Cut('amgcl/solver/idrs.hpp', r'static const scalar_type one = ', kind='region', end=r'ios_saver', nth=1),
          'khead': Cut('amgcl/solver/idrs.hpp', r'for\(unsigned k = 0;', kind='region', end=r'\{', nth=1),
          'kbody': Cut('amgcl/solver/idrs.hpp', r'for\(unsigned k = 0;[^{]*(?=\{)', nth=1,
                       rules=[DROP_IO[1]] + basis_rules('G|U|P') + ID_SC_RULES + ID_TAIL,
                       uf=[UF_DECL, UF_ASSIGN_LV3],
                       loops=[Loop(r'for\(unsigned i = k;', ID_CI, nth=0, prefix=True),
                              Loop(r'for\(unsigned j = k;', ID_CJ, prefix=True),
                              Loop(r'for\(unsigned i = k\s*\+\s*1;', ID_U, nth=0, prefix=True),
                              Loop(r'for\(unsigned i = 0;', ID_BI, prefix=True),
                              Loop(r'for\(unsigned i = k;', ID_MK, nth=1, prefix=True),
                              Loop(r'for\(unsigned i = k\s*\+\s*1;', ID_FU, nth=1, prefix=True)])},
    template=IDRS_K_T, enforce='f_kloop', replace=ORCH_H, mode='inductive', obj_bits=12, timeout=600, solver=KISSAT,
    # cbmc --cover location finishes (measured once, ~450 s under load): every line of the body reachable.  Switched off for the routine run (too close to the timeout).
    cover=False, loop_contracts=True,
    assumptions=ID_ASSUME, not_decided=ID_NOT_DECIDED,
)

# ---------------------------------------------------------------------------- BiCGStab(L)
# Three units over one body (same reason and same technique as IDR(s)): solver_bicgstabl (operator() with the BiCG loop over j and the polynomial part used
# through their contracts), solver_bicgstabl_bicg (ENFORCES the contract of  for(int j = 0; j < L; ++j) {...}), solver_bicgstabl_poly (ENFORCES the contract of
# the polynomial part: MZa, MZb, Y0, YL, the QR solves, omega).
_X.OPAQUE_CALLS.update(['y_rd', 'y_wr', 'mz_rd', 'mz_wr'])
BL_COMMON = GM_HEAD + r"""
typedef struct bl_params { int L; V delta; _Bool convex; side_type pside; size_t maxiter; V tol; V abstol; _Bool ns_search; _Bool verbose; } bl_params;
/* constructor (bicgstabl.hpp:180-195): Rt, X, B, T single vectors; R, U have L+1 vectors each; MZa, MZb are (L+1) x (L+1); Y0, YL have L+1 entries; L > 0 is
 * checked there (precondition(prm.L > 0)) */
typedef struct bicgstabl { bl_params prm; size_t n; vec *Rt, *X, *B, *T; } bicgstabl;
enum { B_R = 0, B_U = 1 };
#define LEFT(self) ((self)->prm.pside == side_left)
#define LL(self) ((size_t)(self)->prm.L)
#define ALLOC_BL (self->prm.L >= 1 && self->prm.L <= (1 << 20) && gs_blen[B_R] == LL(self) + 1 && gs_blen[B_U] == LL(self) + 1 && gs_hdim[0] == LL(self) + 1 && gs_hdim[1] == LL(self) + 1 \
                  && gs_sclen[SC_Y0] == LL(self) + 1 && gs_sclen[SC_YL] == LL(self) + 1 && self->prm.maxiter <= MAXITER_BOUND)
#define DELTA_ON(self) UF_LESS(UF_CONST(0), (self)->prm.delta)
/* Y0, YL: subscript within the L+1 entries; an entry is read only when the whole array has been written in this call (first entry, the entries
 * 1 .. L-1 in one piece by QR::solve, last entry) */
struct gy_state { _Bool first[2], mid[2], last[2]; } gy;
#define Y_FULL(a) (gy.first[(a) - SC_Y0] && gy.last[(a) - SC_Y0] && (gy.mid[(a) - SC_Y0] || gs_sclen[a] <= 2))
static inline size_t y_wr(int a, size_t i)
{
  __CPROVER_assert((a == SC_Y0 || a == SC_YL) && i < gs_sclen[a], "safety.idx. Y0 / YL subscript within the L+1 entries the constructor allocates (write)");
  if (i == 0) gy.first[a - SC_Y0] = 1;
  if (i + 1 == gs_sclen[a]) gy.last[a - SC_Y0] = 1;
  return 0;
}
static inline size_t y_rd(int a, size_t i)
{
  __CPROVER_assert((a == SC_Y0 || a == SC_YL) && i < gs_sclen[a], "safety.idx. Y0 / YL subscript within the L+1 entries the constructor allocates (read)");
  __CPROVER_assert(Y_FULL(a), "C15 Y0 / YL is completely written in this call before an entry is read");
  gs.sc.cell = nondet_V();
  return 0;
}
static inline void y_need(int a) { __CPROVER_assert((a == SC_Y0 || a == SC_YL) && Y_FULL(a), "C15 the coefficient array of lin_comb is completely written in this call"); }
#undef LIN_COMB2
#define LIN_COMB2(n, cid, coff, b, boff, beta, y) (y_need(cid), bh_lin_comb2(n, cid, coff, b, boff, beta, y))
/* entry values of operator() (ghost constants for invariants) */
struct bl_g0 { unsigned long xv0, Xv0; };
#define BL_VEC_KEEP (x_p->id == 2 && !x_p->readonly && x_p->defined && WS_KEEP(self->Rt, 3) && self->Rt->defined && WS_KEEP(self->X, 4) && self->X->defined \
                     && WS_KEEP(self->B, 5) && self->B->defined && WS_KEEP(self->T, 6))
/* the carried residual started as residual(rhs, A, x, .) of the initial guess (left: preconditioned afterwards) */
#define BL_RES (gs.res.calls == 1 && gs.res.idf == 1 && gs.res.idA == A_p->id && gs.res.idx == 2 && gs.res.xver == g0.xv0 && gs.res.idr == (LEFT(self) ? 6 : 5))
/* the last norm evaluated (Z) is that of R[0], taken after the last write to the basis R */
#define ZETA_R0(Z) ((Z) == gs.norm.val && gs.norm.id == BAS_ID(B_R) && gs.norm.ix == 0 && gs.norm.ver == gs.bas.writes[B_R])

/* ---- contract of the statement  for(int j = 0; j < L; ++j) { ... }  (the BiCG part; ENFORCED by unit solver_bicgstabl_bicg) ----
 * in: the locals rho0, alpha, rnmax_computed, rnmax_true, iter, eps of operator(); out: their new values and zeta; early = the `goto done` exit was taken */
typedef struct jret { V rho0, alpha, zeta, rnmax_computed, rnmax_true; size_t iter; _Bool early; } jret;
#define JRET __CPROVER_return_value
#define BICG_CONTRACT \
__CPROVER_requires(UF_AXIOMS && ALLOC_BL && g_thrown == 0 && iter_in < self->prm.maxiter) \
__CPROVER_requires(BL_VEC_KEEP && BL_RES && gs.bas.upto[B_R] >= 1 && gs.bas.upto[B_U] >= 1 && gs.norm.calls == 2 && gs.norm.id0 == 1) \
__CPROVER_assigns(g_thrown, *self->X, *self->T, gs) \
__CPROVER_ensures(BL_VEC_KEEP && BL_RES && gs.bas.upto[B_R] >= 1 && gs.bas.upto[B_U] >= 1 && gs.norm.calls == 2 && gs.norm.id0 == 1 && gs.clear.calls == OLDV(gs.clear.calls)) \
/* a full pass: L BiCG steps, every vector of R and U written, the count is left to the caller */ \
__CPROVER_ensures((!g_thrown && !JRET.early) ==> (gs.bas.upto[B_R] >= LL(self) + 1 && gs.bas.upto[B_U] >= LL(self) + 1 && JRET.iter == iter_in \
                   && self->X->version == OLDV(self->X->version) + LL(self))) \
/* early exit after step j: the count advances by j + 1 <= L, the norm of R[0] just evaluated is below the tolerance */ \
__CPROVER_ensures((!g_thrown && JRET.early) ==> (JRET.iter > iter_in && JRET.iter - iter_in <= LL(self) && UF_LESS(JRET.zeta, eps) \
                   && self->X->version == OLDV(self->X->version) + (JRET.iter - iter_in))) \
/* every step: X = alpha * U[0] + 1 * X (the last axpby into a single vector), then the residuals R[0..j] are updated and ||R[0]|| is evaluated */ \
__CPROVER_ensures(!g_thrown ==> (ZETA_R0(JRET.zeta) && gs.ax.vidy == 4 && gs.ax.vidx == BAS_ID(B_U) && gs.ax.vix == 0 && gs.ax.vb == MATH_identity(V) && gs.ax.va == JRET.alpha))

/* ---- contract of the polynomial part of operator() (from the first loop over MZa to the zero-omega test; ENFORCED by unit solver_bicgstabl_poly) ----
 * reads R[0..L] (inner products), writes MZa, MZb, Y0, YL and yields omega; a zero omega throws */
typedef struct pret { V omega; } pret;
#define POLY_CONTRACT \
__CPROVER_requires(UF_AXIOMS && ALLOC_BL && g_thrown == 0 && gs.bas.upto[B_R] >= LL(self) + 1) \
__CPROVER_assigns(g_thrown, gs.sc, gy) \
__CPROVER_ensures(!g_thrown ==> Y_FULL(SC_Y0))
"""

BL_T = BL_COMMON + r"""
jret f_bicg(const bicgstabl *self, const mat *A_p, const precond *P_p, const vec *x_p, V rho0_in, V alpha_in, V eps, V rnmax_computed_in, V rnmax_true_in, size_t iter_in, struct bl_g0 g0)
BICG_CONTRACT;
pret f_poly(const bicgstabl *self)
POLY_CONTRACT;

result f_bicgstabl(const bicgstabl *self, const mat *A_p, const precond *P_p, const vec *rhs_p, vec *x_p)
__CPROVER_requires(__CPROVER_is_fresh(self, sizeof(*self)) && __CPROVER_is_fresh(A_p, sizeof(mat)) && __CPROVER_is_fresh(P_p, sizeof(precond)))
__CPROVER_requires(__CPROVER_is_fresh(rhs_p, sizeof(vec)) && __CPROVER_is_fresh(x_p, sizeof(vec)))
__CPROVER_requires(__CPROVER_is_fresh(self->Rt, sizeof(vec)) && __CPROVER_is_fresh(self->X, sizeof(vec)) && __CPROVER_is_fresh(self->B, sizeof(vec)) && __CPROVER_is_fresh(self->T, sizeof(vec)))
__CPROVER_requires(UF_AXIOMS && ALLOC_BL && g_thrown == 0)
__CPROVER_requires(rhs_p->defined && rhs_p->readonly && x_p->defined && !x_p->readonly && rhs_p->id == 1 && x_p->id == 2)
/* C15: Rt, X, B, T, the bases R and U and the scalar arrays hold whatever an earlier call (diverged, NaN, thrown) left there */
__CPROVER_requires(WS_ENTRY(self->Rt, 3) && WS_ENTRY(self->X, 4) && WS_ENTRY(self->B, 5) && WS_ENTRY(self->T, 6) && GS_ZERO && gs.ax.vcalls == 0)
__CPROVER_requires(!gy.first[0] && !gy.first[1] && !gy.mid[0] && !gy.mid[1] && !gy.last[0] && !gy.last[1])
#ifdef VARIANT_DELTA
/* the residual-refresh option ("accurate update") is on */
__CPROVER_requires(DELTA_ON(self))
#else
__CPROVER_requires(!DELTA_ON(self))
#endif
#ifdef VARIANT_CONVERGED_GUESS
/* C15: the initial guess already satisfies the tolerance (the test of the code is zeta >= eps) */
__CPROVER_requires(!EARLY(self) && !UF_LE(EPSV(self), g_norm_in1))
#endif
__CPROVER_assigns(*x_p, g_thrown, *self->Rt, *self->X, *self->B, *self->T, gs, gy)
/* C01: the iteration count exceeds maxiter by at most L - 1 (it advances by L per pass, by j + 1 on the early exit); no pass is started at or beyond maxiter */
__CPROVER_ensures(RET.iters <= self->prm.maxiter + (LL(self) - 1) && (self->prm.maxiter == 0 ==> RET.iters == 0))
/* C15: zero right-hand side */
__CPROVER_ensures(EARLY(self) ==> (!g_thrown && RET.iters == 0 && RET.resid == g_norm_in0 && gs.clear.calls == 1 && gs.clear.id == x_p->id && gs.res.calls == 0))
/* C01: the number returned is (last norm evaluated) / ||rhs||; no pass made: the norm of the initial (preconditioned) residual B in its final state;
 * otherwise the norm of the carried residual R[0], taken after the last write to the basis R (R[0] in its final state) */
__CPROVER_ensures((!EARLY(self) && !g_thrown) ==> (RET.resid == UF_DIV(gs.norm.val, NRHS(self)) && gs.norm.id0 == rhs_p->id && gs.norm.calls == 2))
__CPROVER_ensures((!EARLY(self) && !g_thrown && RET.iters == 0) ==> (gs.norm.val == g_norm_in1 && gs.norm.id == self->B->id && gs.norm.ver == self->B->version))
__CPROVER_ensures((!EARLY(self) && !g_thrown && RET.iters > 0) ==> (gs.norm.id == BAS_ID(B_R) && gs.norm.ix == 0 && gs.norm.ver == gs.bas.writes[B_R]))
/* C01: the carried residual starts as residual(rhs, A, x, .) of the initial guess (left: into T, then B = P T; right: into B) */
__CPROVER_ensures(!EARLY(self) ==> (gs.res.calls == 1 && gs.res.idf == rhs_p->id && gs.res.idA == A_p->id && gs.res.idx == x_p->id && gs.res.xver == OLD(x_p->version)
                                    && gs.res.idr == (LEFT(self) ? self->T->id : self->B->id)))
#ifndef VARIANT_DELTA
/* x is written exactly once, at the end: x = 1 * X + 1 * x (left) / T = P X, x = 1 * T + 1 * x (right), X the accumulated correction (cleared at the start) */
__CPROVER_ensures((!EARLY(self) && !g_thrown) ==> (x_p->version == OLD(x_p->version) + 1 && gs.ax.vidy == x_p->id && gs.ax.va == MATH_identity(V) && gs.ax.vb == MATH_identity(V)
                                    && (LEFT(self) ? gs.ax.vidx == self->X->id : (gs.ax.vidx == self->T->id && gs.pa.in == self->X->id && gs.pa.out == self->T->id && gs.pa.outver == self->T->version))))
#endif
/* C01: stopping before the budget is exhausted means the reported residual passed the test (zeta < eps on the early exit, the negation of zeta >= eps otherwise) */
__CPROVER_ensures((!EARLY(self) && !g_thrown && RET.iters < self->prm.maxiter) ==> (UF_LESS(gs.norm.val, EPSV(self)) || !UF_LE(EPSV(self), gs.norm.val)))
__CPROVER_ensures((!EARLY(self) && !g_thrown && RET.iters == 0 && self->prm.maxiter > 0) ==> !UF_LE(EPSV(self), g_norm_in1))
#ifdef VARIANT_CONVERGED_GUESS
/* zero iterations; X is the cleared vector, never updated, and x = x + X (left) / x = x + P X (right) is the only write of x: unchanged in value for a linear P */
__CPROVER_ensures(!g_thrown && RET.iters == 0 && x_p->version == OLD(x_p->version) + 1 && self->X->version == OLD(self->X->version) + 1 && gs.lc.calls == 0)
#endif
__CPROVER_ensures(x_p->defined && x_p->id == OLD(x_p->id) && !x_p->readonly)
__CPROVER_ensures(g_thrown ==> !EARLY(self))
{
  const bl_params prm = self->prm;
  hv Rt_h = HV(self->Rt), X_h = HV(self->X), B_h = HV(self->B), T_h = HV(self->T);
  hv *const Rt = &Rt_h, *const X = &X_h, *const B = &B_h, *const T = &T_h;
  const hv x = HV(x_p), rhs = HV((vec *)rhs_p);
  V *const Y0 = &gs.sc.cell, *const YL = &gs.sc.cell;
  const struct bl_g0 g0 = { x_p->version, self->X->version };
#define A (*A_p)
#define P (*P_p)
/*@CUT:body@*/
#undef A
#undef P
}
void h_f_bicgstabl(void) { const bicgstabl *self; const mat *A; const precond *P; const vec *rhs; vec *x; f_bicgstabl(self, A, P, rhs, x); }
"""

BL_MAIN = r"""
__CPROVER_assigns(iter, rho0, alpha, omega, zeta, rnmax_computed, rnmax_true, g_thrown, *x_p, *self->X, *self->B, *self->T, gs, gy)
__CPROVER_loop_invariant(iter <= prm.maxiter + ((size_t)L - 1) && g_thrown == 0 && BL_VEC_KEEP && BL_RES && gs.bas.upto[B_R] >= 1 && gs.bas.upto[B_U] >= 1)
__CPROVER_loop_invariant(gs.norm.calls == 2 && gs.norm.id0 == 1 && zeta == gs.norm.val)
/* X (and U[0]) are cleared at the start of the solve; the correction accumulated in X is added to x inside the loop only by the residual refresh, and X is cleared again
 * each time (no part of the correction is applied twice) */
__CPROVER_loop_invariant(gs.clear.calls == 2 + (x_p->version - g0.xv0) && x_p->version - g0.xv0 <= iter)
__CPROVER_loop_invariant(iter == 0 ? (zeta == g_norm_in1 && gs.norm.id == 5 && gs.norm.ver == self->B->version && gs.lc.calls == 0 && self->X->version == g0.Xv0 + 1)
                                   : (gs.norm.id == BAS_ID(B_R) && gs.norm.ix == 0))
/* C01: the norm carried in zeta is the norm of R[0] in its current state (no write to R since it was evaluated) */
__CPROVER_loop_invariant(iter > 0 ==> gs.norm.ver == gs.bas.writes[B_R])
#ifndef VARIANT_DELTA
__CPROVER_loop_invariant(x_p->version == g0.xv0)
#endif
#ifdef VARIANT_CONVERGED_GUESS
__CPROVER_loop_invariant(iter == 0)
#endif
"""
BL_NEG = r"""
__CPROVER_assigns(i, gs.sc, gy)
__CPROVER_loop_invariant(1 <= i && i <= L + 1 && Y_FULL(SC_Y0))
__CPROVER_decreases(L + 1 - i)
"""
BICG_CALL = ('{ const jret jr_ = f_bicg(self, A_p, P_p, x_p, rho0, alpha, eps, rnmax_computed, rnmax_true, iter, g0); rho0 = jr_.rho0; alpha = jr_.alpha; zeta = jr_.zeta; '
             'rnmax_computed = jr_.rnmax_computed; rnmax_true = jr_.rnmax_true; iter = jr_.iter; if (g_thrown) return CXC_THROW_RET; if (jr_.early) goto done; }')
POLY_CALL = '{ const pret pr_ = f_poly(self); omega = pr_.omega; if (g_thrown) return CXC_THROW_RET; }'

# scalar comparisons of BiCGStab(L): a named scalar on the left, a product of names / numbers on the right
_BL_LHS = r'(?:zeta0|zeta|kappaA|prm\.delta|norm_rhs)'
_BL_RHS = r'(?:[A-Za-z_][\w.]*(?:\(\d+\))?|\d+(?:\.\d+)?)(?:\s\*\s(?:[A-Za-z_][\w.]*|\d+(?:\.\d+)?))*'
def _bl_cmp(m):
    from cxc.extract import uf_expr
    a, op, b = m.group('a'), m.group('op'), m.group('b')
    b = b if _re.fullmatch(r'EPS\(\d+\)', b) else uf_expr(b)
    return {'<': 'UF_LESS(%s, %s)', '>': 'UF_LESS(%s, %s)', '<=': 'UF_LE(%s, %s)', '>=': 'UF_LE(%s, %s)'}[op] % ((a, b) if op in ('<', '<=') else (b, a))
BL_CMP = Rule(r'(?<![\w.])(?P<a>%s)\s*(?P<op><=|>=|<|>)\s*(?P<b>%s)' % (_BL_LHS, _BL_RHS), _bl_cmp, '+', why='scalar comparisons -> UF_LESS / UF_LE (right-hand products to UF form)')
BL_Y_RULES = [
    Rule(r'\blin_comb\((\w+), &(\w+)\[(\w+)\], &(\w+)\[(\w+)\], ', r'LIN_COMB2(\1, SC_\2, \3, B_\4, \5, ', None, why='lin_comb(n, &c[o], &v[p], ..): arrays named by their ids, offsets kept'),
    Rule(r'\b(Y0|YL)\[(?!y_)([^\]]+)\]\s*=(?!=)', r'\1[y_wr(SC_\1, \2)] =', None, why='a[i] = .. is a write'),
    Rule(r'\b(Y0|YL)\[(?!y_)([^\]]+)\]', r'\1[y_rd(SC_\1, \2)]', None, why='a[i] read'),
]
BL_TAIL = [
    Rule(r'\beps<scalar_type>\((\d+)\)', r'EPS(\1)', None, why='amgcl::detail::eps<T>(n) -> uninterpreted constant'),
    BL_CMP,
    Rule(r'\bP\.apply\(', 'P_APPLY(P, ', None, why='member call -> C call'),
    Rule(r'\bstd_make_tuple\(', 'MAKE_RESULT(', None, why='R-tuple'),
    UFArgs(r'MAKE_RESULT', None, skip=[0]),
    UFArgs(r'axpby|axpbypcz|spmv|vmul', None),
]
# for (...) Y0[i] = e;   (assignment on the line of the for header)
UF_FOR_ASSIGN = UF(r'^\s*for\s*\([^)]*\)\s*(?:/\*@LOOP\d+@\*/\s*)?\w+\[[^;=]*\]\s=\s(?P<e>[^;]+);', None)
BL_ASSUME = A_HANDLES + [
    'A-split: the BiCG loop over j and the polynomial part of operator() are each under ONE contract text (BICG_CONTRACT, POLY_CONTRACT in units/c01_solvers3.py): '
    'enforced on the repository text by units solver_bicgstabl_bicg / solver_bicgstabl_poly, used in their place by unit solver_bicgstabl',
    'A-L: prm.L >= 1 (checked by the constructor: precondition(prm.L > 0))',
    'A-delta: this unit covers prm.delta > 0 false (the default, delta = 0); the residual refresh ("accurate update", delta > 0) is unit solver_bicgstabl_delta',
]
BL_NOT_DECIDED = ['that the recursively updated residual R[0] equals f - A (x + X) up to rounding (algebraic identity over the reals)',
                  'convergence within the budget; rounding bounded by conditioning',
                  'the values held by MZa, MZb, Y0, YL and written-before-read of MZa, MZb (they are rewritten by two loop nests and std::copy at the start of every polynomial part; '
                  'subscripts are proved within the allocation)',
                  'amgcl::detail::QR (used through a contract: reads the L x L block, the right-hand side row, writes the solution entries)']

def bl_body_cut(loops):
    return Cut('amgcl/solver/bicgstabl.hpp', SIG4,
               rules=[ReplaceLoopStmt(r'for\(int j = 0;', BICG_CALL, nth=0, why='the BiCG loop is used through its contract (enforced by solver_bicgstabl_bicg)'),
                      ReplaceRegion(r'for\(int i = 0;', r'backend::lin_comb\(', POLY_CALL, why='the polynomial part is used through its contract (enforced by solver_bicgstabl_poly)')]
                     + DROP_IO + SIDE_RULES + [PSPMV_RULE] + basis_rules('R|U') + BL_Y_RULES + BL_TAIL,
               uf=[UF_DECL, UF_ASSIGN_LV3, UF_FOR_ASSIGN], loops=loops)

BL_LOOPS = [Loop(r'for\(;', BL_MAIN, prefix=True),
            Loop(r'for\(int i = 1;', BL_NEG, nth=0, prefix=True, optional=True),
            Loop(r'for\(int i = 1;', BL_NEG, nth=1, prefix=True, optional=True)]
bicgstabl = Unit(
    name='solver_bicgstabl', props=['C01', 'C05', 'C15', 'C10'],
    functions=['solver::bicgstabl<Backend>::operator()(A, P, rhs, x)'],
    desc='BiCGStab(L) solve body (BiCG loop and polynomial part through their contracts): iterations <= maxiter + L - 1 and no pass starts at or beyond maxiter; reported residual = norm '
         'of B (no pass) / of R[0] taken after the last write to R (its final state) / ||rhs||; carried residual starts as residual(rhs, A, x) (left: preconditioned); x written once, at '
         'the end, x += X (left) / x += P X (right); early stop implies the test passed; breakdowns throw; Rt, X, B, T, R, U, Y0 never read before written in this call; lin_comb '
         'ranges within the L+1 vectors / entries; zero rhs exit; converged guess: zero iterations, x += (P) 0; rhs/A never written',
    cuts={'body': bl_body_cut(BL_LOOPS)},
    template=BL_T.replace('/*@PROLOGUE@*/', ''), enforce='f_bicgstabl', replace=ORCH_H + ['bh_lin_comb2', 'f_bicg', 'f_poly'], mode='inductive', obj_bits=12, replay='solvers',
    timeout=600, solver=KISSAT,
    # cbmc --cover location finishes (measured once, ~250 s under load): every line of the body reachable except the body of `if (prm.delta > 0)`, which the
    # precondition of this unit excludes (it is the subject of solver_bicgstabl_delta).  Switched off for the routine run.
    cover=False,
    variants=[{}, {'VARIANT_CONVERGED_GUESS': 1, 'CXC_NOCOVER': 1}],
    assumptions=BL_ASSUME, not_decided=BL_NOT_DECIDED,
)

BL_J_T = BL_COMMON + r"""
#undef CXC_THROW_RET
#define CXC_THROW_RET ((jret){rho0, alpha, zeta, rnmax_computed, rnmax_true, iter, 0})
jret f_bicg(const bicgstabl *self, const mat *A_p, const precond *P_p, const vec *x_p, V rho0_in, V alpha_in, V eps, V rnmax_computed_in, V rnmax_true_in, size_t iter_in, struct bl_g0 g0)
__CPROVER_requires(__CPROVER_is_fresh(self, sizeof(*self)) && __CPROVER_is_fresh(A_p, sizeof(mat)) && __CPROVER_is_fresh(P_p, sizeof(precond)) && __CPROVER_is_fresh(x_p, sizeof(vec)))
__CPROVER_requires(__CPROVER_is_fresh(self->Rt, sizeof(vec)) && __CPROVER_is_fresh(self->X, sizeof(vec)) && __CPROVER_is_fresh(self->B, sizeof(vec)) && __CPROVER_is_fresh(self->T, sizeof(vec)))
BICG_CONTRACT
{
  const bl_params prm = self->prm;
  hv Rt_h = HV(self->Rt), X_h = HV(self->X), B_h = HV(self->B), T_h = HV(self->T);
  hv *const Rt = &Rt_h, *const X = &X_h, *const B = &B_h, *const T = &T_h;
  /* the locals of operator() the statement reads and writes */
  V rho0 = rho0_in, alpha = alpha_in, zeta = nondet_V(), rnmax_computed = rnmax_computed_in, rnmax_true = rnmax_true_in; size_t iter = iter_in;
  const unsigned long g_Xv = self->X->version, g_clr = gs.clear.calls;
#define A (*A_p)
#define P (*P_p)
/*@CUT:consts@*/
/*@CUT:jhead@*/
__CPROVER_assigns(j, rho0, alpha, zeta, rnmax_computed, rnmax_true, g_thrown, *self->X, *self->T, gs)
__CPROVER_loop_invariant(0 <= j && j <= L && iter == iter_in && g_thrown == 0 && BL_VEC_KEEP && BL_RES && gs.norm.calls == 2 && gs.norm.id0 == 1 && gs.clear.calls == g_clr)
__CPROVER_loop_invariant(gs.bas.upto[B_R] >= (size_t)j + 1 && gs.bas.upto[B_U] >= (size_t)j + 1 && self->X->version == g_Xv + (size_t)j)
__CPROVER_loop_invariant(j > 0 ==> (ZETA_R0(zeta) && gs.ax.vidy == 4 && gs.ax.vidx == BAS_ID(B_U) && gs.ax.vix == 0 && gs.ax.vb == one && gs.ax.va == alpha))
__CPROVER_decreases(L - j)
  {
/*@CUT:jbody@*/
  }
  return (jret){rho0, alpha, zeta, rnmax_computed, rnmax_true, iter, 0};
done:
  return (jret){rho0, alpha, zeta, rnmax_computed, rnmax_true, iter, 1};
#undef A
#undef P
}
void h_f_bicg(void) { const bicgstabl *self; const mat *A; const precond *P; const vec *x; V a, b, c, d, e; size_t it; struct bl_g0 g0; f_bicg(self, A, P, x, a, b, c, d, e, it, g0); }
"""
BJ_I1 = r"""
__CPROVER_assigns(i, gs.bas, gs.ax, gs.dummy)
__CPROVER_loop_invariant(0 <= i && i <= j + 1 && j < L && gs.bas.upto[B_R] >= (size_t)j + 1 && gs.bas.upto[B_U] >= (size_t)j + 1)
__CPROVER_decreases(j + 1 - i)
"""
BJ_I2 = r"""
__CPROVER_assigns(i, gs.bas, gs.ax, gs.dummy)
__CPROVER_loop_invariant(0 <= i && i <= j + 1 && j < L && gs.bas.upto[B_R] >= (size_t)j + 1 && gs.bas.upto[B_U] >= (size_t)j + 2)
__CPROVER_loop_invariant(gs.ax.vidy == 4 && gs.ax.vidx == BAS_ID(B_U) && gs.ax.vix == 0 && gs.ax.vb == one && gs.ax.va == alpha)
__CPROVER_decreases(j + 1 - i)
"""
# same body, same contract, the other half of the case split: prm.delta > 0 (residual refresh).  The unchanged code FAILS the clause "the norm reported is the norm
# of R[0] in its final state" here (candidate defect, see the report): after  zeta = norm(*R[0])  the refresh overwrites R[0] with B - (P) A X but zeta is not
# re-evaluated; when the loop then ends (budget exhausted, or zeta < eps) the number returned is the norm of the recursively updated residual that was just discarded.
bicgstabl_delta = Unit(
    name='solver_bicgstabl_delta', props=['C01', 'C15', 'C10'],
    functions=['solver::bicgstabl<Backend>::operator()(A, P, rhs, x)'],
    desc='BiCGStab(L) solve body with prm.delta > 0 (residual refresh / "accurate update"); same contract as solver_bicgstabl except that x may also be advanced by the refresh',
    cuts={'body': bl_body_cut(BL_LOOPS)},
    template=BL_T.replace('f_bicgstabl', 'f_bicgstabl_delta'), enforce='f_bicgstabl_delta', replace=ORCH_H + ['bh_lin_comb2', 'f_bicg', 'f_poly'], mode='inductive', obj_bits=12,
    replay='solvers', timeout=600, solver=KISSAT, cover=False,
    variants=[{'VARIANT_DELTA': 1}],
    assumptions=BL_ASSUME[:-1], not_decided=BL_NOT_DECIDED,
)
# not part of UNITS: on the unchanged tree this unit reports a VIOLATION (the candidate defect above); VERIF_CANDIDATES=1 adds it
import os as _os
CANDIDATE_UNITS = [bicgstabl_delta]
WORK_IN_PROGRESS = CANDIDATE_UNITS      # units that do not exit 0 on the current tree (never part of UNITS)

BLHPP = 'amgcl/solver/bicgstabl.hpp'
bicgstabl_j = Unit(
    name='solver_bicgstabl_bicg', props=['C01', 'C15', 'C10'],
    functions=['solver::bicgstabl<Backend>::operator()(A, P, rhs, x) -- the statement for(int j = 0; j < L; ++j) {...} (BiCG part)'],
    desc='BiCGStab(L), the BiCG part of a pass: per step U[0..j] updated, U[j+1] = (P) A U[j], X += alpha U[0], R[0..j] updated, R[j+1] = (P) A R[j], ||R[0]|| evaluated after the '
         'last write to R; zero rho / sigma throw; early exit only with ||R[0]|| < eps and the count advanced by j + 1 <= L; a full pass leaves R[0..L], U[0..L] written; '
         'R, U subscripts within the L+1 vectors; nothing but X, T, R, U written',
    cuts={'consts': Cut(BLHPP, r'static const coef_type one  = ', kind='region', end=r'ios_saver'),
          'jhead': Cut(BLHPP, r'for\(int j = 0;', kind='region', end=r'\{', nth=0),
          'jbody': Cut(BLHPP, r'for\(int j = 0;[^{]*(?=\{)', nth=0,
                       rules=[PSPMV_RULE] + basis_rules('R|U') + BL_TAIL,
                       uf=[UF_DECL, UF_ASSIGN_LV3],
                       loops=[Loop(r'for\(int i = 0;', BJ_I1, nth=0, prefix=True), Loop(r'for\(int i = 0;', BJ_I2, nth=1, prefix=True)])},
    template=BL_J_T, enforce='f_bicg', replace=ORCH_H, mode='inductive', obj_bits=12, timeout=600, solver=KISSAT, cover=True, loop_contracts=True,
    assumptions=BL_ASSUME, not_decided=BL_NOT_DECIDED,
)

# cover location: the only line without a reachable location is the closing brace that follows the unconditional `goto done;`
bicgstabl_j.cover_exempt = r'^\s*\}\s*$'

# ---------------------------------------------------------------------------- BiCGStab(L): polynomial part
BL_P_T = BL_COMMON + r"""
#undef CXC_THROW_RET
#define CXC_THROW_RET ((pret){omega})
V __CPROVER_uninterpreted_real(V);
#define std_real(a) __CPROVER_uninterpreted_real((V)(a))
/* MZa(i, j), MZb(i, j): subscripts against the (L+1) x (L+1) allocation */
static inline size_t mz_wr(long i, long j)
{
  __CPROVER_assert(i >= 0 && j >= 0 && (size_t)i < gs_hdim[0] && (size_t)j < gs_hdim[1], "safety.idx. MZa / MZb subscript within the (L+1) x (L+1) allocation (write)");
  return 0;
}
static inline size_t mz_rd(long i, long j)
{
  __CPROVER_assert(i >= 0 && j >= 0 && (size_t)i < gs_hdim[0] && (size_t)j < gs_hdim[1], "safety.idx. MZa / MZb subscript within the (L+1) x (L+1) allocation (read)");
  gs.sc.cell = nondet_V();
  return 0;
}
/* std::copy(MZa.data(), MZa.data() + MZa.size(), MZb.data()): both have the same (L+1) x (L+1) allocation */
#define MZ_COPY() ((void)0)
/* amgcl::detail::QR<coef_type>::solve(rows, cols, MZa.stride(0), MZa.stride(1), &MZa(ai, aj), &MZb(bi, bj), &Y[xoff], computed)  (A-qr): factorises the
 * rows x cols block of MZa that starts at (ai, aj) in place, reads `rows` consecutive entries of MZb from (bi, bj) on, writes `cols` entries of Y from xoff on */
static inline void qr_solve(long rows, long cols, long ai, long aj, long bi, long bj, int xarr, long xoff, _Bool computed)
{
  __CPROVER_assert(rows >= 1 && cols >= 1 && rows >= cols, "safety. QR::solve is called with a non-empty system, rows >= cols");
  __CPROVER_assert(ai >= 0 && aj >= 0 && (size_t)(ai + rows) <= gs_hdim[0] && (size_t)(aj + cols) <= gs_hdim[1], "safety.idx. the block of MZa given to QR::solve lies within the allocation");
  __CPROVER_assert(bi >= 0 && bj >= 0 && (size_t)bi < gs_hdim[0] && (size_t)(bj + rows) <= gs_hdim[1], "safety.idx. the right-hand side entries of MZb read by QR::solve lie within the allocation");
  __CPROVER_assert((xarr == SC_Y0 || xarr == SC_YL) && xoff >= 0 && (size_t)(xoff + cols) <= gs_sclen[xarr], "safety.idx. the solution entries written by QR::solve lie within Y0 / YL");
  if (xoff == 0) gy.first[xarr - SC_Y0] = 1;
  if (xoff <= 1 && (size_t)(xoff + cols) + 1 >= gs_sclen[xarr]) gy.mid[xarr - SC_Y0] = 1;
  if ((size_t)(xoff + cols) == gs_sclen[xarr]) gy.last[xarr - SC_Y0] = 1;
}
pret f_poly(const bicgstabl *self)
__CPROVER_requires(__CPROVER_is_fresh(self, sizeof(*self)))
/* C15: Y0, YL hold whatever an earlier pass / call left there */
__CPROVER_requires(!gy.first[0] && !gy.first[1] && !gy.mid[0] && !gy.mid[1] && !gy.last[0] && !gy.last[1])
POLY_CONTRACT
{
  const bl_params prm = self->prm;
  V *const Y0 = &gs.sc.cell, *const YL = &gs.sc.cell, *const MZad = &gs.sc.cell, *const MZbd = &gs.sc.cell;
  V omega = nondet_V();      /* the local of operator() the region writes */
/*@CUT:consts@*/
/*@CUT:poly@*/
  return (pret){omega};
}
void h_f_poly(void) { const bicgstabl *self; f_poly(self); }
"""
def _qr(m):
    return 'qr_solve(%s, %s, %s, %s, SC_%s, %s, %s)' % (m.group(1).strip(), m.group(2).strip(), m.group(3), m.group(4), m.group(5), m.group(6), m.group(7) or '0')
BL_P_RULES = [
    Rule(r'\bqr\.solve\(\s*([^,]+),\s*([^,]+),\s*MZa\.stride\(0\),\s*MZa\.stride\(1\),\s*&MZa\(([^()]*)\),\s*&MZb\(([^()]*)\),\s*&(Y0|YL)\[([^\]]+)\](?:,\s*/\*computed=\*/(\w+))?\)',
         _qr, None, flags=_re.M | _re.S, why='QR::solve call -> footprint model (block of MZa, entries of MZb, entries of Y0 / YL)'),
    Rule(r'\bstd_copy\(MZa\.data\(\), MZa\.data\(\) \+ MZa\.size\(\), MZb\.data\(\)\);', 'MZ_COPY();', None, why='std::copy of the whole of MZa to MZb'),
    COMPOUND,
    Rule(r'\b(MZa|MZb)\(([^()]*)\)\s*=(?!=)', r'\1d[mz_wr(\2)] =', None, why='MZ(i,j) = .. is a write (index check)'),
    Rule(r'\b(MZa|MZb)\(([^()]*)\)', r'\1d[mz_rd(\2)]', None, why='MZ(i,j) read (index check)'),
]
def _rng(lo, hi, extra=''):
    return "\n__CPROVER_loop_invariant(%s && %s%s)\n" % (lo, hi, extra)
BP_I1 = "\n__CPROVER_assigns(i, gs.sc)" + _rng('0 <= i', 'i <= L + 1') + "__CPROVER_decreases(L + 1 - i)\n"
BP_J1 = "\n__CPROVER_assigns(j, gs.sc)" + _rng('0 <= j', 'j <= i + 1', ' && 0 <= i && i <= L') + "__CPROVER_decreases(i + 1 - j)\n"
BP_J2 = "\n__CPROVER_assigns(j, gs.sc)" + _rng('i + 1 <= j', 'j <= L + 1', ' && 0 <= i && i <= L') + "__CPROVER_decreases(L + 1 - j)\n"
BP_I3 = "\n__CPROVER_assigns(i, dot0, dot1, dotA, gs.sc)" + _rng('0 <= i', 'i <= L + 1') + "__CPROVER_decreases(L + 1 - i)\n"
BP_J3 = "\n__CPROVER_assigns(j, s0, sL, gs.sc)" + _rng('0 <= j', 'j <= L + 1', ' && 0 <= i && i <= L') + "__CPROVER_decreases(L + 1 - j)\n"
BP_I4 = "\n__CPROVER_assigns(i, gs.sc, gy)" + _rng('0 <= i', 'i <= L + 1', ' && Y_FULL(SC_Y0) && Y_FULL(SC_YL)') + "__CPROVER_decreases(L + 1 - i)\n"
BP_H = "\n__CPROVER_assigns(h, omega, gs.sc)" + _rng('0 <= h', 'h <= L') + "__CPROVER_decreases(h)\n"
UF_TERN_ELSE = UF(r'\?[^;:]*:\s*(?P<e>[^;:?]+);', None)
bicgstabl_p = Unit(
    name='solver_bicgstabl_poly', props=['C01', 'C15', 'C10'],
    functions=['solver::bicgstabl<Backend>::operator()(A, P, rhs, x) -- the polynomial part (MZa = R^H R, its symmetrisation, the QR solves for Y0 / YL, the convex combination, omega)'],
    desc='BiCGStab(L), the polynomial part of a pass: every subscript of MZa, MZb (including the blocks and rows handed to QR::solve), Y0, YL within the (L+1) x (L+1) / L+1 allocation; '
         'R[0..L] only read; Y0 (and YL, when used) completely written in this pass before an entry is read; Y0 complete on exit (it feeds the three lin_comb updates); zero omega throws',
    cuts={'consts': Cut(BLHPP, r'static const coef_type one  = ', kind='region', end=r'ios_saver'),
          'poly': Cut(BLHPP, r'for\(int i = 0;', kind='region', end=r'backend::lin_comb\(', nth=3,
                      rules=BL_P_RULES + basis_rules('R') + BL_Y_RULES + BL_TAIL,
                      uf=[UF_DECL, UF_TERN_ELSE, UF_TERN, UF_ASSIGN_LV3, UF(r'\]\s=\s(?P<e>-\w+);', None)],
                      loops=[Loop(r'for\(int i = 0;', BP_I1, nth=0, prefix=True), Loop(r'for\(int j = 0;', BP_J1, nth=0, prefix=True),
                             Loop(r'for \(int i = 0;', BP_I1, nth=0, prefix=True), Loop(r'for \(int j = i\+1;', BP_J2, prefix=True),
                             Loop(r'for\(int i = 0;', BP_I3, nth=1, prefix=True), Loop(r'for\(int j = 0;', BP_J3, nth=1, prefix=True),
                             Loop(r'for \(int i = 0;', BP_I4, nth=1, prefix=True), Loop(r'for\(int h = L;', BP_H, prefix=True)])},
    template=BL_P_T, enforce='f_poly', replace=ORCH_H, mode='inductive', obj_bits=12, timeout=600, cover=True, loop_contracts=True,
    assumptions=BL_ASSUME + ['A-qr: amgcl::detail::QR::solve touches exactly the rows x cols block of its matrix argument (given strides), `rows` consecutive entries of its '
                             'right-hand side and `cols` entries of its solution argument (qr.hpp:257-310); it is not under contract here'],
    not_decided=BL_NOT_DECIDED,
)

# ---------------------------------------------------------------------------- BiCGStab(L): the residual refresh ("accurate update") statement
# if (prm.delta > 0) { ... } of operator(), as a statement under its own contract (loop-free).  This part of the delta > 0 path PASSES on the unchanged tree; what
# fails there is the interplay with the loop exit (the stale zeta), which is the subject of solver_bicgstabl_delta.
BL_R_T = BL_COMMON + r"""
typedef struct rret { V rnmax_computed, rnmax_true; } rret;
rret f_refresh(const bicgstabl *self, const mat *A_p, const precond *P_p, vec *x_p, V zeta, V zeta0, V rnmax_computed_in, V rnmax_true_in)
__CPROVER_requires(__CPROVER_is_fresh(self, sizeof(*self)) && __CPROVER_is_fresh(A_p, sizeof(mat)) && __CPROVER_is_fresh(P_p, sizeof(precond)) && __CPROVER_is_fresh(x_p, sizeof(vec)))
__CPROVER_requires(__CPROVER_is_fresh(self->Rt, sizeof(vec)) && __CPROVER_is_fresh(self->X, sizeof(vec)) && __CPROVER_is_fresh(self->B, sizeof(vec)) && __CPROVER_is_fresh(self->T, sizeof(vec)))
__CPROVER_requires(UF_AXIOMS && ALLOC_BL && BL_VEC_KEEP && gs.bas.upto[B_R] >= 1 && gs.bas.upto[B_U] >= 1 && gs.clear.calls < MAXITER_BOUND)
__CPROVER_assigns(*x_p, *self->X, *self->B, *self->T, gs)
__CPROVER_ensures(BL_VEC_KEEP && gs.bas.upto[B_R] >= 1 && gs.bas.upto[B_U] >= 1)
/* x is advanced at most once, and only together with a refresh of R[0] */
__CPROVER_ensures(x_p->version == OLD(x_p->version) || (x_p->version == OLD(x_p->version) + 1 && gs.pspmv.calls == OLD(gs.pspmv.calls) + 1))
/* refresh: R[0] = B - (P) A X :  preconditioner::spmv(pside, P, A, X, R[0], T), then R[0] = 1 * B + (-1) * R[0] */
__CPROVER_ensures(gs.pspmv.calls == OLD(gs.pspmv.calls) || (gs.pspmv.calls == OLD(gs.pspmv.calls) + 1 && gs.pspmv.idF == self->X->id && gs.pspmv.idX == BAS_ID(B_R) && gs.pspmv.idT == self->T->id
                  && (x_p->version == OLD(x_p->version) ==> (gs.ax.idy == BAS_ID(B_R) && gs.ax.iy == 0 && gs.ax.idx == self->B->id && gs.ax.a == MATH_identity(V)
                                                             && gs.ax.b == UF_NEG(MATH_identity(V))))))
/* C01: when x is advanced it is by the accumulated correction, x = 1 * X + 1 * x (left) / x = 1 * T + 1 * x with T = P X as left by the refresh (right); X is cleared
 * afterwards -- no part of the correction is applied twice -- and the refreshed residual becomes the new reference B */
__CPROVER_ensures(x_p->version == OLD(x_p->version) + 1 ==> (gs.ax.vidy == x_p->id && gs.ax.va == MATH_identity(V) && gs.ax.vb == MATH_identity(V)
                  && gs.ax.vidx == (LEFT(self) ? self->X->id : self->T->id)
                  && gs.clear.calls == OLD(gs.clear.calls) + 1 && gs.clear.id == self->X->id && self->X->version == OLD(self->X->version) + 1
                  && gs.copy.calls == OLD(gs.copy.calls) + 1 && gs.copy.idx == BAS_ID(B_R) && gs.copy.idy == self->B->id && self->B->version == OLD(self->B->version) + 1))
__CPROVER_ensures(x_p->version == OLD(x_p->version) ==> (gs.clear.calls == OLD(gs.clear.calls) && self->X->version == OLD(self->X->version) && self->B->version == OLD(self->B->version)))
{
  const bl_params prm = self->prm;
  hv Rt_h = HV(self->Rt), X_h = HV(self->X), B_h = HV(self->B), T_h = HV(self->T);
  hv *const Rt = &Rt_h, *const X = &X_h, *const B = &B_h, *const T = &T_h;
  const hv x = HV(x_p);
  V rnmax_computed = rnmax_computed_in, rnmax_true = rnmax_true_in;     /* the locals of operator() the statement reads and writes */
#define A (*A_p)
#define P (*P_p)
/*@CUT:consts@*/
/*@CUT:rhead@*/
  {
/*@CUT:rbody@*/
  }
#undef A
#undef P
  return (rret){rnmax_computed, rnmax_true};
}
void h_f_refresh(void) { const bicgstabl *self; const mat *A; const precond *P; vec *x; V a, b, c, d; f_refresh(self, A, P, x, a, b, c, d); }
"""
bicgstabl_r = Unit(
    name='solver_bicgstabl_refresh', props=['C01', 'C15', 'C10'],
    functions=['solver::bicgstabl<Backend>::operator()(A, P, rhs, x) -- the statement if (prm.delta > 0) {...} (residual refresh / reliable update)'],
    desc='BiCGStab(L), the residual refresh: R[0] = B - (P) A X through preconditioner::spmv; x advanced at most once, only together with a refresh, by the accumulated '
         'correction (x += X left, x += T = P X right), after which X is cleared and B = R[0]: no part of the correction is applied twice; nothing else written',
    cuts={'consts': Cut(BLHPP, r'static const coef_type one  = ', kind='region', end=r'ios_saver'),
          'rhead': Cut(BLHPP, r'if \(prm\.delta > 0\)', kind='region', end=r'\{', rules=[BL_CMP]),
          'rbody': Cut(BLHPP, r'if \(prm\.delta > 0\)\s*(?=\{)',
                       rules=SIDE_RULES[1:] + [PSPMV_RULE] + basis_rules('R') + BL_TAIL, uf=[UF_ASSIGN_LV3])},
    template=BL_R_T, enforce='f_refresh', replace=ORCH_H, mode='loopfree', obj_bits=12, timeout=300,
    assumptions=BL_ASSUME[:1] + BL_ASSUME[1:2], not_decided=BL_NOT_DECIDED[:2],
)

# ---------------------------------------------------------------------------- make_solver (call level) and the 3-argument solver overloads
MS_COMMON = r"""
#include "orch_solvers.h"
int g_thrown;
#define RET __CPROVER_return_value
#define OLD(e) __CPROVER_old(e)
typedef struct solver_obj { int id; } solver_obj;
/* the call of the iterative solver S(A, P, rhs, x) as seen from its caller: which objects were passed, what came back */
struct gs_solve { int idS, idA, idP, idf, idx; unsigned long calls, xver_in; result ret; } gsv;
#define SYSMAT(P) (~(P)->id)            /* id of P.system_matrix() (a function of the id of P; no arithmetic, no overflow) */
#define SOLVE_REQ(f, x) ((f)->defined && (x)->defined && !(x)->readonly && (const vec *)(x) != (f))
#define SOLVE_ENS(S, AID, P, f, x) (OUT_ENS(x) && gsv.calls == OLD(gsv.calls) + 1 && gsv.idS == (S)->id && gsv.idA == (AID) && gsv.idP == (P)->id \
     && gsv.idf == (f)->id && gsv.idx == (x)->id && gsv.xver_in == OLD((x)->version) && RET.iters == gsv.ret.iters && RET.resid == gsv.ret.resid)
/* IterativeSolver::operator()(A, P, rhs, x)  (units solver_*) */
result bk_solve4(const solver_obj *S, const mat *A, const precond *P, const vec *f, vec *x)
__CPROVER_requires(SOLVE_REQ(f, x))
__CPROVER_assigns(*x, gsv)
__CPROVER_ensures(SOLVE_ENS(S, A->id, P, f, x));
/* IterativeSolver::operator()(P, rhs, x): the system matrix is the one the preconditioner was built for (units solver_*_overload3) */
#define SOLVE3_CONTRACT(S, P, f, x) \
__CPROVER_requires(SOLVE_REQ(f, x)) \
__CPROVER_assigns(*x, gsv) \
__CPROVER_ensures(SOLVE_ENS(S, SYSMAT(P), P, f, x))
result bk_solve3(const solver_obj *S, const precond *P, const vec *f, vec *x)
SOLVE3_CONTRACT(S, P, f, x);
#define SOLVE_PICK(a, b, c, d, e, NAME, ...) NAME
#define SOLVE4_M(S, A, P, f, x) bk_solve4(&(S), &(A), &(P), &(f), &(x))
#define SOLVE3_M(S, P, f, x) bk_solve3(&(S), &(P), &(f), &(x))
#define SOLVE(...) SOLVE_PICK(__VA_ARGS__, SOLVE4_M, SOLVE3_M)(__VA_ARGS__)
typedef struct make_solver { precond P; solver_obj S; } make_solver;
/* make_solver::operator()(rhs, x) */
#define MS2_CONTRACT(self, f, x) \
__CPROVER_requires(SOLVE_REQ(f, x)) \
__CPROVER_assigns(*x, gsv) \
__CPROVER_ensures(SOLVE_ENS(&(self)->S, SYSMAT(&(self)->P), &(self)->P, f, x))
"""
MS_RULES = [Rule(r'\bS\(', 'SOLVE(S, ', None, why='call of the member solver -> C call (contract bk_solve4 / bk_solve3 by argument count)')]
MS_A = ['A-callee: the iterative solver object honours its contract (units solver_*): reads rhs, reads and writes x, writes nothing else',
        'A-own: P and S are members of the make_solver object']

MS4_T = MS_COMMON + r"""
result f_ms4(const make_solver *self, const mat *A_p, const vec *rhs_p, vec *x_p)
__CPROVER_requires(__CPROVER_is_fresh(self, sizeof(*self)) && __CPROVER_is_fresh(A_p, sizeof(mat)) && __CPROVER_is_fresh(rhs_p, sizeof(vec)) && __CPROVER_is_fresh(x_p, sizeof(vec)))
__CPROVER_requires(SOLVE_REQ(rhs_p, x_p) && rhs_p->readonly && rhs_p->id == 1 && x_p->id == 2)
__CPROVER_assigns(*x_p, gsv)
/* exactly one call S(A, P, rhs, x): the matrix passed in, the member preconditioner, rhs and x as given; the solver's tuple is returned unchanged */
__CPROVER_ensures(SOLVE_ENS(&self->S, A_p->id, &self->P, rhs_p, x_p))
{
#define A (*A_p)
#define P (self->P)
#define S (self->S)
#define rhs (*rhs_p)
#define x (*x_p)
/*@CUT:body@*/
#undef A
#undef P
#undef S
#undef rhs
#undef x
}
void h_f_ms4(void) { const make_solver *self; const mat *A; const vec *rhs; vec *x; f_ms4(self, A, rhs, x); }
"""
ms4 = Unit(
    name='make_solver_call_matrix', props=['C01', 'C15', 'C10'],
    functions=['make_solver<Precond, IterativeSolver>::operator()(A, rhs, x)'],
    desc='make_solver::operator()(A, rhs, x): exactly one call S(A, P, rhs, x) with the matrix argument, the member preconditioner, rhs and x as given; '
         'the (iterations, residual) tuple of the solver is returned unchanged; nothing else is written',
    cuts={'body': Cut('amgcl/make_solver.hpp', r'std::tuple<size_t, scalar_type> operator\(\)\(\s*const Matrix &A, const Vec1 &rhs, Vec2 &&x\) const\s*(?=\{)', rules=MS_RULES)},
    template=MS4_T, enforce='f_ms4', replace=['bk_solve4', 'bk_solve3', 'bs_clear'], mode='loopfree', obj_bits=12, timeout=300, assumptions=MS_A,
)

MS2_T = MS_COMMON + r"""
result f_ms2(const make_solver *self, const vec *rhs_p, vec *x_p)
__CPROVER_requires(__CPROVER_is_fresh(self, sizeof(*self)) && __CPROVER_is_fresh(rhs_p, sizeof(vec)) && __CPROVER_is_fresh(x_p, sizeof(vec)))
__CPROVER_requires(rhs_p->readonly && rhs_p->id == 1 && x_p->id == 2)
/* exactly one call S(P, rhs, x) (system matrix = the one P was built for); the solver's tuple is returned unchanged */
MS2_CONTRACT(self, rhs_p, x_p)
{
#define P (self->P)
#define S (self->S)
#define rhs (*rhs_p)
#define x (*x_p)
/*@CUT:body@*/
#undef P
#undef S
#undef rhs
#undef x
}
void h_f_ms2(void) { const make_solver *self; const vec *rhs; vec *x; f_ms2(self, rhs, x); }
"""
ms2 = Unit(
    name='make_solver_call', props=['C01', 'C15', 'C10'],
    functions=['make_solver<Precond, IterativeSolver>::operator()(rhs, x)'],
    desc='make_solver::operator()(rhs, x): exactly one call S(P, rhs, x) with the member preconditioner (system matrix = the matrix the preconditioner was built for), '
         'rhs and x as given; the tuple of the solver is returned unchanged; nothing else is written',
    cuts={'body': Cut('amgcl/make_solver.hpp', r'std::tuple<size_t, scalar_type> operator\(\)\(const Vec1 &rhs, Vec2 &&x\) const\s*(?=\{)', rules=MS_RULES)},
    template=MS2_T, enforce='f_ms2', replace=['bk_solve4', 'bk_solve3', 'bs_clear'], mode='loopfree', obj_bits=12, timeout=300, assumptions=MS_A,
)

MSA_T = MS_COMMON + r"""
result f_ms2(const make_solver *self, const vec *rhs_p, vec *x_p)
MS2_CONTRACT(self, rhs_p, x_p);
void f_msapply(const make_solver *self, const vec *rhs_p, vec *x_p)
__CPROVER_requires(__CPROVER_is_fresh(self, sizeof(*self)) && __CPROVER_is_fresh(rhs_p, sizeof(vec)) && __CPROVER_is_fresh(x_p, sizeof(vec)))
/* x is output only: it may hold anything on entry */
__CPROVER_requires(rhs_p->defined && rhs_p->readonly && !x_p->readonly && rhs_p->id == 1 && x_p->id == 2 && gs.clear.calls == 0 && gsv.calls == 0)
__CPROVER_assigns(*x_p, gsv, gs.clear)
/* clear(x), then exactly one solve from that zero initial approximation */
__CPROVER_ensures(gs.clear.calls == 1 && gs.clear.id == x_p->id && gsv.calls == 1 && gsv.idS == self->S.id && gsv.idP == self->P.id && gsv.idA == SYSMAT(&self->P)
                  && gsv.idf == rhs_p->id && gsv.idx == x_p->id && gsv.xver_in == OLD(x_p->version) + 1 && x_p->version == OLD(x_p->version) + 2 && x_p->defined)
{
#define rhs (*rhs_p)
#define x (*x_p)
/*@CUT:body@*/
#undef rhs
#undef x
}
void h_f_msapply(void) { const make_solver *self; const vec *rhs; vec *x; f_msapply(self, rhs, x); }
"""
msapply = Unit(
    name='make_solver_apply', props=['C01', 'C15', 'C10'],
    functions=['make_solver<Precond, IterativeSolver>::apply(rhs, x)'],
    desc='make_solver::apply(rhs, x) (use as a preconditioner): x is output only; clear(x), then exactly one (*this)(rhs, x) from the zero initial approximation',
    cuts={'body': Cut('amgcl/make_solver.hpp', r'void apply\(const Vec1 &rhs, Vec2 &&x\) const\s*(?=\{)',
                      rules=[Rule(r'\(\*this\)\(', 'f_ms2(self, &', None, why='call of operator()(rhs, x) of the same object (contract enforced by unit make_solver_call)'),
                             Rule(r'f_ms2\(self, &rhs, x\)', 'f_ms2(self, &rhs, &x)', None, why='reference arguments -> addresses')])},
    template=MSA_T, enforce='f_msapply', replace=['bs_clear', 'f_ms2'], mode='loopfree', obj_bits=12, timeout=300, assumptions=MS_A,
)

# IterativeSolver::operator()(P, rhs, x)  ==  (*this)(P.system_matrix(), P, rhs, x)   (same text in every solver header)
OV3_T = MS_COMMON + r"""
result f_ov3(const solver_obj *self, const precond *P_p, const vec *rhs_p, vec *x_p)
__CPROVER_requires(__CPROVER_is_fresh(self, sizeof(*self)) && __CPROVER_is_fresh(P_p, sizeof(precond)) && __CPROVER_is_fresh(rhs_p, sizeof(vec)) && __CPROVER_is_fresh(x_p, sizeof(vec)))
__CPROVER_requires(rhs_p->readonly && rhs_p->id == 1 && x_p->id == 2)
SOLVE3_CONTRACT(self, P_p, rhs_p, x_p)
{
  mat sysmat; sysmat.id = SYSMAT(P_p);     /* P.system_matrix() */
#define P (*P_p)
#define rhs (*rhs_p)
#define x (*x_p)
/*@CUT:body@*/
#undef P
#undef rhs
#undef x
}
void h_f_ov3(void) { const solver_obj *self; const precond *P; const vec *rhs; vec *x; f_ov3(self, P, rhs, x); }
"""
SIG3G = r'std::tuple<size_t, scalar_type> operator\(\)\(\s*Precond const &P,\s*Vec1    const &rhs,\s*Vec2          &x\s*\) const\s*(?=\{)'
SIG3 = r'std::tuple<size_t, scalar_type> operator\(\)\(\s*const Precond &P, const Vec1 &rhs, Vec2 &&x\) const\s*(?=\{)'
def overload3(name, src, sig):
    return Unit(
        name='solver_%s_overload3' % name, props=['C01', 'C15', 'C10'],
        functions=['solver::%s<Backend>::operator()(P, rhs, x)' % name],
        desc='%s::operator()(P, rhs, x): exactly one call (*this)(P.system_matrix(), P, rhs, x); its tuple is returned unchanged' % name,
        cuts={'body': Cut(src, sig,
                          rules=[Rule(r'\(\*this\)\(', 'SOLVE(*self, ', None, why='call of the 4-argument overload of the same object'),
                                 Rule(r'\bP\.system_matrix\(\)', 'sysmat', None, why='accessor -> the matrix the preconditioner was built for')])},
        template=OV3_T, enforce='f_ov3', replace=['bk_solve4', 'bk_solve3', 'bs_clear'], mode='loopfree', obj_bits=12, timeout=300, assumptions=MS_A[:1],
    )
ov3_units = [overload3('fgmres', 'amgcl/solver/fgmres.hpp', SIG3G), overload3('lgmres', 'amgcl/solver/lgmres.hpp', SIG3G),
             overload3('idrs', 'amgcl/solver/idrs.hpp', SIG3G), overload3('bicgstabl', 'amgcl/solver/bicgstabl.hpp', SIG3)]

UNITS = [fgmres, lgmres, idrs, idrs_k, bicgstabl, bicgstabl_j, bicgstabl_p, bicgstabl_r, ms4, ms2, msapply] + ov3_units
if _os.environ.get('VERIF_CANDIDATES'):
    UNITS += CANDIDATE_UNITS
