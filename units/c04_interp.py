"""Interpolation operators of the coarsening classes (C04 / C10) -- bounded region units (unwound).

  ruge_stuben_interpolation   ruge_stuben::transfer_operators, region after connect()/cfsplit():
                              C-point numbering, counting pass, fill pass (direct interpolation with truncation)
  smoothed_aggregation_smoothing   (see below)

Value model of the Ruge-Stuben unit ("ordered ring + uninterpreted scalar formulas", A-inst-rs):
  * Val = int32, |v| <= VLIM: sums and comparisons (std::min / std::max / < / <=, math::norm = |.|) are EXACT, so
    the documented operand SETS (all negative couplings, strong C couplings, kept / dropped couplings) are checked as
    sets (order independent) and exact ties at the truncation threshold are representable;
  * the Scalar products, quotients and negations of the weight formula (cf_neg, alpha, beta, alpha * a_ij) and the
    scaling of the row extremum by eps_trunc are UNINTERPRETED: the proof holds for every interpretation of these
    operations; it pins which documented sums meet which operator in which position;
  * the only facts used about x -> x * eps_trunc are  eps_trunc >= 0  (sign is preserved), stated as a precondition
    at the two arguments the region scales per row.
"""
import re
from cxc import extract as X
from cxc.extract import Cut, Rule, UF, Loop, IdxRule
from cxc.unit import Unit
from _common import (BUILTIN, BOUNDED_PRELUDE, CRS_MEMBERS_C, CALL_RULES, crs_member_cuts, member_rules)
from _coarsen_common import COARSEN_PRELUDE, SMOOTHED
from c04_aggregates import A_BOUNDED, A_NODUP, REPO_LOOPS, wit

RS = 'amgcl/coarsening/ruge_stuben.hpp'

X.OPAQUE_CALLS.add('CXC_SEL')

# ------------------------------------------------------------------------------------------------
# value model (appended after the INT32 ring of amgcl_c.h)
# ------------------------------------------------------------------------------------------------
# single allocation site per NEW (the prelude macro has one malloc per branch of the capacity test, which doubles the
# points-to set of every later dereference); same meaning: capacity-sized fresh object, g_cap_exceeded when n > capacity
ONE_MALLOC = r'''
static void *cxc_alloc(size_t n, size_t cap, size_t bytes) { if (n > cap) g_cap_exceeded = 1; return malloc(bytes); }
#undef NEW_CAP
#define NEW_CAP(T, n, cap) ((T *)cxc_alloc((n), (cap), sizeof(T) * (cap)))
'''

RS_MODEL = r'''
/* A-inst-rs: Val = Scalar = int32.  Sums / comparisons / norm are exact (MODEL_INT32); products, quotients and
 * negations of the Scalar weight formula are uninterpreted (redefined here), as is the scaling by a parameter  */
typedef int Scalar;
int __CPROVER_uninterpreted_smul(int, int);
int __CPROVER_uninterpreted_sdiv(int, int);
int __CPROVER_uninterpreted_sneg(int);
int __CPROVER_uninterpreted_scale_mul(int, int);
int __CPROVER_uninterpreted_scale_div(int, int);
int __CPROVER_uninterpreted_scale_add(int, int);
int __CPROVER_uninterpreted_scale_sub(int, int);
#undef UF_MUL
#undef UF_NEG
#define UF_MUL(a, b) __CPROVER_uninterpreted_smul((int)(a), (int)(b))
#define UF_DIV(a, b) __CPROVER_uninterpreted_sdiv((int)(a), (int)(b))
#define UF_NEG(a) __CPROVER_uninterpreted_sneg((int)(a))
/* x OP= prm.y  ->  x = SCALE_OP(x, prm.y) */
#define SCALE_MUL(x, e) __CPROVER_uninterpreted_scale_mul((int)(x), (int)(e))
#define SCALE_DIV(x, e) __CPROVER_uninterpreted_scale_div((int)(x), (int)(e))
#define SCALE_ADD(x, e) __CPROVER_uninterpreted_scale_add((int)(x), (int)(e))
#define SCALE_SUB(x, e) __CPROVER_uninterpreted_scale_sub((int)(x), (int)(e))
#define CXC_SEL(c, a, b) ((c) ? (a) : (b))
/* amgcl::detail::eps<Scalar>(1) = 2 * epsilon: far below the magnitude of any non-zero sum of couplings.  Here every
 * value is an integer multiple of the unit 2 and eps = 1 < unit:  norm(x) > eps <=> x != 0,  norm(x) < eps <=> x == 0 */
#define DETAIL_EPS(T, n) 1
static _Bool crs_vals_even(const crs *A)
{
  for (size_t j = 0; j < CAP_NNZ; ++j) if (j < (size_t)A->ptr[A->nrows]) { if (A->val[j] % 2 != 0) return 0; }
  return 1;
}
/* std::vector<Val>: constant-capacity storage, logical length; resize() value-initialises (zero) */
typedef struct { Val *p; size_t n; } vec_val;
static vec_val vec_val_new(void) { vec_val v; v.p = (Val *)malloc(sizeof(Val) * CAP_PTR); v.n = 0; return v; }
static void vec_val_resize(vec_val *v, size_t n)
{
  if (n > CAP_PTR) { g_cap_exceeded = 1; n = CAP_PTR; }
  for (size_t i = 0; i < CAP_PTR; ++i) if (i >= v->n && i < n) v->p[i] = 0;
  v->n = n;
}
'''

_OPN = {'*': 'MUL', '/': 'DIV', '+': 'ADD', '-': 'SUB'}

# ------------------------------------------------------------------------------------------------
# ruge_stuben::transfer_operators, interpolation region
# ------------------------------------------------------------------------------------------------
RS_DECL_RULES = [
    Rule(r'eps<Scalar>\(1\)', 'DETAIL_EPS(Scalar, 1)', 1, why='amgcl::detail::eps<T>(n) (util.hpp) at the integer instantiation'),
]

RS_RULES = CALL_RULES + [
    Rule(r'std_vector<ptrdiff_t> cidx\((?P<a>[^;]+)\);',
         r'vec_pd cidx_v = vec_pd_new_n(\g<a>, 0); ptrdiff_t *cidx = cidx_v.p;', 1, why='R-vector'),
    Rule(r'std_vector<Val> Amin, Amax;',
         'vec_val Amin_v = vec_val_new(), Amax_v = vec_val_new(); Val *Amin = Amin_v.p, *Amax = Amax_v.p;', 1, why='R-vector'),
    Rule(r'\b(Amin|Amax)\.resize\(', r'vec_val_resize(&\1_v, ', 2, why='R-vector'),
    Rule(r'throw error::empty_level\(\);', '{ g_thrown = 1; return 0; }', 1, why='R-throw'),
    Rule(r'auto P = std_make_shared<Matrix>\(\);', 'crs *P = crs_new();', 1, why='R-auto'),
    # x OP= prm.y (Val scaled by a float parameter) -> uninterpreted scaling
    Rule(r'\b(\w+) ([-+*/])= (prm\.\w+)', lambda m: '%s = SCALE_%s(%s, %s)' % (m.group(1), _OPN[m.group(2)], m.group(1), m.group(3)),
         2, why='R-arith: Val OP= float parameter'),
    # (a < b ? x : y) -> CXC_SEL(a < b, x, y): the comparison stays exact, the selected Scalar enters the product
    Rule(r'\((\w+ (?:<=|>=|<|>|==|!=) \w+) \? (\w+) : (\w+)\)', r'CXC_SEL(\1, \2, \3)', 1, why='R-sel'),
    IdxRule(r'cf', 'n', '+'),
    IdxRule(r'cidx', 'cidx_v.n', '+'),
    IdxRule(r'Amin', 'Amin_v.n', '+'),
    IdxRule(r'Amax', 'Amax_v.n', '+'),
    IdxRule(r'S\.val', 'A_nnz', '+'),
    IdxRule(r'P->ptr', 'P->nrows + 1', '+'),
    IdxRule(r'P->col|P->val', 'P->nnz', '+'),
    IdxRule(r'A\.ptr', 'A.nrows + 1', '+'),
    IdxRule(r'A\.col|A\.val', 'A_nnz', '+'),
]

RS_UF = [
    UF(r'\bcf_\w+ = (?P<e>[^;]+);', 4),                                     # Scalar cf_neg = 1; cf_neg = norm / norm;
    UF(r'Scalar (?:alpha|beta)\s*=[^?;]*\?\s*(?P<e>[^:;]+):', 2),            # alpha / beta quotient
    UF(r'P->val\[[^=;]*\]\s*=\s*(?P<e>[^;]+);', 2),                          # identity; (alpha|beta) * v
]

SPEC_RS = r'''
typedef struct { int eps_strong; _Bool do_trunc; int eps_trunc; } rs_params;   /* ruge_stuben::params (eps_* : opaque tokens) */
typedef struct { char *val; } rs_strong;                                       /* backend::crs<char,Col,Ptr> S: only S.val is read */

#define IN_ROW(A, i, j) ((ptrdiff_t)(j) >= (A)->ptr[i] && (ptrdiff_t)(j) < (A)->ptr[(i) + 1])
#define ABS_(x) ((x) < 0 ? -(x) : (x))

/* most negative / most positive coupling of row i to a strong C neighbour (0 when there is none) */
static void rs_extrema(const crs *A, const char *sv, const char *cf, size_t i, int *amin, int *amax)
{
  int lo = 0, hi = 0;
  for (size_t j = 0; j < CAP_NNZ; ++j) if (IN_ROW(A, i, j)) {
    if (sv[j] && cf[A->col[j]] == 'C') {
      if (A->val[j] < lo) lo = A->val[j];
      if (A->val[j] > hi) hi = A->val[j];
    }
  }
  *amin = lo; *amax = hi;
}
static size_t rs_count_C(size_t n, const char *cf)
{
  size_t nc = 0;
  for (size_t i = 0; i < NMAX; ++i) if (i < n && cf[i] == 'C') ++nc;
  return nc;
}

typedef struct { _Bool crows, fill, keep, drop, vals, nodup; } rs_post;

/* Direct interpolation (Stueben 1999, cited by ruge_stuben.hpp) with the documented truncation, for ONE row i (the
 * harness passes an arbitrary row: universal generalisation):
 *  C row i:  one entry (i, cidx[i]) = 1, cidx = running number of the C points.
 *  F row i:  P_i = strong C neighbours of i (S flag set, cf == 'C'); N_i^- / N_i^+ = off-diagonal entries < 0 / >= 0.
 *    truncation ("ignores all interpolatory connections which are smaller (in absolute value) than the largest one by a
 *    factor of eps_tr"): thr^- = eps_tr * min(0, min_{P_i} a_ij), thr^+ = eps_tr * max(0, max_{P_i} a_ij);
 *      a coupling strictly beyond its threshold is kept, one strictly inside is dropped (nothing is said about
 *      equality: either); K_i = the couplings that are kept = the entries of row i of P, in the order of row i of A;
 *    "the remaining weights are rescaled so that the total sum remains unchanged":
 *      cf^- = |sum_{P_i, <0} a_ij| / |sum_{K_i, <0} a_ij|,   cf^+ likewise                 (1 without truncation)
 *    no positive interpolatory coupling (sum_{P_i, >=0} == 0) and sum_{N_i^+} > 0:  a_ii' = a_ii + sum_{N_i^+}, else a_ii' = a_ii
 *      alpha = - cf^- * |sum_{N_i^-}| / (|a_ii'| * |sum_{P_i, <0}|)    (0 when P_i has no negative coupling)
 *      beta  = - cf^+ * |sum_{N_i^+}| / (|a_ii'| * |sum_{P_i, >=0}|)   (0 when P_i has no positive coupling)
 *      w_ij  = alpha * a_ij  (a_ij < 0),   beta * a_ij  (a_ij >= 0)        for j in K_i, column cidx[j]
 *  Sums are exact integers (any order); * / unary- are the uninterpreted Scalar operations, in the operand order above. */
static void rs_spec_row(const crs *A, const char *sv, const char *cf, const rs_params *prm, const crs *P, size_t i,
                        const ptrdiff_t *cidx, int thr_min, int thr_max, rs_post *r)
{
  const ptrdiff_t ab = A->ptr[i], ae = A->ptr[i + 1];
  const ptrdiff_t b = P->ptr[i], e = P->ptr[i + 1];
  if (cf[i] == 'C') {
    if (!(e - b == 1 && P->col[b] == cidx[i] && P->val[b] == MATH_identity(Val))) r->crows = 0;
    return;
  }
  int dia = 0, a_num = 0, b_num = 0, a_den = 0, b_den = 0, kneg = 0, kpos = 0;
  ptrdiff_t slot[NMAX];
  ptrdiff_t k = b;
  /* entries of row i in row order: j = ab + t, t < row length <= NMAX (no duplicate column in a row) */
  for (size_t t = 0; t < NMAX; ++t) { slot[t] = -1; const ptrdiff_t j = ab + (ptrdiff_t)t; if (j < ae) {
    const size_t c = (size_t)A->col[j]; const int v = A->val[j];
    if (c == i) { dia = v; continue; }
    if (v < 0) a_num += v; else b_num += v;
    if (!(sv[j] && cf[c] == 'C')) continue;
    if (v < 0) a_den += v; else b_den += v;
    const _Bool must_keep = !prm->do_trunc || (v < 0 ? v < thr_min : v > thr_max);
    const _Bool must_drop = prm->do_trunc && (v < 0 ? v > thr_min : v < thr_max);
    const _Bool present = k < e && P->col[k] == cidx[c];
    if (must_keep && !present) r->keep = 0;
    if (must_drop && present) r->drop = 0;
    if (present) { slot[t] = k; ++k; if (v < 0) kneg += v; else kpos += v; }
  } }
  if (k != e) r->fill = 0;                 /* every slot of the row is one kept coupling (none unwritten, none extra) */
  for (size_t p = 0; p < CAP_NNZ; ++p) for (size_t q = p + 1; q < CAP_NNZ; ++q)
    if ((ptrdiff_t)p >= b && (ptrdiff_t)q < e && P->col[p] == P->col[q]) r->nodup = 0;
  const int dia2 = (b_num > 0 && b_den == 0) ? dia + b_num : dia;
  const int cfn = (prm->do_trunc && kneg != 0) ? UF_DIV(ABS_(a_den), ABS_(kneg)) : 1;
  const int cfp = (prm->do_trunc && kpos != 0) ? UF_DIV(ABS_(b_den), ABS_(kpos)) : 1;
  const int alpha = a_den != 0 ? UF_DIV(UF_MUL(UF_NEG(cfn), ABS_(a_num)), UF_MUL(ABS_(dia2), ABS_(a_den))) : 0;
  const int beta  = b_den != 0 ? UF_DIV(UF_MUL(UF_NEG(cfp), ABS_(b_num)), UF_MUL(ABS_(dia2), ABS_(b_den))) : 0;
  for (size_t t = 0; t < NMAX; ++t) if (slot[t] >= 0) {
    const int v = A->val[ab + (ptrdiff_t)t];
    if (P->val[slot[t]] != UF_MUL(v < 0 ? alpha : beta, v)) r->vals = 0;
  }
}
'''

RS_SIG_DECLS = r'const size_t n = rows\(A\);\s*static const Scalar eps = amgcl::detail::eps<Scalar>\(1\);'

rs_interp = Unit(
    name='ruge_stuben_interpolation', props=['C04', 'C10'],
    functions=['coarsening::ruge_stuben::transfer_operators(const Matrix&) [region: C-point numbering, counting pass, '
               'fill pass of the direct interpolation with truncation; connect()/cfsplit() results are symbolic inputs]',
               'crs::set_size', 'crs::scan_row_sizes', 'crs::set_nonzeros'],
    desc='for every strong-connection flag array and every C/F splitting: P is n x nc, well-formed, every slot written; '
         'C rows (i, cidx[i]) = 1; F rows hold exactly the kept strong C couplings (beyond the truncation threshold: kept, '
         'inside: dropped) with the direct-interpolation weights alpha*a_ij / beta*a_ij, alpha = -cf * |sum N^-| / (|a_ii| * '
         '|sum P^-|), cf = |sum P^-| / |sum of the KEPT P^-| (truncation leaves the total weight unchanged)',
    cuts=dict(crs_member_cuts(),
              decls=Cut(RS, RS_SIG_DECLS, kind='region', end=r'std::vector<char> cf\(n, \'U\'\);', rules=RS_DECL_RULES),
              body=Cut(RS, r'size_t nc = 0;\s*std::vector<ptrdiff_t> cidx\(n\);', kind='region',
                       end=r'AMGCL_TOC\("interpolation"\);', rules=RS_RULES, uf=RS_UF)),
    template='#define MODEL_INT32 1\n' + BOUNDED_PRELUDE + ONE_MALLOC + COARSEN_PRELUDE + CRS_MEMBERS_C + RS_MODEL + SPEC_RS + r'''
#ifndef VLIM
#define VLIM 8
#endif
WITNESS_CRS(A)
int w_S[CAP_NNZ], w_cf[CAP_PTR], w_do_trunc, w_eps_trunc, w_amin[NMAX + 1], w_amax[NMAX + 1], w_thr_min[NMAX + 1], w_thr_max[NMAX + 1]; size_t w_i0;
/* contract (enforced by the harness below):
 *   requires crs_wf(A) && square && no duplicate column in a row && |values| <= VLIM
 *            && cf[i] in {'C','F'} for every i (cfsplit: every point ends up C or F) && S.val has nnz slots (any content)
 *            && eps_trunc >= 0
 *   assigns  nothing visible to the caller (P is fresh)
 *   ensures  see the ENSURES clauses                                                              */
static crs *f_rs_interp(const crs *A_p, const rs_params *prm_p, const rs_strong *S_p, const char *cf)
{
#define A (*A_p)
#define prm (*prm_p)
#define S (*S_p)
  const size_t A_nnz = nonzeros(A);   /* ghost: logical length of A.col / A.val / S.val (backend::nonzeros(A)) */
/*@CUT:decls@*/
/*@CUT:body@*/
  (void)eps;
  return P;
#undef S
#undef prm
#undef A
}
void h_rs_interp(void)
{
  crs *A = crs_input();
  rs_params prm; rs_strong S;
  char *cf = (char *)malloc(CAP_PTR);
  char cf0[CAP_PTR], S0[CAP_NNZ];
  ptrdiff_t cidx[NMAX + 1]; size_t nc = 0;
  size_t i0;                                  /* ghost: the row the F/C-row clauses are checked for (arbitrary) */
  S.val = (char *)malloc(CAP_NNZ);
#ifdef DO_TRUNC
  prm.do_trunc = DO_TRUNC;                    /* variant: truncation on / off */
#else
  { _Bool dt; prm.do_trunc = dt ? 1 : 0; }
#endif
#ifdef NROWS
  A->nrows = NROWS; A->ncols = NROWS;         /* variant: exact size */
#endif
  REQUIRES(crs_wf(A, NMAX, NMAX, ZMAX) && A->nrows == A->ncols && crs_vals_small(A, VLIM) && crs_vals_even(A));
  REQUIRES(crs_rows_distinct(A));
  REQUIRES(i0 < A->nrows || A->nrows == 0);
  for (size_t i = 0; i < NMAX; ++i) if (i < A->nrows) REQUIRES(cf[i] == 'C' || cf[i] == 'F');
  MIRROR_CRS(A, A);
  for (size_t j = 0; j < CAP_NNZ; ++j) { S0[j] = S.val[j]; w_S[j] = S.val[j] != 0; }
  for (size_t i = 0; i < CAP_PTR; ++i) { cf0[i] = cf[i]; w_cf[i] = cf[i]; }
  w_do_trunc = prm.do_trunc; w_eps_trunc = prm.eps_trunc; w_i0 = i0;
  for (size_t i = 0; i < NMAX; ++i) { cidx[i] = -1; if (i < A->nrows) {
    if (cf[i] == 'C') cidx[i] = (ptrdiff_t)(nc++);
    rs_extrema(A, S.val, cf, i, &w_amin[i], &w_amax[i]);
    w_thr_min[i] = SCALE_MUL(w_amin[i], prm.eps_trunc); w_thr_max[i] = SCALE_MUL(w_amax[i], prm.eps_trunc);
    /* precondition eps_trunc >= 0, instantiated at the two values the region scales in row i: the sign is kept */
    REQUIRES(!prm.do_trunc || cf[i] == 'C' || (w_thr_min[i] <= 0 && w_thr_max[i] >= 0));
  } }
  crs_snap s; crs_snapshot(A, &s);
  g_thrown = 0;
  crs *P = f_rs_interp(A, &prm, &S, cf);
  ENSURES(!g_cap_exceeded, "bound artefact: allocation within verification capacity");
  ENSURES((g_thrown != 0) == (nc == 0), "interpolation: empty_level is thrown <=> there is no C point");
  if (!g_thrown) {
    rs_post r;
    ENSURES(P->nrows == A->nrows && P->ncols == nc, "interpolation: P is n x nc (nc = number of C points)");
    ENSURES(crs_wf(P, NMAX, NMAX, ZMAX) && P->nnz == (size_t)P->ptr[P->nrows],
            "safety: interpolation: P is well-formed CRS (monotone ptr from 0, every column index in [0, nc); an unwritten slot would hold an arbitrary index)");
    r.crows = r.fill = r.keep = r.drop = r.vals = r.nodup = 1;
#ifndef RS_ALL_ROWS
    rs_spec_row(A, S.val, cf, &prm, P, i0, cidx, w_thr_min[i0], w_thr_max[i0], &r);
#else
    for (size_t i = 0; i < NMAX; ++i) if (i < A->nrows) rs_spec_row(A, S.val, cf, &prm, P, i, cidx, w_thr_min[i], w_thr_max[i], &r);
#endif
    ENSURES(r.crows, "interpolation: a C row has the single entry (i, cidx[i]) = 1");
    ENSURES(r.keep, "interpolation: every strong C coupling strictly beyond the truncation threshold (all of them without truncation) is an entry of the F row, column cidx[j], in row order");
    ENSURES(r.drop, "interpolation: no strong C coupling strictly inside the truncation threshold is an entry of the F row");
    ENSURES(r.fill, "safety (no uninitialised slot): interpolation: every slot of an F row of P is written with one kept strong C coupling (no unwritten or extra slot)");
    ENSURES(r.nodup, "interpolation: no duplicate column in a row of P");
    ENSURES(r.vals, "interpolation: F-row weights are alpha*a_ij (a_ij<0) / beta*a_ij with alpha = -cf*|sum N^-|/(|a_ii'|*|sum P^-|), cf = |sum P^-|/|sum of the KEPT P^-| (truncation rescales so that the total weight is unchanged)");
  }
  for (size_t j = 0; j < CAP_NNZ; ++j) ENSURES(S.val[j] == S0[j], "frame: the strong-connection flags are not modified");
  for (size_t i = 0; i < CAP_PTR; ++i) ENSURES(cf[i] == cf0[i], "frame: the C/F splitting is not modified");
  ENSURES(crs_unchanged(A, &s), "frame: the input matrix is not modified");
  CANARY("harness.end");
}
''',
    entry='h_rs_interp', mode='unwound', unwind='max(ZMAX,NMAX)+3', model='int32 (ordered ring) + uninterpreted scalar * / -',
    # measured (minisat, load 8): n <= 3 fully symbolic 150-190 s; split by exact size and do_trunc: 75 s + 32 s + 14 s
    variants=[{'NMAX': 3, 'ZMAX': 5, 'NROWS': 3, 'DO_TRUNC': 1}, {'NMAX': 3, 'ZMAX': 5, 'NROWS': 3, 'DO_TRUNC': 0},
              {'NMAX': 2, 'ZMAX': 4}],
    thorough_variants=[{'NMAX': 3, 'ZMAX': 6, 'NROWS': 3, 'DO_TRUNC': 1}, {'NMAX': 3, 'ZMAX': 6, 'NROWS': 3, 'DO_TRUNC': 0},
                       {'NMAX': 2, 'ZMAX': 4}],
    bound_text='all square matrices with n <= 3 (variants: n == 3 with truncation on / off, n <= 2), nnz <= 5 (thorough 6), no duplicate column in a row, integer values in [-7,7] '
               '(diagonal stored or not, rows unsorted), every 0/1 strong-connection flag array, every C/F splitting, do_trunc '
               'on/off, every threshold scaling that preserves the sign (eps_trunc >= 0); all symbolic',
    assumptions=A_BOUNDED + [A_NODUP,
        'A-inst-rs: Val = Scalar = int32 with |v| <= 7: sums, comparisons, std::min/max and math::norm are exact; the Scalar '
        'products / quotients / negations of the weight formula and x * eps_trunc are uninterpreted functions; '
        'amgcl::detail::eps<Scalar>(1) = 0 (on integer-valued sums norm(x) > eps <=> x != 0)',
        'A-eps-trunc: eps_trunc >= 0, used as: eps_trunc * x <= 0 for x <= 0 and >= 0 for x >= 0 at the two row extrema the region scales',
        'A-given: connect() / cfsplit() are given: S.val is any flag array, cf any array over {C, F}'],
    replay='coarsening', timeout=600,
    witness=wit('A') + ['w_S', 'w_cf', 'w_do_trunc', 'w_eps_trunc', 'w_amin', 'w_amax', 'w_thr_min', 'w_thr_max', 'w_i0'],
    not_decided=['floating-point evaluation of the weights (rounding), hence "rows sum to one" as a numerical statement',
                 'connect() and cfsplit() (separate units)', 'transpose(*P) (unit builtin_transpose, C08)'],
)
rs_interp.unwindset = [(REPO_LOOPS, 'NMAX+1')]


# ================================================================================================
# smoothed_aggregation::transfer_operators, smoothing region (omega, counting pass, fill pass)
# ================================================================================================
def _opassign(m):
    """lvalue OP= e;  ->  lvalue = UF_OP(lvalue, uf(e));   (value-typed lvalues only)"""
    return '%s = UF_%s(%s, %s);' % (m.group('l'), _OPN[m.group('op')], m.group('l'), X.uf_expr(m.group('e')))


def _va_select(m):
    return 'value_type va = (%s) ? %s : %s;' % (m.group('c'), X.uf_expr(m.group('a')), X.uf_expr(m.group('b')))


SA_RULES = CALL_RULES + [
    Rule(r'auto P = std_make_shared<Matrix>\(\);', 'crs *P = crs_new();', 1, why='R-auto'),
    Rule(r'spectral_radius<1>\(', 'spectral_radius_true(', 1, why='backend::spectral_radius<true>: opaque callee (ghost result)'),
    Rule(r'std_vector<ptrdiff_t> marker\((?P<a>[^;]+)\);',
         r'vec_pd marker_v = vec_pd_new_n(\g<a>); ptrdiff_t *marker = marker_v.p;', 2, why='R-vector'),
    IdxRule(r'marker', 'marker_v.n', '+'),
    IdxRule(r'aggr\.strong_connection', 'aggr.sc_n', '+'),
    IdxRule(r'P_tent->ptr', 'P_tent->nrows + 1', '+'),
    IdxRule(r'P_tent->col|P_tent->val', 'T_nnz', '+'),
    IdxRule(r'P->ptr', 'P->nrows + 1', '+'),
    IdxRule(r'P->col|P->val', 'P->nnz', '+'),
    IdxRule(r'A\.ptr', 'A.nrows + 1', '+'),
    IdxRule(r'A\.col|A\.val', 'A_nnz', '+'),
    # value arithmetic: compound assignments and the conditional initialiser of va
    Rule(r'(?P<l>\bomega|\bdia|P->val\[[^;]*?\]) (?P<op>[-+*/])= (?P<e>[^;]+);', _opassign, '+', why='R-arith: x OP= e'),
    Rule(r'value_type va = \((?P<c>[^()?;]+)\)\s*\?\s*(?P<a>[^;?]+?)\s*:\s*(?P<b>[^;:?]+);', _va_select, 1, flags=re.M | re.S,
         why='R-arith: both arms of the conditional initialiser'),
]
SA_UF = [
    UF(r'\) dia = (?P<e>[^;]+);', None),                                      # dia = -omega * math::inverse(dia)
    UF(r'P->val\[[^;=]*?\] = (?P<e>[^;U]+);', '+'),                          # P->val[row_end] = va * vp
]

# the result P can have up to n * m entries (more than the inputs): its arrays get their own capacity
SA_PCAP = r'''
#define CAP_PNNZ (NMAX * NMAX + 1)
#undef NEW_NNZ
#define NEW_NNZ(T, n) NEW_CAP(T, n, CAP_PNNZ)
/* crs_wf for a matrix whose col / val arrays have capacity CAP_PNNZ */
static _Bool crs_wf_p(const crs *A, size_t nmax, size_t mmax)
{
  if (!(A->nrows <= nmax && A->ncols <= mmax)) return 0;
  if (A->ptr[0] != 0) return 0;
  for (size_t i = 0; i < NMAX + 1; ++i) if (i < A->nrows) {
    if (!(A->ptr[i] <= A->ptr[i + 1])) return 0;
  }
  if (!(A->ptr[A->nrows] >= 0 && (size_t)A->ptr[A->nrows] < CAP_PNNZ)) return 0;
  for (size_t j = 0; j < CAP_PNNZ; ++j) if (j < (size_t)A->ptr[A->nrows]) {
    if (!(A->col[j] >= 0 && (size_t)A->col[j] < A->ncols)) return 0;
  }
  return 1;
}
'''

SPEC_SA = r'''
typedef V scalar_type;
typedef struct { V relax; _Bool estimate_spectral_radius; int power_iters; } sa_params;   /* smoothed_aggregation::params (used members) */
/* backend::spectral_radius<true>(A, power_iters): opaque; the result is a ghost input, the call is recorded */
V g_rho; int g_rho_calls; const crs *g_rho_A; int g_rho_iters;
static V cxc_rho(const crs *A, int iters) { g_rho_calls++; g_rho_A = A; g_rho_iters = iters; return g_rho; }
#define spectral_radius_true(A_, it_) cxc_rho(&(A_), (it_))

/* omega as documented:  relax * (4/3) / rho  with the spectral radius estimate,  relax * (2/3)  without
 * (term shape of the evaluation: relax * ((4/3) / rho))                                                  */
static V sa_omega(const sa_params *prm)
{
  if (prm->estimate_spectral_radius) return UF_MUL(prm->relax, UF_DIV(((scalar_type)(UF_DIV(UF_CONST(4.0), UF_CONST(3)))), g_rho));
  return UF_MUL(prm->relax, ((scalar_type)(UF_DIV(UF_CONST(2.0), UF_CONST(3)))));
}
typedef struct { _Bool pattern, vals; } sa_post;
#ifndef TROWMAX
#define TROWMAX NMAX
#endif
/* every row of the tentative prolongation has at most TROWMAX entries (1: the piecewise-constant case, nullspace.cols == 0) */
static _Bool crs_row_len_le(const crs *T, ptrdiff_t k)
{
  for (size_t i = 0; i < NMAX; ++i) if (i < T->nrows) { if (T->ptr[i + 1] - T->ptr[i] > k) return 0; }
  return 1;
}
/* Row i of  P = (I - omega D^-1 A^F) P_tent  (documented in smoothed_aggregation.hpp), evaluated densely per column:
 *   A^F: strong off-diagonal couplings of A kept, weak ones lumped to the diagonal; D = diag(A^F):
 *        d_i = ((0 + x_1) + x_2) + ...   over the diagonal entry and the weak off-diagonal entries of row i, in row order
 *   (I - omega D^-1 A^F)_ij = (1 - omega) * identity            for j == i      (d_i^-1 * a^F_ii = 1)
 *                           = (-omega * inverse(d_i)) * a_ij    for a strong j != i
 *   P(i, c) = sum over the strong-or-diagonal entries (i,j) of row i in row order and the entries (j,c) of P_tent in row
 *             order of  (I - omega D^-1 A^F)_ij * P_tent(j, c)   (left fold: first term assigned, later terms added)
 *   pattern of row i = the set of columns c with at least one such term, each exactly once.
 * Rows whose filtered diagonal is_zero: D^-1 does not exist; only the pattern is stated.
 * Checked for ONE entry (i, c0) chosen arbitrarily by the harness (universal generalisation).                         */
static void sa_spec_entry(const crs *A, const char *st, const crs *T, V omega, const crs *P, size_t i, size_t c0, sa_post *r)
{
  const ptrdiff_t ab = A->ptr[i], ae = A->ptr[i + 1], b = P->ptr[i], e = P->ptr[i + 1];
  V d = MATH_zero(V);
  V acc = 0; _Bool has = 0; int slots = 0; ptrdiff_t at = -1;
  r->pattern = r->vals = 1;
  for (size_t t = 0; t < NMAX; ++t) { const ptrdiff_t j = ab + (ptrdiff_t)t; if (j < ae) {
    if ((size_t)A->col[j] == i || !st[j]) d = UF_ADD(d, A->val[j]);
  } }
  const _Bool dz = math_is_zero(d) ? 1 : 0;
  const V m = UF_MUL(UF_NEG(omega), math_inverse(d));
  const V one_minus = UF_MUL(((scalar_type)(UF_SUB(UF_CONST(1), omega))), MATH_identity(V));
  for (size_t t = 0; t < NMAX; ++t) { const ptrdiff_t ja = ab + (ptrdiff_t)t; if (ja < ae) {
    const size_t ca = (size_t)A->col[ja];
    if (ca != i && !st[ja]) continue;
    const V va = ca == i ? one_minus : UF_MUL(m, A->val[ja]);
    const ptrdiff_t tb = T->ptr[ca], te = T->ptr[ca + 1];
    for (size_t u = 0; u < TROWMAX; ++u) { const ptrdiff_t jp = tb + (ptrdiff_t)u; if (jp < te && (size_t)T->col[jp] == c0) {
      const V term = UF_MUL(va, T->val[jp]);
      if (!has) { has = 1; acc = term; } else acc = UF_ADD(acc, term);
    } }
  } }
  /* column c0 occurs in row i of P exactly once if it has a term, not at all otherwise (set equality, no duplicates,
   * no unwritten slot: a slot holds some column c0 < ncols by well-formedness, and then c0 must have a term) */
  if (e - b > (ptrdiff_t)NMAX) r->pattern = 0;
  for (size_t t = 0; t < NMAX; ++t) { const ptrdiff_t p = b + (ptrdiff_t)t; if (p < e && (size_t)P->col[p] == c0) { ++slots; at = p; } }
  if (slots != (has ? 1 : 0)) r->pattern = 0;
  else if (has && !dz && P->val[at] != acc) r->vals = 0;
}
'''

sa_smooth = Unit(
    name='smoothed_aggregation_smoothing', props=['C04', 'C10'],
    functions=['coarsening::smoothed_aggregation::transfer_operators(const Matrix&) [region: omega, counting pass, fill pass '
               'of the prolongation smoothing; aggregates and tentative prolongation are symbolic inputs]',
               'crs::set_size', 'crs::scan_row_sizes', 'crs::set_nonzeros'],
    desc='P is n x ncols(P_tent), well-formed; row pattern == pattern of (A_strong + diag) * P_tent (no '
         'duplicate column); values P = (I - omega D^-1 A^F) P_tent as an order-sensitive fold over uninterpreted + * inverse, '
         'A^F = strong couplings with the weak ones lumped to the diagonal, omega = relax*(4/3)/rho or relax*(2/3)',
    cuts=dict(crs_member_cuts(),
              body=Cut(SMOOTHED, r'auto P = std::make_shared<Matrix>\(\);\s*P->set_size\(rows\(\*P_tent\), cols\(\*P_tent\), true\);',
                       kind='region', end=r'AMGCL_TOC\("smoothing"\);', rules=SA_RULES, uf=SA_UF)),
    template='#define MODEL_UF 1\n#define CXC_UF_T unsigned short\n'
             + BOUNDED_PRELUDE + ONE_MALLOC + SA_PCAP + COARSEN_PRELUDE + CRS_MEMBERS_C + SPEC_SA + r'''
WITNESS_CRS(A)
WITNESS_CRS(T)
int w_strong[CAP_NNZ], w_estimate, w_iters; V w_relax, w_rho; size_t w_i0, w_c0;
/* contract (enforced by the harness below):
 *   requires crs_wf(A), square, one stored diagonal per row, no duplicate column in a row; strong_connection has nnz slots
 *            (any content); P_tent is a well-formed n x m matrix without duplicate columns in a row (m <= NMAX)
 *   assigns  nothing visible to the caller (P is fresh)
 *   ensures  see the ENSURES clauses                                                              */
static crs *f_sa_smooth(const crs *A_p, sa_params *prm_p, const aggregates *aggr_p, const crs *P_tent, size_t n)
{
#define A (*A_p)
#define prm (*prm_p)
#define aggr (*aggr_p)
  const size_t A_nnz = nonzeros(A), T_nnz = nonzeros(*P_tent);   /* ghost: logical lengths (backend::nonzeros) */
/*@CUT:body@*/
  return P;
#undef aggr
#undef prm
#undef A
}
void h_sa_smooth(void)
{
  crs *A = crs_input();
  crs *T = crs_input();
  sa_params prm; aggregates aggr;
  char st0[CAP_NNZ];
  size_t i0, c0;                              /* ghost: the entry (row, column) the pattern / value clauses are checked for (arbitrary) */
  { _Bool es; prm.estimate_spectral_radius = es ? 1 : 0; }
#ifdef NROWS
  A->nrows = NROWS; A->ncols = NROWS;         /* variant: exact size */
#endif
  REQUIRES(crs_wf(A, NMAX, NMAX, ZMAX) && A->nrows == A->ncols);
  REQUIRES(crs_rows_distinct(A) && crs_unique_diag(A));
  REQUIRES(crs_wf(T, NMAX, NMAX, ZTMAX) && T->nrows == A->nrows && crs_rows_distinct(T) && crs_row_len_le(T, TROWMAX));
  REQUIRES(i0 < A->nrows && c0 < T->ncols);
#ifdef ROW_FULL
  /* sub-domain kept as its own (cheaper) variant: the watched row is full, i.e. it can hold a weak AND a strong off-diagonal coupling at
   * the same time -- the only shape in which the lumping of the weak couplings into the filtered diagonal is visible in the values of P */
  REQUIRES(A->ptr[i0 + 1] - A->ptr[i0] == (ptrdiff_t)NMAX);
#endif
  aggr.count = T->ncols; aggr.id = 0; aggr.id_n = 0;
  aggr.strong_connection = (char *)malloc(CAP_NNZ); aggr.sc_n = (size_t)A->ptr[A->nrows];
  MIRROR_CRS(A, A); MIRROR_CRS(T, T);
  for (size_t j = 0; j < CAP_NNZ; ++j) { st0[j] = aggr.strong_connection[j]; w_strong[j] = aggr.strong_connection[j] != 0; }
  w_estimate = prm.estimate_spectral_radius; w_iters = prm.power_iters; w_relax = prm.relax; w_rho = g_rho; w_i0 = i0; w_c0 = c0;
  crs_snap s, sT; crs_snapshot(A, &s); crs_snapshot(T, &sT);
  const sa_params prm0 = prm;
  g_thrown = 0; g_rho_calls = 0;
  crs *P = f_sa_smooth(A, &prm, &aggr, T, A->nrows);
  ENSURES(!g_cap_exceeded, "bound artefact: allocation within verification capacity");
  ENSURES(!g_thrown, "smoothing: does not throw");
  ENSURES(g_rho_calls == (prm0.estimate_spectral_radius ? 1 : 0) && (!g_rho_calls || (g_rho_A == A && g_rho_iters == prm0.power_iters)),
          "smoothing: the spectral radius of A is estimated exactly when estimate_spectral_radius is set (with prm.power_iters)");
  ENSURES(P->nrows == A->nrows && P->ncols == T->ncols, "smoothing: P is n x ncols(P_tent)");
  ENSURES(crs_wf_p(P, NMAX, NMAX) && P->nnz == (size_t)P->ptr[P->nrows],
          "safety: smoothing: P is well-formed CRS (monotone ptr from 0, every column index in range)");
  {
    sa_post r;
    sa_spec_entry(A, st0, T, sa_omega(&prm0), P, i0, c0, &r);
    ENSURES(r.pattern, "safety (no unwritten slot): smoothing: pattern of a row of P == pattern of (A_strong + diag) * P_tent: a column occurs exactly once if it has a contribution, never otherwise (no duplicate)");
    ENSURES(r.vals, "smoothing: P = (I - omega D^-1 A^F) P_tent entry by entry (A^F: weak couplings lumped to the diagonal; omega = relax*(4/3)/rho or relax*(2/3)), as a fold in row order");
  }
  for (size_t j = 0; j < CAP_NNZ; ++j) ENSURES(aggr.strong_connection[j] == st0[j], "frame: strong_connection is not modified");
  ENSURES(prm.relax == prm0.relax && prm.estimate_spectral_radius == prm0.estimate_spectral_radius && prm.power_iters == prm0.power_iters,
          "frame: the smoothing region does not modify the parameters it reads");
  ENSURES(crs_unchanged(A, &s) && crs_unchanged(T, &sT), "frame: A and P_tent are not modified");
  CANARY("harness.end");
}
''',
    entry='h_sa_smooth', mode='unwound', unwind='NMAX*NMAX+3', model='uf (16-bit tokens)',
    types=['value_type', 'scalar_type'],
    # measured (minisat, load 8): n == 3 / nnz <= 5 / one entry per tentative row: 190 s (70 s of it index safety + wf alone);
    # n == 3 / nnz <= 4: 38 s; n <= 2 / nnz <= 4 / tentative rows <= 2 entries: 34 s; n == 3 with general tentative rows: > 900 s
    variants=[{'NMAX': 3, 'ZMAX': 4, 'ZTMAX': 3, 'TROWMAX': 1, 'NROWS': 3}, {'NMAX': 2, 'ZMAX': 4, 'ZTMAX': 3, 'TROWMAX': 2},
              {'NMAX': 3, 'ZMAX': 5, 'ZTMAX': 3, 'TROWMAX': 1, 'NROWS': 3, 'ROW_FULL': 1}],
    thorough_variants=[{'NMAX': 3, 'ZMAX': 5, 'ZTMAX': 3, 'TROWMAX': 1, 'NROWS': 3}, {'NMAX': 2, 'ZMAX': 4, 'ZTMAX': 4, 'TROWMAX': 2}],
    bound_text='three variants: (a) n == 3, nnz <= 4 (thorough 5), tentative prolongation with at most one entry per row (the '
               'piecewise-constant case); (a2) n == 3, nnz <= 5 with the watched row full (a weak and a strong coupling in one row); (b) n <= 2, nnz <= 4, tentative rows with up to 2 entries, nnz(P_tent) <= 3 (thorough 4). '
               'One stored diagonal per row, no duplicate column in a row of A or P_tent, m <= n columns; every 0/1 strong-connection '
               'flag array; values, relax, rho uninterpreted; estimate_spectral_radius on/off; all symbolic',
    assumptions=A_BOUNDED + [A_NODUP,
        'A-diag: every row of A stores exactly one diagonal entry (the identity term of I - omega D^-1 A^F is attached to it)',
        'A-uf: values are opaque 16-bit tokens (EUF small-model argument), + - * / inverse is_zero uninterpreted',
        'A-given: aggregates (strong_connection) and the tentative prolongation are given inputs; backend::spectral_radius is an '
        'opaque callee whose result is a ghost input'],
    replay='coarsening', timeout=900,
    witness=wit('A', 'T') + ['w_strong', 'w_estimate', 'w_iters', 'w_relax', 'w_rho', 'w_i0', 'w_c0'],
    not_decided=['rows whose filtered diagonal is zero (values)', 'floating-point evaluation, hence "rows sum to one" as a numerical statement',
                 'the statements before the region: Aggregates, eps_strong *= 0.5, tentative_prolongation (separate units)',
                 'backend::spectral_radius'],
)
sa_smooth.unwindset = [(r'for\(ptrdiff_t jp', 'TROWMAX+1'), (REPO_LOOPS, 'NMAX+1')]

# ================================================================================================
# ruge_stuben::connect  (strong connections and their transposed pattern)
# ================================================================================================
CN_SIG = (r'static void connect\(\s*backend::crs<Val,  Col, Ptr> const &A, float eps_strong,\s*'
          r'backend::crs<char, Col, Ptr>       &S,\s*std::vector<char>                  &cf\s*\)\s*(?=\{)')

CN_RULES = [
    Rule(r'^\s*typedef typename math::scalar_of<Val>::type Scalar;\n', '', 1, early=True, why='Scalar is bound by the instantiation'),
    Rule(r'eps<Scalar>\(1\)', 'DETAIL_EPS(Scalar, 1)', 1, why='amgcl::detail::eps<T>(n) at the integer instantiation'),
    Rule(r'S\.ptr = NEW\(Ptr,', 'S.ptr = NEW_PTR(Ptr,', 1, why='R-new'),
    Rule(r'S\.val = NEW\(char,', 'S.val = NEW_NNZ(char,', 1, why='R-new'),
    Rule(r'S\.col = new Col\[(?P<a>[^;]+)\];', r'S.col = NEW_NNZ(Col, \g<a>); const size_t S_col_n = (size_t)(\g<a>);', 1, early=True,
         why='R-new (nested brackets: before the generic rule); ghost: logical length of S.col'),
    Rule(r'for\(auto a = row_begin\(A, i\); a; \+\+a\)', 'for(ptrdiff_t a = A.ptr[i], a_end = A.ptr[i+1]; a < a_end; ++a)', 1,
         why='R-iter: definition of crs::row_iterator (builtin.hpp)'),
    Rule(r'\ba\.col\(\)', 'A.col[a]', 1, why='R-iter'),
    Rule(r'\ba\.value\(\)', 'A.val[a]', 1, why='R-iter'),
    Rule(r'\b(\w+) ([-+*/])= (eps_strong)\b', lambda m: '%s = SCALE_%s(%s, %s)' % (m.group(1), _OPN[m.group(2)], m.group(1), m.group(3)),
         1, why='R-arith: Val OP= float parameter'),
    Rule(r'S\.scan_row_sizes\(\);', 'scrs_scan_row_sizes(&S);', 1, why='R-member-call'),
    IdxRule(r'cf', 'n', '+'),
    IdxRule(r'S\.ptr', 'n + 1', '+'),
    IdxRule(r'S\.val', 'nnz', '+'),
    IdxRule(r'S\.col', 'S_col_n', '+'),
    IdxRule(r'A\.ptr', 'A.nrows + 1', '+'),
    IdxRule(r'A\.col|A\.val', 'nnz', '+'),
]

SPEC_CN = r'''
/* backend::crs<char, Col, Ptr>: the fields connect() touches, in declaration order */
typedef struct { size_t nrows, ncols, nnz; ptr_type *ptr; col_type *col; char *val; } scrs;
static ptr_type scrs_scan_row_sizes(scrs *self)
{
/*@CUT:scan_row_sizes@*/
}
#define IN_ROW(A, i, j) ((ptrdiff_t)(j) >= (A)->ptr[i] && (ptrdiff_t)(j) < (A)->ptr[(i) + 1])
/* most negative off-diagonal coupling of row i (0 when there is none) */
static int cn_row_min(const crs *A, size_t i)
{
  int lo = 0;
  for (size_t j = 0; j < CAP_NNZ; ++j) if (IN_ROW(A, i, j) && (size_t)A->col[j] != i && A->val[j] < lo) lo = A->val[j];
  return lo;
}
typedef struct { _Bool frow, flags, cfkeep; } cn_post;
/* Row i (arbitrary, chosen by the harness).  Documented (ruge_stuben.hpp, params::eps_strong and the comment on connect):
 *   i is strongly negatively coupled to j  if  -a_ij >= eps_str * max_{a_ik<0} |a_ik|   -- the code tests  a_ij < eps_str * min_k a_ik
 *   (strict); the two differ only at equality, so: strictly beyond the threshold => flag 1, strictly inside or j == i => flag 0,
 *   at equality either; every flag is 0 or 1.  A variable without a negative off-diagonal coupling is marked F and has NO
 *   strong connection (all flags of its row 0); every other variable stays undecided (U).                                   */
static void cn_spec_row(const crs *A, const scrs *S, const char *cf, int thr, size_t i, cn_post *r)
{
  const int amin = cn_row_min(A, i);
  r->frow = r->flags = r->cfkeep = 1;
  if (amin == 0) { if (cf[i] != 'F') r->frow = 0; } else if (cf[i] != 'U') r->cfkeep = 0;
  for (size_t j = 0; j < CAP_NNZ; ++j) if (IN_ROW(A, i, j)) {
    const int v = A->val[j]; const char f = S->val[j];
    if (!(f == 0 || f == 1)) r->flags = 0;
    if (amin == 0) { if (f != 0) r->frow = 0; continue; }
    if ((size_t)A->col[j] == i) { if (f != 0) r->flags = 0; continue; }
    if (v < thr && f != 1) r->flags = 0;
    if (v > thr && f != 0) r->flags = 0;
  }
}
/* S.ptr / S.col hold the transposed pattern of the flags: row c lists every i with a flagged entry (i, c), ascending */
static _Bool cn_spec_transposed(const crs *A, const scrs *S, size_t c0, size_t i0)
{
  int want = 0, got = 0;
  for (size_t j = 0; j < CAP_NNZ; ++j) if (IN_ROW(A, i0, j) && (size_t)A->col[j] == c0 && S->val[j]) ++want;
  for (size_t k = 0; k < CAP_NNZ; ++k) if (IN_ROW(S, c0, k)) {
    if ((size_t)S->col[k] == i0) ++got;
    if ((ptrdiff_t)k + 1 < S->ptr[c0 + 1] && !(S->col[k] <= S->col[k + 1])) return 0;
  }
  return want == got;
}
static _Bool scrs_wf(const scrs *S, size_t n, size_t nflag)
{
  if (!(S->nrows == n && S->ncols == n && S->ptr[0] == 0)) return 0;
  for (size_t i = 0; i < NMAX; ++i) if (i < n) { if (!(S->ptr[i] <= S->ptr[i + 1])) return 0; }
  if ((size_t)S->ptr[n] != nflag) return 0;
  for (size_t k = 0; k < CAP_NNZ; ++k) if (k < nflag) { if (!(S->col[k] >= 0 && (size_t)S->col[k] < n)) return 0; }
  return 1;
}
'''

rs_connect = Unit(
    name='ruge_stuben_connect', props=['C04', 'C10'],
    functions=['coarsening::ruge_stuben::connect(A, eps_strong, S, cf)', 'crs::scan_row_sizes'],
    desc='every strong-connection flag of every row is written: 1 for an off-diagonal coupling strictly beyond eps_strong * (most '
         'negative off-diagonal of the row), 0 strictly inside and on the diagonal; a row without negative off-diagonal coupling is '
         'marked F and has no strong connection; S.ptr / S.col hold the transposed pattern of the flags',
    cuts=dict(scan_row_sizes=crs_member_cuts()['scan_row_sizes'],
              body=Cut(RS, CN_SIG, rules=CN_RULES)),
    template='#define MODEL_INT32 1\n' + BOUNDED_PRELUDE + ONE_MALLOC + COARSEN_PRELUDE + RS_MODEL + SPEC_CN + r'''
#ifndef VLIM
#define VLIM 8
#endif
WITNESS_CRS(A)
int w_eps_strong, w_thr[NMAX + 1]; size_t w_i0, w_c0;
/* contract (enforced by the harness below):
 *   requires crs_wf(A) && square && no duplicate column in a row && |values| <= VLIM; cf[i] == 'U' for every i (as passed by
 *            transfer_operators); S default-constructed; eps_strong >= 0
 *   assigns  S.nrows, S.ncols, S.ptr, S.col, S.val (fresh arrays), cf[i] for rows without a negative off-diagonal coupling
 *   ensures  see the ENSURES clauses                                                              */
static void f_rs_connect(const crs *A_p, int eps_strong, scrs *S_p, char *cf)
{
#define A (*A_p)
#define S (*S_p)
/*@CUT:body@*/
#undef S
#undef A
}
void h_rs_connect(void)
{
  crs *A = crs_input();
  scrs S; int eps_strong;
  char *cf = (char *)malloc(CAP_PTR);
  size_t i0, c0;                              /* ghost: the row / column the clauses are checked for (arbitrary) */
  S.nrows = 0; S.ncols = 0; S.nnz = 0; S.ptr = 0; S.col = 0; S.val = 0;
  REQUIRES(crs_wf(A, NMAX, NMAX, ZMAX) && A->nrows == A->ncols && crs_vals_small(A, VLIM) && crs_vals_even(A));
  REQUIRES(crs_rows_distinct(A));
  REQUIRES(i0 < A->nrows && c0 < A->nrows);
  for (size_t i = 0; i < NMAX; ++i) if (i < A->nrows) {
    REQUIRES(cf[i] == 'U');
    w_thr[i] = SCALE_MUL(cn_row_min(A, i), eps_strong);
    REQUIRES(w_thr[i] <= 0);                  /* precondition eps_strong >= 0 at the value the function scales in row i */
  }
  MIRROR_CRS(A, A); w_eps_strong = eps_strong; w_i0 = i0; w_c0 = c0;
  crs_snap s; crs_snapshot(A, &s);
  g_thrown = 0;
  f_rs_connect(A, eps_strong, &S, cf);
  ENSURES(!g_cap_exceeded, "bound artefact: allocation within verification capacity");
  {
    cn_post r; size_t nflag = 0;
    cn_spec_row(A, &S, cf, w_thr[i0], i0, &r);
    ENSURES(r.flags, "safety (no uninitialised flag): connect: every flag of a row with a negative off-diagonal coupling is written: 1 strictly beyond eps_strong * min_k a_ik, 0 strictly inside and on the diagonal, 0/1 at equality");
    ENSURES(r.frow, "safety (no uninitialised flag): connect: a variable without a negative off-diagonal coupling is marked F and has no strong connection (every flag of its row is written 0)");
    ENSURES(r.cfkeep, "connect: a variable with a negative off-diagonal coupling stays undecided (U)");
    for (size_t j = 0; j < CAP_NNZ; ++j) if (j < (size_t)A->ptr[A->nrows] && S.val[j]) ++nflag;
    ENSURES(scrs_wf(&S, A->nrows, nflag), "safety: connect: S.ptr / S.col are a well-formed n x n pattern with one entry per strong connection");
    ENSURES(cn_spec_transposed(A, &S, c0, i0), "connect: row c of S.ptr / S.col lists exactly the rows i with a strong connection (i, c), ascending (transposed pattern)");
  }
  ENSURES(crs_unchanged(A, &s), "frame: the input matrix is not modified");
  CANARY("harness.end");
}
''',
    entry='h_rs_connect', mode='unwound', unwind='max(ZMAX,NMAX)+3', model='int32 (ordered ring) + uninterpreted scaling by eps_strong',
    # measured (minisat, load 5): 3/5 58 s, 3/6 95-115 s
    variants=[{'NMAX': 3, 'ZMAX': 5}],
    thorough_variants=[{'NMAX': 3, 'ZMAX': 6}],
    bound_text='all square matrices with n <= 3, nnz <= 5 (thorough 6), no duplicate column in a row, even integer values in [-8,8] '
               '(diagonal stored or not, rows unsorted, any signs), every threshold scaling with eps_strong >= 0; all symbolic; '
               'fresh arrays hold arbitrary prior heap content',
    assumptions=A_BOUNDED + [A_NODUP,
        'A-inst-rs: Val = int32, even, |v| <= 8: comparisons, std::min and math::norm are exact; x * eps_strong is an uninterpreted '
        'function with eps_strong * x <= 0 for x <= 0; amgcl::detail::eps<Scalar>(1) = 1 < the unit 2 of the values'],
    replay='coarsening', timeout=600,
    witness=wit('A') + ['w_eps_strong', 'w_thr', 'w_i0', 'w_c0'],
    not_decided=['the boundary case -a_ij == eps_strong * max|a_ik| (documented >=, implemented as strict <): either flag is accepted',
                 'floating-point rounding of eps_strong * a_min'],
)
rs_connect.unwindset = [(r'i < nnz', 'ZMAX+1'), (REPO_LOOPS, 'NMAX+1')]

# ================================================================================================
# ruge_stuben::cfsplit  (C/F splitting)
# ================================================================================================
CF_SIG = (r'static void cfsplit\(\s*backend::crs<Val,  Col, Ptr> const &A,\s*backend::crs<char, Col, Ptr> const &S,\s*'
          r'std::vector<char>                  &cf\s*\)\s*(?=\{)')


def _vec_local(m):
    return 'vec_pd %s_v = vec_pd_new_n(%s, %s); ptrdiff_t *%s = %s_v.p;' % (m.group('v'), m.group('a'), m.group('x') or '0', m.group('v'), m.group('v'))


CF_RULES = [
    Rule(r'std_vector<(?:Col|Ptr)> (?P<v>\w+)\((?P<a>[^;,]+)(?:,\s*(?P<x>[^;]+))?\);', _vec_local, 5, why='R-vector'),
    Rule(r'std_partial_sum\(ptr\.begin\(\), ptr\.end\(\), ptr\.begin\(\)\);', 'std_partial_sum_P(ptr, ptr + ptr_v.n, ptr);', 1, why='A-std'),
    Rule(r'std_replace\(cf\.begin\(\), cf\.end\(\),', 'std_replace_char(cf, cf + n,', None, why='A-std (optional: a dropped call must fail a postcondition, not the extraction)'),
    Rule(r'std_swap\(', 'STD_SWAP_PD(', '+', why='A-std'),
    IdxRule(r'cf', 'n', '+'),
    IdxRule(r'lambda', 'lambda_v.n', '+'),
    IdxRule(r'ptr', 'ptr_v.n', '+'),
    IdxRule(r'cnt', 'cnt_v.n', '+'),
    IdxRule(r'i2n', 'i2n_v.n', '+'),
    IdxRule(r'n2i', 'n2i_v.n', '+'),
    IdxRule(r'S\.ptr', 'n + 1', '+'),
    IdxRule(r'S\.col', 'S_col_n', '+'),
    IdxRule(r'S\.val', 'A_nnz', '+'),
    IdxRule(r'A\.ptr', 'A.nrows + 1', '+'),
    IdxRule(r'A\.col', 'A_nnz', '+'),
]

SPEC_CF = r'''
static void std_replace_char(char *first, char *last, char a, char b) { for (char *p = first; p != last; ++p) if (*p == a) *p = b; }   /* std::replace (A-std) */
#define STD_SWAP_PD(a, b) do { ptrdiff_t swap_t_ = (a); (a) = (b); (b) = swap_t_; } while (0)                                        /* std::swap (A-std) */
/* postcondition of connect() for ALL rows / columns (precondition here) */
static _Bool cf_pre_connect(const crs *A, const scrs *S, const char *cf)
{
  size_t nflag = 0;
  for (size_t j = 0; j < CAP_NNZ; ++j) if (j < (size_t)A->ptr[A->nrows]) { if (!(S->val[j] == 0 || S->val[j] == 1)) return 0; if (S->val[j]) ++nflag; }
  if (!scrs_wf(S, A->nrows, nflag)) return 0;
  for (size_t i = 0; i < NMAX; ++i) if (i < A->nrows) {
    if (!(cf[i] == 'U' || cf[i] == 'F')) return 0;
    for (size_t j = 0; j < CAP_NNZ; ++j) if (IN_ROW(A, i, j) && S->val[j]) {
      if ((size_t)A->col[j] == i) return 0;       /* the diagonal is never a strong connection            */
      if (cf[i] == 'F') return 0;                 /* a variable marked F by connect has no strong connection */
    }
    for (size_t c = 0; c < NMAX; ++c) if (c < A->nrows) { if (!cn_spec_transposed(A, S, c, i)) return 0; }
  }
  return 1;
}
'''

rs_cfsplit = Unit(
    name='ruge_stuben_cfsplit', props=['C04', 'C10'],
    functions=['coarsening::ruge_stuben::cfsplit(A, S, cf)'],
    desc='for every strong-connection pattern that satisfies the postcondition of connect(): every variable ends up C or F, variables '
         'marked F by connect() stay F, every subscript of the bucket tables (lambda, ptr, cnt, i2n, n2i) is in range; A and S untouched',
    cuts=dict(scan_row_sizes=crs_member_cuts()['scan_row_sizes'],
              body=Cut(RS, CF_SIG, rules=CF_RULES)),
    template='#define MODEL_INT32 1\n' + BOUNDED_PRELUDE + ONE_MALLOC + COARSEN_PRELUDE + RS_MODEL + SPEC_CN + SPEC_CF + r'''
WITNESS_CRS(A)
int w_S[CAP_NNZ], w_cf[CAP_PTR];
/* contract (enforced by the harness below):
 *   requires crs_wf(A) && square && no duplicate column in a row; (S, cf) satisfy the postcondition of connect(): flags 0/1, never on
 *            the diagonal, none in a row marked F, S.ptr / S.col the transposed pattern of the flags; cf[i] in {U, F}
 *   assigns  cf[0 .. n-1]
 *   ensures  see the ENSURES clauses                                                              */
static void f_rs_cfsplit(const crs *A_p, const scrs *S_p, char *cf)
{
#define A (*A_p)
#define S (*S_p)
  const size_t A_nnz = nonzeros(A), S_col_n = (size_t)S.ptr[S.nrows];   /* ghost: logical lengths */
/*@CUT:body@*/
#undef S
#undef A
}
void h_rs_cfsplit(void)
{
  crs *A = crs_input();
  scrs S;
  char *cf = (char *)malloc(CAP_PTR);
  char cf0[CAP_PTR], S0[CAP_NNZ]; ptr_type Sp0[CAP_PTR]; col_type Sc0[CAP_NNZ];
  S.ptr = (ptr_type *)malloc(sizeof(ptr_type) * CAP_PTR); S.col = (col_type *)malloc(sizeof(col_type) * CAP_NNZ); S.val = (char *)malloc(CAP_NNZ);
  S.nnz = 0;
#ifdef NROWS
  A->nrows = NROWS; A->ncols = NROWS;         /* variant: exact size */
#endif
  REQUIRES(crs_wf(A, NMAX, NMAX, ZMAX) && A->nrows == A->ncols);
  REQUIRES(crs_rows_distinct(A));
  S.nrows = A->nrows; S.ncols = A->nrows;
  REQUIRES(cf_pre_connect(A, &S, cf));
  MIRROR_CRS(A, A);
  for (size_t j = 0; j < CAP_NNZ; ++j) { S0[j] = S.val[j]; Sc0[j] = S.col[j]; w_S[j] = S.val[j]; }
  for (size_t i = 0; i < CAP_PTR; ++i) { cf0[i] = cf[i]; Sp0[i] = S.ptr[i]; w_cf[i] = cf[i]; }
  crs_snap s; crs_snapshot(A, &s);
  g_thrown = 0;
  f_rs_cfsplit(A, &S, cf);
  ENSURES(!g_cap_exceeded, "bound artefact: allocation within verification capacity");
  for (size_t i = 0; i < NMAX; ++i) if (i < A->nrows) {
    ENSURES(cf[i] == 'C' || cf[i] == 'F', "cfsplit: every variable ends up C or F");
    ENSURES(cf0[i] != 'F' || cf[i] == 'F', "cfsplit: a variable marked F by connect() stays F");
  }
  for (size_t j = 0; j < CAP_NNZ; ++j) ENSURES(S.val[j] == S0[j] && S.col[j] == Sc0[j], "frame: S is not modified");
  for (size_t i = 0; i < CAP_PTR; ++i) ENSURES(S.ptr[i] == Sp0[i], "frame: S is not modified");
  ENSURES(crs_unchanged(A, &s), "frame: the input matrix is not modified");
  CANARY("harness.end");
}
''',
    entry='h_rs_cfsplit', mode='unwound', unwind='max(ZMAX,NMAX)+3', model='none (pattern only)',
    # measured (minisat, load 5): n <= 3 symbolic 87-106 s; n == 3 exact 61 s, n <= 2 14 s
    variants=[{'NMAX': 3, 'ZMAX': 5, 'NROWS': 3}, {'NMAX': 2, 'ZMAX': 4}],
    thorough_variants=[{'NMAX': 3, 'ZMAX': 6, 'NROWS': 3}, {'NMAX': 2, 'ZMAX': 4}],
    bound_text='all square sparsity patterns with n <= 3 (variants n == 3, n <= 2), nnz <= 5 (thorough 6), no duplicate column in a row, every strong-connection '
               'flag array with its transposed pattern and every marking over {U, F} that connect() can return; all symbolic',
    assumptions=A_BOUNDED + [A_NODUP,
        'A-given: (S, cf) satisfy the postcondition of connect() (unit ruge_stuben_connect): composition by the Hoare sequence rule',
        'A-std: std::replace / std::swap / std::partial_sum are prelude stubs'],
    replay='coarsening', timeout=900,
    witness=wit('A') + ['w_S', 'w_cf'],
    not_decided=['quality of the splitting (e.g. every F variable has a strong C neighbour): not promised by the documentation'],
)
rs_cfsplit.unwindset = [(REPO_LOOPS, 'NMAX+1')]

UNITS = [rs_interp, sa_smooth, rs_connect, rs_cfsplit]
