"""relaxation::chebyshev constructor (C06 / C02): the polynomial's spectrum bounds come from the spectral radius of the
operator the smoother actually iterates on -- D^-1 A (spectral_radius<true>) when prm.scale, A otherwise -- and
d = (hi*higher + hi*lower)/2, c = (hi*higher - hi*lower)/2.  Loop-free, proved, UF scalars."""
from cxc.extract import Cut, Rule, UF
from cxc.unit import Unit

T = r'''
#define MODEL_UF 1
#include "amgcl_c.h"
int g_thrown;
typedef V scalar_type;
typedef struct mat { int id; } mat;
typedef struct dvec { int from; _Bool inverted; } dvec;        /* a diagonal vector: provenance */
typedef struct cheb_prm { unsigned degree; V higher, lower; int power_iters; _Bool scale; } cheb_prm;
typedef struct cheb { cheb_prm prm; dvec *M; V c, d; } cheb;
V __CPROVER_uninterpreted_spectral_radius(int scaled, int mat_id, int power_iters);
#define SR(s, A, it) __CPROVER_uninterpreted_spectral_radius(s, (A).id, it)
/* backend::diagonal(A, invert): proved by unit builtin_diagonal */
dvec *bk_diagonal(const mat *A, _Bool invert)
__CPROVER_assigns()
__CPROVER_ensures(__CPROVER_is_fresh(__CPROVER_return_value, sizeof(dvec)) && __CPROVER_return_value->from == A->id && __CPROVER_return_value->inverted == invert);
#define diagonal(A, inv) bk_diagonal(&(A), inv)
#define Backend_copy_vector(v, bprm) (v)
void f_cheb_ctor(cheb *self, const mat *A_p)
__CPROVER_requires(__CPROVER_is_fresh(self, sizeof(*self)) && __CPROVER_is_fresh(A_p, sizeof(mat)) && self->M == 0)
__CPROVER_assigns(self->M, self->c, self->d)
/* scale: the smoother iterates on D^-1 A: inverted diagonal of A, spectral radius of the SCALED operator */
__CPROVER_ensures(self->prm.scale ? (self->M != 0 && self->M->from == A_p->id && self->M->inverted) : self->M == 0)
#define HI0 (self->prm.scale ? SR(1, *A_p, self->prm.power_iters) : SR(0, *A_p, self->prm.power_iters))
#define HI UF_MUL(HI0, self->prm.higher)
#define LO UF_MUL(HI0, self->prm.lower)
__CPROVER_ensures(self->d == UF_MUL(UF_CONST(0.5), UF_ADD(HI, LO)) && self->c == UF_MUL(UF_CONST(0.5), UF_SUB(HI, LO)))
{
  const cheb_prm prm = self->prm;
  const int backend_prm = 0;
#define A (*A_p)
/*@CUT:body@*/
#undef A
}
void h_f_cheb_ctor(void) { cheb *s; const mat *A; f_cheb_ctor(s, A); }
'''
cheb_ctor = Unit(
    name='chebyshev_ctor', props=['C06', 'C02', 'C10'],
    functions=['relaxation::chebyshev<Backend>::chebyshev(A, prm, backend_prm)'],
    desc='Chebyshev smoother setup: spectrum bounds from spectral_radius<scale>(A) of the operator the polynomial acts on; centre d and semi-axis c',
    cuts={'body': Cut('amgcl/relaxation/chebyshev.hpp',
                      r'chebyshev\(\s*const Matrix &A, const params &prm,\s*const typename Backend::params &backend_prm\s*\) : prm\(prm\),\s*p\( Backend::create_vector\(rows\(A\), backend_prm\) \),\s*r\( Backend::create_vector\(rows\(A\), backend_prm\) \)\s*(?=\{)',
                      rules=[Rule(r'using spectral_radius;\n', '', None, why='using-declaration dropped'),
                             Rule(r'spectral_radius<(true|false|1|0)>\(A,', lambda m: 'SR(%d, A,' % (1 if m.group(1) in ('true', '1') else 0), '+', why='template argument -> first argument'),
                             Rule(r'Backend::copy_vector', 'Backend_copy_vector', None, why='R-ns'),
                             Rule(r'(?<![\w.>])(M|c|d)\s*=(?!=)', r'self->\1 =', '+', why='R-member'),
                             Rule(r'\bhi \*= (?P<e>[^;]+);', r'hi = UFE(hi * \g<e>);', None, why='compound assignment spelled out')],
                      uf=[UF(r'\blo = (?P<e>[^;]+);', None), UF(r'self->[cd] = (?P<e>[^;]+);', '+'), UF(r'UFE\((?P<e>[^;]+)\);', None)])},
    template=T.replace('int g_thrown;', 'int g_thrown;\n#define UFE(e) (e)'),
    enforce='f_cheb_ctor', replace=['bk_diagonal'], mode='loopfree', obj_bits=12, timeout=120,
    assumptions=['A-uf: scalars are opaque tokens', 'A-callee: diagonal / spectral_radius are the C08 units builtin_diagonal and builtin_spectral_radius_gershgorin (power iteration not decided)'],
    not_decided=['that the Chebyshev polynomial with these bounds is the optimal degree-d polynomial (spectral statement)'],
)
UNITS = [cheb_ctor]
