"""Relaxation apply_pre / apply_post / apply (C06, call level): each smoother step is exactly
x <- x + M^-1 (f - A x) AS A CALL SEQUENCE: residual(rhs, A, x, tmp) computed from the incoming x,
then the documented application of M^-1 to tmp, then the update of x.  Loop-free bodies, proved
for all inputs (typestate + bounded ghost trace, prelude/orch_trace.h)."""
from cxc.extract import Cut, Rule, UF, Loop, UFArgs
from cxc.unit import Unit

CALLEES = ['tr_residual', 'tr_spmv', 'tr_axpby', 'tr_axpbypcz', 'tr_vmul', 'tr_copy', 'tr_clear',
           'tr_solve_inplace', 'tr_apply', 'tr_sweep']
A_RELAX = [
    'A-abs: the typestate/trace contracts of the backend primitives (prelude/orch_trace.h) are justified by the functional contracts of C07',
    'A-setup: the diagonal / approximate inverse / factorisation object the sweep uses is the one its constructor built (dia = diagonal(A, invert=true) etc.); constructors are separate (bounded) units',
    'A-uf: scalars are opaque tokens; only is_zero(0) and !is_zero(1) are assumed',
]
HDR = '#include "orch_trace.h"\nint g_thrown;\n'
ONE = 'MATH_identity(V)'
ZERO = 'MATH_zero(V)'
IDS = 'rhs_p->id == 1 && x_p->id == 2 && tmp_p->id == 3 && A_p->id == 10'


def relax_unit(name, src, sig, kind, self_decl, self_fields, ensures, extra_rules=(), desc='', nth=None, props=('C06', 'C02', 'C10')):
    """kind: 'pre' (A, rhs, x, tmp) or 'apply' (A, rhs, x)"""
    has_tmp = kind == 'pre'
    params = 'const self_t *self, const mat *A_p, const vec *rhs_p, vec *x_p' + (', vec *tmp_p' if has_tmp else '')
    fresh = ['self', 'A_p', 'rhs_p', 'x_p'] + (['tmp_p'] if has_tmp else [])
    req = ' && '.join('__CPROVER_is_fresh(%s, sizeof(*%s))' % (p, p) for p in fresh)
    req += ''.join(' && __CPROVER_is_fresh(self->%s, sizeof(*self->%s))' % (f, f) for f in self_fields)
    tmpl = HDR + self_decl + r'''
void f_relax(%(params)s)
__CPROVER_requires(%(req)s)
__CPROVER_requires(UF_AXIOMS && g_nev == 0 && rhs_p->defined && %(xdef)s rhs_p->id == 1 && x_p->id == 2 && A_p->id == 10 %(tmpid)s)
__CPROVER_assigns(*x_p, g_ev, g_nev%(tmpasg)s)
%(ens)s
{
#define A (*A_p)
#define rhs (*rhs_p)
#define x (*x_p)
%(tmpdef)s
  const self_prm prm = self->prm;
/*@CUT:body@*/
#undef A
#undef rhs
#undef x
%(tmpundef)s
}
void h_f_relax(void) { const self_t *s; const mat *A; const vec *rhs; vec *x; %(tmpdecl)s f_relax(s, A, rhs, x%(tmparg)s); }
''' % {'params': params, 'req': req, 'ens': ensures,
       'xdef': 'x_p->defined &&' if kind == 'pre' else '',
       'tmpid': '&& tmp_p->id == 3' if has_tmp else '',
       'tmpasg': ', *tmp_p' if has_tmp else '',
       'tmpdef': '#define tmp (*tmp_p)' if has_tmp else '', 'tmpundef': '#undef tmp' if has_tmp else '',
       'tmpdecl': 'vec *tmp;' if has_tmp else '', 'tmparg': ', tmp' if has_tmp else ''}
    return Unit(name=name, props=list(props), functions=[desc.split(':')[0]], desc=desc,
                cuts={'body': Cut(src, sig, nth=nth, rules=list(extra_rules))},
                template=tmpl, enforce='f_relax', replace=CALLEES, mode='loopfree', obj_bits=12, timeout=120, replay='orchestration',
                assumptions=A_RELAX)


SIG_PRE = r'void apply_pre\(\s*const Matrix &A, const VectorRHS &rhs, VectorX &x, VectorTMP &tmp\s*\) const\s*(?=\{)'
SIG_POST = r'void apply_post\(\s*const Matrix &A, const VectorRHS &rhs, VectorX &x, VectorTMP &tmp\s*\) const\s*(?=\{)'
SIG_APPLY0 = r'void apply\(\s*const Matrix&, const VectorRHS &rhs, VectorX &x\) const\s*(?=\{)'

# ---------------------------------------------------------------- damped Jacobi: x += damping * D^-1 (f - A x)
DJ_DECL = 'typedef struct self_prm { V damping; } self_prm;\ntypedef struct self_t { self_prm prm; vec *dia; } self_t;\n'
DJ_ENS = r'''
/* C06: tmp = rhs - A x (x as it came in); x = damping * dia .* tmp + 1 * x */
__CPROVER_ensures(g_nev == 2 && EV(0, T_RESIDUAL, 10, 1, 2, 3) && g_ev[0].ver == __CPROVER_old(x_p->version)
               && EV(1, T_VMUL, 0, self->dia->id, 3, 2) && EVS(1, self->prm.damping, %s, 0) && g_ev[1].ver == tmp_p->version && x_p->defined)
''' % ONE
DJ_APPLY_ENS = r'''
/* x = 1 * dia .* rhs + 0 * x  (old x not read) */
__CPROVER_ensures(g_nev == 1 && EV(0, T_VMUL, 0, self->dia->id, 1, 2) && EVS(0, %s, %s, 0) && x_p->defined)
''' % (ONE, ZERO)
DJ_REQ = '__CPROVER_requires(self->dia->defined && self->dia->id == 20)\n'
dj_rules = [Rule(r'\*dia\b', '(*self->dia)', None, why='R-member')]
dj = 'amgcl/relaxation/damped_jacobi.hpp'
UNITS = [
    relax_unit('damped_jacobi_apply_pre', dj, SIG_PRE, 'pre', DJ_DECL, ['dia'], DJ_REQ + DJ_ENS, dj_rules, 'relaxation::damped_jacobi::apply_pre: residual then vmul(damping, dia, tmp, 1, x)'),
    relax_unit('damped_jacobi_apply_post', dj, SIG_POST, 'pre', DJ_DECL, ['dia'], DJ_REQ + DJ_ENS, dj_rules, 'relaxation::damped_jacobi::apply_post: residual then vmul(damping, dia, tmp, 1, x)'),
    relax_unit('damped_jacobi_apply', dj, SIG_APPLY0, 'apply', DJ_DECL, ['dia'], DJ_REQ + DJ_APPLY_ENS, dj_rules, 'relaxation::damped_jacobi::apply: x = dia .* rhs'),
]

# ---------------------------------------------------------------- SPAI-0: x += M (f - A x)
SP_DECL = 'typedef struct self_prm { int unused; } self_prm;\ntypedef struct self_t { self_prm prm; vec *M; } self_t;\n'
SP_REQ = '__CPROVER_requires(self->M->defined && self->M->id == 20)\n'
SP_ENS = r'''
__CPROVER_ensures(g_nev == 2 && EV(0, T_RESIDUAL, 10, 1, 2, 3) && g_ev[0].ver == __CPROVER_old(x_p->version)
               && EV(1, T_VMUL, 0, self->M->id, 3, 2) && EVS(1, %s, %s, 0) && g_ev[1].ver == tmp_p->version && x_p->defined)
''' % (ONE, ONE)
SP_APPLY_ENS = r'''
__CPROVER_ensures(g_nev == 1 && EV(0, T_VMUL, 0, self->M->id, 1, 2) && EVS(0, %s, %s, 0) && x_p->defined)
''' % (ONE, ZERO)
sp_rules = [Rule(r'\*M\b', '(*self->M)', None, why='R-member')]
sp = 'amgcl/relaxation/spai0.hpp'
SIG_APPLY0_SP = r'void apply\(\s*const Matrix&, const VectorRHS &rhs, VectorX &x\) const\s*(?=\{)'
UNITS += [
    relax_unit('spai0_apply_pre', sp, SIG_PRE, 'pre', SP_DECL, ['M'], SP_REQ + SP_ENS, sp_rules, 'relaxation::spai0::apply_pre: residual then vmul(1, M, tmp, 1, x)'),
    relax_unit('spai0_apply_post', sp, SIG_POST, 'pre', SP_DECL, ['M'], SP_REQ + SP_ENS, sp_rules, 'relaxation::spai0::apply_post: residual then vmul(1, M, tmp, 1, x)'),
    relax_unit('spai0_apply', sp, SIG_APPLY0_SP, 'apply', SP_DECL, ['M'], SP_REQ + SP_APPLY_ENS, sp_rules, 'relaxation::spai0::apply: x = M .* rhs'),
]

# ---------------------------------------------------------------- ILU(0)/ILU(k)/ILUP/ILUT: x += damping * (LU)^-1 (f - A x)
ILU_DECL = 'typedef struct self_prm { V damping; } self_prm;\ntypedef struct self_t { self_prm prm; obj *ilu; } self_t;\n'
ILU_REQ = '__CPROVER_requires(self->ilu->id == 30)\n'
ILU_ENS = r'''
/* C06: tmp = rhs - A x; tmp = (LU)^-1 tmp (in place, same tmp); x = damping * tmp + 1 * x */
__CPROVER_ensures(g_nev == 3 && EV(0, T_RESIDUAL, 10, 1, 2, 3) && g_ev[0].ver == __CPROVER_old(x_p->version)
               && EV(1, T_SOLVE, 30, 3, 0, 0) && EV(2, T_AXPBY, 0, 3, 2, 0) && EVS(2, self->prm.damping, %s, 0)
               && g_ev[2].ver == tmp_p->version && x_p->defined)
''' % ONE
ILU_APPLY_ENS = r'''
/* x = rhs; x = (LU)^-1 x */
__CPROVER_ensures(g_nev == 2 && EV(0, T_COPY, 0, 1, 2, 0) && EV(1, T_SOLVE, 30, 2, 0, 0) && x_p->defined)
'''
ilu_rules = [Rule(r'\bilu->solve\((\w+)\);', r'tr_solve_inplace(self->ilu, &(\1));', None, why='member call -> C call')]
for fam in ('ilu0', 'iluk', 'ilut'):  # ilup::apply_* delegate to an ilu0 object built on the extended pattern
    f = 'amgcl/relaxation/%s.hpp' % fam
    UNITS += [
        relax_unit(fam + '_apply_pre', f, SIG_PRE, 'pre', ILU_DECL, ['ilu'], ILU_REQ + ILU_ENS, ilu_rules, 'relaxation::%s::apply_pre: residual, ilu->solve(tmp), axpby(damping, tmp, 1, x)' % fam),
        relax_unit(fam + '_apply_post', f, SIG_POST, 'pre', ILU_DECL, ['ilu'], ILU_REQ + ILU_ENS, ilu_rules, 'relaxation::%s::apply_post: residual, ilu->solve(tmp), axpby(damping, tmp, 1, x)' % fam),
        relax_unit(fam + '_apply', f, SIG_APPLY0, 'apply', ILU_DECL, ['ilu'], ILU_REQ + ILU_APPLY_ENS, ilu_rules, 'relaxation::%s::apply: copy(rhs, x); ilu->solve(x)' % fam),
    ]

# ---------------------------------------------------------------- Gauss-Seidel: forward sweep as pre-, backward as post-smoother
GS_DECL = 'typedef struct self_prm { int unused; } self_prm;\ntypedef struct self_t { self_prm prm; _Bool is_serial; obj *forward, *backward; } self_t;\n'
GS_REQ = '__CPROVER_requires(self->forward->id == 41 && self->backward->id == 42)\n'
GS_SIG_PRE = r'void apply_pre\(\s*const Matrix &A, const VectorRHS &rhs, VectorX &x, VectorTMP&\s*\) const\s*(?=\{)'
GS_SIG_POST = r'void apply_post\(\s*const Matrix &A, const VectorRHS &rhs, VectorX &x, VectorTMP&\s*\) const\s*(?=\{)'
GS_SIG_APPLY = r'void apply\(const Matrix &A, const VectorRHS &rhs, VectorX &x\) const\s*(?=\{)'
gs_rules = [
    Rule(r'\bis_serial\b', 'self->is_serial', '+', why='R-member'),
    Rule(r'serial_sweep\(A, rhs, x, (\w+)\);', r'tr_sweep(A.id, &rhs, &x, \1, 0);', None, why='member call -> C call (direction argument kept)'),
    Rule(r'\b(forward|backward)->sweep\(rhs, x\);', lambda m: 'tr_sweep(self->%s->id, &rhs, &x, %d, 1);' % (m.group(1), 1 if m.group(1) == 'forward' else 0), None,
         why='member call -> C call; direction = which sweep object is used'),
]
GS_PRE_ENS = r'''
/* C02/C06: the pre-smoother is the FORWARD sweep (serial: serial_sweep(A,..., true); parallel: the forward schedule) */
__CPROVER_ensures(g_nev == 1 && (self->is_serial ? EV(0, T_SWEEP, 10, 1, 2, 1) : EV(0, T_SWEEP, 41, 1, 2, 3)) && x_p->defined)
'''
GS_POST_ENS = r'''
/* the post-smoother is the BACKWARD sweep */
__CPROVER_ensures(g_nev == 1 && (self->is_serial ? EV(0, T_SWEEP, 10, 1, 2, 0) : EV(0, T_SWEEP, 42, 1, 2, 2)) && x_p->defined)
'''
GS_APPLY_ENS = r'''
/* as a preconditioner: x = 0, forward sweep, backward sweep */
__CPROVER_ensures(g_nev == 3 && EV(0, T_CLEAR, 0, 2, 0, 0)
     && (self->is_serial ? (EV(1, T_SWEEP, 10, 1, 2, 1) && EV(2, T_SWEEP, 10, 1, 2, 0)) : (EV(1, T_SWEEP, 41, 1, 2, 3) && EV(2, T_SWEEP, 42, 1, 2, 2))) && x_p->defined)
'''
gs = 'amgcl/relaxation/gauss_seidel.hpp'


def gs_unit(name, sig, kind, ens, desc):
    u = relax_unit(name, gs, sig, kind, GS_DECL, ['forward', 'backward'], GS_REQ + ens, gs_rules, desc)
    # VectorTMP& is unnamed in the repository signature: the C signature keeps a tmp parameter that the body never touches
    return u


UNITS += [
    gs_unit('gauss_seidel_apply_pre', GS_SIG_PRE, 'pre', GS_PRE_ENS, 'relaxation::gauss_seidel::apply_pre: forward sweep'),
    gs_unit('gauss_seidel_apply_post', GS_SIG_POST, 'pre', GS_POST_ENS, 'relaxation::gauss_seidel::apply_post: backward sweep'),
    gs_unit('gauss_seidel_apply', GS_SIG_APPLY, 'apply', GS_APPLY_ENS, 'relaxation::gauss_seidel::apply: clear, forward, backward'),
]
