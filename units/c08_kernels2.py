"""Second family of sparse-kernel units (C08 / C10): backend::diagonal, backend::scale (inductive),
spectral_radius (Gershgorin branch), backend::product dispatch, the crs copy/move members and allocation
members, the row-merge SpGEMM of amgcl/detail/spgemm.hpp.
(adapter::unblock_matrix and block_matrix_adapter::row_iterator are units of c17_adapters2.py.)

inductive / loopfree units carry dfcc contracts (all sizes, counted as proved); unwound units enforce the
same kind of contract in the harness for ALL inputs up to the stated bound (labelled bounded)."""
from cxc.extract import Cut, Rule, UF, Loop, IdxRule, Cmp
from cxc.unit import Unit
from _common import (BUILTIN, BOUNDED_PRELUDE, CRS_MEMBERS_C, CALL_RULES, crs_member_cuts, member_rules)
from c08_kernels import A_BOUNDED, wit, SPEC_RING_COMMON, SORT_ROW_CALLEE, DEFAULT_CLEAN_PTR

UNITS = []

# ==========================================================================================
# shared header of the inductive (dfcc) units: UF values, ghost index
# ==========================================================================================
IND_HDR = r'''
#define MODEL_UF 1
#include "amgcl_c.h"
int g_thrown;
#define NMAX 0x00ffffffffffffffUL
#define ZMAX 0x000fffffffffffffL
/* crs_wf(A) is a universally quantified precondition over the read-only arrays ptr / col; it is instantiated
 * pointwise where a row is read (A is not in the assigns clause, so the fact still holds there)          */
#define ROW_OK(i) __CPROVER_assume(0 <= A_ptr[i] && A_ptr[i] <= A_ptr[(i) + 1] && A_ptr[(i) + 1] <= nnz)
'''
A_IND = [
    'A-uf: value operations are functions of their operands (uninterpreted); the proof holds for every interpretation (float, double, complex, blocks)',
    'A-omp: "#pragma omp parallel for" dropped: iterations are verified sequentially; each iteration writes only cells of its own row (visible in the loop invariants)',
    'A-wf: crs well-formedness (ptr monotone within [0,nnz]) is a universally quantified precondition over read-only arrays, instantiated pointwise where a row is read (ROW_OK)',
    'A-inst: Col = Ptr = ptrdiff_t',
]

# ==========================================================================================
# 1. backend::diagonal(A, invert)
# ==========================================================================================
# R-iter: the member row iterator of crs is the index loop over ptr[i]..ptr[i+1] (unit crs_row_iterator /
# adapt_crs_rowiter_ctor check the iterator protocol itself)
R_ITER_MEMBER = [
    Rule(r'for\(auto a = A\.row_begin\(([^;)]+)\); a; \+\+a\)',
         r'for(ptrdiff_t a = A_ptr[\1]; a < A_ptr[(\1) + 1]; ++a)', '+', why='R-iter row_iterator -> index loop', early=True),
    Rule(r'\ba\.value\(\)', 'A_val[a]', '+', why='R-iter'),
    Rule(r'\ba\.col\(\)', 'A_col[a]', '+', why='R-iter'),
    Rule(r'rows\(A\)', 'A_nrows', '+', why='rows_impl<crs>::get = A.nrows'),
]
DIAG_OUTER = '''
__CPROVER_assigns(i, __CPROVER_object_whole(dia))
__CPROVER_loop_invariant(0 <= i && i <= (ptrdiff_t)n)
__CPROVER_loop_invariant(g_k < (size_t)i ==> dia[g_k] == e_d)
__CPROVER_decreases((ptrdiff_t)n - i)
'''
DIAG_INNER = '''
__CPROVER_assigns(a, __CPROVER_object_whole(dia))
__CPROVER_loop_invariant(A_ptr[i] <= a && a <= A_ptr[(i) + 1] && 0 <= A_ptr[i] && A_ptr[(i) + 1] <= nnz)
__CPROVER_loop_invariant(g_k < (size_t)i ==> dia[g_k] == e_d)
__CPROVER_loop_invariant((size_t)i == g_k ==> a <= g_d)
__CPROVER_decreases(A_ptr[(i) + 1] - a)
'''
diagonal = Unit(
    name='builtin_diagonal', props=['C08', 'C06', 'C10'],
    functions=['backend::diagonal(const crs<V,C,P>&, bool invert)'],
    desc='dia[k] for every row k whose first stored entry with column k is d: dia[k] == d, or with invert '
         'is_zero(d) ? identity : inverse(d); the result has rows(A) cells; A is not modified; all sizes, all value types',
    cuts={'body': Cut(BUILTIN, r'std::shared_ptr< numa_vector<V> > diagonal\(const crs<V, C, P> &A, bool invert = false\)\s*(?=\{)',
                      rules=R_ITER_MEMBER + [
                          Rule(r'auto dia = std_make_shared< numa_vector<V> >\(([^;]+), 0\);', r'V *dia = NUMA_NEW(dia_buf, \1);', 1,
                               why='make_shared<numa_vector<V>>(n, false): fresh uninitialised vector of n cells (ghost allocation, see template)'),
                          Rule(r'\(\*dia\)\[', 'dia[', '+', why='shared_ptr deref + operator[]'),
                          Rule(r'(for\(ptrdiff_t a = A_ptr\[)', r'ROW_OK(i); \1', None, why='pointwise instantiation of crs_wf at the row read'),
                          Rule(r'(if \(A_col\[a\])', r'NO_DIAG_BEFORE(i, a); \1', None,
                               why='pointwise instantiation of "no entry of the watched row before g_d has the diagonal column"'),
                          IdxRule(r'dia', 'g_dia_len', None),
                      ],
                      loops=[Loop(r'for\(ptrdiff_t i = 0;', DIAG_OUTER, prefix=True),
                             Loop(r'for\(auto a = A\.row_begin', DIAG_INNER, prefix=True)])},
    template=IND_HDR + r'''
/* ghost: watched row g_k, position g_d of its first stored diagonal entry and the value there */
size_t g_k; ptrdiff_t g_d; V g_dv;
/* std::make_shared< numa_vector<V> >(n, false): the allocator hands out a fresh vector of n uninitialised cells.
 * dfcc cannot track a malloc inside the checked function, so the storage is a ghost parameter (is_fresh in the
 * precondition, A_nrows cells) and the requested length is recorded: every subscript of the result is checked
 * against the REQUESTED length, and the requested length is part of the postcondition                         */
size_t g_dia_len;
#define NUMA_NEW(buf, n) (g_dia_len = (n), (buf))
#undef IDX
#define IDX(e, len, what) (__CPROVER_assert((e) >= 0 && (size_t)(e) < (len), "safety.idx. subscript within the length of the result vector"), (e))
#define NO_DIAG_BEFORE(i, a) __CPROVER_assume(!((size_t)(i) == g_k && (a) < g_d) || A_col[a] != (ptrdiff_t)g_k)
V *f_diagonal(size_t A_nrows, ptrdiff_t nnz, const ptrdiff_t *A_ptr, const ptrdiff_t *A_col, const V *A_val, _Bool invert, V *dia_buf)
__CPROVER_requires(A_nrows <= NMAX && 0 <= nnz && nnz <= ZMAX)
__CPROVER_requires(__CPROVER_is_fresh(A_ptr, (A_nrows + 1) * sizeof(ptrdiff_t)) && __CPROVER_is_fresh(A_col, nnz * sizeof(ptrdiff_t)) && __CPROVER_is_fresh(A_val, nnz * sizeof(V)))
__CPROVER_requires(__CPROVER_is_fresh(dia_buf, A_nrows * sizeof(V)))
/* the watched row is well formed and has a stored diagonal at g_d (the first one: NO_DIAG_BEFORE) with value g_dv */
__CPROVER_requires(g_k < A_nrows && 0 <= A_ptr[g_k] && A_ptr[g_k] <= g_d && g_d < A_ptr[g_k + 1] && A_ptr[g_k + 1] <= nnz)
__CPROVER_requires(A_col[g_d] == (ptrdiff_t)g_k && A_val[g_d] == g_dv)
__CPROVER_assigns(g_dia_len, __CPROVER_object_whole(dia_buf))
/* C08: diagonal extraction / inversion */
__CPROVER_ensures(invert ? (math_is_zero(g_dv) ? __CPROVER_return_value[g_k] == MATH_identity(V) : __CPROVER_return_value[g_k] == math_inverse(g_dv))
                         : __CPROVER_return_value[g_k] == g_dv)
__CPROVER_ensures(__CPROVER_return_value == dia_buf && g_dia_len == A_nrows)
{
  const V e_d = invert ? (math_is_zero(g_dv) ? MATH_identity(V) : math_inverse(g_dv)) : g_dv;
/*@CUT:body@*/
}
void h_f_diagonal(void) { size_t n; ptrdiff_t nnz; const ptrdiff_t *p, *c; const V *v; _Bool inv; V *d; f_diagonal(n, nnz, p, c, v, inv, d); }
''',
    enforce='f_diagonal', mode='inductive', model='uf', timeout=300, replay='kernels',
    assumptions=A_IND + ['A-iter: the row_iterator loop is rewritten to the index loop over ptr[i]..ptr[i+1] (rule R-iter); that crs::row_iterator is exactly that is checked by the iterator units',
                         'A-new: make_shared<numa_vector<V>>(n, false) yields a fresh vector of n cells with arbitrary content (ghost allocation: storage passed as an is_fresh parameter, requested length recorded and checked)',
                         'A-first: "no entry of the watched row before position g_d has column g_k" is a universally quantified precondition over the read-only array col, instantiated at the entry read (NO_DIAG_BEFORE)'],
    not_decided=['rows without a stored diagonal keep an uninitialised cell (documented observation, DESIGN section 9): nothing is claimed for them'],
)
UNITS += [diagonal]

# ==========================================================================================
# 2. backend::scale(A, s) -- inductive (the bounded unit builtin_scale of c08_kernels.py stays)
# ==========================================================================================
SCALE_OUTER = '''
__CPROVER_assigns(i, __CPROVER_object_whole(A.val))
__CPROVER_loop_invariant(0 <= i && i <= n)
__CPROVER_loop_invariant(g_j < A.ptr[i] ? A.val[g_j] == e_new : A.val[g_j] == g_v)
__CPROVER_decreases(n - i)
'''
SCALE_INNER = '''
__CPROVER_assigns(j, __CPROVER_object_whole(A.val))
__CPROVER_loop_invariant(A.ptr[i] <= j && j <= e && e == A.ptr[i + 1] && 0 <= A.ptr[i] && e <= nnz)
__CPROVER_loop_invariant(g_j < j ? A.val[g_j] == e_new : A.val[g_j] == g_v)
__CPROVER_decreases(e - j)
'''
scale_ind = Unit(
    name='builtin_scale_inductive', props=['C08', 'C03', 'C10'],
    functions=['backend::scale(crs&, T)'],
    desc='A := A*s for every size: every stored value (position < ptr[n]) is multiplied by s exactly once (value first, s second), '
         'cells beyond ptr[n] and the structure (sizes, ptr, col) are untouched',
    cuts={'body': Cut(BUILTIN, r'void scale\(crs<Val, Col, Ptr> &A, T s\)\s*(?=\{)',
                      rules=[Rule(r'(A\.val\[[^\]]+\]) ([-+*/])= (?P<e>[^;]+);', r'\1 = \1 \2 (\g<e>);', None, why='compound assignment spelled out'),
                             Rule(r'(for\(ptrdiff_t j = A\.ptr\[)', r'ROW_OK(i); \1', None, why='pointwise instantiation of crs_wf at the row read')],
                      uf=[UF(r'A\.val\[[^\]]+\] = (?P<e>[^;]+);', '+')],
                      loops=[Loop(r'for\(ptrdiff_t i = 0;', SCALE_OUTER, prefix=True),
                             Loop(r'for\(ptrdiff_t j = A\.ptr', SCALE_INNER, prefix=True)])},
    template=IND_HDR + r'''
#undef ROW_OK
#define ROW_OK(i) __CPROVER_assume(0 <= A.ptr[i] && A.ptr[i] <= A.ptr[(i) + 1] && A.ptr[(i) + 1] <= nnz)
#define UFE(e) (e)
#define rows(A) ((A).nrows)
/* ghost: a watched cell g_j of the value array and its content on entry */
ptrdiff_t g_j; V g_v;
void f_scale(crs *A_p, V s, ptrdiff_t nnz)
__CPROVER_requires(0 <= nnz && nnz <= ZMAX)
__CPROVER_requires(__CPROVER_is_fresh(A_p, sizeof(crs)) && A_p->nrows <= NMAX)
__CPROVER_requires(__CPROVER_is_fresh(A_p->ptr, (A_p->nrows + 1) * sizeof(ptrdiff_t)) && __CPROVER_is_fresh(A_p->val, nnz * sizeof(V)))
/* crs_wf(A): ptr starts at 0 (monotonicity within [0,nnz]: ROW_OK) */
__CPROVER_requires(A_p->ptr[0] == 0 && 0 <= A_p->ptr[A_p->nrows] && A_p->ptr[A_p->nrows] <= nnz)
__CPROVER_requires(0 <= g_j && g_j < nnz && A_p->val[g_j] == g_v)
__CPROVER_assigns(__CPROVER_object_whole(A_p->val))
/* C08: scaling -- every stored value is multiplied once; nothing else changes */
__CPROVER_ensures(g_j < A_p->ptr[A_p->nrows] ? A_p->val[g_j] == UF_MUL(g_v, s) : A_p->val[g_j] == g_v)
{
#define A (*A_p)
  const V e_new = UF_MUL(g_v, s);
/*@CUT:body@*/
#undef A
}
void h_f_scale(void) { crs *A; V s; ptrdiff_t nnz; f_scale(A, s, nnz); }
''',
    enforce='f_scale', mode='inductive', model='uf', timeout=300, replay='kernels',
    assumptions=A_IND + ['A-alias: ptr and val are distinct arrays (is_fresh)'],
)
UNITS += [scale_ind]

# ==========================================================================================
# 3. spectral_radius<scale>(A, power_iters <= 0): the Gershgorin branch (region cut)
# ==========================================================================================
NO_SORT_ROW = '(void)col; (void)val; (void)n; /* not used by this unit */'
SPEC_GERSH = r"""
/* definition (property C08): max over the rows of  sum_j norm(a_ij)  [times norm(inverse(a_ii)) when scale],
 * written as the fold the value model can express: rows in order, entries in storage order, uninterpreted
 * + * max norm inverse.  a_ii is THE stored diagonal entry of row i (precondition: exactly one when scale). */
static V spec_row_sum(const crs *A, size_t i, _Bool scale)
{
  V s = UF_CONST(0), d = MATH_identity(V);
  for (size_t k = 0; k < CAP_NNZ; ++k)
    if ((ptrdiff_t)k >= A->ptr[i] && (ptrdiff_t)k < A->ptr[i + 1]) {
      s = UF_ADD(s, math_norm(A->val[k]));
      if ((size_t)A->col[k] == i) d = A->val[k];
    }
  if (scale) s = UF_MUL(s, math_norm(math_inverse(d)));
  return s;
}
static V spec_gershgorin(const crs *A, _Bool scale)
{
  V m = UF_CONST(0);
  for (size_t i = 0; i < NMAX; ++i) if (i < A->nrows) m = UF_MAX(m, spec_row_sum(A, i, scale));
  m = UF_MAX(UF_CONST(0), m);                      /* reduction over the (single) thread's maximum */
  return UF_LESS(m, UF_CONST(0)) ? UF_CONST(2) : m;  /* the function's final guard                    */
}
static _Bool one_diagonal_per_row(const crs *A)
{
  for (size_t i = 0; i < NMAX; ++i) if (i < A->nrows && count_in_row(A, i, i) != 1) return 0;
  return 1;
}
"""
COMPOUND = lambda lhs: Rule(r'\b(%s) ([-+*/])= (?P<e>[^;]+);' % lhs, r'\1 = \1 \2 (\g<e>);', None, why='compound assignment spelled out')
gershgorin = Unit(
    name='builtin_spectral_radius_gershgorin', props=['C08', 'C10'],
    functions=['backend::spectral_radius<scale>(const Matrix&, int power_iters) -- branch power_iters <= 0'],
    desc='Gershgorin estimate: the value returned is max_i sum_j norm(a_ij) [* norm(inverse(a_ii)) when scale] as a fold in '
         'evaluation order over uninterpreted value operations; A is not modified; both template instantiations of scale',
    cuts={'body': Cut(BUILTIN, r'const ptrdiff_t n = backend::rows\(A\);\s*scalar_type radius[^;]*;', kind='region',
                      end=r'\} else \{\s*// Power method\.',
                      rules=[COMPOUND('s'),
                             IdxRule(r'A\.col|A\.val', 'A.ptr[A.nrows]', '+'),
                             IdxRule(r'A\.ptr', 'A.nrows + 1', '+')],
                      uf=[UF(r'\b(?:radius|s|emax|dia)\s*=(?!=)\s*(?P<e>[^;]+);', '+')]),
          'ret': Cut(BUILTIN, r'return radius < 0 \?', kind='region', end=r';', end_inclusive=True,
                     rules=[Rule(r'radius ([<>]=?) (\d+)\b', r'radius \1 LIT\2', None, why='scalar literal -> value token'),
                            Rule(r'\(\(scalar_type\)\((\d+)\)\)', r'LIT\1', None, why='scalar literal -> value token'),
                            Cmp(r'radius|LIT\d+', None)])},
    template='#define MODEL_UF 1\n#define CXC_UF_T unsigned short\n' + BOUNDED_PRELUDE
             + SPEC_RING_COMMON.replace('/*@CUT:sort_row@*/', NO_SORT_ROW) + SPEC_GERSH + r"""
WITNESS_CRS(A)
int w_scale, w_power_iters;
typedef V scalar_type;
#undef std_max
#define std_max(a, b) UF_MAX(a, b)
#define LIT0 UF_CONST(0)
#define LIT2 UF_CONST(2)
#define ULT(a, b) UF_LESS(a, b)
int g_power_branch;
/* contract (enforced by the harness below):
 *   requires crs_wf(A), square, power_iters <= 0; when scale: every row has exactly one stored diagonal entry
 *   assigns  nothing
 *   ensures  result == the Gershgorin fold (spec_gershgorin); A unchanged                                  */
V f_spectral_radius(const crs *A_p, int power_iters, const _Bool scale)
{
#define A (*A_p)
/*@CUT:body@*/
  } else { g_power_branch = 1; return 0; /* power method: outside this unit (precondition power_iters <= 0) */ }
/*@CUT:ret@*/
#undef A
}
void h_gershgorin(void)
{
  crs *A = crs_input_narrow();
  int power_iters; _Bool scale;
#ifdef SCALE
  scale = SCALE;
#endif
  REQUIRES(crs_wf(A, NMAX, NMAX, ZMAX) && A->nrows == A->ncols && power_iters <= 0);
  REQUIRES(!scale || one_diagonal_per_row(A));
  MIRROR_CRS(A, A); w_scale = scale; w_power_iters = power_iters;
  crs_snap s0; crs_snapshot(A, &s0);
  V r = f_spectral_radius(A, power_iters, scale);
  ENSURES(!g_power_branch, "spectral_radius: power_iters <= 0 selects the Gershgorin branch");
  ENSURES(r == spec_gershgorin(A, scale), "spectral_radius (Gershgorin): result == max_i sum_j norm(a_ij) [* norm(inverse(a_ii)) when scale]");
  ENSURES(crs_unchanged(A, &s0), "frame: the matrix is not modified");
  CANARY("harness.end");
}
""",
    entry='h_gershgorin', mode='unwound', unwind='max(ZMAX,NMAX)+2', model='uf',
    variants=[{'NMAX': 3, 'ZMAX': 4, 'VMASK': 255, 'SCALE': 0}, {'NMAX': 3, 'ZMAX': 4, 'VMASK': 255, 'SCALE': 1}],
    thorough_variants=[{'NMAX': 4, 'ZMAX': 6, 'VMASK': 255, 'SCALE': 0}, {'NMAX': 4, 'ZMAX': 6, 'VMASK': 255, 'SCALE': 1}],
    bound_text='all square matrices up to 3x3 with nnz <= 4 (thorough 4x4, nnz <= 6), any pattern (unsorted, duplicates, empty rows; with scale exactly one diagonal entry per row), values opaque tokens',
    assumptions=A_BOUNDED[:1] + ['A-uf: value operations (+, *, max, norm, inverse, comparison with 0) are uninterpreted functions of their operands; 16-bit tokens (EUF small-model property)',
                                 'A-omp: the parallel region is executed by one thread (the text is verified sequentially); the reduction of the per-thread maxima relies on max being associative and commutative, which the uninterpreted model does not express',
                                 'A-inst: Matrix = crs<V, ptrdiff_t, ptrdiff_t>, scalar_type = value_type (scalar values)'],
    replay='kernels', timeout=300,
    witness=wit('A') + ['w_scale', 'w_power_iters'],
    not_decided=['the power-method branch (power_iters > 0: random start vector, floating point)',
                 'that the Gershgorin value bounds the true spectral radius (Gershgorin\'s theorem about the formula computed)',
                 'scale = true on a row without (or with several) stored diagonal entries: the code then uses the diagonal of an earlier row of the same thread / the last duplicate'],
)
UNITS += [gershgorin]

# ==========================================================================================
# 4. backend::product(A, B, sort): dispatch between the two SpGEMM algorithms (loop-free, callee contracts)
# ==========================================================================================
PRODUCT_TEMPLATE = r'''
#if OMP
#define _OPENMP 201511
#endif
#define MODEL_UF 1
#include "amgcl_c.h"
int g_thrown;
/* ghost: what the SpGEMM callees were asked to do (integers only) */
enum { ALGO_NONE = 0, ALGO_SAAD = 1, ALGO_RMERGE = 2 };
struct prod_ghost { int algo; int calls; _Bool sort; } g_prod;
/* ghost inputs: identities of the operands / the result header, and "the rows of B are in ascending column order" */
const crs *g_A0, *g_B0; crs *g_C0; _Bool g_B_rows_sorted;
/* std::make_shared< crs<..> >(): fresh header (ghost parameter hdr, is_fresh), default-constructed */
static crs *crs_make_shared(crs *a)
{
  a->nrows = 0; a->ncols = 0; a->nnz = 0; a->ptr = 0; a->col = 0; a->val = 0; a->own_data = 1;
  return a;
}
/* contracts of the callees: enforced on the real bodies by the units spgemm_saad (c08_kernels.py) and spgemm_rmerge
 * (below), bounded.  Both compute C = A * B into a default-constructed C; rmerge needs row-sorted B.           */
void f_spgemm_saad(const crs *A_p, const crs *B_p, crs *C_p, _Bool sort)
__CPROVER_requires(A_p == g_A0 && B_p == g_B0 && C_p == g_C0)
__CPROVER_requires(C_p->ptr == 0 && C_p->col == 0 && C_p->val == 0 && C_p->own_data)
__CPROVER_assigns(*C_p, g_prod)
__CPROVER_ensures(g_prod.algo == ALGO_SAAD && g_prod.sort == sort && g_prod.calls == __CPROVER_old(g_prod.calls) + 1)
__CPROVER_ensures(C_p->nrows == A_p->nrows && C_p->ncols == B_p->ncols && C_p->own_data)
;
void f_spgemm_rmerge(const crs *A_p, const crs *B_p, crs *C_p)
__CPROVER_requires(A_p == g_A0 && B_p == g_B0 && C_p == g_C0)
__CPROVER_requires(C_p->ptr == 0 && C_p->col == 0 && C_p->val == 0 && C_p->own_data)
__CPROVER_requires(g_B_rows_sorted)
__CPROVER_assigns(*C_p, g_prod)
__CPROVER_ensures(g_prod.algo == ALGO_RMERGE && g_prod.sort == 1 && g_prod.calls == __CPROVER_old(g_prod.calls) + 1)
__CPROVER_ensures(C_p->nrows == A_p->nrows && C_p->ncols == B_p->ncols && C_p->own_data)
;
#define spgemm_saad(a, b, c, s) f_spgemm_saad(&(a), &(b), &(c), s)
#define spgemm_rmerge(a, b, c) f_spgemm_rmerge(&(a), &(b), &(c))
crs *f_product(const crs *A_p, const crs *B_p, _Bool sort, int nt_in, crs *hdr)
__CPROVER_requires(__CPROVER_is_fresh(A_p, sizeof(crs)) && __CPROVER_is_fresh(B_p, sizeof(crs)) && __CPROVER_is_fresh(hdr, sizeof(crs)))
__CPROVER_requires(g_A0 == A_p && g_B0 == B_p && g_C0 == hdr && g_prod.calls == 0 && g_prod.algo == ALGO_NONE && nt_in >= 1)
/* latent precondition of product(): the row-merge algorithm is only correct for row-sorted B */
__CPROVER_requires(nt_in <= 16 || !OMP || g_B_rows_sorted)
__CPROVER_assigns(*hdr, g_prod)
/* C08: the row-merge algorithm is selected exactly when more than 16 threads are available; exactly one product
 * of (A, B) in this order is computed into the fresh result; the sort request reaches the marker algorithm  */
__CPROVER_ensures(__CPROVER_return_value == hdr && g_prod.calls == 1)
__CPROVER_ensures((OMP && nt_in > 16) ? g_prod.algo == ALGO_RMERGE : (g_prod.algo == ALGO_SAAD && g_prod.sort == sort))
__CPROVER_ensures(__CPROVER_return_value->nrows == A_p->nrows && __CPROVER_return_value->ncols == B_p->ncols && __CPROVER_return_value->own_data)
{
#define A (*A_p)
#define B (*B_p)
/*@CUT:body@*/
#undef A
#undef B
}
void h_f_product(void) { const crs *A, *B; _Bool sort; int nt; crs *hdr; f_product(A, B, sort, nt, hdr); }
'''
product = Unit(
    name='builtin_product_dispatch', props=['C08', 'C03', 'C10'],
    functions=['backend::product(const crs&, const crs&, bool sort)'],
    desc='product(A,B,sort): exactly one SpGEMM of (A,B) in this order into a fresh default-constructed matrix; spgemm_rmerge '
         'iff more than 16 threads are available (OpenMP build), else spgemm_saad with the caller\'s sort flag; result returned',
    cuts={'body': Cut(BUILTIN, r'product\(const crs<Val,Col,Ptr> &A, const crs<Val,Col,Ptr> &B, bool sort = false\)\s*(?=\{)',
                      rules=[Rule(r'auto C = std_make_shared< crs<Val,Col,Ptr> >\(\);', 'crs *C = crs_make_shared(hdr);', 1,
                                  why='std::make_shared -> fresh default-constructed crs (ghost allocation)'),
                             Rule(r'omp_get_max_threads\(\)', 'nt_in', 1, why='R-omp: the number of available threads is a parameter')])},
    template=PRODUCT_TEMPLATE,
    enforce='f_product', entry='h_f_product', replace=['f_spgemm_saad', 'f_spgemm_rmerge'], mode='loopfree', model='uf', obj_bits=10,
    variants=[{'OMP': 1}, {'OMP': 0}],
    assumptions=['A-own: std::make_shared< crs<..> >() is a fresh heap object initialised by the default constructor crs(); shared_ptr reference counting is not modelled',
                 'A-omp: omp_get_max_threads() is an arbitrary positive int (parameter nt); both preprocessor branches (_OPENMP defined / not) are variants',
                 'A-callee: spgemm_saad / spgemm_rmerge are used through their contracts (C = A*B into a default-constructed C; rmerge requires row-sorted B); the contracts are enforced on the real bodies by the bounded units spgemm_saad and spgemm_rmerge',
                 'A-sorted: product() is only claimed for row-sorted B when more than 16 threads are available (latent precondition: it forwards to spgemm_rmerge without sorting; natively, unsorted duplicate-free B then yields a dense-correct product whose rows contain duplicate columns, unlike the <= 16 thread result)'],
    replay='kernels', timeout=120,
)
UNITS += [product]

# ==========================================================================================
# 5. members of backend::crs: copy / move constructors and assignments, set_size, set_nonzeros, scan_row_sizes
# ==========================================================================================
A_CRSM = [
    'A-uf: values are opaque tokens (only copied / zeroed); Col = Ptr = ptrdiff_t',
    'A-new: operator new[] never returns null; each new[] of the function is a ghost allocation: the storage is an is_fresh ghost parameter with arbitrary content (dfcc cannot track a malloc inside the checked function), the REQUESTED length is recorded, every subscript of the new array is checked against the requested length and the requested length is part of the postcondition',
    'A-delete: delete[] p is modelled by a ghost record (which of the three arrays of the matrix was deleted, how often); delete[] of a null pointer is a no-op',
    'A-alias: *this and other are distinct objects that share no storage (is_fresh): self-assignment is outside this contract',
    'A-wf: ptr monotone within [0, nnz] is a universally quantified precondition over the read-only source, instantiated pointwise where a row is read (ROW_OK)',
    'A-omp: "#pragma omp parallel for" dropped: iterations are verified sequentially; each iteration writes only cells of its own row',
]
CRSM_PRELUDE = r'''
#define MODEL_UF 1
#include "amgcl_c.h"
int g_thrown;
#define NMAX 0x00ffffffffffffUL
#define ZMAX 0x000fffffffffffUL
/* ghost heap traffic (integers of identity only) */
unsigned g_allocs, g_deletes;
_Bool g_del_ptr, g_del_col, g_del_val;
const void *g_trk_ptr, *g_trk_col, *g_trk_val;
static void ghost_delete(const void *p)
{
  if (p == 0) return;              /* delete[] nullptr: no effect */
  g_deletes++;
  if (p == g_trk_ptr) g_del_ptr = 1;
  if (p == g_trk_col) g_del_col = 1;
  if (p == g_trk_val) g_del_val = 1;
}
#define DELETE(p) ghost_delete(p)
/* operator new[] (A-new): buf_ptr / buf_col / buf_val are ghost parameters of the function under contract */
size_t g_len_ptr, g_len_col, g_len_val;
#define NEW_PTR(T, n) (g_len_ptr = (n), g_allocs++, buf_ptr)
#define NEW_NNZ_col_type(n) (g_len_col = (n), g_allocs++, buf_col)
#define NEW_NNZ_val_type(n) (g_len_val = (n), g_allocs++, buf_val)
#define NEW_NNZ(T, n) NEW_NNZ_##T(n)
#undef IDX
#define IDX(e, len, what) (__CPROVER_assert((e) >= 0 && (size_t)(e) < (size_t)(len), "safety.idx. subscript within the logical length of the array"), (e))
#define std_swap(a, b) do { __typeof__(a) t_ = (a); (a) = (b); (b) = t_; } while (0)
#define ROW_OK(i) __CPROVER_assume(0 <= other.ptr[i] && other.ptr[i] <= other.ptr[(i) + 1] && other.ptr[(i) + 1] <= (ptrdiff_t)other.nnz)
/* ghost: watched row-pointer cell g_i and watched entry g_j of the source with their contents */
size_t g_i; ptrdiff_t g_j; ptr_type g_pi; col_type g_cj; V g_vj;
#define SRC_ALL (other_p->ptr != 0 && other_p->col != 0 && other_p->val != 0)
#define WATCH_I (SRC_ALL && g_i <= other_p->nrows)
#define WATCH_J (SRC_ALL && 0 <= g_j && (size_t)g_j < other_p->nnz)
'''
INIT_LIST = Rule(r'(\w+)\(([\w.]+)\),?', r'self->\1 = \2;', '+', why='member initialiser list -> assignments (declaration order)')
NEW3 = [Rule(r'NEW\(ptr_type,', 'NEW_PTR(ptr_type,', None, why='R-new'), Rule(r'NEW\((col|val)_type,', r'NEW_NNZ(\1_type,', None, why='R-new')]
# (count None: dropping a statement must not break extraction; the arrays are exact-size is_fresh objects, so CBMC's own
# pointer checks remain a complete second line in these inductive units)
COPY_IDX = [IdxRule(r'other\.ptr', 'other.nrows + 1', None), IdxRule(r'other\.col|other\.val', 'other.nnz', None),
            IdxRule(r'self->ptr', 'g_len_ptr', None), IdxRule(r'self->col', 'g_len_col', None), IdxRule(r'self->val', 'g_len_val', None)]
COPY_OUTER = '''
__CPROVER_assigns(i, __CPROVER_object_whole(buf_ptr), __CPROVER_object_whole(buf_col), __CPROVER_object_whole(buf_val))
__CPROVER_loop_invariant(0 <= i && i <= (ptrdiff_t)self->nrows)
__CPROVER_loop_invariant((WATCH_I && g_i <= (size_t)i) ==> self->ptr[g_i] == g_pi)
__CPROVER_loop_invariant((WATCH_J && other.ptr[0] <= g_j && g_j < other.ptr[i]) ==> (self->col[g_j] == g_cj && self->val[g_j] == g_vj))
__CPROVER_decreases((ptrdiff_t)self->nrows - i)
'''
COPY_INNER = '''
__CPROVER_assigns(j, __CPROVER_object_whole(buf_col), __CPROVER_object_whole(buf_val))
__CPROVER_loop_invariant(other.ptr[i] <= j && j <= other.ptr[i + 1] && 0 <= other.ptr[i] && other.ptr[i + 1] <= (ptrdiff_t)other.nnz)
__CPROVER_loop_invariant((WATCH_J && other.ptr[0] <= g_j && g_j < j) ==> (self->col[g_j] == g_cj && self->val[g_j] == g_vj))
__CPROVER_decreases(other.ptr[i + 1] - j)
'''
COPY_RULES = member_rules() + NEW3 + [Rule(r'(for\(ptr_type j = other\.ptr\[)', r'ROW_OK(i); \1', None, why='pointwise instantiation of crs_wf(other) at the row read')] + COPY_IDX
COPY_LOOPS = lambda: [Loop(r'for\(ptrdiff_t i = 0;', COPY_OUTER, prefix=True), Loop(r'for\(ptr_type j = other\.ptr', COPY_INNER, prefix=True)]
# the part of the contract shared by the copy constructor and the copy assignment
COPY_REQUIRES = r'''
__CPROVER_requires(__CPROVER_is_fresh(self, sizeof(crs)) && __CPROVER_is_fresh(other_p, sizeof(crs)))
__CPROVER_requires(other_p->nrows <= NMAX && other_p->nnz <= ZMAX)
__CPROVER_requires(other_p->ptr == 0 || __CPROVER_is_fresh(other_p->ptr, (other_p->nrows + 1) * sizeof(ptr_type)))
__CPROVER_requires(other_p->col == 0 || __CPROVER_is_fresh(other_p->col, other_p->nnz * sizeof(col_type)))
__CPROVER_requires(other_p->val == 0 || __CPROVER_is_fresh(other_p->val, other_p->nnz * sizeof(V)))
__CPROVER_requires(__CPROVER_is_fresh(buf_ptr, (other_p->nrows + 1) * sizeof(ptr_type)) && __CPROVER_is_fresh(buf_col, other_p->nnz * sizeof(col_type)) && __CPROVER_is_fresh(buf_val, other_p->nnz * sizeof(V)))
/* crs_wf(other): the stored entries fit the arrays (ptr[nrows] <= nnz; monotonicity: ROW_OK) */
__CPROVER_requires(!SRC_ALL || (0 <= other_p->ptr[0] && other_p->ptr[0] <= other_p->ptr[other_p->nrows] && other_p->ptr[other_p->nrows] <= (ptrdiff_t)other_p->nnz))
__CPROVER_requires(g_allocs == 0 && g_thrown == 0)
__CPROVER_requires(!WATCH_I || other_p->ptr[g_i] == g_pi)
__CPROVER_requires(!WATCH_J || (other_p->col[g_j] == g_cj && other_p->val[g_j] == g_vj))
'''
COPY_ENSURES = r'''
/* C08 CRS copy: sizes as in the source */
__CPROVER_ensures(self->nrows == other_p->nrows && self->ncols == other_p->ncols && self->nnz == other_p->nnz)
/* complete source: three fresh arrays of nrows+1 / nnz / nnz cells, owned by the new matrix; incomplete source (a null array): no arrays at all */
__CPROVER_ensures(SRC_ALL ? (self->ptr == buf_ptr && self->col == buf_col && self->val == buf_val && g_allocs == 3
                             && g_len_ptr == other_p->nrows + 1 && g_len_col == other_p->nnz && g_len_val == other_p->nnz)
                          : (self->ptr == 0 && self->col == 0 && self->val == 0 && g_allocs == 0))
/* C10: whatever the matrix allocated it owns (so that its destructor frees it) */
__CPROVER_ensures(!SRC_ALL || self->own_data)
/* contents: every row pointer and every stored entry is that of the source */
__CPROVER_ensures(!WATCH_I || self->ptr[g_i] == g_pi)
__CPROVER_ensures(!(WATCH_J && other_p->ptr[0] <= g_j && g_j < other_p->ptr[other_p->nrows]) || (self->col[g_j] == g_cj && self->val[g_j] == g_vj))
__CPROVER_ensures(g_thrown == 0)
'''
crs_copy_ctor = Unit(
    name='crs_copy_ctor', props=['C08', 'C10'],
    functions=['backend::crs::crs(const crs &other)'],
    desc='copy constructor: sizes, every row pointer and every stored (col,val) of the source, in three fresh owned arrays of exactly '
         'nrows+1 / nnz / nnz cells; a source with a null array gives an empty (null) owning matrix; the source is not modified; all sizes',
    cuts={'init': Cut(BUILTIN, r'crs\(const crs &other\) :', kind='region', begin_exclusive=True, end=r'\{', rules=[INIT_LIST]),
          'body': Cut(BUILTIN, r'crs\(const crs &other\)\s*:[^{]*(?=\{)', rules=COPY_RULES, loops=COPY_LOOPS())},
    template=CRSM_PRELUDE + r'''
void f_crs_copy_ctor(crs *self, const crs *other_p, ptr_type *buf_ptr, col_type *buf_col, V *buf_val)
''' + COPY_REQUIRES + r'''
__CPROVER_assigns(*self, g_allocs, g_len_ptr, g_len_col, g_len_val, __CPROVER_object_whole(buf_ptr), __CPROVER_object_whole(buf_col), __CPROVER_object_whole(buf_val))
''' + COPY_ENSURES + r'''
__CPROVER_ensures(self->own_data)
{
#define other (*other_p)
/*@CUT:init@*/
/*@CUT:body@*/
#undef other
}
void h_f_crs_copy_ctor(void) { crs *s; const crs *o; ptr_type *bp; col_type *bc; V *bv; f_crs_copy_ctor(s, o, bp, bc, bv); }
''',
    enforce='f_crs_copy_ctor', mode='inductive', model='uf', timeout=300, replay='kernels', assumptions=A_CRSM,
)
UNITS += [crs_copy_ctor]

# --- copy assignment: general case (distinct objects, owning or borrowing target) and self-assignment as two variants of one unit
FREE_DATA_CUT = Cut(BUILTIN, r'void free_data\(\)\s*(?=\{)', rules=member_rules())
ASSIGN_TEMPLATE = CRSM_PRELUDE + r'''
/* crs::free_data(), the real body (its own contract is unit adapt_crs_free_data) */
static void crs_free_data(crs *self)
{
/*@CUT:free_data@*/
}
#if SELF
/* ---- self-assignment  A = A : the matrix must be left exactly as it was */
void f_crs_copy_assign(crs *self, const crs *other_p, ptr_type *buf_ptr, col_type *buf_col, V *buf_val)
__CPROVER_requires(__CPROVER_is_fresh(self, sizeof(crs)) && other_p == self)
__CPROVER_requires(self->nrows <= NMAX && self->nnz <= ZMAX)
__CPROVER_requires(self->ptr == 0 || __CPROVER_is_fresh(self->ptr, (self->nrows + 1) * sizeof(ptr_type)))
__CPROVER_requires(self->col == 0 || __CPROVER_is_fresh(self->col, self->nnz * sizeof(col_type)))
__CPROVER_requires(self->val == 0 || __CPROVER_is_fresh(self->val, self->nnz * sizeof(V)))
__CPROVER_requires(__CPROVER_is_fresh(buf_ptr, (self->nrows + 1) * sizeof(ptr_type)) && __CPROVER_is_fresh(buf_col, self->nnz * sizeof(col_type)) && __CPROVER_is_fresh(buf_val, self->nnz * sizeof(V)))
__CPROVER_requires(g_allocs == 0 && g_thrown == 0 && g_deletes == 0 && !g_del_ptr && !g_del_col && !g_del_val)
__CPROVER_requires(g_trk_ptr == self->ptr && g_trk_col == self->col && g_trk_val == self->val)
__CPROVER_requires(!WATCH_I || self->ptr[g_i] == g_pi)
__CPROVER_requires(!WATCH_J || (self->col[g_j] == g_cj && self->val[g_j] == g_vj))
__CPROVER_assigns(*self, g_allocs, g_deletes, g_del_ptr, g_del_col, g_del_val, g_len_ptr, g_len_col, g_len_val, __CPROVER_object_whole(buf_ptr), __CPROVER_object_whole(buf_col), __CPROVER_object_whole(buf_val))
__CPROVER_ensures(self->nrows == __CPROVER_old(self->nrows) && self->ncols == __CPROVER_old(self->ncols) && self->nnz == __CPROVER_old(self->nnz) && self->own_data == __CPROVER_old(self->own_data))
__CPROVER_ensures(self->ptr == __CPROVER_old(self->ptr) && self->col == __CPROVER_old(self->col) && self->val == __CPROVER_old(self->val))
__CPROVER_ensures(g_allocs == 0 && g_deletes == 0 && !g_del_ptr && !g_del_col && !g_del_val && g_thrown == 0)
__CPROVER_ensures(!WATCH_I || self->ptr[g_i] == g_pi)
__CPROVER_ensures(!WATCH_J || (self->col[g_j] == g_cj && self->val[g_j] == g_vj))
#else
/* ---- A = B, distinct objects; the target owns its old arrays or borrows them (zero-copy view) */
void f_crs_copy_assign(crs *self, const crs *other_p, ptr_type *buf_ptr, col_type *buf_col, V *buf_val)
''' + COPY_REQUIRES + r'''
__CPROVER_requires(g_deletes == 0 && !g_del_ptr && !g_del_col && !g_del_val)
__CPROVER_requires(g_trk_ptr == self->ptr && g_trk_col == self->col && g_trk_val == self->val)
__CPROVER_assigns(*self, g_allocs, g_deletes, g_del_ptr, g_del_col, g_del_val, g_len_ptr, g_len_col, g_len_val, __CPROVER_object_whole(buf_ptr), __CPROVER_object_whole(buf_col), __CPROVER_object_whole(buf_val))
''' + COPY_ENSURES + r'''
/* C10 no leak, no free of borrowed memory: an owning target deletes each of its old non-null arrays exactly once,
 * a borrowing target (own_data == false: the arrays belong to the user) deletes nothing                        */
__CPROVER_ensures(__CPROVER_old(self->own_data)
    ? (g_del_ptr == (__CPROVER_old(self->ptr) != 0) && g_del_col == (__CPROVER_old(self->col) != 0) && g_del_val == (__CPROVER_old(self->val) != 0)
       && g_deletes == (unsigned)(__CPROVER_old(self->ptr) != 0) + (unsigned)(__CPROVER_old(self->col) != 0) + (unsigned)(__CPROVER_old(self->val) != 0))
    : (g_deletes == 0 && !g_del_ptr && !g_del_col && !g_del_val))
/* no dangling / stale pointer: the arrays are the fresh ones or null (see COPY_ENSURES), never the old ones */
__CPROVER_ensures(self->own_data)
#endif
{
#define other (*other_p)
/*@CUT:body@*/
#undef other
}
#if SELF
void h_f_crs_copy_assign(void) { crs *s; ptr_type *bp; col_type *bc; V *bv; f_crs_copy_assign(s, s, bp, bc, bv); }
#else
void h_f_crs_copy_assign(void) { crs *s; const crs *o; ptr_type *bp; col_type *bc; V *bv; f_crs_copy_assign(s, o, bp, bc, bv); }
#endif
'''
crs_copy_assign = Unit(
    name='crs_copy_assign', props=['C08', 'C10'],
    functions=['backend::crs::operator=(const crs &other)', 'backend::crs::free_data()'],
    desc='copy assignment A = B (distinct objects, any target: owning or borrowing its old arrays): the result owns three fresh arrays with '
         'the sizes, row pointers and entries of the source; an owning target deleted each old array exactly once, a borrowing target '
         'deleted nothing (user memory untouched); no stale pointer survives.  Self-assignment A = A leaves the matrix exactly as it was '
         '(nothing allocated, nothing deleted).  All sizes',
    cuts={'free_data': FREE_DATA_CUT,
          'body': Cut(BUILTIN, r'const crs& operator=\(const crs &other\)\s*(?=\{)',
                      rules=[Rule(r'(?<![\w.>])free_data\(\);', 'crs_free_data(self);', None, why='R-member-call'),
                             Rule(r'\bthis\b', 'self', None, why='this -> self'),
                             Rule(r'return \*self;', 'return;', None, why='reference to self not needed in the C view')] + COPY_RULES,
                      loops=COPY_LOOPS())},
    template=ASSIGN_TEMPLATE,
    enforce='f_crs_copy_assign', mode='inductive', model='uf', timeout=300, replay='kernels',
    variants=[{'SELF': 0}, {'SELF': 1}],
    assumptions=[a for a in A_CRSM if not a.startswith('A-alias')] + ['A-alias: in the general variant *this and other are distinct objects sharing no storage (is_fresh); the aliased case this == &other is the second variant'],
)
UNITS += [crs_copy_assign]

# --- move constructor / move assignment (loop-free)
MOVE_REQ = r'''
__CPROVER_requires(__CPROVER_is_fresh(self, sizeof(crs)) && __CPROVER_is_fresh(other_p, sizeof(crs)))
__CPROVER_requires(g_allocs == 0 && g_deletes == 0 && g_thrown == 0)
'''
crs_move_ctor = Unit(
    name='crs_move_ctor', props=['C08', 'C10'],
    functions=['backend::crs::crs(crs &&other)'],
    desc='move constructor: the new matrix takes sizes, the three arrays and the ownership flag of the source; the source is left empty '
         '(sizes 0, null arrays) so that its destructor frees nothing; nothing is allocated, copied or deleted',
    cuts={'init': Cut(BUILTIN, r'crs\(crs &&other\) :', kind='region', begin_exclusive=True, end=r'\{', rules=[INIT_LIST]),
          'body': Cut(BUILTIN, r'crs\(crs &&other\)\s*:[^{]*(?=\{)', rules=member_rules())},
    template=CRSM_PRELUDE + r'''
void f_crs_move_ctor(crs *self, crs *other_p)
''' + MOVE_REQ + r'''
__CPROVER_assigns(*self, *other_p)
/* the new matrix is the old source, field by field (arrays are handed over, not copied) */
__CPROVER_ensures(self->nrows == __CPROVER_old(other_p->nrows) && self->ncols == __CPROVER_old(other_p->ncols) && self->nnz == __CPROVER_old(other_p->nnz))
__CPROVER_ensures(self->ptr == __CPROVER_old(other_p->ptr) && self->col == __CPROVER_old(other_p->col) && self->val == __CPROVER_old(other_p->val))
__CPROVER_ensures(self->own_data == __CPROVER_old(other_p->own_data))
/* C10: exactly one owner afterwards: the source holds no array any more (no double free, no use of moved-from data) */
__CPROVER_ensures(other_p->nrows == 0 && other_p->ncols == 0 && other_p->nnz == 0 && other_p->ptr == 0 && other_p->col == 0 && other_p->val == 0)
__CPROVER_ensures(g_allocs == 0 && g_deletes == 0 && g_thrown == 0)
{
#define other (*other_p)
/*@CUT:init@*/
/*@CUT:body@*/
#undef other
}
void h_f_crs_move_ctor(void) { crs *s, *o; f_crs_move_ctor(s, o); }
''',
    enforce='f_crs_move_ctor', mode='loopfree', model='uf', timeout=120, replay='kernels', obj_bits=10,
    assumptions=['A-alias: *this and other are distinct objects (is_fresh)', 'A-delete / A-new: no allocation or delete[] occurs (ghost counters stay 0)'],
)
MOVE_ASSIGN_TEMPLATE = CRSM_PRELUDE + r"""
/* crs::free_data(), the real body (its own contract is unit adapt_crs_free_data) */
static void crs_free_data(crs *self)
{
/*@CUT:free_data@*/
}
/* The contract is written from the property (C17: zero-copy matrices never copy or free user memory; C10: no leak, no
 * double free, no dangling owned pointer), not from one implementation: it admits "exchange the two objects" as well as
 * "release the target's storage, then steal the source's".  For an array a of the old target (tracked: g_trk_a):
 *   released here  <=> g_del_a;    parked in the source  <=> other.a == old target.a                                  */
#define OLD_OWNED_OK(a, del)  ((__CPROVER_old(self->a) == 0) || \
    ((del) ? other_p->a != __CPROVER_old(self->a)                                  /* released here exactly once, not kept */ \
           : (other_p->a == __CPROVER_old(self->a) && other_p->own_data)))         /* or parked in the source WITH ownership */
#define OLD_BORROWED_OK(a, del) ((__CPROVER_old(self->a) == 0) || \
    (!(del) && (other_p->a != __CPROVER_old(self->a) || !other_p->own_data)))      /* user memory: never released, never handed to an owner */
#define SRC_LEFT_OK(a, del) (other_p->a == 0 || !other_p->own_data || \
    (other_p->a == __CPROVER_old(self->a) && !(del) && __CPROVER_old(self->own_data)))  /* an owning moved-from object holds only live arrays that were owned */
void f_crs_move_assign(crs *self, crs *other_p)
""" + MOVE_REQ + r"""
__CPROVER_requires(!g_del_ptr && !g_del_col && !g_del_val)
__CPROVER_requires(g_trk_ptr == self->ptr && g_trk_col == self->col && g_trk_val == self->val)
/* A-alias: the two matrices share no array */
__CPROVER_requires((self->ptr == 0 || (self->ptr != other_p->ptr && self->ptr != (const void *)other_p->col && self->ptr != (const void *)other_p->val)))
__CPROVER_requires((self->col == 0 || (self->col != (const void *)other_p->ptr && self->col != other_p->col && self->col != (const void *)other_p->val)))
__CPROVER_requires((self->val == 0 || (self->val != (const void *)other_p->ptr && self->val != (const void *)other_p->col && self->val != other_p->val)))
__CPROVER_requires((const void *)self->ptr != (const void *)self->col || self->ptr == 0)
__CPROVER_requires((const void *)self->ptr != (const void *)self->val || self->ptr == 0)
__CPROVER_requires((const void *)self->col != (const void *)self->val || self->col == 0)
__CPROVER_assigns(*self, *other_p, g_deletes, g_del_ptr, g_del_col, g_del_val)
/* the target becomes the source: sizes, the three arrays (no copy) and the OWNERSHIP FLAG */
__CPROVER_ensures(self->nrows == __CPROVER_old(other_p->nrows) && self->ncols == __CPROVER_old(other_p->ncols) && self->nnz == __CPROVER_old(other_p->nnz))
__CPROVER_ensures(self->ptr == __CPROVER_old(other_p->ptr) && self->col == __CPROVER_old(other_p->col) && self->val == __CPROVER_old(other_p->val))
__CPROVER_ensures(self->own_data == __CPROVER_old(other_p->own_data))
/* the old arrays of the target: owned -> released exactly once, here or (parked with ownership) by the source's destructor;
 * borrowed (zero-copy view of user memory) -> not released here and not handed to an owner */
__CPROVER_ensures(__CPROVER_old(self->own_data)
    ? (OLD_OWNED_OK(ptr, g_del_ptr) && OLD_OWNED_OK(col, g_del_col) && OLD_OWNED_OK(val, g_del_val))
    : (OLD_BORROWED_OK(ptr, g_del_ptr) && OLD_BORROWED_OK(col, g_del_col) && OLD_BORROWED_OK(val, g_del_val)))
/* nothing else is released (in particular not the arrays that now belong to the target), nothing allocated */
__CPROVER_ensures(g_deletes == (unsigned)g_del_ptr + (unsigned)g_del_col + (unsigned)g_del_val && g_allocs == 0 && g_thrown == 0)
/* the moved-from object can be destroyed safely: what it owns is live, was owned, and is not also held by the target */
__CPROVER_ensures(SRC_LEFT_OK(ptr, g_del_ptr) && SRC_LEFT_OK(col, g_del_col) && SRC_LEFT_OK(val, g_del_val))
{
#define other (*other_p)
/*@CUT:body@*/
#undef other
}
void h_f_crs_move_assign(void) { crs *s, *o; f_crs_move_assign(s, o); }
"""
crs_move_assign = Unit(
    name='crs_move_assign', props=['C08', 'C10', 'C17'],
    functions=['backend::crs::operator=(crs &&other)', 'backend::crs::free_data()'],
    desc='move assignment (distinct objects): the target takes the sizes, the three arrays (no copy) and the ownership flag of the source; '
         'every array the old target owned is released exactly once -- here, or by the moved-from object which then holds it with ownership; '
         'arrays the old target only borrowed (zero-copy view of user memory) are neither released nor handed to an owner; nothing else is '
         'released or allocated; the moved-from object owns only live arrays',
    cuts={'free_data': FREE_DATA_CUT,
          'body': Cut(BUILTIN, r'const crs& operator=\(crs &&other\)\s*(?=\{)',
                      rules=[Rule(r'(?<![\w.>])free_data\(\);', 'crs_free_data(self);', None, why='R-member-call'),
                             Rule(r'\bthis\b', 'self', None, why='this -> self'),
                             Rule(r'return \*self;', 'return;', None, why='reference to self not needed in the C view')] + member_rules())},
    template=MOVE_ASSIGN_TEMPLATE,
    enforce='f_crs_move_assign', mode='loopfree', model='uf', timeout=120, replay='kernels', obj_bits=10,
    assumptions=['A-alias: *this and other are distinct objects sharing no array (is_fresh / requires)', 'A-std: std::swap(a, b) exchanges a and b (macro)',
                 'A-delete: delete[] p is the ghost event ghost_delete(p) (null: no effect)',
                 'A-own: that the destructor of the moved-from object releases what it owns is crs::~crs / free_data (units adapt_crs_dtor, adapt_crs_free_data)'],
)
UNITS += [crs_move_ctor, crs_move_assign]

# --- set_size (inductive: the clean_ptr loop), set_nonzeros(n, need_values) (loop-free), set_nonzeros() (inductive)
_mc = crs_member_cuts()
SET_SIZE_LOOP = '''
__CPROVER_assigns(i, __CPROVER_object_whole(buf_ptr))
__CPROVER_loop_invariant(0 <= i && i <= (ptrdiff_t)self->nrows)
__CPROVER_loop_invariant(g_i <= (size_t)i ==> self->ptr[g_i] == 0)
__CPROVER_decreases((ptrdiff_t)self->nrows - i)
'''
_mc['set_size'].rules += [IdxRule(r'self->ptr', 'g_len_ptr', None)]
_mc['set_size'].loops = [Loop(r'for\(ptrdiff_t i = 0;', SET_SIZE_LOOP, prefix=True)]
crs_set_size = Unit(
    name='crs_set_size', props=['C08', 'C10'],
    functions=['backend::crs::set_size(size_t n, size_t m, bool clean_ptr)'],
    desc='set_size: throws (nothing changed) exactly when row pointers are already allocated; otherwise nrows = n, ncols = m, ptr is a '
         'fresh array of exactly n+1 cells, all of them 0 when clean_ptr; col, val, nnz, own_data untouched; all n',
    cuts={'body': _mc['set_size']},
    template=CRSM_PRELUDE + r'''
void f_crs_set_size(crs *self, size_t n, size_t m, _Bool clean_ptr, ptr_type *buf_ptr)
__CPROVER_requires(__CPROVER_is_fresh(self, sizeof(crs)) && n <= NMAX && g_i <= n)
__CPROVER_requires(__CPROVER_is_fresh(buf_ptr, (n + 1) * sizeof(ptr_type)))
__CPROVER_requires(g_allocs == 0 && g_thrown == 0)
__CPROVER_assigns(self->nrows, self->ncols, self->ptr, g_thrown, g_allocs, g_len_ptr, __CPROVER_object_whole(buf_ptr))
__CPROVER_ensures((g_thrown != 0) == (__CPROVER_old(self->ptr) != 0))
__CPROVER_ensures(g_thrown ? (self->nrows == __CPROVER_old(self->nrows) && self->ncols == __CPROVER_old(self->ncols) && self->ptr == __CPROVER_old(self->ptr) && g_allocs == 0)
                           : (self->nrows == n && self->ncols == m && self->ptr == buf_ptr && g_allocs == 1 && g_len_ptr == n + 1))
__CPROVER_ensures((!g_thrown && clean_ptr) ==> self->ptr[g_i] == 0)
{
/*@CUT:body@*/
}
void h_f_crs_set_size(void) { crs *s; size_t n, m; _Bool c; ptr_type *b; f_crs_set_size(s, n, m, c, b); }
''',
    enforce='f_crs_set_size', mode='inductive', model='uf', timeout=120, replay='kernels', obj_bits=10,
    assumptions=[A_CRSM[1], 'A-pre: precondition(c, msg) throws: modelled as g_thrown = 1 and return'],
)
crs_set_nonzeros_n = Unit(
    name='crs_set_nonzeros_n', props=['C08', 'C10'],
    functions=['backend::crs::set_nonzeros(size_t n, bool need_values)'],
    desc='set_nonzeros(n, need_values): throws (nothing changed) exactly when col or val is already allocated; otherwise nnz = n, col is a fresh '
         'array of exactly n cells, val likewise iff need_values (else stays null); sizes, ptr, own_data untouched',
    cuts={'body': _mc['set_nonzeros_n']},
    template=CRSM_PRELUDE + r'''
void f_crs_set_nonzeros_n(crs *self, size_t n, _Bool need_values, col_type *buf_col, V *buf_val)
__CPROVER_requires(__CPROVER_is_fresh(self, sizeof(crs)) && n <= ZMAX)
__CPROVER_requires(__CPROVER_is_fresh(buf_col, n * sizeof(col_type)) && __CPROVER_is_fresh(buf_val, n * sizeof(V)))
__CPROVER_requires(g_allocs == 0 && g_thrown == 0)
__CPROVER_assigns(self->nnz, self->col, self->val, g_thrown, g_allocs, g_len_col, g_len_val)
__CPROVER_ensures((g_thrown != 0) == (__CPROVER_old(self->col) != 0 || __CPROVER_old(self->val) != 0))
__CPROVER_ensures(g_thrown ? (self->nnz == __CPROVER_old(self->nnz) && self->col == __CPROVER_old(self->col) && self->val == __CPROVER_old(self->val) && g_allocs == 0)
                           : (self->nnz == n && self->col == buf_col && g_len_col == n
                              && (need_values ? (self->val == buf_val && g_len_val == n && g_allocs == 2) : (self->val == 0 && g_allocs == 1))))
{
/*@CUT:body@*/
}
void h_f_crs_set_nonzeros_n(void) { crs *s; size_t n; _Bool nv; col_type *bc; V *bv; f_crs_set_nonzeros_n(s, n, nv, bc, bv); }
''',
    enforce='f_crs_set_nonzeros_n', mode='loopfree', model='uf', timeout=120, replay='kernels', obj_bits=10,
    assumptions=[A_CRSM[1], 'A-pre: precondition(c, msg) throws: modelled as g_thrown = 1 and return'],
)
UNITS += [crs_set_size, crs_set_nonzeros_n]

SET_NZ_OUTER = '''
__CPROVER_assigns(i, __CPROVER_object_whole(buf_col), __CPROVER_object_whole(buf_val))
__CPROVER_loop_invariant(0 <= i && i <= (ptrdiff_t)self->nrows)
__CPROVER_loop_invariant((self->ptr[0] <= g_j && g_j < self->ptr[i] && g_j < self->ptr[self->nrows]) ==> (self->col[g_j] == 0 && self->val[g_j] == e_z))
__CPROVER_decreases((ptrdiff_t)self->nrows - i)
'''
SET_NZ_INNER = '''
__CPROVER_assigns(j, __CPROVER_object_whole(buf_col), __CPROVER_object_whole(buf_val))
__CPROVER_loop_invariant(row_beg <= j && j <= row_end && row_beg == self->ptr[i] && row_end == self->ptr[i + 1] && 0 <= row_beg && row_end <= self->ptr[self->nrows])
__CPROVER_loop_invariant((self->ptr[0] <= g_j && g_j < j) ==> (self->col[g_j] == 0 && self->val[g_j] == e_z))
__CPROVER_decreases(row_end - j)
'''
crs_set_nonzeros0 = Unit(
    name='crs_set_nonzeros', props=['C08', 'C10'],
    functions=['backend::crs::set_nonzeros()', 'backend::crs::set_nonzeros(size_t, bool)'],
    desc='set_nonzeros(): throws exactly when col or val is already allocated; otherwise nnz = ptr[nrows], col and val are fresh arrays of exactly '
         'nnz cells and every cell addressed by a row (ptr[0] <= j < ptr[nrows]) holds column 0 / value zero; sizes and ptr untouched; all sizes',
    cuts={'callee': _mc['set_nonzeros_n'],
          'body': Cut(BUILTIN, r'void set_nonzeros\(\)\s*(?=\{)',
                      rules=member_rules() + [
                          Rule(r'(?<![\w.>])set_nonzeros\(([^;]*)\);', r'crs_set_nonzeros_n1(self, \1); if (g_thrown) return;', None,
                               why='R-member-call (default argument need_values = true); an exception thrown by the callee propagates'),
                          Rule(r'(ptrdiff_t row_beg = )', r'ROW_OK_SELF(i); \1', None, why='pointwise instantiation of "ptr monotone" at the row read'),
                          IdxRule(r'self->ptr', 'self->nrows + 1', None), IdxRule(r'self->col', 'g_len_col', None), IdxRule(r'self->val', 'g_len_val', None)],
                      loops=[Loop(r'for\(ptrdiff_t i = 0;', SET_NZ_OUTER, prefix=True), Loop(r'for\(ptrdiff_t j = row_beg;', SET_NZ_INNER, prefix=True)])},
    template=CRSM_PRELUDE + r'''
#define ROW_OK_SELF(i) __CPROVER_assume(0 <= self->ptr[i] && self->ptr[i] <= self->ptr[(i) + 1] && self->ptr[(i) + 1] <= self->ptr[self->nrows])
/* crs::set_nonzeros(n, need_values), the real body (its own contract: unit crs_set_nonzeros_n); the ghost allocation
 * parameters are threaded through                                                                               */
static void crs_set_nonzeros_n(crs *self, size_t n, _Bool need_values, col_type *buf_col, V *buf_val)
{
/*@CUT:callee@*/
}
#define crs_set_nonzeros_n1(self, n) crs_set_nonzeros_n(self, n, 1, buf_col, buf_val)
void f_crs_set_nonzeros(crs *self, col_type *buf_col, V *buf_val)
__CPROVER_requires(__CPROVER_is_fresh(self, sizeof(crs)) && self->nrows <= NMAX)
__CPROVER_requires(__CPROVER_is_fresh(self->ptr, (self->nrows + 1) * sizeof(ptr_type)))
/* crs_wf: row pointers non-negative and monotone (ROW_OK_SELF), total within range */
__CPROVER_requires(0 <= self->ptr[0] && self->ptr[0] <= self->ptr[self->nrows] && (size_t)self->ptr[self->nrows] <= ZMAX)
__CPROVER_requires(__CPROVER_is_fresh(buf_col, (size_t)self->ptr[self->nrows] * sizeof(col_type)) && __CPROVER_is_fresh(buf_val, (size_t)self->ptr[self->nrows] * sizeof(V)))
__CPROVER_requires(g_allocs == 0 && g_thrown == 0)
__CPROVER_assigns(self->nnz, self->col, self->val, g_thrown, g_allocs, g_len_col, g_len_val, __CPROVER_object_whole(buf_col), __CPROVER_object_whole(buf_val))
__CPROVER_ensures((g_thrown != 0) == (__CPROVER_old(self->col) != 0 || __CPROVER_old(self->val) != 0))
__CPROVER_ensures(g_thrown ? (self->nnz == __CPROVER_old(self->nnz) && self->col == __CPROVER_old(self->col) && self->val == __CPROVER_old(self->val) && g_allocs == 0)
                           : (self->nnz == (size_t)self->ptr[self->nrows] && self->col == buf_col && self->val == buf_val && g_allocs == 2
                              && g_len_col == self->nnz && g_len_val == self->nnz))
/* every cell a row addresses is initialised: column 0, value zero */
__CPROVER_ensures((!g_thrown && self->ptr[0] <= g_j && g_j < self->ptr[self->nrows]) ==> (self->col[g_j] == 0 && self->val[g_j] == MATH_zero(V)))
{
  const V e_z = MATH_zero(V);
/*@CUT:body@*/
}
void h_f_crs_set_nonzeros(void) { crs *s; col_type *bc; V *bv; f_crs_set_nonzeros(s, bc, bv); }
''',
    enforce='f_crs_set_nonzeros', mode='inductive', model='uf', timeout=300, replay='kernels',
    assumptions=[A_CRSM[0], A_CRSM[1], A_CRSM[5], 'A-pre: precondition(c, msg) throws: modelled as g_thrown = 1 and return; the exception propagates through the caller',
                 'A-wf: ptr monotone is a universally quantified precondition over the read-only array ptr, instantiated pointwise where a row is read (ROW_OK_SELF)'],
)

# --- scan_row_sizes (bounded: std::partial_sum is a library loop, prelude stub)
crs_scan = Unit(
    name='crs_scan_row_sizes', props=['C08', 'C10'],
    functions=['backend::crs::scan_row_sizes()'],
    desc='scan_row_sizes: ptr[k] becomes the sum of the old ptr[0..k] for every k <= nrows (row widths -> row pointers), the total ptr[nrows] is returned; nothing else changes',
    cuts={'body': _mc['scan_row_sizes']},
    template='#define MODEL_INT32 1\n' + BOUNDED_PRELUDE + r'''
size_t w_n; ptr_type w_ptr[CAP_PTR];
static ptr_type f_scan_row_sizes(crs *self)
{
/*@CUT:body@*/
}
void h_scan_row_sizes(void)
{
  crs *A = crs_input();
  REQUIRES(A->nrows <= NMAX);
  ptr_type old[CAP_PTR];
  for (size_t k = 0; k < CAP_PTR; ++k) { REQUIRES(A->ptr[k] >= 0 && A->ptr[k] <= 7); old[k] = A->ptr[k]; w_ptr[k] = A->ptr[k]; }
  w_n = A->nrows;
  crs_snap s0; crs_snapshot(A, &s0);
  ptr_type r = f_scan_row_sizes(A);
  _Bool sums = 1, rest = 1; ptr_type acc = 0;
  for (size_t k = 0; k < CAP_PTR; ++k) {
    if (k <= A->nrows) { acc += old[k]; if (A->ptr[k] != acc) sums = 0; }
    else if (A->ptr[k] != old[k]) rest = 0;
  }
  ENSURES(sums, "scan_row_sizes: ptr[k] == old ptr[0] + ... + old ptr[k] for every k <= nrows");
  ENSURES(r == A->ptr[A->nrows], "scan_row_sizes: returns the total ptr[nrows]");
  ENSURES(rest, "frame: cells beyond nrows are not modified");
  for (size_t k = 0; k < CAP_PTR; ++k) A->ptr[k] = old[k];
  ENSURES(crs_unchanged(A, &s0), "frame: sizes, columns, values and the array pointers are not modified");
  CANARY("harness.end");
}
''',
    entry='h_scan_row_sizes', mode='unwound', unwind='NMAX+3', model='int32',
    variants=[{'NMAX': 4, 'ZMAX': 2}], thorough_variants=[{'NMAX': 8, 'ZMAX': 2}],
    bound_text='all matrices with nrows <= 4 (thorough 8), row widths 0..7',
    assumptions=['A-bound: nothing is claimed beyond the stated size bound', 'A-std: std::partial_sum is the prelude stub (3-line loop)'],
    replay='kernels', timeout=120, witness=['w_n', 'w_ptr'],
)
UNITS += [crs_set_nonzeros0, crs_scan]

# ==========================================================================================
# 6. amgcl/detail/spgemm.hpp: the row-merge SpGEMM (merge_rows x2, prod_row_width, prod_row, spgemm_rmerge) -- bounded
# ==========================================================================================
SPGEMM = 'amgcl/detail/spgemm.hpp'
MERGE_COLS_ANCHOR = r'Idx\* merge_rows\(\s*const Idx \*col1, const Idx \*col1_end,\s*const Idx \*col2, const Idx \*col2_end,\s*Idx \*col3\s*\)\s*(?=\{)'
MERGE_VALS_ANCHOR = (r'Idx\* merge_rows\(\s*const Val &alpha1, const Idx \*col1, const Idx \*col1_end, const Val \*val1,\s*'
                     r'const Val &alpha2, const Idx \*col2, const Idx \*col2_end, const Val \*val2,\s*Idx \*col3, Val \*val3\s*\)\s*(?=\{)')
PROD_WIDTH_ANCHOR = (r'Ptr prod_row_width\(\s*const Col \*acol, const Col \*acol_end,\s*const Ptr \*bptr, const Col \*bcol,\s*'
                     r'Col \*tmp_col1, Col \*tmp_col2, Col \*tmp_col3\s*\)\s*(?=\{)')
PROD_ROW_ANCHOR = (r'void prod_row\(\s*const Col \*acol, const Col \*acol_end, const Val \*aval,\s*const Ptr \*bptr, const Col \*bcol, const Val \*bval,\s*'
                   r'Col \*out_col, Val \*out_val,\s*Col \*tm2_col, Val \*tm2_val,\s*Col \*tm3_col, Val \*tm3_val\s*\)\s*(?=\{)')
# call sites of the two merge_rows overloads: the template argument list distinguishes them syntactically
MERGE_CALLS = [Rule(r'\bmerge_rows<(\w+)>\(', r'merge_rows_cols(\1, ', None, why='merge_rows<need_out>(...): template argument -> first parameter'),
               Rule(r'\bmerge_rows\(', 'merge_rows_vals(', None, why='the value overload of merge_rows')]
def rmerge_cuts():
    return {'merge_cols': Cut(SPGEMM, MERGE_COLS_ANCHOR), 'merge_vals': Cut(SPGEMM, MERGE_VALS_ANCHOR),
            'prod_row_width': Cut(SPGEMM, PROD_WIDTH_ANCHOR, rules=list(MERGE_CALLS)),
            'prod_row': Cut(SPGEMM, PROD_ROW_ANCHOR, rules=list(MERGE_CALLS))}
RMERGE_C = r'''
typedef ptrdiff_t Idx;
/* std::copy / std::swap (A-std: prelude stubs) */
static Idx *std_copy_I(const Idx *first, const Idx *last, Idx *out) { for (; first != last; ++first, ++out) *out = *first; return out; }
static Val *std_copy_V(const Val *first, const Val *last, Val *out) { for (; first != last; ++first, ++out) *out = *first; return out; }
#define std_copy(f, l, o) _Generic((o), Idx *: std_copy_I, Val *: std_copy_V)(f, l, o)
#define std_swap(a, b) do { __typeof__(a) t_ = (a); (a) = (b); (b) = t_; } while (0)
/* template <bool need_out, class Idx> Idx* merge_rows(col1, col1_end, col2, col2_end, col3) */
static Idx *merge_rows_cols(const _Bool need_out, const Idx *col1, const Idx *col1_end, const Idx *col2, const Idx *col2_end, Idx *col3)
{
/*@CUT:merge_cols@*/
}
/* template <class Idx, class Val> Idx* merge_rows(alpha1, col1, col1_end, val1, alpha2, col2, col2_end, val2, col3, val3) */
static Idx *merge_rows_vals(const Val alpha1, const Idx *col1, const Idx *col1_end, const Val *val1,
                            const Val alpha2, const Idx *col2, const Idx *col2_end, const Val *val2, Idx *col3, Val *val3)
{
/*@CUT:merge_vals@*/
}
static Ptr prod_row_width(const Col *acol, const Col *acol_end, const Ptr *bptr, const Col *bcol, Col *tmp_col1, Col *tmp_col2, Col *tmp_col3)
{
/*@CUT:prod_row_width@*/
}
static void prod_row(const Col *acol, const Col *acol_end, const Val *aval, const Ptr *bptr, const Col *bcol, const Val *bval,
                     Col *out_col, Val *out_val, Col *tm2_col, Val *tm2_val, Col *tm3_col, Val *tm3_val)
{
/*@CUT:prod_row@*/
}
'''
A_RMERGE = ['A-bound: nothing is claimed beyond the stated size bound',
            'A-std: std::copy / std::swap / std::max are prelude stubs (3-line loops / macros)',
            'A-ring: values instantiated at a commutative ring (int32, small values): exact and summation-order independent',
            'A-inst: Idx = Col = Ptr = ptrdiff_t',
            'A-sorted: the rows being merged are in strictly ascending column order (row-sorted, duplicate-free inputs): the stated domain of the row-merge algorithm']

SPEC_MERGE = r"""
#ifndef LMAX
#define LMAX 3
#endif
#define CAP_M (2 * LMAX + 1)
static _Bool strictly_sorted(const Idx *c, int n) { for (int k = 0; k + 1 < LMAX; ++k) if (k + 1 < n && !(c[k] < c[k + 1])) return 0; return 1; }
static _Bool contains(const Idx *c, int n, Idx x) { for (int k = 0; k < CAP_M; ++k) if (k < n && c[k] == x) return 1; return 0; }
static Val value_at(const Idx *c, const Val *v, int n, Idx x) { for (int k = 0; k < CAP_M; ++k) if (k < n && c[k] == x) return v[k]; return 0; }
unsigned char nondet_uchar(void);
int w_n1, w_n2, w_need_out, w_alpha1, w_alpha2; Idx w_col1[LMAX], w_col2[LMAX]; int w_val1[LMAX], w_val2[LMAX];
"""
merge_rows_cols = Unit(
    name='spgemm_merge_rows_cols', props=['C08', 'C03', 'C10'],
    functions=['backend::merge_rows<need_out, Idx>(col1, col1_end, col2, col2_end, col3)'],
    desc='merge of two strictly ascending column lists: returns col3 + |union|; with need_out the output is the strictly ascending union '
         '(every input column present, nothing else); without need_out nothing is written; cells beyond the result are untouched',
    cuts=rmerge_cuts(),
    template='#define MODEL_INT32 1\n' + BOUNDED_PRELUDE + RMERGE_C + SPEC_MERGE + r'''
void h_merge_rows_cols(void)
{
  int n1 = nondet_uchar() & 3, n2 = nondet_uchar() & 3; _Bool need_out;
  Idx c1[LMAX], c2[LMAX], c3[CAP_M], c30[CAP_M];
  REQUIRES(n1 <= LMAX && n2 <= LMAX);
  for (int k = 0; k < LMAX; ++k) { c1[k] = nondet_uchar() & 7; c2[k] = nondet_uchar() & 7; w_col1[k] = c1[k]; w_col2[k] = c2[k]; }
  for (int k = 0; k < CAP_M; ++k) c30[k] = c3[k];
  REQUIRES(strictly_sorted(c1, n1) && strictly_sorted(c2, n2));
  w_n1 = n1; w_n2 = n2; w_need_out = need_out;
  Idx *e = merge_rows_cols(need_out, c1, c1 + n1, c2, c2 + n2, c3);
  int n3 = (int)(e - c3);
  int uni = n2; for (int k = 0; k < LMAX; ++k) if (k < n1 && !contains(c2, n2, c1[k])) uni++;
  ENSURES(n3 == uni, "merge_rows: the returned end pointer gives the size of the union of the two column sets");
  _Bool frame = 1;
  for (int k = 0; k < CAP_M; ++k) if ((!need_out || k >= n3) && c3[k] != c30[k]) frame = 0;
  ENSURES(frame, "frame: cells beyond the result (all cells when need_out is false) are not modified");
  if (need_out) {
    _Bool sorted = 1, sound = 1, complete = 1;
    for (int k = 0; k < CAP_M; ++k) if (k < n3) {
      if (k + 1 < n3 && !(c3[k] < c3[k + 1])) sorted = 0;
      if (!contains(c1, n1, c3[k]) && !contains(c2, n2, c3[k])) sound = 0;
    }
    for (int k = 0; k < LMAX; ++k) { if (k < n1 && !contains(c3, n3, c1[k])) complete = 0; if (k < n2 && !contains(c3, n3, c2[k])) complete = 0; }
    ENSURES(sorted, "merge_rows: output strictly ascending (sorted, no duplicate column)");
    ENSURES(sound, "merge_rows: every output column comes from one of the inputs");
    ENSURES(complete, "merge_rows: every input column is in the output");
  }
  CANARY("harness.end");
}
''',
    entry='h_merge_rows_cols', mode='unwound', unwind='2*LMAX+2', model='int32',
    variants=[{'LMAX': 3}], thorough_variants=[{'LMAX': 4}],
    bound_text='all pairs of strictly ascending column lists of length <= 3 (thorough 4), columns 0..7, need_out symbolic',
    assumptions=A_RMERGE, replay='kernels', timeout=300,
    witness=['w_n1', 'w_n2', 'w_need_out', 'w_col1', 'w_col2'],
)
merge_rows_cols.cover_exempt = r'^(merge_vals|prod_row|prod_row_width)\.'   # the other members of the shared template are not called here

merge_rows_vals = Unit(
    name='spgemm_merge_rows_vals', props=['C08', 'C03', 'C10'],
    functions=['backend::merge_rows<Idx, Val>(alpha1, col1, col1_end, val1, alpha2, col2, col2_end, val2, col3, val3)'],
    desc='weighted merge of two sparse rows with strictly ascending columns: the output is the strictly ascending union of the columns and the '
         'value at column c is alpha1*row1(c) + alpha2*row2(c); returns col3 + |union|; cells beyond the result are untouched',
    cuts=rmerge_cuts(),
    template='#define MODEL_INT32 1\n' + BOUNDED_PRELUDE + RMERGE_C + SPEC_MERGE + r'''
void h_merge_rows_vals(void)
{
  int n1 = nondet_uchar() & 3, n2 = nondet_uchar() & 3;
  Val a1 = (Val)(nondet_uchar() & CMASK) - COFF, a2 = (Val)(nondet_uchar() & CMASK) - COFF;
  Idx c1[LMAX], c2[LMAX], c3[CAP_M], c30[CAP_M]; Val v1[LMAX], v2[LMAX], v3[CAP_M], v30[CAP_M];
  REQUIRES(n1 <= LMAX && n2 <= LMAX);
  for (int k = 0; k < LMAX; ++k) { c1[k] = nondet_uchar() & 7; c2[k] = nondet_uchar() & 7; v1[k] = (Val)(nondet_uchar() & VMASK) - VOFF; v2[k] = (Val)(nondet_uchar() & VMASK) - VOFF;
                                   w_col1[k] = c1[k]; w_col2[k] = c2[k]; w_val1[k] = v1[k]; w_val2[k] = v2[k]; }
  for (int k = 0; k < CAP_M; ++k) { c30[k] = c3[k]; v30[k] = v3[k]; }
  REQUIRES(strictly_sorted(c1, n1) && strictly_sorted(c2, n2));
  w_n1 = n1; w_n2 = n2; w_alpha1 = a1; w_alpha2 = a2;
  Idx *e = merge_rows_vals(a1, c1, c1 + n1, v1, a2, c2, c2 + n2, v2, c3, v3);
  int n3 = (int)(e - c3);
  int uni = n2; for (int k = 0; k < LMAX; ++k) if (k < n1 && !contains(c2, n2, c1[k])) uni++;
  ENSURES(n3 == uni, "merge_rows: the returned end pointer gives the size of the union of the two column sets");
  _Bool frame = 1, sorted = 1, sound = 1, complete = 1, values = 1;
  for (int k = 0; k < CAP_M; ++k) if (k >= n3 && (c3[k] != c30[k] || v3[k] != v30[k])) frame = 0;
  for (int k = 0; k < CAP_M; ++k) if (k < n3) {
    if (k + 1 < n3 && !(c3[k] < c3[k + 1])) sorted = 0;
    if (!contains(c1, n1, c3[k]) && !contains(c2, n2, c3[k])) sound = 0;
    if (v3[k] != a1 * value_at(c1, v1, n1, c3[k]) + a2 * value_at(c2, v2, n2, c3[k])) values = 0;
  }
  for (int k = 0; k < LMAX; ++k) { if (k < n1 && !contains(c3, n3, c1[k])) complete = 0; if (k < n2 && !contains(c3, n3, c2[k])) complete = 0; }
  ENSURES(frame, "frame: cells beyond the result are not modified");
  ENSURES(sorted, "merge_rows: output strictly ascending (sorted, no duplicate column)");
  ENSURES(sound && complete, "merge_rows: output columns are exactly the union of the input columns");
  ENSURES(values, "merge_rows: value at column c == alpha1 * row1(c) + alpha2 * row2(c)");
  CANARY("harness.end");
}
''',
    entry='h_merge_rows_vals', mode='unwound', unwind='2*LMAX+2', model='int32',
    # values in {0,1}: the output values are multilinear in (alpha, v) for each fixed pattern (no branch reads a value) and a
    # multilinear polynomial is determined by its values on {0,1}^n (same argument as builtin_sum); wider ranges are thorough
    variants=[{'LMAX': 3, 'VMASK': 1, 'VOFF': 0, 'CMASK': 3, 'COFF': 0}],
    thorough_variants=[{'LMAX': 3, 'VMASK': 7, 'VOFF': 3, 'CMASK': 7, 'COFF': 3}, {'LMAX': 4, 'VMASK': 1, 'VOFF': 0, 'CMASK': 3, 'COFF': 0}],
    bound_text='all pairs of sparse rows of length <= 3 (thorough 4) with strictly ascending columns 0..7, values in {0,1}, coefficients 0..3 (thorough: values and coefficients in [-3,4])',
    assumptions=A_RMERGE + ['A-vals: quick variant restricts values to {0,1} (multilinearity argument in the unit source)'], replay='kernels', timeout=300,
    witness=['w_n1', 'w_n2', 'w_alpha1', 'w_alpha2', 'w_col1', 'w_col2', 'w_val1', 'w_val2'],
)
merge_rows_vals.cover_exempt = r'^(merge_cols|prod_row|prod_row_width)\.'
UNITS += [merge_rows_cols, merge_rows_vals]

# --- prod_row_width / prod_row: one row of A (column list acol[0..na), any order, duplicates allowed) times B (rows strictly ascending)
SPEC_PROD_ROW = r"""
#ifndef AMAX
#define AMAX 5
#endif
/* scratch windows: spgemm_rmerge hands out windows of W = sum of the merged widths cells.  Every list that is ever merged is
 * strictly ascending with columns < ncols <= NMAX, i.e. at most NMAX long, so a window object of WCAP = NMAX + 1 cells holds
 * every legal write; the obligation is that cells at positions >= W of each window stay untouched (constant window offsets:
 * symbolic ones made the run exceed 300 s)                                                                              */
#define WCAP (NMAX + 1)
int w_na; Idx w_acol[AMAX]; int w_aval[AMAX];
/* columns of (row of A) * B: c is present iff some referenced row of B stores c; value = sum_k aval[k] * B(acol[k], c) */
static _Bool in_product_row(const Idx *acol, int na, const crs *B, size_t c)
{
  for (int k = 0; k < AMAX; ++k) if (k < na && count_in_row(B, (size_t)acol[k], c) > 0) return 1;
  return 0;
}
static long product_row_value(const Idx *acol, const Val *aval, int na, const crs *B, size_t c)
{
  long s = 0;
  for (int k = 0; k < AMAX; ++k) if (k < na) s += aval[k] * dense_get(B, (size_t)acol[k], c);
  return s;
}
static int product_row_width(const Idx *acol, int na, const crs *B)
{
  int u = 0;
  for (size_t c = 0; c < NMAX; ++c) if (c < B->ncols && in_product_row(acol, na, B, c)) u++;
  return u;
}
static int sum_of_widths(const Idx *acol, int na, const crs *B)
{
  int w = 0;
  for (int k = 0; k < AMAX; ++k) if (k < na) w += (int)(B->ptr[acol[k] + 1] - B->ptr[acol[k]]);
  return w;
}
"""
prod_row_width_u = Unit(
    name='spgemm_prod_row_width', props=['C08', 'C03', 'C10'],
    functions=['backend::prod_row_width(acol, acol_end, bptr, bcol, tmp_col1, tmp_col2, tmp_col3)', 'backend::merge_rows<need_out, Idx>'],
    desc='width of one product row: returns the number of distinct columns in the union of the rows of B selected by acol[0..na) (0..5 rows: '
         'all five code paths); B and acol unchanged; only the first W = sum of the merged widths cells of each of the three scratch windows are written',
    cuts=rmerge_cuts(),
    template='#define MODEL_INT32 1\n' + BOUNDED_PRELUDE + SPEC_RING_COMMON.replace('/*@CUT:sort_row@*/', NO_SORT_ROW) + RMERGE_C + SPEC_PROD_ROW + r'''
WITNESS_CRS(B)
void h_prod_row_width(void)
{
  crs *B = crs_input_narrow();
  int na = nondet_uchar() & 7;
#ifdef NA
  na = NA;            /* variant fixes the number of entries in the row of A (= the code path) */
#endif
#ifdef NA_MAX
  REQUIRES(na <= NA_MAX);
#endif
  Idx acol[AMAX], acol0[AMAX];
  REQUIRES(crs_wf(B, NMAX, NMAX, ZMAX) && crs_rows_sorted(B, 1) && na <= AMAX);
  for (int k = 0; k < AMAX; ++k) { acol[k] = nondet_uchar() & 7; if (k < na) REQUIRES((size_t)acol[k] < B->nrows); acol0[k] = acol[k]; w_acol[k] = acol[k]; }
  MIRROR_CRS(B, B); w_na = na;
  crs_snap sb; crs_snapshot(B, &sb);
  int W = sum_of_widths(acol, na, B);
  Idx T[3 * WCAP], T0[3 * WCAP];                        /* three scratch windows, logical length W each */
  for (int k = 0; k < 3 * WCAP; ++k) T0[k] = T[k];
  Ptr r = prod_row_width(acol, acol + na, B->ptr, B->col, T, T + WCAP, T + 2 * WCAP);
  ENSURES(r == product_row_width(acol, na, B), "prod_row_width: result == number of distinct columns in the union of the selected rows of B");
  _Bool frame = 1;
  for (int k = 0; k < 3 * WCAP; ++k) if (k % WCAP >= W && T[k] != T0[k]) frame = 0;
  for (int k = 0; k < AMAX; ++k) if (acol[k] != acol0[k]) frame = 0;
  ENSURES(frame, "frame: nothing beyond the three scratch windows of W cells is written; acol unchanged");
  ENSURES(crs_unchanged(B, &sb), "frame: B is not modified");
  CANARY("harness.end");
}
''',
    entry='h_prod_row_width', mode='unwound', unwind='max(AMAX, 3*NMAX+3, ZMAX)+3', model='int32',
    variants=[{'NMAX': 3, 'ZMAX': 3, 'AMAX': 5, 'VMASK': 1, 'NA_MAX': 2}, {'NMAX': 3, 'ZMAX': 3, 'AMAX': 5, 'VMASK': 1, 'NA': 3},
              {'NMAX': 3, 'ZMAX': 3, 'AMAX': 5, 'VMASK': 1, 'NA': 4}, {'NMAX': 3, 'ZMAX': 3, 'AMAX': 5, 'VMASK': 1, 'NA': 5}],
    thorough_variants=[{'NMAX': 3, 'ZMAX': 4, 'AMAX': 5, 'VMASK': 1}, {'NMAX': 4, 'ZMAX': 4, 'AMAX': 5, 'VMASK': 1, 'NA_MAX': 3}],
    bound_text='B up to 3x3 with nnz <= 3 (thorough nnz <= 4; 4x4 with a row of A of at most 3 entries), rows strictly ascending; row of A with 0..5 entries, any order, repeated columns allowed',
    assumptions=A_RMERGE, replay='kernels', timeout=300,
    witness=wit('B') + ['w_na', 'w_acol'],
)
prod_row_width_u.cover_exempt = r'^(merge_vals|prod_row)\.'
# per-loop limits: every list being merged is strictly ascending with columns < ncols <= NMAX, hence at most NMAX long
# (unwinding assertions are on: a limit that is too small is reported, never silently accepted)
MERGE_UNWIND = [(r'while\s*\(\s*acol', 'AMAX//2+1'), (r'while\s*\(\s*col[12]\b', 'NMAX+1'), (r'for\s*\(; first != last', 'NMAX+1'),
                (r'while\s*\(\s*bc != be', 'NMAX+1')]
prod_row_width_u.unwindset = MERGE_UNWIND

prod_row_u = Unit(
    name='spgemm_prod_row', props=['C08', 'C03', 'C10'],
    functions=['backend::prod_row(acol, acol_end, aval, bptr, bcol, bval, out_col, out_val, tm2_col, tm2_val, tm3_col, tm3_val)', 'backend::merge_rows<Idx, Val>'],
    desc='one row of A*B by pairwise row merging: out_col[0..U) is the strictly ascending union of the selected rows of B and out_val the '
         'values sum_k aval[k]*B(acol[k], c) (0..5 entries in the row of A: all code paths); cells beyond U, B, acol, aval unchanged; scratch use within 2 windows of W cells',
    cuts=rmerge_cuts(),
    template='#define MODEL_INT32 1\n' + BOUNDED_PRELUDE + SPEC_RING_COMMON.replace('/*@CUT:sort_row@*/', NO_SORT_ROW) + RMERGE_C + SPEC_PROD_ROW + r'''
WITNESS_CRS(B)
void h_prod_row(void)
{
  crs *B = crs_input_narrow();
  int na = nondet_uchar() & 7;
#ifdef NA
  na = NA;            /* variant fixes the number of entries in the row of A (= the code path) */
#endif
#ifdef NA_MAX
  REQUIRES(na <= NA_MAX);
#endif
  Idx acol[AMAX]; Val aval[AMAX];
  REQUIRES(crs_wf(B, NMAX, NMAX, ZMAX) && crs_rows_sorted(B, 1) && na <= AMAX);
  for (int k = 0; k < AMAX; ++k) { acol[k] = nondet_uchar() & 7; aval[k] = val_input(); if (k < na) REQUIRES((size_t)acol[k] < B->nrows); w_acol[k] = acol[k]; w_aval[k] = aval[k]; }
  MIRROR_CRS(B, B); w_na = na;
  crs_snap sb; crs_snapshot(B, &sb);
  int W = sum_of_widths(acol, na, B), U = product_row_width(acol, na, B);
  Idx TC[2 * WCAP], TC0[2 * WCAP], OC[NMAX + 1], OC0[NMAX + 1]; Val TV[2 * WCAP], TV0[2 * WCAP], OV[NMAX + 1], OV0[NMAX + 1];
  for (int k = 0; k < 2 * WCAP; ++k) { TC0[k] = TC[k]; TV0[k] = TV[k]; }
  for (int k = 0; k < NMAX + 1; ++k) { OC0[k] = OC[k]; OV0[k] = OV[k]; }
  /* as spgemm_rmerge calls it: the output row has exactly U cells (prod_row_width), the scratch 2 windows of W cells */
  prod_row(acol, acol + na, aval, B->ptr, B->col, B->val, OC, OV, TC, TV, TC + WCAP, TV + WCAP);
  _Bool frame = 1, sorted = 1, cols = 1, vals = 1;
  for (int k = 0; k < 2 * WCAP; ++k) if (k % WCAP >= W && (TC[k] != TC0[k] || TV[k] != TV0[k])) frame = 0;
  for (int k = 0; k < NMAX + 1; ++k) {
    if (k >= U) { if (OC[k] != OC0[k] || OV[k] != OV0[k]) frame = 0; continue; }
    if (k + 1 < U && !(OC[k] < OC[k + 1])) sorted = 0;
    if (!(OC[k] >= 0 && (size_t)OC[k] < B->ncols && in_product_row(acol, na, B, (size_t)OC[k]))) cols = 0;
    else if ((long)OV[k] != product_row_value(acol, aval, na, B, (size_t)OC[k])) vals = 0;
  }
  ENSURES(frame, "frame: nothing beyond the U output cells and the two scratch windows of W cells is written");
  ENSURES(sorted, "prod_row: output columns strictly ascending (sorted, no duplicate)");
  ENSURES(cols, "prod_row: the U output columns are columns of the product row (with strict order and U = |union|: exactly the union)");
  ENSURES(vals, "prod_row: value at column c == sum_k aval[k] * B(acol[k], c)");
  ENSURES(crs_unchanged(B, &sb), "frame: B is not modified");
  CANARY("harness.end");
}
''',
    entry='h_prod_row', mode='unwound', unwind='max(AMAX, 2*NMAX+2, ZMAX)+3', model='int32',
    variants=[{'NMAX': 2, 'ZMAX': 3, 'AMAX': 5, 'VMASK': 1, 'NA_MAX': 2}, {'NMAX': 2, 'ZMAX': 3, 'AMAX': 5, 'VMASK': 1, 'NA': 3},
              {'NMAX': 2, 'ZMAX': 3, 'AMAX': 5, 'VMASK': 1, 'NA': 4}, {'NMAX': 2, 'ZMAX': 3, 'AMAX': 5, 'VMASK': 1, 'NA': 5}],
    thorough_variants=[{'NMAX': 3, 'ZMAX': 3, 'AMAX': 5, 'VMASK': 1}, {'NMAX': 2, 'ZMAX': 3, 'AMAX': 5, 'VMASK': 3}],
    bound_text='B up to 2x2 with nnz <= 3 (thorough 3x3), rows strictly ascending, values in {0,1} (thorough 0..3); row of A with 0..5 entries, any order, repeated columns allowed',
    assumptions=A_RMERGE + ['A-vals: quick variant restricts values to {0,1} (multilinearity: no branch reads a value)'], replay='kernels', timeout=600,
    witness=wit('B') + ['w_na', 'w_acol', 'w_aval'],
)
prod_row_u.cover_exempt = r'^(merge_cols|prod_row_width)\.'
prod_row_u.unwindset = MERGE_UNWIND
UNITS += [prod_row_width_u, prod_row_u]

# --- spgemm_rmerge(A, B, C): the caller, with prod_row_width / prod_row used through their contracts
# (measured: with the real callees inlined the 2x2 / nnz <= 2 instance needs 297 s and 2x2 / nnz <= 3 exhausts 14 GB:
#  ten inlined merge_rows instances per row over scratch windows at symbolic offsets.  The callees are verified in their own
#  units above; here they are contract stubs that CHECK their preconditions at every call and produce the specified result)
from c08_kernels import SPEC_SPGEMM
SPEC_RMERGE = r"""
#ifdef CXC_CANARY
#define CALLEE_REQUIRES(c, msg) ((void)0)
#else
#define CALLEE_REQUIRES(c, msg) __CPROVER_assert(c, "callee precondition: " msg)
#endif
/* std::vector< std::vector<T> > tmp(nthreads); tmp[i].resize(n): per-thread scratch (A-std): constant-capacity heap objects with
 * arbitrary content, the logical length is recorded                                                                           */
#define NT_CAP 2
#define TCAP (3 * ZMAX * ZMAX + 1)
static Col *g_tmp_col_ptr[NT_CAP]; static Val *g_tmp_val_ptr[NT_CAP];
static size_t g_tmp_col_len[NT_CAP], g_tmp_val_len[NT_CAP];
static Col *tmp_resize_tmp_col(int i, size_t n) { if (n >= TCAP || i >= NT_CAP) g_cap_exceeded = 1; g_tmp_col_len[i] = n; return g_tmp_col_ptr[i] = (Col *)malloc(sizeof(Col) * TCAP); }
static Val *tmp_resize_tmp_val(int i, size_t n) { if (n >= TCAP || i >= NT_CAP) g_cap_exceeded = 1; g_tmp_val_len[i] = n; return g_tmp_val_ptr[i] = (Val *)malloc(sizeof(Val) * TCAP); }
/* [p, p + w) lies inside the logical length of the column / value scratch of some thread; *off = position of p in it */
static _Bool col_scratch_has(const Col *p, size_t w, int *th, size_t *off)
{
  for (int i = 0; i < NT_CAP; ++i) if (g_tmp_col_ptr[i] != 0 && __CPROVER_same_object(p, g_tmp_col_ptr[i])) {
    *th = i; *off = __CPROVER_POINTER_OFFSET(p) / sizeof(Col);
    return __CPROVER_POINTER_OFFSET(p) % sizeof(Col) == 0 && *off + w <= g_tmp_col_len[i];
  }
  return w == 0;
}
static _Bool val_scratch_has(const Val *p, size_t w, int *th, size_t *off)
{
  for (int i = 0; i < NT_CAP; ++i) if (g_tmp_val_ptr[i] != 0 && __CPROVER_same_object(p, g_tmp_val_ptr[i])) {
    *th = i; *off = __CPROVER_POINTER_OFFSET(p) / sizeof(Val);
    return __CPROVER_POINTER_OFFSET(p) % sizeof(Val) == 0 && *off + w <= g_tmp_val_len[i];
  }
  return w == 0;
}
#define DISJOINT(o1, o2, w) ((w) == 0 || (o1) + (w) <= (o2) || (o2) + (w) <= (o1))
static const crs *g_B; static crs *g_C;      /* the operands of the call under test (set by the harness) */
Col nondet_col(void); Val nondet_val(void);
/* contract of prod_row_width (enforced on the real body by unit spgemm_prod_row_width):
 *   requires bptr/bcol are the arrays of B (rows strictly ascending), every acol[k] a row of B, three pairwise disjoint scratch
 *            windows of W = sum of the selected row widths cells
 *   assigns  the first W cells of each window
 *   ensures  result == number of distinct columns in the union of the selected rows                                        */
static Ptr prod_row_width(const Col *acol, const Col *acol_end, const Ptr *bptr, const Col *bcol, Col *tmp_col1, Col *tmp_col2, Col *tmp_col3)
{
  int na = (int)(acol_end - acol);
  CALLEE_REQUIRES(bptr == g_B->ptr && bcol == g_B->col && 0 <= na && na <= AMAX, "prod_row_width: row pointers and columns of B, a row of A");
  for (int k = 0; k < AMAX; ++k) if (k < na) CALLEE_REQUIRES(acol[k] >= 0 && (size_t)acol[k] < g_B->nrows, "prod_row_width: every column of the row of A is a row of B");
  size_t W = (size_t)sum_of_widths(acol, na, g_B), o1, o2, o3; int t1, t2, t3;
  _Bool ok = col_scratch_has(tmp_col1, W, &t1, &o1) && col_scratch_has(tmp_col2, W, &t2, &o2) && col_scratch_has(tmp_col3, W, &t3, &o3);
  CALLEE_REQUIRES(ok, "prod_row_width: each scratch window has W = sum of the merged row widths cells inside the allocated scratch");
  CALLEE_REQUIRES(!ok || W == 0 || (t1 == t2 && t2 == t3 && DISJOINT(o1, o2, W) && DISJOINT(o1, o3, W) && DISJOINT(o2, o3, W)), "prod_row_width: the scratch windows are pairwise disjoint");
  if (ok) for (size_t k = 0; k < TCAP; ++k) if (k < W) { tmp_col1[k] = nondet_col(); tmp_col2[k] = nondet_col(); tmp_col3[k] = nondet_col(); }
  return product_row_width(acol, na, g_B);
}
/* contract of prod_row (enforced on the real body by unit spgemm_prod_row): as above with two windows of columns and of values;
 *   out_col / out_val have U = prod_row_width(...) cells;  ensures out = the strictly ascending product row                   */
static void prod_row(const Col *acol, const Col *acol_end, const Val *aval, const Ptr *bptr, const Col *bcol, const Val *bval,
                     Col *out_col, Val *out_val, Col *tm2_col, Val *tm2_val, Col *tm3_col, Val *tm3_val)
{
  int na = (int)(acol_end - acol);
  CALLEE_REQUIRES(bptr == g_B->ptr && bcol == g_B->col && bval == g_B->val && 0 <= na && na <= AMAX, "prod_row: the arrays of B, a row of A");
  for (int k = 0; k < AMAX; ++k) if (k < na) CALLEE_REQUIRES(acol[k] >= 0 && (size_t)acol[k] < g_B->nrows, "prod_row: every column of the row of A is a row of B");
  size_t W = (size_t)sum_of_widths(acol, na, g_B), U = (size_t)product_row_width(acol, na, g_B), o2, o3, p2, p3; int t2, t3, s2, s3;
  _Bool ok = col_scratch_has(tm2_col, W, &t2, &o2) && col_scratch_has(tm3_col, W, &t3, &o3) && val_scratch_has(tm2_val, W, &s2, &p2) && val_scratch_has(tm3_val, W, &s3, &p3);
  CALLEE_REQUIRES(ok, "prod_row: each scratch window has W = sum of the merged row widths cells inside the allocated scratch");
  CALLEE_REQUIRES(!ok || W == 0 || (t2 == t3 && s2 == s3 && DISJOINT(o2, o3, W) && DISJOINT(p2, p3, W)), "prod_row: the scratch windows are pairwise disjoint");
  _Bool out_ok = U == 0 || (g_C->col != 0 && g_C->val != 0 && __CPROVER_same_object(out_col, g_C->col) && __CPROVER_same_object(out_val, g_C->val)
                 && __CPROVER_POINTER_OFFSET(out_col) / sizeof(Col) + U <= g_C->nnz && __CPROVER_POINTER_OFFSET(out_val) / sizeof(Val) + U <= g_C->nnz
                 && __CPROVER_POINTER_OFFSET(out_col) / sizeof(Col) == __CPROVER_POINTER_OFFSET(out_val) / sizeof(Val));
  CALLEE_REQUIRES(out_ok, "prod_row: the output row has U = prod_row_width cells inside C.col / C.val (same position in both)");
  if (ok) for (size_t k = 0; k < TCAP; ++k) if (k < W) { tm2_col[k] = nondet_col(); tm3_col[k] = nondet_col(); tm2_val[k] = nondet_val(); tm3_val[k] = nondet_val(); }
  if (out_ok) { size_t k = 0;
    for (size_t c = 0; c < NMAX; ++c) if (c < g_B->ncols && in_product_row(acol, na, g_B, c)) { out_col[k] = (Col)c; out_val[k] = (Val)product_row_value(acol, aval, na, g_B, c); ++k; } }
}
"""
spgemm_rmerge = Unit(
    name='spgemm_rmerge', props=['C08', 'C03', 'C10'],
    functions=['backend::spgemm_rmerge(const A&, const B&, C&)', 'crs::set_size', 'crs::scan_row_sizes', 'crs::set_nonzeros'],
    desc='row-merge SpGEMM (the algorithm product() selects with more than 16 threads): for B with strictly ascending rows and any A, '
         'dense(C) == dense(A)*dense(B), structural product pattern, well-formed CRS, rows of C strictly ascending (sorted, no duplicate column); '
         'operands unchanged; every call of prod_row_width / prod_row satisfies the callee contract (scratch windows of the widest-row size, disjoint, output row of the computed width)',
    cuts=dict(crs_member_cuts(), body=Cut(
        SPGEMM, r'void spgemm_rmerge\(const AMatrix &A, const BMatrix &B, CMatrix &C\)\s*(?=\{)',
        rules=CALL_RULES + [
            Rule(r'^\s*typedef value_type<CMatrix>::type Val;\n', '', 1, why='Val is bound by the value model'),
            Rule(r'^\s*typedef col_type<CMatrix>::type Col;\n', '', 1, why='Col is bound by the prelude'),
            DEFAULT_CLEAN_PTR,
            Rule(r'std_vector< std_vector<(\w+)> > (\w+)\(\w+\);', r'\1 *\2[NT_CAP];', '+', why='vector of per-thread scratch vectors -> array of arrays'),
            Rule(r'(\w+)\[(\w+)\]\.resize\(([^;]+)\);', r'\1[\2] = tmp_resize_\1(\2, \3);', '+', why='std::vector::resize -> capacity object with logical length'),
            Rule(r'(\w+)\[(\w+)\]\.data\(\)', r'\1[\2]', None, why='std::vector::data()'),
            Rule(r'omp_get_max_threads\(\)', 'nt_in', None, why='R-omp: number of threads is a parameter'),
            Rule(r'omp_get_thread_num\(\)', 'tid_in', None, why='R-omp: thread id is a parameter'),
            IdxRule(r'C\.ptr', 'C.nrows + 1', '+'),
            IdxRule(r'A\.col|A\.val', 'A.ptr[A.nrows]', '+'),
            IdxRule(r'A\.ptr', 'A.nrows + 1', '+'),
            IdxRule(r'B\.ptr', 'B.nrows + 1', '+'),
        ])),
    template='#define _OPENMP 201511\n#define MODEL_INT32 1\n#define CAP_NNZ ((ZMAX > NMAX * NMAX ? ZMAX : NMAX * NMAX) + 1)\n' + BOUNDED_PRELUDE + CRS_MEMBERS_C
             + SPEC_RING_COMMON.replace('/*@CUT:sort_row@*/', NO_SORT_ROW) + SPEC_SPGEMM + 'typedef ptrdiff_t Idx;\n' + SPEC_PROD_ROW + SPEC_RMERGE + r"""
WITNESS_CRS(A)
WITNESS_CRS(B)
int w_nt, w_tid;
/* contract (enforced by the harness below):
 *   requires crs_wf(A), crs_wf(B), cols(A) == rows(B), rows of B strictly ascending, C default-constructed, 1 <= nt, 0 <= tid < nt
 *   assigns  C
 *   ensures  C is rows(A) x cols(B), well-formed; dense(C) == dense(A)*dense(B); (i,j) stored iff some a_(i,l), b_(l,j) are
 *            stored; rows of C strictly ascending                                                                      */
void f_spgemm_rmerge(const crs *A_p, const crs *B_p, crs *C_p, int nt_in, int tid_in)
{
#define A (*A_p)
#define B (*B_p)
#define C (*C_p)
/*@CUT:body@*/
#undef C
#undef B
#undef A
}
void h_spgemm_rmerge(void)
{
  crs *A = crs_input_narrow(), *B = crs_input_narrow();
  int nt = 1 + (nondet_uchar() & 1), tid = nondet_uchar() & 1;
  REQUIRES(tid < nt);
  REQUIRES(crs_wf(A, NMAX, NMAX, ZMAX) && crs_wf(B, NMAX, NMAX, ZMAX));
  REQUIRES(A->ncols == B->nrows && crs_rows_sorted(B, 1));
  MIRROR_CRS(A, A); MIRROR_CRS(B, B); w_nt = nt; w_tid = tid;
  crs_snap sa, sb; crs_snapshot(A, &sa); crs_snapshot(B, &sb);
  crs *R = crs_new();
  g_B = B; g_C = R;
  f_spgemm_rmerge(A, B, R, nt, tid);
  ENSURES(!g_cap_exceeded, "bound artefact: allocation within verification capacity");
  ENSURES(!g_thrown, "spgemm_rmerge: no exception on compatible shapes");
  ENSURES(R->nrows == A->nrows && R->ncols == B->ncols, "spgemm_rmerge: result is rows(A) x cols(B)");
  ENSURES(crs_wf(R, NMAX, NMAX, CAP_NNZ - 1) && R->nnz == (size_t)R->ptr[R->nrows],
          "spgemm_rmerge: result is well-formed CRS (monotone ptr from 0, columns in range, nnz == ptr[n])");
  ENSURES(post_product(A, B, R, 0), "spgemm_rmerge: dense(C) == dense(A) * dense(B)");
  ENSURES(post_product(A, B, R, 1), "spgemm_rmerge: (i,j) is stored in C iff some a_(i,l) and b_(l,j) are stored");
  ENSURES(crs_rows_sorted(R, 1), "spgemm_rmerge: rows of C strictly ascending (sorted, no duplicate column)");
  ENSURES(crs_unchanged(A, &sa) && crs_unchanged(B, &sb), "frame: the operands are not modified");
  CANARY("harness.end");
}
""",
    entry='h_spgemm_rmerge', mode='unwound', unwind='3*ZMAX*ZMAX+3', model='int32',
    variants=[{'NMAX': 2, 'ZMAX': 3, 'AMAX': 3, 'VMASK': 1, 'VOFF': 0}],
    thorough_variants=[{'NMAX': 2, 'ZMAX': 4, 'AMAX': 4, 'VMASK': 1, 'VOFF': 0}, {'NMAX': 3, 'ZMAX': 2, 'AMAX': 2, 'VMASK': 1, 'VOFF': 0}, {'NMAX': 2, 'ZMAX': 3, 'AMAX': 3, 'VMASK': 3, 'VOFF': 0}],
    bound_text='all compatible pairs A (n x m, any pattern incl. unsorted rows and repeated columns), B (m x k, rows strictly ascending) with n,m,k <= 2, nnz <= 3 each, values in {0,1}; 1 or 2 threads, any thread id (thorough: nnz <= 4; 3x3 with nnz <= 2 -- 3x3 with nnz <= 3 did not finish within 22 minutes on an idle host and was replaced; values 0..3)',
    assumptions=A_RMERGE + ['A-callee: prod_row_width and prod_row are contract stubs (hand-written from the contracts that units spgemm_prod_row_width / spgemm_prod_row enforce on the real bodies, bounded): the stubs check the callee preconditions at every call (operands, scratch window sizes and disjointness, output row inside C) and produce the specified result',
                            'A-vals: quick variant restricts stored values to {0,1}: the entries of C are multilinear in the stored values for each fixed pattern (no branch reads a value)',
                            'A-omp: OpenMP pragmas dropped; the text is verified sequentially for an arbitrary thread id tid in [0, nt): every row is processed with the scratch of that thread',
                            'A-new / A-own: as in the other bounded kernel units; callee bodies crs::set_size/scan_row_sizes/set_nonzeros are inlined from /repo'],
    replay='kernels', timeout=600,
    witness=wit('A', 'B') + ['w_nt', 'w_tid'],
    not_decided=['B with repeated columns in a row (sorted but not strictly): the result then has duplicate columns; outside the stated precondition',
                 'B with unsorted rows: not under contract.  Native experiment: A = [1 1], B rows {2:1,1:1},{1:1,2:1}: spgemm_rmerge gives the row {1:1, 2:2, 1:1} (dense-correct, duplicate column) where spgemm_saad gives {2:2, 1:2}; product() forwards unsorted operands to spgemm_rmerge when more than 16 threads are available (stated as a precondition of unit builtin_product_dispatch)'],
)
spgemm_rmerge.cover_exempt = r'set_size\.1$|^set_nonzeros0\.'      # set_size(n, m) with default clean_ptr=false; set_nonzeros() is not called
spgemm_rmerge.unwindset = [(r'for\s*\(\s*int i = 0; i < \(\(Idx\)', 'NMAX+1'), (r'for\s*\(\s*Idx i\b', 'NMAX+1'), (r'for\s*\(\s*Idx j\b', 'ZMAX+1'),
                           (r'for\s*\(\s*int i = 0; i < nthreads', '3'), (r'for\s*\(\s*ptrdiff_t i\b', 'NMAX+2')]
UNITS += [spgemm_rmerge]
# scratch overruns of the real code are heap overflows inside std::vector: only visible to the native replay under ASan
spgemm_rmerge.replay_asan = True

# ==========================================================================================
# 3b. spectral_radius<scale>(A, power_iters <= 0), inductive: for every n the value returned is the Gershgorin fold, stated with
#     ghost sequences defined by recurrence (row sums S, running maximum E) -- the recipe of builtin_spmv / inner_product
# ==========================================================================================
GERSH_OUTER = '''
__CPROVER_assigns(i, emax, dia)
__CPROVER_loop_invariant(0 <= i && i <= n && emax == g_E[i])
__CPROVER_decreases(n - i)
'''
GERSH_INNER = '''
__CPROVER_assigns(j, s, dia)
__CPROVER_loop_invariant(A.ptr[i] <= j && j <= e && e == A.ptr[i + 1] && 0 <= A.ptr[i] && e <= nnz)
__CPROVER_loop_invariant(s == (j == A.ptr[i] ? Z0 : g_S[j - 1]))
__CPROVER_loop_invariant((scale && j > g_dp[i]) ==> dia == A.val[g_dp[i]])
__CPROVER_decreases(e - j)
'''
gershgorin_ind = Unit(
    name='builtin_spectral_radius_gershgorin_inductive', props=['C08', 'C10'],
    functions=['backend::spectral_radius<scale>(const Matrix&, int power_iters) -- branch power_iters <= 0'],
    desc='Gershgorin estimate for every size: the value returned is max(0, E_n) (2 if that compares below 0) where E_0 = 0, '
         'E_{i+1} = max(E_i, R_i), R_i = S_i [* norm(inverse(a_ii)) when scale] and S_i = the sum of norm(a_ij) over row i in storage order; '
         'S and E are ghost sequences defined by these recurrences; A is not modified',
    cuts={'body': Cut(BUILTIN, r'const ptrdiff_t n = backend::rows\(A\);\s*scalar_type radius[^;]*;', kind='region',
                      end=r'\} else \{\s*// Power method\.',
                      rules=[COMPOUND('s'),
                             Rule(r'(scalar_type s\s*=[^;]*;)', r'\1 ROW_OK(i); DIAG_OK(i);', None, why='pointwise instantiation of crs_wf and of "row i stores its diagonal at g_dp[i]" at the row read'),
                             Rule(r'(ptrdiff_t\s+c = )', r'ROWSUM_STEP(i, j); ONE_DIAG(i, j); \1', None,
                                  why='pointwise instantiation of the recurrence defining the ghost row sums and of "no other entry of the row is on the diagonal"'),
                             Rule(r'^(\s*)(emax\s*=)', r'\1EMAX_STEP(i); \2', None, why='pointwise instantiation of the recurrence defining the ghost running maximum')],
                      uf=[UF(r'\b(?:radius|s|emax|dia)\s*=(?!=)\s*(?P<e>[^;]+);', '+')],
                      loops=[Loop(r'for\(ptrdiff_t i = 0;', GERSH_OUTER, prefix=True), Loop(r'for\(ptrdiff_t j = A\.ptr', GERSH_INNER, prefix=True)]),
          'ret': Cut(BUILTIN, r'return radius < 0 \?', kind='region', end=r';', end_inclusive=True,
                     rules=[Rule(r'radius ([<>]=?) (\d+)\b', r'radius \1 LIT\2', None, why='scalar literal -> value token'),
                            Rule(r'\(\(scalar_type\)\((\d+)\)\)', r'LIT\1', None, why='scalar literal -> value token'),
                            Cmp(r'radius|LIT\d+', None)])},
    template=IND_HDR + r'''
#undef ROW_OK
#define ROW_OK(i) __CPROVER_assume(0 <= A.ptr[i] && A.ptr[i] <= A.ptr[(i) + 1] && A.ptr[(i) + 1] <= nnz)
typedef V scalar_type;
#undef std_max
#define std_max(a, b) UF_MAX(a, b)
#define rows(A) ((A).nrows)
#define LIT0 UF_CONST(0)
#define LIT2 UF_CONST(2)
int g_power_branch;
/* ghost inputs (never assigned).  g_dp[i]: position of THE stored diagonal entry of row i (only meaningful with scale).
 * g_S[j]: sum of norm(a) over the entries of the row of j up to and including j, in storage order:
 *           g_S[j] = (j first entry of its row ? 0 : g_S[j-1]) + norm(val[j])
 * g_E[i]: running maximum:  g_E[0] = 0,  g_E[i+1] = max(g_E[i], R_i),
 *           R_i = (row i empty ? 0 : g_S[last entry of row i]) [* norm(inverse(val[g_dp[i]])) when scale]
 * The recurrences are definitions (they have a solution for every matrix) and are instantiated at the iteration that uses them. */
const V *g_S, *g_E; const ptrdiff_t *g_dp;
#define ROWSUM_STEP(i, j) __CPROVER_assume(g_S[j] == UF_ADD(((j) == A.ptr[i] ? Z0 : g_S[(j) - 1]), math_norm(A.val[j])))
#define ROWSUM(i) (A.ptr[i] == A.ptr[(i) + 1] ? Z0 : g_S[A.ptr[(i) + 1] - 1])
#define EMAX_STEP(i) __CPROVER_assume(g_E[(i) + 1] == UF_MAX(g_E[i], (scale ? UF_MUL(ROWSUM(i), math_norm(math_inverse(A.val[g_dp[i]]))) : ROWSUM(i))))
#define DIAG_OK(i) __CPROVER_assume(!scale || (A.ptr[i] <= g_dp[i] && g_dp[i] < A.ptr[(i) + 1] && A.col[g_dp[i]] == (i)))
#define ONE_DIAG(i, j) __CPROVER_assume(!scale || (j) == g_dp[i] || A.col[j] != (i))
V f_spectral_radius(const crs *A_p, int power_iters, const _Bool scale, ptrdiff_t nnz)
__CPROVER_requires(0 <= nnz && nnz <= ZMAX && power_iters <= 0 && g_power_branch == 0)
__CPROVER_requires(__CPROVER_is_fresh(A_p, sizeof(crs)) && A_p->nrows <= NMAX)
__CPROVER_requires(__CPROVER_is_fresh(A_p->ptr, (A_p->nrows + 1) * sizeof(ptrdiff_t)) && __CPROVER_is_fresh(A_p->col, (nnz + 1) * sizeof(ptrdiff_t)) && __CPROVER_is_fresh(A_p->val, (nnz + 1) * sizeof(V)))
__CPROVER_requires(__CPROVER_is_fresh(g_S, (nnz + 1) * sizeof(V)) && __CPROVER_is_fresh(g_E, (A_p->nrows + 1) * sizeof(V)) && __CPROVER_is_fresh(g_dp, (A_p->nrows + 1) * sizeof(ptrdiff_t)))
__CPROVER_requires(g_E[0] == UF_CONST(0))
__CPROVER_assigns()
/* C08: the Gershgorin number */
__CPROVER_ensures(UF_LESS(UF_MAX(UF_CONST(0), g_E[A_p->nrows]), UF_CONST(0)) ? __CPROVER_return_value == UF_CONST(2)
                                                                             : __CPROVER_return_value == UF_MAX(UF_CONST(0), g_E[A_p->nrows]))
__CPROVER_ensures(g_power_branch == 0)
{
#define A (*A_p)
  const V Z0 = UF_CONST(0);
/*@CUT:body@*/
  } else { g_power_branch = 1; return 0; /* power method: outside this unit (precondition power_iters <= 0) */ }
/*@CUT:ret@*/
#undef A
}
void h_f_spectral_radius(void) { const crs *A; int p; _Bool sc; ptrdiff_t nnz; f_spectral_radius(A, p, sc, nnz); }
''',
    enforce='f_spectral_radius', mode='inductive', model='uf', timeout=300, replay='kernels',
    assumptions=A_IND + ['A-def: the ghost sequences S (row sums) and E (running maximum) are defined by recurrence and the recurrence is instantiated at the iteration that uses it (ROWSUM_STEP, EMAX_STEP)',
                         'A-diag: with scale every row stores exactly one diagonal entry (ghost position array g_dp; universally quantified precondition over read-only arrays, instantiated at the row / entry read: DIAG_OK, ONE_DIAG)',
                         'A-omp: the parallel region is executed by one thread; the reduction of per-thread maxima relies on max being associative and commutative (not expressed by the uninterpreted model)',
                         'A-inst: Matrix = crs<V, ptrdiff_t, ptrdiff_t>, scalar_type = value_type'],
    not_decided=['the power-method branch', 'that the Gershgorin value bounds the true spectral radius (Gershgorin\'s theorem about the formula computed)'],
)
UNITS += [gershgorin_ind]
