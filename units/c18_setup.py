"""C18, setup side of the composite preconditioners and the deflated solver.

  cpr_first_scalar_pass   amgcl/preconditioner/cpr.hpp  first_scalar_pass(K, get_app) (bounded): for every cell the dense
                          (transposed) diagonal block -- ZERO where an entry is not stored -- is what `invert` sees, exactly once,
                          its result lands in Fpp->val[ik .. ik+B); Fpp / App have the documented structure.
                          `invert` is a callee stub: it records its arguments, returns fresh tokens and leaves arbitrary LU
                          leftovers in the scratch block (which the next cell must not inherit: seeded change C18).
  cpr_partial_update      cpr::partial_update / update_transfer (scalar instantiation), loop-free provenance contract
  schur_init_counts       amgcl/preconditioner/schur_pressure_correction.hpp init(), first half of the sub-block extraction
  schur_init_fill_row     ... second half, the body of the (parallel) filling loop for one arbitrary row
  schur_init_blocks       ... the whole extraction region end to end at a smaller bound: Kuu, Kup, Kpu, Kpp with the idx
                          renumbering reassemble to K entry for entry (dense view and exact layout), for every pressure mask
  schur_init_scatter      ... x2u, x2p, u2x, p2x are the 0/1 gather / scatter matrices of the mask
  deflated_project        amgcl/deflated_solver.hpp project() / apply() / operator(): the A-DEF2 projection as an exact
                          call sequence (bounded in the number of deflation vectors; scalars uninterpreted)

Values are only moved in the CPR / Schur regions (the block inverse of CPR is a callee: recorded, not computed), so their
value model is "token" (MODEL_INT32 without arithmetic; 8-bit tokens suffice for fewer than 256 value cells).
All units are `unwound` (bounded stand-ins, never counted as proved).  Native replay: replay/composite.cpp."""
import re
from cxc.extract import Cut, Rule, UF, UFArgs, Loop, IdxRule, ExtractError, match_close, _split_args
from cxc.unit import Unit
from _common import CRS_MEMBERS_C, CALL_RULES, crs_member_cuts, member_rules
from _relax_common import VEC_PRELUDE
from c08_kernels import DEFAULT_CLEAN_PTR, wit

CPR = 'amgcl/preconditioner/cpr.hpp'
SCHUR = 'amgcl/preconditioner/schur_pressure_correction.hpp'

A_SETUP = [
    'A-bound: nothing is claimed beyond the stated size bound',
    'A-std: std::partial_sum / std::min are prelude stubs; std::vector<T>(n) and multi_array<T,2>(B,B) are value-initialised (zero) fixed-capacity arrays with a logical length',
    'A-new: operator new[] never returns null; fresh arrays have nondeterministic content (every prior heap content)',
    'A-own: shared_ptr lifetimes are not modelled (make_shared -> plain allocation)',
    'A-omp: OpenMP pragmas dropped: parallel loops are executed by ONE thread in ascending order (for cpr::first_scalar_pass: the schedule in which the per-thread scratch block is reused by every cell; for the Schur filling loop the independence of the iterations is a frame obligation of schur_init_fill_row); other distributions of the iterations are not modelled',
    'A-iter: crs::row_iterator is the (col, end, val) pointer triple of builtin.hpp with its four members (operator bool, ++, col(), value()) as C macros',
    'A-token: values are opaque tokens (they are only moved and compared by the code under contract; the input generator draws them from 0..255, more than the number of value cells, so every equality pattern is realised); callee bodies crs::set_size/scan_row_sizes/set_nonzeros are inlined from /repo',
]


class CallIdx(object):
    """name(a, b) -> name[FMT(a, b)]: operator() of a small dense array turned into a checked subscript.
    Keyed on the call syntax only (whatever the arguments say)."""
    early = False

    def __init__(self, name, fmt, count='+'):
        self.name, self.fmt, self.count = name, fmt, count
        self.pat = 'CallIdx ' + name

    def apply(self, text, log, generic=False):
        pat = re.compile(r'(?<![\w.>])%s\s*\(' % self.name)
        out, i, n = [], 0, 0
        while True:
            m = pat.search(text, i)
            if not m:
                out.append(text[i:])
                break
            k = m.end() - 1
            e = match_close(text, k)
            args = [a.strip() for a in _split_args(text[k + 1:e])]
            out.append(text[i:m.start()] + '%s[%s(%s)]' % (self.name, self.fmt, ', '.join(args)))
            i = e + 1
            n += 1
        ok = (n >= 1) if self.count == '+' else (self.count is None or n == self.count)
        if not ok:
            raise ExtractError('CallIdx rule %r fired %d times, expected %s' % (self.name, n, self.count))
        log.append({'rule': 'R-callidx %s(i,j) -> %s[%s(i,j)]' % (self.name, self.name, self.fmt), 'fired': n})
        return ''.join(out)


# =====================================================================================================
# 1. cpr::first_scalar_pass
# =====================================================================================================
CPR_VIEW = r'''
#ifndef BS
#define BS 2
#endif
/* members of preconditioner::cpr<> that first_scalar_pass touches (declaration order: prm; n, np) */
typedef struct cpr_params { int block_size; size_t active_rows; } cpr_params;
typedef struct cpr { cpr_params prm; size_t n, np; } cpr;
typedef crs build_matrix, build_matrix_p;
typedef V scalar_type, value_type_p;
/* crs::row_iterator (builtin.hpp): m_col, m_end, m_val; operator bool, operator++, col(), value() */
typedef struct row_iterator { const col_type *m_col, *m_end; const val_type *m_val; } row_iterator;
static inline row_iterator crs_row_begin(const crs *A, size_t row)
{
  const ptr_type p = A->ptr[IDX(row, A->nrows + 1, "A.ptr")], e = A->ptr[IDX(row + 1, A->nrows + 1, "A.ptr")];
  row_iterator it; it.m_col = A->col + p; it.m_end = A->col + e; it.m_val = A->val + p;
  return it;
}
#define row_begin(A, r) crs_row_begin(&(A), (size_t)(r))
#define RI_OK(it) ((it).m_col < (it).m_end)
#define RI_COL(it) (*(it).m_col)
#define RI_VAL(it) (*(it).m_val)
#define RI_INC(it) (++(it).m_col, ++(it).m_val)
/* std::vector<row_iterator> k: capacity BS, logical length k_n */
#define KPUSH(x) (k_n < BS ? (void)(k[k_n] = (x), k_n++) : (void)(g_cap_exceeded = 1))
/* multi_array<scalar_type, 2> v(B, B) (util.hpp): buf.resize(B*B) value-initialised, operator()(i,j) = buf[B*i + j] */
static void multi_array2_init(V *buf, int n0, int n1)
{
  if (!(n0 >= 0 && n1 >= 0 && n0 * n1 <= BS * BS)) g_cap_exceeded = 1;
  for (int q = 0; q < BS * BS; ++q) buf[q] = 0;
}
#define MA2(i, j) IDX((ptrdiff_t)B * (i) + (j), (size_t)B * B, "v")
typedef struct fsp_result { crs *fpp, *App; } fsp_result;
static inline fsp_result mk_fsp_result(crs *fpp, crs *App) { fsp_result r; r.fpp = fpp; r.App = App; return r; }

/* ---- callee stub: cpr::invert(A, y).  "Inverts dense matrix A; returns the first column of the inverted matrix":
 * LU in place (A is overwritten), y[0..B) written.  The stub records what it is given and where it writes,
 * hands out fresh uninterpreted results, and leaves arbitrary LU leftovers in A.                               */
#define CAP_CALLS 4
int g_inv_n; V g_inv_A[CAP_CALLS][BS * BS]; V *g_inv_y[CAP_CALLS]; V g_inv_out[CAP_CALLS][BS];
static V nondet_V(void) { return nondet_uchar(); }   /* fresh result token */
static void invert(cpr *self, V *A, V *y)
{
  (void)self;
  for (int q = 0; q < BS; ++q) {
    const V t = nondet_V();
    if (g_inv_n < CAP_CALLS) g_inv_out[g_inv_n][q] = t;
    y[q] = t;
  }
  for (int q = 0; q < BS * BS; ++q) {
    if (g_inv_n < CAP_CALLS) g_inv_A[g_inv_n][q] = A[q];
    A[q] = nondet_V();
  }
  if (g_inv_n < CAP_CALLS) g_inv_y[g_inv_n] = y;
  g_inv_n++;
}
'''

NARROW_INPUT = r'''
/* symbolic input matrix built from narrow nondeterministic cells: the same input space as crs_input() + crs_wf
 * (every well-formed matrix within the bound is generated), but the high bits of sizes / row pointers / columns are
 * structurally zero, which keeps SAT small.  Values: tokens 0..255 (only moved and compared for equality; the units
 * have fewer than 256 value cells, so every equality pattern between them is still realised).                      */
#define IMASK 15
unsigned char nondet_uchar(void);
static crs *crs_input_tok(void)
{
  crs *a = crs_input();
  __CPROVER_assert(NMAX <= IMASK && ZMAX <= IMASK, "bound artefact: narrow input generator covers the variant bound");
  a->nrows = nondet_uchar() & IMASK; a->ncols = nondet_uchar() & IMASK; a->nnz = nondet_uchar() & IMASK;
  for (size_t i = 0; i < CAP_PTR; ++i) a->ptr[i] = nondet_uchar() & IMASK;
  for (size_t j = 0; j < CAP_NNZ; ++j) { a->col[j] = nondet_uchar() & IMASK; a->val[j] = nondet_uchar(); }
  return a;
}
'''

CPR_SPEC = r'''
/* the stored entry (i,j) of K, ZERO if (i,j) is not stored (rows strictly ascending: at most one such entry) */
static V K_entry(const crs *K, size_t i, size_t j)
{
  V s = 0;
  for (size_t q = 0; q < CAP_NNZ; ++q)
    if ((ptrdiff_t)q >= K->ptr[i] && (ptrdiff_t)q < K->ptr[i + 1] && (size_t)K->col[q] == j) s = K->val[q];
  return s;
}
/* block row ip of K has a stored entry in block column jp (columns below N only) */
static _Bool K_has_block(const crs *K, size_t ip, size_t jp, size_t N)
{
  for (size_t i = 0; i < BS; ++i)
    for (size_t q = 0; q < CAP_NNZ; ++q)
      if ((ptrdiff_t)q >= K->ptr[ip * BS + i] && (ptrdiff_t)q < K->ptr[ip * BS + i + 1]
          && (size_t)K->col[q] < N && (size_t)K->col[q] / BS == jp) return 1;
  return 0;
}
#define NPMAX (NMAX / BS)
/* number of recorded invert calls whose output pointer is &fpp->val[ip*BS]; *which = the last such call */
static int calls_for_cell(const crs *fpp, size_t ip, int *which)
{
  int c = 0;
  for (int q = 0; q < CAP_CALLS; ++q) if (q < g_inv_n && g_inv_y[q] == fpp->val + ip * BS) { c++; *which = q; }
  return c;
}
static _Bool post_fpp_structure(const crs *fpp, size_t np, size_t N)
{
  if (!(fpp->nrows == np && fpp->ncols == N && fpp->nnz == N && fpp->ptr[0] == 0)) return 0;
  for (size_t ip = 0; ip < NPMAX; ++ip) if (ip < np) { if (fpp->ptr[ip + 1] != (ptr_type)((ip + 1) * BS)) return 0; }
  for (size_t q = 0; q < NMAX; ++q) if (q < np * BS) { if (fpp->col[q] != (col_type)q) return 0; }
  return 1;
}
static _Bool post_one_call_per_cell(const crs *K, const crs *fpp, size_t np, size_t N)
{
  int expected = 0;
  for (size_t ip = 0; ip < NPMAX; ++ip) if (ip < np) {
    int w = 0;
    const int c = calls_for_cell(fpp, ip, &w);
    if (K_has_block(K, ip, ip, N)) { expected++; if (c != 1) return 0; }
    else if (c != 0) return 0;
  }
  return g_inv_n == expected;      /* no call with any other output pointer */
}
static _Bool post_block_seen_by_invert(const crs *K, const crs *fpp, size_t np, size_t N)
{
  for (size_t ip = 0; ip < NPMAX; ++ip) if (ip < np && K_has_block(K, ip, ip, N)) {
    int w = 0;
    if (calls_for_cell(fpp, ip, &w) < 1) return 0;
    for (size_t r = 0; r < BS; ++r) for (size_t c = 0; c < BS; ++c)
      if (g_inv_A[w][r * BS + c] != K_entry(K, ip * BS + c, ip * BS + r)) return 0;      /* transposed block, zero where not stored */
  }
  return 1;
}
static _Bool post_fpp_values(const crs *K, const crs *fpp, size_t np, size_t N)
{
  for (size_t ip = 0; ip < NPMAX; ++ip) if (ip < np && K_has_block(K, ip, ip, N)) {
    int w = 0;
    if (calls_for_cell(fpp, ip, &w) < 1) return 0;
    for (size_t i = 0; i < BS; ++i) if (fpp->val[ip * BS + i] != g_inv_out[w][i]) return 0;
  }
  return 1;
}
static _Bool post_app_rows(const crs *K, const crs *App, size_t np, size_t N)
{
  if (!(App->nrows == np && App->ncols == np && App->ptr[0] == 0)) return 0;
  for (size_t ip = 0; ip < NPMAX; ++ip) if (ip < np) {
    ptr_type cnt = 0;
    for (size_t jp = 0; jp < NPMAX; ++jp) if (jp < np && K_has_block(K, ip, jp, N)) cnt++;
    if (App->ptr[ip + 1] - App->ptr[ip] != cnt) return 0;
  }
  return App->nnz == (size_t)App->ptr[np] && App->col != 0 && App->val != 0;
}
'''

FSP_RULES = (
    [Rule(r'^\s*typedef typename backend::row_iterator<build_matrix>::type row_iterator;\n', '', 1, early=True,
          why='row_iterator is the C view of crs::row_iterator (A-iter)'),
     Rule(r'auto fpp = std_make_shared<build_matrix_p>\(\);', 'crs *fpp = crs_new();', 1, why='R-auto / make_shared'),
     Rule(r'std_shared_ptr<build_matrix_p> App;', 'crs *App = 0;', 1, why='empty shared_ptr'),
     Rule(r'\bApp = std_make_shared<build_matrix>\(\);', 'App = crs_new();', 1, why='make_shared'),
     Rule(r'std_make_tuple\(', 'mk_fsp_result(', 1, why='R-tuple')]
    + CALL_RULES + [DEFAULT_CLEAN_PTR]
    + [  # std::vector<row_iterator> k and the iterator protocol (syntax only: whatever the operands say)
        Rule(r'\b(k\[\w+\]|k\.back\(\))\.col\(\)', r'RI_COL(\1)', '+', why='R-iter col()'),
        Rule(r'\b(k\[\w+\]|k\.back\(\))\.value\(\)', r'RI_VAL(\1)', '+', why='R-iter value()'),
        Rule(r'\+\+(k\[\w+\])', r'RI_INC(\1)', '+', why='R-iter operator++'),
        Rule(r'(?<![\w.])(k\[\w+\]|k\.back\(\))(?=\s*(?:&&|\|\|))', r'RI_OK(\1)', '+', why='R-iter operator bool'),
        Rule(r'\bk\.back\(\)', 'k[k_n - 1]', None, why='R-vec back()'),
        Rule(r'\bk\.clear\(\);', 'k_n = 0;', None, why='R-vec clear()'),
        Rule(r'\bk\.push_back\((.*)\);', r'KPUSH(\1);', None, why='R-vec push_back'),
        IdxRule(r'k', 'k_n', '+'),
        Rule(r'std_vector<row_iterator> k; k\.reserve\((\w+)\);', r'row_iterator k[BS]; size_t k_n = 0; cxc_reserve(\1);', 1,
             why='R-vec local: capacity BS, logical length k_n'),
        # multi_array<scalar_type, 2> v(B, B)
        Rule(r'multi_array<scalar_type, 2> v\((\w+), (\w+)\);', r'V v[BS * BS]; multi_array2_init(v, \1, \2);', 1, why='R-multi_array'),
        Rule(r'\bv\.data\(\)', 'v', None, why='R-multi_array data()'),
        CallIdx('v', 'MA2', '+'),
        Rule(r'\binvert\(', 'invert(self, ', None, why='member call -> C call'),
    ]
    + member_rules(['prm', 'n', 'np'])
    + [IdxRule(r'fpp->col|fpp->val', 'fpp->nnz', '+'),
       IdxRule(r'fpp->ptr', 'fpp->nrows + 1', '+'),
       IdxRule(r'App->ptr', 'App->nrows + 1', '+')])

FSP_T = ('#define MODEL_INT32 1\n#define CAP_NNZ ((ZMAX > NMAX ? ZMAX : NMAX) + 1)   /* Fpp holds N <= n entries */\n' + VEC_PRELUDE + CRS_MEMBERS_C + NARROW_INPUT + CPR_VIEW + CPR_SPEC + r'''
WITNESS_CRS(K)
int w_bs, w_get_app; size_t w_active_rows;
/* contract (enforced by the harness below):
 *   requires  K square, well-formed, rows strictly ascending (no duplicate entry); block_size B = BS;
 *             N = active_rows ? active_rows : n, N <= n, B divides N; np holds anything
 *   assigns   self->np; fresh matrices only
 *   ensures   np == N/B; Fpp is np x N with row ip = columns ip*B .. ip*B+B-1;
 *             for every cell ip whose diagonal block has a stored entry: invert is called exactly once with
 *             A(r,c) == K(ip*B+c, ip*B+r) where stored and ZERO elsewhere and y == &Fpp->val[ip*B]; no other call;
 *             Fpp->val[ip*B+i] is what that call returned;
 *             get_app: App is np x np, row ip sized to the number of distinct block columns (< N/B) of block row ip;
 *             !get_app: no App;  K, prm, n unchanged                                                           */
fsp_result f_first_scalar_pass(cpr *self, crs *K, _Bool get_app)
{
/*@CUT:body@*/
}
void h_first_scalar_pass(void)
{
  crs *K = crs_input_tok();
  cpr me; cpr *self = &me;
  size_t ar, np0; _Bool get_app;
  REQUIRES(crs_wf(K, NMAX, NMAX, ZMAX) && K->nrows == K->ncols && crs_rows_sorted(K, 1));
  self->prm.block_size = BS; self->prm.active_rows = ar; self->n = K->nrows; self->np = np0;
  const size_t N = ar ? ar : K->nrows;
  REQUIRES(N <= K->nrows && N % BS == 0);
#ifdef DIAG_STORED
  for (size_t i = 0; i < NMAX; ++i) if (i < N) REQUIRES(count_in_row(K, i, i) == 1);
#endif
#ifdef ALL_CELLS
  REQUIRES(K->nrows == NMAX && ar == 0);     /* this variant: the largest size only, no trailing rows (the smaller ones are covered by its siblings) */
#endif
#ifdef FIRST_FULL
  /* sub-domain kept as its own variant for the sake of the witness: the stub leaves ARBITRARY leftovers in the scratch block,
   * the real LU leaves zeros where the previous block had none stored; with a fully coupled first cell every real leftover is
   * non-zero for generic values, so a counterexample of this variant is also numerically visible in the native replay */
  for (size_t i = 0; i < BS; ++i) for (size_t j = 0; j < BS; ++j) if (BS <= N) REQUIRES(count_in_row(K, i, j) == 1);
#endif
  MIRROR_CRS(K, K); w_bs = BS; w_get_app = get_app; w_active_rows = ar;
  crs_snap s; crs_snapshot(K, &s);
  const fsp_result R = f_first_scalar_pass(self, K, get_app);
  const size_t np = N / BS;
  ENSURES(!g_cap_exceeded, "bound artefact: allocation within verification capacity");
  ENSURES(self->np == np, "first_scalar_pass: np == N / block_size");
  ENSURES(R.fpp != 0 && post_fpp_structure(R.fpp, np, N), "first_scalar_pass: Fpp is np x N, row ip holds the columns ip*B .. ip*B+B-1, nnz == N");
  if (R.fpp != 0) {
  ENSURES(post_one_call_per_cell(K, R.fpp, np, N), "first_scalar_pass: invert is called exactly once per cell with a stored diagonal block, writing to &Fpp->val[ip*B], and never otherwise");
  ENSURES(post_block_seen_by_invert(K, R.fpp, np, N), "first_scalar_pass: the matrix handed to invert is the transposed dense diagonal block of the cell: v(r,c) == K(ik+c, ik+r) where stored, ZERO where not stored");
  ENSURES(post_fpp_values(K, R.fpp, np, N), "first_scalar_pass: Fpp->val[ik .. ik+B) holds what invert returned for that cell");
  }
  ENSURES(get_app ? (R.App != 0 && post_app_rows(K, R.App, np, N)) : R.App == 0,
          "first_scalar_pass: with get_app App is np x np and row ip has room for exactly the distinct block columns of block row ip; without get_app no App");
  ENSURES(crs_unchanged(K, &s) && self->prm.block_size == BS && self->prm.active_rows == ar && self->n == K->nrows,
          "frame: K, prm and n are not modified");
  CANARY("harness.end");
}
''')

cpr_fsp = Unit(
    name='cpr_first_scalar_pass', props=['C18', 'C10'],
    functions=['preconditioner::cpr::first_scalar_pass(K, get_app)', 'crs::set_size', 'crs::scan_row_sizes', 'crs::set_nonzeros'],
    desc='CPR transfer-operator / pressure-pattern pass: per cell the transposed dense diagonal block (zero where not stored) is '
         'handed to invert exactly once and its result stored in Fpp->val[ik..ik+B); Fpp and App have the documented structure',
    cuts=dict(crs_member_cuts(), body=Cut(
        CPR, r'first_scalar_pass\(std::shared_ptr<build_matrix> K, bool get_app = true\)\s*(?=\{)', rules=FSP_RULES)),
    template=FSP_T, entry='h_first_scalar_pass', mode='unwound', unwind='max(ZMAX,NMAX,BS*BS)+3', model='int32',
    variants=[{'NMAX': 4, 'ZMAX': 6, 'BS': 2, 'DIAG_STORED': 1, 'FIRST_FULL': 1}, {'NMAX': 5, 'ZMAX': 7, 'BS': 2, 'DIAG_STORED': 1}, {'NMAX': 5, 'ZMAX': 6, 'BS': 2}],
    # np = 3 (n = 6) is the smallest size at which a block row has three distinct block columns, i.e. at which the re-scan
    # "cur_col = std::min(cur_col, col)" after a processed block is distinguishable from std::max: thorough tier (measured 133 s)
    thorough_variants=[{'NMAX': 4, 'ZMAX': 6, 'BS': 2, 'DIAG_STORED': 1, 'FIRST_FULL': 1}, {'NMAX': 6, 'ZMAX': 4, 'BS': 2, 'ALL_CELLS': 1},
                       {'NMAX': 6, 'ZMAX': 8, 'BS': 2, 'DIAG_STORED': 1}, {'NMAX': 6, 'ZMAX': 6, 'BS': 2},
                       {'NMAX': 6, 'ZMAX': 7, 'BS': 3, 'DIAG_STORED': 1}, {'NMAX': 6, 'ZMAX': 6, 'BS': 3}],
    bound_text='block_size 2, n <= 5 (np <= 2 cells plus one trailing non-cell row), active_rows symbolic; nnz <= 7 with a stored diagonal, nnz <= 6 with any pattern; '
               'rows strictly ascending; values symbolic tokens (thorough: n <= 6 i.e. np <= 3, nnz <= 8 / 6; block_size 3, n <= 6, nnz <= 7 / 6)',
    assumptions=A_SETUP + ['A-sorted: the rows of K are in strictly ascending column order (cpr::init does not sort its copy of K; the multi-row merge of first_scalar_pass presupposes it)',
                           'A-invert: cpr::invert(A, y) is a callee: it may overwrite A (LU in place) and writes y[0..B); its arithmetic (LU without pivoting, triangular solves) is not under contract'],
    replay='composite', timeout=900,
    witness=wit('K') + ['w_bs', 'w_get_app', 'w_active_rows'],
    not_decided=['the floating-point block inverse itself (cpr::invert)', 'App values / columns (second pass of cpr::init)',
                 'cells whose diagonal block has no stored entry: invert is not called and Fpp->val of the cell stays uninitialised (singular block: outside the property)',
                 'rows with duplicate or unsorted columns', 'N not divisible by block_size', 'distribution of the cells over several OpenMP threads'],
)
cpr_fsp.unwindset = [(r'for\(ptrdiff_t ip = 0;', 'NMAX//BS+1'), (r'for\(int [ij] = 0; [ij] < B;', 'BS+1'),
                     (r'while \(!done\)', 'NMAX//BS+1'), (r'for\(; RI_OK', 'ZMAX+1'), (r'while\(RI_OK', 'ZMAX+1')]


# =====================================================================================================
# 2. schur_pressure_correction::init -- sub-block extraction and gather / scatter matrices
# =====================================================================================================
SCHUR_VIEW = r"""
/* members of schur_pressure_correction<> the two regions touch: prm.pmask (std::vector<char>), n, np, nu */
#define CAP_MASK (NMAX + 1)
typedef struct schur_params { char pmask[CAP_MASK]; size_t pmask_n; } schur_params;
typedef struct schur { schur_params prm; size_t n, np, nu; } schur;
typedef crs build_matrix;
char nondet_char(void);
int w_pmask[CAP_MASK];
/* idx as the first loop of init() leaves it: the rank of i among the unknowns of its own class (pressure / flow), counted
 * from the incoming np / nu = 0; nu, np = the class sizes.  Postcondition of schur_init_blocks, precondition of schur_init_scatter. */
static _Bool spec_idx(const char *pm, size_t n, const ptrdiff_t *idx, size_t nu, size_t np)
{
  size_t cu = 0, cp = 0;
  for (size_t i = 0; i < NMAX; ++i) if (i < n) {
    if (pm[i]) { if (idx[i] != (ptrdiff_t)cp) return 0; cp++; }
    else       { if (idx[i] != (ptrdiff_t)cu) return 0; cu++; }
  }
  return cu == nu && cp == np;
}
static void schur_input(schur *self, size_t n)
{
  self->n = n; self->prm.pmask_n = n;            /* pmask has one flag per unknown (params: pmask_size) */
  for (size_t i = 0; i < CAP_MASK; ++i) {
    char c = nondet_char();
#ifdef MASK
    /* the class of every unknown is fixed per variant (all 2^NMAX masks are enumerated); a pressure flag is any non-zero char */
    if ((MASK >> i) & 1) { if (c == 0) c = 1; } else c = 0;
#endif
    self->prm.pmask[i] = c; w_pmask[i] = c;
  }
}
"""

SCHUR_BLOCKS_SPEC = r"""
crs *g_blk[2][2];          /* [row class][column class]: Kuu Kup / Kpu Kpp */
ptrdiff_t g_idx[CAP_LOC]; size_t g_idx_n;
static _Bool post_block_shapes(size_t nu, size_t np)
{
  const size_t dim[2] = { nu, np };
  for (int a = 0; a < 2; ++a) for (int b = 0; b < 2; ++b) {
    const crs *M = g_blk[a][b];
    if (M == 0 || M->ptr == 0 || M->col == 0 || M->val == 0) return 0;
    if (!(M->nrows == dim[a] && M->ncols == dim[b])) return 0;
    if (!crs_wf(M, NMAX, NMAX, ZMAX) || M->nnz != (size_t)M->ptr[M->nrows]) return 0;
  }
  return 1;
}
/* K(i,j) lives in block [pmask[i]][pmask[j]] at (idx[i], idx[j]): same value (dense view) and the same number of stored copies */
static _Bool post_reassemble(const schur *self, const crs *K, _Bool values)
{
  for (size_t i = 0; i < NMAX; ++i) for (size_t j = 0; j < NMAX; ++j) if (i < K->nrows && j < K->nrows) {
    const crs *M = g_blk[self->prm.pmask[i] ? 1 : 0][self->prm.pmask[j] ? 1 : 0];
    if (values ? dense_get(M, (size_t)g_idx[i], (size_t)g_idx[j]) != dense_get(K, i, j)
               : count_in_row(M, (size_t)g_idx[i], (size_t)g_idx[j]) != count_in_row(K, i, j)) return 0;
  }
  return 1;
}
/* exact layout, entry by entry: the stored entry at position e of K (row i, column j) is found in block
 * [pmask[i]][pmask[j]], row idx[i], at the position given by its rank among the entries of row i of the same column class
 * (the order within a row is kept), with column idx[j] and the same value                                          */
static _Bool post_entry_layout(const schur *self, const crs *K, size_t e)
{
  for (size_t i = 0; i < NMAX; ++i) if (i < K->nrows && (ptrdiff_t)e >= K->ptr[i] && (ptrdiff_t)e < K->ptr[i + 1]) {
    const size_t j = (size_t)K->col[e];
    const int pj = self->prm.pmask[j] ? 1 : 0;
    const crs *M = g_blk[self->prm.pmask[i] ? 1 : 0][pj];
    ptrdiff_t rank = 0;
    for (size_t q = 0; q < CAP_NNZ; ++q)
      if ((ptrdiff_t)q >= K->ptr[i] && q < e && (self->prm.pmask[K->col[q]] ? 1 : 0) == pj) rank++;
    const ptrdiff_t pos = M->ptr[g_idx[i]] + rank;
    return pos < M->ptr[g_idx[i] + 1] && M->col[pos] == g_idx[j] && M->val[pos] == K->val[e];
  }
  return 0;
}
/* row idx[i] of the two blocks of i's row class holds exactly the entries of row i of K of the respective column class */
static _Bool post_row_lengths(const schur *self, const crs *K)
{
  for (size_t i = 0; i < NMAX; ++i) if (i < K->nrows)
    for (int c = 0; c < 2; ++c) {
      const crs *M = g_blk[self->prm.pmask[i] ? 1 : 0][c];
      ptrdiff_t cnt = 0;
      for (size_t q = 0; q < CAP_NNZ; ++q)
        if ((ptrdiff_t)q >= K->ptr[i] && (ptrdiff_t)q < K->ptr[i + 1] && (self->prm.pmask[K->col[q]] ? 1 : 0) == c) cnt++;
      if (M->ptr[g_idx[i] + 1] - M->ptr[g_idx[i]] != cnt) return 0;
    }
  return 1;
}
static _Bool post_blocks_sorted(void)
{
  for (int a = 0; a < 2; ++a) for (int b = 0; b < 2; ++b) if (!crs_rows_sorted(g_blk[a][b], 0)) return 0;
  return 1;
}
"""

# measured: the 64-bit index types make the propositional reduction of these regions about twice as large and minisat 2-4x slower than kissat
INT32IDX = {'CXC_COL_T': 'int', 'CXC_PTR_T': 'int'}
KISSAT = ['--external-sat-solver', 'kissat']
A_INST32 = 'A-inst: quick variants instantiate crs<V, Col, Ptr> with Col = Ptr = int (the region\'s own index arithmetic -- idx, heads, loop counters -- stays ptrdiff_t / size_t as written)'
SCHUR_ITER = [
    Rule(r'for\s*\(auto k = (?:backend::)?row_begin\(\*K, i\); k; \+\+k\)', 'for(ptrdiff_t k = K->ptr[i]; k < K->ptr[i + 1]; ++k)', 2,
         why='R-iter (A-iter)', early=True),
    Rule(r'\bk\.col\(\)', 'K->col[k]', None, why='R-iter', early=True),
    Rule(r'\bk\.value\(\)', 'K->val[k]', None, why='R-iter', early=True),
]
NEW_MATRIX = lambda k: Rule(r'auto (\w+) = std_make_shared<build_matrix>\(\);', r'crs *\1 = crs_new();', k, why='R-auto / make_shared')
PMASK_IDX = IdxRule(r'self->prm\.pmask', 'self->prm.pmask_n', '+')

blocks_cut = Cut(
    SCHUR, r'// Extract matrix subblocks\.\n', kind='region', begin_exclusive=True, end=r'if \(prm\.verbose >= 2\)',
    rules=SCHUR_ITER + [NEW_MATRIX(4)] + CALL_RULES + member_rules(['prm', 'n', 'np', 'nu']) + [
        Rule(r'std_vector<ptrdiff_t> idx\(([^;]+)\);', r'loc_vec idx; const size_t idx_n = vec_init(idx, \1, 0);', 1, why='R-vec-local: std::vector<ptrdiff_t>(n) is zero-filled'),
        IdxRule(r'idx', 'idx_n', '+'), PMASK_IDX,
        IdxRule(r'(Kuu|Kup|Kpu|Kpp)->ptr', r'\1->nrows + 1', '+'),
        IdxRule(r'(Kuu|Kup|Kpu|Kpp)->(?:col|val)', r'\1->nnz', '+'),
        IdxRule(r'K->col|K->val', 'nonzeros(*K)', None), IdxRule(r'K->ptr', 'K->nrows + 1', '+'),
    ])

IDX_STOP = r"""
/* a failed subscript obligation ends the path: assert, then assume the SAME condition (the verdict is unchanged, the
 * follow-up reports of the same defect -- CBMC's own pointer checks on the out-of-range access and everything computed
 * from it -- are cut off; same device as units/_direct_common.py CXC_IDX_STOP)                                     */
static inline ptrdiff_t cxc_idx_stop(ptrdiff_t e, size_t len)
{
#if defined(CXC_CBMC) && !defined(CXC_CANARY)
  __CPROVER_assert(e >= 0 && (size_t)e < len, "safety.idx. subscript within the logical length of the array");
  __CPROVER_assume(e >= 0 && (size_t)e < len);
#endif
  return e;
}
#undef IDX
#define IDX(e, len, what) cxc_idx_stop((ptrdiff_t)(e), (size_t)(len))
"""
SCHUR_HDR = '#define MODEL_INT32 1\n' + VEC_PRELUDE + CRS_MEMBERS_C + NARROW_INPUT + SCHUR_VIEW
# units whose region WRITES through computed positions (a wrong position cascades into hundreds of follow-up reports): path cut at the failed subscript
# (measured cost: +30..60 % solver time, so the counting / scatter units keep the plain IDX)
SCHUR_HDR_STOP = '#define MODEL_INT32 1\n' + VEC_PRELUDE + IDX_STOP + CRS_MEMBERS_C + NARROW_INPUT + SCHUR_VIEW

schur_blocks = Unit(
    name='schur_init_blocks', props=['C18', 'C10'],
    functions=['preconditioner::schur_pressure_correction::init(K, bprm) [sub-block extraction region]', 'crs::set_size', 'crs::scan_row_sizes', 'crs::set_nonzeros'],
    desc='the u/p sub-blocks Kuu, Kup, Kpu, Kpp with the idx renumbering reassemble to K entry for entry (dense view and stored copies), '
         'for every pressure mask; idx is the rank within the class; row order is preserved',
    cuts=dict(crs_member_cuts(), body=blocks_cut),
    template=SCHUR_HDR_STOP + SCHUR_BLOCKS_SPEC + r"""
WITNESS_CRS(K)
/* contract (enforced by the harness below):
 *   requires  K square well-formed (any pattern: unsorted rows, duplicates, empty rows); pmask has n flags (any char values);
 *             np == nu == 0 (member initialisers of both constructors)
 *   assigns   self->np, self->nu; fresh matrices only
 *   ensures   nu + np == n, idx[i] == rank of i within its class; Kuu nu x nu, Kup nu x np, Kpu np x nu, Kpp np x np, all well-formed;
 *             for all i, j: block[pmask[i]][pmask[j]](idx[i], idx[j]) == K(i,j), stored equally often; the four blocks hold
 *             nnz(K) entries; rows ascending if the rows of K are; K and pmask unchanged                                      */
static void f_schur_blocks(schur *self, const crs *K)
{
/*@CUT:body@*/
  /* ghost epilogue: publish the region's locals */
  g_blk[0][0] = Kuu; g_blk[0][1] = Kup; g_blk[1][0] = Kpu; g_blk[1][1] = Kpp;
  g_idx_n = idx_n; for (size_t i = 0; i < CAP_LOC; ++i) g_idx[i] = idx[i];
}
void h_schur_blocks(void)
{
  crs *K = crs_input_tok();
  schur me; schur *self = &me;
  REQUIRES(crs_wf(K, NMAX, NMAX, ZMAX) && K->nrows == K->ncols);
#ifdef NFIX
  REQUIRES(K->nrows == NFIX);      /* the size is fixed per variant (every n <= NMAX is enumerated) */
#endif
  schur_input(self, K->nrows); self->np = 0; self->nu = 0;
  const size_t ge = nondet_uchar() & IMASK;      /* ghost: an arbitrary position in K's entry arrays (universal generalisation) */
  MIRROR_CRS(K, K);
  crs_snap s; crs_snapshot(K, &s);
  const schur me0 = me;
  f_schur_blocks(self, K);
  ENSURES(!g_cap_exceeded && !g_thrown, "bound artefact: allocation within verification capacity; no exception");
  ENSURES(g_idx_n == K->nrows && self->nu + self->np == K->nrows && spec_idx(self->prm.pmask, K->nrows, g_idx, self->nu, self->np),
          "schur init: idx[i] is the rank of unknown i within its class (pressure / flow), nu and np are the class sizes");
  const _Bool shapes = post_block_shapes(self->nu, self->np);
  ENSURES(shapes, "schur init: Kuu is nu x nu, Kup nu x np, Kpu np x nu, Kpp np x np, each well-formed CRS with nnz == ptr[rows]");
  if (shapes && g_idx_n == K->nrows && spec_idx(self->prm.pmask, K->nrows, g_idx, self->nu, self->np)) {
#ifdef DENSE
  ENSURES(post_reassemble(self, K, 1), "schur init: the sub-blocks reassemble to K: block[pmask[i]][pmask[j]](idx[i], idx[j]) == K(i,j) for all i, j (dense view)");
  ENSURES(post_reassemble(self, K, 0), "schur init: every entry (i,j) of K is stored in its sub-block exactly as often as in K");
#else
  /* the same statement entry by entry (the layout is a bijection between the stored entries of K and those of the four blocks
   * that maps (i,j) to (idx[i], idx[j]) and keeps the value; idx is injective on each class: hence the dense views agree) */
  ENSURES(post_row_lengths(self, K), "schur init: row idx[i] of each sub-block holds exactly as many entries as row i of K has in that column class");
  if (ge < (size_t)K->ptr[K->nrows])
  ENSURES(post_entry_layout(self, K, ge), "schur init: every stored entry (i,j) of K is found in block[pmask[i]][pmask[j]] at row idx[i], column idx[j], with its value, in the order of K's row (arbitrary entry)");
#endif
  ENSURES(g_blk[0][0]->nnz + g_blk[0][1]->nnz + g_blk[1][0]->nnz + g_blk[1][1]->nnz == (size_t)K->ptr[K->nrows],
          "schur init: the four sub-blocks hold exactly nnz(K) entries");
  ENSURES(!crs_rows_sorted(K, 0) || post_blocks_sorted(), "schur init: rows of the sub-blocks ascending when the rows of K are");
  }
  _Bool mask_same = self->prm.pmask_n == me0.prm.pmask_n && self->n == me0.n;
  for (size_t i = 0; i < CAP_MASK; ++i) if (self->prm.pmask[i] != me0.prm.pmask[i]) mask_same = 0;
  ENSURES(crs_unchanged(K, &s) && mask_same, "frame: K, pmask and n are not modified");
  CANARY("harness.end");
}
""",
    entry='h_schur_blocks', mode='unwound', unwind='max(ZMAX,NMAX)+3', model='int32',
    variants=[dict(INT32IDX, NMAX=3, ZMAX=3, DENSE=1), dict(INT32IDX, NMAX=3, ZMAX=3)],
    thorough_variants=[dict(INT32IDX, NMAX=2, ZMAX=4, DENSE=1), {'NMAX': 3, 'ZMAX': 3, 'DENSE': 1}, {'NMAX': 3, 'ZMAX': 3}],
    solver=KISSAT,
    bound_text='whole region end to end: n <= 3, nnz <= 3 (dense-view statement and entry-layout statement; measured: n <= 3, nnz <= 4 does not finish in 280 s; '
               'the bound n <= 4, nnz <= 6 is covered step by step by schur_init_counts + schur_init_fill_row), every pressure mask (any char values), any pattern (unsorted rows, duplicates, empty rows), values symbolic tokens (thorough: n <= 5, nnz <= 7)',
    assumptions=A_SETUP + ['A-pmask: prm.pmask has exactly n entries (pmask_size == rows(K)); the constructor does not check it', A_INST32,
                           'A-ctor: np and nu enter init() as 0 (member initialisers np(0), nu(0) of both constructors)'],
    replay='composite', timeout=600, witness=wit("K") + ["w_pmask"],
    not_decided=['the adjust_p corrections of Kpp and the simplec_dia / approx_schur diagonals (floating point)', 'copy to the backend (copy_matrix)',
                 'pmask shorter than n (out-of-bounds read: outside the documented domain)'],
)
schur_blocks.unwindset = [(r'for\(ptrdiff_t i = 0; i < \(\(ptrdiff_t\)\(self->n\)\)', 'NMAX+1'), (r'for\(size_t i = 0; i < self->n;', 'NMAX+1'),
                          (r'for\(ptrdiff_t k = K->ptr', 'ZMAX+1')]


# ---- the same region step by step (larger bound): (a) idx + sizes + counting pass + scan + allocation, (b) the body of the
# ---- filling pass for ONE arbitrary row.  The postcondition of (a) is literally (the same C predicates) the precondition of (b).
SCHUR_STEP_SPEC = r"""
/* S-rows(i): row idx[i] of the two blocks of i's row class has exactly as many cells as row i of K has entries of that column class */
static _Bool spec_row_lengths_at(const schur *self, const crs *K, const ptrdiff_t *idx, crs *const blk[2][2], size_t i)
{
  for (int c = 0; c < 2; ++c) {
    const crs *M = blk[self->prm.pmask[i] ? 1 : 0][c];
    ptrdiff_t cnt = 0;
    for (size_t q = 0; q < CAP_NNZ; ++q)
      if ((ptrdiff_t)q >= K->ptr[i] && (ptrdiff_t)q < K->ptr[i + 1] && (self->prm.pmask[K->col[q]] ? 1 : 0) == c) cnt++;
    if (M->ptr[idx[i] + 1] - M->ptr[idx[i]] != cnt) return 0;
  }
  return 1;
}
/* S-shape: Kuu nu x nu, Kup nu x np, Kpu np x nu, Kpp np x np; monotone row pointers from 0; nnz == ptr[rows]; arrays allocated.
 * (columns are not constrained: the arrays are fresh) */
static _Bool spec_block_shapes(crs *const blk[2][2], size_t nu, size_t np)
{
  const size_t dim[2] = { nu, np };
  for (int a = 0; a < 2; ++a) for (int b = 0; b < 2; ++b) {
    const crs *M = blk[a][b];
    if (M == 0 || M->ptr == 0 || M->col == 0 || M->val == 0) return 0;
    if (!(M->nrows == dim[a] && M->ncols == dim[b] && M->ptr[0] == 0)) return 0;
    for (size_t r = 0; r < NMAX; ++r) if (r < M->nrows) { if (!(M->ptr[r] <= M->ptr[r + 1])) return 0; }
    if (!(M->ptr[M->nrows] >= 0 && (size_t)M->ptr[M->nrows] <= ZMAX && M->nnz == (size_t)M->ptr[M->nrows])) return 0;
  }
  return 1;
}
"""
counts_cut = Cut(
    SCHUR, r'// Extract matrix subblocks\.\n', kind='region', begin_exclusive=True,
    end=r'^#pragma omp parallel for\b.*?(?=^#pragma omp parallel for\b)', end_inclusive=True, flags=re.S | re.M,
    rules=[Rule(r'for\s*\(auto k = (?:backend::)?row_begin\(\*K, i\); k; \+\+k\)', 'for(ptrdiff_t k = K->ptr[i]; k < K->ptr[i + 1]; ++k)', 1, why='R-iter (A-iter)', early=True),
           Rule(r'\bk\.col\(\)', 'K->col[k]', None, why='R-iter', early=True)]
    + [NEW_MATRIX(4)] + CALL_RULES + member_rules(['prm', 'n', 'np', 'nu']) + [
        Rule(r'std_vector<ptrdiff_t> idx\(([^;]+)\);', r'loc_vec idx; const size_t idx_n = vec_init(idx, \1, 0);', 1, why='R-vec-local: std::vector<ptrdiff_t>(n) is zero-filled'),
        IdxRule(r'idx', 'idx_n', '+'), PMASK_IDX,
        IdxRule(r'(Kuu|Kup|Kpu|Kpp)->ptr', r'\1->nrows + 1', '+'),
        IdxRule(r'K->col', 'nonzeros(*K)', None), IdxRule(r'K->ptr', 'K->nrows + 1', '+'),
    ])
schur_counts = Unit(
    name='schur_init_counts', props=['C18', 'C10'],
    functions=['preconditioner::schur_pressure_correction::init(K, bprm) [idx renumbering, block sizes, counting pass, row pointers]',
               'crs::set_size', 'crs::scan_row_sizes', 'crs::set_nonzeros'],
    desc='first half of the sub-block extraction: idx is the rank within the class, the four blocks get their shapes, and their row pointers are '
         'the prefix sums of the per-row, per-class entry counts of K (for every pressure mask)',
    cuts=dict(crs_member_cuts(), body=counts_cut),
    template=SCHUR_HDR + SCHUR_STEP_SPEC + r"""
WITNESS_CRS(K)
crs *g_blk[2][2]; ptrdiff_t g_idx[CAP_LOC]; size_t g_idx_n;
/* contract (enforced by the harness below):
 *   requires  K square well-formed (any pattern); pmask has n flags; np == nu == 0
 *   ensures   spec_idx (idx, nu, np); S-shape; S-rows(i) for every row i; K, pmask unchanged            */
static void f_schur_counts(schur *self, const crs *K)
{
/*@CUT:body@*/
  g_blk[0][0] = Kuu; g_blk[0][1] = Kup; g_blk[1][0] = Kpu; g_blk[1][1] = Kpp;
  g_idx_n = idx_n; for (size_t i = 0; i < CAP_LOC; ++i) g_idx[i] = idx[i];
}
void h_schur_counts(void)
{
  crs *K = crs_input_tok();
  schur me; schur *self = &me;
  REQUIRES(crs_wf(K, NMAX, NMAX, ZMAX) && K->nrows == K->ncols);
  schur_input(self, K->nrows); self->np = 0; self->nu = 0;
  MIRROR_CRS(K, K);
  crs_snap s; crs_snapshot(K, &s);
  const schur me0 = me;
  f_schur_counts(self, K);
  ENSURES(!g_cap_exceeded && !g_thrown, "bound artefact: allocation within verification capacity; no exception");
  const _Bool okidx = g_idx_n == K->nrows && self->nu + self->np == K->nrows && spec_idx(self->prm.pmask, K->nrows, g_idx, self->nu, self->np);
  ENSURES(okidx, "schur init: idx[i] is the rank of unknown i within its class (pressure / flow), nu and np are the class sizes");
  const _Bool shapes = spec_block_shapes(g_blk, self->nu, self->np);
  ENSURES(shapes, "schur init: Kuu is nu x nu, Kup nu x np, Kpu np x nu, Kpp np x np; row pointers monotone from 0, nnz == ptr[rows], arrays allocated");
  if (okidx && shapes) {
    _Bool rows = 1;
    for (size_t i = 0; i < NMAX; ++i) if (i < K->nrows && !spec_row_lengths_at(self, K, g_idx, g_blk, i)) rows = 0;
    ENSURES(rows, "schur init: row idx[i] of each sub-block has exactly as many cells as row i of K has entries in that column class");
    ENSURES(g_blk[0][0]->nnz + g_blk[0][1]->nnz + g_blk[1][0]->nnz + g_blk[1][1]->nnz == (size_t)K->ptr[K->nrows],
            "schur init: the four sub-blocks have room for exactly nnz(K) entries");
  }
  _Bool mask_same = self->prm.pmask_n == me0.prm.pmask_n && self->n == me0.n;
  for (size_t i = 0; i < CAP_MASK; ++i) if (self->prm.pmask[i] != me0.prm.pmask[i]) mask_same = 0;
  ENSURES(crs_unchanged(K, &s) && mask_same, "frame: K, pmask and n are not modified");
  CANARY("harness.end");
}
""",
    entry='h_schur_counts', mode='unwound', unwind='max(ZMAX,NMAX)+3', model='int32',
    variants=[dict(INT32IDX, NMAX=4, ZMAX=6)], thorough_variants=[dict(INT32IDX, NMAX=5, ZMAX=7), {'NMAX': 4, 'ZMAX': 5}],
    bound_text='n <= 4, nnz <= 6, every pressure mask (any char values), any pattern, Col = Ptr = int (thorough: n <= 5, nnz <= 7; Col = Ptr = ptrdiff_t at n <= 4, nnz <= 5)',
    solver=KISSAT,
    assumptions=A_SETUP + ['A-pmask: prm.pmask has exactly n entries (pmask_size == rows(K)); the constructor does not check it', A_INST32,
                           'A-ctor: np and nu enter init() as 0 (member initialisers np(0), nu(0) of both constructors)'],
    replay='composite', timeout=900, witness=wit('K') + ['w_pmask'],
)
schur_counts.unwindset = [(r'for\(ptrdiff_t i = 0; i < \(\(ptrdiff_t\)\(self->n\)\)', 'NMAX+1'), (r'for\(size_t i = 0; i < self->n;', 'NMAX+1'),
                          (r'for\(ptrdiff_t k = K->ptr', 'ZMAX+1')]

fill_cut = Cut(
    SCHUR, r'for\(ptrdiff_t i = 0; i < static_cast<ptrdiff_t>\(n\); \+\+i\)\s*(?=\{)', nth=1,
    rules=[Rule(r'for\s*\(auto k = (?:backend::)?row_begin\(\*K, i\); k; \+\+k\)', 'for(ptrdiff_t k = K->ptr[i]; k < K->ptr[i + 1]; ++k)', 1, why='R-iter (A-iter)', early=True),
           Rule(r'\bk\.col\(\)', 'K->col[k]', None, why='R-iter', early=True),
           Rule(r'\bk\.value\(\)', 'K->val[k]', None, why='R-iter', early=True)]
    + member_rules(['prm', 'n', 'np', 'nu']) + [
        IdxRule(r'idx', 'idx_n', '+'), PMASK_IDX,
        IdxRule(r'(Kuu|Kup|Kpu|Kpp)->ptr', r'\1->nrows + 1', '+'),
        IdxRule(r'(Kuu|Kup|Kpu|Kpp)->(?:col|val)', r'\1->nnz', '+'),
        IdxRule(r'K->col|K->val', 'nonzeros(*K)', None), IdxRule(r'K->ptr', 'K->nrows + 1', '+'),
    ])
schur_fill = Unit(
    name='schur_init_fill_row', props=['C18', 'C10'],
    functions=['preconditioner::schur_pressure_correction::init(K, bprm) [filling pass: loop body for one row]'],
    desc='second half of the sub-block extraction, for an ARBITRARY row i: every entry (i,j) of K lands in block[pmask[i]][pmask[j]], row idx[i], '
         'at its rank among the entries of that column class, with column idx[j] and its value; nothing outside the two row segments of row idx[i] is written '
         '(the iterations of the parallel loop are independent)',
    cuts=dict(body=fill_cut),
    template=SCHUR_HDR_STOP + SCHUR_STEP_SPEC + r"""
WITNESS_CRS(K)
ptrdiff_t w_idx[CAP_LOC]; ptrdiff_t w_i;
/* contract (enforced by the harness below):
 *   requires  K square well-formed; pmask has n flags; spec_idx(idx, nu, np), S-shape, S-rows(i)   (= postcondition of schur_init_counts);
 *             0 <= i < n; the col / val arrays of the blocks hold anything
 *   assigns   the cells [ptr[idx[i]], ptr[idx[i]+1]) of col / val of the two blocks of i's row class
 *   ensures   the entry at position e of row i of K sits at ptr[idx[i]] + rank(e) of block[pmask[i]][pmask[col[e]]] with column idx[col[e]]
 *             and value val[e], rank(e) = number of earlier entries of row i in the same column class; every other cell, all row
 *             pointers and sizes of the blocks, K, pmask and idx are unchanged                                              */
static void f_schur_fill_row(schur *self, const crs *K, const ptrdiff_t *idx, size_t idx_n, crs *Kuu, crs *Kup, crs *Kpu, crs *Kpp, ptrdiff_t i)
{
/*@CUT:body@*/
}
static _Bool post_row_layout(const schur *self, const crs *K, const ptrdiff_t *idx, crs *const blk[2][2], size_t i)
{
  ptrdiff_t rank[2] = { 0, 0 };
  for (size_t e = 0; e < CAP_NNZ; ++e) if ((ptrdiff_t)e >= K->ptr[i] && (ptrdiff_t)e < K->ptr[i + 1]) {
    const size_t j = (size_t)K->col[e];
    const int pj = self->prm.pmask[j] ? 1 : 0;
    const crs *M = blk[self->prm.pmask[i] ? 1 : 0][pj];
    const ptrdiff_t pos = M->ptr[idx[i]] + rank[pj];
    if (!(pos < M->ptr[idx[i] + 1] && M->col[pos] == idx[j] && M->val[pos] == K->val[e])) return 0;
    rank[pj]++;
  }
  return 1;
}
void h_schur_fill_row(void)
{
  crs *K = crs_input_tok();
  schur me; schur *self = &me;
  REQUIRES(crs_wf(K, NMAX, NMAX, ZMAX) && K->nrows == K->ncols);
  const size_t n = K->nrows;
  size_t nu = nondet_uchar() & IMASK, np = nondet_uchar() & IMASK;
  schur_input(self, n); self->nu = nu; self->np = np;
  loc_vec idx;
  for (size_t q = 0; q < CAP_LOC; ++q) { idx[q] = nondet_uchar() & IMASK; w_idx[q] = idx[q]; }
  REQUIRES(nu + np == n && spec_idx(self->prm.pmask, n, idx, nu, np));
  crs *blk[2][2]; crs_snap s0[2][2];
  for (int a = 0; a < 2; ++a) for (int b = 0; b < 2; ++b) blk[a][b] = crs_input_tok();
  REQUIRES(spec_block_shapes(blk, nu, np));
  const size_t i = nondet_uchar() & IMASK;
  REQUIRES(i < n && spec_row_lengths_at(self, K, idx, blk, i));
  MIRROR_CRS(K, K); w_i = (ptrdiff_t)i;
  crs_snap s; crs_snapshot(K, &s);
  for (int a = 0; a < 2; ++a) for (int b = 0; b < 2; ++b) crs_snapshot(blk[a][b], &s0[a][b]);
  const schur me0 = me;
  f_schur_fill_row(self, K, idx, n, blk[0][0], blk[0][1], blk[1][0], blk[1][1], (ptrdiff_t)i);
  ENSURES(post_row_layout(self, K, idx, blk, i),
          "schur init: every entry (i,j) of row i of K sits in block[pmask[i]][pmask[j]], row idx[i], at its rank within the column class, with column idx[j] and its value");
  _Bool frame = 1;
  for (int a = 0; a < 2; ++a) for (int b = 0; b < 2; ++b) {
    const crs *M = blk[a][b];
    const _Bool mine = (a == (self->prm.pmask[i] ? 1 : 0));
    for (size_t q = 0; q < CAP_NNZ; ++q) {
      const _Bool inseg = mine && (ptrdiff_t)q >= s0[a][b].ptr[idx[i]] && (ptrdiff_t)q < s0[a][b].ptr[idx[i] + 1];
      if (inseg) { M->col[q] = s0[a][b].col[q]; M->val[q] = s0[a][b].val[q]; }    /* the row's own segment: compared by post_row_layout above */
    }
    if (!crs_unchanged(M, &s0[a][b])) frame = 0;
  }
  ENSURES(frame, "frame: the loop body for row i writes only the cells [ptr[idx[i]], ptr[idx[i]+1]) of the two blocks of i's row class (iterations are independent)");
  _Bool same = self->prm.pmask_n == me0.prm.pmask_n && self->n == me0.n && self->nu == me0.nu && self->np == me0.np;
  for (size_t q = 0; q < CAP_MASK; ++q) if (self->prm.pmask[q] != me0.prm.pmask[q]) same = 0;
  for (size_t q = 0; q < CAP_LOC; ++q) if (idx[q] != w_idx[q]) same = 0;
  ENSURES(crs_unchanged(K, &s) && same, "frame: K, pmask, idx, n, nu, np are not modified");
  CANARY("harness.end");
}
""",
    entry='h_schur_fill_row', mode='unwound', unwind='max(ZMAX,NMAX)+3', model='int32',
    variants=[dict(INT32IDX, NMAX=4, ZMAX=6)], thorough_variants=[dict(INT32IDX, NMAX=5, ZMAX=7), {'NMAX': 4, 'ZMAX': 5}],
    bound_text='n <= 4, nnz <= 6, every pressure mask, any pattern, an arbitrary row, arbitrary prior content of the blocks, Col = Ptr = int (thorough: n <= 5, nnz <= 7; Col = Ptr = ptrdiff_t at n <= 4, nnz <= 5)',
    solver=KISSAT,
    assumptions=A_SETUP + ['A-pmask: prm.pmask has exactly n entries (pmask_size == rows(K)); the constructor does not check it', A_INST32,
                           'A-steps: idx, the block shapes and row pointers are what the first half computed (postcondition of schur_init_counts, the same C predicates); '
                           'the rows of the parallel loop compose because each iteration writes only its own row segments (frame obligation) and the segments of different rows are disjoint (monotone row pointers)'],
    replay='composite', timeout=600, witness=wit('K') + ['w_pmask', 'w_idx', 'w_i'],
)
schur_fill.unwindset = [(r'for\(ptrdiff_t k = K->ptr', 'ZMAX+1')]

scatter_cut = Cut(
    SCHUR, r'// Scatter/Gather matrices\n', kind='region', begin_exclusive=True, end=r'this->x2u = backend_type::copy_matrix',
    rules=[NEW_MATRIX(4)] + CALL_RULES + member_rules(['prm', 'n', 'np', 'nu']) + [
        IdxRule(r'idx', 'idx_n', '+'), PMASK_IDX,
        IdxRule(r'(x2u|x2p|u2x|p2x)->ptr', r'\1->nrows + 1', '+'),
        IdxRule(r'(x2u|x2p|u2x|p2x)->(?:col|val)', r'\1->nnz', '+'),
    ])

SCHUR_SCATTER_SPEC = r"""
crs *g_gs[4];      /* x2u x2p u2x p2x */
/* gather (sub <- full): G(y, x) = 1 iff unknown x is of the class and idx[x] == y; scatter = transpose */
static _Bool post_gather_scatter(const schur *self, const ptrdiff_t *idx, int g)
{
  const crs *M = g_gs[g];
  const _Bool pressure = (g == 1 || g == 3), gather = g < 2;
  const size_t m = pressure ? self->np : self->nu, n = self->n;
  if (M == 0 || M->ptr == 0 || M->col == 0 || M->val == 0) return 0;
  if (!(M->nrows == (gather ? m : n) && M->ncols == (gather ? n : m))) return 0;
  if (!crs_wf(M, NMAX, NMAX, NMAX) || M->nnz != (size_t)M->ptr[M->nrows] || M->nnz != m) return 0;
  for (size_t r = 0; r < NMAX; ++r) for (size_t c = 0; c < NMAX; ++c) if (r < M->nrows && c < M->ncols) {
    const size_t x = gather ? c : r, y = gather ? r : c;
    const int e = (((self->prm.pmask[x] != 0) == pressure) && (size_t)idx[x] == y) ? 1 : 0;
    if (count_in_row(M, r, c) != e || dense_get(M, r, c) != e) return 0;
  }
  return 1;
}
"""
schur_scatter = Unit(
    name='schur_init_scatter', props=['C18', 'C10'],
    functions=['preconditioner::schur_pressure_correction::init(K, bprm) [gather / scatter region]', 'crs::set_size', 'crs::set_nonzeros'],
    desc='x2u, x2p (gather) and u2x, p2x (scatter) are exactly the 0/1 matrices of the pressure mask with the idx renumbering, for every mask',
    cuts=dict(crs_member_cuts(), body=scatter_cut),
    template=SCHUR_HDR + SCHUR_SCATTER_SPEC + r"""
ptrdiff_t w_idx[CAP_LOC]; size_t w_n;
/* contract (enforced by the harness below):
 *   requires  pmask has n flags; idx, nu, np as the extraction region leaves them (spec_idx: postcondition of schur_init_blocks)
 *   assigns   fresh matrices only
 *   ensures   x2u is nu x n with x2u(idx[i], i) = 1 for every flow unknown i and nothing else; x2p likewise for pressure;
 *             u2x = x2u^T, p2x = x2p^T (n x nu, n x np); each well-formed with exactly one stored entry per unknown of its class */
static void f_schur_scatter(schur *self, const ptrdiff_t *idx, size_t idx_n)
{
/*@CUT:body@*/
  g_gs[0] = x2u; g_gs[1] = x2p; g_gs[2] = u2x; g_gs[3] = p2x;
}
void h_schur_scatter(void)
{
  schur me; schur *self = &me;
  size_t n, nu, np;
  REQUIRES(n <= NMAX);
  schur_input(self, n); self->nu = nu; self->np = np;
  loc_vec idx;
  for (size_t i = 0; i < CAP_LOC; ++i) { ptrdiff_t a; idx[i] = a; w_idx[i] = a; }
  REQUIRES(spec_idx(self->prm.pmask, n, idx, nu, np));
  w_n = n;
  const schur me0 = me;
  f_schur_scatter(self, idx, n);
  ENSURES(!g_cap_exceeded && !g_thrown, "bound artefact: allocation within verification capacity; no exception");
  ENSURES(post_gather_scatter(self, idx, 0), "schur init: x2u is the nu x n gather matrix of the flow unknowns: x2u(idx[i], i) = 1 for pmask[i] == 0, nothing else stored");
  ENSURES(post_gather_scatter(self, idx, 1), "schur init: x2p is the np x n gather matrix of the pressure unknowns: x2p(idx[i], i) = 1 for pmask[i] != 0, nothing else stored");
  ENSURES(post_gather_scatter(self, idx, 2), "schur init: u2x is the n x nu scatter matrix (transpose of x2u)");
  ENSURES(post_gather_scatter(self, idx, 3), "schur init: p2x is the n x np scatter matrix (transpose of x2p)");
  _Bool same = self->prm.pmask_n == me0.prm.pmask_n && self->n == me0.n && self->nu == me0.nu && self->np == me0.np;
  for (size_t i = 0; i < CAP_MASK; ++i) if (self->prm.pmask[i] != me0.prm.pmask[i]) same = 0;
  ENSURES(same, "frame: pmask, n, nu, np are not modified");
  CANARY("harness.end");
}
""",
    entry='h_schur_scatter', mode='unwound', unwind='NMAX+3', model='int32',
    variants=[dict(INT32IDX, NMAX=5, ZMAX=5)], thorough_variants=[dict(INT32IDX, NMAX=6, ZMAX=6), {'NMAX': 4, 'ZMAX': 4}],
    bound_text='n <= 5 (thorough: n <= 6; Col = Ptr = ptrdiff_t at n <= 4), every pressure mask (any char values), Col = Ptr = int',
    solver=KISSAT,
    assumptions=A_SETUP + ['A-pmask: prm.pmask has exactly n entries (pmask_size == rows(K)); the constructor does not check it', A_INST32,
                           'A-idx: idx, nu, np are what the extraction region computed (spec_idx is proved as its postcondition by schur_init_blocks)'],
    replay='composite', timeout=600, witness=['w_pmask', 'w_idx', 'w_n'],
    not_decided=['copy to the backend (copy_matrix)'],
)


# =====================================================================================================
# 3. deflated_solver: project() (A-DEF2 projection), apply(), operator()
# =====================================================================================================
DEFL = 'amgcl/deflated_solver.hpp'
DEFL_T = r"""
#define MODEL_UF 1
#define CXC_UF_T unsigned short     /* token width: EUF small-model argument (fewer than 2^16 distinct terms occur) */
#include "amgcl_c.h"
#include <stdlib.h>
int g_thrown;
#ifndef NV
#define NV 3
#endif
typedef V scalar_type;
unsigned short nondet_ushort(void);
static V nondet_V(void) { return nondet_ushort(); }
/* typestate view of the backend objects (as in prelude/orch_trace.h) with the callees as recording stubs */
typedef struct vec { _Bool defined; unsigned long version; int id; } vec;
typedef struct mat { int id; } mat;
typedef struct obj { int id; } obj;
typedef struct defl_params { int nvec; } defl_params;
/* members of deflated_solver<> in declaration order: prm; n, P, S, r, Z, E, d (d is mutable scratch) */
typedef struct deflated {
  defl_params prm; size_t n; obj P; mat Pmat; obj S; vec *r;
  vec *Z[NV]; size_t Z_n; V E[NV * NV]; size_t E_n; V d[NV]; size_t d_n;
} deflated;
enum { T_NONE = 0, T_RESIDUAL, T_INNER, T_LINCOMB, T_APPLY, T_SOLVE };
typedef struct ev { int kind, o, v1, v2, v3; unsigned long ver; V s; } ev;
#define NEV (NV + 6)
ev g_ev[NEV]; unsigned g_nev;
V g_lc_c[NV]; int g_lc_v[NV]; size_t g_lc_n; V g_lc_alpha;      /* arguments of the (single expected) lin_comb call */
V g_solve_ret;
#ifdef CXC_CANARY
#define TYPESTATE(c, msg) ((void)0)
#else
#define TYPESTATE(c, msg) __CPROVER_assert(c, "typestate: " msg)
#endif
static void push(int kind, int o, int v1, int v2, int v3, unsigned long ver, V s)
{
  if (g_nev < NEV) { g_ev[g_nev].kind = kind; g_ev[g_nev].o = o; g_ev[g_nev].v1 = v1; g_ev[g_nev].v2 = v2; g_ev[g_nev].v3 = v3; g_ev[g_nev].ver = ver; g_ev[g_nev].s = s; }
  g_nev++;
}
/* r = f - A x */
static void tr_residual(const vec *f, const mat *A, const vec *x, vec *r)
{
  TYPESTATE(f->defined && x->defined, "residual reads a defined right-hand side and a defined x");
  push(T_RESIDUAL, A->id, f->id, x->id, r->id, x->version, 0);
  r->defined = 1; r->version++;
}
static V tr_inner(const vec *x, const vec *y)
{
  TYPESTATE(x->defined && y->defined, "inner_product reads defined vectors");
  const V t = nondet_V();       /* the value of <x, y>: an opaque token */
  push(T_INNER, 0, x->id, y->id, 0, y->version, t);
  return t;
}
/* y = sum_j c_j v_j + alpha y */
static void tr_lin_comb(size_t n, const V *c, size_t c_n, vec *const *v, size_t v_n, V alpha, vec *y)
{
  TYPESTATE(n <= c_n && n <= v_n, "lin_comb: n coefficients and n vectors exist");
  TYPESTATE(y->defined || math_is_zero(alpha), "lin_comb reads y unless alpha is zero");
  for (size_t q = 0; q < NV; ++q) if (q < n && q < c_n && q < v_n) {
    TYPESTATE(v[q]->defined, "lin_comb reads defined vectors");
    g_lc_c[q] = c[q]; g_lc_v[q] = v[q]->id;
  }
  g_lc_n = n; g_lc_alpha = alpha;
  push(T_LINCOMB, 0, 0, 0, y->id, y->version, alpha);
  y->defined = 1; y->version++;
}
/* x = P f */
static void tr_apply(const obj *P, const vec *f, vec *x)
{
  TYPESTATE(f->defined, "the preconditioner reads a defined right-hand side");
  push(T_APPLY, P->id, f->id, x->id, 0, f->version, 0);
  x->defined = 1; x->version++;
}
typedef struct solve_result { size_t iters; V resid; } solve_result;
/* S(A | P-system, precond, rhs, x): the iterative solver, x is initial approximation and result */
static solve_result tr_solve(const obj *S, int Aid, const void *precond, const vec *rhs, vec *x)
{
  TYPESTATE(rhs->defined && x->defined, "the iterative solver reads rhs and the initial approximation x");
  push(T_SOLVE, S->id, Aid, rhs->id, x->id, x->version, 0);
  (void)precond;
  x->version++;
  solve_result res; res.iters = nondet_ushort(); res.resid = g_solve_ret;
  return res;
}
static void std_fill(V *first, V *last, V v) { for (V *p = first; p != last; ++p) *p = v; }
#define residual(f, A, x, r) tr_residual(&(f), (A), &(x), &(r))
#define inner_product(x, y) tr_inner(&(x), &(y))
#define lin_comb(n, c, v, alpha, y) tr_lin_comb((size_t)(n), (c), c##_n_of, (v), v##_n_of, alpha, &(y))
/* std::vector members passed as whole objects carry their logical length */
#define self_d self->d
#define self_d_n_of self->d_n
#define self_E self->E
#define self_E_n_of self->E_n
#define self_Z self->Z
#define self_Z_n_of self->Z_n
#define REQUIRES_(c) __CPROVER_assume(c)
#ifdef CXC_CANARY
#define ENSURES(c, msg) ((void)0)
#else
#define ENSURES(c, msg) __CPROVER_assert(c, "ensures: " msg)
#endif

static void f_project(deflated *self, const vec *b_p, vec *x_p)
{
#define b (*b_p)
#define x (*x_p)
/*@CUT:project@*/
#undef b
#undef x
}
#define project(b_, x_) f_project(self, &(b_), &(x_))
static void f_apply(deflated *self, const vec *rhs_p, vec *x_p)
{
#define rhs (*rhs_p)
#define x (*x_p)
/*@CUT:apply@*/
#undef rhs
#undef x
}
static solve_result f_solve(deflated *self, const vec *rhs_p, vec *x_p)
{
#define rhs (*rhs_p)
#define x (*x_p)
/*@CUT:solve@*/
#undef rhs
#undef x
}
static solve_result f_solve_A(deflated *self, const mat *A_p, const vec *rhs_p, vec *x_p)
{
#define A (*A_p)
#define rhs (*rhs_p)
#define x (*x_p)
/*@CUT:solveA@*/
#undef A
#undef rhs
#undef x
}
int w_nvec, w_mode;
/* contract (enforced by the harness below), MODE 0 project(b, x), 1 apply(rhs, x), 2 operator()(rhs, x), 3 operator()(A, rhs, x):
 *   requires  1 <= nvec <= NV; Z[0..nvec) defined; E has nvec^2 cells; b defined; x defined (apply: x is output only);
 *             r and d hold whatever earlier calls left (scratch)
 *   ensures   project = exactly  r = b - A x;  f_j = <Z_j, r> (j ascending, Z_j first);  d_i = sum_j E[i*nvec+j] * f_j folded from zero, j ascending;
 *             lin_comb(nvec, d, Z, 1, x), i.e.  x += sum_i d_i Z_i  ("x += Z^T E^{-1} Z (b - Ax)", E holding the inverted Z A Z^T);
 *             apply = P.apply(rhs, x) then that projection;  operator() = that projection, then the iterative solver preconditioned by
 *             *this started from the projected x, its result returned;  E, Z, prm unchanged                                          */
void h_deflated(void)
{
  deflated me; deflated *self = &me;
#ifdef NVEC
  int nvec = NVEC;      /* the number of deflation vectors is fixed per variant (every value up to the bound is enumerated): a symbolic nvec makes
                           the row-major index i*nvec+j a symbolic product and the SAT instance explode (measured: out of memory at NV = 5) */
#else
  int nvec = nondet_ushort() & 7;
#endif
  REQUIRES_(1 <= nvec && nvec <= NV);
  vec zs[NV], r, b, x; mat A;
  self->prm.nvec = nvec; self->n = nondet_ushort(); self->P.id = 31; self->Pmat.id = 11; self->S.id = 32; A.id = 12;
  self->r = &r; r.id = 3; r.version = nondet_ushort(); r.defined = nondet_ushort() & 1;
  b.id = 1; b.defined = 1; b.version = nondet_ushort();
  x.id = 2; x.version = nondet_ushort(); x.defined = (MODE == 1) ? (nondet_ushort() & 1) : 1;
  V E0[NV * NV];
  for (int q = 0; q < NV; ++q) { zs[q].id = 20 + q; zs[q].defined = 1; zs[q].version = nondet_ushort(); self->Z[q] = &zs[q]; self->d[q] = nondet_V(); }
  for (int q = 0; q < NV * NV; ++q) { self->E[q] = nondet_V(); E0[q] = self->E[q]; }
  self->Z_n = (size_t)nvec; self->E_n = (size_t)nvec * nvec; self->d_n = (size_t)nvec;
  REQUIRES_(math_is_zero(MATH_zero(V)) && !math_is_zero(UF_CONST(1)));
  w_nvec = nvec; w_mode = MODE;
  const unsigned long xv0 = x.version;
  solve_result res; res.iters = 0; res.resid = 0;
  g_solve_ret = nondet_V();
  if (MODE == 0) f_project(self, &b, &x);
  else if (MODE == 1) f_apply(self, &b, &x);
  else if (MODE == 2) res = f_solve(self, &b, &x);
  else res = f_solve_A(self, &A, &b, &x);
  const unsigned base = (MODE == 1) ? 1 : 0;      /* events before the projection */
  const unsigned tail = (MODE >= 2) ? 1 : 0;      /* events after it */
  ENSURES(g_nev == base + (unsigned)nvec + 2 + tail, "deflated_solver: exactly one residual, nvec inner products, one lin_comb (plus P.apply before / the solver after)");
  if (MODE == 1) ENSURES(g_ev[0].kind == T_APPLY && g_ev[0].o == 31 && g_ev[0].v1 == 1 && g_ev[0].v2 == 2, "apply: x = P rhs first");
  ENSURES(g_ev[base].kind == T_RESIDUAL && g_ev[base].o == 11 && g_ev[base].v1 == 1 && g_ev[base].v2 == 2 && g_ev[base].v3 == 3 && g_ev[base].ver == xv0 + base,
          "projection: r = b - A x with the system matrix of the preconditioner and the incoming x");
  _Bool ips = 1, coefs = 1, vecs = 1;
  for (int j = 0; j < NV; ++j) if (j < nvec) {
    const ev e = g_ev[base + 1 + j];
    if (!(e.kind == T_INNER && e.v1 == 20 + j && e.v2 == 3)) ips = 0;
  }
  ENSURES(ips, "projection: f_j = inner_product(Z_j, r) for j = 0 .. nvec-1 in order, deflation vector first, on the residual just computed");
  for (int i = 0; i < NV; ++i) if (i < nvec) {
    V acc = MATH_zero(V);
    for (int j = 0; j < NV; ++j) if (j < nvec) acc = UF_ADD(acc, UF_MUL(E0[i * nvec + j], g_ev[base + 1 + j].s));
    if (g_lc_c[i] != acc) coefs = 0;
    if (g_lc_v[i] != 20 + i) vecs = 0;
  }
  const ev lc = g_ev[base + 1 + nvec];
  ENSURES(lc.kind == T_LINCOMB && lc.v3 == 2 && g_lc_n == (size_t)nvec && g_lc_alpha == UF_CONST(1) && vecs,
          "projection: x = sum_i d_i Z_i + 1 * x over exactly the nvec deflation vectors in order");
  ENSURES(coefs, "projection: d_i = sum_j E[i*nvec + j] * f_j, folded from zero with j ascending (d = E f, E = inverse of Z A Z^T)");
  if (MODE >= 2) {
    const ev sv = g_ev[base + 2 + nvec];
    ENSURES(sv.kind == T_SOLVE && sv.o == 32 && sv.v1 == (MODE == 3 ? 12 : 0) && sv.v2 == 1 && sv.v3 == 2 && sv.ver == xv0 + 1,
            "operator(): the iterative solver runs after the projection, on rhs and the projected x (with the given matrix or the preconditioner's)");
    ENSURES(res.resid == g_solve_ret, "operator(): the solver's (iterations, residual) pair is returned");
  }
  _Bool same = self->prm.nvec == nvec && self->Z_n == (size_t)nvec && self->E_n == (size_t)nvec * nvec && b.defined && b.id == 1;
  for (int q = 0; q < NV * NV; ++q) if (self->E[q] != E0[q]) same = 0;
  for (int q = 0; q < NV; ++q) if (self->Z[q] != &zs[q] || !zs[q].defined) same = 0;
  ENSURES(same && x.defined, "frame: E, Z, nvec and the right-hand side are not modified; x is defined on return");
  CANARY("harness.end");
}
"""
DEFL_MEMBERS = member_rules(['prm', 'n', 'P', 'S', 'r', 'Z', 'E', 'd'])
project_cut = Cut(
    DEFL, r'void project\(const Vec1 &b, Vec2 &x\) const\s*(?=\{)',
    rules=[Rule(r'^(\s*)([\w\[\]>.*+-]+) ([-+*/])= (?P<e>[^;]+);', r'\1\2 = \2 \3 (\g<e>);', '+', why='R-compound a op= e -> a = a op (e)'),
           Rule(r'\bauto (\w+) = inner_product', r'const V \1 = inner_product', None, why='R-auto (scalar)')]
    + DEFL_MEMBERS + [
        Rule(r'self->P\.system_matrix\(\)', '(&self->Pmat)', None, why='member call: the matrix the preconditioner was built for'),
        Rule(r'self->d\.begin\(\)', 'self->d', None, why='R-vec'), Rule(r'self->d\.end\(\)', '(self->d + self->d_n)', None, why='R-vec'),
        Rule(r'\blin_comb\((?P<n>[^,]+), self->(\w+), self->(\w+),', r'lin_comb(\g<n>, self_\2, self_\3,', None, why='std::vector arguments carry their logical length'),
        UFArgs(r'lin_comb', None, skip=(0, 1, 2, 4)),
        IdxRule(r'self->Z', 'self->Z_n', None), IdxRule(r'self->E', 'self->E_n', None), IdxRule(r'self->d', 'self->d_n', None),
    ],
    uf=[UF(r'self->d\[[^;=]*\]\s*=\s*(?P<e>[^;]+);', None)])

apply_cut = Cut(DEFL, r'void apply\(const Vec1 &rhs, Vec2 &&x\) const\s*(?=\{)',
                rules=DEFL_MEMBERS + [Rule(r'self->P\.apply\((\w+), (\w+)\);', r'tr_apply(&self->P, &(\1), &(\2));', None, why='member call -> C call')])
solve_cut = Cut(DEFL, r'std::tuple<size_t, scalar_type> operator\(\)\(const Vec1 &rhs, Vec2 &&x\) const\s*(?=\{)',
                rules=DEFL_MEMBERS + [Rule(r'\bS\(\*this, (\w+), (\w+)\)', r'tr_solve(&self->S, 0, self, &(\1), &(\2))', None, why='functor call -> C call')])
solveA_cut = Cut(DEFL, r'std::tuple<size_t, scalar_type> operator\(\)\(\s*const Matrix &A, const Vec1 &rhs, Vec2 &&x\) const\s*(?=\{)',
                 rules=DEFL_MEMBERS + [Rule(r'\bS\((\w+), \*this, (\w+), (\w+)\)', r'tr_solve(&self->S, (\1).id, self, &(\2), &(\3))', None, why='functor call -> C call')])
deflated = Unit(
    name='deflated_project', props=['C18', 'C10'],
    functions=['deflated_solver::project(b, x)', 'deflated_solver::apply(rhs, x)', 'deflated_solver::operator()(rhs, x)', 'deflated_solver::operator()(A, rhs, x)'],
    desc='A-DEF2 projection as an exact call sequence: r = b - A x; f_j = <Z_j, r>; d = E f (row-major E, folded from zero); x += sum_i d_i Z_i; '
         'apply() = P.apply then the projection; operator() = the projection, then the iterative solver preconditioned by *this on the projected x',
    cuts={'project': project_cut, 'apply': apply_cut, 'solve': solve_cut, 'solveA': solveA_cut},
    template=DEFL_T, entry='h_deflated', mode='unwound', unwind='NV*NV+2', model='uf',
    variants=[{'NV': 5, 'NVEC': k, 'MODE': m} for k in (1, 2, 3, 4, 5) for m in (0, 1, 2, 3)] + [{'NV': 2, 'MODE': 0}],
    thorough_variants=[{'NV': 8, 'NVEC': k, 'MODE': m} for k in (1, 2, 3, 4, 5, 6, 7, 8) for m in (0, 1, 2, 3)] + [{'NV': 3, 'MODE': m} for m in (0, 1, 2, 3)],
    bound_text='every number of deflation vectors nvec = 1..5 (the range of the property; one variant per nvec and entry point: project, apply, both operator()), plus symbolic nvec <= 2 for project (thorough: nvec = 1..8, symbolic nvec <= 3); everything else (vector contents, E, scalars) symbolic / uninterpreted',
    assumptions=['A-bound: nothing is claimed beyond the stated number of deflation vectors',
                 'A-abs: backend::residual / inner_product / lin_comb, P.apply and the iterative solver S are recording stubs with typestate obligations (their functional contracts are C07 / C01 / C02)',
                 'A-uf: scalars are opaque 16-bit tokens, + and * uninterpreted (the statement holds for every scalar type); only is_zero(0) and !is_zero(1) are assumed',
                 'A-E: E holds the inverse of Z A Z^T as init() left it (dense inverse: floating point, not under contract)',
                 'A-vec: std::vector members d, E, Z are fixed-capacity arrays with a logical length'],
    replay='composite', timeout=300, witness=['w_nvec', 'w_mode'],
    not_decided=['init(): E = (Z A Z^T)^-1 (dense inverse in floating point)', 'orthogonality of the projected residual to the deflation vectors (real-number statement given exact E)',
                 'that the solver returns the solution of the original system (convergence)', 'more deflation vectors than the bound'],
)


# =====================================================================================================
# 4. cpr::partial_update / update_transfer (scalar instantiation): call level, provenance of S and Fpp
# =====================================================================================================
PU_T = r"""
#include <stddef.h>
#define CXC_NO_VALUES 1
int g_thrown;
#ifdef CXC_CANARY
#define CANARY(name) __CPROVER_assert(0, "canary " name)
#define ENSURES(c, msg) ((void)0)
#else
#define CANARY(name) ((void)0)
#define ENSURES(c, msg) __CPROVER_assert(c, "ensures: " msg)
#endif
/* provenance view: every object carries the id of what it was built from and how */
enum { H_NONE = 0, H_INPUT, H_BUILTIN_COPY, H_SPRECOND, H_FSP_FPP, H_FSP_APP, H_BACKEND_COPY };
typedef struct mat { int how; const struct mat *from; int flag; } mat;
typedef struct obj { int how; const mat *from; } obj;
typedef struct cpr_params { int block_size; size_t active_rows; int sprecond; } cpr_params;
/* members of cpr<> in declaration order: prm; n, np; P, S; Fpp, Scatter; rs, rp, xp (the work vectors are not touched here) */
typedef struct cpr { cpr_params prm; size_t n, np; obj *P, *S; mat *Fpp, *Scatter; } cpr;
typedef mat build_matrix; typedef int backend_params;
static mat g_pool[4]; static int g_npool; static obj g_opool[2]; static int g_nopool;
int g_fsp_calls, g_sprecond_calls, g_order_ok = 1;
static mat *new_mat(int how, const mat *from, int flag) { mat *m = &g_pool[g_npool < 4 ? g_npool : 3]; g_npool++; m->how = how; m->from = from; m->flag = flag; return m; }
/* std::make_shared<build_matrix>(K): copy of the user's matrix in the builtin format */
static mat *mk_builtin_copy(const mat *K) { return new_mat(H_BUILTIN_COPY, K, 0); }
/* std::make_shared<SPrecond>(K, prm.sprecond, bprm) */
static obj *mk_sprecond(const mat *K, int prm, backend_params bprm) { (void)prm; (void)bprm; obj *o = &g_opool[g_nopool < 2 ? g_nopool : 1]; g_nopool++; g_sprecond_calls++; o->how = H_SPRECOND; o->from = K; return o; }
typedef struct fsp_result { mat *fpp, *App; } fsp_result;
/* first_scalar_pass(K, get_app): contract of unit cpr_first_scalar_pass -- Fpp is a function of K alone (whatever get_app), App only with get_app */
static fsp_result first_scalar_pass(cpr *self, const mat *K, _Bool get_app)
{
  (void)self; g_fsp_calls++;
  fsp_result r; r.fpp = new_mat(H_FSP_FPP, K, get_app); r.App = get_app ? new_mat(H_FSP_APP, K, 1) : 0;
  return r;
}
#define GET0(r) ((r).fpp)
static mat *copy_matrix(const mat *m, backend_params bprm) { (void)bprm; return new_mat(H_BACKEND_COPY, m, 0); }
#define SCALAR_TAG 1
static void f_update_transfer(cpr *self, const mat *K, const backend_params bprm, int tag)
{
  (void)tag;
/*@CUT:transfer@*/
}
#define update_transfer(K, bprm, tag) f_update_transfer(self, K, bprm, tag)
static void f_partial_update(cpr *self, const mat *K_p, _Bool update_transfer_ops, const backend_params bprm)
{
#define K (*K_p)
/*@CUT:body@*/
#undef K
}
/* contract (enforced by the harness below):
 *   ensures  S is a NEW global preconditioner built from a builtin copy of the given K (exactly one construction);
 *            update_transfer_ops: Fpp = backend copy of first_scalar_pass(that copy, .).fpp, exactly one pass (Fpp does not depend on get_app: unit cpr_first_scalar_pass);
 *            otherwise Fpp is the old object; P (pressure preconditioner), Scatter, prm, n are the old objects in both cases
 *   hence    with an unchanged matrix K: S and Fpp are rebuilt from the same data by the same functions, P and Scatter are kept */
_Bool nondet_bool(void); int nondet_int(void);
void h_partial_update(void)
{
  cpr me; cpr *self = &me;
  mat K, Fpp0, Scatter0; obj P0, S0;
  K.how = H_INPUT; K.from = 0; K.flag = 0;
  self->P = &P0; self->S = &S0; self->Fpp = &Fpp0; self->Scatter = &Scatter0;
  self->prm.block_size = nondet_int(); self->prm.sprecond = nondet_int(); self->n = 7; self->np = 3;
  const cpr_params prm0 = self->prm;
  const _Bool flag = nondet_bool();
  f_partial_update(self, &K, flag, 0);
  ENSURES(g_sprecond_calls == 1 && self->S != &S0 && self->S->how == H_SPRECOND && self->S->from != 0
          && self->S->from->how == H_BUILTIN_COPY && self->S->from->from == &K,
          "partial_update: the global preconditioner S is rebuilt (once) from a builtin copy of the given matrix");
  if (flag) {
    ENSURES(g_fsp_calls == 1 && self->Fpp != &Fpp0 && self->Fpp->how == H_BACKEND_COPY && self->Fpp->from != 0 && self->Fpp->from->how == H_FSP_FPP
            && self->Fpp->from->from == self->S->from,
            "partial_update(update_transfer_ops): Fpp is the backend copy of first_scalar_pass(K copy, .).fpp of the same matrix S was built from");
  } else {
    ENSURES(g_fsp_calls == 0 && self->Fpp == &Fpp0, "partial_update(no transfer update): Fpp is kept");
  }
  ENSURES(self->P == &P0 && self->Scatter == &Scatter0 && self->n == 7 && self->prm.block_size == prm0.block_size
          && self->prm.sprecond == prm0.sprecond && self->prm.active_rows == prm0.active_rows,
          "partial_update: the pressure preconditioner P, Scatter, n and prm are kept");
  ENSURES(g_npool <= 4 && g_nopool <= 2, "bound artefact: object pool");
  CANARY("harness.end");
}
"""
PU_MEMBERS = member_rules(['prm', 'n', 'np', 'P', 'S', 'Fpp', 'Scatter'])
pu_cut = Cut(CPR, r'void partial_update\(\s*const Matrix &K,\s*bool update_transfer_ops = true,\s*const backend_params &bprm = backend_params\(\)\s*\)\s*(?=\{)',
             rules=[Rule(r'std::integral_constant<bool, math::static_rows<value_type>::value == 1>\(\)', 'SCALAR_TAG', None, early=True,
                         why='tag dispatch: scalar instantiation (static_rows<value_type> == 1)'),
                    Rule(r'auto (\w+) = std_make_shared<build_matrix>\((\w+)\);', r'mat *\1 = mk_builtin_copy(&(\2));', None, why='R-auto / make_shared'),
                    Rule(r'std_make_shared<SPrecond>\(', 'mk_sprecond(', None, why='make_shared')] + PU_MEMBERS)
ut_cut = Cut(CPR, r'void update_transfer\(std::shared_ptr<build_matrix> K, const backend_params bprm, std::true_type\)\s*(?=\{)',
             rules=[Rule(r'auto (\w+) = std_get<0>\(first_scalar_pass\(', r'mat *\1 = GET0(first_scalar_pass(self, ', None, why='R-auto / std::get<0> / member call'),
                    Rule(r'backend_type_p::copy_matrix\(', 'copy_matrix(', None, why='R-ns')] + PU_MEMBERS)
cpr_partial = Unit(
    name='cpr_partial_update', props=['C18', 'C10'],
    functions=['preconditioner::cpr::partial_update(K, update_transfer_ops, bprm)', 'preconditioner::cpr::update_transfer(K, bprm, std::true_type)'],
    desc='partial update of CPR (scalar instantiation): S is rebuilt from the given matrix, Fpp = copy of first_scalar_pass(K, false).fpp when requested, '
         'P / Scatter / prm are kept; with cpr_first_scalar_pass (Fpp is a function of K alone) an update with an unchanged matrix leaves every operator of apply() unchanged',
    cuts={'body': pu_cut, 'transfer': ut_cut},
    template=PU_T, entry='h_partial_update', mode='unwound', unwind='2', model='none',
    bound_text='loop-free; all inputs symbolic (the only bound is the object pool of the harness)',
    assumptions=['A-abs: make_shared<build_matrix>, make_shared<SPrecond>, first_scalar_pass and copy_matrix are provenance-recording stubs (first_scalar_pass: unit cpr_first_scalar_pass)',
                 'A-det: SPrecond construction and first_scalar_pass are functions of their arguments (C10)',
                 'A-own: shared_ptr lifetimes are not modelled'],
    replay='composite', timeout=120,
    not_decided=['block-valued instantiation (update_transfer(..., std::false_type))', 'that the pressure preconditioner P built for the old matrix is still adequate (by design it is NOT updated)'],
)

UNITS = [cpr_fsp, schur_counts, schur_fill, schur_blocks, schur_scatter, deflated, cpr_partial]
