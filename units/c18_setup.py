"""C18, setup side of the composite preconditioners (bounded units):

  cpr_first_scalar_pass     amgcl/preconditioner/cpr.hpp  first_scalar_pass(K, get_app): for every cell the dense
                            (transposed) diagonal block -- ZERO where an entry is not stored -- is what `invert` sees,
                            its result lands in Fpp->val[ik .. ik+B), Fpp / App have the documented structure
  schur_init_blocks         amgcl/preconditioner/schur_pressure_correction.hpp  init(): Kuu, Kup, Kpu, Kpp with the idx
                            renumbering reassemble to K entry for entry, for every pressure mask
  schur_init_scatter        same function: x2u, x2p, u2x, p2x are the 0/1 gather / scatter matrices of the mask

Values are only moved in all three regions (the block inverse of CPR is a callee: recorded, not computed), so the
value model is "32-bit token" (MODEL_INT32 without arithmetic).  All units are `unwound` (bounded stand-ins)."""
import re
from cxc.extract import Cut, Rule, UF, Loop, IdxRule, ExtractError, match_close, _split_args
from cxc.unit import Unit
from _common import CRS_MEMBERS_C, CALL_RULES, crs_member_cuts, member_rules
from _relax_common import VEC_PRELUDE
from c08_kernels import DEFAULT_CLEAN_PTR, wit

CPR = 'amgcl/preconditioner/cpr.hpp'
SCHUR = 'amgcl/preconditioner/schur_pressure_correction.hpp'

A_SETUP = [
    'A-bound: nothing is claimed beyond the stated size bound',
    'A-std: std::partial_sum / std::min are prelude stubs; std::vector<T>(n) and multi_array<T,2>(B,B) are value-initialised (zero) fixed-capacity arrays with a logical length',
    'A-new: operator new[] never returns null; fresh arrays have nondeterministic content (every prior heap content)',
    'A-own: shared_ptr lifetimes are not modelled (make_shared -> plain allocation)',
    'A-omp: OpenMP pragmas dropped: the loop is executed by ONE thread in ascending order (the schedule in which the per-thread scratch is reused most often); other distributions of the iterations are not modelled',
    'A-iter: crs::row_iterator is the (col, end, val) pointer triple of builtin.hpp with its four members (operator bool, ++, col(), value()) as C macros',
    'A-token: values are 32-bit tokens (they are only moved by the code under contract); callee bodies crs::set_size/scan_row_sizes/set_nonzeros are inlined from /repo',
]


class CallIdx(object):
    """name(a, b) -> name[FMT(a, b)]: operator() of a small dense array turned into a checked subscript.
    Keyed on the call syntax only (whatever the arguments say)."""
    early = False

    def __init__(self, name, fmt, count='+'):
        self.name, self.fmt, self.count = name, fmt, count
        self.pat = 'CallIdx ' + name

    def apply(self, text, log, generic=False):
        pat = re.compile(r'(?<![\w.>])%s\s*\(' % self.name)
        out, i, n = [], 0, 0
        while True:
            m = pat.search(text, i)
            if not m:
                out.append(text[i:])
                break
            k = m.end() - 1
            e = match_close(text, k)
            args = [a.strip() for a in _split_args(text[k + 1:e])]
            out.append(text[i:m.start()] + '%s[%s(%s)]' % (self.name, self.fmt, ', '.join(args)))
            i = e + 1
            n += 1
        ok = (n >= 1) if self.count == '+' else (self.count is None or n == self.count)
        if not ok:
            raise ExtractError('CallIdx rule %r fired %d times, expected %s' % (self.name, n, self.count))
        log.append({'rule': 'R-callidx %s(i,j) -> %s[%s(i,j)]' % (self.name, self.name, self.fmt), 'fired': n})
        return ''.join(out)


# =====================================================================================================
# 1. cpr::first_scalar_pass
# =====================================================================================================
CPR_VIEW = r'''
#ifndef BS
#define BS 2
#endif
/* members of preconditioner::cpr<> that first_scalar_pass touches (declaration order: prm; n, np) */
typedef struct cpr_params { int block_size; size_t active_rows; } cpr_params;
typedef struct cpr { cpr_params prm; size_t n, np; } cpr;
typedef crs build_matrix, build_matrix_p;
typedef V scalar_type, value_type_p;
/* crs::row_iterator (builtin.hpp): m_col, m_end, m_val; operator bool, operator++, col(), value() */
typedef struct row_iterator { const col_type *m_col, *m_end; const val_type *m_val; } row_iterator;
static inline row_iterator crs_row_begin(const crs *A, size_t row)
{
  const ptr_type p = A->ptr[IDX(row, A->nrows + 1, "A.ptr")], e = A->ptr[IDX(row + 1, A->nrows + 1, "A.ptr")];
  row_iterator it; it.m_col = A->col + p; it.m_end = A->col + e; it.m_val = A->val + p;
  return it;
}
#define row_begin(A, r) crs_row_begin(&(A), (size_t)(r))
#define RI_OK(it) ((it).m_col < (it).m_end)
#define RI_COL(it) (*(it).m_col)
#define RI_VAL(it) (*(it).m_val)
#define RI_INC(it) (++(it).m_col, ++(it).m_val)
/* std::vector<row_iterator> k: capacity BS, logical length k_n */
#define KPUSH(x) (k_n < BS ? (void)(k[k_n] = (x), k_n++) : (void)(g_cap_exceeded = 1))
/* multi_array<scalar_type, 2> v(B, B) (util.hpp): buf.resize(B*B) value-initialised, operator()(i,j) = buf[B*i + j] */
static void multi_array2_init(V *buf, int n0, int n1)
{
  if (!(n0 >= 0 && n1 >= 0 && n0 * n1 <= BS * BS)) g_cap_exceeded = 1;
  for (int q = 0; q < BS * BS; ++q) buf[q] = 0;
}
#define MA2(i, j) IDX((ptrdiff_t)B * (i) + (j), (size_t)B * B, "v")
typedef struct fsp_result { crs *fpp, *App; } fsp_result;
static inline fsp_result mk_fsp_result(crs *fpp, crs *App) { fsp_result r; r.fpp = fpp; r.App = App; return r; }

/* ---- callee stub: cpr::invert(A, y).  "Inverts dense matrix A; returns the first column of the inverted matrix":
 * LU in place (A is overwritten), y[0..B) written.  The stub records what it is given and where it writes,
 * hands out fresh uninterpreted results, and leaves arbitrary LU leftovers in A.                               */
#define CAP_CALLS 4
int g_inv_n; V g_inv_A[CAP_CALLS][BS * BS]; V *g_inv_y[CAP_CALLS]; V g_inv_out[CAP_CALLS][BS];
static V nondet_V(void) { return nondet_uchar(); }   /* fresh result token */
static void invert(cpr *self, V *A, V *y)
{
  (void)self;
  for (int q = 0; q < BS; ++q) {
    const V t = nondet_V();
    if (g_inv_n < CAP_CALLS) g_inv_out[g_inv_n][q] = t;
    y[q] = t;
  }
  for (int q = 0; q < BS * BS; ++q) {
    if (g_inv_n < CAP_CALLS) g_inv_A[g_inv_n][q] = A[q];
    A[q] = nondet_V();
  }
  if (g_inv_n < CAP_CALLS) g_inv_y[g_inv_n] = y;
  g_inv_n++;
}
'''

NARROW_INPUT = r'''
/* symbolic input matrix built from narrow nondeterministic cells: the same input space as crs_input() + crs_wf
 * (every well-formed matrix within the bound is generated), but the high bits of sizes / row pointers / columns are
 * structurally zero, which keeps SAT small.  Values: tokens 0..255 (only moved and compared for equality; the units
 * have fewer than 256 value cells, so every equality pattern between them is still realised).                      */
#define IMASK 15
unsigned char nondet_uchar(void);
static crs *crs_input_tok(void)
{
  crs *a = crs_input();
  __CPROVER_assert(NMAX <= IMASK && ZMAX <= IMASK, "bound artefact: narrow input generator covers the variant bound");
  a->nrows = nondet_uchar() & IMASK; a->ncols = nondet_uchar() & IMASK; a->nnz = nondet_uchar() & IMASK;
  for (size_t i = 0; i < CAP_PTR; ++i) a->ptr[i] = nondet_uchar() & IMASK;
  for (size_t j = 0; j < CAP_NNZ; ++j) { a->col[j] = nondet_uchar() & IMASK; a->val[j] = nondet_uchar(); }
  return a;
}
'''

CPR_SPEC = r'''
/* the stored entry (i,j) of K, ZERO if (i,j) is not stored (rows strictly ascending: at most one such entry) */
static V K_entry(const crs *K, size_t i, size_t j)
{
  V s = 0;
  for (size_t q = 0; q < CAP_NNZ; ++q)
    if ((ptrdiff_t)q >= K->ptr[i] && (ptrdiff_t)q < K->ptr[i + 1] && (size_t)K->col[q] == j) s = K->val[q];
  return s;
}
/* block row ip of K has a stored entry in block column jp (columns below N only) */
static _Bool K_has_block(const crs *K, size_t ip, size_t jp, size_t N)
{
  for (size_t i = 0; i < BS; ++i)
    for (size_t q = 0; q < CAP_NNZ; ++q)
      if ((ptrdiff_t)q >= K->ptr[ip * BS + i] && (ptrdiff_t)q < K->ptr[ip * BS + i + 1]
          && (size_t)K->col[q] < N && (size_t)K->col[q] / BS == jp) return 1;
  return 0;
}
#define NPMAX (NMAX / BS)
/* number of recorded invert calls whose output pointer is &fpp->val[ip*BS]; *which = the last such call */
static int calls_for_cell(const crs *fpp, size_t ip, int *which)
{
  int c = 0;
  for (int q = 0; q < CAP_CALLS; ++q) if (q < g_inv_n && g_inv_y[q] == fpp->val + ip * BS) { c++; *which = q; }
  return c;
}
static _Bool post_fpp_structure(const crs *fpp, size_t np, size_t N)
{
  if (!(fpp->nrows == np && fpp->ncols == N && fpp->nnz == N && fpp->ptr[0] == 0)) return 0;
  for (size_t ip = 0; ip < NPMAX; ++ip) if (ip < np) { if (fpp->ptr[ip + 1] != (ptr_type)((ip + 1) * BS)) return 0; }
  for (size_t q = 0; q < NMAX; ++q) if (q < np * BS) { if (fpp->col[q] != (col_type)q) return 0; }
  return 1;
}
static _Bool post_one_call_per_cell(const crs *K, const crs *fpp, size_t np, size_t N)
{
  int expected = 0;
  for (size_t ip = 0; ip < NPMAX; ++ip) if (ip < np) {
    int w = 0;
    const int c = calls_for_cell(fpp, ip, &w);
    if (K_has_block(K, ip, ip, N)) { expected++; if (c != 1) return 0; }
    else if (c != 0) return 0;
  }
  return g_inv_n == expected;      /* no call with any other output pointer */
}
static _Bool post_block_seen_by_invert(const crs *K, const crs *fpp, size_t np, size_t N)
{
  for (size_t ip = 0; ip < NPMAX; ++ip) if (ip < np && K_has_block(K, ip, ip, N)) {
    int w = 0;
    if (calls_for_cell(fpp, ip, &w) < 1) return 0;
    for (size_t r = 0; r < BS; ++r) for (size_t c = 0; c < BS; ++c)
      if (g_inv_A[w][r * BS + c] != K_entry(K, ip * BS + c, ip * BS + r)) return 0;      /* transposed block, zero where not stored */
  }
  return 1;
}
static _Bool post_fpp_values(const crs *K, const crs *fpp, size_t np, size_t N)
{
  for (size_t ip = 0; ip < NPMAX; ++ip) if (ip < np && K_has_block(K, ip, ip, N)) {
    int w = 0;
    if (calls_for_cell(fpp, ip, &w) < 1) return 0;
    for (size_t i = 0; i < BS; ++i) if (fpp->val[ip * BS + i] != g_inv_out[w][i]) return 0;
  }
  return 1;
}
static _Bool post_app_rows(const crs *K, const crs *App, size_t np, size_t N)
{
  if (!(App->nrows == np && App->ncols == np && App->ptr[0] == 0)) return 0;
  for (size_t ip = 0; ip < NPMAX; ++ip) if (ip < np) {
    ptr_type cnt = 0;
    for (size_t jp = 0; jp < NPMAX; ++jp) if (jp < np && K_has_block(K, ip, jp, N)) cnt++;
    if (App->ptr[ip + 1] - App->ptr[ip] != cnt) return 0;
  }
  return App->nnz == (size_t)App->ptr[np] && App->col != 0 && App->val != 0;
}
'''

FSP_RULES = (
    [Rule(r'^\s*typedef typename backend::row_iterator<build_matrix>::type row_iterator;\n', '', 1, early=True,
          why='row_iterator is the C view of crs::row_iterator (A-iter)'),
     Rule(r'auto fpp = std_make_shared<build_matrix_p>\(\);', 'crs *fpp = crs_new();', 1, why='R-auto / make_shared'),
     Rule(r'std_shared_ptr<build_matrix_p> App;', 'crs *App = 0;', 1, why='empty shared_ptr'),
     Rule(r'\bApp = std_make_shared<build_matrix>\(\);', 'App = crs_new();', 1, why='make_shared'),
     Rule(r'std_make_tuple\(', 'mk_fsp_result(', 1, why='R-tuple')]
    + CALL_RULES + [DEFAULT_CLEAN_PTR]
    + [  # std::vector<row_iterator> k and the iterator protocol (syntax only: whatever the operands say)
        Rule(r'\b(k\[\w+\]|k\.back\(\))\.col\(\)', r'RI_COL(\1)', '+', why='R-iter col()'),
        Rule(r'\b(k\[\w+\]|k\.back\(\))\.value\(\)', r'RI_VAL(\1)', '+', why='R-iter value()'),
        Rule(r'\+\+(k\[\w+\])', r'RI_INC(\1)', '+', why='R-iter operator++'),
        Rule(r'(?<![\w.])(k\[\w+\]|k\.back\(\))(?=\s*(?:&&|\|\|))', r'RI_OK(\1)', '+', why='R-iter operator bool'),
        Rule(r'\bk\.back\(\)', 'k[k_n - 1]', None, why='R-vec back()'),
        Rule(r'\bk\.clear\(\);', 'k_n = 0;', None, why='R-vec clear()'),
        Rule(r'\bk\.push_back\((.*)\);', r'KPUSH(\1);', None, why='R-vec push_back'),
        IdxRule(r'k', 'k_n', '+'),
        Rule(r'std_vector<row_iterator> k; k\.reserve\((\w+)\);', r'row_iterator k[BS]; size_t k_n = 0; cxc_reserve(\1);', 1,
             why='R-vec local: capacity BS, logical length k_n'),
        # multi_array<scalar_type, 2> v(B, B)
        Rule(r'multi_array<scalar_type, 2> v\((\w+), (\w+)\);', r'V v[BS * BS]; multi_array2_init(v, \1, \2);', 1, why='R-multi_array'),
        Rule(r'\bv\.data\(\)', 'v', None, why='R-multi_array data()'),
        CallIdx('v', 'MA2', '+'),
        Rule(r'\binvert\(', 'invert(self, ', None, why='member call -> C call'),
    ]
    + member_rules(['prm', 'n', 'np'])
    + [IdxRule(r'fpp->col|fpp->val', 'fpp->nnz', '+'),
       IdxRule(r'fpp->ptr', 'fpp->nrows + 1', '+'),
       IdxRule(r'App->ptr', 'App->nrows + 1', '+')])

FSP_T = ('#define MODEL_INT32 1\n#define CAP_NNZ ((ZMAX > NMAX ? ZMAX : NMAX) + 1)   /* Fpp holds N <= n entries */\n' + VEC_PRELUDE + CRS_MEMBERS_C + NARROW_INPUT + CPR_VIEW + CPR_SPEC + r'''
WITNESS_CRS(K)
int w_bs, w_get_app; size_t w_active_rows;
/* contract (enforced by the harness below):
 *   requires  K square, well-formed, rows strictly ascending (no duplicate entry); block_size B = BS;
 *             N = active_rows ? active_rows : n, N <= n, B divides N; np holds anything
 *   assigns   self->np; fresh matrices only
 *   ensures   np == N/B; Fpp is np x N with row ip = columns ip*B .. ip*B+B-1;
 *             for every cell ip whose diagonal block has a stored entry: invert is called exactly once with
 *             A(r,c) == K(ip*B+c, ip*B+r) where stored and ZERO elsewhere and y == &Fpp->val[ip*B]; no other call;
 *             Fpp->val[ip*B+i] is what that call returned;
 *             get_app: App is np x np, row ip sized to the number of distinct block columns (< N/B) of block row ip;
 *             !get_app: no App;  K, prm, n unchanged                                                           */
fsp_result f_first_scalar_pass(cpr *self, crs *K, _Bool get_app)
{
/*@CUT:body@*/
}
void h_first_scalar_pass(void)
{
  crs *K = crs_input_tok();
  cpr me; cpr *self = &me;
  size_t ar, np0; _Bool get_app;
  REQUIRES(crs_wf(K, NMAX, NMAX, ZMAX) && K->nrows == K->ncols && crs_rows_sorted(K, 1));
  self->prm.block_size = BS; self->prm.active_rows = ar; self->n = K->nrows; self->np = np0;
  const size_t N = ar ? ar : K->nrows;
  REQUIRES(N <= K->nrows && N % BS == 0);
#ifdef DIAG_STORED
  for (size_t i = 0; i < NMAX; ++i) if (i < N) REQUIRES(count_in_row(K, i, i) == 1);
#endif
#ifdef ALL_CELLS
  REQUIRES(K->nrows == NMAX && ar == 0);     /* this variant: the largest size only, no trailing rows (the smaller ones are covered by its siblings) */
#endif
#ifdef FIRST_FULL
  /* sub-domain kept as its own variant for the sake of the witness: the stub leaves ARBITRARY leftovers in the scratch block,
   * the real LU leaves zeros where the previous block had none stored; with a fully coupled first cell every real leftover is
   * non-zero for generic values, so a counterexample of this variant is also numerically visible in the native replay */
  for (size_t i = 0; i < BS; ++i) for (size_t j = 0; j < BS; ++j) if (BS <= N) REQUIRES(count_in_row(K, i, j) == 1);
#endif
  MIRROR_CRS(K, K); w_bs = BS; w_get_app = get_app; w_active_rows = ar;
  crs_snap s; crs_snapshot(K, &s);
  const fsp_result R = f_first_scalar_pass(self, K, get_app);
  const size_t np = N / BS;
  ENSURES(!g_cap_exceeded, "bound artefact: allocation within verification capacity");
  ENSURES(self->np == np, "first_scalar_pass: np == N / block_size");
  ENSURES(R.fpp != 0 && post_fpp_structure(R.fpp, np, N), "first_scalar_pass: Fpp is np x N, row ip holds the columns ip*B .. ip*B+B-1, nnz == N");
  if (R.fpp != 0) {
  ENSURES(post_one_call_per_cell(K, R.fpp, np, N), "first_scalar_pass: invert is called exactly once per cell with a stored diagonal block, writing to &Fpp->val[ip*B], and never otherwise");
  ENSURES(post_block_seen_by_invert(K, R.fpp, np, N), "first_scalar_pass: the matrix handed to invert is the transposed dense diagonal block of the cell: v(r,c) == K(ik+c, ik+r) where stored, ZERO where not stored");
  ENSURES(post_fpp_values(K, R.fpp, np, N), "first_scalar_pass: Fpp->val[ik .. ik+B) holds what invert returned for that cell");
  }
  ENSURES(get_app ? (R.App != 0 && post_app_rows(K, R.App, np, N)) : R.App == 0,
          "first_scalar_pass: with get_app App is np x np and row ip has room for exactly the distinct block columns of block row ip; without get_app no App");
  ENSURES(crs_unchanged(K, &s) && self->prm.block_size == BS && self->prm.active_rows == ar && self->n == K->nrows,
          "frame: K, prm and n are not modified");
  CANARY("harness.end");
}
''')

cpr_fsp = Unit(
    name='cpr_first_scalar_pass', props=['C18', 'C10'],
    functions=['preconditioner::cpr::first_scalar_pass(K, get_app)', 'crs::set_size', 'crs::scan_row_sizes', 'crs::set_nonzeros'],
    desc='CPR transfer-operator / pressure-pattern pass: per cell the transposed dense diagonal block (zero where not stored) is '
         'handed to invert exactly once and its result stored in Fpp->val[ik..ik+B); Fpp and App have the documented structure',
    cuts=dict(crs_member_cuts(), body=Cut(
        CPR, r'first_scalar_pass\(std::shared_ptr<build_matrix> K, bool get_app = true\)\s*(?=\{)', rules=FSP_RULES)),
    template=FSP_T, entry='h_first_scalar_pass', mode='unwound', unwind='max(ZMAX,NMAX,BS*BS)+3', model='int32',
    variants=[{'NMAX': 4, 'ZMAX': 6, 'BS': 2, 'DIAG_STORED': 1, 'FIRST_FULL': 1}, {'NMAX': 5, 'ZMAX': 7, 'BS': 2, 'DIAG_STORED': 1}, {'NMAX': 5, 'ZMAX': 6, 'BS': 2}],
    # np = 3 (n = 6) is the smallest size at which a block row has three distinct block columns, i.e. at which the re-scan
    # "cur_col = std::min(cur_col, col)" after a processed block is distinguishable from std::max: thorough tier (measured 133 s)
    thorough_variants=[{'NMAX': 4, 'ZMAX': 6, 'BS': 2, 'DIAG_STORED': 1, 'FIRST_FULL': 1}, {'NMAX': 6, 'ZMAX': 4, 'BS': 2, 'ALL_CELLS': 1},
                       {'NMAX': 6, 'ZMAX': 8, 'BS': 2, 'DIAG_STORED': 1}, {'NMAX': 6, 'ZMAX': 6, 'BS': 2},
                       {'NMAX': 6, 'ZMAX': 7, 'BS': 3, 'DIAG_STORED': 1}, {'NMAX': 6, 'ZMAX': 6, 'BS': 3}],
    bound_text='block_size 2, n <= 5 (np <= 2 cells plus one trailing non-cell row), active_rows symbolic; nnz <= 7 with a stored diagonal, nnz <= 6 with any pattern; '
               'rows strictly ascending; values symbolic tokens (thorough: n <= 6 i.e. np <= 3, nnz <= 8 / 6; block_size 3, n <= 6, nnz <= 7 / 6)',
    assumptions=A_SETUP + ['A-sorted: the rows of K are in strictly ascending column order (cpr::init does not sort its copy of K; the multi-row merge of first_scalar_pass presupposes it)',
                           'A-invert: cpr::invert(A, y) is a callee: it may overwrite A (LU in place) and writes y[0..B); its arithmetic (LU without pivoting, triangular solves) is not under contract'],
    replay='composite', timeout=600,
    witness=wit('K') + ['w_bs', 'w_get_app', 'w_active_rows'],
    not_decided=['the floating-point block inverse itself (cpr::invert)', 'App values / columns (second pass of cpr::init)',
                 'cells whose diagonal block has no stored entry: invert is not called and Fpp->val of the cell stays uninitialised (singular block: outside the property)',
                 'rows with duplicate or unsorted columns', 'N not divisible by block_size', 'distribution of the cells over several OpenMP threads'],
)
cpr_fsp.unwindset = [(r'for\(ptrdiff_t ip = 0;', 'NMAX//BS+1'), (r'for\(int [ij] = 0; [ij] < B;', 'BS+1'),
                     (r'while \(!done\)', 'NMAX//BS+1'), (r'for\(; RI_OK', 'ZMAX+1'), (r'while\(RI_OK', 'ZMAX+1')]


# =====================================================================================================
# 2. schur_pressure_correction::init -- sub-block extraction and gather / scatter matrices
# =====================================================================================================
SCHUR_VIEW = r"""
/* members of schur_pressure_correction<> the two regions touch: prm.pmask (std::vector<char>), n, np, nu */
#define CAP_MASK (NMAX + 1)
typedef struct schur_params { char pmask[CAP_MASK]; size_t pmask_n; } schur_params;
typedef struct schur { schur_params prm; size_t n, np, nu; } schur;
typedef crs build_matrix;
char nondet_char(void);
int w_pmask[CAP_MASK];
/* idx as the first loop of init() leaves it: the rank of i among the unknowns of its own class (pressure / flow), counted
 * from the incoming np / nu = 0; nu, np = the class sizes.  Postcondition of schur_init_blocks, precondition of schur_init_scatter. */
static _Bool spec_idx(const char *pm, size_t n, const ptrdiff_t *idx, size_t nu, size_t np)
{
  size_t cu = 0, cp = 0;
  for (size_t i = 0; i < NMAX; ++i) if (i < n) {
    if (pm[i]) { if (idx[i] != (ptrdiff_t)cp) return 0; cp++; }
    else       { if (idx[i] != (ptrdiff_t)cu) return 0; cu++; }
  }
  return cu == nu && cp == np;
}
static void schur_input(schur *self, size_t n)
{
  self->n = n; self->prm.pmask_n = n;            /* pmask has one flag per unknown (params: pmask_size) */
  for (size_t i = 0; i < CAP_MASK; ++i) {
    char c = nondet_char();
#ifdef MASK
    /* the class of every unknown is fixed per variant (all 2^NMAX masks are enumerated); a pressure flag is any non-zero char */
    if ((MASK >> i) & 1) { if (c == 0) c = 1; } else c = 0;
#endif
    self->prm.pmask[i] = c; w_pmask[i] = c;
  }
}
"""

SCHUR_BLOCKS_SPEC = r"""
crs *g_blk[2][2];          /* [row class][column class]: Kuu Kup / Kpu Kpp */
ptrdiff_t g_idx[CAP_LOC]; size_t g_idx_n;
static _Bool post_block_shapes(size_t nu, size_t np)
{
  const size_t dim[2] = { nu, np };
  for (int a = 0; a < 2; ++a) for (int b = 0; b < 2; ++b) {
    const crs *M = g_blk[a][b];
    if (M == 0 || M->ptr == 0 || M->col == 0 || M->val == 0) return 0;
    if (!(M->nrows == dim[a] && M->ncols == dim[b])) return 0;
    if (!crs_wf(M, NMAX, NMAX, ZMAX) || M->nnz != (size_t)M->ptr[M->nrows]) return 0;
  }
  return 1;
}
/* K(i,j) lives in block [pmask[i]][pmask[j]] at (idx[i], idx[j]): same value (dense view) and the same number of stored copies */
static _Bool post_reassemble(const schur *self, const crs *K, _Bool values)
{
  for (size_t i = 0; i < NMAX; ++i) for (size_t j = 0; j < NMAX; ++j) if (i < K->nrows && j < K->nrows) {
    const crs *M = g_blk[self->prm.pmask[i] ? 1 : 0][self->prm.pmask[j] ? 1 : 0];
    if (values ? dense_get(M, (size_t)g_idx[i], (size_t)g_idx[j]) != dense_get(K, i, j)
               : count_in_row(M, (size_t)g_idx[i], (size_t)g_idx[j]) != count_in_row(K, i, j)) return 0;
  }
  return 1;
}
/* exact layout, entry by entry: the stored entry at position e of K (row i, column j) is found in block
 * [pmask[i]][pmask[j]], row idx[i], at the position given by its rank among the entries of row i of the same column class
 * (the order within a row is kept), with column idx[j] and the same value                                          */
static _Bool post_entry_layout(const schur *self, const crs *K, size_t e)
{
  for (size_t i = 0; i < NMAX; ++i) if (i < K->nrows && (ptrdiff_t)e >= K->ptr[i] && (ptrdiff_t)e < K->ptr[i + 1]) {
    const size_t j = (size_t)K->col[e];
    const int pj = self->prm.pmask[j] ? 1 : 0;
    const crs *M = g_blk[self->prm.pmask[i] ? 1 : 0][pj];
    ptrdiff_t rank = 0;
    for (size_t q = 0; q < CAP_NNZ; ++q)
      if ((ptrdiff_t)q >= K->ptr[i] && q < e && (self->prm.pmask[K->col[q]] ? 1 : 0) == pj) rank++;
    const ptrdiff_t pos = M->ptr[g_idx[i]] + rank;
    return pos < M->ptr[g_idx[i] + 1] && M->col[pos] == g_idx[j] && M->val[pos] == K->val[e];
  }
  return 0;
}
/* row idx[i] of the two blocks of i's row class holds exactly the entries of row i of K of the respective column class */
static _Bool post_row_lengths(const schur *self, const crs *K)
{
  for (size_t i = 0; i < NMAX; ++i) if (i < K->nrows)
    for (int c = 0; c < 2; ++c) {
      const crs *M = g_blk[self->prm.pmask[i] ? 1 : 0][c];
      ptrdiff_t cnt = 0;
      for (size_t q = 0; q < CAP_NNZ; ++q)
        if ((ptrdiff_t)q >= K->ptr[i] && (ptrdiff_t)q < K->ptr[i + 1] && (self->prm.pmask[K->col[q]] ? 1 : 0) == c) cnt++;
      if (M->ptr[g_idx[i] + 1] - M->ptr[g_idx[i]] != cnt) return 0;
    }
  return 1;
}
static _Bool post_blocks_sorted(void)
{
  for (int a = 0; a < 2; ++a) for (int b = 0; b < 2; ++b) if (!crs_rows_sorted(g_blk[a][b], 0)) return 0;
  return 1;
}
"""

SCHUR_ITER = [
    Rule(r'for\s*\(auto k = (?:backend::)?row_begin\(\*K, i\); k; \+\+k\)', 'for(ptrdiff_t k = K->ptr[i]; k < K->ptr[i + 1]; ++k)', 2,
         why='R-iter (A-iter)', early=True),
    Rule(r'\bk\.col\(\)', 'K->col[k]', '+', why='R-iter', early=True),
    Rule(r'\bk\.value\(\)', 'K->val[k]', '+', why='R-iter', early=True),
]
NEW_MATRIX = lambda k: Rule(r'auto (\w+) = std_make_shared<build_matrix>\(\);', r'crs *\1 = crs_new();', k, why='R-auto / make_shared')
PMASK_IDX = IdxRule(r'self->prm\.pmask', 'self->prm.pmask_n', '+')

blocks_cut = Cut(
    SCHUR, r'// Extract matrix subblocks\.\n', kind='region', begin_exclusive=True, end=r'if \(prm\.verbose >= 2\)',
    rules=SCHUR_ITER + [NEW_MATRIX(4)] + CALL_RULES + member_rules(['prm', 'n', 'np', 'nu']) + [
        Rule(r'std_vector<ptrdiff_t> idx\(([^;]+)\);', r'loc_vec idx; const size_t idx_n = vec_init(idx, \1, 0);', 1, why='R-vec-local: std::vector<ptrdiff_t>(n) is zero-filled'),
        IdxRule(r'idx', 'idx_n', '+'), PMASK_IDX,
        IdxRule(r'(Kuu|Kup|Kpu|Kpp)->ptr', r'\1->nrows + 1', '+'),
        IdxRule(r'(Kuu|Kup|Kpu|Kpp)->(?:col|val)', r'\1->nnz', '+'),
        IdxRule(r'K->col|K->val', 'nonzeros(*K)', '+'), IdxRule(r'K->ptr', 'K->nrows + 1', '+'),
    ])

SCHUR_HDR = '#define MODEL_INT32 1\n' + VEC_PRELUDE + CRS_MEMBERS_C + NARROW_INPUT + SCHUR_VIEW

schur_blocks = Unit(
    name='schur_init_blocks', props=['C18', 'C10'],
    functions=['preconditioner::schur_pressure_correction::init(K, bprm) [sub-block extraction region]', 'crs::set_size', 'crs::scan_row_sizes', 'crs::set_nonzeros'],
    desc='the u/p sub-blocks Kuu, Kup, Kpu, Kpp with the idx renumbering reassemble to K entry for entry (dense view and stored copies), '
         'for every pressure mask; idx is the rank within the class; row order is preserved',
    cuts=dict(crs_member_cuts(), body=blocks_cut),
    template=SCHUR_HDR + SCHUR_BLOCKS_SPEC + r"""
WITNESS_CRS(K)
/* contract (enforced by the harness below):
 *   requires  K square well-formed (any pattern: unsorted rows, duplicates, empty rows); pmask has n flags (any char values);
 *             np == nu == 0 (member initialisers of both constructors)
 *   assigns   self->np, self->nu; fresh matrices only
 *   ensures   nu + np == n, idx[i] == rank of i within its class; Kuu nu x nu, Kup nu x np, Kpu np x nu, Kpp np x np, all well-formed;
 *             for all i, j: block[pmask[i]][pmask[j]](idx[i], idx[j]) == K(i,j), stored equally often; the four blocks hold
 *             nnz(K) entries; rows ascending if the rows of K are; K and pmask unchanged                                      */
static void f_schur_blocks(schur *self, const crs *K)
{
/*@CUT:body@*/
  /* ghost epilogue: publish the region's locals */
  g_blk[0][0] = Kuu; g_blk[0][1] = Kup; g_blk[1][0] = Kpu; g_blk[1][1] = Kpp;
  g_idx_n = idx_n; for (size_t i = 0; i < CAP_LOC; ++i) g_idx[i] = idx[i];
}
void h_schur_blocks(void)
{
  crs *K = crs_input_tok();
  schur me; schur *self = &me;
  REQUIRES(crs_wf(K, NMAX, NMAX, ZMAX) && K->nrows == K->ncols);
#ifdef NFIX
  REQUIRES(K->nrows == NFIX);      /* the size is fixed per variant (every n <= NMAX is enumerated) */
#endif
  schur_input(self, K->nrows); self->np = 0; self->nu = 0;
  const size_t ge = nondet_uchar() & IMASK;      /* ghost: an arbitrary position in K's entry arrays (universal generalisation) */
  MIRROR_CRS(K, K);
  crs_snap s; crs_snapshot(K, &s);
  const schur me0 = me;
  f_schur_blocks(self, K);
  ENSURES(!g_cap_exceeded && !g_thrown, "bound artefact: allocation within verification capacity; no exception");
  ENSURES(g_idx_n == K->nrows && self->nu + self->np == K->nrows && spec_idx(self->prm.pmask, K->nrows, g_idx, self->nu, self->np),
          "schur init: idx[i] is the rank of unknown i within its class (pressure / flow), nu and np are the class sizes");
  const _Bool shapes = post_block_shapes(self->nu, self->np);
  ENSURES(shapes, "schur init: Kuu is nu x nu, Kup nu x np, Kpu np x nu, Kpp np x np, each well-formed CRS with nnz == ptr[rows]");
  if (shapes && g_idx_n == K->nrows && spec_idx(self->prm.pmask, K->nrows, g_idx, self->nu, self->np)) {
#ifdef DENSE
  ENSURES(post_reassemble(self, K, 1), "schur init: the sub-blocks reassemble to K: block[pmask[i]][pmask[j]](idx[i], idx[j]) == K(i,j) for all i, j (dense view)");
  ENSURES(post_reassemble(self, K, 0), "schur init: every entry (i,j) of K is stored in its sub-block exactly as often as in K");
#else
  /* the same statement entry by entry (the layout is a bijection between the stored entries of K and those of the four blocks
   * that maps (i,j) to (idx[i], idx[j]) and keeps the value; idx is injective on each class: hence the dense views agree) */
  ENSURES(post_row_lengths(self, K), "schur init: row idx[i] of each sub-block holds exactly as many entries as row i of K has in that column class");
  if (ge < (size_t)K->ptr[K->nrows])
  ENSURES(post_entry_layout(self, K, ge), "schur init: every stored entry (i,j) of K is found in block[pmask[i]][pmask[j]] at row idx[i], column idx[j], with its value, in the order of K's row (arbitrary entry)");
#endif
  ENSURES(g_blk[0][0]->nnz + g_blk[0][1]->nnz + g_blk[1][0]->nnz + g_blk[1][1]->nnz == (size_t)K->ptr[K->nrows],
          "schur init: the four sub-blocks hold exactly nnz(K) entries");
  ENSURES(!crs_rows_sorted(K, 0) || post_blocks_sorted(), "schur init: rows of the sub-blocks ascending when the rows of K are");
  }
  _Bool mask_same = self->prm.pmask_n == me0.prm.pmask_n && self->n == me0.n;
  for (size_t i = 0; i < CAP_MASK; ++i) if (self->prm.pmask[i] != me0.prm.pmask[i]) mask_same = 0;
  ENSURES(crs_unchanged(K, &s) && mask_same, "frame: K, pmask and n are not modified");
  CANARY("harness.end");
}
""",
    entry='h_schur_blocks', mode='unwound', unwind='max(ZMAX,NMAX)+3', model='int32',
    variants=[{'NMAX': 4, 'ZMAX': 6}, {'NMAX': 3, 'ZMAX': 4, 'DENSE': 1}], thorough_variants=[{'NMAX': 5, 'ZMAX': 7}, {'NMAX': 4, 'ZMAX': 5, 'DENSE': 1}],
    bound_text='n <= 4, nnz <= 6, every pressure mask (any char values), any pattern (unsorted rows, duplicates, empty rows), values symbolic tokens (thorough: n <= 5, nnz <= 7)',
    assumptions=A_SETUP + ['A-pmask: prm.pmask has exactly n entries (pmask_size == rows(K)); the constructor does not check it',
                           'A-ctor: np and nu enter init() as 0 (member initialisers np(0), nu(0) of both constructors)'],
    replay='composite', timeout=300, witness=wit("K") + ["w_pmask"],
    not_decided=['the adjust_p corrections of Kpp and the simplec_dia / approx_schur diagonals (floating point)', 'copy to the backend (copy_matrix)',
                 'pmask shorter than n (out-of-bounds read: outside the documented domain)'],
)
schur_blocks.unwindset = [(r'for\(ptrdiff_t i = 0; i < \(\(ptrdiff_t\)\(self->n\)\)', 'NMAX+1'), (r'for\(size_t i = 0; i < self->n;', 'NMAX+1'),
                          (r'for\(ptrdiff_t k = K->ptr', 'ZMAX+1')]

scatter_cut = Cut(
    SCHUR, r'// Scatter/Gather matrices\n', kind='region', begin_exclusive=True, end=r'this->x2u = backend_type::copy_matrix',
    rules=[NEW_MATRIX(4)] + CALL_RULES + member_rules(['prm', 'n', 'np', 'nu']) + [
        IdxRule(r'idx', 'idx_n', '+'), PMASK_IDX,
        IdxRule(r'(x2u|x2p|u2x|p2x)->ptr', r'\1->nrows + 1', '+'),
        IdxRule(r'(x2u|x2p|u2x|p2x)->(?:col|val)', r'\1->nnz', '+'),
    ])

SCHUR_SCATTER_SPEC = r"""
crs *g_gs[4];      /* x2u x2p u2x p2x */
/* gather (sub <- full): G(y, x) = 1 iff unknown x is of the class and idx[x] == y; scatter = transpose */
static _Bool post_gather_scatter(const schur *self, const ptrdiff_t *idx, int g)
{
  const crs *M = g_gs[g];
  const _Bool pressure = (g == 1 || g == 3), gather = g < 2;
  const size_t m = pressure ? self->np : self->nu, n = self->n;
  if (M == 0 || M->ptr == 0 || M->col == 0 || M->val == 0) return 0;
  if (!(M->nrows == (gather ? m : n) && M->ncols == (gather ? n : m))) return 0;
  if (!crs_wf(M, NMAX, NMAX, NMAX) || M->nnz != (size_t)M->ptr[M->nrows] || M->nnz != m) return 0;
  for (size_t r = 0; r < NMAX; ++r) for (size_t c = 0; c < NMAX; ++c) if (r < M->nrows && c < M->ncols) {
    const size_t x = gather ? c : r, y = gather ? r : c;
    const int e = (((self->prm.pmask[x] != 0) == pressure) && (size_t)idx[x] == y) ? 1 : 0;
    if (count_in_row(M, r, c) != e || dense_get(M, r, c) != e) return 0;
  }
  return 1;
}
"""
schur_scatter = Unit(
    name='schur_init_scatter', props=['C18', 'C10'],
    functions=['preconditioner::schur_pressure_correction::init(K, bprm) [gather / scatter region]', 'crs::set_size', 'crs::set_nonzeros'],
    desc='x2u, x2p (gather) and u2x, p2x (scatter) are exactly the 0/1 matrices of the pressure mask with the idx renumbering, for every mask',
    cuts=dict(crs_member_cuts(), body=scatter_cut),
    template=SCHUR_HDR + SCHUR_SCATTER_SPEC + r"""
ptrdiff_t w_idx[CAP_LOC]; size_t w_n;
/* contract (enforced by the harness below):
 *   requires  pmask has n flags; idx, nu, np as the extraction region leaves them (spec_idx: postcondition of schur_init_blocks)
 *   assigns   fresh matrices only
 *   ensures   x2u is nu x n with x2u(idx[i], i) = 1 for every flow unknown i and nothing else; x2p likewise for pressure;
 *             u2x = x2u^T, p2x = x2p^T (n x nu, n x np); each well-formed with exactly one stored entry per unknown of its class */
static void f_schur_scatter(schur *self, const ptrdiff_t *idx, size_t idx_n)
{
/*@CUT:body@*/
  g_gs[0] = x2u; g_gs[1] = x2p; g_gs[2] = u2x; g_gs[3] = p2x;
}
void h_schur_scatter(void)
{
  schur me; schur *self = &me;
  size_t n, nu, np;
  REQUIRES(n <= NMAX);
  schur_input(self, n); self->nu = nu; self->np = np;
  loc_vec idx;
  for (size_t i = 0; i < CAP_LOC; ++i) { ptrdiff_t a; idx[i] = a; w_idx[i] = a; }
  REQUIRES(spec_idx(self->prm.pmask, n, idx, nu, np));
  w_n = n;
  const schur me0 = me;
  f_schur_scatter(self, idx, n);
  ENSURES(!g_cap_exceeded && !g_thrown, "bound artefact: allocation within verification capacity; no exception");
  ENSURES(post_gather_scatter(self, idx, 0), "schur init: x2u is the nu x n gather matrix of the flow unknowns: x2u(idx[i], i) = 1 for pmask[i] == 0, nothing else stored");
  ENSURES(post_gather_scatter(self, idx, 1), "schur init: x2p is the np x n gather matrix of the pressure unknowns: x2p(idx[i], i) = 1 for pmask[i] != 0, nothing else stored");
  ENSURES(post_gather_scatter(self, idx, 2), "schur init: u2x is the n x nu scatter matrix (transpose of x2u)");
  ENSURES(post_gather_scatter(self, idx, 3), "schur init: p2x is the n x np scatter matrix (transpose of x2p)");
  _Bool same = self->prm.pmask_n == me0.prm.pmask_n && self->n == me0.n && self->nu == me0.nu && self->np == me0.np;
  for (size_t i = 0; i < CAP_MASK; ++i) if (self->prm.pmask[i] != me0.prm.pmask[i]) same = 0;
  ENSURES(same, "frame: pmask, n, nu, np are not modified");
  CANARY("harness.end");
}
""",
    entry='h_schur_scatter', mode='unwound', unwind='NMAX+3', model='int32',
    variants=[{'NMAX': 5, 'ZMAX': 5}], thorough_variants=[{'NMAX': 7, 'ZMAX': 7}],
    bound_text='n <= 5 (thorough: n <= 7), every pressure mask (any char values)',
    assumptions=A_SETUP + ['A-pmask: prm.pmask has exactly n entries (pmask_size == rows(K)); the constructor does not check it',
                           'A-idx: idx, nu, np are what the extraction region computed (spec_idx is proved as its postcondition by schur_init_blocks)'],
    replay='composite', timeout=600, witness=['w_pmask', 'w_idx', 'w_n'],
    not_decided=['copy to the backend (copy_matrix)'],
)

UNITS = [cpr_fsp, schur_blocks, schur_scatter]
