"""Shared cuts / template fragments: members of backend::crs (amgcl/backend/builtin.hpp)
and the harness-side spec functions for bounded (unwound) kernel units."""
import re
from cxc.extract import Cut, Rule, UF, Loop

BUILTIN = 'amgcl/backend/builtin.hpp'

FIELDS = ['nrows', 'ncols', 'nnz', 'ptr', 'col', 'val', 'own_data']


def member_rules(fields=FIELDS, self='self'):
    """unqualified member names inside a member function -> self->member"""
    return [Rule(r'(?<![\w.>])%s\b(?!\s*\()' % f, '%s->%s' % (self, f), None, why='R-member') for f in fields]


def crs_member_cuts(prefix=''):
    """cuts of the crs<> member functions used by the kernels (inlined into bounded units)"""
    return {
        prefix + 'set_size': Cut(BUILTIN, r'void set_size\(size_t n, size_t m, bool clean_ptr = false\)\s*(?=\{)',
                                 rules=member_rules() + [Rule(r'NEW\(ptr_type,', 'NEW_PTR(ptr_type,', 1)]),
        prefix + 'scan_row_sizes': Cut(BUILTIN, r'ptr_type scan_row_sizes\(\)\s*(?=\{)',
                                       rules=member_rules() + [Rule(r'std_partial_sum\(', 'std_partial_sum_P(', 1)]),
        prefix + 'set_nonzeros0': Cut(BUILTIN, r'void set_nonzeros\(\)\s*(?=\{)',
                                      rules=member_rules() + [Rule(r'^(\s*)set_nonzeros\(self->ptr\[self->nrows\]\);',
                                                                   r'\1crs_set_nonzeros_n(self, self->ptr[self->nrows], 1);', 1)]),
        prefix + 'set_nonzeros_n': Cut(BUILTIN, r'void set_nonzeros\(size_t n, bool need_values = true\)\s*(?=\{)',
                                       rules=member_rules() + [Rule(r'NEW\(col_type,', 'NEW_NNZ(col_type,', 1),
                                                               Rule(r'NEW\(val_type,', 'NEW_NNZ(val_type,', 1)]),
    }


# C text: the member functions as C functions on `crs *self`
CRS_MEMBERS_C = r'''
static void crs_set_nonzeros_n(crs *self, size_t n, _Bool need_values);
static void crs_set_size(crs *self, size_t n, size_t m, _Bool clean_ptr)
{
/*@CUT:set_size@*/
}
static ptr_type crs_scan_row_sizes(crs *self)
{
/*@CUT:scan_row_sizes@*/
}
static void crs_set_nonzeros_n(crs *self, size_t n, _Bool need_values)
{
/*@CUT:set_nonzeros_n@*/
}
static void crs_set_nonzeros0(crs *self)
{
/*@CUT:set_nonzeros0@*/
}
'''

# rules that turn member calls in a caller body into the C functions above
CALL_RULES = [
    Rule(r'(\w+)->set_size\(', r'crs_set_size(\1, ', None, why='R-member-call'),
    Rule(r'(\w+)\.set_size\(', r'crs_set_size(&\1, ', None, why='R-member-call'),
    Rule(r'(\w+)->scan_row_sizes\(\)', r'crs_scan_row_sizes(\1)', None, why='R-member-call'),
    Rule(r'(\w+)\.scan_row_sizes\(\)', r'crs_scan_row_sizes(&\1)', None, why='R-member-call'),
    Rule(r'(\w+)->set_nonzeros\(\)', r'crs_set_nonzeros0(\1)', None, why='R-member-call'),
    Rule(r'(\w+)\.set_nonzeros\(\)', r'crs_set_nonzeros0(&\1)', None, why='R-member-call'),
    Rule(r'(\w+)->set_nonzeros\((?=[^)])', r'crs_set_nonzeros_n1(\1, ', None, why='R-member-call'),
    Rule(r'(\w+)\.set_nonzeros\((?=[^)])', r'crs_set_nonzeros_n1(&\1, ', None, why='R-member-call'),
]

# ----------------------------------------------------------------------------
# bounded harness: capacities, allocation wrappers, spec functions
# ----------------------------------------------------------------------------
BOUNDED_PRELUDE = r'''
#include "amgcl_c.h"
#include <stdlib.h>
int g_thrown;
/* capacities (verification bound artefacts; exceeding one is reported as a tool error) */
#ifndef NMAX
#define NMAX 3
#endif
#ifndef ZMAX
#define ZMAX 4
#endif
#ifndef CAP_PTR
#define CAP_PTR (NMAX + 2)
#endif
#ifndef CAP_NNZ
#define CAP_NNZ (ZMAX + 1)
#endif
int g_cap_exceeded;
/* operator new[]: never returns null (A-new); content is nondeterministic, so any
 * postcondition proved holds for every prior heap content                        */
#define NEW_CAP(T, n, cap) ((n) <= (cap) ? (T *)malloc(sizeof(T) * (cap)) : (g_cap_exceeded = 1, (T *)malloc(sizeof(T) * (cap))))
#define NEW_PTR(T, n) NEW_CAP(T, n, CAP_PTR)
#define NEW_NNZ(T, n) NEW_CAP(T, n, CAP_NNZ)
#define DELETE(p) free(p)
#define crs_set_nonzeros_n1(A, n) crs_set_nonzeros_n(A, n, 1)
/* default constructor crs() (builtin.hpp:73): all zero, own_data = true */
static crs *crs_new(void)
{
  crs *a = (crs *)malloc(sizeof(crs));
  a->nrows = 0; a->ncols = 0; a->nnz = 0; a->ptr = 0; a->col = 0; a->val = 0; a->own_data = 1;
  return a;
}
/* std::partial_sum / std::rotate on ptr_type (A-std: trusted stubs, 3-line loops) */
static void std_partial_sum_P(ptr_type *first, ptr_type *last, ptr_type *out)
{
  if (first == last) return;
  ptr_type s = *first; *out = s;
  for (ptr_type *p = first + 1; p != last; ++p) { s = s + *p; ++out; *out = s; }
}
static void std_rotate(ptr_type *first, ptr_type *mid, ptr_type *last)
{
  size_t n = last - first, k = mid - first;
  if (n == 0 || k == 0 || k == n) return;
  for (size_t r = 0; r < k; ++r) { ptr_type t = first[0]; for (size_t i = 0; i + 1 < n; ++i) first[i] = first[i + 1]; first[n - 1] = t; }
}
#define rows(A) ((A).nrows)
#define cols(A) ((A).ncols)
#define nonzeros(A) ((A).nrows == 0 ? 0 : (size_t)(A).ptr[(A).nrows])

/* ------------------------------------------------ spec functions (harness side) */
/* well-formed CRS with logical bounds n <= nmax, m <= mmax, nnz <= zmax */
static _Bool crs_wf(const crs *A, size_t nmax, size_t mmax, size_t zmax)
{
  if (!(A->nrows <= nmax && A->ncols <= mmax)) return 0;
  if (A->ptr[0] != 0) return 0;
  for (size_t i = 0; i < NMAX + 1; ++i) if (i < A->nrows) {
    if (!(A->ptr[i] <= A->ptr[i + 1])) return 0;
  }
  if (!(A->ptr[A->nrows] >= 0 && (size_t)A->ptr[A->nrows] <= zmax)) return 0;
  for (size_t j = 0; j < CAP_NNZ; ++j) if (j < (size_t)A->ptr[A->nrows]) {
    if (!(A->col[j] >= 0 && (size_t)A->col[j] < A->ncols)) return 0;
  }
  return 1;
}
static _Bool crs_rows_sorted(const crs *A, _Bool strict)
{
  for (size_t i = 0; i < NMAX + 1; ++i) if (i < A->nrows)
    for (size_t j = 0; j < CAP_NNZ; ++j)
      if ((ptrdiff_t)j >= A->ptr[i] && (ptrdiff_t)j + 1 < A->ptr[i + 1]) {
        if (strict ? !(A->col[j] < A->col[j + 1]) : !(A->col[j] <= A->col[j + 1])) return 0;
      }
  return 1;
}
#if defined(MODEL_INT32)
static _Bool crs_vals_small(const crs *A, int lim)
{
  for (size_t j = 0; j < CAP_NNZ; ++j) if (j < (size_t)A->ptr[A->nrows]) {
    if (!(A->val[j] >= -lim && A->val[j] <= lim)) return 0;
  }
  return 1;
}
/* dense view: sum of the stored entries (i,j) */
static long dense_get(const crs *A, size_t i, size_t j)
{
  long s = 0;
  for (size_t k = 0; k < CAP_NNZ; ++k)
    if ((ptrdiff_t)k >= A->ptr[i] && (ptrdiff_t)k < A->ptr[i + 1] && (size_t)A->col[k] == j) s += A->val[k];
  return s;
}
#endif
static int count_in_row(const crs *A, size_t i, size_t j)
{
  int s = 0;
  for (size_t k = 0; k < CAP_NNZ; ++k)
    if ((ptrdiff_t)k >= A->ptr[i] && (ptrdiff_t)k < A->ptr[i + 1] && (size_t)A->col[k] == j) s++;
  return s;
}
/* allocate a symbolic input matrix: constant-capacity arrays, nondet content */
static crs *crs_input(void)
{
  crs *a = (crs *)malloc(sizeof(crs));
  a->ptr = (ptr_type *)malloc(sizeof(ptr_type) * CAP_PTR);
  a->col = (col_type *)malloc(sizeof(col_type) * CAP_NNZ);
  a->val = (val_type *)malloc(sizeof(val_type) * CAP_NNZ);
  a->own_data = 1;
  return a;
}

/* ------------------------------------------- harness-enforced contract (bounded) */
#define REQUIRES(c) __CPROVER_assume(c)
#ifdef CXC_CANARY
#define ENSURES(c, msg) ((void)0)
#else
#define ENSURES(c, msg) __CPROVER_assert(c, "ensures: " msg)
#endif
/* frame: snapshot of an input matrix and comparison after the call */
typedef struct { size_t nrows, ncols, nnz; ptr_type ptr[CAP_PTR]; col_type col[CAP_NNZ]; val_type val[CAP_NNZ];
                 ptr_type *pp; col_type *pc; val_type *pv; } crs_snap;
static void crs_snapshot(const crs *A, crs_snap *s)
{
  s->nrows = A->nrows; s->ncols = A->ncols; s->nnz = A->nnz; s->pp = A->ptr; s->pc = A->col; s->pv = A->val;
  for (size_t i = 0; i < CAP_PTR; ++i) s->ptr[i] = A->ptr[i];
  for (size_t j = 0; j < CAP_NNZ; ++j) { s->col[j] = A->col[j]; s->val[j] = A->val[j]; }
}
static _Bool crs_unchanged(const crs *A, const crs_snap *s)
{
  if (!(s->nrows == A->nrows && s->ncols == A->ncols && s->nnz == A->nnz && s->pp == A->ptr && s->pc == A->col && s->pv == A->val)) return 0;
  for (size_t i = 0; i < CAP_PTR; ++i) if (s->ptr[i] != A->ptr[i]) return 0;
  for (size_t j = 0; j < CAP_NNZ; ++j) if (s->col[j] != A->col[j] || s->val[j] != A->val[j]) return 0;
  return 1;
}
/* witness mirror: inputs copied to named globals so that they can be read off a trace */
#define WITNESS_CRS(name) size_t w_##name##_nrows, w_##name##_ncols; ptr_type w_##name##_ptr[CAP_PTR]; col_type w_##name##_col[CAP_NNZ]; val_type w_##name##_val[CAP_NNZ];
#define MIRROR_CRS(name, A) do { w_##name##_nrows = (A)->nrows; w_##name##_ncols = (A)->ncols; \
  for (size_t i_ = 0; i_ < CAP_PTR; ++i_) w_##name##_ptr[i_] = (A)->ptr[i_]; \
  for (size_t j_ = 0; j_ < CAP_NNZ; ++j_) { w_##name##_col[j_] = (A)->col[j_]; w_##name##_val[j_] = (A)->val[j_]; } } while (0)
'''
