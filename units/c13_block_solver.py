"""C13: make_block_solver (amgcl/make_block_solver.hpp), the wrapper that solves a scalar system with a block-valued solver.

Property clause: the wrapper "return[s] a solution of the scalar system with a truthful residual".  Call-level contracts (loop-free,
counted as proved):
  make_block_solver_call3   operator()(A, rhs, x): exactly one call of the wrapped make_solver's THREE-argument operator with the
                            CALLER'S matrix A and the block views of rhs and x; its result is returned (the system solved and the
                            residual reported are those of the matrix passed in, not of the matrix stored at construction)
  make_block_solver_call2   operator()(rhs, x): exactly one call of the wrapped solver's two-argument operator on the block views
The wrapped solver and backend::reinterpret_as_rhs are callees: recorded by ghost state (A-callee)."""
from cxc.extract import Cut, Rule
from cxc.unit import Unit

MBS = 'amgcl/make_block_solver.hpp'

RULES = [
    Rule(r'auto (\w+) = backend::reinterpret_as_rhs<value_type>\((\w+)\);', r'vec \1 = reinterpret_as_rhs(\2);', None, early=True,
         why='backend::reinterpret_as_rhs<value_type>(v): the block view of a scalar vector (callee, uninterpreted)'),
    Rule(r'\(\*this\)\(', 'CALL_this(', None, early=True, why='call of an operator() of *this (arity dispatch by macro)'),
    Rule(r'\(\*S\)\(', 'CALL_S(', None, early=True, why='call of an operator() of the wrapped make_solver (arity dispatch by macro)'),
]

T = r'''
#include <stddef.h>
typedef struct { int id; } mat;
typedef struct { int id; } vec;
typedef struct { size_t iters; int resid; } result;       /* std::tuple<size_t, scalar_type>: opaque tokens */
int __CPROVER_uninterpreted_block_view(int);
static vec reinterpret_as_rhs(vec v) { vec r; r.id = __CPROVER_uninterpreted_block_view(v.id); return r; }
/* ghost record of the calls made on the wrapped solver S (make_solver<Precond, IterativeSolver>) */
struct { int calls3, calls2; int A, F, X; } g;
result g_res3, g_res2;                                     /* what the wrapped solver returns (ghost inputs, never assigned) */
static result s_call3(mat A, vec F, vec X) { g.calls3++; g.A = A.id; g.F = F.id; g.X = X.id; return g_res3; }
static result s_call2(vec F, vec X) { g.calls2++; g.F = F.id; g.X = X.id; return g_res2; }
#define CXC_GET4(_1, _2, _3, _4, ...) _4
#define CALL_S(...) CXC_GET4(__VA_ARGS__, s_call3, s_call2, s_bad_arity)(__VA_ARGS__)
/* the two operators of make_block_solver itself, by contract (what units make_block_solver_call2 / _call3 prove about the bodies) */
static result this_call2(vec rhs, vec x) { return s_call2(reinterpret_as_rhs(rhs), reinterpret_as_rhs(x)); }
static result this_call3(mat A, vec rhs, vec x) { return s_call3(A, reinterpret_as_rhs(rhs), reinterpret_as_rhs(x)); }
#define CALL_this(...) CXC_GET4(__VA_ARGS__, this_call3, this_call2, this_bad_arity)(__VA_ARGS__)
'''
T3 = T + r'''result f_call(mat A, vec rhs, vec x)
__CPROVER_requires(g.calls3 == 0 && g.calls2 == 0)
__CPROVER_assigns(g)
/* C13: the system solved (and whose residual is reported) is the one of the matrix the CALLER passes */
__CPROVER_ensures(g.calls3 == 1 && g.calls2 == 0 && g.A == A.id)
__CPROVER_ensures(g.F == __CPROVER_uninterpreted_block_view(rhs.id) && g.X == __CPROVER_uninterpreted_block_view(x.id))
__CPROVER_ensures(__CPROVER_return_value.iters == g_res3.iters && __CPROVER_return_value.resid == g_res3.resid)
{
/*@CUT:body@*/
}
void h_f_call(void) { mat A; vec f, x; f_call(A, f, x); }
'''
T2 = T + r'''result f_call(vec rhs, vec x)
__CPROVER_requires(g.calls3 == 0 && g.calls2 == 0)
__CPROVER_assigns(g)
__CPROVER_ensures(g.calls2 == 1 && g.calls3 == 0)
__CPROVER_ensures(g.F == __CPROVER_uninterpreted_block_view(rhs.id) && g.X == __CPROVER_uninterpreted_block_view(x.id))
__CPROVER_ensures(__CPROVER_return_value.iters == g_res2.iters && __CPROVER_return_value.resid == g_res2.resid)
{
/*@CUT:body@*/
}
void h_f_call(void) { vec f, x; f_call(f, x); }
'''


A_MBS = ['A-callee: the wrapped make_solver (units make_solver_* / solver_*) and backend::reinterpret_as_rhs are callees recorded by ghost state; '
         'that reinterpret_as_rhs yields the block view of the same memory is not decided here',
         'A-name: the anchor accepts the matrix parameter with or without a name (an unnamed parameter is legal C++: the body then cannot pass it on)']

call3 = Unit(
    name='make_block_solver_call3', props=['C13', 'C10'],
    functions=['make_block_solver::operator()(const Matrix &A, const Vec1 &rhs, Vec2 &&x) const'],
    desc='solve with an explicit matrix: exactly one call of the wrapped solver\'s three-argument operator with the caller\'s matrix and the block views '
         'of rhs and x; its (iterations, residual) is returned unchanged',
    cuts={'body': Cut(MBS, r'std::tuple<size_t, scalar_type> operator\(\)\(\s*const Matrix\s*&\s*(?:A\b)?\s*,\s*const Vec1 &rhs,\s*Vec2 &&x\) const\s*(?=\{)', rules=RULES)},
    template=T3, enforce='f_call', mode='loopfree', model='none', timeout=120, replay='blocksolver',
    assumptions=A_MBS,
)
call2 = Unit(
    name='make_block_solver_call2', props=['C13', 'C10'],
    functions=['make_block_solver::operator()(const Vec1 &rhs, Vec2 &&x) const'],
    desc='solve with the stored matrix: exactly one call of the wrapped solver\'s two-argument operator on the block views of rhs and x; result returned unchanged',
    cuts={'body': Cut(MBS, r'std::tuple<size_t, scalar_type>\s*operator\(\)\(const Vec1 &rhs, Vec2 &&x\) const\s*(?=\{)', rules=RULES)},
    template=T2, enforce='f_call', mode='loopfree', model='none', timeout=120, replay='blocksolver',
    assumptions=A_MBS,
)
UNITS = [call3, call2]
