"""C06 incomplete factorisations with fill: relaxation::iluk (constructor + nested sparse_vector / nonzero / comp_indices helpers).

  iluk_ctor          relaxation::iluk<Backend>::iluk(A, prm, bprm): STRUCTURE of L, U, D for every pattern with a stored diagonal, n <= 4,
                     k in {0,1,2} concrete per variant: kept pattern == {(i,j) : lev(i,j) <= k}, lev = the level-of-fill recurrence
                     computed by the harness on a dense integer table (textbook IKJ order); the level recorded with every U entry == lev
  iluk_row_step      the BODY of the row loop of that constructor for ONE arbitrary row i and an ARBITRARY well-formed predecessor state
                     (U rows 0..i-1 with any columns and any stored levels <= k, work vector satisfying the loop invariant): the inductive
                     step of the same statement.  States that need n >= 5 / 6 to be reachable are covered here (seeded change C06).
  iluk_row_values    (CANDIDATE_DEFECT_UNITS) the same step with the VALUE clause: every update into a position of the final pattern is applied.

All members of iluk::sparse_vector (constructor initialiser list, add, next_nonzero, sort, reset), iluk::nonzero (constructor initialiser
list, operator<) and sparse_vector::comp_indices::operator() are cut from /repo and run as C functions on a `self` struct; std::deque,
std::vector, std::priority_queue and std::sort are constant-capacity stubs (A-vec, A-std).  Bounded units, never counted as proved.
Native replay: replay/iluk.cpp."""
import re
from cxc import extract as X
from cxc.extract import Cut, Rule, UF, IdxRule, UFArgs, ExtractError, match_close
from cxc.unit import Unit
from _common import member_rules
from _relax_common import A_RELAX, VEC_PRELUDE, row_iter_rules
from c06_kernels import COMPOUND, UF16, A_UF, A_UF16, NUMA_NEW, NUMA_DEREF, wit

ILUK = 'amgcl/relaxation/iluk.hpp'
COMPOUND_OPT = Rule(COMPOUND.pat, COMPOUND.repl, None, why=COMPOUND.why)     # same rewrite, may fire zero times (helper members without compound assignments)


# ============================================================================ rule objects (syntax only)
class InitList(object):
    """constructor initialiser list `m1(args), m2(args), ...` -> `INIT(self, m1, args); INIT(self, m2, args); ...`
    (the template says what initialising a member of that type means; nothing is keyed on the arguments)"""
    early = False

    def __init__(self, count='+'):
        self.count = count
        self.pat = 'InitList'

    def apply(self, text, log, generic=False):
        out, i, n = [], 0, 0
        rx = re.compile(r'\s*,?\s*(\w+)\s*\(')
        while True:
            m = rx.match(text, i)
            if not m:
                break
            k = m.end() - 1
            e = match_close(text, k)
            out.append('INIT(self, %s, %s);' % (m.group(1), text[k + 1:e]))
            i = e + 1
            n += 1
        if text[i:].strip():
            raise ExtractError('InitList: cannot parse %r' % text[i:i + 40])
        if (self.count == '+' and n < 1) or (isinstance(self.count, int) and n != self.count):
            raise ExtractError('InitList fired %d times, expected %s' % (n, self.count))
        log.append({'rule': 'R-init member initialiser list -> INIT(self, member, args)', 'fired': n})
        return ' '.join(out) + '\n'


class RefDecl(object):
    """`T &name = e;` (T one of `types`) -> `T *const name = &(e);` and every later `name.member` -> `name->member`
    (a C++ reference to an element of a container is a pointer to it; keyed on the declared type, not on the name)"""
    early = False

    def __init__(self, types, count='+'):
        self.types = types
        self.count = count
        self.pat = 'RefDecl ' + '|'.join(types)

    def apply(self, text, log, generic=False):
        rx = re.compile(r'\b(?P<c>const\s+)?(?P<t>%s)\s*&\s*(?P<n>\w+)\s*=\s*(?P<e>[^;]+);' % '|'.join(self.types))
        names = []
        while True:
            m = rx.search(text)
            if not m:
                break
            names.append(m.group('n'))
            head = text[:m.start()] + '%s%s *const %s = &(%s);' % (m.group('c') or '', m.group('t'), m.group('n'), m.group('e').strip())
            tail = re.sub(r'\b%s\.(?=[A-Za-z_])' % re.escape(m.group('n')), m.group('n') + '->', text[m.end():])
            text = head + tail
        n = len(names)
        if (self.count == '+' and n < 1) or (isinstance(self.count, int) and n != self.count):
            raise ExtractError('RefDecl fired %d times, expected %s' % (n, self.count))
        log.append({'rule': 'R-ref T &x = e -> T *const x = &(e); x.m -> x->m', 'fired': n, 'names': names})
        return text


class RangeFor(object):
    """`for(const T &e : C)` -> `for (size_t e_i = 0; e_i < (C).n; ++e_i)` and every later `e.member` -> `(C).d[e_i].member`
    (definition of the range-based for over a sequence container; C is a constant-capacity sequence, A-vec)"""
    early = False

    def __init__(self, types, count='+'):
        self.types = types
        self.count = count
        self.pat = 'RangeFor ' + '|'.join(types)

    def apply(self, text, log, generic=False):
        rx = re.compile(r'\bfor\s*\(\s*(?:const\s+)?(?:%s)\s*&\s*(?P<n>\w+)\s*:\s*(?P<c>[^()]+?)\s*\)' % '|'.join(self.types))
        n = 0
        while True:
            m = rx.search(text)
            if not m:
                break
            e, c = m.group('n'), m.group('c')
            head = text[:m.start()] + 'for (size_t %s_i = 0; %s_i < (%s).n; ++%s_i)' % (e, e, c, e)
            tail = re.sub(r'\b%s\.(?=[A-Za-z_])' % re.escape(e), '(%s).d[%s_i].' % (c, e), text[m.end():])
            text = head + tail
            n += 1
        if (self.count == '+' and n < 1) or (isinstance(self.count, int) and n != self.count):
            raise ExtractError('RangeFor fired %d times, expected %s' % (n, self.count))
        log.append({'rule': 'R-rangefor for(const T &e : C) -> index loop', 'fired': n})
        return text


def discover_local_vectors(src, anchor):
    """{name: element type} of the `std::vector<T> name;` locals declared in the body found by `anchor` (scanned in the CURRENT tree)"""
    try:
        text = X.read_repo(src)
        b, e, _ = Cut(src, anchor).locate(text)
    except Exception:
        return {}
    return dict((m.group(2), m.group(1)) for m in re.finditer(r'\bstd::vector<\s*(\w+)\s*>\s+(\w+)\s*;', text[b:e]))


class LocalVecs(object):
    """std::vector<T> locals (names discovered in the current tree, see discover_local_vectors) as constant-capacity arrays + logical length:
    declaration, reserve, push_back (typed macro: VPUSH_<T>), size(), subscripts (with logical-bounds obligations)"""
    early = False

    def __init__(self, names, n_decl=None):
        self.names = dict(names)
        self.n_decl = n_decl
        self.pat = 'LocalVecs ' + '|'.join(sorted(self.names))

    def apply(self, text, log, generic=False):
        if not self.names:
            raise ExtractError('LocalVecs: no std::vector locals discovered')
        alt = '|'.join(sorted(self.names, key=len, reverse=True))
        text, nd = re.subn(r'\bstd_vector<\s*(\w+)\s*>\s+(%s)\s*;' % alt, lambda m: 'vec_%s %s; %s.n = 0;' % (m.group(1), m.group(2), m.group(2)), text)
        if self.n_decl is not None and nd != self.n_decl:
            raise ExtractError('LocalVecs: %d declarations rewritten, expected %s' % (nd, self.n_decl))
        if re.search(r'\bstd_vector<', text):
            raise ExtractError('LocalVecs: a std::vector declaration is left')
        out, i, nc = [], 0, 0
        rx = re.compile(r'\b(%s)\.(reserve|push_back)\s*\(' % alt)
        while True:
            m = rx.search(text, i)
            if not m:
                out.append(text[i:])
                break
            k = m.end() - 1
            e = match_close(text, k)
            name, what = m.group(1), m.group(2)
            out.append(text[i:m.start()])
            if what == 'reserve':
                out.append('VRESERVE(%s, %s)' % (name, text[k + 1:e]))
            else:
                out.append('VPUSH_%s(%s, %s)' % (self.names[name], name, text[k + 1:e]))
            i = e + 1
            nc += 1
        text = ''.join(out)
        text, ns = re.subn(r'\b(%s)\.size\(\)' % alt, r'\1.n', text)
        text, nb = re.subn(r'\b(%s)\[' % alt, r'\1.d[', text)
        log.append({'rule': 'R-vec-local std::vector<T> locals -> array + logical length', 'decls': nd, 'calls': nc, 'size': ns, 'subscripts': nb,
                    'names': self.names})
        return IdxRule(r'(%s)\.d' % alt, r'\1.n', None).apply(text, log)


class UFLvalues(object):
    """value arithmetic -> UF form for every assignment whose lvalue matches one of `lvalues` (regexes on C lvalues of value type:
    members named by the struct definition, the cells of D).  Never keyed on the right-hand side."""

    def __init__(self, lvalues, count='+'):
        self.lvalues = lvalues
        self.count = count
        self.pat = 'UFLvalues'

    def apply(self, text, log):
        from cxc.extract import uf_expr
        fired = []

        def sub(m):
            e = m.group('e')
            new = uf_expr(e)
            fired.append((e.strip(), new))
            a, b = m.span('e')
            return m.group(0)[:a - m.start()] + new + m.group(0)[b - m.start():]

        n = 0
        for l in self.lvalues:
            text, k = re.subn(r'(?:(?<=[;{})])|(?<=\belse)|^)\s*(?:%s)\s*=\s*(?P<e>[^;=][^;]*);' % l, sub, text, flags=re.M)
            n += k
        if self.count == '+' and n < 1:
            raise ExtractError('UFLvalues fired 0 times')
        log.append({'rule': 'R-arith assignments to value-typed lvalues', 'fired': n, 'rewrites': [{'from': a, 'to': b} for a, b in fired]})
        return text


# ============================================================================ the C view of the helper structs
# value-typed data members of iluk::nonzero, read from the struct definition in the current tree (fallback: the current name)
def _value_members():
    try:
        text = X.read_repo(ILUK)
        b, e, _ = Cut(ILUK, r'struct nonzero\s*(?=\{)').locate(text)
        ms = re.findall(r'\bvalue_type\s+(\w+)\s*;', text[b:e])
        return ms or ['val']
    except Exception:
        return ['val']


VAL_MEMBERS = _value_members()
VAL_LV = r'[\w.>()\[\]\-]*(?:->|\.)(?:%s)' % '|'.join(VAL_MEMBERS)

SV_MEMBERS = ['lfil', 'nz', 'idx', 'q', 'dia']
# subscripts of the member containers: first `m[` -> `m.d[`, then the bounds obligations (inner subscript first: IdxRule does not descend)
SV_SUBS = [Rule(r'(self->(?:nz|idx))\[', r'\1.d[', None, why='R-vec-member v[k] -> v.d[k]'),
           IdxRule(r'self->idx\.d', 'self->idx.n', None), IdxRule(r'self->nz\.d', 'self->nz.n', None)]
SV_CALLS = [
    Rule(r'(self->nz)\.push_back\((?P<x>[^;]*)\);', r'DQ_PUSH(\1, \g<x>);', None, why='R-vec-member deque::push_back'),
    Rule(r'(self->nz)\.size\(\)', r'\1.n', None, why='R-vec-member deque::size'),
    Rule(r'(self->nz)\.clear\(\);', r'\1.n = 0;', None, why='R-vec-member deque::clear'),
    Rule(r'\bnonzero\((?=[^)])', 'mk_nonzero(', None, why='R-ctor nonzero(col, val, lev)'),
    Rule(r'(self->q)\.push\(', r'pq_push(&\1, ', None, why='R-member-call priority_queue::push'),
    Rule(r'(self->q)\.top\(\)', r'pq_top(&\1)', None, why='R-member-call priority_queue::top'),
    Rule(r'(self->q)\.pop\(\)', r'pq_pop(&\1)', None, why='R-member-call priority_queue::pop'),
    Rule(r'std_sort\(([\w>.\-]+)\.begin\(\), \1\.end\(\)\);', r'std_sort_dq(&\1);', None, why='R-std std::sort(c.begin(), c.end()) -> prelude stub using nonzero::operator<'),
]


def sv_rules(extra=()):
    return [COMPOUND_OPT] + member_rules(SV_MEMBERS) + [RangeFor(['nonzero'], None), RefDecl(['nonzero'], None)] + SV_CALLS + list(extra) + SV_SUBS


SV_UF = [UFLvalues([VAL_LV], None)]

HELPER_CUTS = {
    'nz_init': Cut(ILUK, r'nonzero\(ptrdiff_t col, const value_type &val, int lev\)\s*:', kind='region', begin_exclusive=True, end=r'\{\}', rules=[InitList(3)]),
    'nz_less': Cut(ILUK, r'friend bool operator<\(const nonzero &a, const nonzero &b\)\s*(?=\{)'),
    'comp': Cut(ILUK, r'bool operator\(\)\(int a, int b\) const\s*(?=\{)',
                rules=[Rule(r'(?<![\w.>])nz\[', 'self->nz->d[', '+', why='R-member reference member nz of comp_indices'), IdxRule(r'self->nz->d', 'self->nz->n', '+')]),
    'sv_init': Cut(ILUK, r'sparse_vector\(size_t n, int lfil\)\s*:', kind='region', begin_exclusive=True, end=r'\{\}',
                   rules=member_rules(['nz', 'idx', 'q', 'dia']) + [InitList(4)]),     # lfil: the parameter shadows the member inside the list
    'sv_add': Cut(ILUK, r'void add\(ptrdiff_t col, const value_type &val, int lev\)\s*(?=\{)', rules=sv_rules(), uf=SV_UF),
    'sv_next': Cut(ILUK, r'nonzero& next_nonzero\(\)\s*(?=\{)', rules=sv_rules([Rule(r'\breturn ([^;]+);', r'return &(\1);', 1, why='R-ref function returning a reference -> pointer')])),
    'sv_sort': Cut(ILUK, r'void sort\(\)\s*(?=\{)', rules=sv_rules()),
    'sv_reset': Cut(ILUK, r'void reset\(ptrdiff_t d\)\s*(?=\{)', rules=sv_rules()),
}

HELPERS_C = r'''
#define CAP_ROW (NMAX + 1)
#define CAP_FAC (NMAX * NMAX + 2)
/* data members of iluk::nonzero, sparse_vector::comp_indices and iluk::sparse_vector in declaration order;
 * std::deque<nonzero> / std::vector<ptrdiff_t> / std::priority_queue<int, std::vector<int>, comp_indices>: capacity-sized storage + logical length (A-vec) */
typedef struct { ptrdiff_t col; value_type val; int lev; } nonzero;
typedef struct { size_t n; nonzero d[CAP_ROW]; } deque_nz;
typedef struct { size_t n; ptrdiff_t d[CAP_ROW]; } vec_idx;
typedef struct { const deque_nz *nz; } comp_indices_t;
typedef struct { size_t n; int d[CAP_ROW]; comp_indices_t comp; } pqueue;
typedef struct { int lfil; deque_nz nz; vec_idx idx; pqueue q; ptrdiff_t dia; } sparse_vector;
#define DQ_PUSH(v, ...) ((v).n < CAP_ROW ? (void)((v).d[(v).n] = (__VA_ARGS__), (v).n++) : (void)(g_cap_exceeded = 1))
/* what initialising a member means (by member type) */
#define INIT(self, m, ...) INIT_##m(self, __VA_ARGS__)
#define INIT_col(self, x) ((self)->col = (x))
#define INIT_val(self, x) ((self)->val = (x))
#define INIT_lev(self, x) ((self)->lev = (x))
#define INIT_lfil(self, x) ((self)->lfil = (x))
#define INIT_dia(self, x) ((self)->dia = (x))
#define INIT_idx(self, n, x) vec_idx_fill(&(self)->idx, (n), (x))         /* std::vector<ptrdiff_t>(n, x); nz is default-constructed (empty) */
#define INIT_q(self, c) pq_init(&(self)->q, (c))
#define comp_indices(x) mk_comp_indices(&(x))
static void vec_idx_fill(vec_idx *v, size_t n, ptrdiff_t x)
{
  if (n > CAP_ROW) { g_cap_exceeded = 1; n = CAP_ROW; }
  v->n = n;
  for (size_t i = 0; i < CAP_ROW; ++i) if (i < n) v->d[i] = x;
}
static comp_indices_t mk_comp_indices(const deque_nz *nz) { comp_indices_t c; c.nz = nz; return c; }
/* nonzero(ptrdiff_t col, const value_type &val, int lev) */
static nonzero mk_nonzero(ptrdiff_t col, value_type val, int lev)
{
  nonzero r; nonzero *const self = &r;
/*@CUT:nz_init@*/
  return r;
}
/* friend bool operator<(const nonzero &a, const nonzero &b) */
static _Bool nonzero_less(const nonzero *a_p, const nonzero *b_p)
{
#define a (*a_p)
#define b (*b_p)
/*@CUT:nz_less@*/
#undef a
#undef b
}
/* bool comp_indices::operator()(int a, int b) const */
static _Bool comp_indices_call(const comp_indices_t *self, int a, int b)
{
/*@CUT:comp@*/
}
/* std::priority_queue<int, std::vector<int>, comp_indices> (A-std): top() is an element t such that comp(t, x) is false for every element x */
static void pq_init(pqueue *q, comp_indices_t c) { q->n = 0; q->comp = c; }
static _Bool pq_empty(const pqueue *q) { return q->n == 0; }
static void pq_push(pqueue *q, int p) { if (q->n < CAP_ROW) { q->d[q->n] = p; q->n++; } else g_cap_exceeded = 1; }
static size_t pq_best(const pqueue *q)
{
  size_t best = 0;
  for (size_t k = 1; k < CAP_ROW; ++k) if (k < q->n) { if (comp_indices_call(&q->comp, q->d[best], q->d[k])) best = k; }
  return best;
}
static void pq_nonempty(const pqueue *q)
{
#if defined(CXC_CBMC) && !defined(CXC_CANARY)
  __CPROVER_assert(q->n > 0, "safety.queue. top()/pop() of std::priority_queue called on a non-empty queue");
#endif
  (void)q;
}
static int pq_top(const pqueue *q) { pq_nonempty(q); return q->d[pq_best(q)]; }
static void pq_pop(pqueue *q)
{
  pq_nonempty(q);
  if (q->n == 0) return;
  const size_t b = pq_best(q);
  for (size_t k = 0; k + 1 < CAP_ROW; ++k) if (k >= b && k + 1 < q->n) q->d[k] = q->d[k + 1];
  q->n--;
}
/* std::sort(first, last) on a deque<nonzero> (A-std): ascending by operator< */
static void std_sort_dq(deque_nz *v)
{
  for (size_t i = 1; i < CAP_ROW; ++i) if (i < v->n) {
    const nonzero t = v->d[i];
    size_t j = i;
    for (size_t s = 0; s < CAP_ROW; ++s) if (j > 0 && nonzero_less(&t, &v->d[j - 1])) { v->d[j] = v->d[j - 1]; --j; }
    v->d[j] = t;
  }
}
/* sparse_vector(size_t n, int lfil) : lfil(lfil), idx(n, -1), q(comp_indices(nz)), dia(0) {} */
static void sv_ctor(sparse_vector *self, size_t n, int lfil)
{
  self->nz.n = 0;
/*@CUT:sv_init@*/
}
static void sv_add(sparse_vector *self, ptrdiff_t col, const value_type val, int lev)
{
/*@CUT:sv_add@*/
}
static nonzero *sv_next_nonzero(sparse_vector *self)
{
/*@CUT:sv_next@*/
}
static void sv_sort(sparse_vector *self)
{
/*@CUT:sv_sort@*/
}
static void sv_reset(sparse_vector *self, ptrdiff_t d)
{
/*@CUT:sv_reset@*/
}
'''

# ============================================================================ the constructor
CTOR_ANCHOR = r'template <class Matrix>\s*iluk\( const Matrix &A, const params &prm, const typename Backend::params &bprm\)\s*: prm\(prm\)\s*(?=\{)'
CTOR_VECS = discover_local_vectors(ILUK, CTOR_ANCHOR)

# member functions of the local sparse_vector object: w.f(args) -> sv_f(&w, args)
W_CALLS = [
    Rule(r'\bsparse_vector (\w+)\((?P<a>[^;]*)\);', r'sparse_vector \1; sv_ctor(&\1, \g<a>);', None, why='R-ctor sparse_vector w(n, k)'),
    Rule(r'\b(\w+)\.(reset|add)\(', r'sv_\2(&\1, ', None, why='R-member-call sparse_vector::reset/add'),
    Rule(r'\b(\w+)\.next_nonzero\(\)', r'(*sv_next_nonzero(&\1))', None, why='R-member-call sparse_vector::next_nonzero (returns a reference)'),
    Rule(r'\b(\w+)\.sort\(\)', r'sv_sort(&\1)', None, why='R-member-call sparse_vector::sort'),
    Rule(r'\b(\w+)\.q\.empty\(\)', r'pq_empty(&\1.q)', None, why='R-member-call priority_queue::empty'),
]


def ctor_rules(n_decl):
    return row_iter_rules(1, 1, 1) + [
        COMPOUND_OPT, NUMA_NEW, NUMA_DEREF,
        Rule(r'^\s*typedef [^;\n]*\bbuild_matrix;\n', '', None, why='R-tmpl: build_matrix = backend::crs<V, C, P> (typedef in the template)'),
        Rule(r'std_make_shared<build_matrix>\(', 'crs_from_ranges(', None, why='R-new make_shared<crs>(n, m, ptr, col, val): range constructor of crs (unit adapt_crs_range_ctor)'),
        Rule(r'^(\s*)ilu = std_make_shared<ilu_solve>\(', r'\1ILU_MADE(self, ', None,
             why='member ilu = make_shared<ilu_solve>(L, U, D, ...): ghost hook recording the arguments (the solver is unit ilu_serial_solve / sptr_*)'),
    ] + W_CALLS + [
        RangeFor(['nonzero'], None), RefDecl(['nonzero'], None),
        LocalVecs(CTOR_VECS, n_decl),
        IdxRule(r'A\.col|A\.val', 'nonzeros(A)', None), IdxRule(r'A\.ptr', 'rows(A) + 1', None), IdxRule(r'D', 'D_n', None),
        UFArgs(r'sv_add', None, skip=(0, 1, 3)), UFArgs(r'VPUSH_value_type', None, skip=(0,)),
    ]


CTOR_UF = [UFLvalues([VAL_LV, r'D\[[^;=]*\]'], None)]
CTOR_CUT = Cut(ILUK, CTOR_ANCHOR, rules=ctor_rules(len(CTOR_VECS)), uf=CTOR_UF)

CTOR_C = r'''
typedef crs build_matrix;
unsigned char nondet_uchar(void);
/* std::vector<T> locals of the constructor (A-vec); pushes on the std::vector<int> (the stored levels of the U entries) and on the value
 * vectors are additionally recorded in ghost logs, in order (keyed on the element TYPE of the vector, not on its name) */
typedef struct { size_t n; ptrdiff_t d[CAP_FAC]; } vec_ptrdiff_t;
typedef struct { size_t n; value_type d[CAP_FAC]; } vec_value_type;
typedef struct { size_t n; int d[CAP_FAC]; } vec_int;
static int g_ilog_n; static int g_ilog[CAP_FAC];
#define VPUSH_GEN(v, x) ((v).n < CAP_FAC ? (void)((v).d[(v).n] = (x), (v).n++) : (void)(g_cap_exceeded = 1))
#define VPUSH_ptrdiff_t(v, ...) VPUSH_GEN(v, (ptrdiff_t)(__VA_ARGS__))
#define VPUSH_value_type(v, ...) VPUSH_GEN(v, (__VA_ARGS__))
#define VPUSH_int(v, ...) do { const int x_ = (__VA_ARGS__); if (g_ilog_n < (int)CAP_FAC) g_ilog[g_ilog_n] = x_; g_ilog_n++; VPUSH_GEN(v, x_); } while (0)
/* backend::crs<V,C,P>(nrows, ncols, ptr_range, col_range, val_range): contract of unit adapt_crs_range_ctor (A-callee): throws when a range has the
 * wrong length, else a fresh owning matrix whose ptr / col / val equal the ranges entry by entry */
static crs *crs_from_ranges(size_t nrows, size_t ncols, vec_ptrdiff_t ptr, vec_ptrdiff_t col, vec_value_type val)
{
  crs *a = crs_new();
  a->nrows = nrows; a->ncols = ncols;
  if (ptr.n != nrows + 1) { g_thrown = 1; return a; }
  a->nnz = (size_t)ptr.d[nrows];
  if (col.n != a->nnz || val.n != a->nnz) { g_thrown = 1; return a; }
  a->ptr = (ptr_type *)malloc(sizeof(ptr_type) * CAP_FAC); a->col = (col_type *)malloc(sizeof(col_type) * CAP_FAC); a->val = (val_type *)malloc(sizeof(val_type) * CAP_FAC);
  for (size_t i = 0; i < CAP_FAC; ++i) { if (i < ptr.n) a->ptr[i] = ptr.d[i]; if (i < col.n) { a->col[i] = col.d[i]; a->val[i] = val.d[i]; } }
  return a;
}
/* ghost recording through the value-model macro (no code is retyped): which values were inverted, how often */
static int g_inv_calls; static V g_inv_arg[NMAX + 2];
static inline V rec_inverse(V a) { if (g_inv_calls < NMAX + 2) g_inv_arg[g_inv_calls] = a; g_inv_calls++; return __CPROVER_uninterpreted_inverse(a); }
#undef math_inverse
#define math_inverse(a) rec_inverse((V)(a))
/* iluk::params (k; damping and solve are not read by the constructor except to be passed on) and the member ilu */
typedef struct { int k; int solve; } iluk_params;
typedef struct { iluk_params prm; const crs *L; const crs *U; const V *D; size_t D_n; int made; } iluk_t;
#define ILU_MADE(self, l, u, d, sprm, bp) do { (self)->L = (l); (self)->U = (u); (self)->D = (d); (self)->D_n = d##_n; (self)->made++; } while (0)
'''

# ---------------------------------------------------------------------------- the level-of-fill definition (harness side, integers only)
SPEC_LEVELS = r'''
#define LEV_INF 100
/* level of one update: Saad, Iterative Methods, Def. 10.5 (sum rule: lev(i,p) + lev(p,j) + 1) or the recursive-product definition of
 * docs/components/relaxation.rst (ILU(k) pattern = pattern of L_{k-1} U_{k-1}: max(lev(i,p), lev(p,j)) + 1) */
#if LEVSUM
#define LEV_UPD(a, b) ((a) + (b) + 1)
#else
#define LEV_UPD(a, b) (((a) > (b) ? (a) : (b)) + 1)
#endif
static _Bool in_row(const crs *F, size_t i, size_t j)
{
  for (size_t e = 0; e < CAP_FAC; ++e) if ((ptrdiff_t)e >= F->ptr[i] && (ptrdiff_t)e < F->ptr[i + 1] && (size_t)F->col[e] == j) return 1;
  return 0;
}
/* factor F (lower != 0: L, else U): n x n, ptr from 0 monotone to nnz, every column strictly on its side of the diagonal, in range and strictly ascending */
static _Bool factor_wf(const crs *F, size_t n, _Bool lower)
{
  if (!(F->nrows == n && F->ncols == n && F->ptr != 0 && F->col != 0 && F->val != 0 && F->ptr[0] == 0)) return 0;
  for (size_t i = 0; i < NMAX; ++i) if (i < n) { if (!(F->ptr[i] <= F->ptr[i + 1])) return 0; }
  if (!(F->ptr[n] >= 0 && (size_t)F->ptr[n] == F->nnz && F->nnz < CAP_FAC)) return 0;
  for (size_t i = 0; i < NMAX; ++i) if (i < n)
    for (size_t e = 0; e < CAP_FAC; ++e) if ((ptrdiff_t)e >= F->ptr[i] && (ptrdiff_t)e < F->ptr[i + 1]) {
      if (lower ? !(F->col[e] >= 0 && (size_t)F->col[e] < i) : !((size_t)F->col[e] > i && (size_t)F->col[e] < n)) return 0;
      if ((ptrdiff_t)e + 1 < F->ptr[i + 1] && !(F->col[e] < F->col[e + 1])) return 0;
    }
  return 1;
}
'''

SPEC_CTOR = SPEC_LEVELS + r'''
WITNESS_CRS(A)
/* lev(i,j) for the whole matrix: 0 on the stored entries of A, then rows in order, pivots p < i ascending, only admitted (lev <= k) entries act
 * as pivots / as entries of the pivot row: lev(i,j) = min(lev(i,j), LEV_UPD(lev(i,p), lev(p,j))) for j > p   (IKJ form of the recurrence) */
static int g_lev[NMAX][NMAX];
static void spec_levels(const crs *A, size_t n, int k)
{
  for (size_t i = 0; i < NMAX; ++i) for (size_t j = 0; j < NMAX; ++j) g_lev[i][j] = (i < n && j < n && count_in_row(A, i, j) > 0) ? 0 : LEV_INF;
  for (size_t i = 0; i < NMAX; ++i) if (i < n)
    for (size_t p = 0; p < NMAX; ++p) if (p < i && g_lev[i][p] <= k)
      for (size_t j = 0; j < NMAX; ++j) if (j > p && j < n && g_lev[p][j] <= k) {
        const int l = LEV_UPD(g_lev[i][p], g_lev[p][j]);
        if (l < g_lev[i][j]) g_lev[i][j] = l;
      }
}
static _Bool one_diag_per_row_min(const crs *A)
{
  for (size_t i = 0; i < NMAX; ++i) if (i < A->nrows) { if (count_in_row(A, i, i) < 1) return 0; }
  return 1;
}
/* pattern clauses, lower != 0: L else U;  missing: an admitted position is not stored;  extra: a stored position is not admitted */
static _Bool pattern_no_missing(const crs *F, size_t n, int k, _Bool lower)
{
  for (size_t i = 0; i < NMAX; ++i) for (size_t j = 0; j < NMAX; ++j) if (i < n && j < n && (lower ? j < i : j > i)) { if (g_lev[i][j] <= k && !in_row(F, i, j)) return 0; }
  return 1;
}
static _Bool pattern_no_extra(const crs *F, size_t n, int k, _Bool lower)
{
  for (size_t i = 0; i < NMAX; ++i) for (size_t j = 0; j < NMAX; ++j) if (i < n && j < n && (lower ? j < i : j > i)) { if (g_lev[i][j] > k && in_row(F, i, j)) return 0; }
  return 1;
}
/* the level stored with U entry e (ghost log of the pushes on the std::vector<int>, same order as the entries of U) == lev(i, col) */
static _Bool stored_levels(const crs *U, size_t n)
{
  if (g_ilog_n < 0 || (size_t)g_ilog_n != U->nnz) return 0;
  for (size_t i = 0; i < NMAX; ++i) if (i < n)
    for (size_t e = 0; e < CAP_FAC; ++e) if ((ptrdiff_t)e >= U->ptr[i] && (ptrdiff_t)e < U->ptr[i + 1]) { if (g_ilog[e] != g_lev[i][U->col[e]]) return 0; }
  return 1;
}
'''

A_ILUK = A_RELAX + A_UF + A_UF16 + [
    'A-own: shared_ptr members are plain pointers; make_shared<numa_vector<V>>(n, false) is a fresh allocation of n cells with arbitrary content',
    'A-std-queue: std::priority_queue<int, vector<int>, comp_indices> is a constant-capacity array; top()/pop() select an element t with comp(t, x) false for all x, '
    'by a linear scan that calls the comparator cut from the repository; std::sort on the deque is an insertion sort that calls nonzero::operator< cut from the repository; '
    'std::deque<nonzero> is a constant-capacity array (references into it stay valid: deque::push_back does not invalidate references)',
    'A-callee: make_shared<build_matrix>(n, n, ptr, col, val) is the range constructor of crs by its contract (unit adapt_crs_range_ctor): entry-wise copy, throws on a wrong range length',
    'A-ghost: math::inverse is wrapped by a recording macro (argument log, call counter) around the same uninterpreted function; pushes on the std::vector<int> of stored levels are logged in order',
    'A-diag: every row of A has a stored diagonal entry (property quantifier "non-zero diagonal")',
]

NOT_DECIDED_ILUK = [
    'which value each factor entry holds ((L U)_ij = a_ij on the pattern): see candidate unit iluk_row_values',
    'OBSERVATION (outside the quantifier): unlike ilu0, iluk has no precondition() at all: a pivot that is_zero is inverted silently (Inf/NaN factors), a row without a stored '
    'diagonal leaves D[i] unwritten (uninitialised numa_vector cell)',
    'OBSERVATION: the level of an update is max(lev(i,p), lev(p,j)) + 1 in the code (iluk.hpp:128; the recursive-product definition of the documentation), not the sum rule '
    'lev(i,p) + lev(p,j) + 1 of Saad Def. 10.5; both agree for k <= 1 and for every n <= 4 at k = 2, the code keeps a superset of the sum-rule pattern from n = 5, k = 2 on',
    'n beyond the bound']

iluk_ctor = Unit(
    name='iluk_ctor', props=['C06', 'C10'],
    functions=['relaxation::iluk<Backend>::iluk(const Matrix&, const params&, const backend_params&)', 'iluk::sparse_vector::{sparse_vector, add, next_nonzero, sort, reset}',
               'iluk::sparse_vector::comp_indices::operator()', 'iluk::nonzero::{nonzero, operator<}'],
    desc='ILU(k) constructor, structure of the factors handed to the triangular solver: the kept pattern is EXACTLY the set of positions whose level of fill is <= k '
         '(lev = 0 on the stored entries of A, else min over pivots p < min(i,j) with lev(i,p) <= k, lev(p,j) <= k of the update level; computed by the harness on a dense integer '
         'table); no admitted position is missing, no position beyond level k is kept, in L and in U; the level stored with every U entry equals lev; L strictly lower, U strictly upper, '
         'columns in range and strictly ascending; D[i] = inverse of one value per row, inverted exactly once; no exception; every subscript within its array, top()/pop() only on a '
         'non-empty queue; A unchanged',
    cuts=dict(HELPER_CUTS, body=CTOR_CUT),
    template=UF16 + VEC_PRELUDE + HELPERS_C + CTOR_C + SPEC_CTOR + r"""
/* contract (enforced by the harness):
 *   requires  A n x n well-formed, every row has a stored diagonal entry (A-diag); rows in any order, duplicates allowed
 *             IN=1: every row holds exactly NMAX stored entries (any columns, the diagonal among them): every PATTERN with a full diagonal, duplicates where the
 *                   pattern row is shorter;  IN=0: rows strictly ascending (no duplicates), nnz <= ZMAX
 *             prm.k == K
 *   assigns   the fresh L, U, D
 *   ensures   the clauses below                                                                                   */
static void f_iluk(iluk_t *self, const crs *A_p, const iluk_params *prm_p, int bprm)
{
  self->prm = *prm_p;             /* : prm(prm) */
#define A (*A_p)
#define prm (*prm_p)
/*@CUT:body@*/
#undef A
#undef prm
}
void h_iluk(void)
{
  crs *A = crs_input();
#if IN
  size_t n0; REQUIRES(n0 <= NMAX);
  A->nrows = n0; A->ncols = n0; A->nnz = n0 * NMAX;
  for (size_t i = 0; i < CAP_PTR; ++i) A->ptr[i] = (ptr_type)(i <= n0 ? i * NMAX : n0 * NMAX);
  for (size_t j = 0; j < CAP_NNZ; ++j) { const unsigned char c = nondet_uchar(); A->col[j] = (col_type)(c & 7); }
  REQUIRES(crs_wf(A, NMAX, NMAX, ZMAX));
#else
  REQUIRES(crs_wf(A, NMAX, NMAX, ZMAX) && A->nrows == A->ncols && crs_rows_sorted(A, 1));
#endif
  const size_t n = A->nrows;
  REQUIRES(one_diag_per_row_min(A));
  MIRROR_CRS(A, A);
  crs_snap s; crs_snapshot(A, &s);
  spec_levels(A, n, K);
  iluk_params P; P.k = K; P.solve = 0;
  iluk_t S; S.L = 0; S.U = 0; S.D = 0; S.D_n = 0; S.made = 0;
  f_iluk(&S, A, &P, 0);
  ENSURES(!g_cap_exceeded, "bound artefact: allocation within verification capacity");
  ENSURES(crs_unchanged(A, &s), "frame: the input matrix is not modified");
  ENSURES(!g_thrown, "iluk: no exception on a matrix with a stored diagonal");
  ENSURES(S.made == 1 && S.L != 0 && S.U != 0 && S.D != 0 && S.D_n == n, "iluk: the triangular solver is made exactly once from (L, U, D), D has n cells");
  if (!g_thrown && S.made == 1 && S.L != 0 && S.U != 0 && S.D != 0) {
    const _Bool lwf = factor_wf(S.L, n, 1), uwf = factor_wf(S.U, n, 0);
    ENSURES(lwf, "iluk: L is n x n, ptr monotone from 0 to nnz, every column strictly LEFT of the diagonal and strictly ascending");
    ENSURES(uwf, "iluk: U is n x n, ptr monotone from 0 to nnz, every column strictly RIGHT of the diagonal, in range and strictly ascending");
    if (lwf && uwf) {
      ENSURES(pattern_no_missing(S.L, n, K, 1), "C06 ILU(k) pattern of L: every position (i,j), j < i, with level of fill <= k is kept");
      ENSURES(pattern_no_extra(S.L, n, K, 1), "C06 ILU(k) pattern of L: no position with level of fill > k is kept");
      ENSURES(pattern_no_missing(S.U, n, K, 0), "C06 ILU(k) pattern of U: every position (i,j), j > i, with level of fill <= k is kept");
      ENSURES(pattern_no_extra(S.U, n, K, 0), "C06 ILU(k) pattern of U: no position with level of fill > k is kept");
      ENSURES(stored_levels(S.U, n), "C06 ILU(k) levels: the level stored with every kept U entry (i,j) equals the level of fill lev(i,j) (minimum over ALL updates)");
    }
    _Bool dinv = g_inv_calls == (int)n;
    for (size_t i = 0; i < NMAX; ++i) if (i < n && dinv) { if (S.D[i] != __CPROVER_uninterpreted_inverse(g_inv_arg[i])) dinv = 0; }
    ENSURES(dinv, "iluk: exactly one inversion per row, D[i] == inverse(pivot_i)");
  }
  CANARY("harness.end");
}
""",
    entry='h_iluk', mode='unwound', unwind='NMAX*NMAX+3', model='uf',
    defines={'LEVSUM': 1, 'IN': 1},
    variants=[{'NMAX': 3, 'ZMAX': 9, 'K': 1}],
    bound_text='',
    assumptions=A_ILUK, replay='iluk', timeout=300, witness=wit('A'),
    not_decided=NOT_DECIDED_ILUK)

# per-loop limits (unwinding assertions stay on): rows <= n, stored entries of a row <= NMAX (IN=1: exactly NMAX slots; IN=0: strictly ascending), pivots of a row < n,
# entries of a U row < n, work vector <= n entries; stubs: CAP_ROW = NMAX + 1
ILUK_UNWINDSET = [(r'for\(ptrdiff_t i = 0;', 'NMAX+1'), (r'for \(ptrdiff_t a = A\.ptr', 'NMAX+1'), (r'while\(!pq_empty', 'NMAX+1'), (r'for\(ptrdiff_t j = Uptr', 'NMAX+1'),
                  (r'for \(size_t e_i = 0;', 'NMAX+2'), (r'< CAP_ROW;', 'NMAX+2'), (r'< NMAX;', 'NMAX+1')]
iluk_ctor.unwindset = ILUK_UNWINDSET

UNITS = [iluk_ctor]
CANDIDATE_DEFECT_UNITS = []
for _u in UNITS + CANDIDATE_DEFECT_UNITS:
    _u.replay_asan = True
