"""C06 incomplete factorisations with fill: relaxation::iluk, relaxation::ilup (+ detail::symb_product), ilut::sparse_vector::move_to.

  iluk_ctor          relaxation::iluk<Backend>::iluk(A, prm, bprm): STRUCTURE of L, U, D for every pattern with a stored diagonal, n <= 3, k concrete per
                     variant: kept pattern == {(i,j) : lev(i,j) <= k}, lev = the level-of-fill recurrence computed by the harness on a dense integer table
                     (IKJ order); the level recorded with every U entry == lev; establishes the loop invariant and runs the rows in order
  iluk_row_step      the BODY of the row loop of that constructor for ONE row i and an ARBITRARY well-formed predecessor state (U rows 0..i-1 with any
                     columns and any stored levels <= k, work vector satisfying the loop invariant), n <= 4: the inductive step of the same statement.
                     States that need n >= 5 / 6 to be reachable are covered here (seeded change C06: level lowered only when col < dia)
  iluk_row_values    the same step with the VALUE clause (numeric factorisation on the final pattern).  Fails on the unchanged tree: KNOWN FINDING F12
                     (single-pass ILU(k)); every other clause of the unit is exact.  props: C06 only
  ilup_symb_product  relaxation::detail::symb_product: boolean product pattern, rows strictly ascending, no values
  ilup_ctor          relaxation::ilup constructor, call level: k symbolic products A x A, (previous) x A; values of A merged into the pattern of A^(k+1);
                     ILU(0) made once from it (k == 0: from A)
  ilut_move_to       ilut::sparse_vector::move_to: dual threshold dropping of one row (p*l_i largest in L, p*u_i largest in U in addition to the diagonal)

Level rule: the code (iluk.hpp:128) and the documentation (recursive definition: ILU(k) pattern = pattern of L_{k-1} U_{k-1}) use max(lev(i,p), lev(p,j)) + 1; Saad's
Def. 10.5 uses the sum lev(i,p) + lev(p,j) + 1.  Both agree for k <= 1 and for every n <= 4 at k = 2; from n = 5, k = 2 on the code keeps a superset of the sum-rule
pattern (diag + (0,2),(1,4),(2,1),(3,0): (3,4) has max-level 2, sum-level 3).  The units use the MAX rule; -DLEVSUM=1 switches the harness to the sum rule (no unit
variant uses it: spec-vs-textbook note, not a finding).

All members of iluk::sparse_vector (constructor initialiser list, add, next_nonzero, sort, reset), iluk::nonzero (constructor initialiser list, operator<) and
sparse_vector::comp_indices::operator() are cut from /repo and run as C functions on a `self` struct; std::deque, std::vector, std::priority_queue, std::sort,
std::partition, std::nth_element are constant-capacity stubs that call the comparators / predicates cut from /repo (A-vec, A-std).  Bounded units, never counted as
proved.  Native replay: replay/iluk.cpp."""
import re
from cxc import extract as X
from cxc.extract import Cut, Rule, UF, IdxRule, UFArgs, ExtractError, match_close
from cxc.unit import Unit
from _common import member_rules, CRS_MEMBERS_C, crs_member_cuts
from _relax_common import A_RELAX, VEC_PRELUDE, row_iter_rules
from c06_kernels import COMPOUND, UF16, A_UF, A_UF16, NUMA_NEW, NUMA_DEREF, wit

ILUK = 'amgcl/relaxation/iluk.hpp'
COMPOUND_OPT = Rule(COMPOUND.pat, COMPOUND.repl, None, why=COMPOUND.why)     # same rewrite, may fire zero times (helper members without compound assignments)


# ============================================================================ rule objects (syntax only)
class InitList(object):
    """constructor initialiser list `m1(args), m2(args), ...` -> `INIT(self, m1, args); INIT(self, m2, args); ...`
    (the template says what initialising a member of that type means; nothing is keyed on the arguments)"""
    early = False

    def __init__(self, count='+'):
        self.count = count
        self.pat = 'InitList'

    def apply(self, text, log, generic=False):
        out, i, n = [], 0, 0
        rx = re.compile(r'\s*,?\s*(\w+)\s*\(')
        while True:
            m = rx.match(text, i)
            if not m:
                break
            k = m.end() - 1
            e = match_close(text, k)
            out.append('INIT(self, %s, %s);' % (m.group(1), text[k + 1:e]))
            i = e + 1
            n += 1
        if text[i:].strip():
            raise ExtractError('InitList: cannot parse %r' % text[i:i + 40])
        if (self.count == '+' and n < 1) or (isinstance(self.count, int) and n != self.count):
            raise ExtractError('InitList fired %d times, expected %s' % (n, self.count))
        log.append({'rule': 'R-init member initialiser list -> INIT(self, member, args)', 'fired': n})
        return ' '.join(out) + '\n'


class RefDecl(object):
    """`T &name = e;` (T one of `types`) -> `T *const name = &(e);` and every later `name.member` -> `name->member`
    (a C++ reference to an element of a container is a pointer to it; keyed on the declared type, not on the name).
    Measured alternative (reference = container + index, every access re-subscripted): 30 % slower in CBMC."""
    early = False

    def __init__(self, types, count='+'):
        self.types = types
        self.count = count
        self.pat = 'RefDecl ' + '|'.join(types)

    def apply(self, text, log, generic=False):
        rx = re.compile(r'\b(?P<c>const\s+)?(?P<t>%s)\s*&\s*(?P<n>\w+)\s*=\s*(?P<e>[^;]+);' % '|'.join(self.types))
        names = []
        while True:
            m = rx.search(text)
            if not m:
                break
            names.append(m.group('n'))
            head = text[:m.start()] + '%s%s *const %s = &(%s);' % (m.group('c') or '', m.group('t'), m.group('n'), m.group('e').strip())
            tail = re.sub(r'\b%s\.(?=[A-Za-z_])' % re.escape(m.group('n')), m.group('n') + '->', text[m.end():])
            text = head + tail
        n = len(names)
        if (self.count == '+' and n < 1) or (isinstance(self.count, int) and n != self.count):
            raise ExtractError('RefDecl fired %d times, expected %s' % (n, self.count))
        log.append({'rule': 'R-ref T &x = e -> T *const x = &(e); x.m -> x->m', 'fired': n, 'names': names})
        return text


class RangeFor(object):
    """`for(const T &e : C)` -> `for (size_t e_i = 0; e_i < (C).n; ++e_i)` and every later `e.member` -> `(C).d[e_i].member`
    (definition of the range-based for over a sequence container; C is a constant-capacity sequence, A-vec)"""
    early = False

    def __init__(self, types, count='+'):
        self.types = types
        self.count = count
        self.pat = 'RangeFor ' + '|'.join(types)

    def apply(self, text, log, generic=False):
        rx = re.compile(r'\bfor\s*\(\s*(?:const\s+)?(?:%s)\s*&\s*(?P<n>\w+)\s*:\s*(?P<c>[^()]+?)\s*\)' % '|'.join(self.types))
        n = 0
        while True:
            m = rx.search(text)
            if not m:
                break
            e, c = m.group('n'), m.group('c')
            head = text[:m.start()] + 'for (size_t %s_i = 0; %s_i < (%s).n; ++%s_i)' % (e, e, c, e)
            tail = re.sub(r'\b%s\.(?=[A-Za-z_])' % re.escape(e), '(%s).d[%s_i].' % (c, e), text[m.end():])
            text = head + tail
            n += 1
        if (self.count == '+' and n < 1) or (isinstance(self.count, int) and n != self.count):
            raise ExtractError('RangeFor fired %d times, expected %s' % (n, self.count))
        log.append({'rule': 'R-rangefor for(const T &e : C) -> index loop', 'fired': n})
        return text


def discover_local_vectors(src, anchor):
    """{name: element type} of the `std::vector<T> name;` locals declared in the body found by `anchor` (scanned in the CURRENT tree)"""
    try:
        text = X.read_repo(src)
        b, e, _ = Cut(src, anchor).locate(text)
    except Exception:
        return {}
    return dict((m.group(2), m.group(1)) for m in re.finditer(r'\bstd::vector<\s*(\w+)\s*>\s+(\w+)\s*;', text[b:e]))


class LocalVecs(object):
    """std::vector<T> locals (names discovered in the current tree, see discover_local_vectors) as constant-capacity arrays + logical length:
    declaration, reserve, push_back (typed macro: VPUSH_<T>), size(), subscripts (with logical-bounds obligations)"""
    early = False

    def __init__(self, names, n_decl=None):
        self.names = dict(names)
        self.n_decl = n_decl
        self.pat = 'LocalVecs ' + '|'.join(sorted(self.names))

    def apply(self, text, log, generic=False):
        if not self.names:
            raise ExtractError('LocalVecs: no std::vector locals discovered')
        alt = '|'.join(sorted(self.names, key=len, reverse=True))
        text, nd = re.subn(r'\bstd_vector<\s*(\w+)\s*>\s+(%s)\s*;' % alt, lambda m: 'vec_%s %s; %s.n = 0;' % (m.group(1), m.group(2), m.group(2)), text)
        if self.n_decl is not None and nd != self.n_decl:
            raise ExtractError('LocalVecs: %d declarations rewritten, expected %s' % (nd, self.n_decl))
        if re.search(r'\bstd_vector<', text):
            raise ExtractError('LocalVecs: a std::vector declaration is left')
        out, i, nc = [], 0, 0
        rx = re.compile(r'\b(%s)\.(reserve|push_back)\s*\(' % alt)
        while True:
            m = rx.search(text, i)
            if not m:
                out.append(text[i:])
                break
            k = m.end() - 1
            e = match_close(text, k)
            name, what = m.group(1), m.group(2)
            out.append(text[i:m.start()])
            if what == 'reserve':
                out.append('VRESERVE(%s, %s)' % (name, text[k + 1:e]))
            else:
                out.append('VPUSH_%s(%s, %s)' % (self.names[name], name, text[k + 1:e]))
            i = e + 1
            nc += 1
        text = ''.join(out)
        text, ns = re.subn(r'\b(%s)\.size\(\)' % alt, r'\1.n', text)
        text, nb = re.subn(r'\b(%s)\[' % alt, r'\1.d[', text)
        log.append({'rule': 'R-vec-local std::vector<T> locals -> array + logical length', 'decls': nd, 'calls': nc, 'size': ns, 'subscripts': nb,
                    'names': self.names})
        return IdxRule(r'(%s)\.d' % alt, r'\1.n', None).apply(text, log)


class UFLvalues(object):
    """value arithmetic -> UF form for every assignment whose lvalue matches one of `lvalues` (regexes on C lvalues of value type:
    members named by the struct definition, the cells of D).  Never keyed on the right-hand side."""

    def __init__(self, lvalues, count='+'):
        self.lvalues = lvalues
        self.count = count
        self.pat = 'UFLvalues'

    def apply(self, text, log):
        from cxc.extract import uf_expr
        fired = []

        def sub(m):
            e = m.group('e')
            new = uf_expr(e)
            fired.append((e.strip(), new))
            a, b = m.span('e')
            return m.group(0)[:a - m.start()] + new + m.group(0)[b - m.start():]

        n = 0
        for l in self.lvalues:
            text, k = re.subn(r'(?:(?<=[;{})])|(?<=\belse)|^)\s*(?:%s)\s*=\s*(?P<e>[^;=][^;]*);' % l, sub, text, flags=re.M)
            n += k
        if self.count == '+' and n < 1:
            raise ExtractError('UFLvalues fired 0 times')
        log.append({'rule': 'R-arith assignments to value-typed lvalues', 'fired': n, 'rewrites': [{'from': a, 'to': b} for a, b in fired]})
        return text


# ============================================================================ the C view of the helper structs
# value-typed data members of iluk::nonzero, read from the struct definition in the current tree (fallback: the current name)
def _value_members():
    try:
        text = X.read_repo(ILUK)
        b, e, _ = Cut(ILUK, r'struct nonzero\s*(?=\{)').locate(text)
        ms = re.findall(r'\bvalue_type\s+(\w+)\s*;', text[b:e])
        return ms or ['val']
    except Exception:
        return ['val']


VAL_MEMBERS = _value_members()
VAL_LV = r'[^;{}=]*?(?:->|\.)(?:%s)' % '|'.join(VAL_MEMBERS)

SV_MEMBERS = ['lfil', 'nz', 'idx', 'q', 'dia']
# subscripts of the member containers: first `m[` -> `m.d[`, then the bounds obligations (inner subscript first: IdxRule does not descend)
SV_SUBS = [Rule(r'(self->(?:nz|idx))\[', r'\1.d[', None, why='R-vec-member v[k] -> v.d[k]'),
           IdxRule(r'self->idx\.d', 'self->idx.n', None), IdxRule(r'self->nz\.d', 'self->nz.n', None)]
SV_CALLS = [
    Rule(r'(self->nz)\.push_back\((?P<x>[^;]*)\);', r'DQ_PUSH(\1, \g<x>);', None, why='R-vec-member deque::push_back'),
    Rule(r'(self->nz)\.size\(\)', r'\1.n', None, why='R-vec-member deque::size'),
    Rule(r'(self->nz)\.clear\(\);', r'\1.n = 0;', None, why='R-vec-member deque::clear'),
    Rule(r'\bnonzero\((?=[^)])', 'mk_nonzero(', None, why='R-ctor nonzero(col, val, lev)'),
    Rule(r'(self->q)\.push\(', r'pq_push(&\1, ', None, why='R-member-call priority_queue::push'),
    Rule(r'(self->q)\.top\(\)', r'pq_top(&\1)', None, why='R-member-call priority_queue::top'),
    Rule(r'(self->q)\.pop\(\)', r'pq_pop(&\1)', None, why='R-member-call priority_queue::pop'),
    Rule(r'std_sort\(([\w>.\-]+)\.begin\(\), \1\.end\(\)\);', r'std_sort_dq(&\1);', None, why='R-std std::sort(c.begin(), c.end()) -> prelude stub using nonzero::operator<'),
]


def sv_rules(extra=()):
    return [COMPOUND_OPT] + member_rules(SV_MEMBERS) + [RangeFor(['nonzero'], None), RefDecl(['nonzero'], None)] + SV_CALLS + list(extra) + SV_SUBS


SV_UF = [UFLvalues([VAL_LV], None)]

HELPER_CUTS = {
    'nz_init': Cut(ILUK, r'nonzero\(ptrdiff_t col, const value_type &val, int lev\)\s*:', kind='region', begin_exclusive=True, end=r'\{\}', rules=[InitList(3)]),
    'nz_less': Cut(ILUK, r'friend bool operator<\(const nonzero &a, const nonzero &b\)\s*(?=\{)'),
    'comp': Cut(ILUK, r'bool operator\(\)\(int a, int b\) const\s*(?=\{)',
                rules=[Rule(r'(?<![\w.>])nz\[', 'self->nz->d[', '+', why='R-member reference member nz of comp_indices'), IdxRule(r'self->nz->d', 'self->nz->n', '+')]),
    'sv_init': Cut(ILUK, r'sparse_vector\(size_t n, int lfil\)\s*:', kind='region', begin_exclusive=True, end=r'\{\}',
                   rules=member_rules(['nz', 'idx', 'q', 'dia']) + [InitList(4)]),     # lfil: the parameter shadows the member inside the list
    'sv_add': Cut(ILUK, r'void add\(ptrdiff_t col, const value_type &val, int lev\)\s*(?=\{)', rules=sv_rules(), uf=SV_UF),
    'sv_next': Cut(ILUK, r'nonzero& next_nonzero\(\)\s*(?=\{)', rules=sv_rules([Rule(r'\breturn ([^;]+);', r'return &(\1);', 1, why='R-ref function returning a reference -> pointer')])),
    'sv_sort': Cut(ILUK, r'void sort\(\)\s*(?=\{)', rules=sv_rules()),
    'sv_reset': Cut(ILUK, r'void reset\(ptrdiff_t d\)\s*(?=\{)', rules=sv_rules()),
}

HELPERS_C = r'''
#define CAP_ROW (NMAX + 1)
#ifndef CAP_FAC
#define CAP_FAC ((NMAX * (NMAX - 1)) / 2 + 2)      /* a strictly triangular factor of an n x n matrix has <= n(n-1)/2 entries; n + 1 row pointers */
#endif
/* data members of iluk::nonzero, sparse_vector::comp_indices and iluk::sparse_vector in declaration order;
 * std::deque<nonzero> / std::vector<ptrdiff_t> / std::priority_queue<int, std::vector<int>, comp_indices>: capacity-sized storage + logical length (A-vec) */
typedef struct { ptrdiff_t col; value_type val; int lev; } nonzero;
typedef struct { size_t n; nonzero d[CAP_ROW]; } deque_nz;
typedef struct { size_t n; ptrdiff_t d[CAP_ROW]; } vec_idx;
typedef struct { const deque_nz *nz; } comp_indices_t;
typedef struct { size_t n; int d[CAP_ROW]; comp_indices_t comp; } pqueue;
typedef struct { int lfil; deque_nz nz; vec_idx idx; pqueue q; ptrdiff_t dia; } sparse_vector;
#define DQ_PUSH(v, ...) ((v).n < CAP_ROW ? (void)((v).d[(v).n] = (__VA_ARGS__), (v).n++) : (void)(g_cap_exceeded = 1))
/* what initialising a member means (by member type) */
#define INIT(self, m, ...) INIT_##m(self, __VA_ARGS__)
#define INIT_col(self, x) ((self)->col = (x))
#define INIT_val(self, x) ((self)->val = (x))
#define INIT_lev(self, x) ((self)->lev = (x))
#define INIT_lfil(self, x) ((self)->lfil = (x))
#define INIT_dia(self, x) ((self)->dia = (x))
#define INIT_idx(self, n, x) vec_idx_fill(&(self)->idx, (n), (x))         /* std::vector<ptrdiff_t>(n, x); nz is default-constructed (empty) */
#define INIT_q(self, c) pq_init(&(self)->q, (c))
#define comp_indices(x) mk_comp_indices(&(x))
static void vec_idx_fill(vec_idx *v, size_t n, ptrdiff_t x)
{
  if (n > CAP_ROW) { g_cap_exceeded = 1; n = CAP_ROW; }
  v->n = n;
  for (size_t i = 0; i < CAP_ROW; ++i) if (i < n) v->d[i] = x;
}
static comp_indices_t mk_comp_indices(const deque_nz *nz) { comp_indices_t c; c.nz = nz; return c; }
/* nonzero(ptrdiff_t col, const value_type &val, int lev) */
static nonzero mk_nonzero(ptrdiff_t col, value_type val, int lev)
{
  nonzero r; nonzero *const self = &r;
/*@CUT:nz_init@*/
  return r;
}
/* friend bool operator<(const nonzero &a, const nonzero &b) */
static _Bool nonzero_less(const nonzero *a_p, const nonzero *b_p)
{
#define a (*a_p)
#define b (*b_p)
/*@CUT:nz_less@*/
#undef a
#undef b
}
/* bool comp_indices::operator()(int a, int b) const */
static _Bool comp_indices_call(const comp_indices_t *self, int a, int b)
{
/*@CUT:comp@*/
}
/* std::priority_queue<int, std::vector<int>, comp_indices> (A-std): top() is an element t such that comp(t, x) is false for every element x */
static void pq_init(pqueue *q, comp_indices_t c) { q->n = 0; q->comp = c; }
static _Bool pq_empty(const pqueue *q) { return q->n == 0; }
static void pq_push(pqueue *q, int p) { if (q->n < CAP_ROW) { q->d[q->n] = p; q->n++; } else g_cap_exceeded = 1; }
static size_t pq_best(const pqueue *q)
{
  size_t best = 0;
  for (size_t k = 1; k < CAP_ROW; ++k) if (k < q->n) { if (comp_indices_call(&q->comp, q->d[best], q->d[k])) best = k; }
  return best;
}
static void pq_nonempty(const pqueue *q)
{
#if defined(CXC_CBMC) && !defined(CXC_CANARY)
  __CPROVER_assert(q->n > 0, "safety.queue. top()/pop() of std::priority_queue called on a non-empty queue");
#endif
  (void)q;
}
static int pq_top(const pqueue *q) { pq_nonempty(q); return q->d[pq_best(q)]; }
static void pq_pop(pqueue *q)
{
  pq_nonempty(q);
  if (q->n == 0) return;
  const size_t b = pq_best(q);
  for (size_t k = 0; k + 1 < CAP_ROW; ++k) if (k >= b && k + 1 < q->n) q->d[k] = q->d[k + 1];
  q->n--;
}
/* std::sort(first, last) on a deque<nonzero> (A-std): ascending by operator< */
static void std_sort_dq(deque_nz *v)
{
  for (size_t i = 1; i < CAP_ROW; ++i) if (i < v->n) {
    const nonzero t = v->d[i];
    size_t j = i;
    for (size_t s = 0; s < CAP_ROW; ++s) if (j > 0 && nonzero_less(&t, &v->d[j - 1])) { v->d[j] = v->d[j - 1]; --j; }
    v->d[j] = t;
  }
}
/* sparse_vector(size_t n, int lfil) : lfil(lfil), idx(n, -1), q(comp_indices(nz)), dia(0) {} */
static void sv_ctor(sparse_vector *self, size_t n, int lfil)
{
  self->nz.n = 0;
/*@CUT:sv_init@*/
}
static void sv_add(sparse_vector *self, ptrdiff_t col, const value_type val, int lev)
{
/*@CUT:sv_add@*/
}
static nonzero *sv_next_nonzero(sparse_vector *self)
{
/*@CUT:sv_next@*/
}
static void sv_sort(sparse_vector *self)
{
/*@CUT:sv_sort@*/
}
static void sv_reset(sparse_vector *self, ptrdiff_t d)
{
/*@CUT:sv_reset@*/
}
'''

# ============================================================================ the constructor
CTOR_ANCHOR = r'template <class Matrix>\s*iluk\( const Matrix &A, const params &prm, const typename Backend::params &bprm\)\s*: prm\(prm\)\s*(?=\{)'
CTOR_VECS = discover_local_vectors(ILUK, CTOR_ANCHOR)

# member functions of the local sparse_vector object: w.f(args) -> sv_f(&w, args)
W_CALLS = [
    Rule(r'\bsparse_vector (\w+)\((?P<a>[^;]*)\);', r'sparse_vector \1; sv_ctor(&\1, \g<a>);', None, why='R-ctor sparse_vector w(n, k)'),
    Rule(r'\b(\w+)\.(reset|add)\(', r'sv_\2(&\1, ', None, why='R-member-call sparse_vector::reset/add'),
    Rule(r'\b(\w+)\.next_nonzero\(\)', r'(*sv_next_nonzero(&\1))', None, why='R-member-call sparse_vector::next_nonzero (returns a reference)'),
    Rule(r'\b(\w+)\.sort\(\)', r'sv_sort(&\1)', None, why='R-member-call sparse_vector::sort'),
    Rule(r'\b(\w+)\.q\.empty\(\)', r'pq_empty(&\1.q)', None, why='R-member-call priority_queue::empty'),
]


def ctor_rules(n_decl, with_new=True):
    return row_iter_rules(1, 1, 1) + [
        COMPOUND_OPT] + ([NUMA_NEW] if with_new else []) + [NUMA_DEREF,
        Rule(r'^\s*typedef [^;\n]*\bbuild_matrix;\n', '', None, why='R-tmpl: build_matrix = backend::crs<V, C, P> (typedef in the template)'),
        Rule(r'std_make_shared<build_matrix>\(', 'crs_from_ranges(', None, why='R-new make_shared<crs>(n, m, ptr, col, val): range constructor of crs (unit adapt_crs_range_ctor)'),
        Rule(r'^(\s*)ilu = std_make_shared<ilu_solve>\(', r'\1ILU_MADE(self, ', None,
             why='member ilu = make_shared<ilu_solve>(L, U, D, ...): ghost hook recording the arguments (the solver is unit ilu_serial_solve / sptr_*)'),
    ] + W_CALLS + [
        RangeFor(['nonzero'], None), RefDecl(['nonzero'], None),
        LocalVecs(CTOR_VECS, n_decl),
        IdxRule(r'A\.col|A\.val', 'nonzeros(A)', None), IdxRule(r'A\.ptr', 'rows(A) + 1', None), IdxRule(r'D', 'D_n', None),
        UFArgs(r'sv_add', None, skip=(0, 1, 3)), UFArgs(r'VPUSH_value_type', None, skip=(0,)),
    ]


CTOR_UF = [UFLvalues([VAL_LV, r'D\[[^;=]*\]'], None)]
CTOR_CUT = Cut(ILUK, CTOR_ANCHOR, rules=ctor_rules(len(CTOR_VECS)), uf=CTOR_UF)

CTOR_C = r'''
typedef crs build_matrix;
unsigned char nondet_uchar(void);
/* std::vector<T> locals of the constructor (A-vec); pushes on the std::vector<int> (the stored levels of the U entries) and on the value
 * vectors are additionally recorded in ghost logs, in order (keyed on the element TYPE of the vector, not on its name) */
typedef struct { size_t n; ptrdiff_t d[CAP_FAC]; } vec_ptrdiff_t;
typedef struct { size_t n; value_type d[CAP_FAC]; } vec_value_type;
typedef struct { size_t n; int d[CAP_FAC]; } vec_int;
static int g_ilog_n; static int g_ilog[CAP_FAC];
#define VPUSH_GEN(v, x) ((v).n < CAP_FAC ? (void)((v).d[(v).n] = (x), (v).n++) : (void)(g_cap_exceeded = 1))
#define VPUSH_ptrdiff_t(v, ...) VPUSH_GEN(v, (ptrdiff_t)(__VA_ARGS__))
#define VPUSH_value_type(v, ...) VPUSH_GEN(v, (__VA_ARGS__))
#define VPUSH_int(v, ...) do { const int x_ = (__VA_ARGS__); if (g_ilog_n < (int)CAP_FAC) g_ilog[g_ilog_n] = x_; g_ilog_n++; VPUSH_GEN(v, x_); } while (0)
/* backend::crs<V,C,P>(nrows, ncols, ptr_range, col_range, val_range): contract of unit adapt_crs_range_ctor (A-callee): throws when a range has the
 * wrong length, else a fresh owning matrix whose ptr / col / val equal the ranges entry by entry */
static crs *crs_from_ranges(size_t nrows, size_t ncols, vec_ptrdiff_t ptr, vec_ptrdiff_t col, vec_value_type val)
{
  crs *a = crs_new();
  a->nrows = nrows; a->ncols = ncols;
  if (ptr.n != nrows + 1) { g_thrown = 1; return a; }
  a->nnz = (size_t)ptr.d[nrows];
  if (col.n != a->nnz || val.n != a->nnz) { g_thrown = 1; return a; }
  a->ptr = (ptr_type *)malloc(sizeof(ptr_type) * CAP_FAC); a->col = (col_type *)malloc(sizeof(col_type) * CAP_FAC); a->val = (val_type *)malloc(sizeof(val_type) * CAP_FAC);
  for (size_t i = 0; i < CAP_FAC; ++i) { if (i < ptr.n) a->ptr[i] = ptr.d[i]; if (i < col.n) { a->col[i] = col.d[i]; a->val[i] = val.d[i]; } }
  return a;
}
/* ghost recording through the value-model macro (no code is retyped): which values were inverted, how often */
static int g_inv_calls; static V g_inv_arg[NMAX + 2];
static inline V rec_inverse(V a) { if (g_inv_calls < NMAX + 2) g_inv_arg[g_inv_calls] = a; g_inv_calls++; return __CPROVER_uninterpreted_inverse(a); }
#undef math_inverse
#define math_inverse(a) rec_inverse((V)(a))
/* iluk::params (k; damping and solve are not read by the constructor except to be passed on) and the member ilu */
typedef struct { int k; int solve; } iluk_params;
typedef struct { iluk_params prm; const crs *L; const crs *U; const V *D; size_t D_n; int made; } iluk_t;
#define ILU_MADE(self, l, u, d, sprm, bp) do { (self)->L = (l); (self)->U = (u); (self)->D = (d); (self)->D_n = d##_n; (self)->made++; } while (0)
'''

# ---------------------------------------------------------------------------- the level-of-fill definition (harness side, integers only)
SPEC_LEVELS = r'''
#define LEV_INF 100
/* level of one update: Saad, Iterative Methods, Def. 10.5 (sum rule: lev(i,p) + lev(p,j) + 1) or the recursive-product definition of
 * docs/components/relaxation.rst (ILU(k) pattern = pattern of L_{k-1} U_{k-1}: max(lev(i,p), lev(p,j)) + 1) */
#if LEVSUM
#define LEV_UPD(a, b) ((a) + (b) + 1)
#else
#define LEV_UPD(a, b) (((a) > (b) ? (a) : (b)) + 1)
#endif
static _Bool in_row(const crs *F, size_t i, size_t j)
{
  for (size_t e = 0; e < CAP_FAC; ++e) if ((ptrdiff_t)e >= F->ptr[i] && (ptrdiff_t)e < F->ptr[i + 1] && (size_t)F->col[e] == j) return 1;
  return 0;
}
/* factor F (lower != 0: L, else U): n x n, ptr from 0 monotone to nnz, every column strictly on its side of the diagonal, in range and strictly ascending */
static _Bool factor_wf(const crs *F, size_t n, _Bool lower)
{
  if (!(F->nrows == n && F->ncols == n && F->ptr != 0 && F->col != 0 && F->val != 0 && F->ptr[0] == 0)) return 0;
  for (size_t i = 0; i < NMAX; ++i) if (i < n) { if (!(F->ptr[i] <= F->ptr[i + 1])) return 0; }
  if (!(F->ptr[n] >= 0 && (size_t)F->ptr[n] == F->nnz && F->nnz < CAP_FAC)) return 0;
  for (size_t i = 0; i < NMAX; ++i) if (i < n)
    for (size_t e = 0; e < CAP_FAC; ++e) if ((ptrdiff_t)e >= F->ptr[i] && (ptrdiff_t)e < F->ptr[i + 1]) {
      if (lower ? !(F->col[e] >= 0 && (size_t)F->col[e] < i) : !((size_t)F->col[e] > i && (size_t)F->col[e] < n)) return 0;
      if ((ptrdiff_t)e + 1 < F->ptr[i + 1] && !(F->col[e] < F->col[e + 1])) return 0;
    }
  return 1;
}
'''

SPEC_CTOR = SPEC_LEVELS + r'''
WITNESS_CRS(A)
/* lev(i,j) for the whole matrix: 0 on the stored entries of A, then rows in order, pivots p < i ascending, only admitted (lev <= k) entries act
 * as pivots / as entries of the pivot row: lev(i,j) = min(lev(i,j), LEV_UPD(lev(i,p), lev(p,j))) for j > p   (IKJ form of the recurrence) */
static int g_lev[NMAX][NMAX];
static void spec_levels(const crs *A, size_t n, int k)
{
  for (size_t i = 0; i < NMAX; ++i) for (size_t j = 0; j < NMAX; ++j) g_lev[i][j] = (i < n && j < n && count_in_row(A, i, j) > 0) ? 0 : LEV_INF;
  for (size_t i = 0; i < NMAX; ++i) if (i < n)
    for (size_t p = 0; p < NMAX; ++p) if (p < i && g_lev[i][p] <= k)
      for (size_t j = 0; j < NMAX; ++j) if (j > p && j < n && g_lev[p][j] <= k) {
        const int l = LEV_UPD(g_lev[i][p], g_lev[p][j]);
        if (l < g_lev[i][j]) g_lev[i][j] = l;
      }
}
static _Bool one_diag_per_row_min(const crs *A)
{
  for (size_t i = 0; i < NMAX; ++i) if (i < A->nrows) { if (count_in_row(A, i, i) < 1) return 0; }
  return 1;
}
/* pattern clauses, lower != 0: L else U;  missing: an admitted position is not stored;  extra: a stored position is not admitted */
static _Bool pattern_no_missing(const crs *F, size_t n, int k, _Bool lower)
{
  for (size_t i = 0; i < NMAX; ++i) for (size_t j = 0; j < NMAX; ++j) if (i < n && j < n && (lower ? j < i : j > i)) { if (g_lev[i][j] <= k && !in_row(F, i, j)) return 0; }
  return 1;
}
static _Bool pattern_no_extra(const crs *F, size_t n, int k, _Bool lower)
{
  for (size_t i = 0; i < NMAX; ++i) for (size_t j = 0; j < NMAX; ++j) if (i < n && j < n && (lower ? j < i : j > i)) { if (g_lev[i][j] > k && in_row(F, i, j)) return 0; }
  return 1;
}
/* the level stored with U entry e (ghost log of the pushes on the std::vector<int>, same order as the entries of U) == lev(i, col) */
static _Bool stored_levels(const crs *U, size_t n)
{
  if (g_ilog_n < 0 || (size_t)g_ilog_n != U->nnz) return 0;
  for (size_t i = 0; i < NMAX; ++i) if (i < n)
    for (size_t e = 0; e < CAP_FAC; ++e) if ((ptrdiff_t)e >= U->ptr[i] && (ptrdiff_t)e < U->ptr[i + 1]) { if (g_ilog[e] != g_lev[i][U->col[e]]) return 0; }
  return 1;
}
'''

A_ILUK = A_RELAX + A_UF + A_UF16 + [
    'A-own: shared_ptr members are plain pointers; make_shared<numa_vector<V>>(n, false) is a fresh allocation of n cells with arbitrary content',
    'A-std-queue: std::priority_queue<int, vector<int>, comp_indices> is a constant-capacity array; top()/pop() select an element t with comp(t, x) false for all x, '
    'by a linear scan that calls the comparator cut from the repository; std::sort on the deque is an insertion sort that calls nonzero::operator< cut from the repository; '
    'std::deque<nonzero> is a constant-capacity array (references into it stay valid: deque::push_back does not invalidate references)',
    'A-callee: make_shared<build_matrix>(n, n, ptr, col, val) is the range constructor of crs by its contract (unit adapt_crs_range_ctor): entry-wise copy, throws on a wrong range length',
    'A-ghost: math::inverse is wrapped by a recording macro (argument log, call counter) around the same uninterpreted function; pushes on the std::vector<int> of stored levels are logged in order',
    'A-diag: every row of A has a stored diagonal entry (property quantifier "non-zero diagonal")',
]

NOT_DECIDED_ILUK = [
    'which value each factor entry holds ((L U)_ij = a_ij on the pattern): see candidate unit iluk_row_values',
    'OBSERVATION (outside the quantifier): unlike ilu0, iluk has no precondition() at all: a pivot that is_zero is inverted silently (Inf/NaN factors), a row without a stored '
    'diagonal leaves D[i] unwritten (uninitialised numa_vector cell)',
    'OBSERVATION: the level of an update is max(lev(i,p), lev(p,j)) + 1 in the code (iluk.hpp:128; the recursive-product definition of the documentation), not the sum rule '
    'lev(i,p) + lev(p,j) + 1 of Saad Def. 10.5; both agree for k <= 1 and for every n <= 4 at k = 2, the code keeps a superset of the sum-rule pattern from n = 5, k = 2 on',
    'n beyond the bound']

iluk_ctor = Unit(
    name='iluk_ctor', props=['C06', 'C10'],
    functions=['relaxation::iluk<Backend>::iluk(const Matrix&, const params&, const backend_params&)', 'iluk::sparse_vector::{sparse_vector, add, next_nonzero, sort, reset}',
               'iluk::sparse_vector::comp_indices::operator()', 'iluk::nonzero::{nonzero, operator<}'],
    desc='ILU(k) constructor, structure of the factors handed to the triangular solver: the kept pattern is EXACTLY the set of positions whose level of fill is <= k '
         '(lev = 0 on the stored entries of A, else min over pivots p < min(i,j) with lev(i,p) <= k, lev(p,j) <= k of the update level; computed by the harness on a dense integer '
         'table); no admitted position is missing, no position beyond level k is kept, in L and in U; the level stored with every U entry equals lev; L strictly lower, U strictly upper, '
         'columns in range and strictly ascending; D[i] = inverse of one value per row, inverted exactly once; no exception; every subscript within its array, top()/pop() only on a '
         'non-empty queue; A unchanged',
    cuts=dict(HELPER_CUTS, body=CTOR_CUT),
    template=UF16 + VEC_PRELUDE + HELPERS_C + CTOR_C + SPEC_CTOR + r"""
/* contract (enforced by the harness):
 *   requires  A n x n well-formed, every row has a stored diagonal entry (A-diag); rows in any order, duplicates allowed
 *             IN=1: every row holds exactly NMAX stored entries (any columns, the diagonal among them): every PATTERN with a full diagonal, duplicates where the
 *                   pattern row is shorter;  IN=0: rows strictly ascending (no duplicates), nnz <= ZMAX
 *             prm.k == K
 *   assigns   the fresh L, U, D
 *   ensures   the clauses below                                                                                   */
static void f_iluk(iluk_t *self, const crs *A_p, const iluk_params *prm_p, int bprm)
{
  self->prm = *prm_p;             /* : prm(prm) */
#define A (*A_p)
#define prm (*prm_p)
/*@CUT:body@*/
#undef A
#undef prm
}
void h_iluk(void)
{
  crs *A = crs_input();
#if IN
  size_t n0; REQUIRES(n0 <= NMAX);
  A->nrows = n0; A->ncols = n0; A->nnz = n0 * NMAX;
  for (size_t i = 0; i < CAP_PTR; ++i) A->ptr[i] = (ptr_type)(i <= n0 ? i * NMAX : n0 * NMAX);
  for (size_t j = 0; j < CAP_NNZ; ++j) { const unsigned char c = nondet_uchar(); A->col[j] = (col_type)(c & 7); }
  REQUIRES(crs_wf(A, NMAX, NMAX, ZMAX));
#else
  REQUIRES(crs_wf(A, NMAX, NMAX, ZMAX) && A->nrows == A->ncols && crs_rows_sorted(A, 1));
#endif
  const size_t n = A->nrows;
  REQUIRES(one_diag_per_row_min(A));
  MIRROR_CRS(A, A);
  crs_snap s; crs_snapshot(A, &s);
  spec_levels(A, n, K);
  iluk_params P; P.k = K; P.solve = 0;
  iluk_t S; S.L = 0; S.U = 0; S.D = 0; S.D_n = 0; S.made = 0;
  f_iluk(&S, A, &P, 0);
  ENSURES(!g_cap_exceeded, "bound artefact: allocation within verification capacity");
  ENSURES(crs_unchanged(A, &s), "frame: the input matrix is not modified");
  ENSURES(!g_thrown, "iluk: no exception on a matrix with a stored diagonal");
  ENSURES(S.made == 1 && S.L != 0 && S.U != 0 && S.D != 0 && S.D_n == n, "iluk: the triangular solver is made exactly once from (L, U, D), D has n cells");
  if (!g_thrown && S.made == 1 && S.L != 0 && S.U != 0 && S.D != 0) {
    const _Bool lwf = factor_wf(S.L, n, 1), uwf = factor_wf(S.U, n, 0);
    ENSURES(lwf, "iluk: L is n x n, ptr monotone from 0 to nnz, every column strictly LEFT of the diagonal and strictly ascending");
    ENSURES(uwf, "iluk: U is n x n, ptr monotone from 0 to nnz, every column strictly RIGHT of the diagonal, in range and strictly ascending");
    if (lwf && uwf) {
      ENSURES(pattern_no_missing(S.L, n, K, 1), "C06 ILU(k) pattern of L: every position (i,j), j < i, with level of fill <= k is kept");
      ENSURES(pattern_no_extra(S.L, n, K, 1), "C06 ILU(k) pattern of L: no position with level of fill > k is kept");
      ENSURES(pattern_no_missing(S.U, n, K, 0), "C06 ILU(k) pattern of U: every position (i,j), j > i, with level of fill <= k is kept");
      ENSURES(pattern_no_extra(S.U, n, K, 0), "C06 ILU(k) pattern of U: no position with level of fill > k is kept");
      ENSURES(stored_levels(S.U, n), "C06 ILU(k) levels: the level stored with every kept U entry (i,j) equals the level of fill lev(i,j) (minimum over ALL updates)");
    }
    _Bool dinv = g_inv_calls == (int)n;
    for (size_t i = 0; i < NMAX; ++i) if (i < n && dinv) { if (S.D[i] != __CPROVER_uninterpreted_inverse(g_inv_arg[i])) dinv = 0; }
    ENSURES(dinv, "iluk: exactly one inversion per row, D[i] == inverse(pivot_i)");
  }
  CANARY("harness.end");
}
""",
    entry='h_iluk', mode='unwound', unwind='NMAX*NMAX+3', model='uf',
    defines={'LEVSUM': 0, 'IN': 1},
    variants=[{'NMAX': 3, 'ZMAX': 9, 'K': 1}, {'NMAX': 3, 'ZMAX': 6, 'K': 0, 'IN': 0}, {'NMAX': 3, 'ZMAX': 6, 'K': 1, 'IN': 0}],
    thorough_variants=[{'NMAX': 3, 'ZMAX': 9, 'K': 1}, {'NMAX': 3, 'ZMAX': 9, 'K': 0}, {'NMAX': 3, 'ZMAX': 9, 'K': 2}, {'NMAX': 3, 'ZMAX': 9, 'K': 1, 'IN': 0}, {'NMAX': 3, 'ZMAX': 9, 'K': 0, 'IN': 0}],
    bound_text='n <= 3; k = 1: EVERY pattern with a stored diagonal (each row holds 3 stored entries in any order, duplicates where the pattern row is shorter); k = 0 and k = 1: rows strictly '
               'ascending without duplicates, nnz <= 6 (thorough: nnz <= 9 and k = 2; n <= 4 is not run: one row of n = 4 costs about as much as the whole n = 3 matrix, see iluk_row_step); '
               'values uninterpreted (measured 45-90 s per variant)',
    assumptions=A_ILUK, replay='iluk', timeout=300, witness=wit('A'),
    not_decided=NOT_DECIDED_ILUK)

# per-loop limits (unwinding assertions stay on): rows <= n, stored entries of a row <= NMAX (IN=1: exactly NMAX slots; IN=0: strictly ascending), pivots of a row <= n - 1
# (limit NMAX = NMAX - 1 iterations + the exit test), entries of a U row <= n - 1, work vector <= n entries; stubs: CAP_ROW = NMAX + 1
ILUK_UNWINDSET = [(r'for\(ptrdiff_t i = 0;', 'NMAX+1'), (r'for \(ptrdiff_t a = A\.ptr', 'NMAX+1'), (r'while\(!pq_empty', 'NMAX'), (r'for\(ptrdiff_t j = Uptr', 'NMAX'),
                  (r'for \(size_t e_i = 0;', 'NMAX+2'), (r'< CAP_ROW;', 'NMAX+2'), (r'< NMAX;', 'NMAX+1')]
iluk_ctor.unwindset = ILUK_UNWINDSET

# ============================================================================ the row step (inductive step of the constructor's row loop)
STEP_ANCHOR = r'for\(ptrdiff_t i = 0; i < static_cast<ptrdiff_t>\(n\); \+\+i\)\s*(?=\{)'
STEP_CUT = Cut(ILUK, STEP_ANCHOR, rules=ctor_rules(0, with_new=False), uf=CTOR_UF)

STEP_C = r'''
/* the free variables of the loop body = the constructor's locals that are live across iterations (its "signature"): the seven vectors, D, the work
 * vector w; n, i, A, prm are parameters of the step function */
static vec_ptrdiff_t Lptr, Lcol, Uptr, Ucol;
static vec_value_type Lval, Uval;
static vec_int Ulev;
static V D[NMAX + 1]; static size_t D_n;
static sparse_vector w;
static void f_row_step(const crs *A_p, const iluk_params *prm_p, const size_t n, const ptrdiff_t i)
{
#define A (*A_p)
#define prm (*prm_p)
/*@CUT:body@*/
#undef A
#undef prm
}
'''

SPEC_STEP = SPEC_LEVELS + r'''
WITNESS_CRS(A)
/* witness: the row, the dense table of stored levels of the U rows above it (LEV_INF = no entry), n */
size_t w_n, w_i; int w_ul[NMAX * NMAX];
static int g_ul[NMAX][NMAX];       /* stored level of U entry (p,j), p < i, p < j < n, or LEV_INF */
static V g_uv[NMAX][NMAX];         /* its value */
static int g_rl[NMAX];             /* level of fill of position (i,j) after the row: the recurrence restricted to row i */
/* loop invariant of the row loop on the work vector (established by the constructor prologue, re-established by every iteration):
 * q is empty and compares through w.nz, lfil == k, idx has n cells and every cell that is not -1 names a column that occurs in w.nz
 * (reset() clears exactly the cells named by w.nz), at most n entries with columns in range */
static _Bool inv_w(const sparse_vector *v, size_t n, int k)
{
  if (!(v->lfil == k && v->idx.n == n && v->q.n == 0 && v->q.comp.nz == &v->nz && v->nz.n <= n)) return 0;
  for (size_t e = 0; e < CAP_ROW; ++e) if (e < v->nz.n) { if (!(v->nz.d[e].col >= 0 && (size_t)v->nz.d[e].col < n)) return 0; }
  for (size_t c = 0; c < NMAX; ++c) if (c < n && v->idx.d[c] != -1) {
    _Bool named = 0;
    for (size_t e = 0; e < CAP_ROW; ++e) if (e < v->nz.n && (size_t)v->nz.d[e].col == c) named = 1;
    if (!named) return 0;
  }
  return 1;
}
static void spec_row_levels(const crs *A, size_t n, size_t i, int k)
{
  for (size_t j = 0; j < NMAX; ++j) g_rl[j] = (j < n && count_in_row(A, i, j) > 0) ? 0 : LEV_INF;
  for (size_t p = 0; p < NMAX; ++p) if (p < i && g_rl[p] <= k)
    for (size_t j = 0; j < NMAX; ++j) if (j > p && j < n && g_ul[p][j] <= k) {
      const int l = LEV_UPD(g_rl[p], g_ul[p][j]);
      if (l < g_rl[j]) g_rl[j] = l;
    }
}
/* the slice [b, e) of a column vector is strictly ascending, lies strictly on its side of the diagonal / in range and holds exactly the admitted positions */
static _Bool new_row_ok(const vec_ptrdiff_t *col, ptrdiff_t b, ptrdiff_t e, size_t n, size_t i, int k, _Bool lower, int what)
{
  for (size_t s = 0; s < CAP_FAC; ++s) if ((ptrdiff_t)s >= b && (ptrdiff_t)s < e) {
    const ptrdiff_t c = col->d[s];
    if (what == 0) { if (lower ? !(c >= 0 && (size_t)c < i) : !((size_t)c > i && (size_t)c < n)) return 0; if ((ptrdiff_t)s + 1 < e && !(c < col->d[s + 1])) return 0; }
    if (what == 2) { if (c >= 0 && (size_t)c < n && g_rl[c] > k) return 0; }
  }
  if (what == 1)
    for (size_t j = 0; j < NMAX; ++j) if (j < n && (lower ? j < i : j > i) && g_rl[j] <= k) {
      _Bool found = 0;
      for (size_t s = 0; s < CAP_FAC; ++s) if ((ptrdiff_t)s >= b && (ptrdiff_t)s < e && (size_t)col->d[s] == j) found = 1;
      if (!found) return 0;
    }
  return 1;
}
#if VALUES
/* numeric ILU(k) of row i on the FINAL pattern (Saad, Iterative Methods, Alg. 10.5 / two-phase ILU(k)), written with the uninterpreted value operations in the
 * operand order of the source: the stored entries of the row are accumulated in stored order (first occurrence initialises); pivots p ascending over the admitted
 * L positions: l_ip = w_p * D_p; every entry u_pj of U row p (stored order) whose position (i,j) is in the final pattern receives -l_ip * u_pj (the first
 * contribution into a fill position initialises it) */
static V g_ev[NMAX]; static _Bool g_has[NMAX];
/* classification for known finding F12 (single-pass ILU(k)): position j of the final pattern is TAINTED when an update reaches it at a level > k while it does not
 * exist yet (the code has nothing to add the term to) and a later pivot admits it, or when it receives a term from a tainted pivot.  Untainted positions: clause
 * "values"; tainted ones: clause "single-pass ILU(k)" (the known finding).  g_ex = the position exists at this point of a single pass */
static _Bool g_taint[NMAX], g_ex[NMAX];
static void spec_row_values(const crs *A, size_t n, size_t i, int k)
{
  for (size_t j = 0; j < NMAX; ++j) { g_has[j] = 0; g_taint[j] = 0; g_ex[j] = g_rl[j] == 0; }
  for (size_t s = 0; s < CAP_NNZ; ++s) if ((ptrdiff_t)s >= A->ptr[i] && (ptrdiff_t)s < A->ptr[i + 1]) {
    const size_t j = (size_t)A->col[s];
    if (j < NMAX) { g_ev[j] = g_has[j] ? UF_ADD(g_ev[j], A->val[s]) : A->val[s]; g_has[j] = 1; }
  }
  for (size_t p = 0; p < NMAX; ++p) if (p < i && g_rl[p] <= k && g_has[p]) {
    g_ev[p] = UF_MUL(g_ev[p], D[p]);
    for (size_t j = 0; j < NMAX; ++j) if (j > p && j < n && g_ul[p][j] <= k && g_rl[j] <= k) {
      const V c = UF_MUL(UF_NEG(g_ev[p]), g_uv[p][j]);
      g_ev[j] = g_has[j] ? UF_ADD(g_ev[j], c) : c; g_has[j] = 1;
      if (!g_ex[j]) { if (LEV_UPD(g_rl[p], g_ul[p][j]) <= k) g_ex[j] = 1; else g_taint[j] = 1; }
      if (g_taint[p]) g_taint[j] = 1;
    }
  }
}
static _Bool new_row_values(const vec_ptrdiff_t *col, const vec_value_type *val, ptrdiff_t b, ptrdiff_t e, _Bool tainted)
{
  for (size_t s = 0; s < CAP_FAC; ++s) if ((ptrdiff_t)s >= b && (ptrdiff_t)s < e) {
    const ptrdiff_t c = col->d[s];
    if (!(c >= 0 && c < NMAX)) return 0;
    if (g_taint[c] == tainted && !(g_has[c] && val->d[s] == g_ev[c])) return 0;
  }
  return 1;
}
#endif
'''

STEP_HARNESS = r"""
/* contract of ONE iteration of the row loop (enforced by the harness):
 *   requires  0 <= i < n <= NMAX; row i of A: NMAX stored entries, any columns < n, the diagonal among them (every pattern row with a diagonal, duplicates where it is shorter)
 *             Lptr, Uptr have i + 1 cells, monotone from 0, back() == size of the col / val (/ lev) vectors; U rows p < i: any strictly ascending columns in (p, n),
 *             any stored level in [0, k], any values; D[p] any; L content any; the work vector satisfies the loop invariant inv_w (any stale content)
 *   assigns   appends to the seven vectors, D[i], w
 *   ensures   the clauses below (levels: spec_row_levels); inv_w again                                                                        */
void h_row_step(void)
{
  crs *A = crs_input();
#if N > 0
  const size_t n = N;                /* concrete per variant */
#else
  size_t n; REQUIRES(n >= 1 && n <= NMAX);
#endif
#if I >= 0
  const size_t i = I;                /* concrete per variant */
#else
  size_t i; REQUIRES(i < n);
#endif
  A->nrows = n; A->ncols = n;
#if IN
  /* every row holds NMAX stored entries in any order: every pattern row, duplicates where the pattern row is shorter */
  A->nnz = n * NMAX;
  for (size_t r = 0; r < CAP_PTR; ++r) A->ptr[r] = (ptr_type)(r <= n ? r * NMAX : n * NMAX);
  for (size_t j = 0; j < CAP_NNZ; ++j) { const unsigned char c = nondet_uchar(); A->col[j] = (col_type)(c & 7); }
  REQUIRES(crs_wf(A, NMAX, NMAX, ZMAX) && count_in_row(A, i, i) >= 1);
#else
  /* only row i is read: 1..n stored entries, strictly ascending (no duplicates); the other rows are empty */
  { const unsigned char len = nondet_uchar() & 7; REQUIRES(len >= 1 && len <= n);
    A->nnz = len;
    for (size_t r = 0; r < CAP_PTR; ++r) A->ptr[r] = (ptr_type)(r <= i ? 0 : len);
    for (size_t j = 0; j < CAP_NNZ; ++j) { const unsigned char c = nondet_uchar(); A->col[j] = (col_type)(c & 7); } }
  REQUIRES(crs_wf(A, NMAX, NMAX, ZMAX) && crs_rows_sorted(A, 1) && count_in_row(A, i, i) >= 1);
#endif
  MIRROR_CRS(A, A);
  w_n = n; w_i = i;
  crs_snap s; crs_snapshot(A, &s);
  /* ---- state: U rows above row i from a dense table of stored levels */
  Uptr.n = 0; Ucol.n = 0; Uval.n = 0; Ulev.n = 0; VPUSH_GEN(Uptr, 0);
  for (size_t p = 0; p < NMAX; ++p) {
    for (size_t j = 0; j < NMAX; ++j) {
      g_ul[p][j] = LEV_INF;
      if (p < i && j > p && j < n) {
        const unsigned char l = nondet_uchar();
        if (l <= K) { V v; g_ul[p][j] = (int)l; g_uv[p][j] = v; VPUSH_GEN(Ucol, (ptrdiff_t)j); VPUSH_GEN(Uval, v); VPUSH_GEN(Ulev, (int)l); }
      }
      w_ul[p * NMAX + j] = g_ul[p][j];
    }
    if (p < i) VPUSH_GEN(Uptr, (ptrdiff_t)Ucol.n);
  }
  /* L rows above row i: any monotone pointers, any content (the step does not read them) */
  { vec_ptrdiff_t lp, lc; vec_value_type lv; Lptr = lp; Lcol = lc; Lval = lv; }
  Lptr.n = i + 1; REQUIRES(Lptr.d[0] == 0);
  for (size_t r = 0; r < NMAX; ++r) if (r < i) REQUIRES(Lptr.d[r] <= Lptr.d[r + 1]);
  REQUIRES(Lptr.d[i] >= 0 && (size_t)Lptr.d[i] + NMAX < CAP_FAC + 1);
  Lcol.n = (size_t)Lptr.d[i]; Lval.n = Lcol.n;
  { V d0[NMAX + 1]; for (size_t r = 0; r < NMAX + 1; ++r) D[r] = d0[r]; } D_n = n;
  /* work vector: any content that satisfies the loop invariant */
  { sparse_vector w0; w.nz = w0.nz; w.idx = w0.idx; w.dia = w0.dia; }
  w.lfil = K; w.q.n = 0; w.q.comp.nz = &w.nz;
  REQUIRES(inv_w(&w, n, K) && w.nz.n <= WSTALE);      /* WSTALE < NMAX: bound on the stale entries left by the previous row */
  const vec_ptrdiff_t Lptr0 = Lptr, Lcol0 = Lcol, Uptr0 = Uptr, Ucol0 = Ucol; const vec_value_type Lval0 = Lval, Uval0 = Uval; const vec_int Ulev0 = Ulev;
  V D0[NMAX + 1]; for (size_t r = 0; r < NMAX + 1; ++r) D0[r] = D[r];
  spec_row_levels(A, n, i, K);
#if VALUES
  spec_row_values(A, n, i, K);
#endif
  g_ilog_n = 0; g_inv_calls = 0;
  iluk_params P; P.k = K; P.solve = 0;

  f_row_step(A, &P, n, (ptrdiff_t)i);

  ENSURES(!g_cap_exceeded && !g_thrown, "bound artefact / no exception: vectors within verification capacity, the iteration does not throw");
  ENSURES(crs_unchanged(A, &s), "frame: the input matrix is not modified");
  const _Bool shape = Lptr.n == i + 2 && Uptr.n == i + 2 && Lptr.d[i + 1] >= Lptr0.d[i] && (size_t)Lptr.d[i + 1] == Lcol.n && Lcol.n == Lval.n
                   && Uptr.d[i + 1] >= Uptr0.d[i] && (size_t)Uptr.d[i + 1] == Ucol.n && Ucol.n == Uval.n && Ucol.n == Ulev.n && Lcol.n < CAP_FAC && Ucol.n < CAP_FAC;
  ENSURES(shape, "iluk row step: exactly one row pointer is appended to Lptr and to Uptr, equal to the new size of the col / val (and level) vectors");
  _Bool frame = 1;
  for (size_t e = 0; e < CAP_FAC; ++e) {
    if (e < Lptr0.n && Lptr.d[e] != Lptr0.d[e]) frame = 0; if (e < Uptr0.n && Uptr.d[e] != Uptr0.d[e]) frame = 0;
    if (e < Lcol0.n && (Lcol.d[e] != Lcol0.d[e] || Lval.d[e] != Lval0.d[e])) frame = 0;
    if (e < Ucol0.n && (Ucol.d[e] != Ucol0.d[e] || Uval.d[e] != Uval0.d[e] || Ulev.d[e] != Ulev0.d[e])) frame = 0;
  }
  for (size_t r = 0; r < NMAX + 1; ++r) if (r != i && D[r] != D0[r]) frame = 0;
  ENSURES(frame, "frame: the rows of L and U above row i and every D[p], p != i, are unchanged");
  if (shape) {
    const ptrdiff_t lb = Lptr0.d[i], le = Lptr.d[i + 1], ub = Uptr0.d[i], ue = Uptr.d[i + 1];
    ENSURES(new_row_ok(&Lcol, lb, le, n, i, K, 1, 0), "iluk row step: the new row of L lies strictly LEFT of the diagonal, columns strictly ascending");
    ENSURES(new_row_ok(&Ucol, ub, ue, n, i, K, 0, 0), "iluk row step: the new row of U lies strictly RIGHT of the diagonal, columns in range and strictly ascending");
#if !VALUES     /* the pattern / level clauses are unit iluk_row_step; the value unit presupposes them */
    ENSURES(new_row_ok(&Lcol, lb, le, n, i, K, 1, 1), "C06 ILU(k) pattern of L: every position (i,j), j < i, with level of fill <= k is kept");
    ENSURES(new_row_ok(&Lcol, lb, le, n, i, K, 1, 2), "C06 ILU(k) pattern of L: no position with level of fill > k is kept");
    ENSURES(new_row_ok(&Ucol, ub, ue, n, i, K, 0, 1), "C06 ILU(k) pattern of U: every position (i,j), j > i, with level of fill <= k is kept");
    ENSURES(new_row_ok(&Ucol, ub, ue, n, i, K, 0, 2), "C06 ILU(k) pattern of U: no position with level of fill > k is kept");
    _Bool levs = g_ilog_n >= 0 && (ptrdiff_t)g_ilog_n == ue - ub;
    for (size_t e = 0; e < CAP_FAC; ++e) if ((ptrdiff_t)e >= ub && (ptrdiff_t)e < ue && levs) { const ptrdiff_t c = Ucol.d[e]; if (!(c >= 0 && c < NMAX && Ulev.d[e] == g_rl[c])) levs = 0; }
    ENSURES(levs, "C06 ILU(k) levels: the level stored with every kept U entry (i,j) equals the level of fill lev(i,j) (minimum over ALL updates); one level per U entry");
#endif
    ENSURES(g_inv_calls == 1 && D[i] == __CPROVER_uninterpreted_inverse(g_inv_arg[0]), "iluk row step: exactly one inversion, D[i] == inverse(pivot_i)");
#if VALUES
    ENSURES(new_row_values(&Lcol, &Lval, lb, le, 0) && new_row_values(&Ucol, &Uval, ub, ue, 0) && g_has[i] && (g_taint[i] || g_inv_arg[0] == g_ev[i]),
            "C06 ILU(k) values: the stored value of every new L / U entry and the inverted pivot are those of the numeric factorisation on the level <= k pattern "
            "(l_ip = w_p * D_p, w_j = a_ij - sum over the admitted pivots p with (p,j) in U of l_ip * u_pj, operands in source order), for every position that no discarded update precedes");
    ENSURES(new_row_values(&Lcol, &Lval, lb, le, 1) && new_row_values(&Ucol, &Uval, ub, ue, 1) && (!g_taint[i] || g_inv_arg[0] == g_ev[i]),
            "C06 ILU(k) values, single-pass ILU(k): an update -l_ip * u_pj that reaches a position (i,j) at a level > k BEFORE a later pivot admits (i,j) at a level <= k is part of the "
            "value of (i,j) (numeric factorisation on the final pattern: (L U)_ij = a_ij), likewise every term fed by such a position");
#endif
  }
  ENSURES(inv_w(&w, n, K), "iluk row step: the loop invariant on the work vector holds again (queue empty, every idx cell that is not -1 is named by an entry of w.nz)");
  CANARY("harness.end");
}
"""

A_STEP = ['A-step: the unit checks ONE iteration of the row loop for an arbitrary row and an ARBITRARY predecessor state satisfying the stated invariant (a superset of the reachable states); '
          'that the constructor establishes the invariant and runs the iterations i = 0..n-1 in order is unit iluk_ctor',
          'A-sig: the loop body is cut at the loop header; its free variables (the constructor locals Lptr Lcol Lval Uptr Ucol Uval Ulev D w, and n, i, A, prm) are declared by the template under their repository names']


def step_unit(name, values, props, desc, variants, thorough, bound, not_decided):
    u = Unit(
        name=name, props=props,
        functions=['relaxation::iluk<Backend>::iluk(...) : body of the row loop `for(ptrdiff_t i = 0; i < n; ++i)`', 'iluk::sparse_vector::{add, next_nonzero, sort, reset}',
                   'iluk::sparse_vector::comp_indices::operator()', 'iluk::nonzero::{nonzero, operator<}'],
        desc=desc,
        cuts=dict(HELPER_CUTS, body=STEP_CUT),
        template=UF16 + VEC_PRELUDE + HELPERS_C + CTOR_C + STEP_C + SPEC_STEP + STEP_HARNESS,
        entry='h_row_step', mode='unwound', unwind='NMAX*NMAX+3', model='uf',
        defines={'LEVSUM': 0, 'VALUES': 1 if values else 0, 'N': 0, 'I': -1, 'IN': 1, 'WSTALE': 99},
        variants=variants, thorough_variants=thorough, bound_text=bound,
        assumptions=A_ILUK + A_STEP, replay='iluk', timeout=300, witness=wit('A') + ['w_n', 'w_i', 'w_ul'],
        not_decided=not_decided)
    u.unwindset = [(r'while\(!pq_empty', '(I+1) if I >= 0 else NMAX')] + ILUK_UNWINDSET      # row i has at most i pivots
    u.cover_exempt = r'^canary sv_init\.'     # the sparse_vector constructor runs in the constructor prologue (unit iluk_ctor), not in an iteration
    return u


STEP_DESC = ('one iteration of the ILU(k) row loop from an arbitrary well-formed predecessor state: the new rows of L and U hold EXACTLY the positions (i,j) whose level of fill is <= k, '
             'lev(i,j) = 0 on the stored entries of row i, else the minimum over the admitted pivots p < min(i,j) (lev(i,p) <= k, (p,j) stored in U with level <= k) of max(lev(i,p), lev(p,j)) + 1 '
             '(the documented recursive-product definition), evaluated on integers by the harness; the level stored with every new U entry equals lev(i,j) (minimum over ALL updates, whichever '
             'side of the diagonal); new rows strictly ascending, strictly lower / upper, in range; one row pointer appended each; D[i] = inverse of one value, inverted once; rows above and '
             'every other D untouched; the work vector satisfies the loop invariant again; subscripts within their arrays, top()/pop() only on a non-empty queue')

iluk_row_step = step_unit('iluk_row_step', False, ['C06', 'C10'], STEP_DESC,
                          variants=[{'NMAX': 4, 'ZMAX': 16, 'K': 2, 'N': 4, 'I': 2}, {'NMAX': 4, 'ZMAX': 16, 'K': 2, 'N': 4, 'I': 3, 'IN': 0, 'WSTALE': 1}, {'NMAX': 3, 'ZMAX': 9, 'K': 1}],
                          thorough=[{'NMAX': 4, 'ZMAX': 16, 'K': 2, 'N': 4, 'I': 2}, {'NMAX': 4, 'ZMAX': 16, 'K': 2, 'N': 4, 'I': 3, 'IN': 0, 'WSTALE': 1}, {'NMAX': 3, 'ZMAX': 9, 'K': 1},
                                    {'NMAX': 4, 'ZMAX': 16, 'K': 1, 'N': 4, 'I': 2}, {'NMAX': 4, 'ZMAX': 16, 'K': 1, 'N': 4, 'I': 3, 'IN': 0, 'WSTALE': 1}, {'NMAX': 4, 'ZMAX': 16, 'K': 2, 'N': 4, 'I': 1},
                                    {'NMAX': 3, 'ZMAX': 9, 'K': 2}, {'NMAX': 3, 'ZMAX': 9, 'K': 0}],
                          bound='n = 4, row i = 2, k = 2: every pattern row (4 stored entries in any order, duplicates), any U rows 0..1 with stored levels 0..2, any stale work vector; '
                                'n = 4, row i = 3, k = 2: row strictly ascending, any U rows 0..2, at most one stale work-vector entry; n <= 3, any row, k = 1 with everything symbolic '
                                '(thorough: also k = 1 at n = 4, row 1, k = 0 / 2 at n <= 3); values uninterpreted (measured 22-75 s per variant)', not_decided=NOT_DECIDED_ILUK)

# KNOWN FINDING F12 (open): the value clause fails on the unchanged tree (single-pass ILU(k): an update that reaches a not-yet-existing position at a level > k is
# discarded by sparse_vector::add; when a later pivot creates the position at a level <= k the discarded term is missing from the stored value, so (L U)_ij != a_ij on
# the admitted pattern; native witness: 5x5, k = 1, diag(4) + (0,1)=(1,4)=(2,4)=(3,0)=(3,2)=-1: (L U)(3,4) = 0.0625 != 0).  props: C06 only.
iluk_row_values = step_unit('iluk_row_values', True, ['C06'],
                            STEP_DESC + '; VALUE clause: the stored values of the new rows and the inverted pivot are those of the numeric factorisation on the FINAL pattern (every update '
                            '-l_ip * u_pj into an admitted position is applied; uninterpreted operations in the operand order of the source)',
                            variants=[{'NMAX': 4, 'ZMAX': 16, 'K': 1, 'N': 4, 'I': 2, 'IN': 0, 'WSTALE': 1}],
                            thorough=[{'NMAX': 4, 'ZMAX': 16, 'K': 1, 'N': 4, 'I': 2, 'IN': 0, 'WSTALE': 1}, {'NMAX': 4, 'ZMAX': 16, 'K': 2, 'N': 4, 'I': 2, 'IN': 0, 'WSTALE': 1}, {'NMAX': 3, 'ZMAX': 9, 'K': 1, 'IN': 0, 'WSTALE': 1}],
                            bound='n = 4, row i = 2, k = 1 (the smallest state in which an update is discarded and the position admitted later): row strictly ascending, any U rows 0..1 with stored '
                                  'levels 0..1, at most one stale work-vector entry (thorough: k = 2; n <= 3 fully symbolic); values uninterpreted (measured 40 s)',
                            not_decided=[x for x in NOT_DECIDED_ILUK if not x.startswith('which value')] + ['exactness in floating point (values are uninterpreted: the unit pins which operands meet which operator in which order)'])

# the value unit runs the SAME code under the SAME precondition as iluk_row_step, which discharges the generic safety checks (pointer, bounds, overflow, conversion);
# they are not generated a second time here (the named obligations -- subscripts within the logical length, queue non-empty, ENSURES -- stay)
iluk_row_values.drop_checks = ['--bounds-check', '--pointer-check', '--signed-overflow-check', '--conversion-check', '--div-by-zero-check']
iluk_row_values.flags = ['--no-standard-checks']      # CBMC 6 switches the standard checks on by default
iluk_row_values.assumptions.append('A-safety-elsewhere: the generic CBMC checks (pointer, bounds, overflow, conversion) of this code under this precondition are obligations of unit iluk_row_step, not repeated here')

# ============================================================================ relaxation::ilup
ILUP = 'amgcl/relaxation/ilup.hpp'


class AliasInline(object):
    """`auto x = M.ptr;` / `auto x = M->col;` (M a matrix, the member one of ptr / col / val) declares an alias of the member array: the declaration is dropped and
    every later use of x is replaced by the member expression, so that the subscripts carry the logical-bounds obligations of the member arrays.  Keyed on the
    initialiser syntax, not on the alias name."""
    early = False

    def __init__(self, count='+'):
        self.count = count
        self.pat = 'AliasInline'

    def apply(self, text, log, generic=False):
        rx = re.compile(r'^[ \t]*auto (?P<n>\w+) = (?P<e>\w+(?:\.|->)(?:ptr|col|val));[ \t]*\n', re.M)
        names = {}
        while True:
            m = rx.search(text)
            if not m:
                break
            names[m.group('n')] = m.group('e')
            text = text[:m.start()] + re.sub(r'(?<![\w.>])%s\b' % re.escape(m.group('n')), m.group('e'), text[m.end():])
        n = len(names)
        if (self.count == '+' and n < 1) or (isinstance(self.count, int) and n != self.count):
            raise ExtractError('AliasInline fired %d times, expected %s' % (n, self.count))
        log.append({'rule': 'R-alias auto x = M.member -> uses of x are M.member', 'fired': n, 'names': names})
        return text


SYMB_CUT = Cut(
    ILUP, r'template <class Matrix>\s*std::shared_ptr<Matrix> symb_product\(const Matrix &A, const Matrix &B\)\s*(?=\{)',
    rules=[
        Rule(r'\bauto (\w+) = std_make_shared<Matrix>\(\);', r'crs *const \1 = crs_new();', 1, why='R-new make_shared<crs>()'),
        AliasInline('+'),
        Rule(r'\b(\w+)->set_size\(([^,()]+), ([^,()]+)\);', r'crs_set_size(\1, \2, \3, 0 /* default clean_ptr = false */);', 1, why='R-member-call'),
        Rule(r'\b(\w+)->scan_row_sizes\(\)', r'crs_scan_row_sizes(\1)', 1, why='R-member-call'),
        Rule(r'\b(\w+)->set_nonzeros\(', r'crs_set_nonzeros_n(\1, ', 1, why='R-member-call'),
        Rule(r'std_vector<ptrdiff_t> (\w+)\(([^,;]+), ([^,;)]+)\);', r'ptrdiff_t *\1 = vec_idx_new(\2, \3); const size_t \1_n = (size_t)(\2);', 2, why='R-vec-local std::vector<ptrdiff_t> v(n, x)'),
        Rule(r'std_sort\((?P<a>[^;]+?) \+ (?P<b>\w+), (?P=a) \+ (?P<e>\w+)\);', r'std_sort_cols(\g<a>, \g<b>, \g<e>, C->nnz);', None, why='R-std std::sort(p + b, p + e) on a column array'),
        IdxRule(r'C->col', 'C->nnz', '+'), IdxRule(r'C->ptr', 'C->nrows + 1', '+'),
        IdxRule(r'marker', 'marker_n', None),
        IdxRule(r'A\.col', 'nonzeros(A)', '+'), IdxRule(r'B\.col', 'nonzeros(B)', '+'),
        IdxRule(r'A\.ptr', 'rows(A) + 1', '+'), IdxRule(r'B\.ptr', 'rows(B) + 1', '+'),
    ])

SYMB_C = r'''
/* std::vector<ptrdiff_t> v(n, init) (A-vec) */
static ptrdiff_t *vec_idx_new(size_t n, ptrdiff_t init)
{
  if (n > CAP_PTR) g_cap_exceeded = 1;
  ptrdiff_t *p = (ptrdiff_t *)malloc(sizeof(ptrdiff_t) * CAP_PTR);
  for (size_t i = 0; i < CAP_PTR; ++i) p[i] = init;
  return p;
}
/* std::sort(col + b, col + e) (A-std): ascending; the range must lie inside the array */
static void std_sort_cols(col_type *col, ptrdiff_t b, ptrdiff_t e, size_t len)
{
#if defined(CXC_CBMC) && !defined(CXC_CANARY)
  __CPROVER_assert(0 <= b && b <= e && (size_t)e <= len, "safety.idx. std::sort range within the logical length of the column array");
#endif
  /* a row of the product holds at most NMAX distinct columns: bubble sort over the window [b, b + NMAX) */
  if (e - b > NMAX) { g_cap_exceeded = 1; return; }
  for (ptrdiff_t pass = 0; pass < NMAX; ++pass)
    for (ptrdiff_t t = 0; t + 1 < NMAX; ++t) if (b + t + 1 < e) {
      const ptrdiff_t j = b + t;
      if (col[j + 1] < col[j]) { const col_type x = col[j]; col[j] = col[j + 1]; col[j + 1] = x; }
    }
}
typedef crs Matrix;
/* template <class Matrix> std::shared_ptr<Matrix> detail::symb_product(const Matrix &A, const Matrix &B) */
static crs *f_symb_product(const crs *A_p, const crs *B_p)
{
#define A (*A_p)
#define B (*B_p)
/*@CUT:body@*/
#undef A
#undef B
}
'''

SPEC_SYMB = r'''
static _Bool stored(const crs *M, size_t i, size_t j)
{
  for (size_t e = 0; e < CAP_NNZ; ++e) if ((ptrdiff_t)e >= M->ptr[i] && (ptrdiff_t)e < M->ptr[i + 1] && (size_t)M->col[e] == j) return 1;
  return 0;
}
/* boolean product: (i,j) is in pattern(A) x pattern(B) iff some l has (i,l) stored in A and (l,j) stored in B */
static _Bool symb_pattern_ok(const crs *A, const crs *B, const crs *C)
{
  for (size_t i = 0; i < NMAX; ++i) for (size_t j = 0; j < NMAX; ++j) if (i < A->nrows && j < B->ncols) {
    _Bool want = 0;
    for (size_t l = 0; l < NMAX; ++l) if (l < A->ncols && stored(A, i, l) && stored(B, l, j)) want = 1;
    if (stored(C, i, j) != want) return 0;
  }
  return 1;
}
'''

ilup_symb = Unit(
    name='ilup_symb_product', props=['C06', 'C10'],
    functions=['relaxation::detail::symb_product(const Matrix&, const Matrix&)', 'crs::set_size', 'crs::scan_row_sizes', 'crs::set_nonzeros'],
    desc='symbolic sparse product used by ILUP: the result is rows(A) x cols(B), well formed, every row strictly ascending (sorted, no duplicates), (i,j) stored iff some (i,l) is '
         'stored in A and (l,j) in B; no values are allocated; A and B unchanged; every subscript and the sorted range within the arrays',
    cuts=dict(crs_member_cuts(), body=SYMB_CUT),
    template='#define MODEL_INT32 1\n#define CAP_NNZ ((ZMAX > NMAX * NMAX ? ZMAX : NMAX * NMAX) + 1)\n' + VEC_PRELUDE + CRS_MEMBERS_C + SYMB_C + SPEC_SYMB + r"""
WITNESS_CRS(A)
WITNESS_CRS(B)
unsigned char nondet_uchar(void);
static crs *crs_input_narrow(void)
{
  crs *a = crs_input();
  a->nrows = nondet_uchar() & 7; a->ncols = nondet_uchar() & 7; a->nnz = nondet_uchar() & 7;
  for (size_t i = 0; i < CAP_PTR; ++i) a->ptr[i] = nondet_uchar() & 7;
  for (size_t j = 0; j < CAP_NNZ; ++j) { a->col[j] = nondet_uchar() & 7; a->val[j] = 0; }
  return a;
}
/* contract (enforced by the harness): requires A, B well-formed (any pattern: unsorted, duplicates, empty rows), cols(A) == rows(B) */
void h_symb(void)
{
#if SLOTS
  /* every row holds SLOTS stored entries with any columns (duplicates where the pattern row is shorter): SLOTS == NMAX covers every pattern without empty rows */
  crs *A = crs_input(), *B = crs_input();
  const size_t na = nondet_uchar() & 7, nb = nondet_uchar() & 7, mb = nondet_uchar() & 7;
  REQUIRES(na <= NMAX && nb <= NMAX && mb <= NMAX);
  A->nrows = na; A->ncols = nb; A->nnz = na * SLOTS; B->nrows = nb; B->ncols = mb; B->nnz = nb * SLOTS;
  for (size_t i = 0; i < CAP_PTR; ++i) { A->ptr[i] = (ptr_type)((i <= na ? i : na) * SLOTS); B->ptr[i] = (ptr_type)((i <= nb ? i : nb) * SLOTS); }
  for (size_t j = 0; j < CAP_NNZ; ++j) { A->col[j] = nondet_uchar() & 7; B->col[j] = nondet_uchar() & 7; A->val[j] = 0; B->val[j] = 0; }
#else
  crs *A = crs_input_narrow(), *B = crs_input_narrow();
#endif
  REQUIRES(crs_wf(A, NMAX, NMAX, ZMAX) && crs_wf(B, NMAX, NMAX, ZMAX) && A->ncols == B->nrows);
  MIRROR_CRS(A, A); MIRROR_CRS(B, B);
  crs_snap sa, sb; crs_snapshot(A, &sa); crs_snapshot(B, &sb);
  crs *C = f_symb_product(A, B);
  ENSURES(!g_cap_exceeded && !g_thrown, "bound artefact / no exception: allocation within verification capacity");
  ENSURES(C != 0 && C->nrows == A->nrows && C->ncols == B->ncols, "symb_product: result is rows(A) x cols(B)");
  if (C != 0) {
    const _Bool cwf = crs_wf(C, NMAX, NMAX, CAP_NNZ - 1) && C->nnz == (size_t)C->ptr[C->nrows];
    ENSURES(cwf, "symb_product: result is well-formed CRS (monotone ptr from 0, columns in range, nnz == ptr[n])");
    ENSURES(!cwf || crs_rows_sorted(C, 1), "symb_product: every row of the result is strictly ascending (sorted, no duplicate column)");
    ENSURES(!cwf || symb_pattern_ok(A, B, C), "C06 ILUP pattern: (i,j) is stored in symb_product(A, B) iff some (i,l) is stored in A and (l,j) in B");
    ENSURES(C->val == 0, "symb_product: no value array is allocated (set_nonzeros(n, need_values = false))");
  }
  ENSURES(crs_unchanged(A, &sa) && crs_unchanged(B, &sb), "frame: the operands are not modified");
  CANARY("harness.end");
}
""",
    entry='h_symb', mode='unwound', unwind='NMAX*NMAX+3', model='int32',
    variants=[{'NMAX': 2, 'ZMAX': 3, 'SLOTS': 0}, {'NMAX': 3, 'ZMAX': 3, 'SLOTS': 1}, {'NMAX': 2, 'ZMAX': 4, 'SLOTS': 2}],
    bound_text='A (n x m), B (m x k) with n, m, k <= 2, nnz <= 3 each, any pattern (unsorted, duplicates, empty rows); n, m, k <= 3 with exactly one stored entry per row; n, m, k <= 2 with two stored '
               'entries per row (every 2 x 2 pattern without empty rows); n = 3 with two entries per row does not finish in 300 s (measured; same reach as spgemm_saad)',
    assumptions=A_RELAX + ['A-new: operator new[] never returns null; fresh arrays have nondeterministic content', 'A-callee: crs::set_size / scan_row_sizes / set_nonzeros bodies are inlined from /repo',
                           'A-std-sort: std::sort on a range of a column array is an insertion sort stub (ascending)'],
    replay='iluk', timeout=300, witness=wit('A', 'B'),
    not_decided=['n beyond the bound'])
ilup_symb.unwindset = [(r'for\(ptrdiff_t ia = 0;', 'NMAX+1'), (r'for\(ptrdiff_t ja = ', '(SLOTS if SLOTS else ZMAX)+1'), (r'for\(ptrdiff_t jb = ', '(SLOTS if SLOTS else ZMAX)+1'), (r'< NMAX;', 'NMAX+1')]
ilup_symb.cover_exempt = r'^canary set_size\.1$|^canary set_nonzeros_n\.[1-9]'


# ---------------------------------------------------------------------------- ilup constructor (symb_product and the ilu0 constructor by contract)
ILUP_CUT = Cut(
    ILUP, r'template <class Matrix>\s*ilup\( const Matrix &A, const params &prm, const typename Backend::params &bprm\)\s*: prm\(prm\)\s*(?=\{)',
    rules=[
        Rule(r'\bbase = std_make_shared<Base>\((?P<m>[^,;]+), prm, bprm\);', r'ILU0_MADE(self, \g<m>);', None,
             why='member base = make_shared<ilu0>(M, prm, bprm): ghost hook recording the matrix argument (the ILU(0) constructor is unit ilu0_structure)'),
        Rule(r'\bauto (\w+) = detail::symb_product\((?P<a>[^,;]+), (?P<b>[^,;()]+)\);', r'crs *\1 = symb_product(&(\g<a>), &(\g<b>));', 1, why='R-call detail::symb_product (contract: unit ilup_symb_product)'),
        Rule(r'(?<![\w.>])(\w+) = detail::symb_product\((?P<a>[^,;]+), (?P<b>[^,;()]+)\);', r'\1 = symb_product(&(\g<a>), &(\g<b>));', 1, why='R-call detail::symb_product'),
        Rule(r'NEW\(value_type,', 'NEW_NNZ(value_type,', None, why='R-new'),
        Rule(r'std_fill\((?P<p>[^;]+?) \+ (?P<b>\w+), (?P=p) \+ (?P<e>\w+), ', r'std_fill_vals(\g<p>, \g<b>, \g<e>, P->nnz, ', None, why='R-std std::fill(p + b, p + e, x) on a value array'),
        IdxRule(r'P->col|P->val', 'P->nnz', '+'), IdxRule(r'P->ptr', 'P->nrows + 1', '+'),
        IdxRule(r'A\.col|A\.val', 'nonzeros(A)', '+'), IdxRule(r'A\.ptr', 'rows(A) + 1', '+'),
    ])

ILUP_C = r"""
typedef crs Matrix;
/* std::fill(val + b, val + e, x) (A-std); the range must lie inside the array */
static void std_fill_vals(val_type *val, ptrdiff_t b, ptrdiff_t e, size_t len, val_type x)
{
#if defined(CXC_CBMC) && !defined(CXC_CANARY)
  __CPROVER_assert(0 <= b && b <= e && (size_t)e <= len, "safety.idx. std::fill range within the logical length of the value array");
#endif
  for (ptrdiff_t j = 0; j < CAP_NNZ; ++j) if (j >= b && j < e) val[j] = x;
}
static _Bool stored(const crs *M, size_t i, size_t j)
{
  for (size_t e = 0; e < CAP_NNZ; ++e) if ((ptrdiff_t)e >= M->ptr[i] && (ptrdiff_t)e < M->ptr[i + 1] && (size_t)M->col[e] == j) return 1;
  return 0;
}
/* detail::symb_product(X, Y) by its contract (unit ilup_symb_product): a fresh rows(X) x cols(Y) matrix, rows strictly ascending, (i,j) stored iff some (i,l) in X
 * and (l,j) in Y, no value array; the calls are logged (operands by address) */
static int g_sp_calls; static const crs *g_sp_x[4], *g_sp_y[4]; static crs *g_sp_r[4];
static crs *symb_product(const crs *X, const crs *Y)
{
  crs *c = crs_new();
  c->nrows = X->nrows; c->ncols = Y->ncols;
  c->ptr = (ptr_type *)malloc(sizeof(ptr_type) * CAP_PTR); c->col = (col_type *)malloc(sizeof(col_type) * CAP_NNZ);
  ptrdiff_t head = 0; c->ptr[0] = 0;
  for (size_t i = 0; i < NMAX; ++i) if (i < X->nrows) {
    for (size_t j = 0; j < NMAX; ++j) if (j < Y->ncols) {
      _Bool want = 0;
      for (size_t l = 0; l < NMAX; ++l) if (l < X->ncols && l < Y->nrows && stored(X, i, l) && stored(Y, l, j)) want = 1;
      if (want) { c->col[head] = (col_type)j; ++head; }
    }
    c->ptr[i + 1] = head;
  }
  c->nnz = (size_t)head;
  if (g_sp_calls < 4) { g_sp_x[g_sp_calls] = X; g_sp_y[g_sp_calls] = Y; g_sp_r[g_sp_calls] = c; }
  g_sp_calls++;
  return c;
}
/* relaxation::ilup: params (k; the ilu0 params are passed on), member base = the ILU(0) smoother made from a matrix */
typedef struct { int k; } ilup_params;
typedef struct { ilup_params prm; const crs *base_of; int made; } ilup_t;
#define ILU0_MADE(self, m) do { (self)->base_of = &(m); (self)->made++; } while (0)
static void f_ilup(ilup_t *self, const crs *A_p, const ilup_params *prm_p, int bprm)
{
  self->prm = *prm_p;             /* : prm(prm) */
#define A (*A_p)
#define prm (*prm_p)
/*@CUT:body@*/
#undef A
#undef prm
}
"""

ilup_ctor = Unit(
    name='ilup_ctor', props=['C06', 'C10'],
    functions=['relaxation::ilup<Backend>::ilup(const Matrix&, const params&, const backend_params&)'],
    desc='ILUP(k) constructor, call level: k == 0: the ILU(0) smoother is made from A itself; k >= 1: exactly k calls of detail::symb_product, the first on (A, A), every later one on '
         '(previous result, A), so the final matrix has the pattern of A^(k+1); its value array is allocated, every stored value is zero except at the positions stored in A, which '
         'hold a_ij (the pattern of A is contained in it: stored diagonal); the ILU(0) smoother is made exactly once, from that matrix; A unchanged; every subscript, the filled '
         'range and the merge cursor P->col[jp] within the arrays',
    cuts={'body': ILUP_CUT},
    template=UF16 + '#define CAP_NNZ (NMAX * NMAX + 1)\n' + VEC_PRELUDE + ILUP_C + r"""
WITNESS_CRS(A)
/* pattern of the boolean power A^(m): g_pw[i][j] */
static _Bool g_pw[NMAX][NMAX];
static void spec_power(const crs *A, size_t n, int m)
{
  _Bool a[NMAX][NMAX];
  for (size_t i = 0; i < NMAX; ++i) for (size_t j = 0; j < NMAX; ++j) { a[i][j] = i < n && j < n && stored(A, i, j); g_pw[i][j] = a[i][j]; }
  for (int s = 1; s < 4; ++s) if (s < m) {
    _Bool t[NMAX][NMAX];
    for (size_t i = 0; i < NMAX; ++i) for (size_t j = 0; j < NMAX; ++j) { t[i][j] = 0; for (size_t l = 0; l < NMAX; ++l) if (g_pw[i][l] && a[l][j]) t[i][j] = 1; }
    for (size_t i = 0; i < NMAX; ++i) for (size_t j = 0; j < NMAX; ++j) g_pw[i][j] = t[i][j];
  }
}
/* contract (enforced by the harness):
 *   requires  A n x n well-formed, rows strictly ascending (A-sorted), every row has a stored diagonal entry (A-diag); prm.k == K
 *   ensures   the clauses below                                                                                   */
void h_ilup(void)
{
  crs *A = crs_input();
  REQUIRES(crs_wf(A, NMAX, NMAX, ZMAX) && A->nrows == A->ncols && crs_rows_sorted(A, 1));
  const size_t n = A->nrows;
  for (size_t i = 0; i < NMAX; ++i) if (i < n) REQUIRES(stored(A, i, i));
  MIRROR_CRS(A, A);
  crs_snap s; crs_snapshot(A, &s);
  spec_power(A, n, K + 1);
  ilup_params P; P.k = K;
  ilup_t S; S.base_of = 0; S.made = 0;
  f_ilup(&S, A, &P, 0);
  ENSURES(!g_cap_exceeded && !g_thrown, "bound artefact / no exception: allocation within verification capacity");
  ENSURES(crs_unchanged(A, &s), "frame: the input matrix is not modified");
  ENSURES(S.made == 1 && S.base_of != 0, "ilup: the ILU(0) smoother is made exactly once");
  ENSURES(g_sp_calls == K, "C06 ILUP: exactly k symbolic products");
#if K == 0
  ENSURES(S.base_of == A, "C06 ILUP(0): the ILU(0) smoother is made from A itself");
#else
  _Bool chain = g_sp_calls == K && g_sp_x[0] == A && g_sp_y[0] == A;
  for (int c = 1; c < 4; ++c) if (c < K && chain) { if (!(g_sp_x[c] == g_sp_r[c - 1] && g_sp_y[c] == A)) chain = 0; }
  ENSURES(chain, "C06 ILUP: the first symbolic product is A x A, every later one (previous result) x A");
  ENSURES(chain && S.base_of == g_sp_r[K - 1], "C06 ILUP: the ILU(0) smoother is made from the result of the last symbolic product");
  if (S.made == 1 && S.base_of != 0 && chain && S.base_of == g_sp_r[K - 1]) {
    const crs *M = S.base_of;
    _Bool pat = M->nrows == n && M->ncols == n;
    for (size_t i = 0; i < NMAX; ++i) for (size_t j = 0; j < NMAX; ++j) if (i < n && j < n && pat) { if (stored(M, i, j) != g_pw[i][j]) pat = 0; }
    ENSURES(pat, "C06 ILUP pattern: the matrix handed to ILU(0) has the pattern of A^(k+1)");
    ENSURES(M->val != 0, "ilup: the value array of the pattern matrix is allocated");
    _Bool vals = M->val != 0;
    for (size_t i = 0; i < NMAX; ++i) if (i < n && vals)
      for (size_t e = 0; e < CAP_NNZ; ++e) if ((ptrdiff_t)e >= M->ptr[i] && (ptrdiff_t)e < M->ptr[i + 1]) {
        const size_t j = (size_t)M->col[e];
        V want = MATH_zero(value_type);
        for (size_t q = 0; q < CAP_NNZ; ++q) if ((ptrdiff_t)q >= A->ptr[i] && (ptrdiff_t)q < A->ptr[i + 1] && (size_t)A->col[q] == j) want = A->val[q];
        if (M->val[e] != want) vals = 0;
      }
    ENSURES(vals, "C06 ILUP values: every stored value of the pattern matrix is a_ij where A stores (i,j) and zero elsewhere (every cell written)");
  }
#endif
  CANARY("harness.end");
}
""",
    entry='h_ilup', mode='unwound', unwind='NMAX*NMAX+3', model='uf',
    variants=[{'NMAX': 3, 'ZMAX': 5, 'K': 1}, {'NMAX': 3, 'ZMAX': 5, 'K': 2}, {'NMAX': 3, 'ZMAX': 5, 'K': 0}],
    thorough_variants=[{'NMAX': 3, 'ZMAX': 9, 'K': 1}, {'NMAX': 3, 'ZMAX': 9, 'K': 2}, {'NMAX': 3, 'ZMAX': 9, 'K': 3}, {'NMAX': 3, 'ZMAX': 9, 'K': 0}],
    bound_text='n <= 3, nnz <= 5 (thorough: nnz <= 9 = every 3 x 3 pattern), rows strictly ascending with a stored diagonal, k = 0, 1, 2 (thorough: 3); values uninterpreted (measured 1-15 s)',
    assumptions=A_RELAX + A_UF + A_UF16 + [
        'A-sorted: the rows of A are sorted by column without duplicates (the values are merged into the sorted product rows)',
        'A-diag: every row of A has a stored diagonal entry (property quantifier "non-zero diagonal"): the pattern of A is then contained in the pattern of A^(k+1)',
        'A-callee: detail::symb_product by its contract (unit ilup_symb_product); make_shared<ilu0>(M, prm, bprm) is a ghost hook recording M (unit ilu0_structure)',
        'A-new: operator new[] never returns null; fresh arrays have nondeterministic content'],
    replay='iluk', timeout=300, witness=wit('A'),
    not_decided=['what ILU(0) does with the matrix (unit ilu0_structure); explicit zeros in the pattern matrix are dropped again by ilu0 when their computed value is_zero',
                 'OBSERVATION (outside the quantifier): without a stored diagonal the merge cursor `P->col[jp]` is read at jp == p_end (one past the row, past the array for the last row)',
                 'n beyond the bound'])
ilup_ctor.unwindset = [(r'for\(ptrdiff_t i = 0;', 'NMAX+1'), (r'for\(ptrdiff_t ja = ', 'NMAX+1'), (r'while\(jp < ep', 'NMAX+1'), (r'for\(int k = 1;', 'K+1'), (r'< NMAX;', 'NMAX+1'), (r'< 4;', '5')]


# ============================================================================ relaxation::ilut : sparse_vector::move_to (dual threshold dropping)
ILUT = 'amgcl/relaxation/ilut.hpp'
FUNCTOR1 = r'bool operator\(\)\(const nonzero &v\) const\s*(?=\{)'                        # higher_than (first), L_first (second)
FUNCTOR2 = r'bool operator\(\)\(const nonzero &a, const nonzero &b\) const\s*(?=\{)'      # by_abs_val (first), by_col (second)
MOVE_RULES = member_rules(['nz', 'idx', 'dia']) + [
    Rule(r'^\s*typedef std_vector<nonzero>::iterator ptr;\n', '', None, why='R-tmpl: iterator of std::vector<nonzero> = pointer to its cells (typedef in the template)'),
    Rule(r'(self->nz)\.begin\(\)', r'((ptr)0)', None, why='R-iter begin() of the member vector: position 0 (iterators of std::vector are positions; arithmetic on them is integer arithmetic)'),
    Rule(r'(self->nz)\.end\(\)', r'((ptr)\1.n)', None, why='R-iter end() of the member vector: position size()'),
    Rule(r'\b(\w+)->(col|val)\b', r'self->nz.d[IDX(\1, self->nz.n, "nz")].\2', None, why='R-iter it->member: the cell of the member vector at that position (with the logical-bounds obligation)'),
    Rule(r'(self->nz)\.clear\(\);', r'\1.n = 0;', None, why='R-vec-member clear()'),
    Rule(r'std_partition\((?P<b>\w+), (?P<e>\w+), (?P<f>\w+)\((?P<a>[^()]*)\)\)', r'std_partition_\g<f>(self->nz.d, \g<b>, \g<e>, mk_\g<f>(\g<a>))', None, why='R-std std::partition with a functor object'),
    Rule(r'std_nth_element\((?P<b>\w+), (?P<n>\w+), (?P<e>\w+), (?P<f>\w+)\((?P<a>[^()]*)\)\)', r'std_nth_element_\g<f>(self->nz.d, \g<b>, \g<n>, \g<e>, mk_\g<f>(\g<a>))', None, why='R-std std::nth_element with a functor object'),
    Rule(r'std_sort\((?P<b>\w+), (?P<e>\w+), (?P<f>\w+)\(\)\)', r'std_sort_\g<f>(self->nz.d, \g<b>, \g<e>)', None, why='R-std std::sort with a functor object'),
    RangeFor(['nonzero'], None),
    Rule(r'(self->idx)\[', r'\1.d[', None, why='R-vec-member v[k] -> v.d[k]'), IdxRule(r'self->idx\.d', 'self->idx.n', None),
    IdxRule(r'(L|U)\.(?:col|val)', r'\1.nnz', None), IdxRule(r'D', 'D_n', None),
]
ILUT_CUTS = {
    'higher_than': Cut(ILUT, FUNCTOR1, nth=0, rules=member_rules(['tol', 'dia'])),
    'L_first': Cut(ILUT, FUNCTOR1, nth=1, rules=member_rules(['dia'])),
    'by_abs_val': Cut(ILUT, FUNCTOR2, nth=0, rules=member_rules(['dia'])),
    'by_col': Cut(ILUT, FUNCTOR2, nth=1),
    'body': Cut(ILUT, r'void move_to\(\s*int lp, int up, scalar_type tol,\s*ptrdiff_t &Lhead, build_matrix &L,\s*ptrdiff_t &Uhead, build_matrix &U,\s*backend::numa_vector<value_type> &D\s*\)\s*(?=\{)',
                rules=MOVE_RULES),
}

ILUT_C = r"""
#define CAP_ROW (NMAX + 1)
/* ghost recording through the value-model macro: which values were inverted, how often */
static int g_inv_calls; static V g_inv_arg[2];
static inline V rec_inverse(V a) { if (g_inv_calls < 2) g_inv_arg[g_inv_calls] = a; g_inv_calls++; return __CPROVER_uninterpreted_inverse(a); }
#undef math_inverse
#define math_inverse(a) rec_inverse((V)(a))
#undef math_norm
/* A-norm: math::norm maps a value to a TOTALLY ORDERED scalar; here an uninterpreted function into {0..7} compared as integers */
typedef int scalar_type;
#define math_norm(a) ((int)(__CPROVER_uninterpreted_norm((V)(a)) & 7))
/* data members of ilut::sparse_vector::nonzero and of sparse_vector used by move_to (declaration order; the queue q is not touched) */
typedef struct { ptrdiff_t col; value_type val; } nonzero;
typedef struct { size_t n; nonzero d[CAP_ROW]; } vec_nz;
typedef struct { size_t n; ptrdiff_t d[CAP_ROW]; } vec_idx;
typedef struct { vec_nz nz; vec_idx idx; ptrdiff_t dia; } sparse_vector;
typedef ptrdiff_t ptr;        /* std::vector<nonzero>::iterator: a position in the member vector nz */
typedef crs build_matrix;
/* the functor objects (data members; their constructors copy the arguments) */
typedef struct { scalar_type tol; ptrdiff_t dia; } higher_than;
typedef struct { ptrdiff_t dia; } L_first;
typedef struct { ptrdiff_t dia; } by_abs_val;
static higher_than mk_higher_than(scalar_type tol, ptrdiff_t dia) { higher_than f; f.tol = tol; f.dia = dia; return f; }
static L_first mk_L_first(ptrdiff_t dia) { L_first f; f.dia = dia; return f; }
static by_abs_val mk_by_abs_val(ptrdiff_t dia) { by_abs_val f; f.dia = dia; return f; }
#define v (*v_p)
static _Bool call_higher_than(const higher_than *self, const nonzero *v_p)
{
/*@CUT:higher_than@*/
}
static _Bool call_L_first(const L_first *self, const nonzero *v_p)
{
/*@CUT:L_first@*/
}
#undef v
#define a (*a_p)
#define b (*b_p)
static _Bool call_by_abs_val(const by_abs_val *self, const nonzero *a_p, const nonzero *b_p)
{
/*@CUT:by_abs_val@*/
}
static _Bool call_by_col(const nonzero *a_p, const nonzero *b_p)
{
/*@CUT:by_col@*/
}
#undef a
#undef b
/* the algorithms work on positions [b, e) of the cell array d; a range outside [0, CAP_ROW) is a bound artefact / reported by the callers' obligations */
static _Bool rng_ok(ptr b, ptr e)
{
#if defined(CXC_CBMC) && !defined(CXC_CANARY)
  __CPROVER_assert(0 <= b && b <= e && e <= (ptr)CAP_ROW, "safety.idx. iterator range handed to a standard algorithm lies inside the vector");
#endif
  return 0 <= b && b <= e && e <= (ptr)CAP_ROW;
}
/* std::partition (A-std): every element satisfying the predicate before every element that does not; returns the boundary (one valid arrangement: stable) */
#define DEF_PARTITION(F) static ptr std_partition_##F(nonzero *d, ptr b, ptr e, F f) \
{ if (!rng_ok(b, e)) return b; \
  ptr m = b; \
  for (ptr c = 0; c < (ptr)CAP_ROW; ++c) if (c >= b && c < e) { \
    if (call_##F(&f, &d[c])) { const nonzero t = d[c]; for (ptr r = (ptr)CAP_ROW - 1; r > 0; --r) if (r <= c && r > m) d[r] = d[r - 1]; d[m] = t; ++m; } } \
  return m; }
DEF_PARTITION(higher_than)
DEF_PARTITION(L_first)
/* std::nth_element (A-std): afterwards no element of [b, nth) is ordered after an element of [nth, e) (one valid arrangement: the range sorted by comp) */
static void std_nth_element_by_abs_val(nonzero *d, ptr b, ptr nth, ptr e, by_abs_val f)
{
  (void)nth;
  if (!rng_ok(b, e)) return;
  for (ptr i = 1; i < (ptr)CAP_ROW; ++i) if (i > b && i < e) {
    const nonzero t = d[i]; ptr j = i;
    for (ptr s = 0; s < (ptr)CAP_ROW; ++s) if (j > b && call_by_abs_val(&f, &t, &d[j - 1])) { d[j] = d[j - 1]; --j; }
    d[j] = t;
  }
}
/* std::sort (A-std) */
static void std_sort_by_col(nonzero *d, ptr b, ptr e)
{
  if (!rng_ok(b, e)) return;
  for (ptr i = 1; i < (ptr)CAP_ROW; ++i) if (i > b && i < e) {
    const nonzero t = d[i]; ptr j = i;
    for (ptr s = 0; s < (ptr)CAP_ROW; ++s) if (j > b && call_by_col(&t, &d[j - 1])) { d[j] = d[j - 1]; --j; }
    d[j] = t;
  }
}
static void f_move_to(sparse_vector *self, int lp, int up, scalar_type tol, ptrdiff_t *Lhead_p, crs *L_p, ptrdiff_t *Uhead_p, crs *U_p, V *D, size_t D_n)
{
#define Lhead (*Lhead_p)
#define Uhead (*Uhead_p)
#define L (*L_p)
#define U (*U_p)
/*@CUT:body@*/
#undef Lhead
#undef Uhead
#undef L
#undef U
}
"""

ILUT_HARNESS = r"""
unsigned char nondet_uchar(void);
/* witness: the work vector (columns, norms of the values), the budgets, the tolerance */
size_t w_n, w_cnt; ptrdiff_t w_dia; int w_lp, w_up, w_tol; ptrdiff_t w_col[CAP_ROW]; int w_norm[CAP_ROW];
/* contract (enforced by the harness):
 *   requires  the work vector holds cnt <= n entries with pairwise distinct columns in [0, n), the diagonal `dia` among them; idx[c] = position of column c or -1;
 *             0 <= lp, up; the output matrices have room for lp more L entries and up more U entries (the constructor reserves p*l_i + p*u_i per row)
 *   ensures   documentation of ILUT(p, tau): of the entries LEFT of the diagonal whose norm exceeds tol the min(lp, .) largest are appended to L, of those RIGHT of the
 *             diagonal the min(up, .) largest are appended to U -- in addition to the diagonal, which goes to D inverted --, each with its value, columns ascending;
 *             the work vector is left empty with idx == -1 everywhere                                                                      */
void h_move_to(void)
{
  size_t n; REQUIRES(n >= 1 && n <= NMAX);
  sparse_vector w; nonzero e0[CAP_ROW];
  w.nz.n = nondet_uchar() & 7; REQUIRES(w.nz.n >= 1 && w.nz.n <= n);
  w.dia = nondet_uchar() & 7; REQUIRES((size_t)w.dia < n);
  w.idx.n = n;
  for (size_t c = 0; c < CAP_ROW; ++c) w.idx.d[c] = -1;
  _Bool has_dia = 0;
  for (size_t k = 0; k < CAP_ROW; ++k) {
    w.nz.d[k].col = nondet_uchar() & 7; e0[k] = w.nz.d[k];
    if (k < w.nz.n) { REQUIRES((size_t)w.nz.d[k].col < n && w.idx.d[w.nz.d[k].col] == -1); w.idx.d[w.nz.d[k].col] = (ptrdiff_t)k; if (w.nz.d[k].col == w.dia) has_dia = 1; }
    w_col[k] = w.nz.d[k].col; w_norm[k] = math_norm(w.nz.d[k].val);
  }
  REQUIRES(has_dia);
  const size_t cnt = w.nz.n; const ptrdiff_t dia = w.dia;
  int lp = nondet_uchar() & 7, up = nondet_uchar() & 7; const scalar_type tol = nondet_uchar() & 7;
  crs *L = crs_input(), *U = crs_input();
  ptrdiff_t Lhead = nondet_uchar() & 3, Uhead = nondet_uchar() & 3;
  L->nnz = (size_t)(Lhead + lp); U->nnz = (size_t)(Uhead + up);
  REQUIRES(L->nnz < CAP_NNZ && U->nnz < CAP_NNZ);
  const ptrdiff_t Lhead0 = Lhead, Uhead0 = Uhead;
  col_type lc0[CAP_NNZ], uc0[CAP_NNZ]; V lv0[CAP_NNZ], uv0[CAP_NNZ];
  for (size_t j = 0; j < CAP_NNZ; ++j) { lc0[j] = L->col[j]; uc0[j] = U->col[j]; lv0[j] = L->val[j]; uv0[j] = U->val[j]; }
  V D[NMAX + 1], D0[NMAX + 1]; for (size_t r = 0; r < NMAX + 1; ++r) { V x; D[r] = x; D0[r] = x; }
  w_n = n; w_cnt = cnt; w_dia = dia; w_lp = lp; w_up = up; w_tol = tol;

  f_move_to(&w, lp, up, tol, &Lhead, L, &Uhead, U, D, n);

  /* candidates of each side: entries of the original work vector whose norm exceeds the tolerance */
  int candL = 0, candU = 0;
  for (size_t k = 0; k < CAP_ROW; ++k) if (k < cnt && math_norm(e0[k].val) > tol) { if (e0[k].col < dia) candL++; if (e0[k].col > dia) candU++; }
  const int keepL = candL < lp ? candL : lp, keepU = candU < up ? candU : up;
  ENSURES(!g_cap_exceeded && !g_thrown, "bound artefact / no exception");
  ENSURES(Lhead - Lhead0 == keepL, "C06 ILUT fill of L: exactly min(p*l_i, number of entries left of the diagonal above the tolerance) entries are appended to L");
  ENSURES(Uhead - Uhead0 == keepU, "C06 ILUT fill of U: exactly min(p*u_i, number of entries right of the diagonal above the tolerance) entries are appended to U IN ADDITION to the diagonal");
  for (int side = 0; side < 2; ++side) {
    const crs *F = side == 0 ? L : U; const ptrdiff_t b = side == 0 ? Lhead0 : Uhead0, e = side == 0 ? Lhead : Uhead;
    _Bool ok = e >= b && (size_t)e <= F->nnz, largest = 1;
    for (size_t s = 0; s < CAP_NNZ; ++s) if ((ptrdiff_t)s >= b && (ptrdiff_t)s < e && ok) {
      const ptrdiff_t c = F->col[s];
      if (side == 0 ? !(c >= 0 && c < dia) : !(c > dia && (size_t)c < n)) ok = 0;
      if ((ptrdiff_t)s + 1 < e && !(c < F->col[s + 1])) ok = 0;
      /* it is an original entry above the tolerance, with its value */
      _Bool src = 0; int nk = 0;
      for (size_t k = 0; k < CAP_ROW; ++k) if (k < cnt && e0[k].col == c && e0[k].val == F->val[s] && math_norm(e0[k].val) > tol) { src = 1; nk = math_norm(e0[k].val); }
      if (!src) ok = 0;
      /* no dropped candidate of the same side is strictly larger */
      for (size_t k = 0; k < CAP_ROW; ++k) if (k < cnt && (side == 0 ? e0[k].col < dia : e0[k].col > dia) && math_norm(e0[k].val) > tol) {
        _Bool kept = 0;
        for (size_t t = 0; t < CAP_NNZ; ++t) if ((ptrdiff_t)t >= b && (ptrdiff_t)t < e && F->col[t] == e0[k].col) kept = 1;
        if (!kept && math_norm(e0[k].val) > nk) largest = 0;
      }
    }
    if (side == 0) {
      ENSURES(ok, "ILUT row of L: strictly left of the diagonal, columns strictly ascending, every entry is an entry of the work vector above the tolerance with its value");
      ENSURES(!ok || largest, "C06 ILUT dropping in L: no dropped entry above the tolerance is strictly larger in norm than a kept one");
    } else {
      ENSURES(ok, "ILUT row of U: strictly right of the diagonal, in range, columns strictly ascending, every entry is an entry of the work vector above the tolerance with its value");
      ENSURES(!ok || largest, "C06 ILUT dropping in U: no dropped entry above the tolerance is strictly larger in norm than a kept one");
    }
  }
  V dval; for (size_t k = 0; k < CAP_ROW; ++k) if (k < cnt && e0[k].col == dia) dval = e0[k].val;
  ENSURES(g_inv_calls == 1 && g_inv_arg[0] == dval && D[dia] == __CPROVER_uninterpreted_inverse(dval), "ILUT: D[dia] == inverse(value of the diagonal entry), inverted exactly once (the diagonal is always kept)");
  _Bool frame = 1;
  for (size_t j = 0; j < CAP_NNZ; ++j) { if ((ptrdiff_t)j < Lhead0 && (L->col[j] != lc0[j] || L->val[j] != lv0[j])) frame = 0; if ((ptrdiff_t)j < Uhead0 && (U->col[j] != uc0[j] || U->val[j] != uv0[j])) frame = 0; }
  for (size_t r = 0; r < NMAX + 1; ++r) if ((ptrdiff_t)r != dia && D[r] != D0[r]) frame = 0;
  ENSURES(frame, "frame: the rows of L and U written before and every D[p], p != dia, are unchanged");
  _Bool clean = w.nz.n == 0 && w.idx.n == n;
  for (size_t c = 0; c < NMAX; ++c) if (c < n && w.idx.d[c] != -1) clean = 0;
  ENSURES(clean, "ILUT: the work vector is left empty, idx == -1 everywhere");
  CANARY("harness.end");
}
"""

ilut_move_to = Unit(
    name='ilut_move_to', props=['C06', 'C10'],
    functions=['relaxation::ilut<Backend>::sparse_vector::move_to(int, int, scalar_type, ptrdiff_t&, build_matrix&, ptrdiff_t&, build_matrix&, numa_vector&)',
               'sparse_vector::{higher_than, L_first, by_abs_val, by_col}::operator()'],
    desc='dual threshold dropping of ILUT(p, tau) for one row: of the work-vector entries left of the diagonal whose norm exceeds the tolerance exactly min(lp, .) are appended to L, of those '
         'right of the diagonal exactly min(up, .) are appended to U IN ADDITION to the diagonal (documentation: "the p*u_i largest elements in the U part ... in addition to the diagonal '
         'element, which is always kept"); no dropped candidate is strictly larger in norm than a kept one; kept entries carry their values, columns strictly ascending, strictly lower / '
         'upper, in range; D[dia] = inverse(diagonal value), once; everything written before untouched; the work vector is left empty with idx == -1; writes stay inside the reserved room',
    cuts=ILUT_CUTS,
    template=UF16 + VEC_PRELUDE + ILUT_C + ILUT_HARNESS,
    entry='h_move_to', mode='unwound', unwind='max(ZMAX,NMAX)+3', model='uf',
    variants=[{'NMAX': 3, 'ZMAX': 10}], thorough_variants=[{'NMAX': 3, 'ZMAX': 10}, {'NMAX': 4, 'ZMAX': 10}],
    bound_text='work vectors with 1 <= n <= 3 (thorough: 4, measured 107 s) entries of pairwise distinct columns incl. the diagonal, any order; budgets lp, up in 0..7, tolerance and norms in 0..7; '
               'any room offsets; values uninterpreted',
    assumptions=A_RELAX + A_UF + A_UF16 + [
        'A-norm: math::norm maps a value to a totally ordered scalar (here: an uninterpreted function into {0..7}, compared as integers); tol is such a scalar',
        'A-std-algo: std::partition / std::nth_element / std::sort are stubs that call the functor bodies cut from the repository and realise ONE arrangement allowed by the standard '
        '(stable partition; the range fully sorted for nth_element); iterators of std::vector<nonzero> are pointers to its cells',
        'A-room: the output matrices have room for lp more L entries and up more U entries (the constructor reserves p*l_i + p*u_i slots per row and passes lp = p*l_i, up = p*u_i)',
        'A-diag: the work vector holds the diagonal entry (property quantifier "non-zero diagonal")'],
    replay='iluk', timeout=300, witness=['w_n', 'w_cnt', 'w_dia', 'w_lp', 'w_up', 'w_tol', 'w_col', 'w_norm'],
    not_decided=['the elimination loop of the ILUT constructor (which entries reach the work vector, the value of tol)', 'ties in norm: which of several equal candidates is kept', 'n beyond the bound'])
ilut_move_to.unwindset = [(r'< CAP_ROW;', 'NMAX+2'), (r'for\(ptr a = ', 'NMAX+1'), (r'for \(size_t e_i = 0;', 'NMAX+2'), (r'< NMAX;', 'NMAX+1')]


UNITS = [iluk_ctor, iluk_row_step, iluk_row_values, ilup_symb, ilup_ctor, ilut_move_to]
CANDIDATE_DEFECT_UNITS = []
for _u in UNITS + CANDIDATE_DEFECT_UNITS:
    _u.replay_asan = True
