"""Setup phase (C03): coarse operator = (re-scaled) Galerkin product; level::step_down stores
and uses exactly the transfer operators chosen; level::rebuild / amg::rebuild recompute every
coarse matrix from the NEW matrix and the STORED operators.  Call-level, provenance contracts
(prelude/orch_setup.h): all loop-free or with one inductive loop; no bound."""
from cxc.extract import Cut, Rule, UF, Loop, UFArgs
from cxc.unit import Unit

A_SETUP = [
    'A-prov: backend::product / transpose / scale / sort_rows are represented by provenance contracts (result id = PROD/TR/SCALE term; sort_rows keeps the operator); that these kernels equal their dense definitions is decided by the C08 units (bounded)',
    'A-own: shared_ptr lifetimes not modelled (plain pointers to distinct objects)',
    'A-callee: Coarsening::transfer_operators / coarse_operator, relaxation and direct-solver constructors honour the stated contracts',
]
REPL = ['bk_product', 'bk_transpose', 'bk_scale', 'bk_sort_rows']

HDR = '#include "orch_setup.h"\nint g_thrown;\n#define RET __CPROVER_return_value\n'

# ------------------------------------------------------------------ galerkin
galerkin = Unit(
    name='galerkin', props=['C03', 'C10'],
    functions=['coarsening::detail::galerkin(A, P, R)'],
    desc='galerkin(A,P,R) == product(R, product(A, P))',
    cuts={'body': Cut('amgcl/coarsening/detail/galerkin.hpp',
                      r'std::shared_ptr<Matrix> galerkin\(\s*const Matrix &A, const Matrix &P, const Matrix &R\s*\)\s*(?=\{)')},
    template=HDR + r'''
bmat *f_galerkin(const bmat *A_p, const bmat *P_p, const bmat *R_p)
__CPROVER_requires(__CPROVER_is_fresh(A_p, sizeof(bmat)) && __CPROVER_is_fresh(P_p, sizeof(bmat)) && __CPROVER_is_fresh(R_p, sizeof(bmat)))
__CPROVER_assigns()
/* C03: the next-level matrix is R * (A * P) */
__CPROVER_ensures(RET->id == PROD(R_p->id, PROD(A_p->id, P_p->id)))
{
#define A (*A_p)
#define P (*P_p)
#define R (*R_p)
/*@CUT:body@*/
#undef A
#undef P
#undef R
}
void h_f_galerkin(void) { const bmat *A, *P, *R; f_galerkin(A, P, R); }
''',
    enforce='f_galerkin', replace=REPL, mode='loopfree', obj_bits=12, assumptions=A_SETUP, replay='orchestration',
)

# ------------------------------------------------------------------ scaled_galerkin
BK_GALERKIN = r'''
bmat *bk_galerkin(const bmat *A, const bmat *P, const bmat *R)
__CPROVER_assigns()
__CPROVER_ensures(__CPROVER_is_fresh(__CPROVER_return_value, sizeof(bmat)) && __CPROVER_return_value->id == PROD(R->id, PROD(A->id, P->id)));
#define galerkin(a, p, r) bk_galerkin(&(a), &(p), &(r))
'''
scaled_galerkin = Unit(
    name='scaled_galerkin', props=['C03', 'C10'],
    functions=['coarsening::detail::scaled_galerkin(A, P, R, s)'],
    desc='scaled_galerkin(A,P,R,s) == s * galerkin(A,P,R)',
    cuts={'body': Cut('amgcl/coarsening/detail/scaled_galerkin.hpp',
                      r'std::shared_ptr<Matrix> scaled_galerkin\(\s*const Matrix &A,\s*const Matrix &P,\s*const Matrix &R,\s*float s\s*\)\s*(?=\{)',
                      rules=[Rule(r'\bauto a =', 'bmat *a =', 1, why='R-auto')])},
    template=HDR + BK_GALERKIN + r'''
bmat *f_scaled_galerkin(const bmat *A_p, const bmat *P_p, const bmat *R_p, V s)
__CPROVER_requires(__CPROVER_is_fresh(A_p, sizeof(bmat)) && __CPROVER_is_fresh(P_p, sizeof(bmat)) && __CPROVER_is_fresh(R_p, sizeof(bmat)))
__CPROVER_assigns()
__CPROVER_ensures(RET->id == SCALE(PROD(R_p->id, PROD(A_p->id, P_p->id)), s))
{
#define A (*A_p)
#define P (*P_p)
#define R (*R_p)
/*@CUT:body@*/
#undef A
#undef P
#undef R
}
void h_f_scaled_galerkin(void) { const bmat *A, *P, *R; V s; f_scaled_galerkin(A, P, R, s); }
''',
    enforce='f_scaled_galerkin', replace=REPL + ['bk_galerkin'], mode='loopfree', obj_bits=12, assumptions=A_SETUP, replay='orchestration',
)

# ------------------------------------------------------------------ coarse_operator of aggregation / smoothed_aggregation
BK_SG = r'''
bmat *bk_scaled_galerkin(const bmat *A, const bmat *P, const bmat *R, V s)
__CPROVER_assigns()
__CPROVER_ensures(__CPROVER_is_fresh(__CPROVER_return_value, sizeof(bmat)) && __CPROVER_return_value->id == SCALE(PROD(R->id, PROD(A->id, P->id)), s));
#define detail_scaled_galerkin(a, p, r, s) bk_scaled_galerkin(&(a), &(p), &(r), s)
#define detail_galerkin(a, p, r) bk_galerkin(&(a), &(p), &(r))
'''
CO_SIG = r'coarse_operator\(const Matrix &A, const Matrix &P, const Matrix &R\) const\s*(?=\{)'
aggr_coarse = Unit(
    name='aggregation_coarse_operator', props=['C03', 'C10'],
    functions=['coarsening::aggregation<Backend>::coarse_operator(A, P, R)'],
    desc='plain aggregation: coarse = galerkin / over_interp',
    cuts={'body': Cut('amgcl/coarsening/aggregation.hpp', CO_SIG,
                      rules=[Rule(r'\bdetail::(scaled_galerkin|galerkin)\(', r'detail_\1(', 1, why='R-ns'),
                             UFArgs(r'detail_scaled_galerkin', 1, skip=[0, 1, 2])])},
    template=HDR + BK_GALERKIN + BK_SG + r'''
typedef struct aggr_params { V over_interp; } aggr_params;
bmat *f_coarse(const aggr_params *self, const bmat *A_p, const bmat *P_p, const bmat *R_p)
__CPROVER_requires(__CPROVER_is_fresh(self, sizeof(*self)) && __CPROVER_is_fresh(A_p, sizeof(bmat)) && __CPROVER_is_fresh(P_p, sizeof(bmat)) && __CPROVER_is_fresh(R_p, sizeof(bmat)))
__CPROVER_assigns()
/* C03: R*A*P divided by the over-interpolation factor */
__CPROVER_ensures(RET->id == SCALE(PROD(R_p->id, PROD(A_p->id, P_p->id)), UF_DIV(UF_CONST(1), self->over_interp)))
{
  const aggr_params prm = *self;
#define A (*A_p)
#define P (*P_p)
#define R (*R_p)
/*@CUT:body@*/
#undef A
#undef P
#undef R
}
void h_f_coarse(void) { const aggr_params *s; const bmat *A, *P, *R; f_coarse(s, A, P, R); }
''',
    enforce='f_coarse', replace=REPL + ['bk_galerkin', 'bk_scaled_galerkin'], mode='loopfree', obj_bits=12, assumptions=A_SETUP, replay='orchestration',
)
sa_coarse = Unit(
    name='smoothed_aggregation_coarse_operator', props=['C03', 'C10'],
    functions=['coarsening::smoothed_aggregation<Backend>::coarse_operator(A, P, R)'],
    desc='smoothed aggregation: coarse = galerkin(A,P,R)',
    cuts={'body': Cut('amgcl/coarsening/smoothed_aggregation.hpp', CO_SIG,
                      rules=[Rule(r'\bdetail::(scaled_galerkin|galerkin)\(', r'detail_\1(', 1, why='R-ns')])},
    template=HDR + BK_GALERKIN + BK_SG + r'''
bmat *f_coarse(const bmat *A_p, const bmat *P_p, const bmat *R_p)
__CPROVER_requires(__CPROVER_is_fresh(A_p, sizeof(bmat)) && __CPROVER_is_fresh(P_p, sizeof(bmat)) && __CPROVER_is_fresh(R_p, sizeof(bmat)))
__CPROVER_assigns()
__CPROVER_ensures(RET->id == PROD(R_p->id, PROD(A_p->id, P_p->id)))
{
#define A (*A_p)
#define P (*P_p)
#define R (*R_p)
/*@CUT:body@*/
#undef A
#undef P
#undef R
}
void h_f_coarse(void) { const bmat *A, *P, *R; f_coarse(A, P, R); }
''',
    enforce='f_coarse', replace=REPL + ['bk_galerkin', 'bk_scaled_galerkin'], mode='loopfree', obj_bits=12, assumptions=A_SETUP, replay='orchestration',
)

# ------------------------------------------------------------------ level::step_down / level::rebuild
LEVEL_T = HDR + r'''
typedef struct relax_o { int built_from; } relax_o;   /* relaxation object: remembers the matrix it was built from */
typedef struct solve_o { int built_from; } solve_o;
typedef struct level {
  bmat *A, *P, *R;      /* backend copies (builtin backend: copy_matrix is the identity) */
  bmat *bP, *bR;        /* stored transfer operators (allow_rebuild) */
  solve_o *solve; relax_o *relax;
} level;
typedef struct coarsening { int id; } coarsening;
typedef struct tuple_PR { bmat *P; bmat *R; } tuple_PR;
/* ghost: what transfer_operators returned */
int g_to_A, g_to_P, g_to_R; unsigned long g_to_calls;
int __CPROVER_uninterpreted_m_coarse(int, int, int, int);
#define COARSE(c, a, p, r) __CPROVER_uninterpreted_m_coarse(c, a, p, r)
/* C.transfer_operators(A): fresh P and R (or throws empty_level) */
tuple_PR bk_transfer_operators(coarsening *C, const bmat *A)
__CPROVER_assigns(g_thrown, g_to_A, g_to_P, g_to_R, g_to_calls)
__CPROVER_ensures(g_to_calls == __CPROVER_old(g_to_calls) + 1 && g_to_A == A->id)
__CPROVER_ensures(__CPROVER_is_fresh(__CPROVER_return_value.P, sizeof(bmat)) && __CPROVER_is_fresh(__CPROVER_return_value.R, sizeof(bmat)))
__CPROVER_ensures(__CPROVER_return_value.P->id == g_to_P && __CPROVER_return_value.R->id == g_to_R);
/* C.coarse_operator(A, P, R): proved by the coarse_operator units to be the (scaled) Galerkin product */
bmat *bk_coarse_operator(const coarsening *C, const bmat *A, const bmat *P, const bmat *R)
__CPROVER_assigns()
__CPROVER_ensures(__CPROVER_is_fresh(__CPROVER_return_value, sizeof(bmat)) && __CPROVER_return_value->id == COARSE(C->id, A->id, P->id, R->id));
/* Backend::copy_matrix(A, bprm): same operator on the backend */
bmat *bk_copy_matrix(bmat *A)
__CPROVER_assigns()
__CPROVER_ensures(__CPROVER_return_value == A);
relax_o *bk_make_relax(const bmat *A)
__CPROVER_assigns()
__CPROVER_ensures(__CPROVER_is_fresh(__CPROVER_return_value, sizeof(relax_o)) && __CPROVER_return_value->built_from == A->id);
solve_o *bk_create_solver(bmat *A)
__CPROVER_assigns()
__CPROVER_ensures(__CPROVER_is_fresh(__CPROVER_return_value, sizeof(solve_o)) && __CPROVER_return_value->built_from == A->id);
#define TRANSFER_OPERATORS(C, A) bk_transfer_operators(&(C), &(A))
#define COARSE_OPERATOR(C, A, P, R) bk_coarse_operator(&(C), &(A), &(P), &(R))
#define Backend_copy_matrix(A, bprm) bk_copy_matrix(A)
#define Backend_create_solver(A, bprm) bk_create_solver(A)
#define MAKE_RELAX(A) bk_make_relax(&(A))
'''

step_down = Unit(
    name='level_step_down', props=['C03', 'C10'],
    functions=['amg::level::step_down(A, C, bprm, allow_rebuild)'],
    desc='step_down: uses exactly the (P,R) returned by transfer_operators for the level operators, stores them for rebuild, returns coarse_operator(A,P,R) sorted; empty level -> null',
    cuts={'body': Cut('amgcl/amg.hpp', r'std::shared_ptr<build_matrix> step_down\(\s*std::shared_ptr<build_matrix> A,\s*coarsening_type &C, const backend_params &bprm,\s*bool allow_rebuild\)\s*(?=\{)',
                      rules=[Rule(r'std_shared_ptr<build_matrix> P, R;', 'bmat *P = 0, *R = 0;', 1, why='R-smartptr'),
                             Rule(r'\btry \{', '{ g_thrown = 0;', 1, why='R-exc try -> block'),
                             Rule(r'std_tie\(P, R\) = C\.transfer_operators\(\*A\);', '{ tuple_PR pr_ = TRANSFER_OPERATORS(C, *A); P = pr_.P; R = pr_.R; }', 1, why='R-tuple'),
                             Rule(r'\} catch\(error::empty_level\) \{', '} if (g_thrown) {', 1, why='R-exc catch(empty_level) -> if (thrown)'),
                             Rule(r'return std_shared_ptr<build_matrix>\(\);', 'return 0;', 1, why='R-smartptr null'),
                             Rule(r'\bthis->', 'self->', '+', why='R-member'),
                             Rule(r'(?<![\w>.])b(P|R) = ', r'self->b\1 = ', 2, why='R-member'),
                             Rule(r'Backend::copy_matrix', 'Backend_copy_matrix', '+', why='R-ns'),
                             Rule(r'C\.coarse_operator\(', 'COARSE_OPERATOR(C, ', 1, why='member call -> C call')])},
    template=LEVEL_T + r'''
bmat *f_step_down(level *self, bmat *A, coarsening *C_p, _Bool allow_rebuild)
__CPROVER_requires(__CPROVER_is_fresh(self, sizeof(*self)) && __CPROVER_is_fresh(A, sizeof(bmat)) && __CPROVER_is_fresh(C_p, sizeof(coarsening)))
__CPROVER_requires(g_to_calls == 0 && self->bP == 0 && self->bR == 0)
__CPROVER_assigns(self->P, self->R, self->bP, self->bR, g_thrown, g_to_A, g_to_P, g_to_R, g_to_calls)
/* transfer operators are computed once, from this level's matrix */
__CPROVER_ensures(g_to_calls == 1 && g_to_A == __CPROVER_old(A->id))
/* empty level: nothing returned */
__CPROVER_ensures(g_thrown ==> RET == 0)
/* C03: the level keeps exactly the operators chosen, sorted; the next matrix is coarse_operator(A, P, R) of them */
__CPROVER_ensures(!g_thrown ==> (self->P->id == g_to_P && self->R->id == g_to_R && self->P->sorted && self->R->sorted
                               && RET != 0 && RET->id == COARSE(C_p->id, __CPROVER_old(A->id), g_to_P, g_to_R) && RET->sorted))
/* rebuild support: the stored operators are the ones in use */
__CPROVER_ensures((!g_thrown && allow_rebuild) ==> (self->bP == self->P && self->bR == self->R))
__CPROVER_ensures((!g_thrown && !allow_rebuild) ==> (self->bP == 0 && self->bR == 0))
{
#define C (*C_p)
  int bprm = 0;
/*@CUT:body@*/
#undef C
}
void h_f_step_down(void) { level *l; bmat *A; coarsening *C; _Bool ar; f_step_down(l, A, C, ar); }
''',
    enforce='f_step_down', replace=REPL + ['bk_transfer_operators', 'bk_coarse_operator', 'bk_copy_matrix'],
    mode='loopfree', obj_bits=12, timeout=120, replay='orchestration', assumptions=A_SETUP + ['A-exc: try/catch(error::empty_level) is modelled by the g_thrown flag set by the transfer_operators contract'],
)

rebuild_level = Unit(
    name='level_rebuild', props=['C03', 'C15', 'C10'],
    functions=['amg::level::rebuild(A, C, prm, bprm)'],
    desc='level::rebuild: level operator, smoother and coarse solver are rebuilt from the NEW matrix; the coarse matrix is coarse_operator(A_new, stored P, stored R); transfer operators unchanged',
    cuts={'body': Cut('amgcl/amg.hpp', r'std::shared_ptr<build_matrix> rebuild\(\s*std::shared_ptr<build_matrix> A,\s*const coarsening_type &C,\s*const params &prm,\s*const backend_params &bprm\s*\)\s*(?=\{)',
                      rules=[Rule(r'\bthis->', 'self->', '+', why='R-member'),
                             Rule(r'(?<![\w>.])(relax|solve|bP|bR)\b(?!\()', r'self->\1', '+', why='R-member'),
                             Rule(r'std_make_shared<relax_type>\(\*A, prm\.relax, bprm\)', 'MAKE_RELAX(*A)', 1, why='constructor call -> C call'),
                             Rule(r'Backend::(copy_matrix|create_solver)', r'Backend_\1', '+', why='R-ns'),
                             Rule(r'C\.coarse_operator\(', 'COARSE_OPERATOR(C, ', 1, why='member call -> C call')])},
    template=LEVEL_T + r'''
bmat *f_rebuild(level *self, bmat *A, const coarsening *C_p)
__CPROVER_requires(__CPROVER_is_fresh(self, sizeof(*self)) && __CPROVER_is_fresh(A, sizeof(bmat)) && __CPROVER_is_fresh(C_p, sizeof(coarsening)))
__CPROVER_requires(self->bP == 0 || __CPROVER_is_fresh(self->bP, sizeof(bmat)))
__CPROVER_requires(self->bR == 0 || __CPROVER_is_fresh(self->bR, sizeof(bmat)))
__CPROVER_assigns(self->A, self->relax, self->solve)
/* stored transfer operators are not touched */
__CPROVER_ensures(self->bP == __CPROVER_old(self->bP) && self->bR == __CPROVER_old(self->bR) && self->P == __CPROVER_old(self->P) && self->R == __CPROVER_old(self->R))
__CPROVER_ensures((self->bP != 0) ==> self->bP->id == __CPROVER_old(self->bP->id))
__CPROVER_ensures((self->bR != 0) ==> self->bR->id == __CPROVER_old(self->bR->id))
/* what existed is rebuilt from the new matrix, what did not exist is not created */
__CPROVER_ensures(__CPROVER_old(self->A) != 0 ? self->A == A : self->A == 0)
__CPROVER_ensures(__CPROVER_old(self->relax) != 0 ? (self->relax != 0 && self->relax->built_from == __CPROVER_old(A->id)) : self->relax == 0)
__CPROVER_ensures(__CPROVER_old(self->solve) != 0 ? (self->solve != 0 && self->solve->built_from == __CPROVER_old(A->id)) : self->solve == 0)
/* C03: every coarse matrix equals coarse_operator(A', P, R) again, with the stored operators */
__CPROVER_ensures((self->bP != 0 && self->bR != 0) ? (RET->id == COARSE(C_p->id, __CPROVER_old(A->id), self->bP->id, self->bR->id) && RET->sorted) : RET == A)
{
#define C (*C_p)
  int bprm = 0;
/*@CUT:body@*/
#undef C
}
void h_f_rebuild(void) { level *l; bmat *A; const coarsening *C; f_rebuild(l, A, C); }
''',
    enforce='f_rebuild', replace=REPL + ['bk_coarse_operator', 'bk_copy_matrix', 'bk_make_relax', 'bk_create_solver'],
    mode='loopfree', obj_bits=12, assumptions=A_SETUP, replay='orchestration',
)


# ------------------------------------------------------------------ amg::rebuild(A)
AMG_REBUILD_T = HDR + r"""
typedef struct lvl { int unused; } lvl;
typedef struct amg { _Bool allow_rebuild; lvl *levels; size_t nlev; int sysmat; int coarsening_prm; } amg;   /* sysmat: id of system_matrix(); coarsening_prm: id of prm.coarsening */
typedef struct coarsening_type { int built_from; } coarsening_type;   /* the coarsening object remembers the parameters it was constructed with (-1: default-constructed) */
#define COARSENING_FROM(p) ((coarsening_type){p})
#define COARSENING_DEFAULT ((coarsening_type){-1})
/* ghost: chain of level rebuilds */
_Bool g_chain_ok, g_order_ok, g_coars_ok; int g_prev_out; size_t g_n_rebuilt; lvl *g_levels; int g_coars_prm;
/* level::rebuild(A, C, prm, bprm): contract proved by unit level_rebuild; here: each level is rebuilt with the
 * matrix returned by the previous level, in order */
bmat bk_level_rebuild(lvl *l, bmat A, coarsening_type C)
__CPROVER_assigns(g_chain_ok, g_order_ok, g_coars_ok, g_prev_out, g_n_rebuilt)
/* the coarse operators are recomputed by a coarsening object constructed from the hierarchy's OWN coarsening parameters
 * (over-interpolation factor etc.) */
__CPROVER_ensures(g_coars_ok == (__CPROVER_old(g_coars_ok) && C.built_from == g_coars_prm))
__CPROVER_ensures(g_prev_out == __CPROVER_return_value.id)
__CPROVER_ensures(g_chain_ok == (__CPROVER_old(g_chain_ok) && A.id == __CPROVER_old(g_prev_out)))
__CPROVER_ensures(g_order_ok == (__CPROVER_old(g_order_ok) && l == g_levels + __CPROVER_old(g_n_rebuilt)))
__CPROVER_ensures(g_n_rebuilt == __CPROVER_old(g_n_rebuilt) + 1);
#define LEVEL_REBUILD(l, A, C) bk_level_rebuild(&(l), A, C)
#define PRECONDITION2(c) do { if (!(c)) { g_thrown = 1; return; } } while (0)

/* the shared_ptr<build_matrix> handle is viewed as a value (rule R-smartptr: *A -> A) */
void f_amg_rebuild(amg *self, bmat A)
__CPROVER_requires(__CPROVER_is_fresh(self, sizeof(*self)))
__CPROVER_requires(self->nlev <= (1UL << 40) && __CPROVER_is_fresh(self->levels, self->nlev * sizeof(lvl)))
__CPROVER_requires(g_levels == self->levels && g_n_rebuilt == 0 && g_chain_ok && g_order_ok && g_coars_ok && g_coars_prm == self->coarsening_prm && g_coars_prm >= 0 && g_prev_out == A.id && !g_thrown)
__CPROVER_assigns(g_thrown, g_chain_ok, g_order_ok, g_coars_ok, g_prev_out, g_n_rebuilt)
/* rebuild without allow_rebuild, or with a matrix of another shape, is refused */
__CPROVER_ensures((!self->allow_rebuild || ROWS(A.id) != ROWS(self->sysmat) || COLS(A.id) != ROWS(A.id)) ==> (g_thrown && g_n_rebuilt == 0))
/* C03: every level is rebuilt exactly once, in order, each from the matrix the previous level returned */
__CPROVER_ensures(!g_thrown ==> (g_n_rebuilt == self->nlev && g_chain_ok && g_order_ok && g_coars_ok))
{
  lvl *const levels = self->levels; const size_t nlev = self->nlev;
  struct { _Bool allow_rebuild; int coarsening; } prm = { self->allow_rebuild, self->coarsening_prm };
/*@CUT:body@*/
}
void h_f_amg_rebuild(void) { amg *s; bmat A; f_amg_rebuild(s, A); }
"""
AMG_REBUILD_LOOP = r"""
__CPROVER_assigns(li_, A, g_chain_ok, g_order_ok, g_coars_ok, g_prev_out, g_n_rebuilt)
__CPROVER_loop_invariant(li_ <= nlev && g_n_rebuilt == li_ && g_chain_ok && g_order_ok && g_coars_ok && g_prev_out == A.id)
__CPROVER_decreases(nlev - li_)
"""
amg_rebuild = Unit(
    name='amg_rebuild', props=['C03', 'C15', 'C10'],
    functions=['amg::rebuild(std::shared_ptr<build_matrix> A, bprm)'],
    desc='amg::rebuild: refuses without allow_rebuild / wrong shape; threads the matrix returned by each level into the next, every level once, in order',
    cuts={'body': Cut('amgcl/amg.hpp', r'void rebuild\(\s*std::shared_ptr<build_matrix> A,\s*const backend_params &bprm = backend_params\(\)\s*\)\s*(?=\{)',
                      rules=[Rule(r'PRECONDITION\(', 'PRECONDITION2((', 2, why='R-pre (void function)'),
                             Rule(r',\s*\n?\s*"[^"]*"\s*\n?\s*\);', '));', 2, why='R-pre message dropped'),
                             Rule(r'rows\(system_matrix\(\)\)', 'ROWS(self->sysmat)', 1, why='member call'),
                             Rule(r'\*A\b', 'A', '+', why='R-smartptr: handle viewed as value'),
                             Rule(r'coarsening_type C\(([^;()]*)\);', r'coarsening_type C = COARSENING_FROM(\1);', None, why='constructor call -> provenance record'),
                             Rule(r'coarsening_type C;', 'coarsening_type C = COARSENING_DEFAULT;', None, why='default construction -> provenance record'),
                             Rule(r'for\(auto &level : levels\)', 'for(size_t li_ = 0; li_ < nlev; ++li_)', 1, why='R-rangefor'),
                             Rule(r'level\.rebuild\(A, (\w+), prm, bprm\)', r'LEVEL_REBUILD(levels[li_], A, \1)', 1, why='member call -> C call')],
                      loops=[Loop('for(auto &level : levels)', AMG_REBUILD_LOOP)])},
    template=AMG_REBUILD_T, enforce='f_amg_rebuild', replace=['bk_level_rebuild'],
    mode='inductive', obj_bits=12, timeout=200, assumptions=A_SETUP, replay='orchestration',
)


# ------------------------------------------------------------------ amg::do_init
DO_INIT_T = HDR + r"""
typedef struct hmat { int id; _Bool null; } hmat;           /* shared_ptr<build_matrix> handle viewed as a value (null = empty pointer) */
typedef struct init_prm { size_t coarse_enough; _Bool direct_coarse; size_t max_levels; _Bool allow_rebuild; int coarsening; } init_prm;
typedef struct coarsening_type { int built_from; } coarsening_type;   /* remembers the parameters it was constructed with (-1: default) */
#define COARSENING_FROM(p) ((coarsening_type){p})
#define COARSENING_DEFAULT ((coarsening_type){-1})
/* ghost: the hierarchy under construction */
size_t g_nlev; int g_last_kind; int g_last_mat; _Bool g_chain_ok; unsigned long g_steps;
enum { K_SMOOTHER = 1, K_DIRECT = 2 };
#undef rows
#undef cols
#define rows(a) ROWS((a).id)
#define cols(a) COLS((a).id)
/* levels.push_back(level(A, prm, bprm)): a level with a smoother built from A */
void bk_push_level(hmat A)
__CPROVER_requires(!A.null)
__CPROVER_assigns(g_nlev, g_last_kind, g_last_mat)
__CPROVER_ensures(g_nlev == __CPROVER_old(g_nlev) + 1 && g_last_kind == K_SMOOTHER && g_last_mat == A.id);
/* level l; l.create_coarse(A, bprm, single); levels.push_back(l): a level with the direct solver built from A */
void bk_push_coarse(hmat A, _Bool single_level)
__CPROVER_requires(!A.null)
__CPROVER_assigns(g_nlev, g_last_kind, g_last_mat, g_chain_ok)
__CPROVER_ensures(g_nlev == __CPROVER_old(g_nlev) + 1 && g_last_kind == K_DIRECT && g_last_mat == A.id)
__CPROVER_ensures(g_chain_ok == (__CPROVER_old(g_chain_ok) && single_level == (__CPROVER_old(g_nlev) == 0)));
/* levels.back().step_down(A, C, bprm, allow_rebuild): must be applied to the level just pushed, with the matrix that level was built from */
hmat bk_step_down(hmat A, coarsening_type C, int coarsening_prm, _Bool allow_rebuild, _Bool allow_rebuild_prm)
__CPROVER_requires(!A.null)
__CPROVER_assigns(g_chain_ok, g_steps)
__CPROVER_ensures(g_steps == __CPROVER_old(g_steps) + 1)
__CPROVER_ensures(g_chain_ok == (__CPROVER_old(g_chain_ok) && g_last_kind == K_SMOOTHER && g_last_mat == A.id && allow_rebuild == allow_rebuild_prm
                                 && C.built_from == coarsening_prm));   /* the coarsening object was constructed from prm.coarsening */
#define PUSH_LEVEL(A) bk_push_level(A)
#define PRECONDITION2(c) do { if (!(c)) { g_thrown = 1; return; } } while (0)

void f_do_init(const init_prm *self, hmat A)
__CPROVER_requires(__CPROVER_is_fresh(self, sizeof(*self)) && !A.null)
__CPROVER_requires(g_nlev == 0 && g_chain_ok && g_steps == 0 && g_last_kind == 0 && !g_thrown && self->max_levels <= (1UL << 40) && self->coarsening >= 0)
__CPROVER_assigns(g_thrown, g_nlev, g_last_kind, g_last_mat, g_chain_ok, g_steps)
/* non-square input is refused */
__CPROVER_ensures(ROWS(A.id) != COLS(A.id) ==> (g_thrown && g_nlev == 0))
/* every step_down is applied to the level just built, with that level's matrix and the configured allow_rebuild */
__CPROVER_ensures(!g_thrown ==> g_chain_ok)
/* C03: a direct-solver level only for a matrix with at most coarse_enough rows and only when direct_coarse is set */
__CPROVER_ensures((!g_thrown && g_last_kind == K_DIRECT) ==> (ROWS(g_last_mat) <= self->coarse_enough && self->direct_coarse))
/* a problem that is already small enough gets exactly one level: the direct solver if direct_coarse, else a smoother */
__CPROVER_ensures((!g_thrown && ROWS(A.id) <= self->coarse_enough) ==> (g_nlev == 1 && g_steps == 0 && g_last_mat == A.id
                   && g_last_kind == (self->direct_coarse ? K_DIRECT : K_SMOOTHER)))
/* the level budget is respected */
__CPROVER_ensures((!g_thrown && self->max_levels >= 1 && ROWS(A.id) > self->coarse_enough) ==> g_nlev <= self->max_levels)
__CPROVER_ensures(!g_thrown ==> g_nlev >= 1)
{
  const init_prm prm = *self;
/*@CUT:body@*/
}
void h_f_do_init(void) { const init_prm *s; hmat A; f_do_init(s, A); }
"""
DO_INIT_LOOP = r"""
__CPROVER_assigns(A, direct_coarse_solve, g_nlev, g_last_kind, g_last_mat, g_chain_ok, g_steps)
__CPROVER_loop_invariant(!A.null && g_chain_ok && direct_coarse_solve && g_steps == g_nlev && g_nlev <= (1UL << 41))
__CPROVER_loop_invariant((prm.max_levels >= 1) ==> (g_nlev < prm.max_levels || g_nlev == 0))
__CPROVER_loop_invariant(g_nlev == 0 ==> (A.id == __CPROVER_loop_entry(A.id) && g_last_kind == 0))
__CPROVER_loop_invariant(g_nlev > 0 ==> (g_last_kind == K_SMOOTHER && ROWS_LE_FALSE))
"""
do_init = Unit(
    name='amg_do_init', props=['C03', 'C10'],
    functions=['amg::do_init(A, bprm)'],
    desc='hierarchy construction loop: non-square refused; step_down chained on the level just built; direct-solver level only for <= coarse_enough rows with direct_coarse; small problems get exactly one level; level budget',
    cuts={'body': Cut('amgcl/amg.hpp', r'void do_init\(\s*std::shared_ptr<build_matrix> A,\s*const backend_params &bprm = backend_params\(\)\s*\)\s*(?=\{)',
                      rules=[Rule(r'PRECONDITION\(', 'PRECONDITION2((', 1, why='R-pre (void function)'),
                             Rule(r',\s*\n?\s*"[^"]*"\s*\n?\s*\);', '));', 1, why='R-pre message dropped'),
                             Rule(r'coarsening_type C\(([^;()]*)\);', r'coarsening_type C = COARSENING_FROM(\1);', None, why='constructor call -> provenance record'),
                             Rule(r'coarsening_type C;', 'coarsening_type C = COARSENING_DEFAULT;', None, why='default construction -> provenance record'),
                             Rule(r'levels\.push_back\( level\(A, prm, bprm\) \);', 'PUSH_LEVEL(A);', None, why='container call -> C call'),
                             Rule(r'levels\.size\(\)', 'g_nlev', None, why='container call'),
                             Rule(r'levels\.back\(\)\.step_down\(A, (\w+), bprm, ([\w.]+)\)', r'bk_step_down(A, \1, self->coarsening, \2, self->allow_rebuild)', None, why='member call -> C call'),
                             Rule(r'level l;\s*l\.create_coarse\(A, bprm, levels\.empty\(\)\);\s*levels\.push_back\(l\);', 'bk_push_coarse(A, g_nlev == 0);', None, why='three statements building the coarse level -> one C call'),
                             Rule(r'!A\b', 'A.null', None, why='R-smartptr null test'),
                             Rule(r'\*A\b', 'A', None, why='R-smartptr: handle viewed as value')],
                      loops=[Loop(r'while\(', DO_INIT_LOOP.replace('&& ROWS_LE_FALSE', ''), prefix=True)])},
    template=DO_INIT_T, enforce='f_do_init', replace=['bk_push_level', 'bk_push_coarse', 'bk_step_down'],
    mode='inductive', obj_bits=12, timeout=200, replay='orchestration',
    assumptions=A_SETUP + ['A-term: termination of the coarsening loop is not proved (level sizes are data dependent; no decreases clause)'],
    not_decided=['level sizes strictly decrease', 'termination of the coarsening loop'],
)

UNITS = [galerkin, scaled_galerkin, aggr_coarse, sa_coarse, step_down, rebuild_level, amg_rebuild, do_init]
