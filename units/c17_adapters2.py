"""Matrix adapters, second family (C17 / C13 / C10):

1. amgcl/adapter/block_matrix.hpp  block_matrix_adapter<Matrix, BlockType>::row_iterator (bounded, block size 2):
   the (block column, block value) pairs emitted for block row ip reassemble exactly the scalar rows 2ip, 2ip+1.
2. amgcl/adapter/reorder.hpp  the permutation views (matrix row iterator, vector views; loop free) and the
   forward / inverse vector permutations (inductive, ghost index).
3. amgcl/amg.hpp  amg(const Matrix&) and rebuild(const Matrix&): private copy, sort_rows BEFORE do_init / rebuild.
4. amgcl/adapter/crs_builder.hpp (row-builder callback adapter), amgcl/relaxation/as_preconditioner.hpp constructor.
5. amgcl/adapter/block_matrix.hpp  unblock_matrix (bounded).

inductive / loopfree units carry dfcc contracts or full-domain harness contracts (counted as proved); unwound units
enforce the contract in the harness for ALL inputs up to the stated bound (labelled bounded)."""
import re
from cxc import extract as X
from cxc.extract import Cut, Rule, UF, Loop, IdxRule
from cxc.unit import Unit
from _common import BUILTIN, BOUNDED_PRELUDE, CRS_MEMBERS_C, CALL_RULES, crs_member_cuts, member_rules
from c17_adapters import IDX_CUT, ROW_IT, ITER_CUTS

UNITS = []

BM = 'amgcl/adapter/block_matrix.hpp'

# ==========================================================================================
# 1. block_matrix_adapter::row_iterator
# ==========================================================================================
A_BM = [
    'A-bound: nothing is claimed beyond the stated size bound',
    'A-sorted: the scalar rows are strictly sorted by column (no duplicates): the adapter merges the BlockSize base iterators by their '
    'current column and neither checks nor establishes that order (no precondition() in the code, nothing in the docs)',
    'A-inst: Matrix = backend::crs<V, ptrdiff_t, ptrdiff_t> (its row_begin / row_iterator members are cut from builtin.hpp and run '
    'unmodified), BlockType = static_matrix<V, 2, 2> seen as V a[2][2] with operator()(i, j) = a[i][j] (subscripts carry bounds '
    'obligations), math::zero<BlockType>() = the all-zero block; values int32 (only copied, never combined)',
    'A-storage: the raw byte buffer std::array<char, sizeof(Base) * BlockSize> + placement new is seen as Base buf[BlockSize] + '
    'assignment; ~row_iterator (trivial destructor calls on the base iterators) is not modelled',
    'A-fresh: the iterator object enters its constructor with arbitrary content (any prior stack / heap content)',
    'A-cut: a path ends at a VIOLATED safety.idx obligation (assert first, then assume the same condition)',
    'A-helpers: member functions of row_iterator other than the protocol members (ctor, operator bool, operator++, col, value) are '
    'discovered syntactically in the class body, cut and brought to C with the same rules (a refactoring into helper members keeps '
    'the unit alive)',
]

BM_RULES = [
    Rule(r'\+\+base\[(\w+)\]', r'rit_inc(&base[\1])', None, why='R-iter: Base::operator++'),
    Rule(r'\bbase\[(\w+)\]\.col\(\)', r'rit_col(&base[\1])', None, why='R-iter: Base::col()'),
    Rule(r'\bbase\[(\w+)\]\.value\(\)', r'rit_value(&base[\1])', None, why='R-iter: Base::value()'),
    Rule(r'(?<!&)\bbase\[(\w+)\](?!\s*[.=\[])', r'rit_ok(&base[\1])', None, why='R-iter: Base::operator bool'),
    Rule(r'new \(base \+ (\w+)\) Base\(row_begin\(A, ([^;]+)\)\);', r'base[\1] = crs_row_begin(&A, \2);', None,
         why='placement new of a copy of the base iterator -> assignment (A-storage); backend::row_begin(A, i) = A.row_begin(i)'),
    Rule(r'base = \(\(Base\*\)\(buf\.data\(\)\)\);', 'base = buf;', None, why='A-storage: typed view of the raw buffer'),
    Rule(r'std_(min|max)<col_type>\(', r'std_\1(', None, why='R-tmpl: explicit template argument'),
    Rule(r'\bcur_val\((\w+),\s*(.+?)\)\s*=(?!=)', r'BLK(cur_val, \1, \2) =', None, why='static_matrix::operator()(i, j) -> a[i][j] with bounds obligations'),
    Rule(r'return \*this;', 'return;', None, why='reference to self not needed in the C view'),
]

_RET_C = {'void': 'void', 'bool': '_Bool', 'val_type': 'blk', 'col_type': 'col_type', 'int': 'int', 'size_t': 'size_t', 'ptrdiff_t': 'ptrdiff_t'}


def discover_members(src, class_anchor, protocol):
    """member functions defined in the class body that are not protocol members: [(name, ret, [(type, name)], header_regex)]"""
    try:
        text = X.read_repo(src)
        b, e, _ = Cut(src, class_anchor).locate(text)
    except Exception:
        return []
    body = text[b:e]
    out = []
    i = 0
    start = 0
    while i < len(body):
        k = X._skip_trivia(body, i)
        if k != i:
            i = k
            continue
        c = body[i]
        if c == ';':
            start = i + 1
        elif c == '{':
            j = X.match_close(body, i)
            hdr = re.sub(r'//[^\n]*|/\*.*?\*/', ' ', body[start:i], flags=re.S)
            hdr = re.sub(r'\b(?:private|public|protected)\s*:', ' ', hdr).strip()
            m = re.match(r'^(?P<ret>[\w:<>\s\*&]+?)\s+(?P<name>\w+)\s*\((?P<params>[^()]*)\)\s*(?:const)?\s*$', hdr)
            if m and m.group('ret').strip() != 'operator' and m.group('name') not in protocol and not re.match(r'(struct|class|union|enum)\b', hdr):
                params = []
                for p in [q for q in m.group('params').split(',') if q.strip()]:
                    pm = re.match(r'^\s*(?:const\s+)?([\w:]+)\s*&?\s*(\w+)\s*$', p)
                    params.append((pm.group(1), pm.group(2)) if pm else ('?', p.strip()))
                out.append((m.group('name'), re.sub(r'\bconst\b|\bstatic\b|\binline\b', '', m.group('ret')).strip(), params,
                            X._ws_regex(hdr) + r'\s*(?=\{)'))
            start = j + 1
            i = j
        i += 1
    return out


BM_HELPERS = discover_members(BM, r'struct row_iterator\s*(?=\{)', ('col', 'value', 'bool', 'row_iterator'))
BM_HELPER_RULES = []
for _n, _r, _p, _h in BM_HELPERS:
    BM_HELPER_RULES += [Rule(r'(?<![\w.>])%s\(\s*\)' % _n, 'bmit_%s(self)' % _n, None, why='R-member-call (discovered helper member)'),
                        Rule(r'(?<![\w.>])%s\((?=\s*[^)\s])' % _n, 'bmit_%s(self, ' % _n, None, why='R-member-call (discovered helper member)')]
BM_ALL_RULES = BM_RULES + BM_HELPER_RULES


def _helper_sig(n, r, p):
    return 'static %s bmit_%s(bm_row_iterator *self%s)' % (_RET_C.get(r, r), n, ''.join(', %s %s' % (_RET_C.get(t, t), a) for t, a in p))


BM_HELPER_PROTOS = ''.join(_helper_sig(n, r, p) + ';\n' for n, r, p, h in BM_HELPERS)
BM_HELPER_DEFS = ''.join(_helper_sig(n, r, p) + '\n{\n/*@CUT:bmh_%s@*/\n}\n' % n for n, r, p, h in BM_HELPERS)
BM_HELPER_CUTS = {'bmh_' + n: Cut(BM, h, rules=BM_ALL_RULES) for n, r, p, h in BM_HELPERS}

BM_TEMPLATE = r'''
#define MODEL_INT32 1
''' + BOUNDED_PRELUDE + IDX_CUT + ROW_IT + r'''
/* ---- BlockType = static_matrix<V, 2, 2> */
#define BlockSize 2
typedef struct { V a[BlockSize][BlockSize]; } blk;
#define BLK(b, i, j) ((b).a[IDX(i, BlockSize, "block row")][IDX(j, BlockSize, "block column")])
static blk blk_zero(void) { blk z; for (int r = 0; r < BlockSize; ++r) for (int c = 0; c < BlockSize; ++c) z.a[r][c] = 0; return z; }
#undef MATH_zero
#define MATH_zero(T) blk_zero()
/* ---- block_matrix_adapter<Matrix, BlockType>::row_iterator: members in declaration order (A-storage for buf) */
typedef row_iterator Base;
typedef struct { Base buf[BlockSize]; Base *base; _Bool done; col_type cur_col; blk cur_val; } bm_row_iterator;
#define buf (self->buf)
#define base (self->base)
#define done (self->done)
#define cur_col (self->cur_col)
#define cur_val (self->cur_val)
''' + BM_HELPER_PROTOS + r'''
static void bmit_ctor(bm_row_iterator *self, const crs *A_p, col_type row)
{
#define A (*A_p)
/*@CUT:bm_init@*/
/*@CUT:bm_ctor@*/
#undef A
}
static _Bool bmit_ok(bm_row_iterator *self)
{
/*@CUT:bm_bool@*/
}
static void bmit_inc(bm_row_iterator *self)
{
/*@CUT:bm_inc@*/
}
static col_type bmit_col(bm_row_iterator *self)
{
/*@CUT:bm_col@*/
}
static blk bmit_value(bm_row_iterator *self)
{
/*@CUT:bm_value@*/
}
''' + BM_HELPER_DEFS + r'''
#undef buf
#undef base
#undef done
#undef cur_col
#undef cur_val
#ifndef MMAX
#define MMAX 6
#endif
#define MB (MMAX / BlockSize)
WITNESS_CRS(A)
size_t w_ip;
#ifdef UNSORTED
#define ROWS_TXT " [unsorted scalar rows: any within-row order, each (row, column) stored once]"
#else
#define ROWS_TXT ""
#endif
/* oracle: the scalar entry (i, j) of A: its value if stored, zero otherwise (rows strictly sorted: stored at most once) */
static V scalar_at(const crs *A, size_t i, size_t j) { return (V)dense_get(A, i, j); }
void h_block_it(void)
{
  crs *A = crs_input();
  REQUIRES(crs_wf(A, NMAX, MMAX, ZMAX) && crs_vals_small(A, 7));
#ifndef UNSORTED
  REQUIRES(crs_rows_sorted(A, 1));                                  /* A-sorted */
#else
  /* candidate variant: any within-row order, but every (row, column) stored at most once */
  for (size_t i = 0; i < NMAX; ++i) for (size_t j = 0; j < MMAX; ++j) if (i < A->nrows && j < A->ncols) REQUIRES(count_in_row(A, i, j) <= 1);
#endif
  REQUIRES(A->nrows % BlockSize == 0 && A->ncols % BlockSize == 0); /* the adapter's constructor throws otherwise */
  size_t ip;
  REQUIRES(ip < A->nrows / BlockSize);
  MIRROR_CRS(A, A); w_ip = ip;
  crs_snap s; crs_snapshot(A, &s);
  bm_row_iterator it;                        /* raw storage, arbitrary prior content (A-fresh) */
  bmit_ctor(&it, A, (col_type)ip);
  ptrdiff_t prev = -1;
  _Bool emitted[MB];
  for (size_t J = 0; J < MB; ++J) emitted[J] = 0;
  for (size_t k = 0; k < MB; ++k) {
    if (!bmit_ok(&it)) break;
    col_type J = bmit_col(&it);
    blk v = bmit_value(&it);
    ENSURES(J > prev, "block columns are emitted in ascending order, each once" ROWS_TXT);
    ENSURES(J >= 0 && (size_t)J < A->ncols / BlockSize, "emitted block column lies inside the block matrix" ROWS_TXT);
    if (J >= 0 && (size_t)J < MB) {
      emitted[J] = 1;
      for (size_t r = 0; r < BlockSize; ++r)
        for (size_t c = 0; c < BlockSize; ++c)
          ENSURES(v.a[r][c] == scalar_at(A, BlockSize * ip + r, BlockSize * (size_t)J + c),
                  "block entry (r,c) of block column J == scalar entry (b*ip+r, b*J+c) if stored, ZERO otherwise" ROWS_TXT);
    }
    prev = J;
    bmit_inc(&it);
  }
  ENSURES(!bmit_ok(&it), "the block row ends after at most cols/b block entries" ROWS_TXT);
  for (size_t J = 0; J < MB; ++J) {
    int stored = 0;
    for (size_t r = 0; r < BlockSize; ++r)
      for (size_t c = 0; c < BlockSize; ++c)
        if (BlockSize * J + c < A->ncols) stored += count_in_row(A, BlockSize * ip + r, BlockSize * J + c);
    ENSURES(emitted[J] == (stored > 0), "a block column is emitted exactly when one of its scalar entries is stored in rows b*ip .. b*ip+b-1" ROWS_TXT);
  }
  ENSURES(crs_unchanged(A, &s), "frame: the scalar matrix is not modified");
  CANARY("harness.end");
}
'''

block_it = Unit(
    name='adapt_block_row_iterator', props=['C13', 'C17', 'C10'],
    functions=['adapter::block_matrix_adapter<Matrix, BlockType>::row_iterator::{ctor, operator bool, operator++, col, value}',
               'backend::crs::row_begin', 'backend::crs::row_iterator::{operator bool, operator++, col, value}'],
    desc='block view of a scalar CRS matrix, block size 2: the (block column, block value) pairs the iterator emits for block row ip '
         'reassemble exactly the scalar rows 2ip, 2ip+1: block entry (r,c) of block column J == scalar entry (2ip+r, 2J+c) if stored, '
         'zero otherwise (structurally incomplete blocks included); block columns ascending, each once, exactly those with a stored '
         'entry; the iterator object enters with arbitrary content; the scalar matrix is not modified',
    cuts=dict(ITER_CUTS, **dict(BM_HELPER_CUTS,
        bm_init=Cut(BM, r'row_iterator\(const Matrix &A, col_type row\)\s*:', kind='region', begin_exclusive=True, end=r'\{',
                    rules=[Rule(r'(\w+)\(((?:[^()]|\([^()]*\))*)\)\s*,?', r'\1 = \2;', '+', why='member initialiser list -> assignments')]),
        bm_ctor=Cut(BM, r'row_iterator\(const Matrix &A, col_type row\)\s*:[^{]*(?=\{)', rules=BM_ALL_RULES),
        bm_bool=Cut(BM, r'operator bool\(\) const\s*(?=\{)', rules=BM_ALL_RULES),
        bm_inc=Cut(BM, r'row_iterator& operator\+\+\(\)\s*(?=\{)', rules=BM_ALL_RULES),
        bm_col=Cut(BM, r'col_type col\(\) const\s*(?=\{)', rules=BM_ALL_RULES),
        bm_value=Cut(BM, r'val_type value\(\) const\s*(?=\{)', rules=BM_ALL_RULES))),
    template=BM_TEMPLATE,
    entry='h_block_it', mode='unwound', unwind='max(ZMAX,NMAX)+3', model='int32',
    variants=[{'NMAX': 2, 'MMAX': 6, 'ZMAX': 12}, {'NMAX': 4, 'MMAX': 6, 'ZMAX': 6}],
    thorough_variants=[{'NMAX': 2, 'MMAX': 8, 'ZMAX': 16}, {'NMAX': 4, 'MMAX': 6, 'ZMAX': 10}],
    bound_text='block size 2; (a) one block row (2 scalar rows), <= 3 block columns, every sparsity pattern (nnz <= 12); '
               '(b) <= 2 block rows (block row index symbolic), <= 3 block columns, nnz <= 6; values symbolic int32 (thorough: 4 block columns / nnz <= 16; nnz <= 10)',
    assumptions=A_BM, replay='adapters2', timeout=600,
    witness=['w_A_nrows', 'w_A_ncols', 'w_A_ptr', 'w_A_col', 'w_A_val', 'w_ip'],
    not_decided=['block sizes 3, 4 and Eigen blocks', 'rows(), cols(), nonzeros() of the adapter (nonzeros is documented as an estimate)',
                 'unsorted scalar rows (the adapter silently needs sorted rows)', 'solutions through make_block_solver / as_block / as_scalar'],
)
block_it.unwindset = [(r'for\(; rit_ok', '4')]
block_it.replay_asan = True
UNITS += [block_it]

# The same contract WITHOUT the sortedness precondition: C17 quantifies over every within-row order and names the block adapter.
# Fails on the unchanged tree: block_matrix_adapter::row_iterator merges the b base iterators by their current column, which
# is only correct for sorted rows; nothing checks, establishes or documents that order.  Recorded as a KNOWN FINDING
# (known_findings.json, matched by unit name + the phrase "unsorted scalar rows" + the replay signature).
import copy
block_it_unsorted = copy.copy(block_it)
block_it_unsorted.name = 'adapt_block_row_iterator_unsorted'
block_it_unsorted.props = ['C17', 'C13']
block_it_unsorted.variants = [{'NMAX': 2, 'MMAX': 4, 'ZMAX': 4, 'UNSORTED': 1}]
block_it_unsorted.thorough_variants = None
block_it_unsorted.unwindset = []      # a gather may walk a whole unsorted row: the global bound max(ZMAX,NMAX)+3 applies
block_it_unsorted.bound_text = 'block size 2; one block row (2 scalar rows), <= 2 block columns, nnz <= 4, any within-row order, no duplicates'
block_it_unsorted.desc = ('as adapt_block_row_iterator, but for scalar rows listed in ARBITRARY order (C17: every way of handing a matrix '
                          'describes the same operator, input row order does not matter): same block entries, same block columns')
block_it_unsorted.assumptions = [a for a in A_BM if not a.startswith('A-sorted')] + ['A-nodup: every (row, column) is stored at most once']
block_it_unsorted.not_decided = ['block sizes 3, 4']
UNITS += [block_it_unsorted]

# ==========================================================================================
# 2. adapter/reorder.hpp: permutation views and vector permutations
# ==========================================================================================
RO = 'amgcl/adapter/reorder.hpp'
A_RO = [
    'A-uf: values are opaque tokens (only copied): the proof holds for every value type',
    'A-omp: "#pragma omp parallel for" dropped: iterations are verified sequentially; each iteration writes one cell of the output',
    'A-perm: perm is a permutation of 0..n-1 (established by ordering::get: units cuthill_mckee_*, C16, bounded); the universally '
    'quantified facts "0 <= perm[i] < n" and "perm[i] != perm[k] for i != k" are preconditions over a read-only array, instantiated '
    'pointwise where perm is read (PERM_AT)',
    'A-inst: vectors are contiguous arrays with operator[] (std::vector, numa_vector, iterator_range)',
    'A-alias: input and output vectors do not overlap (is_fresh)',
]
RO_HDR = r'''
#define MODEL_UF 1
#include "amgcl_c.h"
int g_thrown;
#define NMAX 0x000fffffffffffffL
size_t g_k;                      /* ghost index (universal generalisation) */
/* pointwise instantiation of A-perm at a read of perm[i] */
#define PERM_AT(i) (__CPROVER_assume(0 <= perm[i] && perm[i] < n && ((size_t)(i) == g_k || perm[i] != perm[g_k])), (i))
'''
PERM_RULE = Rule(r'\bperm\[(\w+)\]', r'perm[PERM_AT(\1)]', None, why='pointwise instantiation of A-perm at the read site')
FWD_INV = '''
__CPROVER_assigns(i, __CPROVER_object_whole(y))
__CPROVER_loop_invariant(0 <= i && i <= n)
__CPROVER_loop_invariant(g_k < (size_t)i ==> y[g_k] == x[perm[g_k]])
__CPROVER_decreases(n - i)
'''
INV_INV = '''
__CPROVER_assigns(i, __CPROVER_object_whole(y))
__CPROVER_loop_invariant(0 <= i && i <= n)
__CPROVER_loop_invariant(g_k < (size_t)i ==> y[perm[g_k]] == x[g_k])
__CPROVER_decreases(n - i)
'''
FWD_CUT = lambda: Cut(RO, r'void forward\(const Vector1 &x, Vector2 &y\) const\s*(?=\{)', rules=[PERM_RULE],
                      loops=[Loop(r'for\(ptrdiff_t i\b', FWD_INV, prefix=True)])
INV_CUT = lambda: Cut(RO, r'void inverse\(const Vector1 &x, Vector2 &y\) const\s*(?=\{)', rules=[PERM_RULE],
                      loops=[Loop(r'for\(ptrdiff_t i\b', INV_INV, prefix=True)])
RO_VEC_PRE = r'''
__CPROVER_requires(0 < n && n <= NMAX)
__CPROVER_requires(__CPROVER_is_fresh(perm, n * sizeof(ptrdiff_t)) && __CPROVER_is_fresh(x, n * sizeof(V)) && __CPROVER_is_fresh(y, n * sizeof(V)))
__CPROVER_requires(g_k < (size_t)n && 0 <= perm[g_k] && perm[g_k] < n)
__CPROVER_assigns(__CPROVER_object_whole(y))
'''

reorder_forward = Unit(
    name='adapt_reorder_forward', props=['C17', 'C10'],
    functions=['adapter::reorder<ordering>::forward(x, y)'],
    desc='forward permutation: y[k] == x[perm[k]] for every k (vector of the permuted system); x and perm are not written',
    cuts={'body': FWD_CUT()},
    template=RO_HDR + r'''
void f_reorder_forward(ptrdiff_t n, const ptrdiff_t *perm, const V *x, V *y)
''' + RO_VEC_PRE + r'''
__CPROVER_ensures(y[g_k] == x[perm[g_k]])
{
/*@CUT:body@*/
}
void h_f_reorder_forward(void) { ptrdiff_t n; const ptrdiff_t *p; const V *x; V *y; f_reorder_forward(n, p, x, y); }
''',
    enforce='f_reorder_forward', mode='inductive', timeout=300, assumptions=A_RO, replay='adapters2',
)

reorder_inverse = Unit(
    name='adapt_reorder_inverse', props=['C17', 'C10'],
    functions=['adapter::reorder<ordering>::inverse(x, y)'],
    desc='back permutation: y[perm[k]] == x[k] for every k (solution of the permuted system carried back to the original numbering); '
         'x and perm are not written',
    cuts={'body': INV_CUT()},
    template=RO_HDR + r'''
void f_reorder_inverse(ptrdiff_t n, const ptrdiff_t *perm, const V *x, V *y)
''' + RO_VEC_PRE + r'''
__CPROVER_ensures(y[perm[g_k]] == x[g_k])
{
/*@CUT:body@*/
}
void h_f_reorder_inverse(void) { ptrdiff_t n; const ptrdiff_t *p; const V *x; V *y; f_reorder_inverse(n, p, x, y); }
''',
    enforce='f_reorder_inverse', mode='inductive', timeout=300, assumptions=A_RO, replay='adapters2',
)

reorder_roundtrip = Unit(
    name='adapt_reorder_roundtrip', props=['C17', 'C10'],
    functions=['adapter::reorder<ordering>::forward(x, y)', 'adapter::reorder<ordering>::inverse(x, y)'],
    desc='forward and inverse are inverse to each other: inverse(forward(x)) == x at every index perm[k] (= every index, perm being '
         'onto) and forward(inverse(x)) == x at every index k',
    cuts={'fwd': FWD_CUT(), 'inv': INV_CUT()},
    template=RO_HDR + r'''
static void ro_forward(ptrdiff_t n, const ptrdiff_t *perm, const V *x, V *y)
{
/*@CUT:fwd@*/
}
static void ro_inverse(ptrdiff_t n, const ptrdiff_t *perm, const V *x, V *y)
{
/*@CUT:inv@*/
}
void f_reorder_roundtrip(ptrdiff_t n, const ptrdiff_t *perm, const V *x, V *y, V *z)
''' + RO_VEC_PRE.replace('__CPROVER_assigns(__CPROVER_object_whole(y))', '__CPROVER_requires(__CPROVER_is_fresh(z, n * sizeof(V)))\n__CPROVER_assigns(__CPROVER_object_whole(y), __CPROVER_object_whole(z))') + r'''
#if DIR == 0
__CPROVER_ensures(z[perm[g_k]] == x[perm[g_k]])
#else
__CPROVER_ensures(z[g_k] == x[g_k])
#endif
{
#if DIR == 0
  ro_forward(n, perm, x, y);
  ro_inverse(n, perm, y, z);
#else
  ro_inverse(n, perm, x, y);
  ro_forward(n, perm, y, z);
#endif
}
void h_f_reorder_roundtrip(void) { ptrdiff_t n; const ptrdiff_t *p; const V *x; V *y, *z; f_reorder_roundtrip(n, p, x, y, z); }
''',
    enforce='f_reorder_roundtrip', mode='inductive', timeout=300, assumptions=A_RO, replay='adapters2',
    variants=[{'DIR': 0}, {'DIR': 1}],
)

IPERM_INV = '''
__CPROVER_assigns(i, __CPROVER_object_whole(iperm))
__CPROVER_loop_invariant(0 <= i && i <= n)
__CPROVER_loop_invariant(g_k < (size_t)i ==> iperm[perm[g_k]] == (ptrdiff_t)g_k)
__CPROVER_decreases(n - i)
'''
reorder_ctor = Unit(
    name='adapt_reorder_ctor_iperm', props=['C17', 'C10'],
    functions=['adapter::reorder<ordering>::reorder(const Matrix &A)'],
    desc='the reorder constructor derives iperm from the ordering: iperm[perm[k]] == k for every k (iperm is the inverse permutation), '
         'computed after ordering::get filled perm; perm is not written afterwards',
    cuts={'body': Cut(RO, r'reorder\(const Matrix &A\) : n\(backend::rows\(A\)\), perm\(n\), iperm\(n\)\s*(?=\{)',
                      rules=[PERM_RULE, Rule(r'\bordering::get\(A, perm\);', 'ordering_get();', None, why='the ordering (cuthill_mckee::get: own units) -> ghost event')],
                      loops=[Loop(r'for\(ptrdiff_t i\b', IPERM_INV, prefix=True)])},
    template=RO_HDR + r'''
int g_ordered;                   /* ghost: ordering::get(A, perm) was called (A-perm holds from then on) */
static void ordering_get(void) { g_ordered++; }
void f_reorder_ctor(ptrdiff_t n, const ptrdiff_t *perm, ptrdiff_t *iperm)
__CPROVER_requires(0 < n && n <= NMAX && g_ordered == 0)
__CPROVER_requires(__CPROVER_is_fresh(perm, n * sizeof(ptrdiff_t)) && __CPROVER_is_fresh(iperm, n * sizeof(ptrdiff_t)))
__CPROVER_requires(g_k < (size_t)n && 0 <= perm[g_k] && perm[g_k] < n)
__CPROVER_assigns(g_ordered, __CPROVER_object_whole(iperm))
__CPROVER_ensures(iperm[perm[g_k]] == (ptrdiff_t)g_k)
__CPROVER_ensures(g_ordered == 1)
{
/*@CUT:body@*/
}
void h_f_reorder_ctor(void) { ptrdiff_t n; const ptrdiff_t *p; ptrdiff_t *ip; f_reorder_ctor(n, p, ip); }
''',
    enforce='f_reorder_ctor', mode='inductive', timeout=300, assumptions=A_RO + ['A-new: n(rows(A)), perm(n), iperm(n): the member vectors are allocated by the caller of the C view'], replay='adapters2',
)
UNITS += [reorder_forward, reorder_inverse, reorder_roundtrip, reorder_ctor]

# ------------------------------------------------------------------------------------------
# reordered_matrix / reordered_vector views (loop free, dfcc): the consumer protocol of one row under contract
# ------------------------------------------------------------------------------------------
A_ROV = [
    'A-uf: values are opaque tokens (only copied)',
    'A-base: the wrapped matrix is abstract (dimensions + row_begin); its row iterator delivers an arbitrary sequence of (valid, column, value) '
    'entries whose columns lie in [0, n), n the length of perm / iperm (well-formedness of the wrapped square matrix); the first two entries are ghost inputs of the contract',
    'A-perm-range: 0 <= perm[i] < n for the row / index asked for (perm is a permutation: units adapt_reorder_ctor_iperm, cuthill_mckee_*)',
    'A-inst: reordered_matrix<Matrix> for any Matrix with backend::rows/cols/nonzeros/row_begin; reordered_vector<Vector> for contiguous vectors',
]
ROV_BASE_RULES = [
    Rule(r'\bbase\.col\(\)', 'base.col', None, why='Base::col() of the abstract base iterator'),
    Rule(r'\bbase\.value\(\)', 'base.val', None, why='Base::value() of the abstract base iterator'),
    Rule(r'\+\+base;', 'base_inc(&base);', None, why='Base::operator++'),
    Rule(r'return base;', 'return base.valid;', None, why='Base::operator bool'),
    Rule(r'return \*this;', 'return;', None, why='reference to self not needed in the C view'),
]
INIT_LIST = Rule(r'(\w+)\((\w+)\)\s*,?', r'self->\1 = \2;', '+', why='member initialiser list -> assignments')

reorder_view = Unit(
    name='adapt_reorder_matrix_view', props=['C17', 'C10'],
    functions=['adapter::reorder<ordering>::operator()(const Matrix &A)',
               'adapter::reordered_matrix<Matrix>::{ctor, rows, cols, nonzeros, row_begin}',
               'adapter::reordered_matrix<Matrix>::row_iterator::{ctor, operator bool, operator++, col, value}'],
    desc='the reordered view of a matrix: same dimensions and non-zero count; row i of the view iterates row perm[i] of the wrapped matrix, '
         'entry for entry (exhausted exactly when the base row is, ++ advances the base once); col() == iperm[base column], value() '
         'unchanged: reordered(i, iperm[c]) == A(perm[i], c), i.e. with iperm the inverse of perm: reordered(i, j) == A(perm[i], perm[j]); '
         'the view reads perm for rows and iperm for columns (not swapped); nothing is written',
    cuts={
        'op_call': Cut(RO, r'operator\(\)\(const Matrix &A\) const\s*(?=\{)',
                       rules=[Rule(r'return reordered_matrix<Matrix>\(', 'return rm_ctor(', 1, why='constructor call -> C function'),
                              Rule(r'\b(i?perm)\.data\(\)', r'self->\1', None, why='numa_vector::data(): member arrays of class reorder')]),
        'rm_init': Cut(RO, r'reordered_matrix\(const Matrix &A, const ptrdiff_t \*perm, const ptrdiff_t \* iperm\)\s*:', kind='region',
                       begin_exclusive=True, end=r'\{\}', rules=[INIT_LIST]),
        'rows': Cut(RO, r'size_t rows\(\) const\s*(?=\{)'),
        'cols': Cut(RO, r'size_t cols\(\) const\s*(?=\{)'),
        'nonzeros': Cut(RO, r'size_t nonzeros\(\) const\s*(?=\{)'),
        'ri_init': Cut(RO, r'row_iterator\(const base_iterator &base, const ptrdiff_t \*iperm\)\s*:', kind='region',
                       begin_exclusive=True, end=r'\{\}', rules=[INIT_LIST]),
        'row_begin': Cut(RO, r'row_iterator row_begin\(size_t i\) const\s*(?=\{)',
                         rules=[Rule(r'return row_iterator\(row_begin\(A, ', 'return ri_ctor(am_row_begin(&A, ', 1,
                                     why='constructor call / backend::row_begin of the wrapped matrix')]),
        'it_bool': Cut(RO, r'operator bool\(\) const\s*(?=\{)', rules=ROV_BASE_RULES),
        'it_inc': Cut(RO, r'row_iterator& operator\+\+\(\)\s*(?=\{)', rules=ROV_BASE_RULES),
        'it_col': Cut(RO, r'ptrdiff_t col\(\) const\s*(?=\{)', rules=ROV_BASE_RULES),
        'it_value': Cut(RO, r'value_type value\(\) const\s*(?=\{)', rules=ROV_BASE_RULES),
    },
    template=r'''
#define MODEL_UF 1
#include "amgcl_c.h"
int g_thrown;
#define NMAX 0x000fffffffffffffUL
/* abstract wrapped matrix and its row iterator (A-base) */
typedef struct { size_t nrows, ncols, nnz; } amatrix;
#define rows(A) ((A).nrows)
#define cols(A) ((A).ncols)
#define nonzeros(A) ((A).nnz)
typedef struct { _Bool valid; ptrdiff_t col; V val; unsigned long pos; } base_it;
typedef struct { size_t row_asked; unsigned opened; base_it e0, e1; } ghost_base;
ghost_base g_b;       /* ghost: which row was opened, how often; the entries the base row delivers */
static base_it am_row_begin(const amatrix *A, size_t row) { base_it b = g_b.e0; g_b.row_asked = row; g_b.opened++; b.pos = 0; return b; }
static void base_inc(base_it *b) { unsigned long p = b->pos; *b = g_b.e1; b->pos = p + 1; }
/* reordered_matrix<Matrix> { const Matrix &A; const ptrdiff_t *perm; const ptrdiff_t *iperm; } */
typedef struct { const amatrix *A; const ptrdiff_t *perm; const ptrdiff_t *iperm; } reordered_matrix;
/* reordered_matrix::row_iterator { base_iterator base; const ptrdiff_t *iperm; } */
typedef struct { base_it base; const ptrdiff_t *iperm; } ro_row_iterator;
/* class reorder { ptrdiff_t n; numa_vector<ptrdiff_t> perm, iperm; } */
typedef struct { ptrdiff_t n; const ptrdiff_t *perm; const ptrdiff_t *iperm; } reorder_t;
static reordered_matrix rm_ctor(const amatrix *A, const ptrdiff_t *perm, const ptrdiff_t *iperm)
{
  reordered_matrix m_; reordered_matrix *self = &m_;
/*@CUT:rm_init@*/
  return m_;
}
static reordered_matrix reorder_call(const reorder_t *self, const amatrix *A)
{
/*@CUT:op_call@*/
}
static ro_row_iterator ri_ctor(base_it base, const ptrdiff_t *iperm)
{
  ro_row_iterator it_; ro_row_iterator *self = &it_;
/*@CUT:ri_init@*/
  return it_;
}
#define A (*self->A)
#define perm (self->perm)
#define iperm (self->iperm)
static size_t rm_rows(const reordered_matrix *self)
{
/*@CUT:rows@*/
}
static size_t rm_cols(const reordered_matrix *self)
{
/*@CUT:cols@*/
}
static size_t rm_nonzeros(const reordered_matrix *self)
{
/*@CUT:nonzeros@*/
}
static ro_row_iterator rm_row_begin(const reordered_matrix *self, size_t i)
{
/*@CUT:row_begin@*/
}
#undef A
#undef perm
#define base (self->base)
static _Bool ri_ok(const ro_row_iterator *self)
{
/*@CUT:it_bool@*/
}
static void ri_inc(ro_row_iterator *self)
{
/*@CUT:it_inc@*/
}
static ptrdiff_t ri_col(const ro_row_iterator *self)
{
/*@CUT:it_col@*/
}
static V ri_value(const ro_row_iterator *self)
{
/*@CUT:it_value@*/
}
#undef base
#undef iperm
/* what a consumer of the view (the crs copy constructor, spmv, ...) observes for row i */
typedef struct { size_t rows, cols, nnz; _Bool ok0; ptrdiff_t col0; V val0; unsigned long pos0; _Bool ok1; ptrdiff_t col1; V val1; unsigned long pos1; } ro_obs;
void f_reorder_view(const amatrix *M, ptrdiff_t n, const ptrdiff_t *perm, const ptrdiff_t *iperm, size_t i, base_it e0, base_it e1, ro_obs *o)
__CPROVER_requires(0 < n && (size_t)n <= NMAX && i < (size_t)n)
__CPROVER_requires(__CPROVER_is_fresh(M, sizeof(amatrix)))     /* dimensions arbitrary: the view forwards them unchanged */
__CPROVER_requires(__CPROVER_is_fresh(perm, n * sizeof(ptrdiff_t)) && __CPROVER_is_fresh(iperm, n * sizeof(ptrdiff_t)) && __CPROVER_is_fresh(o, sizeof(ro_obs)))
/* A-base: stored columns of the wrapped matrix are in range */
__CPROVER_requires(0 <= e0.col && e0.col < n && 0 <= e1.col && e1.col < n)
__CPROVER_requires(0 <= perm[i] && perm[i] < n)                 /* A-perm-range */
__CPROVER_requires(g_b.opened == 0)
__CPROVER_assigns(g_b, __CPROVER_object_whole(o))
__CPROVER_ensures(o->rows == M->nrows && o->cols == M->ncols && o->nnz == M->nnz)
/* row i of the view is row perm[i] of the wrapped matrix, opened once */
__CPROVER_ensures(g_b.row_asked == (size_t)perm[i] && g_b.opened == 1)
/* entry for entry: exhausted exactly when the base row is; column mapped through iperm, value unchanged */
__CPROVER_ensures(o->ok0 == e0.valid)
__CPROVER_ensures(!e0.valid || (o->col0 == iperm[e0.col] && o->val0 == e0.val && o->pos0 == 0))
__CPROVER_ensures(!e0.valid || (o->pos1 == 1 && o->ok1 == e1.valid))
__CPROVER_ensures(!(e0.valid && e1.valid) || (o->col1 == iperm[e1.col] && o->val1 == e1.val))
{
  reorder_t R; R.n = n; R.perm = perm; R.iperm = iperm;
  g_b.e0 = e0; g_b.e1 = e1;
  reordered_matrix m = reorder_call(&R, M);
  o->rows = rm_rows(&m); o->cols = rm_cols(&m); o->nnz = rm_nonzeros(&m);
  ro_row_iterator it = rm_row_begin(&m, i);
  o->ok0 = ri_ok(&it);
  if (o->ok0) {
    o->col0 = ri_col(&it); o->val0 = ri_value(&it); o->pos0 = it.base.pos;
    ri_inc(&it);
    o->pos1 = it.base.pos; o->ok1 = ri_ok(&it);
    if (o->ok1) { o->col1 = ri_col(&it); o->val1 = ri_value(&it); }
  }
}
void h_f_reorder_view(void) { const amatrix *M; ptrdiff_t n; const ptrdiff_t *p, *ip; size_t i; base_it e0, e1; ro_obs *o; f_reorder_view(M, n, p, ip, i, e0, e1, o); }
''',
    enforce='f_reorder_view', mode='loopfree', timeout=300, assumptions=A_ROV, replay='adapters2',
    not_decided=['that the permuted system solved through the view gives, after inverse(), a solution of the original system (real-number algebra on top of the entry formula)'],
)

reorder_vec_view = Unit(
    name='adapt_reorder_vector_view', props=['C17', 'C10'],
    functions=['adapter::reorder<ordering>::operator()(Vector &x)', 'adapter::reordered_vector<Vector>::{ctor, size, operator[]}'],
    desc='the reordered view of a vector: same size; element i of the view IS element perm[i] of the wrapped vector (a reference to it: reads '
         'and writes go to x[perm[i]]); nothing is copied or written by the view itself',
    cuts={
        'op_call': Cut(RO, r'operator\(\)\(Vector &x\) const\s*(?=\{)',
                       rules=[Rule(r'return reordered_vector<Vector>\(', 'return rv_ctor(', 1, why='constructor call -> C function'),
                              Rule(r'\b(i?perm)\.data\(\)', r'self->\1', None, why='numa_vector::data()')]),
        'rv_init': Cut(RO, r'reordered_vector\(Vector &x, const ptrdiff_t \*perm\)\s*:', kind='region', begin_exclusive=True, end=r'\{\}', rules=[INIT_LIST]),
        'size': Cut(RO, r'size_t size\(\) const\s*(?=\{)', rules=[Rule(r'boost::size\(x\)', '(x.n)', None, why='boost::size of a contiguous vector')]),
        'index': Cut(RO, r'value_type& operator\[\]\(size_t i\) const\s*(?=\{)',
                     rules=[Rule(r'return (?P<e>[^;]+);', r'return &(\g<e>);', 1, why='reference result -> address'),
                            Rule(r'\bx\[', 'x.p[', None, why='vector subscript')]),
    },
    template=r'''
#define MODEL_UF 1
#include "amgcl_c.h"
int g_thrown;
#define NMAX 0x000fffffffffffffUL
typedef struct { V *p; size_t n; } vec;
typedef struct { vec x; const ptrdiff_t *perm; } reordered_vector;      /* { Vector &x; const ptrdiff_t *perm; } */
typedef struct { ptrdiff_t n; const ptrdiff_t *perm; const ptrdiff_t *iperm; } reorder_t;
static reordered_vector rv_ctor(vec x, const ptrdiff_t *perm)
{
  reordered_vector v_; reordered_vector *self = &v_;
/*@CUT:rv_init@*/
  return v_;
}
static reordered_vector reorder_call_v(const reorder_t *self, vec x)
{
/*@CUT:op_call@*/
}
#define x (self->x)
#define perm (self->perm)
static size_t rv_size(const reordered_vector *self)
{
/*@CUT:size@*/
}
static V *rv_index(const reordered_vector *self, size_t i)
{
/*@CUT:index@*/
}
#undef x
#undef perm
typedef struct { size_t size; V *ref; } rv_obs;
void f_reorder_vec_view(ptrdiff_t n, const ptrdiff_t *perm, const ptrdiff_t *iperm, V *x, size_t i, rv_obs *o)
__CPROVER_requires(0 < n && (size_t)n <= NMAX && i < (size_t)n)
__CPROVER_requires(__CPROVER_is_fresh(perm, n * sizeof(ptrdiff_t)) && __CPROVER_is_fresh(iperm, n * sizeof(ptrdiff_t)))
__CPROVER_requires(__CPROVER_is_fresh(x, n * sizeof(V)) && __CPROVER_is_fresh(o, sizeof(rv_obs)))
__CPROVER_requires(0 <= perm[i] && perm[i] < n)                 /* A-perm-range */
__CPROVER_assigns(__CPROVER_object_whole(o))
__CPROVER_ensures(o->size == (size_t)n)
__CPROVER_ensures(o->ref == &x[perm[i]])
{
  reorder_t R; R.n = n; R.perm = perm; R.iperm = iperm;
  vec xv; xv.p = x; xv.n = (size_t)n;
  reordered_vector v = reorder_call_v(&R, xv);
  o->size = rv_size(&v);
  o->ref = rv_index(&v, i);
}
void h_f_reorder_vec_view(void) { ptrdiff_t n; const ptrdiff_t *p, *ip; V *x; size_t i; rv_obs *o; f_reorder_vec_view(n, p, ip, x, i, o); }
''',
    enforce='f_reorder_vec_view', mode='loopfree', timeout=300, assumptions=A_ROV, replay='adapters2',
    not_decided=['begin()/end() (boost::permutation_iterator)'],
)
UNITS += [reorder_view, reorder_vec_view]

for _u in UNITS:
    if _u.replay == 'adapters2':
        _u.replay_asan = True     # one replay binary for the whole family (built with ASan/UBSan)

# ==========================================================================================
# 3./4. call level: constructors that accept a user matrix make a private copy and sort ITS rows
#       before anything is built from it (amg::amg, amg::rebuild, relaxation::as_preconditioner)
# ==========================================================================================
AMG = 'amgcl/amg.hpp'
ASP = 'amgcl/relaxation/as_preconditioner.hpp'
A_CALL = [
    'A-prov: a matrix is an opaque record (operator id, "rows sorted" flag, "private copy made by this call" flag); std::make_shared<build_matrix>(M) '
    'is the crs constructor over row iterators (same operator, same within-row order: units adapt_crs_rowiter_ctor, adapt_crs_range_ctor); '
    'backend::sort_rows keeps the operator and sorts every row (unit builtin_sort_rows, C08)',
    'A-own: shared_ptr lifetimes not modelled (plain pointers to distinct objects)',
    'A-callee: do_init / rebuild(shared_ptr) / the smoother constructor are ghost events that record which matrix they were given and whether '
    'its rows were sorted at that moment (their own contracts: units amg_do_init, amg_rebuild, relaxation units)',
    'A-inst: Matrix is any adapter type (tuple, zero-copy crs, block / reorder / scaled views, row builder)',
]
CALL_HDR = r'''
#define MODEL_UF 1
#include "amgcl_c.h"
int g_thrown;
typedef struct umat { int id; _Bool sorted; } umat;                /* the user's matrix: operator, whether its rows happen to be sorted */
typedef struct bmat { int id; _Bool sorted; _Bool priv; } bmat;    /* build_matrix: operator, rows sorted, private copy made by this call */
typedef struct { int prm; int A_from; } obj_t;                     /* the object under construction (params, backend copy of the matrix) */
/* ghost: what happened */
typedef struct { unsigned copies, sorts, built; int built_id; _Bool built_sorted, built_private; unsigned bcopies; int bcopy_id; _Bool bcopy_sorted; } events;
events g_ev;
/* std::make_shared<build_matrix>(M): fresh matrix, same operator, same row order (replaced by its contract at the call) */
bmat *bk_copy_build(const umat *M)
__CPROVER_assigns(g_ev.copies)
__CPROVER_ensures(__CPROVER_is_fresh(__CPROVER_return_value, sizeof(bmat)) && __CPROVER_return_value->id == M->id
                  && __CPROVER_return_value->sorted == M->sorted && __CPROVER_return_value->priv && g_ev.copies == __CPROVER_old(g_ev.copies) + 1);
/* backend::sort_rows(A): same operator, rows sorted */
static void bk_sort_rows(bmat *A) { A->sorted = 1; g_ev.sorts++; }
#define sort_rows(a) bk_sort_rows(&(a))
/* the consumer of the build matrix (do_init / rebuild / smoother constructor): needs sorted rows */
static void bk_build_from(const bmat *A)
{
  __CPROVER_assert(A->sorted, "C17 input row order does not matter: the rows of the private copy are sorted before the " BUILD_WHAT " is built from it");
  g_ev.built++; g_ev.built_id = A->id; g_ev.built_sorted = A->sorted; g_ev.built_private = A->priv;
}
#define CALL_PRE \
  __CPROVER_requires(__CPROVER_is_fresh(self, sizeof(obj_t)) && __CPROVER_is_fresh(M_p, sizeof(umat))) \
  __CPROVER_requires(g_ev.copies == 0 && g_ev.sorts == 0 && g_ev.built == 0 && g_ev.bcopies == 0 && !g_thrown)
#define CALL_POST \
  /* exactly one private copy is made and the hierarchy / smoother is built from IT: same operator as the user's matrix */ \
  __CPROVER_ensures(g_ev.copies == 1 && g_ev.built == 1 && g_ev.built_private && g_ev.built_id == M_p->id) \
  /* ... with sorted rows, whatever the order in the user's matrix: asserted at the build event (bk_build_from), where the text names it */ \
  /* the user's matrix is not modified (also: M is not in the assigns clause) */ \
  __CPROVER_ensures(M_p->id == __CPROVER_old(M_p->id) && M_p->sorted == __CPROVER_old(M_p->sorted)) \
  __CPROVER_ensures(!g_thrown)
'''
CALL_RULES2 = [
    Rule(r'std_make_shared<build_matrix>\(M\)', 'bk_copy_build(&M)', '+', why='make_shared<build_matrix>(M): the copying crs constructor -> provenance contract'),
    Rule(r'\bauto (\w+) = bk_copy_build', r'bmat *\1 = bk_copy_build', None, why='R-auto'),
]
PRM_INIT = Rule(r'(\w+)\((\w+)\)\s*,?', r'self->\1 = \2;', 1, why='member initialiser list -> assignment')

amg_ctor_sorts = Unit(
    name='amg_ctor_sorts', props=['C17', 'C10'],
    functions=['amg::amg(const Matrix &M, const params &p, const backend_params &bprm)'],
    desc='amg(const Matrix&): one private copy of the user matrix is made, sort_rows is applied to the copy BEFORE do_init builds the hierarchy '
         'from it (so the hierarchy does not depend on the within-row order of the input), the user matrix is not modified; prm = p',
    cuts={'init': Cut(AMG, r'amg\(\s*const Matrix &M,\s*const params &p = params\(\),\s*const backend_params &bprm = backend_params\(\)\s*\)\s*:',
                      kind='region', begin_exclusive=True, end=r'\{', rules=[PRM_INIT]),
          'body': Cut(AMG, r'amg\(\s*const Matrix &M,\s*const params &p = params\(\),\s*const backend_params &bprm = backend_params\(\)\s*\)\s*:[^{]*(?=\{)',
                      rules=CALL_RULES2)},
    template='#define BUILD_WHAT "hierarchy"\n' + CALL_HDR + r'''
#define do_init(A, b) bk_build_from(A)
void f_amg_ctor(obj_t *self, const umat *M_p, int p, int bprm)
CALL_PRE
__CPROVER_assigns(self->prm, g_ev)
CALL_POST
__CPROVER_ensures(self->prm == p)
{
#define M (*M_p)
/*@CUT:init@*/
/*@CUT:body@*/
#undef M
}
void h_f_amg_ctor(void) { obj_t *s; const umat *M; int p, b; f_amg_ctor(s, M, p, b); }
''',
    enforce='f_amg_ctor', replace=['bk_copy_build'], mode='loopfree', obj_bits=10, timeout=120, assumptions=A_CALL, replay='adapters2',
    not_decided=['amg(std::shared_ptr<build_matrix>) takes the matrix as is (documented: not copied); its rows are sorted later inside the coarsening '
                 'only where needed'],
)

amg_rebuild_sorts = Unit(
    name='amg_rebuild_sorts', props=['C17', 'C10'],
    functions=['amg::rebuild(const Matrix &M, const backend_params &bprm)'],
    desc='rebuild(const Matrix&): one private copy, sort_rows on the copy BEFORE rebuild(shared_ptr) recomputes the hierarchy from it; the user '
         'matrix is not modified',
    cuts={'body': Cut(AMG, r'void rebuild\(\s*const Matrix &M,\s*const backend_params &bprm = backend_params\(\)\s*\)\s*(?=\{)', rules=CALL_RULES2)},
    template='#define BUILD_WHAT "hierarchy"\n' + CALL_HDR + r'''
#define rebuild(A, b) bk_build_from(A)
void f_amg_rebuild_m(obj_t *self, const umat *M_p, int bprm)
CALL_PRE
__CPROVER_assigns(g_ev)
CALL_POST
{
#define M (*M_p)
/*@CUT:body@*/
#undef M
}
void h_f_amg_rebuild_m(void) { obj_t *s; const umat *M; int b; f_amg_rebuild_m(s, M, b); }
''',
    enforce='f_amg_rebuild_m', replace=['bk_copy_build'], mode='loopfree', obj_bits=10, timeout=120, assumptions=A_CALL, replay='adapters2',
)

asprecond_ctor = Unit(
    name='asprecond_ctor_sorts', props=['C17', 'C10'],
    functions=['relaxation::as_preconditioner<Backend, Relax>::as_preconditioner(const Matrix &M, prm, bprm)', 'relaxation::as_preconditioner::init(M, bprm)'],
    desc='as_preconditioner(const Matrix&): one private copy of the user matrix; the smoother (ilu0, iluk, ilut, ... need sorted rows) and the '
         'backend matrix are built from that copy with its rows sorted BEFORE, whatever the within-row order of the input; user matrix untouched',
    cuts={'init': Cut(ASP, r'as_preconditioner\(\s*const Matrix &M,\s*const params &prm = params\(\),\s*const backend_params &bprm = backend_params\(\)\s*\)\s*:',
                      kind='region', begin_exclusive=True, end=r'\{', rules=[PRM_INIT]),
          'body': Cut(ASP, r'as_preconditioner\(\s*const Matrix &M,\s*const params &prm = params\(\),\s*const backend_params &bprm = backend_params\(\)\s*\)\s*:[^{]*(?=\{)',
                      rules=CALL_RULES2),
          'initfn': Cut(ASP, r'void init\(std::shared_ptr<build_matrix> M, const backend_params &bprm\)\s*(?=\{)',
                        rules=[Rule(r'A = Backend::copy_matrix\(M, bprm\);', 'self->A_from = bk_backend_copy(M);', None, why='Backend::copy_matrix -> ghost event'),
                               Rule(r'S = std_make_shared<smoother>\(\*M, prm, bprm\);', 'bk_build_from(M);', None, why='smoother constructor -> ghost event')])},
    template='#define BUILD_WHAT "smoother"\n' + CALL_HDR + r'''
static int bk_backend_copy(const bmat *A) { g_ev.bcopies++; g_ev.bcopy_id = A->id; g_ev.bcopy_sorted = A->sorted; return A->id; }
static void asp_init(obj_t *self, bmat *M, int bprm)
{
/*@CUT:initfn@*/
}
#define init(A, b) asp_init(self, A, b)
void f_asp_ctor(obj_t *self, const umat *M_p, int prm, int bprm)
CALL_PRE
__CPROVER_assigns(self->prm, self->A_from, g_ev)
CALL_POST
__CPROVER_ensures(self->prm == prm)
/* the backend matrix applied in apply() is a copy of the same (sorted) private matrix */
__CPROVER_ensures(g_ev.bcopies == 1 && g_ev.bcopy_id == M_p->id && self->A_from == M_p->id)
{
#define M (*M_p)
/*@CUT:init@*/
/*@CUT:body@*/
#undef M
}
void h_f_asp_ctor(void) { obj_t *s; const umat *M; int p, b; f_asp_ctor(s, M, p, b); }
''',
    enforce='f_asp_ctor', replace=['bk_copy_build'], mode='loopfree', obj_bits=10, timeout=120, assumptions=A_CALL, replay='adapters2',
    not_decided=['as_preconditioner(std::shared_ptr<build_matrix>) takes the matrix as is'],
)
UNITS += [amg_ctor_sorts, amg_rebuild_sorts, asprecond_ctor]
for _u in UNITS:
    if _u.replay == 'adapters2':
        _u.replay_asan = True

# ==========================================================================================
# 4. adapter/crs_builder.hpp: matrix_builder<RowBuilder> (row-builder callback adapter), loop free
# ==========================================================================================
CB = 'amgcl/adapter/crs_builder.hpp'
A_CB = [
    'A-uf: values are opaque tokens (only copied)',
    'A-callback: the user functor is abstract: rows(), nonzeros() return fixed numbers; operator()(i, col, val) appends to the two (empty) vectors '
    'an arbitrary sequence of (column, value) pairs of arbitrary length len (ghost inputs c[0..len), v[0..len)) and is recorded as a ghost event',
    'A-int: the row iterator keeps its position in an `int`: rows with more than INT_MAX - 1 entries are outside the contract',
    'A-jump: the state after k increments is entered directly (ptr = k): operator++ is shown to add exactly one from an arbitrary position and no '
    'member other than the constructor touches the two vectors',
]
CB_VEC_RULES = [
    Rule(r'\bm_(col|val)\.size\(\)', r'm_\1.n', None, why='std::vector::size()'),
    Rule(r'\bm_(col|val)\[', r'm_\1.p[', None, why='std::vector::operator[]'),
    Rule(r'return \*this;', 'return;', None, why='reference to self not needed in the C view'),
]
crs_builder = Unit(
    name='adapt_crs_builder', props=['C17', 'C10'],
    functions=['adapter::matrix_builder<RowBuilder>::{ctor, rows, cols, nonzeros, row_begin}',
               'adapter::matrix_builder<RowBuilder>::row_iterator::{ctor, operator bool, operator++, col, value}'],
    desc='row-builder callback adapter: rows() == cols() == functor.rows(), nonzeros() == functor.nonzeros(); row_begin(i) calls the functor exactly '
         'once, for row i, on empty vectors; the iterator then emits exactly the produced sequence: at position k it is valid iff k < len and '
         'col() == c[k], value() == v[k]; ++ advances by one',
    cuts={
        'mb_init': Cut(CB, r'matrix_builder\(const RowBuilder &row_builder\)\s*:', kind='region', begin_exclusive=True, end=r'\{\}',
                       rules=[Rule(r'(\w+)\((\w+)\)', r'self->\1 = *\2;', 1, why='member initialiser: copy of the functor')]),
        'rows': Cut(CB, r'size_t rows\(\)\s*const\s*(?=\{)', nth=1, rules=[Rule(r'build_row\.(rows|nonzeros)\(\)', r'rb_\1(&build_row)', None, why='functor member call')]),
        'cols': Cut(CB, r'size_t cols\(\)\s*const\s*(?=\{)', rules=[Rule(r'build_row\.(rows|nonzeros)\(\)', r'rb_\1(&build_row)', None, why='functor member call')]),
        'nonzeros': Cut(CB, r'size_t nonzeros\(\)\s*const\s*(?=\{)', nth=1, rules=[Rule(r'build_row\.(rows|nonzeros)\(\)', r'rb_\1(&build_row)', None, why='functor member call')]),
        'ri_init': Cut(CB, r'row_iterator\(const RowBuilder &build_row, size_t i\)\s*:', kind='region', begin_exclusive=True, end=r'\{',
                       rules=[Rule(r'(\w+)\((\w+)\)', r'self->\1 = \2;', 1, why='member initialiser list -> assignment')]),
        'ri_ctor': Cut(CB, r'row_iterator\(const RowBuilder &build_row, size_t i\)\s*:[^{]*(?=\{)',
                       rules=[Rule(r'\bbuild_row\(([^;]*)\);', r'rb_call(build_row, \1);', None, why='functor call operator'),
                              Rule(r'\bm_(col|val)\b', r'&self->m_\1', None, why='reference arguments -> pointers')]),
        'row_begin': Cut(CB, r'row_iterator row_begin\(size_t i\) const\s*(?=\{)',
                         rules=[Rule(r'return row_iterator\(build_row, ', 'return mbit_ctor(&build_row, ', 1, why='constructor call -> C function')]),
        'it_bool': Cut(CB, r'operator bool\(\) const\s*(?=\{)', rules=CB_VEC_RULES),
        'it_inc': Cut(CB, r'row_iterator& operator\+\+\(\)\s*(?=\{)', rules=CB_VEC_RULES),
        'it_col': Cut(CB, r'col_type col\(\) const\s*(?=\{)', rules=CB_VEC_RULES),
        'it_value': Cut(CB, r'val_type value\(\) const\s*(?=\{)', rules=CB_VEC_RULES),
    },
    template=r'''
#define MODEL_UF 1
#include "amgcl_c.h"
#include <limits.h>
int g_thrown;
/* abstract RowBuilder functor (A-callback) */
typedef struct { size_t n, nnz; const col_type *c; const V *v; size_t len; } rowbuilder;
typedef struct { const col_type *p; size_t n; } vcol;
typedef struct { const V *p; size_t n; } vval;
typedef struct { unsigned calls; size_t row_asked; _Bool on_empty; } cb_events;
cb_events g_cb;
static size_t rb_rows(const rowbuilder *rb) { return rb->n; }
static size_t rb_nonzeros(const rowbuilder *rb) { return rb->nnz; }
static void rb_call(const rowbuilder *rb, size_t i, vcol *col, vval *val)
{
  g_cb.calls++; g_cb.row_asked = i; g_cb.on_empty = (col->n == 0 && val->n == 0);
  col->p = rb->c; col->n = rb->len; val->p = rb->v; val->n = rb->len;      /* the push_backs of the functor */
}
/* matrix_builder<RowBuilder> { RowBuilder build_row; } */
typedef struct { rowbuilder build_row; } matrix_builder;
/* row_iterator { int ptr; std::vector<col_type> m_col; std::vector<value_type> m_val; } (vectors default-constructed: empty) */
typedef struct { int ptr; vcol m_col; vval m_val; } mb_row_iterator;
static matrix_builder mb_ctor(const rowbuilder *row_builder)
{
  matrix_builder m_; matrix_builder *self = &m_;
/*@CUT:mb_init@*/
  return m_;
}
static mb_row_iterator mbit_ctor(const rowbuilder *build_row, size_t i)
{
  mb_row_iterator it_; mb_row_iterator *self = &it_;
  it_.m_col.p = 0; it_.m_col.n = 0; it_.m_val.p = 0; it_.m_val.n = 0;     /* default-constructed member vectors */
/*@CUT:ri_init@*/
/*@CUT:ri_ctor@*/
  return it_;
}
#define build_row (self->build_row)
static size_t mb_rows(const matrix_builder *self)
{
/*@CUT:rows@*/
}
static size_t mb_cols(const matrix_builder *self)
{
/*@CUT:cols@*/
}
static size_t mb_nonzeros(const matrix_builder *self)
{
/*@CUT:nonzeros@*/
}
static mb_row_iterator mb_row_begin(const matrix_builder *self, size_t i)
{
/*@CUT:row_begin@*/
}
#undef build_row
#define ptr (self->ptr)
#define m_col (self->m_col)
#define m_val (self->m_val)
static _Bool mbit_ok(const mb_row_iterator *self)
{
/*@CUT:it_bool@*/
}
static void mbit_inc(mb_row_iterator *self)
{
/*@CUT:it_inc@*/
}
static col_type mbit_col(const mb_row_iterator *self)
{
/*@CUT:it_col@*/
}
static V mbit_value(const mb_row_iterator *self)
{
/*@CUT:it_value@*/
}
#undef ptr
#undef m_col
#undef m_val
typedef struct { size_t rows, cols, nnz; int ptr0; _Bool ok0; _Bool okk; col_type colk; V valk; int ptr_after; _Bool same_vectors; } mb_obs;
void f_crs_builder(const rowbuilder *rb, size_t i, size_t k, mb_obs *o)
__CPROVER_requires(__CPROVER_is_fresh(rb, sizeof(rowbuilder)) && __CPROVER_is_fresh(o, sizeof(mb_obs)))
__CPROVER_requires(rb->len < (size_t)INT_MAX && k <= rb->len)                                                 /* A-int */
__CPROVER_requires(__CPROVER_is_fresh(rb->c, rb->len * sizeof(col_type)) && __CPROVER_is_fresh(rb->v, rb->len * sizeof(V)))
__CPROVER_requires(g_cb.calls == 0)
__CPROVER_assigns(g_cb, __CPROVER_object_whole(o))
/* square matrix of the functor's size, the functor's estimate of the non-zero count */
__CPROVER_ensures(o->rows == rb->n && o->cols == rb->n && o->nnz == rb->nnz)
/* row_begin(i): the functor is called exactly once, for row i, on empty vectors; the iterator starts at position 0 */
__CPROVER_ensures(g_cb.calls == 1 && g_cb.row_asked == i && g_cb.on_empty && o->ptr0 == 0 && o->ok0 == (rb->len > 0))
/* position k: valid iff k < len; then the k-th produced pair; ++ advances by one and leaves the vectors alone */
__CPROVER_ensures(o->okk == (k < rb->len))
__CPROVER_ensures(!(k < rb->len) || (o->colk == rb->c[k] && o->valk == rb->v[k]))
__CPROVER_ensures(o->ptr_after == (int)k + 1 && o->same_vectors)
{
  matrix_builder mb = mb_ctor(rb);
  o->rows = mb_rows(&mb); o->cols = mb_cols(&mb); o->nnz = mb_nonzeros(&mb);
  mb_row_iterator it = mb_row_begin(&mb, i);
  o->ptr0 = it.ptr; o->ok0 = mbit_ok(&it);
  it.ptr = (int)k;                                               /* A-jump */
  o->okk = mbit_ok(&it);
  if (o->okk) { o->colk = mbit_col(&it); o->valk = mbit_value(&it); }
  mbit_inc(&it);
  o->ptr_after = it.ptr;
  o->same_vectors = it.m_col.p == rb->c && it.m_val.p == rb->v && it.m_col.n == rb->len && it.m_val.n == rb->len;
}
void h_f_crs_builder(void) { const rowbuilder *rb; size_t i, k; mb_obs *o; f_crs_builder(rb, i, k, o); }
''',
    enforce='f_crs_builder', mode='loopfree', timeout=120, assumptions=A_CB, replay='adapters2',
    not_decided=['that the functor describes the intended matrix', 'row lengths >= INT_MAX'],
)
crs_builder.replay_asan = True
UNITS += [crs_builder]

# ==========================================================================================
# 5. adapter::unblock_matrix (bounded): block-valued CRS -> scalar CRS
# ==========================================================================================


def _default_clean_ptr(m):
    args = X._split_args(m.group(2))
    return m.group(1) + m.group(2) + (', 0 /* default argument clean_ptr = false */' if len(args) == 3 else '') + ');'


DEFAULT_CLEAN_PTR2 = Rule(r'(crs_set_size\()((?:[^;()]|\([^()]*\))*)\);', _default_clean_ptr, None, why='default argument clean_ptr = false made explicit')
A_UB = [
    'A-bound: nothing is claimed beyond the stated size bound',
    'A-std: std::partial_sum / std::rotate are prelude stubs (3-line loops)',
    'A-new: operator new[] never returns null; fresh arrays have nondeterministic content (every prior heap content)',
    'A-own: shared_ptr lifetimes are not modelled (make_shared -> plain allocation)',
    'A-omp: the orphaned "#pragma omp for" directives are dropped; loops verified sequentially (each iteration writes only its own block row)',
    'A-inst: Matrix = backend::crs<static_matrix<V, 2, 2>, ptrdiff_t, ptrdiff_t> (row iterator = index loop over ptr[i]..ptr[i+1], rule R-iter; '
    'row_nonzeros = ptr[i+1] - ptr[i]); block value seen as V a[2][2]; values int32 (only copied); callee bodies crs::set_size / scan_row_sizes / '
    'set_nonzeros are inlined from /repo',
    'A-cut: a path ends at a VIOLATED safety.idx obligation (assert first, then assume the same condition)',
]
def _ub_shapes(bn_max, bz_max):
    """one variant per row-pointer shape: n block rows, 0 <= p1 <= .. <= pn <= bz_max"""
    import itertools
    out = []
    for n in range(bn_max + 1):
        for ps in itertools.combinations_with_replacement(range(bz_max + 1), n):
            d = {'NMAX': 2 * bn_max, 'ZMAX': 4 * bz_max, 'BNMAX': bn_max, 'BZMAX': bz_max, 'SHAPE_N': n}
            for k, p in enumerate(ps):
                d['SHAPE_P%d' % (k + 1)] = p
            out.append(d)
    return out


unblock = Unit(
    name='adapt_unblock_matrix', props=['C13', 'C10'],
    functions=['adapter::unblock_matrix(const Matrix &B)', 'crs::set_size', 'crs::scan_row_sizes', 'crs::set_nonzeros'],
    desc='unblock_matrix, block size 2: the result is a well-formed owning scalar CRS matrix with b*rows(B) x b*cols(B), b*b*nnz(B) entries; the '
         'q-th block entry (J, v) of block row I becomes, in each scalar row b*I+r, the entries (b*J+c, v(r,c)), c = 0..b-1, at positions '
         'b*q+c of that row (same operator, block order kept: sorted block rows give sorted scalar rows); B is not modified; any block '
         'pattern (unsorted, duplicates, empty rows)',
    cuts=dict(crs_member_cuts(), body=Cut(
        BM, r'\bunblock_matrix\(const Matrix &B\)\s*(?=\{)',
        rules=CALL_RULES + [
            Rule(r'^\s*typedef typename [^\n]*;\n', '', '+', why='type aliases are bound by the C view', early=True),
            Rule(r'math::static_(rows|cols)<Block>::value', r'BLOCK_\1', '+', why='compile-time block dimensions'),
            Rule(r'static_assert\([^;]*\);', '/* compile-time: not a scalar matrix */', None, why='static_assert on template constants'),
            Rule(r'auto A = std_make_shared<crs<Scalar, Col, Ptr>>\(\);', 'crs *A = crs_new();', 1, why='make_shared -> plain allocation of a default-constructed crs'),
            DEFAULT_CLEAN_PTR2,
            Rule(r'for\(auto b = row_begin\(B, ([^;)]+)\); b; \+\+b\)', r'for(ptr_type b = B.ptr[IDX(\1, B.nrows + 1, "B.ptr")]; b < B.ptr[(\1) + 1]; ++b)', None, why='R-iter row_iterator -> index loop'),
            Rule(r'\bauto (\w+) = b\.col\(\);', r'col_type \1 = B.col[b];', None, why='R-iter / R-auto'),
            Rule(r'\bauto (\w+) = b\.value\(\);', r'blk \1 = B.val[b];', None, why='R-iter / R-auto'),
            Rule(r'\bauto (\w+) = row_nonzeros\(', r'size_t \1 = row_nonzeros(', None, why='R-auto'),
            Rule(r'\bauto (\w+) = A->ptr\[', r'ptr_type \1 = A->ptr[', None, why='R-auto'),
            Rule(r'\bv\((\w+),\s*(\w+)\)', r'BLK(v, \1, \2)', None, why='static_matrix::operator()(i, j) -> a[i][j] with bounds obligations'),
            IdxRule(r'A->ptr', 'A->nrows + 1', '+'),
            IdxRule(r'A->col|A->val', 'A->nnz', '+'),
        ])),
    template='#define MODEL_INT32 1\n' + BOUNDED_PRELUDE + IDX_CUT + CRS_MEMBERS_C + r'''
#define BLOCK_rows 2
#define BLOCK_cols 2
typedef struct { V a[BLOCK_rows][BLOCK_cols]; } blk;
#define BLK(b, i, j) ((b).a[IDX(i, BLOCK_rows, "block row")][IDX(j, BLOCK_cols, "block column")])
/* backend::crs<Block, Col, Ptr>: fields in declaration order */
typedef struct { size_t nrows, ncols, nnz; ptr_type *ptr; col_type *col; blk *val; _Bool own_data; } bcrs;
#define row_nonzeros(B, i) ((size_t)((B).ptr[(i) + 1] - (B).ptr[i]))
#ifndef BNMAX
#define BNMAX 2
#endif
#ifndef BZMAX
#define BZMAX 3
#endif
#define BCAP_PTR (BNMAX + 2)
#ifndef SHAPE_P1
#define SHAPE_P1 0
#endif
#ifndef SHAPE_P2
#define SHAPE_P2 SHAPE_P1
#endif
#ifndef SHAPE_P3
#define SHAPE_P3 SHAPE_P2
#endif
#define BCAP_NNZ (BZMAX + 1)
size_t w_B_nrows, w_B_ncols; ptr_type w_B_ptr[BCAP_PTR]; col_type w_B_col[BCAP_NNZ]; V w_B_val[BCAP_NNZ * 4];
crs *f_unblock(const bcrs *B_p)
{
#define B (*B_p)
/*@CUT:body@*/
#undef B
}
void h_unblock(void)
{
  ptr_type bp[BCAP_PTR], bp0[BCAP_PTR]; col_type bc[BCAP_NNZ], bc0[BCAP_NNZ]; blk bv[BCAP_NNZ], bv0[BCAP_NNZ];
  bcrs B; B.ptr = bp; B.col = bc; B.val = bv; B.own_data = 0;
  /* requires: B is a well-formed block CRS matrix (any pattern) within the bound.  The row structure (number of block rows, row
   * pointers) is enumerated by the variants (SHAPE_N, SHAPE_P1..P3: every monotone ptr within the bound is one variant), so that all
   * loop bounds and positions are concrete in each run (the fully symbolic structure needs > 10 min already for 2 block entries);
   * block columns, the column count and all values stay symbolic */
  static const ptr_type shape[5] = {0, SHAPE_P1, SHAPE_P2, SHAPE_P3, SHAPE_P3};
  B.nrows = SHAPE_N;
  for (size_t i = 0; i < BCAP_PTR; ++i) if (i <= SHAPE_N) bp[i] = shape[i];
  REQUIRES(B.nrows <= BNMAX && B.ncols <= BNMAX && bp[0] == 0);
  for (size_t i = 0; i < BNMAX; ++i) if (i < B.nrows) REQUIRES(bp[i] <= bp[i + 1]);
  REQUIRES(bp[B.nrows] <= BZMAX && B.nnz == (size_t)bp[B.nrows]);
  for (size_t k = 0; k < BCAP_NNZ; ++k) if ((ptr_type)k < bp[B.nrows]) REQUIRES(bc[k] >= 0 && (size_t)bc[k] < B.ncols);
  for (size_t i = 0; i < BCAP_PTR; ++i) { bp0[i] = bp[i]; w_B_ptr[i] = bp[i]; }
  for (size_t k = 0; k < BCAP_NNZ; ++k) { bc0[k] = bc[k]; bv0[k] = bv[k]; w_B_col[k] = bc[k];
    for (int r = 0; r < 2; ++r) for (int c = 0; c < 2; ++c) w_B_val[4 * k + 2 * r + c] = bv[k].a[r][c]; }
  w_B_nrows = B.nrows; w_B_ncols = B.ncols;
  const size_t bn = B.nrows, bm = B.ncols, bz = (size_t)bp[B.nrows];
  crs *A = f_unblock(&B);
  ENSURES(!g_cap_exceeded, "bound artefact: allocation within verification capacity");
  ENSURES(!g_thrown, "no exception on a well-formed block matrix");
  ENSURES(A->nrows == 2 * bn && A->ncols == 2 * bm && A->own_data, "scalar dimensions are b*rows(B) x b*cols(B); the result owns its arrays");
  ENSURES(A->ptr[0] == 0 && A->nnz == 4 * bz && (size_t)A->ptr[A->nrows] == 4 * bz, "b*b scalar entries per block entry: ptr[0] == 0, ptr[nrows] == nnz == 4*nnz(B)");
  ENSURES(crs_wf(A, NMAX, NMAX, ZMAX), "the result is a well-formed CRS matrix (monotone ptr from 0, columns in range)");
  for (size_t I = 0; I < BNMAX; ++I) if (I < bn)
    for (size_t r = 0; r < 2; ++r)
      ENSURES((size_t)(A->ptr[2 * I + r + 1] - A->ptr[2 * I + r]) == 2 * (size_t)(bp0[I + 1] - bp0[I]), "scalar row b*I+r has b entries per block entry of block row I");
  for (size_t I = 0; I < BNMAX; ++I) if (I < bn)
    for (size_t k = 0; k < BCAP_NNZ; ++k) if ((ptr_type)k >= bp0[I] && (ptr_type)k < bp0[I + 1])
      for (size_t r = 0; r < 2; ++r)
        for (size_t c = 0; c < 2; ++c) {
          size_t pos = (size_t)A->ptr[2 * I + r] + 2 * (k - (size_t)bp0[I]) + c;
          ENSURES(pos < CAP_NNZ && pos < A->nnz && A->col[pos] == 2 * bc0[k] + (col_type)c && A->val[pos] == bv0[k].a[r][c],
                  "block entry q = (J, v) of block row I appears in scalar row b*I+r at position b*q+c as (b*J+c, v(r,c))");
        }
  _Bool frame = B.nrows == bn && B.ncols == bm && B.ptr == bp && B.col == bc && B.val == bv;
  for (size_t i = 0; i < BCAP_PTR; ++i) if (bp[i] != bp0[i]) frame = 0;
  for (size_t k = 0; k < BCAP_NNZ; ++k) { if (bc[k] != bc0[k]) frame = 0;
    for (int r = 0; r < 2; ++r) for (int c = 0; c < 2; ++c) if (bv[k].a[r][c] != bv0[k].a[r][c]) frame = 0; }
  ENSURES(frame, "frame: the block matrix is not modified");
  CANARY("harness.end");
}
''',
    entry='h_unblock', mode='unwound', unwind='max(ZMAX,NMAX)+3', model='int32',
    variants=_ub_shapes(2, 3),
    thorough_variants=_ub_shapes(3, 4),
    bound_text='block size 2; all block matrices with <= 2 block rows / columns and <= 3 block entries (thorough: <= 3 and <= 4): every row-pointer '
               'shape is one variant; block columns (unsorted, duplicates), column count and values symbolic',
    assumptions=A_UB, replay='adapters2', timeout=300,
    witness=['w_B_nrows', 'w_B_ncols', 'w_B_ptr', 'w_B_col', 'w_B_val'],
    not_decided=['block sizes 3, 4, rectangular blocks, Eigen blocks', 'that block_matrix(unblock_matrix(B)) == B (composition of the two bounded units)'],
)
unblock.replay_asan = True
# crs::set_size(n, m, clean_ptr = false): unblock_matrix uses the default, the clean_ptr branch of the inlined member is unreachable by construction
unblock.cover_exempt = r'set_size\.[12]$'
# per-loop limits (unwinding assertions stay on): block rows, block entries of one row, the b x b expansion, prelude rotate
unblock.unwindset = [(r'for \(ptrdiff_t ib = 0', 'BNMAX+1'), (r'for\(ptr_type b = ', 'BZMAX+1'), (r'for \(ptrdiff_t i = 0, ia', '3'), (r'for\(int j = 0; j < bcols', '3'),
                     (r'for \(size_t r = 0; r < k; \+\+r\)', 'NMAX+2')]
UNITS += [unblock]
