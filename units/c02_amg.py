"""amg::cycle / amg::apply (amgcl/amg.hpp): typestate + call-trace contracts, inductive over
every loop (any ncycle / npre / npost / pre_cycles, any vector size).  The recursion is handled
modularly: the recursive call is replaced by the contract of `cycle` itself (bk_cycle, generated
from the same text as the enforced contract; induction on the number of remaining levels).
The hierarchy depth is restricted to LMAX levels because the well-formedness of the hierarchy
(every non-coarsest level owns a smoother) is a forall over levels that CBMC only takes as an
explicit conjunction."""
from cxc.extract import Cut, Rule, UF, Loop, UFArgs
from cxc.unit import Unit

LMAX = 4


def assigns_from(kexpr, own=('u', 't')):
    """conditional assigns targets: own-level vectors `own` of level K and f,u,t of every deeper level"""
    groups = []
    for j in range(LMAX):
        groups.append('(%s == %d): %s' % (kexpr, j, ', '.join('g_lv[%d].%s' % (j, n) for n in own)))
        if j > 0:
            groups.append('(%s < %d): g_lv[%d].f, g_lv[%d].u, g_lv[%d].t' % (kexpr, j, j, j, j))
    return '; '.join(groups)


# hierarchy well-formedness: every non-coarsest level owns a smoother, the coarsest a solver or a smoother;
# every level-owned object carries its tag (explicit conjunction over the levels: no forall in CBMC)
WF = ' && '.join(
    '(%(j)d < g_nlev ==> (((%(j)d + 1 < g_nlev) ? g_lv[%(j)d].relax != 0 : (g_lv[%(j)d].solve != 0 || g_lv[%(j)d].relax != 0))'
    ' && g_lv[%(j)d].lev == %(j)d && g_lv[%(j)d].f.id == TAG(%(j)d, M_F) && g_lv[%(j)d].u.id == TAG(%(j)d, M_U) && g_lv[%(j)d].t.id == TAG(%(j)d, M_T)'
    ' && g_lv[%(j)d].A.id == TAG(%(j)d, M_A) && g_lv[%(j)d].P.id == TAG(%(j)d, M_P) && g_lv[%(j)d].R.id == TAG(%(j)d, M_R)))' % {'j': j}
    for j in range(LMAX))

def shallower_same(kexpr, old):
    """vectors of levels above `kexpr` (and the f of level kexpr itself) are unchanged w.r.t. `old`(...)"""
    out = []
    for j in range(LMAX):
        for m in ('f', 'u', 't'):
            c = '(%d < %s)' % (j, kexpr) if m != 'f' else '(%d <= %s)' % (j, kexpr)
            out.append('(%s ==> (g_lv[%d].%s.defined == %s(g_lv[%d].%s.defined) && g_lv[%d].%s.version == %s(g_lv[%d].%s.version)))'
                       % (c, j, m, old, j, m, j, m, old, j, m))
    return ' && '.join(out)


A_AMG = [
    'A-depth: hierarchy depth <= %d (the hierarchy well-formedness precondition is an explicit conjunction instead of a forall over levels); everything else (vector sizes, ncycle, npre, npost, pre_cycles) is unbounded' % LMAX,
    'A-rec: the recursive call cycle(nxt, *nxt->f, *nxt->u) is replaced by the contract of cycle itself plus the record of the call event (induction on the number of remaining levels; contract text generated from the same string as the enforced one)',
    'A-callee: relaxation apply_pre/apply_post and the coarse solver honour their typestate contracts (orch_amg.h): read rhs and x, write x and the scratch vector only',
    'A-abs: typestate contracts of residual/spmv/clear/copy are justified by the functional contracts of C07',
    'A-view: std::list<level> is viewed as an array of levels; shared_ptr members f,u,t,A,P,R as embedded objects (rule R-smartptr), solve/relax as nullable pointers',
    'A-uf: scalars are opaque tokens; only is_zero(0) and !is_zero(1) are assumed',
]

ENS = r"""
__CPROVER_ensures(x_p->defined && x_p->id == __CPROVER_old(x_p->id))
/* C02 trace of the visit (watched level == this level), non-coarsest: ncycle times
 * { npre x apply_pre(A_l, rhs, x, t_l); residual(rhs, A_l, x, t_l); spmv(1, R_l, t_l, 0, f_{l+1}); clear(u_{l+1});
 *   cycle(l+1, f_{l+1}, u_{l+1}); spmv(1, P_l, u_{l+1}, 1, x); npost x apply_post(A_l, rhs, x, t_l) }
 * -- order and arguments are checked event by event by the automaton (G.ok stays set) */
__CPROVER_ensures(g_watch == (int)K ==> (OLDG(ok) ==> G.ok))
__CPROVER_ensures((K + 1 < g_nlev && g_watch == (int)K) ==> (
      G.n_res == OLDG(n_res) + self->ncycle && G.n_restr == OLDG(n_restr) + self->ncycle && G.n_clr == OLDG(n_clr) + self->ncycle
   && G.n_rec == OLDG(n_rec) + self->ncycle && G.n_prol == OLDG(n_prol) + self->ncycle && G.n_solve == OLDG(n_solve)
   && (self->ncycle > 0 ==> (G.ph == PH_POST && G.pre_at_res == self->npre && G.post == self->npost && G.pre == 0))
   && (self->ncycle > 1 ==> G.post_at_res == self->npost)))
/* coarsest level: the direct solver if there is one, else npre pre- and npost post-sweeps */
__CPROVER_ensures((K + 1 == g_nlev && g_watch == (int)K && g_lv[K].solve != 0) ==> (G.n_solve == OLDG(n_solve) + 1 && G.pre == 0 && G.post == 0 && G.n_res == OLDG(n_res)))
__CPROVER_ensures((K + 1 == g_nlev && g_watch == (int)K && g_lv[K].solve == 0) ==> (G.n_solve == OLDG(n_solve) && G.pre == self->npre && G.post == self->npost && G.n_res == OLDG(n_res)))
/* a visit of a deeper level does not touch the record of the watched level */
__CPROVER_ensures(g_watch < (int)K ==> SAMEG)
"""

T = r"""
#define LMAX %(LMAX)d
#include "orch_amg.h"
int g_thrown;
#define WF (%(WF)s)
#define LE(f) (G.f == __CPROVER_loop_entry(G.f))
#define LE_ALL (LE(ok) && LE(ph) && LE(pre) && LE(post) && LE(pre_at_res) && LE(post_at_res) && LE(n_res) && LE(n_restr) && LE(n_clr) && LE(n_rec) && LE(n_prol) && LE(n_solve))
#define LE_CNT (LE(n_res) && LE(n_restr) && LE(n_clr) && LE(n_rec) && LE(n_prol) && LE(n_solve))
/* level index of a level pointer: read from its tag (pointer subtraction would be a division by sizeof(level)) */
#define LVIDX(l) ((size_t)(l)->lev)
#ifndef KVAL
#define KVAL 0
#endif

/* ---- the recursive call: contract of cycle at level K = lvl - g_lv >= 1 (rhs = own f, x = own u) + record of the call */
#define K LVIDX(lvl)
void bk_cycle(const amg_params *self, level *lvl, const vec *rhs_p, vec *x_p)
__CPROVER_requires(__CPROVER_same_object(lvl, g_lv) && K >= 1 && K < g_nlev && lvl == &g_lv[K])
__CPROVER_requires(rhs_p == &lvl->f && x_p == &lvl->u && rhs_p->defined && x_p->defined && WF && g_watch < (int)K)
__CPROVER_assigns(g_lv, G, g_clr_id, g_clr_ver)
__CPROVER_ensures(x_p->defined && WF && %(SH_OLD)s)
__CPROVER_ensures(g_watch + 1 == (int)K
   ? (G.ok == (OLDG(ok) && OLDG(ph) == PH_CLR) && G.ph == PH_REC && G.n_rec == OLDG(n_rec) + 1 && SAME_SINCE
      && G.n_res == OLDG(n_res) && G.n_restr == OLDG(n_restr) && G.n_clr == OLDG(n_clr) && G.n_prol == OLDG(n_prol) && G.n_solve == OLDG(n_solve))
   : SAMEG);
#define cycle(l, rhs, x) bk_cycle(self, l, &(rhs), &(x))

/* ---- one visit of level K */
void f_cycle(const amg_params *self, level *lvl, const vec *rhs_p, vec *x_p)
__CPROVER_requires(g_nlev >= 1 && g_nlev <= LMAX && __CPROVER_is_fresh(self, sizeof(*self)))
__CPROVER_requires(UF_AXIOMS && WF)
__CPROVER_requires(self->npre <= 1000000 && self->npost <= 1000000 && self->ncycle <= 1000000)
__CPROVER_requires(lvl == &g_lv[KVAL] && KVAL < g_nlev)
#ifdef VARIANT_TOP
__CPROVER_requires(K == 0 && g_watch == 0)
__CPROVER_requires(__CPROVER_is_fresh(rhs_p, sizeof(vec)) && __CPROVER_is_fresh(x_p, sizeof(vec)) && rhs_p->id == 1 && x_p->id == 2)
#else
__CPROVER_requires(K >= 1 && rhs_p == &lvl->f && x_p == &lvl->u)
#ifdef VARIANT_WATCH_ABOVE
__CPROVER_requires(g_watch < (int)K)
#else
__CPROVER_requires(g_watch == (int)K)
#endif
#endif
#ifndef VARIANT_WATCH_ABOVE
/* fresh record for this visit */
__CPROVER_requires(G.ph == PH_START && G.pre == 0 && G.post == 0 && G.n_res <= (1UL << 60) && G.n_restr <= (1UL << 60) && G.n_clr <= (1UL << 60) && G.n_rec <= (1UL << 60) && G.n_prol <= (1UL << 60))
#endif
/* C02/C15: rhs and x hold data; the scratch vectors f,u,t of every level hold anything (earlier applications) */
__CPROVER_requires(rhs_p->defined && x_p->defined)
#ifdef VARIANT_TOP
__CPROVER_assigns(*x_p)
#endif
__CPROVER_assigns(g_lv, G, g_clr_id, g_clr_ver)
#ifndef VARIANT_TOP
/* the right-hand side (f of this level) is not modified by the visit */
__CPROVER_ensures(rhs_p->defined && rhs_p->version == __CPROVER_old(rhs_p->version))
#endif
__CPROVER_ensures(WF)
#ifndef VARIANT_TOP
__CPROVER_ensures(%(SH_OLD)s)
#endif
%(ENS)s
{
  const amg_params prm = *self;
  level *const levels_end = g_lv + g_nlev;
#define rhs (*rhs_p)
#define x (*x_p)
/*@CUT:body@*/
#undef rhs
#undef x
}
#undef K
void h_f_cycle(void) { const amg_params *self; level *lvl; const vec *rhs; vec *x; f_cycle(self, lvl, rhs, x); }
""" % {'LMAX': LMAX, 'WF': WF, 'ENS': ENS, 'SH_OLD': shallower_same('K', '__CPROVER_old')}


def sweep_loop(kind, bound):
    """loop contract of `for(size_t i = 0; i < prm.npre; ++i) relax->apply_pre(...)`"""
    if kind == 'pre':
        here = 'G.pre == __CPROVER_loop_entry(G.pre) + i && LE(post) && (i > 0 ? G.ph == PH_START : LE(ph))'
    else:
        here = 'G.post == __CPROVER_loop_entry(G.post) + i && LE(pre) && (i > 0 ? G.ph == PH_POST : LE(ph))'
    return r"""
__CPROVER_assigns(i, *x_p, lvl->t, G)
__CPROVER_loop_invariant(i <= %(b)s && x_p->defined && rhs_p->defined && x_p->id == __CPROVER_loop_entry(x_p->id) && lvl->t.id == __CPROVER_loop_entry(lvl->t.id))
__CPROVER_loop_invariant(g_watch == (int)LVIDX(lvl) ? (%(here)s && LE(pre_at_res) && LE(post_at_res) && LE_CNT && (__CPROVER_loop_entry(G.ok) ==> G.ok)) : LE_ALL)
__CPROVER_decreases(%(b)s - i)
""" % {'b': bound, 'here': here}


J_LOOP = r"""
__CPROVER_assigns(j, *x_p, G, g_lv, g_clr_id, g_clr_ver)
__CPROVER_loop_invariant(j <= prm.ncycle && x_p->defined && rhs_p->defined && WF && x_p->id == __CPROVER_loop_entry(x_p->id))
__CPROVER_loop_invariant(rhs_p->version == __CPROVER_loop_entry(rhs_p->version) && rhs_p->id == __CPROVER_loop_entry(rhs_p->id))
__CPROVER_loop_invariant(%(SH_LE)s)
__CPROVER_loop_invariant(g_watch == (int)LVIDX(lvl) ? (
      G.n_res == __CPROVER_loop_entry(G.n_res) + j && G.n_restr == __CPROVER_loop_entry(G.n_restr) + j
   && G.n_clr == __CPROVER_loop_entry(G.n_clr) + j && G.n_rec == __CPROVER_loop_entry(G.n_rec) + j
   && G.n_prol == __CPROVER_loop_entry(G.n_prol) + j && LE(n_solve)
   && (j == 0 ? (LE(ph) && LE(pre) && LE(post)) : (G.ph == PH_POST && G.pre == 0 && G.pre_at_res == prm.npre && G.post == prm.npost))
   && (j > 1 ==> G.post_at_res == prm.npost)
   && (__CPROVER_loop_entry(G.ok) ==> G.ok))
   : LE_ALL)
__CPROVER_decreases(prm.ncycle - j)
""" % {'SH_LE': shallower_same('LVIDX(lvl)', '__CPROVER_loop_entry').replace('(%d <= ' % 99, '')}

RULES = [
    Rule(r'level_iterator nxt = lvl, end = levels\.end\(\);', 'level_iterator nxt = lvl, end = levels_end;', 1, why='std::list end() -> array end'),
    Rule(r'\*(\w+)->(f|u|t|A|P|R)\b', r'\1->\2', '+', why='R-smartptr: shared_ptr member deref -> embedded object'),
    Rule(r'\(\*(\w+)->solve\)\(', r'SOLVE(\1, ', '+', why='functor call -> C call'),
    Rule(r'(\w+)->relax->apply_pre\(', r'RELAX_PRE(\1, ', '+', why='member call -> C call'),
    Rule(r'(\w+)->relax->apply_post\(', r'RELAX_POST(\1, ', '+', why='member call -> C call'),
]

cycle = Unit(
    name='amg_cycle', props=['C02', 'C15', 'C10'], replay='orchestration',
    functions=['amg<Backend,Coarsening,Relax>::cycle(level_iterator, rhs, x)'],
    desc='one multigrid visit of a level: typestate (scratch of every level may hold anything), exact call sequence and arguments per cycle, rhs untouched',
    cuts={'body': Cut('amgcl/amg.hpp', r'void cycle\(level_iterator lvl, const Vec1 &rhs, Vec2 &x\) const\s*(?=\{)',
                      rules=RULES,
                      loops=[Loop(r'for\(size_t i = 0;', sweep_loop('pre', 'prm.npre'), nth=0, prefix=True),
                             Loop(r'for\(size_t i = 0;', sweep_loop('post', 'prm.npost'), nth=1, prefix=True),
                             Loop(r'for \(size_t j = 0;', J_LOOP, prefix=True),
                             Loop(r'for\(size_t i = 0;', sweep_loop('pre', 'prm.npre'), nth=2, prefix=True),
                             Loop(r'for\(size_t i = 0;', sweep_loop('post', 'prm.npost'), nth=3, prefix=True)])},
    template=T, enforce='f_cycle',
    replace=['bk_cycle', 'bk_relax_pre', 'bk_relax_post', 'bk_residual', 'bk_spmv', 'bk_clear', 'bk_copy', 'bk_solve'],
    mode='inductive', obj_bits=12, timeout=150,
    variants=[{'VARIANT_TOP': 1, 'KVAL': 0, 'NLEV': n} for n in range(1, LMAX + 1)]
             + [{'KVAL': k, 'NLEV': n} for n in range(2, LMAX + 1) for k in range(1, n)]
             + [{'VARIANT_WATCH_ABOVE': 1, 'KVAL': k, 'NLEV': n} for n in range(2, LMAX + 1) for k in range(1, n)],
    assumptions=A_AMG,
    not_decided=['symmetry / positive definiteness of the cycle operator, spectral radius of I - BA < 1, exact power-of-two scaling (eigenvalue / floating-point statements)',
                 'linearity itself: follows from the proved call structure given linear primitives; not machine-checked'],
)


# ---------------------------------------------------------------------------- apply()
APPLY_T = r"""
#define LMAX %(LMAX)d
#include "orch_amg.h"
int g_thrown;
unsigned long g_top_n;      /* number of top-level cycles run by this apply() */
_Bool g_first_on_cleared;   /* the first cycle started from the x produced by clear(x) */
/* amg::cycle(rhs, x) = cycle(levels.begin(), rhs, x): contract proved by unit amg_cycle (VARIANT_TOP) */
void bk_cycle0(const vec *rhs_p, vec *x_p)
__CPROVER_requires(rhs_p->defined && x_p->defined && rhs_p->id == 1 && x_p->id == 2)
__CPROVER_assigns(*x_p, g_lv, G, g_clr_id, g_clr_ver, g_top_n, g_first_on_cleared)
__CPROVER_ensures(VEC_WRITTEN(x_p) && g_top_n == __CPROVER_old(g_top_n) + 1)
__CPROVER_ensures(__CPROVER_old(g_top_n) == 0 ? g_first_on_cleared == (__CPROVER_old(g_clr_id) == 2 && __CPROVER_old(g_clr_ver) == __CPROVER_old(x_p->version))
                                               : g_first_on_cleared == __CPROVER_old(g_first_on_cleared));
#define cycle(rhs, x) bk_cycle0(&(rhs), &(x))

void f_apply(const amg_params *self, const vec *rhs_p, vec *x_p)
__CPROVER_requires(__CPROVER_is_fresh(self, sizeof(*self)) && __CPROVER_is_fresh(rhs_p, sizeof(vec)) && __CPROVER_is_fresh(x_p, sizeof(vec)))
/* C02 / C15: x may hold anything on entry (it is an output), and so may every scratch vector of the hierarchy */
__CPROVER_requires(rhs_p->defined && rhs_p->id == 1 && x_p->id == 2 && !x_p->defined && g_top_n == 0 && self->pre_cycles <= 1000000 && g_watch >= 0 && g_watch < LMAX)
__CPROVER_assigns(*x_p, g_lv, G, g_clr_id, g_clr_ver, g_top_n, g_first_on_cleared)
__CPROVER_ensures(x_p->defined)
/* pre_cycles > 0: x = 0, then exactly pre_cycles multigrid cycles on (rhs, x); pre_cycles == 0: x = rhs */
__CPROVER_ensures(self->pre_cycles > 0 ==> (g_top_n == self->pre_cycles && g_first_on_cleared))
__CPROVER_ensures(self->pre_cycles == 0 ==> (g_top_n == 0 && x_p->version == __CPROVER_old(x_p->version) + 1))
{
  const amg_params prm = *self;
#define rhs (*rhs_p)
#define x (*x_p)
/*@CUT:body@*/
#undef rhs
#undef x
}
void h_f_apply(void) { const amg_params *self; const vec *rhs; vec *x; f_apply(self, rhs, x); }
""" % {'LMAX': LMAX}

APPLY_LOOP = r"""
__CPROVER_assigns(i, *x_p, g_lv, G, g_clr_id, g_clr_ver, g_top_n, g_first_on_cleared)
__CPROVER_loop_invariant(i <= prm.pre_cycles && x_p->defined && x_p->id == 2 && g_top_n == i)
__CPROVER_loop_invariant(i == 0 ? (g_clr_id == 2 && g_clr_ver == x_p->version) : g_first_on_cleared)
__CPROVER_decreases(prm.pre_cycles - i)
"""

apply_ = Unit(
    name='amg_apply', props=['C02', 'C15', 'C10'], replay='orchestration',
    functions=['amg<Backend,Coarsening,Relax>::apply(rhs, x)'],
    desc='preconditioner application: clear(x) then pre_cycles cycles (or copy(rhs, x)); x is output only',
    cuts={'body': Cut('amgcl/amg.hpp', r'void apply\(const Vec1 &rhs, Vec2 &&x\) const\s*(?=\{)',
                      loops=[Loop(r'for\(unsigned i = 0;', APPLY_LOOP, prefix=True)])},
    template=APPLY_T, enforce='f_apply', replace=['bk_cycle0', 'bk_clear', 'bk_copy'],
    mode='inductive', obj_bits=12, timeout=300, assumptions=A_AMG,
)

UNITS = [cycle, apply_]
