"""adapter/scaled_problem.hpp (C17, diagonal-scaling adapter): scale_diagonal computes s_i = 1/sqrt(|a_ii|) for EVERY row
that stores a diagonal entry, wherever in the row it is stored (input row order does not matter); the scaled matrix view
returns s_i * a_ij * s_j.  Inductive / loop-free: proved for all sizes, UF values."""
from cxc.extract import Cut, Rule, UF, Loop
from cxc.unit import Unit

SRC = 'amgcl/adapter/scaled_problem.hpp'
HDR = r'''
#define MODEL_UF 1
#include "amgcl_c.h"
int g_thrown;
#define NMAX 0x000fffffffffffffUL
'''
A_SC = ['A-uf: value operations (inverse, sqrt, norm, *) are uninterpreted functions of their operands: the proof holds for every value type',
        'A-omp: "#pragma omp parallel for" dropped; each iteration writes only s[i]',
        'A-iter: the row_iterator loop is rewritten to the index loop over ptr[i]..ptr[i+1] (rule R-iter)',
        'A-wf: crs well-formedness of the rows and "g_d is the first position of row g_k that stores column g_k" are universally quantified preconditions over read-only arrays, instantiated where the arrays are read (ROW_OK, FIRST_DIAG)']

OUTER = '''
__CPROVER_assigns(i, __CPROVER_object_whole(s))
__CPROVER_loop_invariant(0 <= i && i <= n)
__CPROVER_loop_invariant(g_k < (size_t)i ==> s[g_k] == e_k)
__CPROVER_decreases(n - i)
'''
INNER = '''
__CPROVER_assigns(a, __CPROVER_object_whole(s))
__CPROVER_loop_invariant(A_ptr[i] <= a && a <= A_ptr[(i) + 1] && A_ptr[(i) + 1] <= nnz && 0 <= A_ptr[i])
__CPROVER_loop_invariant((size_t)i == g_k ==> a <= g_d)
__CPROVER_loop_invariant(g_k < (size_t)i ==> s[g_k] == e_k)
__CPROVER_decreases(A_ptr[(i) + 1] - a)
'''
scale_diagonal = Unit(
    name='adapt_scale_diagonal', props=['C17', 'C10'],
    functions=['adapter::scale_diagonal<Backend, Matrix>(A, bprm)'],
    desc='s[k] == inverse(sqrt(norm(a_kk))) for every row k that stores a diagonal entry, wherever it sits in the row (any row order)',
    cuts={'body': Cut(SRC, r'scale_diagonal\(\s*const Matrix &A,\s*const typename Backend::params &bprm = typename Backend::params\(\)\s*\)\s*(?=\{)',
                      rules=[Rule(r'^\s*typedef typename [^\n]*;\n', '', '+', why='type aliases are bound by the value model', early=True),
                             Rule(r'for\(auto a = backend::row_begin\(A, ([^;)]+)\); a; \+\+a\)', r'for(ptrdiff_t a = A_ptr[\1]; a < A_ptr[(\1) + 1]; ++a)', '+', why='R-iter', early=True),
                             Rule(r'\ba\.col\(\)', 'A_col[a]', None, why='R-iter'), Rule(r'\ba\.value\(\)', 'A_val[a]', None, why='R-iter'),
                             Rule(r'rows\(A\)', '(ptrdiff_t)A_nrows', 1, why='rows_impl<crs>'),
                             Rule(r'auto\s+s = std_make_shared<std_vector<scalar_type>>\(n\);', '/* s: the caller-provided C view of make_shared<vector>(n) */', 1, why='R-new: allocation is in the harness (dfcc cannot track malloc inside the enforced function)'),
                             Rule(r'\(\*s\)\[', 's[', None, why='R-smartptr'),
                             Rule(r'return scaled_problem<[^;]*;', 'return;', 1, why='the adapter object just wraps s'),
                             Rule(r'(for\(ptrdiff_t a = A_ptr\[[^;]+; a < A_ptr\[[^;]+; \+\+a\)\s*(?:/\*@LOOP\d+@\*/)?\s*\{)', r'\1 FIRST_DIAG(i, a);', '+', why='pointwise instantiation of "g_d is the first diagonal position of row g_k"'),
                             Rule(r'(for\(ptrdiff_t i = 0; i < n; \+\+i\)\s*(?:/\*@LOOP\d+@\*/)?\s*\{)', r'\1 ROW_OK(i);', '+', why='pointwise instantiation of crs_wf at the row read')],
                      uf=[UF(r's\[i\] = (?P<e>[^;]+);', None)],
                      loops=[Loop(r'for\(ptrdiff_t i = 0;', OUTER, prefix=True), Loop(r'for\(auto a = backend::row_begin', INNER, prefix=True)])},
    template=HDR + r'''
size_t g_k; ptrdiff_t g_d;   /* ghost: a row and the first position in it that stores the diagonal */
#define sqrt(v) __CPROVER_uninterpreted_sqrt((V)(v))
#define ROW_OK(i) __CPROVER_assume(0 <= A_ptr[i] && A_ptr[i] <= A_ptr[(i) + 1] && A_ptr[(i) + 1] <= nnz)
#define FIRST_DIAG(i, a) __CPROVER_assume(!((size_t)(i) == g_k && (a) < g_d) || A_col[a] != (ptrdiff_t)g_k)
void f_scale_diagonal(size_t A_nrows, ptrdiff_t nnz, const ptrdiff_t *A_ptr, const ptrdiff_t *A_col, const V *A_val, V *s)
__CPROVER_requires(A_nrows <= NMAX && 0 <= nnz && nnz <= (ptrdiff_t)NMAX)
__CPROVER_requires(__CPROVER_is_fresh(A_ptr, (A_nrows + 1) * sizeof(ptrdiff_t)) && __CPROVER_is_fresh(A_col, nnz * sizeof(ptrdiff_t)) && __CPROVER_is_fresh(A_val, nnz * sizeof(V)))
__CPROVER_requires(__CPROVER_is_fresh(s, A_nrows * sizeof(V)))
/* the watched row stores its diagonal at position g_d (anywhere in the row; rows need not be sorted) */
__CPROVER_requires(g_k < A_nrows && 0 <= A_ptr[g_k] && A_ptr[g_k] <= g_d && g_d < A_ptr[g_k + 1] && A_ptr[g_k + 1] <= nnz && A_col[g_d] == (ptrdiff_t)g_k)
__CPROVER_assigns(__CPROVER_object_whole(s))
__CPROVER_ensures(s[g_k] == math_inverse(sqrt(math_norm(A_val[g_d]))))
{
  const V e_k = math_inverse(sqrt(math_norm(A_val[g_d])));
  const int bprm = 0;
/*@CUT:body@*/
}
void h_f_scale_diagonal(void) { size_t n; ptrdiff_t nnz; const ptrdiff_t *p, *c; const V *v; V *s; f_scale_diagonal(n, nnz, p, c, v, s); }
''',
    enforce='f_scale_diagonal', mode='inductive', timeout=300, assumptions=A_SC,
    not_decided=['that solving the scaled system and post-scaling solves the original system (follows from the entry formula; real-number algebra)'],
)

scaled_value = Unit(
    name='adapt_scaled_matrix_value', props=['C17', 'C10'],
    functions=['adapter::scaled_matrix<Matrix,Scale>::row_iterator::value()'],
    desc='the scaled matrix view returns s_i * a_ij * s_j for the entry the base iterator points at',
    cuts={'body': Cut(SRC, r'value_type value\(\) const\s*(?=\{)',
                      rules=[Rule(r'static_cast<const Base\*>\(this\)->value\(\)', 'base_value', None, why='base-class call -> value of the base iterator', early=True),
                             Rule(r'this->col\(\)', 'base_col', None, why='base-class call'),
                             Rule(r'return (?P<e>[^;]+);', r'return UFE(\g<e>);', 1, why='marks the expression for R-arith')],
                      uf=[UF(r'UFE\((?P<e>[^;]+)\);', 1)])},
    template=HDR + r'''
#define UFE(e) (e)
V f_scaled_value(V si, const V *s, size_t n, V base_value, size_t base_col)
__CPROVER_requires(n <= NMAX && base_col < n && __CPROVER_is_fresh(s, n * sizeof(V)))
__CPROVER_assigns()
__CPROVER_ensures(__CPROVER_return_value == UF_MUL(UF_MUL(si, base_value), s[base_col]))
{
/*@CUT:body@*/
}
void h_f_scaled_value(void) { V si, bv; const V *s; size_t n, c; f_scaled_value(si, s, n, bv, c); }
''',
    enforce='f_scaled_value', mode='loopfree', timeout=120, assumptions=A_SC[:1],
)
UNITS = [scale_diagonal, scaled_value]
