"""C16: direct kernels -- reorder::cuthill_mckee<reverse>::get and solver::skyline_lu
(constructor, factorize, operator()).  Bounded units (unwound): the contract is enforced for
ALL inputs up to the stated size (pattern fully symbolic).  Never counted as proved."""
from cxc.extract import Cut, Rule, UF, IdxRule
from cxc.unit import Unit
from _common import BOUNDED_PRELUDE
from _common import member_rules
from _direct_common import (CM_SRC, SKY_SRC, DIRECT_PRELUDE, SKYLINE_PRELUDE, SKY_FIELDS, SUB_ASSIGN,
                            row_iter_rules, vector_rules)

A_DIRECT = [
    'A-bound: nothing is claimed beyond the stated size bound',
    'A-std: std::vector<T> v(n[,x]) / std::fill / std::max are prelude stubs (constant-capacity allocation, element loop); vector storage is value-initialised as the C++ standard requires',
    'A-new: allocation never fails; storage beyond the logical length of a vector has nondeterministic content',
    'A-omp: OpenMP pragmas dropped; loops verified sequentially',
    'A-iter: backend::row_begin(A,i) / row_iterator on backend::crs is the index loop A.ptr[i]..A.ptr[i+1] over A.col/A.val (builtin.hpp:283-320)',
    'A-inst: Matrix = backend::crs<V, ptrdiff_t, ptrdiff_t>',
]

NOT_DECIDED_C16 = [
    'skyline_lu: the factors multiply back to A / the solve is exact or backward stable (needs field arithmetic: division; FP re-computation is out of reach for CBMC)',
    'detail::inverse (pivoted small-matrix inverse): floating point, not attempted',
    'detail::QR (A = QR, orthonormal Q, least squares / minimum norm solve): floating point, not attempted',
    'static_matrix algebra identities, solver/eigen.hpp: operator-overloaded class code outside the C view',
]


def wit(*names):
    out = []
    for n in names:
        out += ['w_%s_nrows' % n, 'w_%s_ncols' % n, 'w_%s_ptr' % n, 'w_%s_col' % n, 'w_%s_val' % n]
    return out


# ------------------------------------------------------------------ cuthill_mckee<reverse>::get
def cm_cut(perm_len='perm_n'):
    return Cut(
        CM_SRC, r'template <class Matrix, class Vector>\s*static void get\(const Matrix &A, Vector &perm\)\s*(?=\{)',
        rules=row_iter_rules(2, 1, 0) + vector_rules(2, 3) + [
            Rule(r'\breverse\b', 'CM_REVERSE', '+', why='template parameter <bool reverse> bound by -DCM_REVERSE'),
            Rule(r'std_fill\((\w+)\.begin\(\), \1\.end\(\), ', r'STD_FILL_ALL(\1, ', 1, why='R-vector std::fill over the whole vector'),
            IdxRule(r'A\.ptr', 'A.nrows + 1', '+'),
            IdxRule(r'A\.col', 'A.ptr[A.nrows]', '+'),
            IdxRule(r'(degree|levelSet|nextSameDegree)', r'\1_n', '+'),
            IdxRule(r'(firstWithDegree|nFirstWithDegree)', r'\1_n', '+'),
            IdxRule(r'perm', perm_len, '+'),
        ])


CM_TEMPLATE = '#define MODEL_INT32 1\n' + BOUNDED_PRELUDE + DIRECT_PRELUDE + r'''
WITNESS_CRS(A)
/* capacities of the std::vector locals of cuthill_mckee::get (exceeding one sets g_cap_exceeded) */
#define CAP_OF_degree CAP_N
#define CAP_OF_levelSet CAP_N
#define CAP_OF_nextSameDegree CAP_N
#define CAP_OF_firstWithDegree (ZMAX + 2)
#define CAP_OF_nFirstWithDegree (ZMAX + 2)
/* contract (enforced by the harness below):
 *   requires crs_wf(A) && A square && n >= 1 && perm has n cells (any content)
 *   assigns  perm[0..n)
 *   ensures  perm is a permutation of 0..n-1 (all values in range, no value twice);
 *            no exception; A not modified; every subscript within the logical length    */
void f_cuthill_mckee(const crs *A_p, perm_t *perm, size_t perm_n)
{
#define A (*A_p)
/*@CUT:body@*/
#undef A
}
void h_cuthill_mckee(void)
{
  crs *A = crs_input();
  REQUIRES(crs_wf(A, NMAX, NMAX, ZMAX) && A->nrows >= 1 && A->nrows == A->ncols);
  MIRROR_CRS(A, A);
  crs_snap s; crs_snapshot(A, &s);
  perm_t *perm = (perm_t *)malloc(sizeof(perm_t) * CAP_N);   /* caller's vector: n cells, any content */
  f_cuthill_mckee(A, perm, A->nrows);
  ENSURES(!g_cap_exceeded, "bound artefact: allocation within verification capacity");
  ENSURES(!g_thrown, "cuthill_mckee: no exception on a valid matrix (internal consistency precondition holds)");
  ENSURES(perm_in_range(perm, A->nrows), "cuthill_mckee: every perm[i] is in 0..n-1 (every cell written)");
  ENSURES(perm_injective(perm, A->nrows), "cuthill_mckee: no value occurs twice in perm (perm is a permutation of 0..n-1)");
  ENSURES(crs_unchanged(A, &s), "frame: the input matrix is not modified");
  CANARY("harness.end");
}
'''


# per-loop unwinding limits (keyed on the loop keyword + induction variable; a loop that matches
# nothing keeps the global --unwind; unwinding assertions are on for every loop).
#   main loop: every iteration places >= 1 node -> <= n-1 iterations; degree <= nnz;
#   a same-degree chain holds distinct nodes > 0 -> <= n-1; a row has <= nnz entries
CM_UNWINDSET = [
    (r'for \(ptrdiff_t next\b', 'NMAX'),
    (r'for\(ptrdiff_t soughtDegree\b', 'ZMAX+2'),
    (r'while \(node\b', 'NMAX+1'),
    (r'for\(ptrdiff_t a = A\.ptr', 'ZMAX+1'),
    (r'for\(ptrdiff_t i = 0;', 'max(NMAX+1, ZMAX+2)'),
]


def mk_cm(rev):
    u = Unit(
        name='cuthill_mckee_%s' % ('rev' if rev else 'fwd'), props=['C16', 'C10'],
        functions=['reorder::cuthill_mckee<%s>::get(const Matrix&, Vector&)' % ('true' if rev else 'false')],
        desc='perm is a permutation of 0..n-1 for every square CRS pattern with n >= 1 (disconnected, isolated nodes, '
             'structurally non-symmetric, with/without diagonal, duplicates, unsorted); no exception; index safety',
        cuts={'body': cm_cut()},
        template=CM_TEMPLATE, entry='h_cuthill_mckee', mode='unwound', unwind='max(ZMAX,NMAX)+3', model='none',
        defines={'CM_REVERSE': 1 if rev else 0},
        variants=[{'NMAX': 3, 'ZMAX': 4}],
        thorough_variants=[{'NMAX': 4, 'ZMAX': 5}],
        bound_text='all square matrices with 1 <= n <= 3 and nnz <= 4 (thorough: n <= 4, nnz <= 5; measured: ~70 s / ~4 min of SAT time, '
                   'n <= 4 with nnz <= 8 is out of reach), pattern fully symbolic',
        assumptions=A_DIRECT, replay='direct', timeout=1500, witness=wit('A'),
        not_decided=['bandwidth / profile reduction quality of the ordering (not part of the property)'],
    )
    u.unwindset = CM_UNWINDSET
    return u


cm_fwd = mk_cm(False)
cm_rev = mk_cm(True)

# ------------------------------------------------------------------ solver::skyline_lu
A_SKY = A_DIRECT + [
    'A-uf: value operations (+ - * inverse is_zero zero) are uninterpreted functions of their operands; what is proved holds for every value type (double, complex, static_matrix blocks)',
    'A-inst-sky: skyline_lu<V, ordering> with int indices as in the source; members are a C struct in declaration order',
    'A-uf16: value tokens are 16 bit wide; tokens are only compared with == and fed to uninterpreted functions, and the unwound program has fewer than 65536 value terms, so by the EUF small-model property no counterexample is lost',
]

SKY_SELF = member_rules(fields=SKY_FIELDS)
# value-typed assignments whose right-hand side goes to UF form (keyed on the lvalue only)
SKY_UF = UF(r'^\s*(?:value_type |rhs_type )?(?:sum|self->[UDLy]\[[^;=]*\]) = (?P<e>[^;]+);', '+')


def sky_idx(extra=()):
    return [IdxRule(r'self->perm', 'self->perm_n', None), IdxRule(r'self->ptr', 'self->ptr_n', '+')] + list(extra) + [
        IdxRule(r'self->(L|U|D|y)', r'self->\1_n', '+')]


FACTORIZE_CUT = Cut(SKY_SRC, r'void factorize\(\)\s*(?=\{)',
                    rules=SKY_SELF + [SUB_ASSIGN] + sky_idx(), uf=[SKY_UF])
SOLVE_CUT = Cut(SKY_SRC, r'template <class Vec1, class Vec2>\s*void operator\(\)\(const Vec1 &rhs, Vec2 &x\) const\s*(?=\{)',
                rules=SKY_SELF + [SUB_ASSIGN] + sky_idx([IdxRule(r'rhs', 'rhs_n', '+'), IdxRule(r'x', 'x_n', '+')]),
                uf=[SKY_UF])
CTOR_CUT = Cut(
    SKY_SRC,
    r'template <class Matrix>\s*skyline_lu\(const Matrix &A, const params& = params\(\)\)\s*'
    r': n\( backend::rows\(A\) \), perm\(n\), ptr\(n \+ 1, 0\), D\(n, math::zero<value_type>\(\)\), y\(n\)\s*(?=\{)',
    rules=SKY_SELF + row_iter_rules(2, 2, 2) + vector_rules(1, 0) + [
        Rule(r'ordering::get\(A, self->perm\);', 'f_ordering_get(&A, self->perm, self->perm_n);', 1,
             why='callee ordering::get -> its contract (see f_ordering_get in the template)'),
        Rule(r'self->(L|U)\.resize\(', r'SKY_RESIZE(self, \1, ', 2, why='R-vector resize'),
        Rule(r'self->ptr\.back\(\)', 'self->ptr[self->ptr_n - 1]', 2, why='R-vector back()'),
        Rule(r'^(\s*)factorize\(\);', r'\1SKY_HOOK_FILLED(self, invperm); f_sky_factorize(self);', 1,
             why='ghost hook (snapshot of the filled profile) + member call'),
        IdxRule(r'A\.ptr', 'A.nrows + 1', '+'),
        IdxRule(r'A\.col|A\.val', 'A.ptr[A.nrows]', '+'),
    ] + sky_idx([IdxRule(r'invperm', 'invperm_n', '+')]))

SKY_HEAD = '#define MODEL_UF 1\n#define CXC_UF_T unsigned short\n#define PERM_T int\n#define CXC_IDX_STOP 1\n' + BOUNDED_PRELUDE + DIRECT_PRELUDE + SKYLINE_PRELUDE

SKY_FUNCS = r'''
/* void skyline_lu::factorize()  (private member) */
void f_sky_factorize(skyline *self)
{
/*@CUT:factorize@*/
}
'''

SKY_SOLVE_FUNC = r'''
/* template <class Vec1, class Vec2> void skyline_lu::operator()(const Vec1 &rhs, Vec2 &x) const */
void f_sky_solve(skyline *self, const V *rhs, size_t rhs_n, V *x, size_t x_n)
{
/*@CUT:solve@*/
}
'''

# closed forms for n <= 2 (Crout, unit upper triangle, D stores the inverse pivots), derived from
# the definition A = L*U -- they pin operands and their order for every value type
SPEC_SMALL = r'''
static _Bool post_factorize_small(const skyline *s0, const skyline *s)
{
  if (s0->n == 1) return s->D[0] == math_inverse(s0->D[0]);
  if (s0->n == 2) {
    V d0 = math_inverse(s0->D[0]);
    if (s0->ptr[2] == 0) return s->D[0] == d0 && s->D[1] == math_inverse(s0->D[1]);
    V u = UF_MUL(d0, s0->U[0]);
    return s->D[0] == d0 && s->U[0] == u && s->L[0] == s0->L[0]
        && s->D[1] == math_inverse(UF_SUB(s0->D[1], UF_MUL(s0->L[0], u)));
  }
  return 1;
}
static _Bool thrown_small(const skyline *s0)
{
  if (math_is_zero(s0->D[0])) return 1;
  if (s0->n == 2) {
    if (s0->ptr[2] == 0) return math_is_zero(s0->D[1]) ? 1 : 0;   /* ?: normalises the UF's _Bool byte */
    return math_is_zero(UF_SUB(s0->D[1], UF_MUL(s0->L[0], UF_MUL(math_inverse(s0->D[0]), s0->U[0])))) ? 1 : 0;
  }
  return 0;
}
static _Bool post_solve_small(const skyline *s, const V *rhs, const V *x)
{
  if (s->n == 1) return x[s->perm[0]] == UF_MUL(s->D[0], rhs[s->perm[0]]);
  if (s->n == 2) {
    V y0 = UF_MUL(s->D[0], rhs[s->perm[0]]);
    if (s->ptr[2] == 0) return x[s->perm[0]] == y0 && x[s->perm[1]] == UF_MUL(s->D[1], rhs[s->perm[1]]);
    V y1 = UF_MUL(s->D[1], UF_SUB(rhs[s->perm[1]], UF_MUL(s->L[0], y0)));
    return x[s->perm[1]] == y1 && x[s->perm[0]] == UF_SUB(y0, UF_MUL(s->U[0], y1));
  }
  return 1;
}
'''

sky_factorize = Unit(
    name='skyline_lu_factorize', props=['C16', 'C10'],
    functions=['solver::skyline_lu<V,ordering>::factorize()'],
    desc='in-place Crout factorisation of any well-formed skyline profile: every L/U/D/ptr subscript within the vector, '
         'structure (n, perm, ptr, lengths) untouched, zero first pivot => exception; n <= 2: closed-form factors and exception condition',
    cuts={'factorize': FACTORIZE_CUT},
    template=SKY_HEAD + SKY_FUNCS + SPEC_SMALL + r'''
/* contract (enforced by the harness):
 *   requires sky_wf(self)  (any profile, any values)
 *   assigns  L, U, D
 *   ensures  every subscript within the logical vector length; n, perm, ptr, lengths unchanged;
 *            is_zero(old D[0]) => thrown (and nothing written); n <= 2: Crout closed forms      */
void h_sky_factorize(void)
{
  skyline s;
  REQUIRES(sky_wf(&s));
  MIRROR_SKY(&s);
  skyline s0 = s;
  f_sky_factorize(&s);
  ENSURES(!g_cap_exceeded, "bound artefact: allocation within verification capacity");
  ENSURES(sky_same_structure(&s, &s0), "factorize: n, perm, ptr and the vector lengths are not modified");
  ENSURES(!math_is_zero(s0.D[0]) || g_thrown, "factorize: zero first pivot D[0] is reported by an exception");
  ENSURES(!math_is_zero(s0.D[0]) || sky_same_factors(&s, &s0), "factorize: nothing is written before the zero-pivot exception");
  ENSURES(s0.n > 2 || (g_thrown != 0) == (thrown_small(&s0) ? 1 : 0), "factorize (n <= 2): exception iff a pivot of the Crout recurrence is zero");
  ENSURES(g_thrown || post_factorize_small(&s0, &s), "factorize (n <= 2): D = inverse pivots, U = D^-1-scaled column, L unchanged (Crout closed form)");
  CANARY("harness.end");
}
''',
    entry='h_sky_factorize', mode='unwound', unwind='max(NMAX+3, NMAX*(NMAX-1)//2+3)', model='uf',
    variants=[{'NMAX': 3, 'ZMAX': 1}], thorough_variants=[{'NMAX': 4, 'ZMAX': 1}],
    bound_text='all skyline objects with 1 <= n <= 3 (thorough: 4): every permutation, every profile (row/column i holds 0..i cells), values symbolic (UF)',
    assumptions=A_SKY, replay='direct', timeout=1500, witness=['w_n', 'w_perm', 'w_ptr'],
    not_decided=NOT_DECIDED_C16 + ['n >= 3: which value operations are applied (only subscripts, structure and the exception path are decided)'],
)

sky_solve = Unit(
    name='skyline_lu_solve', props=['C16', 'C10'],
    functions=['solver::skyline_lu<V,ordering>::operator()(const Vec1&, Vec2&) const'],
    desc='forward/backward substitution on any well-formed skyline object: every subscript within its vector, every x cell written, '
         'x does not depend on the previous content of the workspace y or of x, factors/structure/rhs untouched; n <= 2: closed-form result',
    cuts={'solve': SOLVE_CUT},
    template=SKY_HEAD + SKY_SOLVE_FUNC + SPEC_SMALL + r'''
/* contract (enforced by the harness):
 *   requires sky_wf(self), rhs and x have n cells (any content), y any content
 *   assigns  x[0..n), self->y
 *   ensures  subscripts in range; x is a function of (L, U, D, ptr, perm, rhs) only: two calls that differ
 *            in the old content of y and x give the same x in every cell; no exception;
 *            L, U, D, ptr, perm, rhs not modified; n <= 2: closed form                              */
void h_sky_solve(void)
{
  skyline s1;
  REQUIRES(sky_wf(&s1));
  MIRROR_SKY(&s1);
  skyline s0 = s1, s2 = s1;
  V rhs[CAP_N], rhs0[CAP_N], x1[CAP_N], x2[CAP_N], y2[CAP_N];
  for (size_t i = 0; i < CAP_N; ++i) { rhs0[i] = rhs[i]; s2.y[i] = y2[i]; }   /* second call: different old y, different old x */
  size_t n = (size_t)s1.n;
  f_sky_solve(&s1, rhs, n, x1, n);
  f_sky_solve(&s2, rhs, n, x2, n);
  ENSURES(!g_thrown, "solve: no exception");
  ENSURES(sky_same_structure(&s1, &s0) && sky_same_factors(&s1, &s0), "solve: const method, n/perm/ptr/L/U/D are not modified");
  _Bool same = 1, frame = 1;
  for (size_t i = 0; i < CAP_N; ++i) if (i < n) { if (x1[i] != x2[i]) same = 0; if (rhs[i] != rhs0[i]) frame = 0; }
  ENSURES(same, "solve: x is fully written and independent of the previous content of the workspace y and of x (C10/C15)");
  ENSURES(frame, "frame: rhs is not modified");
  ENSURES(post_solve_small(&s0, rhs0, x1), "solve (n <= 2): x = P^T U^-1 L^-1 P rhs in closed form (operands and order)");
  CANARY("harness.end");
}
''',
    entry='h_sky_solve', mode='unwound', unwind='max(NMAX+3, NMAX*(NMAX-1)//2+3)', model='uf',
    variants=[{'NMAX': 3, 'ZMAX': 1}], thorough_variants=[{'NMAX': 4, 'ZMAX': 1}],
    bound_text='all skyline objects with 1 <= n <= 3 (thorough: 4): every permutation, every profile, values symbolic (UF)',
    assumptions=A_SKY, replay='direct', timeout=1500, witness=['w_n', 'w_perm', 'w_ptr'],
    not_decided=NOT_DECIDED_C16 + ['n >= 3: which value operations are applied (only subscripts, frame and independence of the workspace are decided)'],
)

SPEC_CTOR = r"""
WITNESS_CRS(A)
size_t w_k;                                /* ghost entry of A: universally quantified (nondeterministic) */
size_t w_r, w_c;                           /* ghost cell of the reordered matrix: universally quantified (nondeterministic) */
_Bool w_A_nz[CAP_NNZ];                     /* witness: which stored values are non-zero (is_zero is uninterpreted) */
/* ghost snapshot taken where the constructor calls factorize(): the filled, not yet factorised profile */
skyline g_s0; int g_invperm[CAP_N]; int g_hook_hit;
#define SKY_HOOK_FILLED(self, invperm) do { g_s0 = *(self); g_hook_hit = 1; \
  for (size_t i_ = 0; i_ < CAP_N; ++i_) g_invperm[i_] = (invperm)[i_]; } while (0)
#define CAP_OF_invperm CAP_N

/* callee contract instead of the body (A-callee): ordering::get(A, perm) leaves ANY permutation of
 * 0..n-1 in perm -- exactly what units cuthill_mckee_fwd/_rev enforce on the real bodies            */
static void f_ordering_get(const crs *A_p, int *perm, size_t perm_n)
{
  (void)A_p;
  for (size_t i = 0; i < CAP_N; ++i) if (i < perm_n) { int v_; perm[i] = v_; }
  __CPROVER_assume(perm_in_range(perm, perm_n) && perm_injective(perm, perm_n));
  for (size_t i = 0; i < CAP_N; ++i) w_perm[i] = perm[i];
}

/* template <class Matrix> skyline_lu(const Matrix &A, const params& = params()) */
void f_sky_ctor(skyline *self, const crs *A_p)
{
#define A (*A_p)
  /* member initialiser list (part of the anchored signature):
   *   n( backend::rows(A) ), perm(n), ptr(n + 1, 0), D(n, math::zero<value_type>()), y(n); L, U empty */
  self->n = (int)rows(A);
  self->perm_n = (size_t)self->n;    for (size_t i = 0; i < CAP_N; ++i) if (i < self->perm_n) self->perm[i] = 0;
  self->ptr_n = (size_t)self->n + 1; for (size_t i = 0; i < CAP_N + 1; ++i) if (i < self->ptr_n) self->ptr[i] = 0;
  self->D_n = (size_t)self->n;       for (size_t i = 0; i < CAP_N; ++i) if (i < self->D_n) self->D[i] = MATH_zero(value_type);
  self->y_n = (size_t)self->n;       /* y(n): content left nondeterministic (covers every prior workspace content) */
  self->L_n = 0; self->U_n = 0;
/*@CUT:ctor@*/
#undef A
}

/* no (row, column) pair is stored twice */
static _Bool crs_no_dup(const crs *A)
{
  for (size_t i = 0; i < NMAX; ++i) if (i < A->nrows)
    for (size_t j = 0; j < CAP_NNZ; ++j) for (size_t k = 0; k < j; ++k)
      if ((ptrdiff_t)k >= A->ptr[i] && (ptrdiff_t)j < A->ptr[i + 1]) { if (A->col[j] == A->col[k]) return 0; }
  return 1;
}
/* the stored non-zero entry (perm[r], perm[c]) of A, or zero: entry (r,c) of the reordered matrix */
static V expect_at(const crs *A, const skyline *s, size_t r, size_t c, _Bool *found)
{
  size_t i = (size_t)s->perm[r], j = (size_t)s->perm[c];
  V v = MATH_zero(value_type);
  *found = 0;
  for (size_t k = 0; k < CAP_NNZ; ++k)
    if ((ptrdiff_t)k >= A->ptr[i] && (ptrdiff_t)k < A->ptr[i + 1] && (size_t)A->col[k] == j && !math_is_zero(A->val[k])) { v = A->val[k]; *found = 1; }
  return v;
}
/* the profile holds the reordered matrix at the cells the solve phase reads:
 *   (r,c) r<c : U[ptr[c+1] + r - c]   (operator(): i = j - ptr[j+1] + k)
 *   (r,c) r>c : L[ptr[r+1] + c - r]   (operator(): j = i - ptr[i+1] + k)
 *   (r,r)     : D[r]
 * and no non-zero entry of A lies outside the profile                                         */
/* callee contract instead of the body (A-callee2): factorize() requires the representation invariant
 * (checked here as a precondition instance), assigns L/U/D and may throw; unit skyline_lu_factorize
 * enforces that contract on the real body for every well-formed object                             */
int g_fact_pre_ok = 1;
void f_sky_factorize(skyline *self)
{
  if (!sky_wf(self)) g_fact_pre_ok = 0;
  for (size_t k = 0; k < CAP_P; ++k) { V a_, b_; self->L[k] = a_; self->U[k] = b_; }
  for (size_t i = 0; i < CAP_N; ++i) { V d_; self->D[i] = d_; }
  int t_; g_thrown = t_;
}
/* ghost entry k (universally quantified): the stored non-zero A(i,j) = val[k] sits at the cell the solve
 * phase reads:  i' < j' : U[ptr[j'+1] + i' - j'] (operator(): i = j - ptr[j+1] + k),
 *               i' > j' : L[ptr[i'+1] + j' - i'] (operator(): j = i - ptr[i+1] + k),  i' == j' : D[i'],
 * with i' = position of i in perm, and that cell is inside the profile of its column / row        */
static int pos_in_perm(const skyline *s, size_t v)
{
  int p = -1;
  for (size_t i = 0; i < CAP_N; ++i) if (i < (size_t)s->n && (size_t)s->perm[i] == v) p = (int)i;
  return p;
}
static _Bool post_entry_at(const crs *A, const skyline *s, size_t k)
{
  if (!(k < (size_t)A->ptr[A->nrows])) return 1;
  if (math_is_zero(A->val[k])) return 1;
  size_t i = 0;
  for (size_t q = 0; q < NMAX; ++q) if (q < A->nrows && (ptrdiff_t)k >= A->ptr[q + 1]) i = q + 1;   /* row of entry k */
  int r = pos_in_perm(s, i), c = pos_in_perm(s, (size_t)A->col[k]);
  if (r < 0 || c < 0) return 0;
  if (r == c) return s->D[r] == A->val[k];
  if (r < c) { int h = s->ptr[c + 1] - s->ptr[c], d = c - r; return d <= h && s->U[s->ptr[c + 1] - d] == A->val[k]; }
  { int h = s->ptr[r + 1] - s->ptr[r], d = r - c; return d <= h && s->L[s->ptr[r + 1] - d] == A->val[k]; }
}
static _Bool post_profile_at(const crs *A, const skyline *s, size_t r, size_t c)
{
  _Bool found;
  V e = expect_at(A, s, r, c, &found);
  if (r == c) return s->D[r] == e;
  if (r < c) {
    int h = s->ptr[c + 1] - s->ptr[c], d = (int)(c - r);
    return d <= h ? s->U[s->ptr[c + 1] - d] == e : !found;
  } else {
    int h = s->ptr[r + 1] - s->ptr[r], d = (int)(r - c);
    return d <= h ? s->L[s->ptr[r + 1] - d] == e : !found;
  }
}
static _Bool invperm_inverts(const skyline *s, const int *invperm)
{
  for (size_t i = 0; i < CAP_N; ++i) if (i < (size_t)s->n) { if (invperm[s->perm[i]] != (int)i) return 0; }
  return 1;
}
"""

sky_ctor = Unit(
    name='skyline_lu_ctor', props=['C16', 'C10'],
    functions=['solver::skyline_lu<V,ordering>::skyline_lu(const Matrix&, const params&)'],
    desc='constructor up to the call of factorize(): invperm o perm = id; ptr monotone from 0 with row/column i holding <= i cells; '
         'every non-zero (i,j) of A sits in the profile at the cell the solve phase reads; the object handed to factorize() satisfies its '
         'precondition; every subscript within its vector',
    cuts={'ctor': CTOR_CUT},
    template=SKY_HEAD + SPEC_CTOR + r"""
/* contract (enforced by the harness):
 *   requires crs_wf(A), A square, n >= 1, no (i,j) stored twice; values symbolic (UF)
 *   ensures  (at the call of factorize) invperm o perm = id, sky_wf, profile == P A P^T cell by cell;
 *            is_zero(D[0]) => thrown; factorize leaves the structure alone; A not modified          */
void h_sky_ctor(void)
{
  crs *A = crs_input();
  REQUIRES(crs_wf(A, NMAX, NMAX, ZMAX) && A->nrows >= 1 && A->nrows == A->ncols && crs_no_dup(A));
  MIRROR_CRS(A, A);
  for (size_t k = 0; k < CAP_NNZ; ++k) w_A_nz[k] = math_is_zero(A->val[k]) ? 0 : 1;
  crs_snap sn; crs_snapshot(A, &sn);
  size_t r_, c_, k_; REQUIRES(r_ < A->nrows && c_ < A->nrows && k_ < CAP_NNZ); w_r = r_; w_c = c_; w_k = k_;
  skyline s;
  f_sky_ctor(&s, A);
  ENSURES(!g_cap_exceeded, "bound artefact: allocation within verification capacity");
  ENSURES(g_hook_hit, "constructor reaches factorize() on every valid input");
  ENSURES(invperm_inverts(&g_s0, g_invperm), "constructor: invperm o perm == id");
  ENSURES(sky_wf(&g_s0), "constructor: ptr[0] == 0, ptr monotone, row/column i of the profile holds at most i cells, L/U have ptr[n] cells, perm is a permutation");
  ENSURES(!sky_wf(&g_s0) || post_entry_at(A, &g_s0, w_k), "constructor (for every stored entry k): a non-zero A(i,j) is stored at the profile cell the solve phase reads (U[ptr[j'+1]+i'-j'], L[ptr[i'+1]+j'-i'], D[i']) and that cell is inside the profile");
#ifdef CHECK_EMPTY_CELLS
  ENSURES(!sky_wf(&g_s0) || post_profile_at(A, &g_s0, w_r, w_c), "constructor (for every cell (r,c) of the reordered matrix): the cell holds A(perm[r],perm[c]) or zero; nothing non-zero outside the profile");
#endif
  ENSURES(g_fact_pre_ok, "constructor: the object handed to factorize() satisfies factorize's precondition (representation invariant)");
  ENSURES(crs_unchanged(A, &sn), "frame: the input matrix is not modified");
  CANARY("harness.end");
}
""",
    entry='h_sky_ctor', mode='unwound', unwind='max(ZMAX,NMAX)+3', model='uf',
    variants=[{'NMAX': 3, 'ZMAX': 3}], thorough_variants=[{'NMAX': 3, 'ZMAX': 4}, {'NMAX': 3, 'ZMAX': 3, 'CHECK_EMPTY_CELLS': 1}],
    bound_text='all square matrices with 1 <= n <= 3 and nnz <= 3 (thorough: nnz <= 4, and nnz <= 3 plus the empty-cell clause), no duplicate entries, '
               'pattern and values symbolic (UF), every permutation returned by the ordering',
    assumptions=A_SKY + [
        'A-callee: ordering::get(A, perm) is replaced by its contract "perm is a permutation of 0..n-1" (enforced on the real cuthill_mckee<false/true>::get by units cuthill_mckee_fwd/_rev); the constructor is therefore checked for EVERY permutation',
        'A-callee2: factorize() is replaced by its contract (requires the representation invariant sky_wf -- checked at the call --, assigns L/U/D, may throw); enforced on the real body by unit skyline_lu_factorize',
        'A-nodup: no (row, column) pair is stored twice in A (skyline_lu overwrites instead of summing duplicates; amgcl-generated matrices have none)',
    ],
    replay='direct', timeout=900, witness=wit('A') + ['w_A_nz', 'w_perm', 'w_r', 'w_c', 'w_k'],
    not_decided=NOT_DECIDED_C16 + [
        'quick tier: "every profile cell that is not hit by a non-zero of A holds zero" (clause CHECK_EMPTY_CELLS, ~100 s of SAT time at n<=3/nnz<=4) is only checked in the thorough tier',
        'larger patterns (n = 3 with 5..9 entries, n >= 4): measured out of reach for the SAT back end (> 5 min)',
        'zero D[0] => exception and everything else factorize() does: decided by unit skyline_lu_factorize for every well-formed object (the constructor unit checks that it hands such an object over)'],
)

# per-loop unwinding limits, keyed on the loop keyword + induction variable (see CM_UNWINDSET):
#   factorize: k < n-1; i runs inside 0..k (<= n-1 iterations); j inside 0..i; a profile row has <= n-1 cells
#   solve: i, j over 0..n-1; k over one profile row
SKY_UNWINDSET = [
    (r'for\(int k = 0;', 'NMAX'),
    (r'for\(int i = iBeginCol;', 'NMAX'),
    (r'for\(int j = jBeginMult;', 'NMAX'),
    (r'for\(int [jk] = self->ptr\[', 'NMAX'),
    (r'for\(int i = 0;', 'NMAX+1'),
    (r'for\(int j = self->n - 1;', 'NMAX+1'),
]
sky_factorize.unwindset = SKY_UNWINDSET
sky_solve.unwindset = SKY_UNWINDSET
sky_ctor.unwindset = SKY_UNWINDSET + [(r'for\(ptrdiff_t a = A\.ptr', 'ZMAX+1'), (r'for\(int i = 1;', 'NMAX+1')]

UNITS = [cm_fwd, cm_rev, sky_ctor, sky_factorize, sky_solve]
