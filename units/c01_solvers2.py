"""Iterative solvers, part 2 (amgcl/solver/{bicgstab,gmres,fgmres,lgmres,idrs,bicgstabl}.hpp,
precond_side.hpp): operator()(A, P, rhs, x) bodies under typestate + ghost contracts
(prelude/orch.h + prelude/orch_solvers.h).  Inductive: no bound on sizes / iterations /
restart lengths.  Serves C01 (truthful residual, budget), C15 (workspace enters undefined,
zero rhs, converged guess, rhs/A never written), C10 (index safety of the scalar work arrays
against the constructor's allocation sizes)."""
from cxc.extract import Cut, Rule, UF, Loop, UFArgs, Cmp
from cxc.unit import Unit
from c01_solvers import ORCH, A_ORCH, DROP_IO, SOLVER_RULES, SOLVER_UF, SIG4

# every backend primitive is replaced by its contract in prelude/orch_solvers.h (grouped ghosts: struct gs)
ORCH2 = ['bs_residual', 'bs_spmv', 'bs_axpby', 'bs_axpbypcz', 'bs_vmul', 'bs_copy', 'bs_clear', 'bs_inner_product',
         'bs_norm', 'bs_papply', 'bs_pspmv']

A_SOLV = A_ORCH + [
    'A-pspmv: preconditioner::spmv is used through its contract (orch_solvers.h PSPMV_CONTRACT); unit precond_side_spmv enforces the same contract text on the real body',
    'A-throw: precondition(c, msg) is modelled as: set g_thrown, leave the function (the C++ throw); the contract says what holds then',
]

# ---------------------------------------------------------------------------- rules shared by the units of this file
SIDE_RULES = [
    Rule(r'^\s*namespace side = preconditioner::side;\n', '', 1, why='namespace alias dropped'),
    Rule(r'\bside::(\w+)', r'side_\1', '+', why='enum preconditioner::side::type -> C enum'),
]
PSPMV_RULE = Rule(r'\bpreconditioner::spmv\(', 'PSPMV(', '+', why='free function call -> C call (contract bk_pspmv)')
# scalar declarations without a conditional expression; then-branch of  c ? a : b
UF_DECL = UF(r'\b(?:scalar_type|coef_type)\s+\w+\s*=\s*(?P<e>[^;?]+);', '+')
UF_TERN = UF(r'\?\s*(?P<e>[^;:?]+?)\s*:', None)
# plain assignments whose right-hand side contains a binary arithmetic operator
UF_ASSIGN = UF(r'^\s*\w+\s*=\s*(?P<e>[^;=?]*\s[-+*/]\s[^;=?]*);', None)

# ---------------------------------------------------------------------------- precond_side.hpp::spmv
PSPMV_T = r"""
#include "orch_solvers.h"
int g_thrown;
void f_pspmv(side_type pside, const precond *P_p, const mat *A_p, const vec *F_p, vec *X_p, vec *T_p)
__CPROVER_requires(__CPROVER_is_fresh(P_p, sizeof(precond)) && __CPROVER_is_fresh(A_p, sizeof(mat)))
__CPROVER_requires(__CPROVER_is_fresh(F_p, sizeof(vec)) && __CPROVER_is_fresh(X_p, sizeof(vec)) && __CPROVER_is_fresh(T_p, sizeof(vec)))
__CPROVER_requires(F_p->id == 1 && X_p->id == 2 && T_p->id == 3)
PSPMV_CONTRACT(pside, P_p, A_p, F_p, X_p, T_p)
{
  typedef V scalar;
#define P (*P_p)
#define A (*A_p)
#define F (*F_p)
#define X (*X_p)
#define T (*T_p)
/*@CUT:body@*/
#undef P
#undef A
#undef F
#undef X
#undef T
}
void h_f_pspmv(void) { side_type s; const precond *P; const mat *A; const vec *F; vec *X; vec *T; f_pspmv(s, P, A, F, X, T); }
"""
pspmv = Unit(
    name='precond_side_spmv', props=['C01', 'C15', 'C10'],
    functions=['preconditioner::spmv(pside, P, A, F, X, T)'],
    desc='left: T = A F, X = P T; right: T = P F, X = A T -- one P.apply, one spmv(one, A, ., zero, .), F only read; '
         'this is the contract the solver units use at their preconditioner::spmv call sites',
    cuts={'body': Cut('amgcl/solver/precond_side.hpp',
                      r'inline void spmv\(side::type pside, const Precond &P, const Matrix &A,\s*const VecF &F, VecX &X, VecT &T\)\s*(?=\{)',
                      rules=[Rule(r'^\s*typedef [^;]*;\n', '', 2, why='value/scalar typedefs are given by the template'),
                             Rule(r'\bside::(\w+)', r'side_\1', '+', why='enum -> C enum'),
                             Rule(r'\bP\.apply\(', 'P_APPLY(P, ', '+', why='member call -> C call')],
                      uf=[UF(r'\bconst scalar\s+\w+\s*=\s*(?P<e>[^;]+);', '+')])},
    template=PSPMV_T, enforce='f_pspmv', replace=ORCH2, mode='loopfree', obj_bits=12,
    assumptions=A_ORCH,
)

# ---------------------------------------------------------------------------- BiCGStab
BICG_T = r"""
#include "orch_solvers.h"
int g_thrown;
typedef struct bicg_params { side_type pside; size_t maxiter; V tol; V abstol; _Bool check_after; _Bool ns_search; _Bool verbose; } bicg_params;
typedef struct bicg { bicg_params prm; size_t n; vec *r, *p, *v, *s, *t, *rh, *T; } bicg;
#define EPS1 EPS(1)
#define EARLY(self) (UF_LESS(g_norm_in0, EPS1) && !(self)->prm.ns_search)
#define NRHS(self) (UF_LESS(g_norm_in0, EPS1) ? MATH_identity(V) : g_norm_in0)
#define EPSV(self) UF_MAX(UF_MUL(NRHS(self), (self)->prm.tol), (self)->prm.abstol)
#define RET __CPROVER_return_value
#define LEFT(self) ((self)->prm.pside == side_left)
#define OLD(e) __CPROVER_old(e)

result f_bicgstab(const bicg *self, const mat *A_p, const precond *P_p, const vec *rhs_p, vec *x_p)
__CPROVER_requires(__CPROVER_is_fresh(self, sizeof(*self)) && __CPROVER_is_fresh(A_p, sizeof(mat)) && __CPROVER_is_fresh(P_p, sizeof(precond)))
__CPROVER_requires(__CPROVER_is_fresh(rhs_p, sizeof(vec)) && __CPROVER_is_fresh(x_p, sizeof(vec)))
__CPROVER_requires(__CPROVER_is_fresh(self->r, sizeof(vec)) && __CPROVER_is_fresh(self->p, sizeof(vec)) && __CPROVER_is_fresh(self->v, sizeof(vec)))
__CPROVER_requires(__CPROVER_is_fresh(self->s, sizeof(vec)) && __CPROVER_is_fresh(self->t, sizeof(vec)) && __CPROVER_is_fresh(self->rh, sizeof(vec)))
__CPROVER_requires(__CPROVER_is_fresh(self->T, sizeof(vec)))
__CPROVER_requires(UF_AXIOMS && self->prm.maxiter <= MAXITER_BOUND && g_thrown == 0)
__CPROVER_requires(rhs_p->defined && rhs_p->readonly && x_p->defined && !x_p->readonly)
/* C15: the workspace holds whatever an earlier call (diverged, NaN, thrown) left there */
__CPROVER_requires(WS_ENTRY(self->r, 3) && WS_ENTRY(self->p, 4) && WS_ENTRY(self->v, 5) && WS_ENTRY(self->s, 6) && WS_ENTRY(self->t, 7) && WS_ENTRY(self->rh, 8) && WS_ENTRY(self->T, 9))
__CPROVER_requires(rhs_p->id == 1 && x_p->id == 2)
__CPROVER_requires(GS_ZERO)
#ifdef VARIANT_CHECK_AFTER
__CPROVER_requires(self->prm.check_after)
#else
__CPROVER_requires(!self->prm.check_after)
#endif
#ifdef VARIANT_CONVERGED_GUESS
/* C15: the initial guess already satisfies the tolerance (the test of the code is res > eps) */
__CPROVER_requires(!EARLY(self) && !UF_LESS(EPSV(self), g_norm_in1))
#endif
__CPROVER_assigns(*x_p, g_thrown, *self->r, *self->p, *self->v, *self->s, *self->t, *self->rh, *self->T)
__CPROVER_assigns(gs)
/* C01: iteration budget (also when a breakdown is thrown) */
__CPROVER_ensures(RET.iters <= self->prm.maxiter)
/* C15: zero right-hand side -> zero vector in zero iterations, residual = ||rhs|| */
__CPROVER_ensures(EARLY(self) ==> (!g_thrown && RET.iters == 0 && RET.resid == g_norm_in0
                                   && gs.clear.calls == 1 && gs.clear.id == x_p->id && gs.res.calls == 0))
/* C01: the number returned is (last norm evaluated) / ||rhs|| and that norm was taken of the vector the
 * last residual update wrote (s after the half step, r after the full step, r of the initial guess) in
 * its final state */
__CPROVER_ensures((!EARLY(self) && !g_thrown) ==> (RET.resid == UF_DIV(gs.norm.val, NRHS(self)) && gs.norm.id0 == rhs_p->id && gs.clear.calls == 0))
__CPROVER_ensures((!EARLY(self) && !g_thrown && RET.iters == 0) ==> (gs.norm.id == self->r->id && gs.norm.ver == self->r->version))
__CPROVER_ensures((!EARLY(self) && !g_thrown && RET.iters > 0) ==> (gs.norm.id == gs.apz.idz && gs.norm.ver == gs.apz.zver
                                   && ((gs.apz.idz == self->s->id && gs.apz.zver == self->s->version) || (gs.apz.idz == self->r->id && gs.apz.zver == self->r->version))))
/* C01: the carried residual starts as f - A x (left: P (f - A x)) of the initial guess */
__CPROVER_ensures(!EARLY(self) ==> (gs.res.calls == 1 && gs.res.idf == rhs_p->id && gs.res.idA == A_p->id && gs.res.idx == x_p->id && gs.res.xver == OLD(x_p->version)
                                   && gs.res.idr == (LEFT(self) ? self->rh->id : self->r->id)))
/* ... and every update of x is paired with one update of the carried residual (s: half step, r: full step) */
__CPROVER_ensures((!EARLY(self) && !g_thrown) ==> (x_p->version == OLD(x_p->version) + gs.ax.calls && self->s->version == OLD(self->s->version) + RET.iters))
/* (#axpbypcz = #x-updates + #p-updates; p is updated in every iteration but the first) and the vector whose norm is
 * reported was written after the last update of x */
__CPROVER_ensures((!EARLY(self) && !g_thrown && RET.iters > 0) ==> (gs.apz.calls + 1 == gs.ax.calls + RET.iters && gs.apz.at_ax == gs.ax.calls))
__CPROVER_ensures((!EARLY(self) && !g_thrown && RET.iters == 0) ==> (gs.apz.calls == 0 && gs.ax.calls == 0))
/* the x updates add alpha/omega times the search direction to 1 * x: left  x += a p | x += w s;
 * right x += a T, T = P p | x += w T, T = P s  (T as written by the preceding preconditioner::spmv) */
__CPROVER_ensures((!EARLY(self) && !g_thrown && RET.iters > 0) ==> (gs.ax.idy == x_p->id && gs.ax.b == MATH_identity(V)
                                   && (LEFT(self) ? (gs.ax.idx == (gs.apz.idz == self->s->id ? self->p->id : self->s->id))
                                                  : (gs.ax.idx == self->T->id && gs.ax.xver == gs.pspmv.Tver && gs.pspmv.idT == self->T->id
                                                     && gs.pspmv.idF == (gs.apz.idz == self->s->id ? self->p->id : self->s->id)))))
/* C01: stopping before the budget is exhausted means the reported residual passed the test */
#ifndef VARIANT_CHECK_AFTER
__CPROVER_ensures((!EARLY(self) && !g_thrown && RET.iters < self->prm.maxiter) ==> !UF_LESS(EPSV(self), gs.norm.val))
__CPROVER_ensures((!EARLY(self) && !g_thrown && RET.iters == 0 && self->prm.maxiter > 0) ==> !UF_LESS(EPSV(self), g_norm_in1))
#else
__CPROVER_ensures((!EARLY(self) && !g_thrown && RET.iters < self->prm.maxiter && RET.iters > 0) ==> !UF_LESS(EPSV(self), gs.norm.val))
#endif
#ifdef VARIANT_CONVERGED_GUESS
__CPROVER_ensures(!g_thrown && RET.iters == 0 && x_p->version == OLD(x_p->version))
#endif
/* a thrown breakdown leaves x defined (possibly advanced by the half step); rhs and A are in no assigns clause */
__CPROVER_ensures(x_p->defined)
__CPROVER_ensures(x_p->id == OLD(x_p->id) && !x_p->readonly)
/* a breakdown is reported only after the operator has been applied at least once (it is a property of computed data) */
__CPROVER_ensures(g_thrown ==> (!EARLY(self) && gs.pspmv.calls >= 1))
{
  const bicg_params prm = self->prm;
  vec *const r = self->r, *const p = self->p, *const v = self->v, *const s = self->s, *const t = self->t, *const rh = self->rh, *const T = self->T;
#define A (*A_p)
#define P (*P_p)
#define rhs (*rhs_p)
#define x (*x_p)
/*@CUT:body@*/
#undef A
#undef P
#undef rhs
#undef x
}
void h_f_bicgstab(void) { const bicg *self; const mat *A; const precond *P; const vec *rhs; vec *x; f_bicgstab(self, A, P, rhs, x); }
"""

BICG_LOOP = r"""
__CPROVER_assigns(first, iter, rho1, rho2, alpha, omega, res, g_thrown, *x_p, *r, *p, *v, *s, *t, *T, gs)
__CPROVER_loop_invariant(x_p->id == 2 && !x_p->readonly && WS_KEEP(r, 3) && WS_KEEP(p, 4) && WS_KEEP(v, 5) && WS_KEEP(s, 6) && WS_KEEP(t, 7) && WS_KEEP(T, 9))
__CPROVER_loop_invariant(iter <= prm.maxiter && first == (iter == 0) && g_thrown == 0)
__CPROVER_loop_invariant(r->defined && rh->defined && x_p->defined && (iter > 0 ==> (p->defined && v->defined)))
__CPROVER_loop_invariant(s->version == __CPROVER_loop_entry(s->version) + iter)
__CPROVER_loop_invariant(x_p->version == __CPROVER_loop_entry(x_p->version) + gs.ax.calls)
__CPROVER_loop_invariant(gs.pspmv.calls <= 2 * iter && (iter > 0 ==> gs.pspmv.calls >= 1))
__CPROVER_loop_invariant(iter == 0 ? (gs.apz.calls == 0 && gs.ax.calls == 0) : (gs.apz.calls + 1 == gs.ax.calls + iter && gs.apz.at_ax == gs.ax.calls))
__CPROVER_loop_invariant(gs.clear.calls == 0 && gs.res.calls == 1 && gs.res.idf == rhs_p->id && gs.res.idA == A_p->id && gs.res.idx == x_p->id
                         && gs.res.xver == __CPROVER_loop_entry(x_p->version) && gs.res.idr == __CPROVER_loop_entry(gs.res.idr))
__CPROVER_loop_invariant(gs.norm.id0 == __CPROVER_loop_entry(gs.norm.id0) && gs.norm.calls >= 1 && gs.norm.calls <= 2)
__CPROVER_loop_invariant((iter > 0 || !prm.check_after) ==> res == gs.norm.val)
__CPROVER_loop_invariant((iter == 0 && !prm.check_after) ==> (res == g_norm_in1 && gs.norm.calls == 2 && gs.norm.id == r->id && gs.norm.ver == r->version))
__CPROVER_loop_invariant(iter > 0 ==> (gs.norm.id == gs.apz.idz && gs.norm.ver == gs.apz.zver
                         && ((gs.apz.idz == s->id && gs.apz.zver == s->version) || (gs.apz.idz == r->id && gs.apz.zver == r->version))))
__CPROVER_loop_invariant(iter > 0 ==> (gs.ax.idy == x_p->id && gs.ax.b == one
                         && (prm.pside == side_left ? (gs.ax.idx == (gs.apz.idz == s->id ? p->id : s->id))
                                                    : (gs.ax.idx == T->id && gs.ax.xver == gs.pspmv.Tver && gs.pspmv.idT == T->id
                                                       && gs.pspmv.idF == (gs.apz.idz == s->id ? p->id : s->id)))))
#ifdef VARIANT_CONVERGED_GUESS
__CPROVER_loop_invariant(iter == 0)
#endif
__CPROVER_decreases(prm.maxiter - iter)
"""

BICG_CMP = Cmp(r'(?:\(\w+ = norm\(\*?\w+\)\)|\b(?:eps|res)\b)', '+')

bicgstab = Unit(
    name='solver_bicgstab', props=['C01', 'C05', 'C15', 'C10'],
    functions=['solver::bicgstab<Backend>::operator()(A, P, rhs, x)'],
    desc='BiCGStab solve body: budget; reported residual = norm of the vector written by the last residual update (s or r) / ||rhs||; '
         'each x update paired with a residual update; left/right preconditioning; breakdown throws; workspace never read before written; '
         'zero rhs exit; converged guess returned unchanged (check_after = false); rhs/A never written',
    cuts={'body': Cut('amgcl/solver/bicgstab.hpp', SIG4,
                      rules=DROP_IO + SIDE_RULES + [PSPMV_RULE] + SOLVER_RULES + [BICG_CMP],
                      uf=[UF_DECL, UF_TERN, UF_ASSIGN],
                      loops=[Loop(r'for\(bool first', BICG_LOOP, prefix=True)])},
    template=BICG_T,
    enforce='f_bicgstab', replace=ORCH2, mode='inductive', obj_bits=12, replay='solvers',
    variants=[{}, {'VARIANT_CONVERGED_GUESS': 1, 'CXC_NOCOVER': 1}],
    assumptions=A_SOLV + ['A-case: this unit covers prm.check_after == false; prm.check_after == true is unit solver_bicgstab_check_after'],
    not_decided=['that the recursively updated residual vectors s, r equal f - A x up to rounding (algebraic identity over the reals)',
                 'convergence within the budget; rounding bounded by conditioning'],
)

# same body, same contract, the other half of the case split: prm.check_after == true.  The unchanged code FAILS the
# truthful-residual clause here (candidate genuine defect): res is initialised to 2*eps and, when the loop is not entered
# (maxiter == 0, or eps is 0 / inf / NaN so that 2*eps > eps is false, e.g. tol = abstol = 0), 2*eps/||rhs|| is returned
# although no norm of any residual was evaluated.
bicgstab_ca = Unit(
    name='solver_bicgstab_check_after', props=['C01', 'C15', 'C10'],
    functions=['solver::bicgstab<Backend>::operator()(A, P, rhs, x)'],
    desc='BiCGStab solve body with prm.check_after == true (documented exception to the converged-guess clause); same contract as solver_bicgstab',
    cuts={'body': Cut('amgcl/solver/bicgstab.hpp', SIG4,
                      rules=DROP_IO + SIDE_RULES + [PSPMV_RULE] + SOLVER_RULES + [BICG_CMP],
                      uf=[UF_DECL, UF_TERN, UF_ASSIGN],
                      loops=[Loop(r'for\(bool first', BICG_LOOP, prefix=True)])},
    template=BICG_T.replace('f_bicgstab', 'f_bicgstab_ca'),
    enforce='f_bicgstab_ca', replace=ORCH2, mode='inductive', obj_bits=12, replay='solvers',
    variants=[{'VARIANT_CHECK_AFTER': 1}],
    assumptions=A_SOLV,
    not_decided=bicgstab.not_decided,
)

UNITS = [pspmv, bicgstab, bicgstab_ca]


# ============================================================================ handle-based units (Krylov bases)
import cxc.extract as _X
_X.OPAQUE_CALLS.update(['VREF', 'sc_rd', 'sc_wr', 'h_rd', 'h_wr', 'h_ix'])

ORCH_H = ['bh_residual', 'bh_spmv', 'bh_axpby', 'bh_axpbypcz', 'bh_copy', 'bh_clear', 'bh_inner_product', 'bh_norm',
          'bh_papply', 'bh_pspmv', 'bh_lin_comb', 'bs_gen_rot', 'bs_app_rot']
A_HANDLES = A_SOLV + [
    'A-basis: an array of vectors is abstracted to "elements [0, upto) written in this call" (ghost gs.bas); a write to element upto extends the prefix, '
    'a read needs index < upto; every subscript is checked against the number of vectors the constructor allocates (constructor text quoted in the contract)',
    'A-scalar: H, s, cs, sn (and other scalar work arrays) are folded into one cell that is made nondeterministic before every read; '
    'obligations are subscript-within-allocation and written-in-this-call-before-read (window / column-progress ghosts gs.sc)',
    'A-givens: generate_plane_rotation / apply_plane_rotation write only their reference arguments (scalar code, no memory access)',
    'A-nowrap: restart length M (+K) <= 2^20 so that unsigned index arithmetic does not wrap',
]

# ---------------------------------------------------------------------------- preconditioner::spmv on handles
PSPMV_H_T = r"""
#define ORCH_HANDLES 1
#include "orch_solvers.h"
int g_thrown;
#if KF
#define REQ_F (F.p == &gs.dummy && F.b >= 0 && F.b < NB)
#else
#define REQ_F (__CPROVER_is_fresh(F.p, sizeof(vec)) && F.b == -1)
#endif
#if KX
#define REQ_X (X.p == &gs.dummy && X.b >= 0 && X.b < NB)
#else
#define REQ_X (__CPROVER_is_fresh(X.p, sizeof(vec)) && X.b == -1)
#endif
#if KT
#define REQ_T (T.p == &gs.dummy && T.b >= 0 && T.b < NB)
#else
#define REQ_T (__CPROVER_is_fresh(T.p, sizeof(vec)) && T.b == -1)
#endif
void f_pspmv_h(side_type pside, const precond *P_p, const mat *A_p, hv F, hv X, hv T)
__CPROVER_requires(__CPROVER_is_fresh(P_p, sizeof(precond)) && __CPROVER_is_fresh(A_p, sizeof(mat)))
__CPROVER_requires(REQ_F && REQ_X && REQ_T)
__CPROVER_requires(gs.bas.upto[0] < MAXITER_BOUND && gs.bas.upto[1] < MAXITER_BOUND && gs.bas.upto[2] < MAXITER_BOUND && gs.bas.upto[3] < MAXITER_BOUND)
PSPMV_H_CONTRACT(pside, P_p, A_p, F, X, T)
{
  typedef V scalar;
#define P (*P_p)
#define A (*A_p)
/*@CUT:body@*/
#undef P
#undef A
}
void h_f_pspmv_h(void) { side_type s; const precond *P; const mat *A; hv F, X, T; f_pspmv_h(s, P, A, F, X, T); }
"""
pspmv_h = Unit(
    name='precond_side_spmv_h', props=['C01', 'C15', 'C10'],
    functions=['preconditioner::spmv(pside, P, A, F, X, T)'],
    desc='the same body under the handle form of the contract (F, X, T each a single vector or a Krylov basis element): '
         'this is the contract the GMRES-family / BiCGStab(L) units use at their preconditioner::spmv call sites',
    cuts={'body': Cut('amgcl/solver/precond_side.hpp',
                      r'inline void spmv\(side::type pside, const Precond &P, const Matrix &A,\s*const VecF &F, VecX &X, VecT &T\)\s*(?=\{)',
                      rules=[Rule(r'^\s*typedef [^;]*;\n', '', 2, why='value/scalar typedefs are given by the template'),
                             Rule(r'\bside::(\w+)', r'side_\1', '+', why='enum -> C enum'),
                             Rule(r'\bP\.apply\(', 'P_APPLY(P, ', '+', why='member call -> C call')],
                      uf=[UF(r'\bconst scalar\s+\w+\s*=\s*(?P<e>[^;]+);', '+')])},
    template=PSPMV_H_T, enforce='f_pspmv_h', replace=ORCH_H, mode='loopfree', obj_bits=12,
    variants=[{'KF': f, 'KX': x, 'KT': 0} for f in (0, 1) for x in (0, 1)],
    assumptions=A_ORCH,
)
UNITS.append(pspmv_h)

# ---------------------------------------------------------------------------- GMRES family: shared rules
SIG4G = r'std::tuple<size_t, scalar_type> operator\(\)\(\s*Matrix  const &A,\s*Precond const &P,\s*Vec1    const &rhs,\s*Vec2          &x\s*\) const\s*(?=\{)'

def basis_rules(names):
    """*name[e] -> VREF(B_name, e) for the arrays of vectors `names` (regex alternation)"""
    return [Rule(r'\*(%s)\[([^\]]+)\]' % names, r'VREF(B_\1, \2)', '+', why='element of an array of vectors -> handle (index checked against the allocation)'),
            Rule(r'\bvector &(\w+) = ', r'hv \1 = ', None, why='C++ reference to a vector -> copy of the handle')]

SCALAR_RULES = [
    Rule(r'\bdetail::', '', None, why='R-ns'),
    Rule(r'\bstd_fill\((\w+)\.begin\(\), \1\.end\(\), 0\)', r'FILL0(\1)', None, why='std::fill(a.begin(), a.end(), 0) -> fill of the whole scalar array'),
    # a op= b  ->  a = a op (b)   (so that the arithmetic can be brought to UF form)
    Rule(r'^(\s*)([^\s;=][^;=\n]*?)\s*([-+*/])=\s*([^;\n]+);', r'\1\2 = \2 \3 (\4);', None, why='compound assignment expanded'),
    # outputs of generate_plane_rotation are its last two (reference) arguments
    Rule(r'\bgenerate_plane_rotation\(([^;]*),\s*(\w+)\[([^\]]+)\],\s*(\w+)\[([^\]]+)\]\)', r'generate_plane_rotation(\1, \2[sc_wr(SC_\2, \3)], \4[sc_wr(SC_\4, \5)])', None,
         why='reference outputs are writes'),
    Rule(r'\b(H)\(([^()]*)\)\s*=(?!=)', r'\1d[h_wr(\2)] =', None, why='H(i,j) = .. is a write (index + progress ghost)'),
    Rule(r'\b(H0)\(([^()]*)\)\s*=(?!=)', r'\1d[h_ix(\2)] =', None, why='H0(i,j) = .. (write-only copy): index check'),
    Rule(r'\b(H)\(([^()]*)\)', r'\1d[h_rd(\2)]', None, why='H(i,j) read (index + written-before-read)'),
    Rule(r'\b(s|cs|sn)\[(?!sc_)([^\]]+)\]\s*=(?!=)', r'\1[sc_wr(SC_\1, \2)] =', None, why='a[i] = .. is a write'),
    Rule(r'\b(s|cs|sn)\[(?!sc_)([^\]]+)\]', r'\1[sc_rd(SC_\1, \2)]', None, why='a[i] read'),
    Rule(r'\blin_comb\((\w+), (\w+), (\w+), ', r'LIN_COMB(\1, SC_\2, B_\3, ', None, why='lin_comb(n, coefficients, basis, ..): arrays named by their ids'),
]
# assignments to any lvalue whose right-hand side contains a binary arithmetic operator
UF_ASSIGN_LV = UF(r'^\s*[^;=\n{}]+?\s=\s(?P<e>[^;=?\n]*\s[-+*/]\s[^;=?\n]*);', None)
GM_SCALAR_ATOM = r'(?:\b(?:norm_rhs|eps|norm_r|inner_res|EPS\(\d+\))(?!\w))'

GMRES_T = r"""
#define ORCH_HANDLES 1
#include "orch_solvers.h"
int g_thrown;
typedef struct gmres_params { unsigned M; side_type pside; size_t maxiter; V tol; V abstol; _Bool ns_search; _Bool verbose; } gmres_params;
/* H is (M+1) x M, s, cs, sn have M+1 entries, v has M+1 vectors (constructor, gmres.hpp:134-143) */
typedef struct gmres { gmres_params prm; size_t n; vec *r; } gmres;
enum { B_v = 0 };
#define EPS1 EPS(1)
#define EARLY(self) (UF_LESS(g_norm_in0, EPS1) && !(self)->prm.ns_search)
#define NRHS(self) (UF_LESS(g_norm_in0, EPS1) ? MATH_identity(V) : g_norm_in0)
#define EPSV(self) UF_MAX(UF_MUL((self)->prm.tol, NRHS(self)), (self)->prm.abstol)
#define RET __CPROVER_return_value
#define LEFT(self) ((self)->prm.pside == side_left)
#define OLD(e) __CPROVER_old(e)

result f_gmres(const gmres *self, const mat *A_p, const precond *P_p, const vec *rhs_p, vec *x_p)
__CPROVER_requires(__CPROVER_is_fresh(self, sizeof(*self)) && __CPROVER_is_fresh(A_p, sizeof(mat)) && __CPROVER_is_fresh(P_p, sizeof(precond)))
__CPROVER_requires(__CPROVER_is_fresh(rhs_p, sizeof(vec)) && __CPROVER_is_fresh(x_p, sizeof(vec)) && __CPROVER_is_fresh(self->r, sizeof(vec)))
__CPROVER_requires(UF_AXIOMS && self->prm.maxiter <= MAXITER_BOUND && self->prm.M >= 1 && self->prm.M <= (1u << 20))
__CPROVER_requires(rhs_p->defined && rhs_p->readonly && x_p->defined && !x_p->readonly && rhs_p->id == 1 && x_p->id == 2)
/* C15: r, the basis v and the scalar arrays hold whatever an earlier call left there (GS_ZERO: nothing written yet) */
__CPROVER_requires(WS_ENTRY(self->r, 3) && GS_ZERO)
/* allocation sizes of the constructor */
__CPROVER_requires(gs_blen[B_v] == (size_t)self->prm.M + 1 && gs_hdim[0] == (size_t)self->prm.M + 1 && gs_hdim[1] == self->prm.M)
__CPROVER_requires(gs_sclen[SC_s] == (size_t)self->prm.M + 1 && gs_sclen[SC_cs] == (size_t)self->prm.M + 1 && gs_sclen[SC_sn] == (size_t)self->prm.M + 1)
#ifdef VARIANT_CONVERGED_GUESS
/* C15: the initial guess already satisfies the tolerance (the test of the code is norm_r < eps) */
__CPROVER_requires(!EARLY(self) && UF_LESS(g_norm_in1, EPSV(self)))
#endif
__CPROVER_assigns(*x_p, *self->r, gs)
/* C01: iteration budget */
__CPROVER_ensures(RET.iters <= self->prm.maxiter)
/* C15: zero right-hand side */
__CPROVER_ensures(EARLY(self) ==> (RET.iters == 0 && RET.resid == g_norm_in0 && gs.clear.calls == 1 && gs.clear.id == x_p->id && gs.res.calls == 0))
/* C01: the number returned is ||r|| / ||rhs|| (last norm evaluated, taken of r in its final state) ... */
__CPROVER_ensures(!EARLY(self) ==> (RET.resid == UF_DIV(gs.norm.val, NRHS(self)) && gs.norm.id == self->r->id && gs.norm.ver == self->r->version
                                    && gs.norm.id0 == rhs_p->id && gs.clear.calls == 0))
/* ... where r was produced by residual(rhs, A, x, .) from the x that is returned (x not written since), on EVERY exit path */
__CPROVER_ensures(!EARLY(self) ==> (gs.res.idf == rhs_p->id && gs.res.idA == A_p->id && gs.res.idx == x_p->id && gs.res.xver == x_p->version))
/* right: directly into r; left: into v[0], then r = P v[0] with v[0] not rewritten in between (preconditioned residual) */
__CPROVER_ensures((!EARLY(self) && !LEFT(self)) ==> (gs.res.idr == self->r->id && gs.res.rver == self->r->version))
__CPROVER_ensures((!EARLY(self) && LEFT(self)) ==> (gs.res.idr == BAS_ID(B_v) && gs.res.ir == 0 && gs.pa.in == BAS_ID(B_v) && gs.pa.iin == 0 && gs.pa.inver == gs.res.rver
                                    && gs.pa.out == self->r->id && gs.pa.outver == self->r->version))
/* x is advanced once per restart cycle: x += (P) sum_i s[i] v[i] */
__CPROVER_ensures(!EARLY(self) ==> (x_p->version == OLD(x_p->version) + gs.lc.calls && gs.lc.calls <= RET.iters))
__CPROVER_ensures((!EARLY(self) && gs.lc.calls > 0) ==> (gs.lc.b == B_v && gs.lc.cid == SC_s && gs.lc.n <= self->prm.M && gs.lc.beta == MATH_zero(V) && gs.lc.idy == self->r->id
                                    && gs.ax.idy == x_p->id && gs.ax.a == MATH_identity(V) && gs.ax.b == MATH_identity(V)
                                    && (LEFT(self) ? gs.ax.idx == self->r->id : (gs.ax.idx == BAS_ID(B_v) && gs.ax.ix == 0))))
/* C01: stopping before the budget is exhausted means the reported residual passed the test */
__CPROVER_ensures((!EARLY(self) && RET.iters < self->prm.maxiter) ==> UF_LESS(gs.norm.val, EPSV(self)))
__CPROVER_ensures((!EARLY(self) && RET.iters == 0 && self->prm.maxiter > 0) ==> UF_LESS(g_norm_in1, EPSV(self)))
#ifdef VARIANT_CONVERGED_GUESS
__CPROVER_ensures(RET.iters == 0 && x_p->version == OLD(x_p->version))
#endif
__CPROVER_ensures(x_p->defined && x_p->id == OLD(x_p->id) && !x_p->readonly)
{
  const gmres_params prm = self->prm;
  hv r_h = HV(self->r); hv *const r = &r_h;
  const hv x = HV(x_p), rhs = HV((vec *)rhs_p);
  V *const s = &gs.sc.cell, *const cs = &gs.sc.cell, *const sn = &gs.sc.cell, *const Hd = &gs.sc.cell;
#define A (*A_p)
#define P (*P_p)
/*@CUT:body@*/
#undef A
#undef P
}
void h_f_gmres(void) { const gmres *self; const mat *A; const precond *P; const vec *rhs; vec *x; f_gmres(self, A, P, rhs, x); }
"""

# facts about the scalar arrays / basis that hold from the start of the inner iteration on
GM_SC_KEEP = "gs.sc.lo[SC_s] == 0 && gs.sc.hi[SC_s] == (size_t)prm.M + 1 && gs.sc.lo[SC_cs] == 0 && gs.sc.lo[SC_sn] == 0"

GMRES_OUTER = r"""
__CPROVER_assigns(iter, norm_r, *x_p, *self->r, gs)
__CPROVER_loop_invariant(iter <= prm.maxiter && x_p->defined && x_p->id == 2 && !x_p->readonly && WS_KEEP(self->r, 3))
__CPROVER_loop_invariant(gs.norm.calls == (iter == 0 ? 1 : 2))
__CPROVER_loop_invariant(gs.norm.id0 == 1 && gs.clear.calls == 0 && gs.sc.lo[SC_cs] == 0 && gs.sc.lo[SC_sn] == 0)
__CPROVER_loop_invariant(x_p->version == __CPROVER_loop_entry(x_p->version) + gs.lc.calls && gs.lc.calls <= iter)
__CPROVER_loop_invariant(gs.lc.calls > 0 ==> (gs.lc.b == B_v && gs.lc.cid == SC_s && gs.lc.n <= prm.M && gs.lc.beta == zero && gs.lc.idy == 3
                         && gs.ax.idy == 2 && gs.ax.a == one && gs.ax.b == one
                         && (prm.pside == side_left ? gs.ax.idx == 3 : (gs.ax.idx == BAS_ID(B_v) && gs.ax.ix == 0))))
#ifdef VARIANT_CONVERGED_GUESS
__CPROVER_loop_invariant(iter == 0 && gs.lc.calls == 0)
#endif
"""
GMRES_INNER = r"""
__CPROVER_assigns(j, iter, *self->r, gs.bas, gs.ax, gs.sc, gs.dummy, gs.norm, gs.pa, gs.spmv, gs.pspmv)
__CPROVER_loop_invariant(j < prm.M && iter < prm.maxiter && (j == 0 ? iter == __CPROVER_loop_entry(iter) : iter > __CPROVER_loop_entry(iter)) && WS_KEEP(self->r, 3))
__CPROVER_loop_invariant(gs.norm.calls == 2 && gs.norm.id0 == 1)
__CPROVER_loop_invariant(gs.bas.upto[B_v] >= (size_t)j + 1)
__CPROVER_loop_invariant(GM_SC_KEEP && gs.sc.hi[SC_cs] >= j && gs.sc.hi[SC_sn] >= j)
__CPROVER_decreases(prm.M - j)
""".replace('GM_SC_KEEP', GM_SC_KEEP)
GMRES_MGS = r"""
__CPROVER_assigns(k, gs.bas, gs.ax, gs.sc, gs.dummy)
__CPROVER_loop_invariant(k <= j + 1 && gs.bas.upto[B_v] >= (size_t)j + 2)
__CPROVER_loop_invariant(GM_SC_KEEP && gs.sc.hi[SC_cs] >= j && gs.sc.hi[SC_sn] >= j)
__CPROVER_decreases(j + 1 - k)
""".replace('GM_SC_KEEP', GM_SC_KEEP)
GMRES_ROT = r"""
__CPROVER_assigns(k, gs.sc)
__CPROVER_loop_invariant(k <= j && GM_SC_KEEP && gs.sc.hi[SC_cs] >= j && gs.sc.hi[SC_sn] >= j)
__CPROVER_decreases(j - k)
""".replace('GM_SC_KEEP', GM_SC_KEEP)
GMRES_BS1 = r"""
__CPROVER_assigns(i, gs.sc)
__CPROVER_loop_invariant(i <= j && GM_SC_KEEP)
__CPROVER_decreases(i)
""".replace('GM_SC_KEEP', GM_SC_KEEP)
GMRES_BS2 = r"""
__CPROVER_assigns(k, gs.sc)
__CPROVER_loop_invariant(k <= i && i < j && GM_SC_KEEP)
__CPROVER_decreases(i - k)
""".replace('GM_SC_KEEP', GM_SC_KEEP)

GM_NOT_DECIDED = ['that the Arnoldi / Givens recurrences minimise the residual (C05: optimality, reference equivalence)',
                  'rounding bounded by conditioning; convergence within the budget',
                  'the values held by H, s, cs, sn (only subscripts, and for s, cs, sn written-in-this-call-before-read, are tracked)',
                  'written-before-read of the Hessenberg matrix H (index safety of H is proved)']

gmres = Unit(
    name='solver_gmres', props=['C01', 'C05', 'C15', 'C10'],
    functions=['solver::gmres<Backend>::operator()(A, P, rhs, x)'],
    desc='GMRES(M) solve body: budget; on every exit path the reported residual is the norm of residual(rhs, A, x) (left: P applied) of the RETURNED x; '
         'x advanced once per restart cycle by lin_comb over the basis; basis vectors / H, s, cs, sn never read before written in this call; '
         'all subscripts within the constructor allocation; zero rhs exit; converged guess returned unchanged; rhs/A never written',
    cuts={'body': Cut('amgcl/solver/gmres.hpp', SIG4G,
                      rules=DROP_IO + SIDE_RULES + [PSPMV_RULE] + basis_rules('v') + SCALAR_RULES
                            + [Rule(r'\beps<scalar_type>\((\d+)\)', r'EPS(\1)', None), Cmp(GM_SCALAR_ATOM, '+'),
                               Rule(r'\bP\.apply\(', 'P_APPLY(P, ', None), Rule(r'\bstd_make_tuple\(', 'MAKE_RESULT(', '+'),
                               UFArgs(r'MAKE_RESULT', '+', skip=[0]), UFArgs(r'axpby|axpbypcz|spmv|vmul', None)],
                      uf=[UF_DECL, UF_ASSIGN_LV],
                      loops=[Loop(r'while\(true\)', GMRES_OUTER, nth=0, prefix=True),
                             Loop(r'while\(true\)', GMRES_INNER, nth=1, prefix=True),
                             Loop(r'for\(unsigned k = 0; k <= j', GMRES_MGS, prefix=True),
                             Loop(r'for\(unsigned k = 0; k < j', GMRES_ROT, prefix=True),
                             Loop(r'for \(unsigned i = j; i --> 0', GMRES_BS1, prefix=True),
                             Loop(r'for \(unsigned k = 0; k < i', GMRES_BS2, prefix=True)])},
    template=GMRES_T, enforce='f_gmres', replace=ORCH_H, mode='inductive', obj_bits=12, replay='solvers',
    # cbmc --cover location does not finish in 400 s on the six nested loop contracts (measured); reachability of the
    # body is shown by the mutants (obligations inside every loop level fail when the code is changed there)
    cover=False,
    variants=[{}, {'VARIANT_CONVERGED_GUESS': 1, 'CXC_NOCOVER': 1}],
    assumptions=A_HANDLES + ['A-M: prm.M >= 1 (with M == 0 the constructor allocates a single basis vector and operator() subscripts v[1])'],
    not_decided=GM_NOT_DECIDED,
)
UNITS.append(gmres)
