"""Complex adapter (family C13): amgcl/adapter/complex.hpp -- the row iterator that expands every
complex entry z = a + ib at (r, c) of an n x m matrix into the 2x2 real block

        (2r  , 2c) =  a     (2r  , 2c+1) = -b
        (2r+1, 2c) =  b     (2r+1, 2c+1) =  a

of the real-equivalent 2n x 2m matrix (unknowns interleaved re, im).  Loop free: every member
function is cut from /repo and the emission protocol is checked for an arbitrary base entry,
arbitrary row parity and arbitrary values (uninterpreted value algebra: holds for float, double,
long double)."""
from cxc.extract import Cut, Rule, UF
from cxc.unit import Unit

CPLX = 'amgcl/adapter/complex.hpp'

A_CPLX = [
    'A-uf: real(), imag() are the two components of the complex value, unary minus is an uninterpreted function (proof holds for every real scalar type)',
    'A-base: the wrapped row iterator (Base) is abstract: a current (column, value) pair and a position counter; ++base moves to an arbitrary next entry',
    'A-col: 2*cols(A)+1 is representable in col_type (otherwise the real-equivalent matrix cannot be indexed at all)',
    'A-inst: Matrix is any type with backend::rows/cols/nonzeros/row_begin; sizes are size_t',
]

PRELUDE = r'''
#define MODEL_UF 1
#include "amgcl_c.h"
int g_thrown;
/* std::complex<T>: two components */
typedef struct { V re, im; } cplx;
#define std_real(z) ((z).re)
#define std_imag(z) ((z).im)
/* abstract Base row iterator of the wrapped complex matrix */
typedef struct { _Bool valid; col_type col; cplx val; unsigned long pos; } base_it;
col_type nondet_col(void); V nondet_V(void); _Bool nondet_bool(void);
static void base_inc(base_it *b) { b->pos++; b->valid = nondet_bool(); b->col = nondet_col(); b->val.re = nondet_V(); b->val.im = nondet_V(); }
/* abstract wrapped matrix: only its dimensions and row_begin are used */
typedef struct { size_t nrows, ncols, nnz; } cmatrix;
#define rows(A) ((A).nrows)
#define cols(A) ((A).ncols)
#define nonzeros(A) ((A).nnz)
size_t g_row_asked;                      /* ghost: which row of A was opened */
static base_it cm_row_begin(const cmatrix *A, size_t row)
{ base_it b; g_row_asked = row; b.pos = 0; b.valid = nondet_bool(); b.col = nondet_col(); b.val.re = nondet_V(); b.val.im = nondet_V(); return b; }
/* complex_adapter<Matrix> { const Matrix &A; }  and its row_iterator { Base base; bool row_real; bool col_real; } */
typedef struct { const cmatrix *A; } complex_adapter;
typedef struct { base_it base; _Bool row_real; _Bool col_real; } cplx_row_iterator;
typedef V value_type_r;

#define A (*self->A)
static size_t ca_rows(const complex_adapter *self)
{
/*@CUT:rows@*/
}
static size_t ca_cols(const complex_adapter *self)
{
/*@CUT:cols@*/
}
static size_t ca_nonzeros(const complex_adapter *self)
{
/*@CUT:nonzeros@*/
}
/* row_iterator(const Base &base, bool row_real) : base(base), row_real(row_real), col_real(true) {} */
static cplx_row_iterator cri_ctor(base_it base, _Bool row_real)
{
  cplx_row_iterator it_;
  cplx_row_iterator *self = &it_;
/*@CUT:it_init@*/
  return it_;
}
static cplx_row_iterator ca_row_begin(const complex_adapter *self, size_t i)
{
/*@CUT:row_begin@*/
}
#undef A
#define base (self->base)
#define row_real (self->row_real)
#define col_real (self->col_real)
static _Bool cri_ok(const cplx_row_iterator *self)
{
/*@CUT:it_bool@*/
}
static void cri_inc(cplx_row_iterator *self)
{
/*@CUT:it_inc@*/
}
static col_type cri_col(const cplx_row_iterator *self)
{
/*@CUT:it_col@*/
}
static V cri_value(const cplx_row_iterator *self)
{
/*@CUT:it_value@*/
}
#undef base
#undef row_real
#undef col_real
#define ENSURES(c, msg) __CPROVER_assert(c, "ensures: " msg)
'''

BASE_RULES = [
    Rule(r'\bbase\.col\(\)', '(base.col)', None, why='Base::col() of the abstract base iterator'),
    Rule(r'\bbase\.value\(\)', '(base.val)', None, why='Base::value() of the abstract base iterator'),
    Rule(r'\+\+base;', 'base_inc(&base);', None, why='Base::operator++'),
    Rule(r'\(\(_Bool\)\(base\)\)', '(base.valid)', None, why='Base::operator bool'),
]

complex_it = Unit(
    name='adapt_complex_row_iterator', props=['C13', 'C10'],
    functions=['adapter::complex_adapter::{rows, cols, nonzeros, row_begin}',
               'adapter::complex_adapter::row_iterator::{ctor, operator bool, operator++, col, value}'],
    desc='complex adapter: dims are 2n x 2m with 4 nnz per entry; row i iterates row i/2 of the complex matrix and emits for each '
         'entry (c, a+ib) the two real entries (2c, a),(2c+1,-b) in an even row and (2c, b),(2c+1, a) in an odd row, '
         'advancing the base iterator once per pair',
    cuts={
        'rows': Cut(CPLX, r'size_t rows\(\) const\s*(?=\{)'),
        'cols': Cut(CPLX, r'size_t cols\(\) const\s*(?=\{)'),
        'nonzeros': Cut(CPLX, r'size_t nonzeros\(\) const\s*(?=\{)'),
        'it_init': Cut(CPLX, r'row_iterator\(const Base &base, bool row_real\)\s*:', kind='region', begin_exclusive=True, end=r'\{\}',
                       rules=[Rule(r'(\w+)\((\w+)\),?', r'self->\1 = \2;', 3, why='member initialiser list -> assignments')]),
        'row_begin': Cut(CPLX, r'row_iterator row_begin\(size_t i\) const\s*(?=\{)',
                         rules=[Rule(r'return row_iterator\(row_begin\(A, ', 'return cri_ctor(cm_row_begin(&A, ', 1,
                                     why='constructor call / backend::row_begin of the wrapped matrix')]),
        'it_bool': Cut(CPLX, r'operator bool\(\) const\s*(?=\{)', rules=BASE_RULES),
        'it_inc': Cut(CPLX, r'row_iterator& operator\+\+\(\)\s*(?=\{)',
                      rules=BASE_RULES + [Rule(r'return \*this;', 'return;', 1, why='reference to self not needed in the C view')]),
        'it_col': Cut(CPLX, r'col_type col\(\) const\s*(?=\{)', rules=BASE_RULES),
        'it_value': Cut(CPLX, r'value_type value\(\) const\s*(?=\{)', rules=BASE_RULES,
                        uf=[UF(r'return (?P<e>[^;]+);', '+')]),
    },
    template=PRELUDE + r'''
/* contract, enforced for an arbitrary wrapped matrix, row index, base entries and values */
void h_complex_it(void)
{
  cmatrix M; complex_adapter Ad; Ad.A = &M;
  __CPROVER_assume(M.nrows <= ((size_t)1 << 40) && M.ncols <= ((size_t)1 << 40) && M.nnz <= ((size_t)1 << 40));
  ENSURES(ca_rows(&Ad) == 2 * M.nrows && ca_cols(&Ad) == 2 * M.ncols, "dimensions of the real-equivalent matrix are 2n x 2m");
  ENSURES(ca_nonzeros(&Ad) == 4 * M.nnz, "every complex entry becomes a 2x2 real block");
  size_t i;
  __CPROVER_assume(i < 2 * M.nrows);
  cplx_row_iterator it = ca_row_begin(&Ad, i);
  ENSURES(g_row_asked == i / 2, "real row i iterates complex row i/2");
  _Bool even = (i % 2 == 0);
  /* first base entry (c, a + ib): column bound = A-col */
  base_it b0 = it.base;
  __CPROVER_assume(b0.col >= 0 && b0.col < (((col_type)1) << (8 * sizeof(col_type) - 3)));
  ENSURES(cri_ok(&it) == b0.valid, "the adapter row is exhausted exactly when the base row is");
  ENSURES(cri_col(&it) == 2 * b0.col, "first entry of the pair: real column 2c");
  ENSURES(cri_value(&it) == (even ? b0.val.re : b0.val.im), "first entry of the pair: a in an even (real) row, b in an odd (imaginary) row");
  cri_inc(&it);
  ENSURES(it.base.pos == b0.pos && it.base.col == b0.col && it.base.val.re == b0.val.re && it.base.val.im == b0.val.im,
          "the base iterator stays on the same complex entry for the second half of the pair");
  ENSURES(cri_ok(&it) == b0.valid, "still inside the pair");
  ENSURES(cri_col(&it) == 2 * b0.col + 1, "second entry of the pair: imaginary column 2c+1");
  ENSURES(cri_value(&it) == (even ? UF_NEG(b0.val.im) : b0.val.re), "second entry of the pair: -b in an even row, a in an odd row");
  cri_inc(&it);
  ENSURES(it.base.pos == b0.pos + 1, "after the pair the base iterator has advanced exactly once");
  /* the next pair starts with the real column again, same row parity */
  base_it b1 = it.base;
  __CPROVER_assume(b1.col >= 0 && b1.col < (((col_type)1) << (8 * sizeof(col_type) - 3)));
  ENSURES(cri_col(&it) == 2 * b1.col && cri_value(&it) == (even ? b1.val.re : b1.val.im), "next pair starts at its real column with the same row parity");
}
''',
    enforce=None, entry='h_complex_it', mode='loopfree', model='uf',
    assumptions=A_CPLX, replay='ioadapt',
    not_decided=['solutions of the real-equivalent system', 'complex_range reinterpretation of vectors', 'block_matrix adapter / unblock_matrix',
                 'mixed precision, hybrid backend, as_block / as_scalar wrappers'],
)
complex_it.replay_asan = True

UNITS = [complex_it]
