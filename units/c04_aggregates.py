"""Aggregation / tentative prolongation (amgcl/coarsening) -- bounded units (unwound):
the contract is enforced for ALL inputs up to the stated size (pattern and values fully
symbolic).  Labelled bounded, never counted as proved.

Instantiation (A-inst-eps): value_type = scalar_type = int32 (commutative ring, |v| <= 3) and
params::eps_strong (float in the repository) is an *integer* in {0, 1}, so that
eps_squared = eps_strong * eps_strong and the strong-connection test
eps_squared * a_ii * a_cc < a_ic * a_ic are evaluated exactly as written, without floating point.
eps = 0 makes every stored non-zero off-diagonal strong, eps = 1 gives a_ii * a_cc < a_ic^2.

The plain_aggregates constructor is verified in two parts (Hoare sequence rule, mid-condition
stated in both harnesses): measured, the monolithic unit does not finish for n = 3 in 5 minutes
(the multiplier miters of the criterion and the greedy pass multiply each other's cost)."""
from cxc.extract import Cut, Rule, UF, Loop, IdxRule
from cxc.unit import Unit
from _common import (BUILTIN, BOUNDED_PRELUDE, CRS_MEMBERS_C, CALL_RULES, crs_member_cuts,
                     member_rules)
from _coarsen_common import (PLAIN, POINTWISE, TENTATIVE, SMOOTHED, COARSEN_PRELUDE, consts_cut,
                             range_for, diagonal_cut, DIAGONAL_C)

A_BOUNDED = [
    'A-bound: nothing is claimed beyond the stated size bound',
    'A-std: std::partial_sum / std::max and std::vector (constant-capacity storage, logical length) are prelude stubs',
    'A-new: operator new[] never returns null; fresh arrays have nondeterministic content (every prior heap content)',
    'A-own: shared_ptr / vector lifetimes are not modelled',
    'A-omp: OpenMP pragmas dropped; loops verified sequentially',
]
A_EPS = ('A-inst-eps: value_type = scalar_type = int32 with |v| <= 3 and params::eps_strong an integer in {0,1} '
         '(float in /repo): the strong-connection test is evaluated exactly as written, no floating point')
A_NODUP = ('A-nodup: no duplicate column inside a row of the input (the property quantifies over sparsity patterns = graphs); '
           'row lengths are then <= n, which is what bounds the per-loop unwinding (unwinding assertions stay on)')
A_DIAG = ('A-diag: every row of A stores exactly one diagonal entry (backend::diagonal() leaves dia[i] '
          'uninitialised for a row without one, so the criterion is undefined there)')

# loops of the extracted bodies are written `for(` / `while(` (repository style) or RANGE_FOR; harness / prelude
# loops are written `for (`.
REPO_LOOPS = r'\bfor\(|\bwhile\(|RANGE_FOR\('


def wit(*names):
    out = []
    for n in names:
        out += ['w_%s_nrows' % n, 'w_%s_ncols' % n, 'w_%s_ptr' % n, 'w_%s_col' % n, 'w_%s_val' % n]
    return out


# ===================================================================== spec functions
# properties of an aggregate numbering (shared by all aggregate units)
SPEC_AGGR = r'''
static _Bool post_ids_in_range(size_t n, const ptrdiff_t *id, size_t count)
{
  for (size_t i = 0; i < NMAX; ++i) if (i < n) {
    if (!(id[i] == -2 || (id[i] >= 0 && (size_t)id[i] < count))) return 0;
  }
  return 1;
}
static _Bool post_surjective(size_t n, const ptrdiff_t *id, size_t count)
{
  if (count > n) return 0;
  for (size_t k = 0; k < NMAX; ++k) if (k < count) {
    _Bool has = 0;
    for (size_t i = 0; i < NMAX; ++i) if (i < n && id[i] == (ptrdiff_t)k) has = 1;
    if (!has) return 0;
  }
  return 1;
}
'''

SPEC_STRONG = r'''
typedef int scalar_type;
ptrdiff_t g_dpos[NMAX + 1];   /* ghost: position of the diagonal entry of row i */
/* plain_aggregates::params, instantiated at scalar_type (A-inst-eps) */
typedef struct { scalar_type eps_strong; } pa_params;

/* expected flags, computed from the documented criterion for the stored entry j of row i:
 *   c != i  &&  eps^2 * a_ii * a_cc < a_ic^2      (|v| <= 3, eps <= 1: no overflow in int)
 * a_ii is the stored diagonal entry, at the ghost position g_dpos[i] (unique by precondition)  */
static _Bool post_strong(const crs *A, int eps, const aggregates *S)
{
  int d[NMAX + 1];
  if (S->sc_n != (size_t)A->ptr[A->nrows]) return 0;
  for (size_t i = 0; i < NMAX; ++i) d[i] = i < A->nrows ? A->val[g_dpos[i]] : 0;
  for (size_t i = 0; i < NMAX; ++i) if (i < A->nrows)
    for (size_t j = 0; j < CAP_NNZ; ++j)
      if ((ptrdiff_t)j >= A->ptr[i] && (ptrdiff_t)j < A->ptr[i + 1]) {
        size_t c = (size_t)A->col[j];
        int v = A->val[j];
        _Bool st = c != i && eps * eps * d[i] * d[c] < v * v;
        if (S->strong_connection[j] != (char)st) return 0;
      }
  return 1;
}
'''

SPEC_IDS = r'''
/* mid-condition on the flags: 0/1, set only on off-diagonal entries */
static _Bool flags_offdiag01(const crs *A, const char *f)
{
  for (size_t i = 0; i < NMAX; ++i) if (i < A->nrows)
    for (size_t j = 0; j < CAP_NNZ; ++j)
      if ((ptrdiff_t)j >= A->ptr[i] && (ptrdiff_t)j < A->ptr[i + 1]) {
        if (!(f[j] == 0 || f[j] == 1)) return 0;
        if (f[j] && A->col[j] == (ptrdiff_t)i) return 0;
      }
  return 1;
}
static _Bool flags_unchanged(const char *f, const char *f0)
{
  for (size_t j = 0; j < CAP_NNZ; ++j) if (f[j] != f0[j]) return 0;
  return 1;
}
static _Bool row_has_strong(const crs *A, const char *f, size_t i)
{
  for (size_t j = 0; j < CAP_NNZ; ++j)
    if ((ptrdiff_t)j >= A->ptr[i] && (ptrdiff_t)j < A->ptr[i + 1] && f[j]) return 1;
  return 0;
}
static _Bool any_strong(const crs *A, const char *f)
{
  for (size_t i = 0; i < NMAX; ++i) if (i < A->nrows && row_has_strong(A, f, i)) return 1;
  return 0;
}
static _Bool post_removed_iff_isolated(const crs *A, const char *f, const ptrdiff_t *id)
{
  for (size_t i = 0; i < NMAX; ++i) if (i < A->nrows) {
    if ((id[i] == -2) != !row_has_strong(A, f, i)) return 0;
  }
  return 1;
}
''' + SPEC_AGGR

# =============================================================== plain_aggregates ctor
SIG_PLAIN = (r'plain_aggregates\(const Matrix &A, const params &prm\)\s*: count\(0\),\s*'
             r'strong_connection\( backend::nonzeros\(A\) \),\s*id\( backend::rows\(A\) \)\s*\{')
MID_PLAIN = r'/\* 2\. Get aggregate ids \*/'

# ---- part 1 of the constructor body: from the opening brace to the comment "2. Get aggregate ids"
STRONG_RULES = [
    Rule(r'^\s*typedef typename backend::value_type<Matrix>::type value_type;\n', '', 1, early=True,
         why='value_type is bound by the value model'),
    Rule(r'^\s*typedef typename math::scalar_of<value_type>::type scalar_type;\n', '', 1, early=True,
         why='scalar_type is bound by the instantiation (A-inst-eps)'),
    Rule(r'auto dia = diagonal\(', 'V *dia = diagonal(', 1,
         why='R-auto; diagonal(A) = f_diagonal(&A, false): callee inlined from /repo'),
    Rule(r'\(\*dia\)\[(\w+)\]', r'dia[IDX(\1, n, "dia")]', '+'),
    IdxRule(r'strong_connection', 'self->sc_n', '+'),
    IdxRule(r'A\.ptr', 'A.nrows + 1', '+'),
    IdxRule(r'A\.col|A\.val', 'nonzeros(A)', '+'),
]

# ---- part 2: from that comment to the closing brace of the constructor
IDS_RULES = [
    Rule(r'std_max<size_t>\(', 'std_max_size_t(', 1),
    Rule(r'std_vector<ptrdiff_t> neib;', 'vec_pd neib = vec_pd_new();', 1, why='R-vector'),
    Rule(r'neib\.reserve\(', 'vec_pd_reserve(&neib, ', 1, why='R-vector'),
    Rule(r'neib\.clear\(\)', 'vec_pd_clear(&neib)', 1, why='R-vector'),
    Rule(r'neib\.push_back\(', 'vec_pd_push_back(&neib, ', 1, why='R-vector'),
    range_for('c', 'neib', 'neib.p', 'neib.n'),
    range_for('i', 'id', 'id', 'self->id_n'),
    Rule(r'throw error::empty_level\(\);', '{ g_thrown = 1; return; }', 1, why='R-throw'),
    Rule(r'std_vector<ptrdiff_t> cnt\((?P<a>[^;]+)\);',
         r'vec_pd cnt_v = vec_pd_new_n(\g<a>); ptrdiff_t *cnt = cnt_v.p;', 1, why='R-vector'),
    Rule(r'std_partial_sum\(', 'std_partial_sum_P(', 1, why='R-vector'),
    Rule(r'cnt\.begin\(\)', 'cnt', '+', why='R-vector'),
    Rule(r'cnt\.end\(\)', '(cnt + cnt_v.n)', '+', why='R-vector'),
    Rule(r'cnt\.back\(\)', 'cnt[cnt_v.n - 1]', '+', why='R-vector'),
    IdxRule(r'cnt', 'cnt_v.n', '+'),
    IdxRule(r'id', 'self->id_n', '+'),
    IdxRule(r'strong_connection', 'self->sc_n', '+'),
    IdxRule(r'A\.ptr', 'A.nrows + 1', '+'),
    IdxRule(r'A\.col|A\.val', 'nonzeros(A)', '+'),
]

NDEF_CUT = Cut(PLAIN, r'const size_t n = rows\(A\);', kind='region', end=r'\n')

SELF_DEFS = r'''
#define A (*A_p)
#define count (self->count)
#define strong_connection (self->strong_connection)
#define id (self->id)
'''
SELF_UNDEFS = r'''
#undef id
#undef strong_connection
#undef count
#undef A
'''

COMPOSE = ('composition: the constructor body is cut in two at the comment "2. Get aggregate ids"; part 1 '
           '(plain_aggregates_strong) establishes the mid-condition "count == 0, id has n slots, flags follow the criterion '
           '(hence are 0/1 and off-diagonal)", part 2 (plain_aggregates_ids) is verified for EVERY 0/1 off-diagonal flag '
           'array; together: Hoare sequence rule')

plain_strong = Unit(
    name='plain_aggregates_strong', props=['C04', 'C10'],
    functions=['coarsening::plain_aggregates::plain_aggregates(const Matrix&, const params&) [part 1: strong connections]',
               'backend::diagonal'],
    desc='strong_connection[j] <=> (c != i && eps^2 * a_ii * a_cc < a_ic^2) for every stored entry; count and id untouched',
    cuts=dict(
        diagonal=diagonal_cut(),
        body=Cut(PLAIN, SIG_PLAIN, kind='region', begin_exclusive=True, end=MID_PLAIN, rules=STRONG_RULES)),
    template='#define MODEL_INT32 1\n' + BOUNDED_PRELUDE + COARSEN_PRELUDE + DIAGONAL_C + SPEC_STRONG + r'''
WITNESS_CRS(A)
int w_eps;
/* contract (enforced by the harness below):
 *   requires crs_wf(A) && square && every row has exactly one stored diagonal && no duplicate column in a row
 *            && |values| <= 3 && eps in {0,1}
 *   assigns  self->strong_connection[0 .. nnz-1] only
 *   ensures  see the ENSURES clauses                                                              */
static void f_plain_strong(aggregates *self, const crs *A_p, const pa_params *prm_p)
{
#define prm (*prm_p)
''' + SELF_DEFS + r'''
  /* member initialisers (part of the anchored signature text):
   *   count(0), strong_connection( backend::nonzeros(A) ), id( backend::rows(A) )               */
  count = 0; aggr_sc_resize(self, nonzeros(A)); aggr_id_resize(self, rows(A));
/*@CUT:body@*/
''' + SELF_UNDEFS + r'''
#undef prm
}
void h_plain_strong(void)
{
  crs *A = crs_input();
  pa_params prm;
  REQUIRES(crs_wf(A, NMAX, NMAX, ZMAX) && A->nrows == A->ncols && crs_vals_small(A, 3));
  { ptrdiff_t dpos[NMAX + 1]; for (size_t i = 0; i < NMAX + 1; ++i) g_dpos[i] = dpos[i]; }   /* nondeterministic ghost */
  REQUIRES(crs_unique_diag(A) && crs_diag_at(A, g_dpos));
  REQUIRES(crs_rows_distinct(A));
  REQUIRES(prm.eps_strong >= 0 && prm.eps_strong <= 1);
  MIRROR_CRS(A, A); w_eps = prm.eps_strong;
  crs_snap s; crs_snapshot(A, &s);
  aggregates S;
  g_thrown = 0;
  f_plain_strong(&S, A, &prm);
  ENSURES(!g_cap_exceeded, "bound artefact: allocation within verification capacity");
  ENSURES(!g_thrown, "aggregates: the strong-connection pass does not throw");
  ENSURES(post_strong(A, prm.eps_strong, &S),
          "aggregates: strong_connection[j] <=> (c != i && eps^2 * a_ii * a_cc < a_ic^2) for every stored entry");
  ENSURES(S.count == 0 && S.id_n == A->nrows, "aggregates: mid-condition count == 0, id has one slot per row");
  ENSURES(crs_unchanged(A, &s), "frame: the input matrix is not modified");
  CANARY("harness.end");
}
''',
    entry='h_plain_strong', mode='unwound', unwind='max(ZMAX,NMAX)+3', model='int32',
    # measured (minisat): 2/4 10 s, 3/5 80 s, 3/6 > 250 s, 4/8 > 300 s (32-bit multiplier miters code vs. criterion)
    variants=[{'NMAX': 2, 'ZMAX': 4}],
    thorough_variants=[{'NMAX': 3, 'ZMAX': 5}],
    bound_text='all square matrices with n <= 2 (thorough 3), nnz <= 4 (thorough 5), one stored diagonal per row, no '
               'duplicate column in a row, values in [-3,3], eps_strong in {0,1}; pattern (symmetric or not, rows unsorted) '
               'and values symbolic',
    assumptions=A_BOUNDED + [A_EPS, A_DIAG, A_NODUP, COMPOSE], replay='coarsening', timeout=600,
    witness=wit('A') + ['w_eps'],
    not_decided=['floating-point evaluation of eps_strong^2 * a_ii * a_cc < a_ic^2 (rounding)',
                 'rows without a stored diagonal entry'],
)
plain_strong.unwindset = [(REPO_LOOPS, 'NMAX+1')]
plain_strong.cover_exempt = r'diagonal\.4$'   # the `if (invert) {` block of backend::diagonal: invert is false here

plain_ids = Unit(
    name='plain_aggregates_ids', props=['C04', 'C10'],
    functions=['coarsening::plain_aggregates::plain_aggregates(const Matrix&, const params&) [part 2: aggregate ids]'],
    desc='for every 0/1 off-diagonal flag array: isolated rows removed, every other row in exactly one aggregate '
         '0 <= id < count; aggregates non-empty and numbered contiguously; count >= 1 or empty_level thrown',
    cuts=dict(
        consts=consts_cut(PLAIN),
        ndef=NDEF_CUT,
        body=Cut(PLAIN, MID_PLAIN, kind='region', end=r'\n    \}\n\};', rules=IDS_RULES)),
    template='#define MODEL_INT32 1\n' + BOUNDED_PRELUDE + COARSEN_PRELUDE + SPEC_IDS + r'''
WITNESS_CRS(A)
char w_strong[CAP_NNZ];
/* contract (enforced by the harness below):
 *   requires crs_wf(A) && square && no duplicate column in a row && count == 0 && id has n slots
 *            && strong_connection has nnz slots, each 0/1, 1 only on off-diagonal entries   (mid-condition)
 *   assigns  self->count, self->id[0 .. n-1]
 *   ensures  see the ENSURES clauses                                                              */
static void f_plain_ids(aggregates *self, const crs *A_p)
{
''' + SELF_DEFS + r'''
/*@CUT:consts@*/
/*@CUT:ndef@*/
/*@CUT:body@*/
''' + SELF_UNDEFS + r'''
}
void h_plain_ids(void)
{
  crs *A = crs_input();
  REQUIRES(crs_wf(A, NMAX, NMAX, ZMAX) && A->nrows == A->ncols);
  REQUIRES(crs_rows_distinct(A));
  aggregates S;
  S.count = 0;
  S.id = (ptrdiff_t *)malloc(sizeof(ptrdiff_t) * CAP_PTR); S.id_n = A->nrows;
  S.strong_connection = (char *)malloc(CAP_NNZ); S.sc_n = (size_t)A->ptr[A->nrows];
  REQUIRES(flags_offdiag01(A, S.strong_connection));
  MIRROR_CRS(A, A);
  for (size_t j = 0; j < CAP_NNZ; ++j) w_strong[j] = S.strong_connection[j];
  crs_snap s; crs_snapshot(A, &s);
  g_thrown = 0;
  f_plain_ids(&S, A);
  ENSURES(!g_cap_exceeded, "bound artefact: allocation within verification capacity");
  ENSURES(flags_unchanged(S.strong_connection, w_strong), "frame: strong_connection is not modified");
  ENSURES(g_thrown || post_removed_iff_isolated(A, w_strong, S.id),
          "aggregates: id[i] == removed <=> row i has no strong off-diagonal entry");
  ENSURES(g_thrown || post_ids_in_range(A->nrows, S.id, S.count),
          "aggregates: every variable with a strong neighbour has 0 <= id[i] < count");
  ENSURES(g_thrown || post_surjective(A->nrows, S.id, S.count),
          "aggregates: every k < count has a member (non-empty, numbered contiguously)");
  ENSURES(g_thrown || S.count >= 1, "aggregates: count >= 1 unless empty_level is thrown");
  ENSURES(!g_thrown || !any_strong(A, w_strong),
          "aggregates: empty_level is thrown only when no variable has a strong neighbour");
  ENSURES(crs_unchanged(A, &s), "frame: the input matrix is not modified");
  CANARY("harness.end");
}
''',
    entry='h_plain_ids', mode='unwound', unwind='max(ZMAX,NMAX)+3', model='int32',
    # measured (minisat): 3/6 15 s, 4/8 > 300 s
    variants=[{'NMAX': 3, 'ZMAX': 6}],
    thorough_variants=[{'NMAX': 3, 'ZMAX': 7}],
    bound_text='all square sparsity patterns with n <= 3, nnz <= 6 (thorough 7), no duplicate column in a row '
               '(symmetric or not, rows unsorted, diagonal stored or not) and all 0/1 off-diagonal strong-connection flags',
    assumptions=A_BOUNDED + [A_NODUP, COMPOSE], replay='coarsening', timeout=600,
    witness=wit('A') + ['w_strong'],
)
plain_ids.unwindset = [(REPO_LOOPS, 'NMAX+1')]

UNITS = [plain_strong, plain_ids]


# ============================================= pointwise_aggregates: block_size > 1 path
# Region: the expansion of the pointwise aggregates / flags to the scalar matrix
# (pointwise_aggregates.hpp, from `count = pw_aggr.count * prm.block_size;` to the end of the
# omp parallel block).  backend::pointwise_matrix and plain_aggregates / remove_small_aggregates
# are GIVEN here: Ap, pw_aggr are symbolic inputs constrained by their postconditions.
SPEC_PW = r'''
typedef struct { unsigned block_size; } pw_params;
/* Ap is the pointwise pattern of A: np x np, rows strictly ascending, block (ip,cp) stored  <=>
 * some scalar entry (ip*b+k, c) with c / b == cp is stored                                  */
static _Bool block_present(const crs *A, unsigned b, size_t ip, size_t cp)
{
  for (size_t q = 0; q < CAP_NNZ; ++q)
    if ((ptrdiff_t)q >= A->ptr[ip * b] && (ptrdiff_t)q < A->ptr[ip * b + b] && (size_t)A->col[q] / b == cp) return 1;
  return 0;
}
static _Bool pointwise_pattern(const crs *A, const crs *Ap, unsigned b)
{
  for (size_t ip = 0; ip < NP; ++ip) if (ip < Ap->nrows)
    for (size_t cp = 0; cp < NP; ++cp) if (cp < Ap->ncols) {
      if ((count_in_row(Ap, ip, cp) == 1) != block_present(A, b, ip, cp)) return 0;
      if (count_in_row(Ap, ip, cp) > 1) return 0;
    }
  return 1;
}
/* pointwise aggregates: result of plain_aggregates + remove_small_aggregates on Ap */
static _Bool pw_aggr_wf(const crs *Ap, const aggregates *P)
{
  _Bool any = 0;
  if (!(P->id_n == Ap->nrows && P->sc_n == (size_t)Ap->ptr[Ap->nrows] && P->count <= Ap->nrows)) return 0;
  for (size_t ip = 0; ip < NP; ++ip) if (ip < Ap->nrows) {
    if (!(P->id[ip] == -2 || (P->id[ip] >= 0 && (size_t)P->id[ip] < P->count))) return 0;
    for (size_t jp = 0; jp < CAP_NNZ; ++jp)
      if ((ptrdiff_t)jp >= Ap->ptr[ip] && (ptrdiff_t)jp < Ap->ptr[ip + 1]) {
        if (!(P->strong_connection[jp] == 0 || P->strong_connection[jp] == 1)) return 0;
        if (P->strong_connection[jp] && Ap->col[jp] == (ptrdiff_t)ip) return 0;
        if (P->strong_connection[jp]) any = 1;
      }
  }
  return any;   /* plain_aggregates did not throw empty_level: some pointwise connection is strong */
}
static _Bool pstrong(const crs *Ap, const aggregates *P, size_t ip, size_t cp)
{
  for (size_t jp = 0; jp < CAP_NNZ; ++jp)
    if ((ptrdiff_t)jp >= Ap->ptr[ip] && (ptrdiff_t)jp < Ap->ptr[ip + 1] && (size_t)Ap->col[jp] == cp && P->strong_connection[jp]) return 1;
  return 0;
}
static _Bool post_pw_ids(const crs *A, unsigned b, const aggregates *P, const aggregates *S)
{
  if (S->id_n != A->nrows) return 0;
  for (size_t i = 0; i < NMAX; ++i) if (i < A->nrows) {
    ptrdiff_t pid = P->id[i / b];
    if (pid >= 0 ? S->id[i] != (ptrdiff_t)b * pid + (ptrdiff_t)(i % b) : S->id[i] >= 0) return 0;
  }
  return 1;
}
static _Bool post_pw_strong(const crs *A, const crs *Ap, unsigned b, const aggregates *P, const aggregates *S)
{
  if (S->sc_n != (size_t)A->ptr[A->nrows]) return 0;
  for (size_t i = 0; i < NMAX; ++i) if (i < A->nrows)
    for (size_t q = 0; q < CAP_NNZ; ++q)
      if ((ptrdiff_t)q >= A->ptr[i] && (ptrdiff_t)q < A->ptr[i + 1]) {
        size_t c = (size_t)A->col[q];
        _Bool st = (c / b == i / b || pstrong(Ap, P, i / b, c / b)) && c != i;
        if (S->strong_connection[q] != (char)st) return 0;
      }
  return 1;
}
'''

PW_RULES = [
    Rule(r'std_vector<ptrdiff_t> j\((?P<a>[^;]+)\);', r'vec_pd j_v = vec_pd_new_n(\g<a>, 0); ptrdiff_t *j = j_v.p;', 1, why='R-vector'),
    Rule(r'std_vector<ptrdiff_t> e\((?P<a>[^;]+)\);', r'vec_pd e_v = vec_pd_new_n(\g<a>, 0); ptrdiff_t *e = e_v.p;', 1, why='R-vector'),
] + member_rules(['count', 'strong_connection', 'id']) + [
    IdxRule(r'j', 'j_v.n', '+'),
    IdxRule(r'e', 'e_v.n', '+'),
    IdxRule(r'self->id', 'self->id_n', '+'),
    IdxRule(r'self->strong_connection', 'self->sc_n', '+'),
    IdxRule(r'pw_aggr\.id', 'pw_aggr.id_n', '+'),
    IdxRule(r'pw_aggr\.strong_connection', 'pw_aggr.sc_n', '+'),
    IdxRule(r'A\.ptr', 'A.nrows + 1', '+'),
    IdxRule(r'A\.col', 'nonzeros(A)', '+'),
    IdxRule(r'Ap\.ptr', 'Ap.nrows + 1', '+'),
    IdxRule(r'Ap\.col', 'nonzeros(Ap)', '+'),
]

pw_block = Unit(
    name='pointwise_aggregates_block', props=['C04', 'C10'],
    functions=['coarsening::pointwise_aggregates::pointwise_aggregates(const Matrix&, const params&, unsigned) '
               '[block_size > 1: expansion of pointwise ids / flags]'],
    desc='id[ip*b+k] == b*pid[ip]+k (negative when the point is removed), count == b*pcount, strong_connection of the '
         'scalar entry (ip*b+k, c) == ((c/b == ip || pointwise-strong(ip, c/b)) && c != ip*b+k)',
    cuts=dict(body=Cut(POINTWISE, r'count = pw_aggr\.count', kind='region',
                       end=r'\s*\}\s*\}\s*(?:///[^\n]*\n\s*)*static \w+ remove_small_aggregates', rules=PW_RULES)),
    template='#define MODEL_INT32 1\n' + BOUNDED_PRELUDE + COARSEN_PRELUDE + SPEC_PW + r'''
WITNESS_CRS(A)
WITNESS_CRS(Ap)
ptrdiff_t w_pid[CAP_PTR]; char w_pstrong[CAP_NNZ]; size_t w_pcount; unsigned w_bs;
/* contract (enforced by the harness below):
 *   requires crs_wf(A), square, n == np*b, rows strictly ascending; Ap == pointwise pattern of A (given:
 *            backend::pointwise_matrix); pw_aggr well-formed pointwise aggregates (given: plain_aggregates +
 *            remove_small_aggregates); strong_connection / id freshly resized (zero)
 *   assigns  self->count, self->id[..], self->strong_connection[..]
 *   ensures  see the ENSURES clauses                                                              */
static void f_pw_expand(aggregates *self, const crs *A_p, const pw_params *prm_p, const crs *Ap_p, const aggregates *pw_aggr_p)
{
#define A (*A_p)
#define prm (*prm_p)
#define Ap (*Ap_p)
#define pw_aggr (*pw_aggr_p)
  /* statements preceding the region in the else-branch:
   *   strong_connection.resize( nonzeros(A) ); id.resize( rows(A) );   (count(0) from the member initialiser) */
  self->count = 0; aggr_sc_resize(self, nonzeros(A)); aggr_id_resize(self, rows(A));
/*@CUT:body@*/
#undef pw_aggr
#undef Ap
#undef prm
#undef A
}
void h_pw_expand(void)
{
  crs *A = crs_input();
  crs *Ap = crs_input();
  pw_params prm; prm.block_size = BS;
  REQUIRES(crs_wf(A, NMAX, NMAX, ZMAX) && A->nrows == A->ncols && crs_rows_sorted(A, 1));
  REQUIRES(Ap->nrows <= NP && A->nrows == Ap->nrows * BS);
  REQUIRES(crs_wf(Ap, NP, NP, ZMAX) && Ap->nrows == Ap->ncols && crs_rows_sorted(Ap, 1));
  REQUIRES(pointwise_pattern(A, Ap, BS));
  aggregates P;
  P.id = (ptrdiff_t *)malloc(sizeof(ptrdiff_t) * CAP_PTR); P.id_n = Ap->nrows;
  P.strong_connection = (char *)malloc(CAP_NNZ); P.sc_n = (size_t)Ap->ptr[Ap->nrows];
  REQUIRES(pw_aggr_wf(Ap, &P));
  MIRROR_CRS(A, A); MIRROR_CRS(Ap, Ap);
  for (size_t i = 0; i < CAP_PTR; ++i) w_pid[i] = P.id[i];
  for (size_t j = 0; j < CAP_NNZ; ++j) w_pstrong[j] = P.strong_connection[j];
  w_pcount = P.count; w_bs = BS;
  crs_snap s; crs_snapshot(A, &s);
  aggregates S;
  g_thrown = 0;
  f_pw_expand(&S, A, &prm, Ap, &P);
  ENSURES(!g_cap_exceeded, "bound artefact: allocation within verification capacity");
  ENSURES(S.count == (size_t)BS * P.count, "pointwise: count == block_size * pointwise count");
  ENSURES(post_pw_ids(A, BS, &P, &S),
          "pointwise: id[ip*b+k] == b*pid[ip]+k for aggregated points, negative for removed points");
  ENSURES(post_pw_strong(A, Ap, BS, &P, &S),
          "pointwise: strong_connection(ip*b+k, c) == ((c/b == ip || pointwise-strong(ip, c/b)) && c != ip*b+k)");
  ENSURES(crs_unchanged(A, &s), "frame: the input matrix is not modified");
  CANARY("harness.end");
}
''',
    entry='h_pw_expand', mode='unwound', unwind='max(ZMAX,NMAX)+3', model='int32',
    variants=[{'NP': 2, 'BS': 2, 'NMAX': 4, 'ZMAX': 8}],
    thorough_variants=[{'NP': 2, 'BS': 2, 'NMAX': 4, 'ZMAX': 8}, {'NP': 2, 'BS': 3, 'NMAX': 6, 'ZMAX': 8}],  # NP=3/BS=2/nnz<=10 measured: > 4800 s
    bound_text='block_size 2, np <= 2 points (thorough 3), scalar nnz <= 8 (thorough 10), rows strictly ascending; scalar '
               'pattern, pointwise ids and pointwise strong flags symbolic',
    assumptions=A_BOUNDED + ['A-given: backend::pointwise_matrix (pattern of Ap) and plain_aggregates / remove_small_aggregates '
                             '(pw_aggr) are given inputs satisfying their postconditions; only the expansion loops are under contract'],
    replay='coarsening', timeout=600,
    witness=wit('A', 'Ap') + ['w_pid', 'w_pstrong', 'w_pcount', 'w_bs'],
)
pw_block.unwindset = [(REPO_LOOPS, 'NMAX+1')]



# ============================================= pointwise_aggregates::remove_small_aggregates
SPEC_RSA = r"""
/* old aggregate k is kept  <=>  min_aggregate <= 1  ||  block_size * |members(k)| >= min_aggregate */
static size_t members(size_t n, const ptrdiff_t *id, size_t k)
{
  size_t c = 0;
  for (size_t i = 0; i < NMAX; ++i) if (i < n && id[i] == (ptrdiff_t)k) ++c;
  return c;
}
static _Bool post_rsa(size_t n, unsigned b, unsigned min_aggregate, const ptrdiff_t *id0, size_t count0,
                      const ptrdiff_t *id, size_t count)
{
  ptrdiff_t newid[NMAX + 1]; size_t m = 0;
  for (size_t k = 0; k < NMAX; ++k) {
    newid[k] = -2;
    if (k < count0 && (min_aggregate <= 1 || (size_t)b * members(n, id0, k) >= min_aggregate)) { newid[k] = (ptrdiff_t)m; ++m; }
  }
  if (count != m) return 0;                         /* count == number of kept aggregates, numbered 0..m-1 in order */
  for (size_t i = 0; i < NMAX; ++i) if (i < n) {
    if (id0[i] == -2 ? id[i] != -2 : id[i] != newid[id0[i]]) return 0;
  }
  return 1;
}
""" + SPEC_AGGR

RSA_RULES = [
    Rule(r'std_vector<ptrdiff_t> count\((?P<a>[^;]+)\);',
         r'vec_pd count_v = vec_pd_new_n(\g<a>); ptrdiff_t *count = count_v.p;', 1, why='R-vector'),
    IdxRule(r'count', 'count_v.n', '+'),
    IdxRule(r'aggr\.id', 'aggr.id_n', '+'),
]

remove_small = Unit(
    name='pointwise_remove_small_aggregates', props=['C04', 'C10'],
    functions=['coarsening::pointwise_aggregates::remove_small_aggregates(size_t, unsigned, unsigned, plain_aggregates&)'],
    desc='aggregates with block_size * size < min_aggregate are removed (their members get id removed), the rest are '
         'renumbered contiguously in order; min_aggregate <= 1: nothing changes',
    cuts=dict(
        consts=consts_cut(POINTWISE),
        body=Cut(POINTWISE, r'static (?:void|size_t|ptrdiff_t|int|unsigned) remove_small_aggregates\(\s*size_t n, unsigned block_size, unsigned min_aggregate,\s*'
                            r'plain_aggregates &aggr\s*\)\s*(?=\{)', rules=RSA_RULES)),
    template='#define MODEL_INT32 1\n' + BOUNDED_PRELUDE + COARSEN_PRELUDE + SPEC_RSA + r"""
ptrdiff_t w_id[CAP_PTR]; size_t w_n, w_count; unsigned w_bs, w_min;
/* contract (enforced by the harness below):
 *   requires n == aggr.id.size() <= NMAX, ids in {removed} u [0, count), count <= n     (plain_aggregates postcondition)
 *   assigns  aggr.count, aggr.id[..]
 *   ensures  see the ENSURES clauses                                                              */
/* the contract is on the aggregates object (count and ids); a return value, should the function have one, is not part of it */
static long f_remove_small(size_t n, unsigned block_size, unsigned min_aggregate, plain_aggregates *aggr_p)
{
#define aggr (*aggr_p)
/*@CUT:consts@*/
/*@CUT:body@*/
#undef aggr
}
void h_remove_small(void)
{
  size_t n; unsigned block_size, min_aggregate;
  plain_aggregates S;
  REQUIRES(n <= NMAX && block_size >= 1 && block_size <= 3 && min_aggregate <= 8);
  S.id = (ptrdiff_t *)malloc(sizeof(ptrdiff_t) * CAP_PTR); S.id_n = n;
  S.strong_connection = (char *)malloc(CAP_NNZ); S.sc_n = 0;
  REQUIRES(S.count <= n && post_ids_in_range(n, S.id, S.count));
  for (size_t i = 0; i < CAP_PTR; ++i) w_id[i] = S.id[i];
  w_n = n; w_count = S.count; w_bs = block_size; w_min = min_aggregate;
  g_thrown = 0;
  f_remove_small(n, block_size, min_aggregate, &S);
  ENSURES(!g_cap_exceeded, "bound artefact: allocation within verification capacity");
  ENSURES(!g_thrown, "remove_small_aggregates does not throw");
  ENSURES(post_rsa(n, block_size, min_aggregate, w_id, w_count, S.id, S.count),
          "remove_small_aggregates: exactly the aggregates with block_size*size >= min_aggregate survive, renumbered contiguously in order; members of removed aggregates get id removed");
  ENSURES(post_ids_in_range(n, S.id, S.count), "remove_small_aggregates: ids stay in {removed} u [0, count)");
  CANARY("harness.end");
}
""",
    entry='h_remove_small', mode='unwound', unwind='NMAX+4', model='none',
    variants=[{'NMAX': 4, 'ZMAX': 1}],
    thorough_variants=[{'NMAX': 5, 'ZMAX': 1}, {'NMAX': 6, 'ZMAX': 1}],
    bound_text='n <= 4 (thorough 6) variables, any aggregate numbering with ids in {removed} u [0,count), block_size 1..3, '
               'min_aggregate 0..8, all symbolic',
    assumptions=A_BOUNDED, replay='coarsening', timeout=300,
    witness=['w_id', 'w_n', 'w_count', 'w_bs', 'w_min'],
)

# ============================================= tentative_prolongation, nullspace.cols == 0
SPEC_TENT = r"""
static _Bool post_tentative(size_t n, size_t naggr, const ptrdiff_t *aggr, const crs *P)
{
  for (size_t i = 0; i < NMAX; ++i) if (i < n) {
    ptrdiff_t len = P->ptr[i + 1] - P->ptr[i];
    if (aggr[i] >= 0) {
      if (len != 1) return 0;                                   /* one entry per aggregated row ...            */
      if (P->col[P->ptr[i]] != aggr[i]) return 0;               /* ... in column aggr[i] (disjoint supports)   */
      if (P->val[P->ptr[i]] != MATH_identity(V)) return 0;      /* ... equal to 1: (P * 1)_i = 1               */
    } else if (len != 0) return 0;                              /* removed rows are empty                      */
  }
  return 1;
}
"""

TENT_RULES = CALL_RULES + [
    Rule(r'crs_set_size\(P, ', 'crs_set_size_d(P, ', 1, why='default argument clean_ptr = false'),
    IdxRule(r'aggr', 'n', '+'),
    IdxRule(r'P->ptr', 'P->nrows + 1', '+'),
    IdxRule(r'P->col|P->val', 'P->nnz', '+'),
]

tentative = Unit(
    name='tentative_prolongation_const', props=['C04', 'C10'],
    functions=['coarsening::tentative_prolongation<Matrix>(n, naggr, aggr, nullspace, block_size) [nullspace.cols == 0]',
               'crs::set_size', 'crs::scan_row_sizes', 'crs::set_nonzeros'],
    desc='piecewise-constant P: one entry (i, aggr[i]) = 1 per aggregated row, none for removed rows; hence well-formed, '
         'disjoint column supports, P*1 = 1 on aggregated rows',
    cuts=dict(crs_member_cuts(),
              mk=Cut(TENTATIVE, r'auto P = std::make_shared<Matrix>\(\);', kind='region', end=r'\n',
                     rules=[Rule(r'auto P = std_make_shared<Matrix>\(\);', 'crs *P = crs_new();', 1)]),
              body=Cut(TENTATIVE, r'\} else \{\n(?=\s*P->set_size\(n, naggr\);)', kind='region', begin_exclusive=True,
                       end=r'\n    \}\n\s*AMGCL_TOC\("tentative"\);', rules=TENT_RULES)),
    template='#define MODEL_INT32 1\n' + BOUNDED_PRELUDE + CRS_MEMBERS_C + SPEC_TENT + r"""
ptrdiff_t w_aggr[CAP_PTR]; size_t w_n, w_naggr;
#define crs_set_size_d(P_, n_, m_) crs_set_size(P_, n_, m_, 0)   /* set_size(n, m, clean_ptr = false) */
/* contract (enforced by the harness below):
 *   requires nullspace.cols == 0 (the else-branch is the region under contract), n <= NMAX, naggr <= n,
 *            aggr[i] < naggr for all i (negative = not aggregated)
 *   assigns  nothing visible to the caller
 *   ensures  see the ENSURES clauses                                                              */
static crs *f_tentative(size_t n, size_t naggr, const ptrdiff_t *aggr, int block_size)
{
/*@CUT:mk@*/
  /* if (nullspace.cols > 0) { ... } else {      -- nullspace.cols == 0 by precondition */
/*@CUT:body@*/
  /* } */
  (void)block_size;
  return P;
}
void h_tentative(void)
{
  size_t n, naggr; int block_size;
  ptrdiff_t *aggr = (ptrdiff_t *)malloc(sizeof(ptrdiff_t) * CAP_PTR);
  REQUIRES(n <= NMAX && naggr <= n);
  for (size_t i = 0; i < NMAX; ++i) if (i < n) REQUIRES(aggr[i] >= -2 && aggr[i] < (ptrdiff_t)naggr);
  for (size_t i = 0; i < CAP_PTR; ++i) w_aggr[i] = aggr[i];
  w_n = n; w_naggr = naggr;
  g_thrown = 0;
  crs *P = f_tentative(n, naggr, aggr, block_size);
  ENSURES(!g_cap_exceeded, "bound artefact: allocation within verification capacity");
  ENSURES(P->nrows == n && P->ncols == naggr, "tentative: P is n x naggr");
  ENSURES(crs_wf(P, NMAX, NMAX, ZMAX) && P->nnz == (size_t)P->ptr[P->nrows],
          "tentative: P is well-formed CRS (monotone ptr from 0, columns in range)");
  ENSURES(post_tentative(n, naggr, aggr, P),
          "tentative: one entry (i, aggr[i]) = 1 per aggregated row, none for removed rows (disjoint supports, P*1 = 1)");
  for (size_t i = 0; i < CAP_PTR; ++i) ENSURES(w_aggr[i] == aggr[i], "frame: aggr is not modified");
  CANARY("harness.end");
}
""",
    entry='h_tentative', mode='unwound', unwind='NMAX+4', model='int32',
    variants=[{'NMAX': 5, 'ZMAX': 5}],
    thorough_variants=[{'NMAX': 5, 'ZMAX': 5}, {'NMAX': 7, 'ZMAX': 7}],
    bound_text='n <= 5 (thorough 7) rows, every aggregate map aggr with aggr[i] in [-2, naggr), naggr <= n, symbolic',
    assumptions=A_BOUNDED + ['A-ring: value_type = int32, math::identity = 1; callee bodies crs::set_size/scan_row_sizes/'
                             'set_nonzeros are inlined from /repo'],
    replay='coarsening', timeout=300,
    witness=['w_aggr', 'w_n', 'w_naggr'],
    not_decided=['the near-null-space branch (nullspace.cols > 0: per-aggregate QR in floating point)'],
)

UNITS = [plain_strong, plain_ids, pw_block, remove_small, tentative]
# crs::set_size(n, m, clean_ptr=false): the `if (clean_ptr) {` block is not taken by tentative_prolongation
tentative.cover_exempt = r'set_size\.1$'
